package c09

import (
	"fmt"
	"reflect"

	"github.com/EliCDavis/polyform/modeling"
	"github.com/EliCDavis/polyform/modeling/marching"
)

// The caller of CombineFields / Field.Combine owns the slice it spreads into the variadic parameter.
// The union must be the union of the fields AT CONSTRUCTION TIME: whatever the caller does to that
// slice afterwards (refill it for the next union, overwrite or clear entries, append) must not change
// what the union samples, and the library must not change the slice's contents.

var reuseNames = []string{"untouched", "refilled for a second union", "one entry overwritten", "entries zeroed", "appended to and first entry overwritten"}

type fieldPrint struct {
	lo, hi [3]float64
	n      int
	fn     uintptr
}

func printOf(f marching.Field) fieldPrint {
	mn, mx := f.Domain.Min(), f.Domain.Max()
	p := fieldPrint{lo: [3]float64{mn.X(), mn.Y(), mn.Z()}, hi: [3]float64{mx.X(), mx.Y(), mx.Z()}, n: len(f.Float1Functions)}
	if fn, ok := f.Float1Functions[modeling.PositionAttribute]; ok && fn != nil {
		p.fn = reflect.ValueOf(fn).Pointer()
	}
	return p
}

// decoyFor is a small sphere 25 cells away from the shape: inside the union's domain it is positive
// everywhere, so a union that samples it instead of the real shape loses the shape.
func decoyFor(s shape, h float64) marching.Field {
	d := shape{Kind: "sphere", C: vadd(s.C, vec{25 * h, 25 * h, 25 * h}), R: 1.5 * h, Strength: 1}
	return d.polyField()
}

// combineWithReuse builds the union of the shapes' constructor fields from a buffer slice the way a
// caller with a reusable buffer would, then abuses the buffer according to variant.
func combineWithReuse(shapes []shape, h float64, variant, spare int, method bool) (u marching.Field, builder, complaint string) {
	n := len(shapes)
	buf := make([]marching.Field, 0, n+spare)
	for _, s := range shapes {
		buf = append(buf, s.polyField())
	}
	builder = "marching.CombineFields"
	if n < 2 {
		return marching.CombineFields(buf...), builder, ""
	}
	before := make([]fieldPrint, n)
	for i := range buf {
		before[i] = printOf(buf[i])
	}
	if method {
		builder = "marching.Field.Combine"
		u = buf[n-1].Combine(buf[:n-1]...)
	} else {
		u = marching.CombineFields(buf...)
	}
	for i := range buf {
		if printOf(buf[i]) != before[i] {
			complaint = fmt.Sprintf("entry %d of the caller's slice was changed by %s", i, builder)
		}
	}
	switch variant {
	case 1:
		buf = buf[:0]
		for _, s := range shapes {
			buf = append(buf, decoyFor(s, h))
		}
		_ = marching.CombineFields(buf...)
	case 2:
		buf[(n+spare)%n] = decoyFor(shapes[0], h)
	case 3:
		for i := range buf {
			buf[i] = marching.Field{}
		}
	case 4:
		buf = append(buf, decoyFor(shapes[n-1], h))
		buf[0] = decoyFor(shapes[0], h)
	}
	return u, builder, complaint
}
