package c09

import (
	"fmt"
	"math"
	"sync"
	"sync/atomic"

	"github.com/EliCDavis/polyform/math/sample"
	"github.com/EliCDavis/vector/vector3"
)

const blockCells = 100 // the canvas stores 100^3 samples per block (observable: block cost, seams)

// recorder wraps the field function handed to polyform and remembers, per
// lattice point, the value the canvas was given. It is the harness's view of
// "the same field on the same lattice". The parallel adders call the wrapped
// function from several goroutines: every lattice point has its own slot in the
// dense arrays, the few shared things are atomics or behind a mutex, and the
// summary (count, range) is computed by finish() after the adder has returned.
type recorder struct {
	cpu      float64
	sum      bool // accumulate repeated samples of one point the way the canvas does (+=); used by histories
	lo, n    [3]int
	val      []float64
	has      []uint32 // 0/1, written with atomics
	mu       sync.Mutex
	extra    map[[3]int]float64
	samples  int
	repeated int64
	offGrid  int64 // sample positions that are not lattice points (never expected)
	smin     [3]int
	smax     [3]int
}

func newRecorder(cpu float64, domMin, domMax vec) *recorder {
	r := &recorder{cpu: cpu, extra: map[[3]int]float64{}}
	vol := 1
	for k := 0; k < 3; k++ {
		r.lo[k] = int(math.Floor(domMin[k]*cpu)) - 4
		r.n[k] = int(math.Ceil(domMax[k]*cpu)) + 4 - r.lo[k] + 1
		vol *= r.n[k]
	}
	if vol > 60_000_000 {
		panic(fmt.Sprintf("harness: lattice box %v too large", r.n))
	}
	r.val = make([]float64, vol)
	r.has = make([]uint32, vol)
	return r
}

func (r *recorder) at(q [3]int) (int, bool) {
	x, y, z := q[0]-r.lo[0], q[1]-r.lo[1], q[2]-r.lo[2]
	if x < 0 || y < 0 || z < 0 || x >= r.n[0] || y >= r.n[1] || z >= r.n[2] {
		return 0, false
	}
	return (z*r.n[1]+y)*r.n[0] + x, true
}

func (r *recorder) wrap(f sample.Vec3ToFloat) sample.Vec3ToFloat {
	return func(p vector3.Float64) float64 {
		v := f(p)
		fx, fy, fz := p.X()*r.cpu, p.Y()*r.cpu, p.Z()*r.cpu
		q := [3]int{int(math.Round(fx)), int(math.Round(fy)), int(math.Round(fz))}
		if math.Abs(fx-float64(q[0]))+math.Abs(fy-float64(q[1]))+math.Abs(fz-float64(q[2])) > 1e-6 {
			atomic.AddInt64(&r.offGrid, 1)
			return v
		}
		if i, ok := r.at(q); ok {
			if r.sum {
				r.val[i] += v // one adder never samples a point twice, adders of a history run one after the other
			} else {
				r.val[i] = v // a point sampled twice at once would be a (counted) repetition; the value is the same
			}
			if atomic.SwapUint32(&r.has[i], 1) == 1 {
				atomic.AddInt64(&r.repeated, 1)
			}
		} else {
			r.mu.Lock()
			if _, dup := r.extra[q]; dup {
				atomic.AddInt64(&r.repeated, 1)
			}
			if r.sum {
				r.extra[q] += v
			} else {
				r.extra[q] = v
			}
			r.mu.Unlock()
		}
		return v
	}
}

// finish computes the number of distinct sampled points and their range. Call it
// after the last evaluation (no adder goroutine outlives its call).
func (r *recorder) finish() {
	r.samples = 0
	for k := 0; k < 3; k++ {
		r.smin[k], r.smax[k] = math.MaxInt32, math.MinInt32
	}
	note := func(q [3]int) {
		r.samples++
		for k := 0; k < 3; k++ {
			if q[k] < r.smin[k] {
				r.smin[k] = q[k]
			}
			if q[k] > r.smax[k] {
				r.smax[k] = q[k]
			}
		}
	}
	i := 0
	for z := 0; z < r.n[2]; z++ {
		for y := 0; y < r.n[1]; y++ {
			for x := 0; x < r.n[0]; x++ {
				if r.has[i] != 0 {
					note([3]int{x + r.lo[0], y + r.lo[1], z + r.lo[2]})
				}
				i++
			}
		}
	}
	for q := range r.extra {
		note(q)
	}
}

// value returns what the canvas holds at q as far as the harness can tell: the
// recorded sample, or 0 where the field was never sampled (fresh block memory).
func (r *recorder) value(q [3]int) (float64, bool) {
	if i, ok := r.at(q); ok {
		if r.has[i] != 0 {
			return r.val[i], true
		}
		return 0, false
	}
	v, ok := r.extra[q]
	return v, ok
}

// region is the classified lattice box around everything that was sampled.
type region struct {
	lo, n   [3]int
	in      []bool // below threshold
	sampled []bool
}

func (g *region) idx(q [3]int) int {
	return ((q[2]-g.lo[2])*g.n[1]+(q[1]-g.lo[1]))*g.n[0] + (q[0] - g.lo[0])
}

func (g *region) contains(q [3]int) bool {
	for k := 0; k < 3; k++ {
		if q[k] < g.lo[k] || q[k] >= g.lo[k]+g.n[k] {
			return false
		}
	}
	return true
}

// inside reports the classification of q; everything beyond the region is outside.
func (g *region) inside(q [3]int) bool {
	if !g.contains(q) {
		return false
	}
	return g.in[g.idx(q)]
}

// corner order of the cube configurations as polyform numbers them (evidence only:
// any fixed numbering maps the 256 sign patterns one-to-one).
var cornerOff = [8][3]int{{0, 0, 0}, {1, 0, 0}, {1, 0, 1}, {0, 0, 1}, {0, 1, 0}, {1, 1, 0}, {1, 1, 1}, {0, 1, 1}}

type latticeStats struct {
	Configs        [256]int
	ActiveCells    int // cells with a sign change
	FullCells      int // all eight corners below threshold
	Edges          int // sign-changing lattice edges
	InsidePoints   int
	SeamCells      [4]int // active cells whose lower corner has k coordinates = 99 (mod 100), k = 0..3
	SeamConfigs    [4][256]bool
	Blocks         map[[3]int]bool // blocks holding sampled points
	ActiveBlocks   map[[3]int]bool // blocks owning active cells
	NegativeBlocks bool
}

func floorDiv(a, b int) int {
	q := a / b
	if (a%b != 0) && ((a < 0) != (b < 0)) {
		q--
	}
	return q
}

func mod(a, b int) int { return a - floorDiv(a, b)*b }

func (g *region) stats() *latticeStats {
	st := &latticeStats{Blocks: map[[3]int]bool{}, ActiveBlocks: map[[3]int]bool{}}
	for z := g.lo[2]; z < g.lo[2]+g.n[2]; z++ {
		for y := g.lo[1]; y < g.lo[1]+g.n[1]; y++ {
			for x := g.lo[0]; x < g.lo[0]+g.n[0]; x++ {
				q := [3]int{x, y, z}
				i := g.idx(q)
				if g.sampled[i] {
					b := [3]int{floorDiv(x, blockCells), floorDiv(y, blockCells), floorDiv(z, blockCells)}
					if !st.Blocks[b] {
						st.Blocks[b] = true
						if b[0] < 0 || b[1] < 0 || b[2] < 0 {
							st.NegativeBlocks = true
						}
					}
				}
				if g.in[i] {
					st.InsidePoints++
				}
				for a := 0; a < 3; a++ {
					p := q
					p[a]++
					if g.contains(p) && g.in[g.idx(p)] != g.in[i] {
						st.Edges++
					}
				}
				if x+1 >= g.lo[0]+g.n[0] || y+1 >= g.lo[1]+g.n[1] || z+1 >= g.lo[2]+g.n[2] {
					continue
				}
				cfg := 0
				for c, o := range cornerOff {
					if g.in[g.idx([3]int{x + o[0], y + o[1], z + o[2]})] {
						cfg |= 1 << c
					}
				}
				st.Configs[cfg]++
				if cfg == 255 {
					st.FullCells++
				}
				if cfg != 0 && cfg != 255 {
					st.ActiveCells++
					k := 0
					for _, v := range q {
						if mod(v, blockCells) == blockCells-1 {
							k++
						}
					}
					st.SeamCells[k]++
					st.SeamConfigs[k][cfg] = true
					st.ActiveBlocks[[3]int{floorDiv(x, blockCells), floorDiv(y, blockCells), floorDiv(z, blockCells)}] = true
				}
			}
		}
	}
	return st
}

func (st *latticeStats) distinctConfigs() int {
	n := 0
	for _, c := range st.Configs {
		if c > 0 {
			n++
		}
	}
	return n
}
