package c09

import (
	"fmt"
	"math"

	"github.com/EliCDavis/polyform/modeling"
	"polyverif/internal/ref"
	"polyverif/internal/run"
)

type meshData struct {
	P   []vec
	Idx []int
}

func readMesh(m modeling.Mesh, attr string) (*meshData, error) {
	if m.Topology() != modeling.TriangleTopology {
		return nil, fmt.Errorf("topology %v, want triangles", m.Topology())
	}
	ix := m.Indices()
	if ix.Len() == 0 {
		return &meshData{}, nil
	}
	if !m.HasFloat3Attribute(attr) {
		return nil, fmt.Errorf("no %q attribute on a mesh with %d indices", attr, ix.Len())
	}
	pos := m.Float3Attribute(attr)
	md := &meshData{P: make([]vec, pos.Len()), Idx: make([]int, ix.Len())}
	for i := range md.P {
		v := pos.At(i)
		md.P[i] = vec{v.X(), v.Y(), v.Z()}
		if math.IsNaN(v.X()+v.Y()+v.Z()) || math.IsInf(v.X()+v.Y()+v.Z(), 0) {
			return nil, fmt.Errorf("vertex %d is %v", i, md.P[i])
		}
	}
	for i := range md.Idx {
		md.Idx[i] = ix.At(i)
		if md.Idx[i] < 0 || md.Idx[i] >= len(md.P) {
			return nil, fmt.Errorf("index[%d]=%d outside [0,%d)", i, md.Idx[i], len(md.P))
		}
	}
	if len(md.Idx)%3 != 0 {
		return nil, fmt.Errorf("%d indices in a triangle mesh", len(md.Idx))
	}
	return md, nil
}

type pairing struct {
	Unmatched, Multi int
	First            string
}

// pairEdges pairs the directed edges of all faces whose three vertex classes
// differ. class maps vertex id -> identity used for the pairing.
func pairEdges(md *meshData, class []int) pairing {
	edges := make(map[[2]int]int32, len(md.Idx))
	first := make(map[[2]int]int32, len(md.Idx))
	for t := 0; t+2 < len(md.Idx); t += 3 {
		a, b, c := class[md.Idx[t]], class[md.Idx[t+1]], class[md.Idx[t+2]]
		if a == b || b == c || a == c {
			continue
		}
		for _, e := range [3][2]int{{a, b}, {b, c}, {c, a}} {
			if edges[e] == 0 {
				first[e] = int32(t / 3)
			}
			edges[e]++
		}
	}
	var p pairing
	best := int32(-1)
	for e, k := range edges {
		bad := ""
		if k > 1 {
			p.Multi++
			bad = fmt.Sprintf("is used by %d faces", k)
		}
		if r := edges[[2]int{e[1], e[0]}]; r != k {
			p.Unmatched++
			bad = fmt.Sprintf("occurs %d times, the opposite edge %d times", k, r)
		}
		if bad != "" && (best < 0 || first[e] < best) {
			best = first[e]
			p.First = fmt.Sprintf("face %d: directed edge v%d %v -> v%d %v %s", best, e[0], md.P[e[0]], e[1], md.P[e[1]], bad)
		}
	}
	return p
}

// onlyWeldPinches: every directed edge used by more than one face has an endpoint lying within the weld
// distance of a lattice point at which, per the sampled values, a crossing lies within the weld distance.
func onlyWeldPinches(md *meshData, s *subject) bool {
	count := map[[2]int]int{}
	for t := 0; t+2 < len(md.Idx); t += 3 {
		a, b, c := md.Idx[t], md.Idx[t+1], md.Idx[t+2]
		if a == b || b == c || a == c {
			continue
		}
		count[[2]int{a, b}]++
		count[[2]int{b, c}]++
		count[[2]int{c, a}]++
	}
	near := func(v int) bool {
		p := md.P[v]
		var q [3]int
		for k := 0; k < 3; k++ {
			u := p[k] * s.cpu
			q[k] = int(math.Round(u))
			if math.Abs(u-float64(q[k])) > 0.001*s.cpu+2e-4 {
				return false
			}
		}
		return s.pinchAt(q)
	}
	for e, n := range count {
		if n > 1 && !near(e[0]) && !near(e[1]) {
			return false
		}
	}
	return true
}

// what the oracle needs to know about the case
type subject struct {
	site    string // polyform entry point that produced the mesh
	input   string // input class for the signature
	cpu     float64
	cut     float64
	g       *region
	st      *latticeStats
	field   func(vec) float64 // reference field (nil for lattice tables: the table is the field)
	lip     float64           // Lipschitz constant of the reference field
	witness any
	desc    string
	// seamTrigger is non-empty when the sampled input contains the trigger of the known
	// block-seam weld defect (see seamTrigger in c09.go); it only selects the violation class.
	seamTrigger string
	// pinchAt tells, from the SAMPLED values only, whether the weld can collapse crossings at lattice point q
	pinchAt func(q [3]int) bool
}

type surfaceObs struct {
	Tris        int     `json:"tris"`
	Verts       int     `json:"verts"`
	VolumeCells float64 `json:"volume_cells"`
	FullCells   int     `json:"full_cells"`
	ActiveCells int     `json:"active_cells"`
	Edges       int     `json:"sign_changing_edges"`
	WeldMerged  int     `json:"edges_minus_verts"`
	MaxOff      float64 `json:"max_abs_field_minus_cut_over_Lh,omitempty"`
}

// judge applies the whole oracle of C09 to one marched mesh.
func judge(res *run.Result, s *subject, md *meshData) *surfaceObs {
	h := 1 / s.cpu
	ob := &surfaceObs{Tris: len(md.Idx) / 3, Verts: len(md.P), FullCells: s.st.FullCells, ActiveCells: s.st.ActiveCells, Edges: s.st.Edges}
	ob.WeldMerged = s.st.Edges - len(md.P)
	viol := func(class, detail string) {
		res.Violate(class, s.site, s.input, detail+" || case: "+s.desc, s.witness)
	}
	if ob.Tris == 0 {
		viol("empty-mesh", fmt.Sprintf("no faces although %d lattice cells straddle the threshold", s.st.ActiveCells))
		return ob
	}

	// 1. closed and consistently oriented, judged on the vertex ids polyform returned
	ids := make([]int, len(md.P))
	for i := range ids {
		ids[i] = i
	}
	degenerate, firstDeg := 0, ""
	vol, area := 0., 0.
	for t := 0; t+2 < len(md.Idx); t += 3 {
		i0, i1, i2 := md.Idx[t], md.Idx[t+1], md.Idx[t+2]
		a, b, c := md.P[i0], md.P[i1], md.P[i2]
		ar := vlen(vcross(vsub(b, a), vsub(c, a))) / 2
		if i0 == i1 || i1 == i2 || i0 == i2 || !(ar > 1e-12*h*h) {
			degenerate++
			if firstDeg == "" {
				firstDeg = fmt.Sprintf("face %d = (v%d %v, v%d %v, v%d %v), area %g", t/3, i0, a, i1, b, i2, c, ar)
			}
			continue
		}
		area += ar
		vol += vdot(a, vcross(b, c)) / 6
	}
	ob.VolumeCells = vol * s.cpu * s.cpu * s.cpu
	res.Count("faces", int64(ob.Tris))
	res.Count("vertices", int64(ob.Verts))
	res.Count("directed_edges_paired", int64(3*(ob.Tris-degenerate)))
	if degenerate > 0 {
		viol("degenerate-face", fmt.Sprintf("%d of %d faces are degenerate (repeated vertex or zero area); %s", degenerate, ob.Tris, firstDeg))
	}
	byIdx := pairEdges(md, ids)
	if byIdx.Unmatched == 0 && byIdx.Multi > 0 && s.pinchAt != nil && onlyWeldPinches(md, s) {
		// safety net of the stated weld-granularity rule: balanced counts, every doubled edge hangs on a
		// vertex that the sampled values put within the weld distance of a lattice point
		res.Count("outcomes_classified_as_weld_pinch", 1)
		if res.Inconclusive == "" {
			res.Inconclusive = fmt.Sprintf("degenerate (weld pinch): %d directed edges are used twice, none is unmatched, and each of them ends at a lattice point whose sampled value puts a crossing within the 0.001 weld of it; %s", byIdx.Multi, byIdx.First)
		}
	} else if byIdx.Unmatched > 0 || byIdx.Multi > 0 {
		merged := ref.MergePositions(md.P, 1e-9*h)
		byPos := pairEdges(md, merged)
		if byPos.Unmatched == 0 && byPos.Multi == 0 {
			dup := 0
			for i, c := range merged {
				if c != i {
					dup++
				}
			}
			viol("unwelded-duplicate-vertices", fmt.Sprintf("%d directed edges have no matching opposite edge and %d are used twice (of %d faces) because %d vertices duplicate the position of another vertex (the surface only closes when the oracle merges equal positions itself); %s",
				byIdx.Unmatched, byIdx.Multi, ob.Tris, dup, byIdx.First))
		} else if s.seamTrigger != "" && byIdx.Multi == 0 {
			s.input += "; near-threshold sample on block face"
			viol("seam-open-near-threshold-sample", fmt.Sprintf("%d directed edges are not matched by an opposite edge (of %d faces; still %d after merging equal positions) and the sampled field has %s: the two blocks adjoining the seam kept different representatives of the collapsed vertices and the 3-decimal weld did not merge them; %s",
				byIdx.Unmatched, ob.Tris, byPos.Unmatched, s.seamTrigger, byIdx.First))
		} else {
			viol("not-closed", fmt.Sprintf("%d directed edges are not matched by exactly one opposite edge, %d are used by more than one face (of %d faces; with equal positions merged: %d / %d); %s",
				byIdx.Unmatched, byIdx.Multi, ob.Tris, byPos.Unmatched, byPos.Multi, byIdx.First))
		}
	}

	// 2. outward
	if !(vol > 0) {
		viol("inward-or-zero-volume", fmt.Sprintf("signed volume %g (= %g cells), want > 0; %d lattice cells are entirely below the threshold", vol, ob.VolumeCells, s.st.FullCells))
	}
	lo := float64(s.st.FullCells)
	hi := float64(s.st.FullCells + s.st.ActiveCells)
	slackV := 0.05*float64(s.st.ActiveCells) + 1e-9*hi
	if ob.VolumeCells < lo-slackV || ob.VolumeCells > hi+slackV {
		viol("volume-outside-cell-bracket", fmt.Sprintf("enclosed volume %.6g cells; a surface separating the below-threshold lattice points from the others encloses between %d (cells entirely below) and %d (plus straddling cells) cells", ob.VolumeCells, s.st.FullCells, s.st.FullCells+s.st.ActiveCells))
	}

	// 3. every vertex within one cell of the isosurface
	weld := 0.001 * math.Sqrt(3) * s.cpu // polyform welds at 3 decimals of a world unit: a vertex may sit that far from where it was computed
	reach := 1 + weld + 1e-6
	offIso, firstOff := 0, ""
	offAna, firstAna := 0, ""
	g := s.g
	marks := make([]uint8, len(g.in))
	for i, p := range md.P {
		u := vec{p[0] * s.cpu, p[1] * s.cpu, p[2] * s.cpu}
		b := [3]int{int(math.Floor(u[0])), int(math.Floor(u[1])), int(math.Floor(u[2]))}
		hasIn, hasOut := false, false
		for dz := -1; dz <= 2; dz++ {
			for dy := -1; dy <= 2; dy++ {
				for dx := -1; dx <= 2; dx++ {
					q := [3]int{b[0] + dx, b[1] + dy, b[2] + dz}
					d := vlen(vec{float64(q[0]) - u[0], float64(q[1]) - u[1], float64(q[2]) - u[2]})
					if d <= reach {
						if g.inside(q) {
							hasIn = true
						} else {
							hasOut = true
						}
					}
				}
			}
		}
		if !(hasIn && hasOut) {
			offIso++
			if firstOff == "" {
				firstOff = fmt.Sprintf("vertex %d at %v (lattice coordinates %v): all lattice points within one cell are on the same side of the threshold (below=%v)", i, p, u, hasIn)
			}
		}
		if s.field != nil {
			d := math.Abs(s.field(p) - s.cut)
			bound := s.lip*(h+0.001*math.Sqrt(3)) + 1e-9
			if r := d / (s.lip * h); r > ob.MaxOff {
				ob.MaxOff = r
			}
			if !(d <= bound) {
				offAna++
				if firstAna == "" {
					firstAna = fmt.Sprintf("vertex %d at %v: |field - threshold| = %g > L*h = %g*%g", i, p, d, s.lip, h)
				}
			}
		}
		// completeness bookkeeping: which sign-changing lattice edges carry this vertex
		for a := 0; a < 3; a++ {
			bx, cx := (a+1)%3, (a+2)%3
			rb, rc := math.Round(u[bx]), math.Round(u[cx])
			if math.Abs(u[bx]-rb) > weld+1e-6 || math.Abs(u[cx]-rc) > weld+1e-6 {
				continue
			}
			for _, la := range [2]float64{math.Floor(u[a] - weld - 1e-6), math.Floor(u[a] + weld + 1e-6)} {
				var q [3]int
				q[a], q[bx], q[cx] = int(la), int(rb), int(rc)
				if g.contains(q) {
					marks[g.idx(q)] |= 1 << a
				}
			}
		}
	}
	res.Count("vertices_checked_against_lattice", int64(len(md.P)))
	if offIso > 0 {
		viol("vertex-off-isosurface", fmt.Sprintf("%d of %d vertices are farther than one cell from any sign change of the sampled field; %s", offIso, len(md.P), firstOff))
	}
	if offAna > 0 {
		viol("vertex-off-analytic-isosurface", fmt.Sprintf("%d of %d vertices violate |f(v)-c| <= L*h for the %g-Lipschitz reference field; %s", offAna, len(md.P), s.lip, firstAna))
	}
	// 4. the surface separates: every sign-changing lattice edge carries a vertex
	missing, firstMissing := 0, ""
	for z := g.lo[2]; z < g.lo[2]+g.n[2]; z++ {
		for y := g.lo[1]; y < g.lo[1]+g.n[1]; y++ {
			for x := g.lo[0]; x < g.lo[0]+g.n[0]; x++ {
				q := [3]int{x, y, z}
				i := g.idx(q)
				for a := 0; a < 3; a++ {
					p := q
					p[a]++
					if !g.contains(p) || g.in[g.idx(p)] == g.in[i] {
						continue
					}
					if marks[i]&(1<<a) == 0 {
						missing++
						if firstMissing == "" {
							firstMissing = fmt.Sprintf("lattice edge %v -> %v (world %v -> %v; block %v, local %v) changes side but no mesh vertex lies on it", q, p,
								vscale(vec{float64(q[0]), float64(q[1]), float64(q[2])}, h), vscale(vec{float64(p[0]), float64(p[1]), float64(p[2])}, h),
								[3]int{floorDiv(x, blockCells), floorDiv(y, blockCells), floorDiv(z, blockCells)}, [3]int{mod(x, blockCells), mod(y, blockCells), mod(z, blockCells)})
						}
					}
				}
			}
		}
	}
	res.Count("sign_changing_edges_checked", int64(s.st.Edges))
	if missing > 0 {
		viol("isosurface-edge-without-vertex", fmt.Sprintf("%d of %d sign-changing lattice edges are not crossed by the surface; %s", missing, s.st.Edges, firstMissing))
	}
	return ob
}
