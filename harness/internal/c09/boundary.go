package c09

import (
	"fmt"

	"github.com/EliCDavis/polyform/modeling"
	"polyverif/internal/run"
)

// boundaryCase is a directed family: one shape whose extreme (low or high side, on one, two or three
// axes at once) lands 1.5 or 0.5 cells before a block boundary (local cell 98 / 99), exactly on it, or
// 0.5 / 1.5 cells behind it (local cell 0 / 1), with a domain that hugs the shape (the marching
// package's own Sphere/Box/Line constructors, or an own domain 0.02-0.3 cells wide), a domain that ends
// exactly on the boundary plane, or a padded one. The case index enumerates kind x domain x side x
// offset; everything else is drawn.
func boundaryCase(c *run.Ctx) run.Result {
	r := c.Rng
	k := c.Case
	kind := []string{"sphere", "box", "capsule"}[k%3]
	domain := (k / 3) % 3 // 0 constructor, 1 tight own domain, 2 own domain ending on the plane / padded
	high := (k/9)%2 == 1
	offs := []float64{-1.5, -0.5, 0, 0.5, 1.5}
	off := offs[(k/18)%5]
	// Round 7 (C09-L): DIAGONAL placements. Cases beyond the base family put the same extreme at the same
	// offset on two or three axes at once, so that the below-threshold samples lie in one block while the
	// surface reaches into cells whose corners come from the edge- and corner-diagonal neighbour blocks only.
	diag := k >= boundaryBase(c.Tier)
	if diag {
		kd := k - boundaryBase(c.Tier)
		kind = []string{"sphere", "box", "capsule"}[kd%3]
		domain = (kd / 3) % 3
		high = (kd/9)%2 == 1
		off = []float64{-0.5, 0.5, 0, -1.5, 1.5}[(kd/18)%5]
	}

	sc := &scenario{CPU: pickCPU(r), Cut: 0, Attr: modeling.PositionAttribute}
	if r.Intn(3) == 0 || off == 0 {
		sc.Cut = []float64{-0.05, -0.2}[r.Intn(2)] // "exactly on the boundary" needs a threshold below 0: no sample may equal it
	}
	sc.API = []string{"March", "MarchOnAttribute", "MarchParallel"}[r.Intn(3)]
	sc.Adder = adders[r.Intn(len(adders))]
	h := 1 / sc.CPU
	shrink := -sc.Cut * sc.CPU // cells, strength 1
	axes, n := pickStraddle(r, [4]float64{0, 0.5, 0.3, 0.2})
	if diag {
		axes, n = pickStraddle(r, [4]float64{0, 0, 0.5, 0.5})
	}
	sc.Straddle = n
	var b [3]int
	for a := range b {
		b[a] = r.Intn(4) - 2
	}
	// per axis: where the extreme of the zero-level shape goes (cells), and on which side it is
	var target [3]float64
	var hi [3]bool
	first := true
	descr := ""
	for a := 0; a < 3; a++ {
		if !axes[a] {
			continue
		}
		o, side := off, high
		if !first { // further axes get their own offset and side: diagonal placements
			o, side = offs[r.Intn(5)], r.Intn(2) == 0
			if o == 0 && sc.Cut == 0 {
				o = 0.5
			}
			if diag {
				o, side = off, high
			}
		}
		first = false
		jit := 0.
		if o != 0 {
			jit = uni(r, -0.4, 0.4)
		}
		target[a], hi[a] = float64(blockCells*b[a])+o+jit, side
		descr += fmt.Sprintf(" axis%d:%s extreme at block boundary%+.2f", a, map[bool]string{true: "high", false: "low"}[side], o+jit)
	}
	s := shape{Kind: kind, Strength: 1}
	var ext [3]float64 // half extent of the zero-level shape per axis, cells
	var d vec          // capsule direction, cells
	switch kind {
	case "sphere":
		R := 3 + shrink + uni(r, 0, 5)
		ext = [3]float64{R, R, R}
		s.R = R * h
	case "box":
		for a := range ext {
			ext[a] = 2 + shrink + uni(r, 0, 5)
		}
		s.Size = vec{2 * ext[0] * h, 2 * ext[1] * h, 2 * ext[2] * h}
	default:
		R := 2 + shrink + uni(r, 0, 2)
		d = vec{uni(r, -8, 8), uni(r, -8, 8), uni(r, -8, 8)}
		s.R = R * h
		for a := range ext {
			ext[a] = R // plus the segment, handled below
		}
	}
	var cen vec // centre (sphere, box) or capsule start, cells
	for a := 0; a < 3; a++ {
		lo, up := -ext[a], ext[a] // extent of the shape relative to cen
		if kind == "capsule" {
			if d[a] > 0 {
				up += d[a]
			} else {
				lo += d[a]
			}
		}
		switch {
		case !axes[a]:
			cen[a] = float64(blockCells*b[a]) + uni(r, 30, 70)
		case hi[a]:
			cen[a] = target[a] - up
		default:
			cen[a] = target[a] - lo
		}
	}
	s.C = vscale(cen, h)
	if kind == "capsule" {
		s.E = vscale(vadd(cen, d), h)
	}
	sc.Shapes = []shape{s}
	sc.Placement = fmt.Sprintf("block corner %v,%s", b, descr)
	if domain == 0 {
		sc.Mode = "combine-fields" // a single constructor field: CombineFields returns it unchanged
		sc.Placement += "; domain chosen by the marching constructor"
	} else {
		sc.Mode = "union-field"
		sc.Margin = uni(r, 0.02, 0.3)
		if domain == 2 && r.Intn(2) == 0 {
			sc.Margin = uni(r, 1, 4)
		}
		lo, up := s.bounds()
		m := sc.Margin * h
		sc.DomLo, sc.DomHi = vsub(lo, vec{m, m, m}), vadd(up, vec{m, m, m})
		if domain == 2 {
			// let the domain end exactly on the block-boundary plane wherever the shape ends before it
			for a := 0; a < 3; a++ {
				plane := float64(blockCells*b[a]) * h
				if !axes[a] {
					continue
				}
				if hi[a] && up[a] < plane && plane-up[a] < 4*h {
					sc.DomHi[a] = plane
					sc.Placement += fmt.Sprintf("; domain max of axis %d exactly on the boundary", a)
				}
				if !hi[a] && lo[a] > plane && lo[a]-plane < 4*h {
					sc.DomLo[a] = plane
					sc.Placement += fmt.Sprintf("; domain min of axis %d exactly on the boundary", a)
				}
			}
		}
	}
	res := execute(c, sc)
	res.Count("directed_boundary_cases", 1)
	if diag {
		res.Count("directed_diagonal_boundary_cases", 1)
		res.SetAdd("diagonal_placements", fmt.Sprintf("%d axes high=%v off=%v", n, high, off))
	}
	res.SetAdd("boundary_placements", fmt.Sprintf("%s domain%d high=%v off=%v", kind, domain, high, off))
	if res.Sig != "" {
		res.Sig += fmt.Sprintf(" dom%d high%v off%v", domain, high, off)
	}
	return res
}

// boundaryBase: size of the base family; the diagonal family follows it.
func boundaryBase(tier string) int {
	if tier == "thorough" {
		return 900
	}
	return 90
}
