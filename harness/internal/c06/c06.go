// Package c06 monitors property C06: glTF/GLB output is structurally loadable and carries
// exactly the scene data.
package c06

import (
	"bytes"
	"fmt"
	"sort"
	"strings"

	"github.com/EliCDavis/polyform/formats/gltf"
	"polyverif/internal/gen"
	"polyverif/internal/run"
)

func Spec() *run.Spec {
	return &run.Spec{
		ID: "C06", Level: "exploration",
		Rule: "a case is one generated scene written with gltf.WriteText and gltf.WriteBinary and read back by an independent reader (generic encoding/json + own accessor decoding). " +
			"Phase scenes: 0–8 models over pools of 1–5 mesh pointers, 2–8 material entries (nil, base pointers, repeated pointers, shallow and deep value copies, single-field variants) " +
			"and shared texture/sampler pointers, optional TRS, 0–5 GPU instances, 0–3 lights, material/texture extensions. Phase dedup-matrix: case i exercises single-field variant kind i mod K " +
			"(K = every core material field, every texture field in each texture slot, presence/value/texture of every material extension) next to the base pointer twice, a copy of the base and a copy of the variant. " +
			"Phase index-width: meshes of 65 534…70 000 vertices whose index list touches the last vertex. " +
			"Phase block-multiples: one mesh of exactly k·⌊B/e⌋ vertices (B = 4…64 KiB, e = 2, 4, 8, 12, 16 bytes per element; k = 1…3, thorough …12) with the full attribute mix, in a third of the cases a model with such a number of GPU instances. " +
			"Phase fault-sequences: histories of 3–8 exports in one goroutine mixing scenes the writer must reject after an earlier model already wrote geometry (nil mesh, alphaCutoff without MASK in 3 forms, non-finite min/max refused by encoding/json), valid scenes written to failing / short-writing io.Writers at a seeded byte budget, and valid exports that must pass the full oracle whatever happened before; non-trivial = some fault followed by a checked valid export with ≥ 2 accessors. " +
			"Phase writer-reuse: one gltf.Writer (NewWriterFromScene, or NewWriter + AddScene) emits the same scene 2–3 times through its public emit methods in each of the 12 orders over {WriteGLB, ToGLTF(base64)+json}; every output passes the full oracle and equals the one-shot WriteBinary / WriteText export of the scene (JSON tree with extensionsUsed/Required as sets, and payload bytes). " +
			"Phase large-payload: point-cloud scenes composed to hit an exact buffer size (1 MiB −2/0/+2/+4, between 1 and 2 MiB, 2 MiB +2, above 2 MiB, above 3 MiB), text and binary container, base64 decoded strictly. " +
			"Non-trivial = at least 2 written models that share a mesh, material or texture pointer (or value-equal copy) and at least 2 accessors in the output; " +
			"distinct = distinct structural descriptor (model count, topologies, attribute sets, index widths, sharing kinds, variant kinds, TRS/instancing/light/extension mix).",
		Assumptions: []string{
			"models whose mesh has no primitives are skipped by the writer by documented choice (no node, no material); the oracle expects exactly that",
			"colour factors may be quantised by the writer: a colour channel matches when it is within 5.1e-4 of channel/65535 (Go image/color RGBA(), as handed to the writer)",
			"absent JSON properties are equal to their glTF 2.0 / Khronos extension default (baseColorFactor 1, metallic/roughness 1, alphaMode OPAQUE, wrap REPEAT, texCoord 0, scale/strength 1, …)",
			"sharing is demanded for the same pointer and for value copies made by the generator (shallow copies and deep copies of all core fields); deep copies that re-allocate pointers inside extension values are compared by content only",
			"Float1 (scalar) vertex attributes, light names and spot-cone parameters are not demanded of the output (not in the property's content sentence)",
			"≈5 % of the scenes carry NaN (some ±Inf) in one VEC2/VEC3/VEC4 float attribute of one mesh or in one GPU-instance translation/scale: all structural checks apply unchanged, content is compared bitwise with NaN≡NaN (any payload); declared min/max must equal the min/max over the elements without a NaN component (or over the non-NaN components per column), nothing is demanded of a column without any NaN-free element; when encoding/json refuses the document (±Inf in min/max, NaN through the unguarded VEC4 path) no file exists and the case is only counted",
			"accessor misalignment explained by tightly packed views after a 1-/2-byte-component view of odd length is the known finding (class accessor-misaligned); any other misalignment has a different class",
			"vertex attribute names are not checked against the glTF underscore rule for application-specific attributes (semantic rule beyond the property)",
		},
		MinNontrivial: map[string]int{"quick": 300, "thorough": 5000},
		MinObserved: map[string]int64{
			"variant_kinds":                        90,
			"block_multiple_vertex_counts":         30,
			"index_component_types":                2,
			"containers":                           2,
			"models_matched":                       2000,
			"nonfinite_scenes_written_and_checked": 100,
			"nonfinite_kinds":                      8,
			"large_payload_classes_text":           6,
			"large_payload_classes_glb":            6,
			"fault_kinds":                          16,
			"valid_exports_checked_after_a_fault":  300,
			"emit_orders":                          12,
			"emit_order glb>glb":                   10,
			"emit_order glb>text":                  10,
			"emit_order text>glb":                  10,
			"emit_order text>text":                 10,
			"emit_order glb>glb>glb":               10,
			"emit_order glb>glb>text":              10,
			"emit_order glb>text>glb":              10,
			"emit_order glb>text>text":             10,
			"emit_order text>glb>glb":              10,
			"emit_order text>glb>text":             10,
			"emit_order text>text>glb":             10,
			"emit_order text>text>text":            10,
		},
		Phases: []run.Phase{
			{Name: "scenes", Cases: func(t string) int {
				if t == "thorough" {
					return 300000
				}
				return 6000
			}, Run: scenesCase, Batch: 100, CPUBudgetS: 30},
			{Name: "dedup-matrix", Cases: func(t string) int {
				if t == "thorough" {
					return 60 * len(allMatKinds)
				}
				return 5 * len(allMatKinds)
			}, Run: dedupCase, Batch: 60, CPUBudgetS: 30},
			{Name: "fault-sequences", Cases: func(t string) int {
				if t == "thorough" {
					return 20000
				}
				return 500
			}, Run: faultSeqCase, Batch: 50, CPUBudgetS: 60},
			{Name: "writer-reuse", Cases: func(t string) int {
				if t == "thorough" {
					return 500 * len(emitOrders)
				}
				return 30 * len(emitOrders)
			}, Run: writerReuseCase, Batch: 60, CPUBudgetS: 60},
			{Name: "large-payload", Cases: func(t string) int {
				if t == "thorough" {
					return 80
				}
				return 8
			}, Run: largePayloadCase, Batch: 1, CPUBudgetS: 120},
			{Name: "index-width", Cases: func(t string) int {
				if t == "thorough" {
					return 500
				}
				return 15
			}, Run: indexWidthCase, Batch: 1, CPUBudgetS: 120},
			{Name: "block-multiples", Cases: func(t string) int {
				if t == "thorough" {
					return 12 * len(blockBases)
				}
				return 3 * len(blockBases)
			}, Run: blockMultipleCase, Batch: 2, CPUBudgetS: 240},
		},
	}
}

func scenesCase(c *run.Ctx) run.Result {
	si := randomScene(c.Rng, nil, c.Tier == "thorough")
	return runScene(c, si, "")
}

func dedupCase(c *run.Ctx) run.Result {
	si, kind := dedupScene(c.Rng, c.Case)
	return runScene(c, si, kind)
}

var bigSizes = []int{65534, 65535, 65536, 65537, 70000}

func indexWidthCase(c *run.Ctx) run.Result {
	n := bigSizes[c.Case%len(bigSizes)]
	big := []int{n}
	if c.Rng.Intn(3) == 0 {
		big = append(big, bigSizes[c.Rng.Intn(len(bigSizes))])
	}
	si := randomScene(c.Rng, big, c.Tier == "thorough")
	return runScene(c, si, "")
}

// blockBases: element counts that fill a 4, 8, 16, 32 or 64 KiB staging block exactly (or to the last whole
// element) for element sizes of 2, 4, 8, 12 and 16 bytes. Round 7 (C06-L): a writer that packs VEC3 floats
// through a 32 KiB block (2730 elements) lost the last block of arrays that are an exact multiple of it.
var blockBases = func() []int {
	seen := map[int]bool{}
	var out []int
	for _, b := range []int{4096, 8192, 16384, 32768, 65536} {
		for _, es := range []int{2, 4, 8, 12, 16} {
			if n := b / es; !seen[n] {
				seen[n] = true
				out = append(out, n)
			}
		}
	}
	sort.Ints(out)
	return out
}()

func blockMultipleCase(c *run.Ctx) run.Result {
	base := blockBases[c.Case%len(blockBases)]
	k := 1 + c.Case/len(blockBases)
	n := base * k
	for n > 200000 {
		n -= base
	}
	big := []int{-n}
	if c.Rng.Intn(3) == 0 {
		big[0] = n // the plain position(+uv) mesh with an index list that touches the last vertex
	}
	inst := 0
	if c.Rng.Intn(3) == 0 {
		inst = blockBases[c.Rng.Intn(len(blockBases))] * (1 + c.Rng.Intn(2))
		for inst > 12000 {
			inst /= 2
		}
	}
	si := randomSceneX(c.Rng, big, false, inst)
	res := runScene(c, si, fmt.Sprintf("block-multiple/%d", base))
	res.SetAdd("block_multiple_vertex_counts", fmt.Sprint(n))
	res.SetAdd("block_multiple_bases", fmt.Sprint(base))
	if inst > 0 {
		res.SetAdd("block_multiple_instance_counts", fmt.Sprint(inst))
	}
	return res
}

func runScene(c *run.Ctx, si *sceneInfo, kind string) run.Result {
	var res run.Result
	g := si.g
	// descriptor
	written := 0
	topo := map[string]bool{}
	attrSets := map[string]bool{}
	meshUse, matUse := map[int]int{}, map[int]int{}
	trsMix, inst := map[string]bool{}, 0
	maxVerts := 0
	for k, mo := range si.scene.Models {
		info := si.models[k]
		if info.skipped {
			res.Count("models_skipped_empty_mesh", 1)
			continue
		}
		written++
		md := si.meshes[info.meshID].desc
		topo[md.Topology] = true
		attrSets[strings.Join(md.Attrs, "+")] = true
		for _, a := range md.Attrs {
			res.SetAdd("attributes", a)
		}
		res.SetAdd("value_classes", md.ValueClass)
		res.SetAdd("index_patterns", md.IndexPattern)
		if md.Verts > maxVerts {
			maxVerts = md.Verts
		}
		meshUse[info.meshID]++
		if mo.Material != nil {
			matUse[g.matClass[mo.Material]]++
			for _, e := range mo.Material.Extensions {
				res.SetAdd("material_extensions", e.ExtensionID())
			}
		}
		t := ""
		for _, p := range []bool{mo.Translation != nil, mo.Rotation != nil, mo.Scale != nil} {
			if p {
				t += "1"
			} else {
				t += "0"
			}
		}
		trsMix[t] = true
		res.SetAdd("trs_mixes", t)
		if info.inst > 0 {
			inst++
			res.Count("instanced_models", 1)
		}
		if md.Verts <= 3 {
			res.SetAdd("tiny_vertex_counts", fmt.Sprint(md.Verts))
		}
		if md.Verts >= 65000 {
			res.SetAdd("large_vertex_counts", fmt.Sprint(md.Verts))
		}
	}
	res.Count("scenes", 1)
	res.Count("models", int64(len(si.scene.Models)))
	res.Count("lights", int64(len(si.scene.Lights)))
	sharedMesh, sharedMat := 0, 0
	for _, n := range meshUse {
		if n > 1 {
			sharedMesh++
		}
	}
	for _, n := range matUse {
		if n > 1 {
			sharedMat++
		}
	}
	for _, k := range g.kinds {
		res.SetAdd("variant_kinds", k)
	}
	if g.deepExt > 0 {
		res.Count("materials_deep_copied_extension_internals", int64(g.deepExt))
	}
	for _, k := range si.nonFinite {
		res.SetAdd("nonfinite_kinds", k)
	}
	kinds := append([]string(nil), g.kinds...)
	kinds = append(kinds, si.nonFinite...)
	sort.Strings(kinds)
	res.Sig = fmt.Sprintf("w%d/%d|%s|%s|v%d|sm%d|sM%d|%s|trs%s|i%d|l%d|%s", written, len(si.scene.Models), keys(topo), keys(attrSets), bucket(maxVerts), sharedMesh, sharedMat,
		strings.Join(kinds, ","), keys(trsMix), inst, len(si.scene.Lights), kind)
	res.Sample = map[string]any{"models": len(si.scene.Models), "written": written, "topologies": keys(topo), "attribute_sets": keys(attrSets), "max_vertices": maxVerts,
		"models_sharing_a_mesh_pointer": sharedMesh, "material_classes_used_twice": sharedMat, "variant_kinds": g.kinds, "lights": len(si.scene.Lights), "instanced": inst}

	accessors := 0
	for _, cont := range []string{"text", "glb"} {
		if a, _ := exportAndCheck(c, &res, si, cont, ""); a > accessors {
			accessors = a
		}
	}
	res.Nontrivial = written >= 2 && accessors >= 2 && (sharedMesh > 0 || sharedMat > 0)
	return res
}

// exportAndCheck writes the scene into a good writer with the given container and runs the full
// structural + content oracle on the bytes. Returns the number of accessors of the document (-1
// when no document was produced). ctxNote prefixes violation details (history position in the
// fault-sequences phase).
func exportAndCheck(c *run.Ctx, res *run.Result, si *sceneInfo, cont, ctxNote string) (accessors int, nbytes int) {
	buf := &bytes.Buffer{}
	var err error
	c.Note("gltf write " + cont + " " + ctxNote + res.Sig)
	p := run.Try(func() {
		if cont == "text" {
			err = gltf.WriteText(si.scene, buf)
		} else {
			err = gltf.WriteBinary(si.scene, buf)
		}
	})
	ck := &checker{si: si, res: res, cont: cont, note: ctxNote}
	site := "gltf.WriteText"
	if cont == "glb" {
		site = "gltf.WriteBinary"
	}
	if p != nil {
		ck.viol("writer-panic", site+" ("+p.Site+")", "panic while writing a well-formed scene: %s\n%s", p.Value, firstLines(p.Stack, 14))
		return -1, 0
	}
	if err != nil {
		if si.expectReject {
			res.Count("scenes_rejected_as_documented", 1)
			return -1, 0
		}
		if si.jsonReject && strings.Contains(err.Error(), "unsupported value") {
			// ±Inf in min/max or NaN through the unguarded VEC4 path: encoding/json refuses the document.
			// No file is produced; recorded, not a verdict (reported to the coordinator as a finding).
			res.Count("nonfinite_scenes_refused_by_json_encoder", 1)
			return -1, 0
		}
		ck.viol("unexpected-write-error", site, "well-formed scene rejected: %v", err)
		return -1, 0
	}
	d := checkBytes(res, si, cont, ctxNote, buf.Bytes())
	return len(d.arr("accessors")), buf.Len()
}

// checkBytes runs the full structural + content oracle on one emitted document.
func checkBytes(res *run.Result, si *sceneInfo, cont, ctxNote string, data []byte) *Doc {
	ck := &checker{si: si, res: res, cont: cont, note: ctxNote}
	res.SetAdd("containers", cont)
	res.Count("bytes_"+cont, int64(len(data)))
	var d *Doc
	if cont == "text" {
		d = ParseText(data)
	} else {
		d = ParseGLB(data)
	}
	d.Check()
	ck.d = d
	for _, f := range d.F {
		var w any
		if f.class != "accessor-misaligned" { // the known finding occurs in every other scene: keep journals small
			w = ck.witness()
		}
		res.Violate(f.class, f.site, cont, ctxNote+f.detail, w)
	}
	res.Count("misaligned_accessors", int64(d.Misaligned))
	res.Count("nonfinite_components_stored", int64(d.NonFiniteStored))
	res.Count("minmax_columns_without_nan_free_element_(no_demand)", int64(d.MinMaxNoDemand))
	if len(si.nonFinite) > 0 {
		res.Count("nonfinite_scenes_written_and_checked", 1)
	}
	res.Count("minmax_checked", int64(d.MinMaxSeen))
	res.Count("accessors_checked", int64(len(d.arr("accessors"))))
	for e := range d.ExtInUse {
		res.SetAdd("extensions_in_output", e)
	}
	if b0 := d.objAt("buffers", 0); b0 != nil {
		if bl, ok := asInt(b0["byteLength"]); ok {
			if cl := payloadClass(bl); cl != "" {
				res.SetAdd("large_payload_classes_"+cont, cl)
			}
		}
	}
	ck.content()
	return d
}

// payloadClass names the size class of a buffer payload relative to the 1 MiB / 2 MiB marks.
func payloadClass(n int) string {
	const MiB = 1 << 20
	switch {
	case n > 3*MiB:
		return ">3MiB"
	case n > 2*MiB && n <= 2*MiB+4:
		return "2MiB+2..4"
	case n > 2*MiB:
		return ">2MiB"
	case n == 2*MiB:
		return "=2MiB"
	case n >= 2*MiB-4 && n < 2*MiB:
		return "2MiB-2..4"
	case n > MiB && n <= MiB+4:
		return "1MiB+2..4"
	case n > MiB:
		return ">1MiB"
	case n == MiB:
		return "=1MiB"
	case n >= MiB-4:
		return "1MiB-2..4"
	}
	return ""
}

func keys(m map[string]bool) string {
	ks := make([]string, 0, len(m))
	for k := range m {
		ks = append(ks, k)
	}
	sort.Strings(ks)
	return strings.Join(ks, ";")
}

func bucket(n int) int {
	switch {
	case n <= 4:
		return n
	case n <= 16:
		return 16
	case n <= 64:
		return 64
	case n < 65000:
		return 1000
	}
	return n
}

func firstLines(s string, n int) string {
	l := strings.Split(s, "\n")
	if len(l) > n {
		l = l[:n]
	}
	return strings.Join(l, "\n")
}

var _ = gen.Value
