package c06

// Content and sharing oracle: the written document, read by the independent reader, against the
// scene that was handed to the writer.

import (
	"fmt"
	"math"
	"sort"
	"strings"

	"github.com/EliCDavis/polyform/formats/gltf"
	"github.com/EliCDavis/polyform/modeling"
	"polyverif/internal/run"
)

const (
	siteMeshData = "gltf.Writer.AddMesh attribute/index data"
	siteMeshDed  = "gltf.Writer.AddMesh mesh de-duplication"
	siteNode     = "gltf.Writer.AddScene node"
	siteInst     = "gltf.Writer.AddScene EXT_mesh_gpu_instancing"
	siteMat      = "gltf.Writer.AddMaterial "
	siteMatDed   = "gltf.Writer.AddMaterial material de-duplication"
	siteTexDed   = "gltf.Writer.AddTexture texture de-duplication"
	siteLight    = "gltf.Writer.AddLight"
	siteStored   = "gltf.Writer stored-once bookkeeping"
)

func gltfAttrName(name string) string {
	switch name {
	case modeling.PositionAttribute:
		return "POSITION"
	case modeling.NormalAttribute:
		return "NORMAL"
	case modeling.TexCoordAttribute:
		return "TEXCOORD_0"
	case modeling.ColorAttribute:
		return "COLOR_0"
	case modeling.JointAttribute:
		return "JOINTS_0"
	case modeling.WeightAttribute:
		return "WEIGHTS_0"
	}
	return name
}

type expAttr struct {
	name  string // glTF name
	n     int
	vals  []float64 // model values (float64), n per vertex
	byteT bool      // stored as UNSIGNED_BYTE (joints)
}

// expectedMesh reads the model's mesh through its public accessors.
type expMesh struct {
	attrs   []expAttr
	scalar  []string // Float1 attribute names (no storage demanded)
	indices []int
	points  bool
	verts   int
}

func readMesh(m *modeling.Mesh) *expMesh {
	e := &expMesh{points: m.Topology() == modeling.PointTopology}
	for _, name := range m.Float4Attributes() {
		it := m.Float4Attribute(name)
		a := expAttr{name: gltfAttrName(name), n: 4, byteT: name == modeling.JointAttribute}
		for i := 0; i < it.Len(); i++ {
			v := it.At(i)
			a.vals = append(a.vals, v.X(), v.Y(), v.Z(), v.W())
		}
		e.attrs = append(e.attrs, a)
		e.verts = it.Len()
	}
	for _, name := range m.Float3Attributes() {
		it := m.Float3Attribute(name)
		a := expAttr{name: gltfAttrName(name), n: 3}
		for i := 0; i < it.Len(); i++ {
			v := it.At(i)
			a.vals = append(a.vals, v.X(), v.Y(), v.Z())
		}
		e.attrs = append(e.attrs, a)
		e.verts = it.Len()
	}
	for _, name := range m.Float2Attributes() {
		it := m.Float2Attribute(name)
		a := expAttr{name: gltfAttrName(name), n: 2}
		for i := 0; i < it.Len(); i++ {
			v := it.At(i)
			a.vals = append(a.vals, v.X(), v.Y())
		}
		e.attrs = append(e.attrs, a)
		e.verts = it.Len()
	}
	e.scalar = m.Float1Attributes()
	idx := m.Indices()
	e.indices = make([]int, idx.Len())
	for i := range e.indices {
		e.indices[i] = idx.At(i)
	}
	return e
}

func (e *expMesh) empty() bool {
	if e.points {
		return len(e.indices) == 0
	}
	return len(e.indices)/3 == 0
}

type checker struct {
	si   *sceneInfo
	d    *Doc
	res  *run.Result
	cont string
	note string     // prefix of violation details (history position)
	em   []*expMesh // per distinct mesh pointer
	// per written model (index into si.scene.Models) → matched node / mesh / material index
	nodeOf, meshOf, matOf map[int]int
	primOf                map[int]jobj
}

func (c *checker) viol(class, site, format string, a ...any) {
	c.res.Violate(class, site, c.cont, c.note+fmt.Sprintf(format, a...), c.witness())
}

func (c *checker) witness() any {
	type mw struct {
		Name            string
		Mesh            int
		Topology        string
		Verts, Indices  int
		Attrs           []string
		MaterialClass   int
		Material        any `json:",omitempty"`
		TRS             string
		Instances, Skip any
	}
	var ms []mw
	b := &expBuilder{g: c.si.g}
	for k, mo := range c.si.scene.Models {
		info := c.si.models[k]
		mi := c.si.meshes[info.meshID]
		w := mw{Name: mo.Name, Mesh: info.meshID, Topology: mi.desc.Topology, Verts: mi.desc.Verts, Indices: mo.Mesh.Indices().Len(), Attrs: mi.desc.Attrs,
			MaterialClass: -1, Instances: info.inst, Skip: info.skipped}
		if mo.Material != nil {
			w.MaterialClass = c.si.g.matClass[mo.Material]
			if len(c.si.scene.Models) <= 6 {
				w.Material = renderExp(b.material(mo.Material))
			}
		}
		for _, p := range []bool{mo.Translation != nil, mo.Rotation != nil, mo.Scale != nil} {
			if p {
				w.TRS += "1"
			} else {
				w.TRS += "0"
			}
		}
		ms = append(ms, w)
	}
	return map[string]any{"container": c.cont, "models": ms, "lights": len(c.si.scene.Lights), "variant_kinds": c.si.g.kinds}
}

// renderExp makes an expected tree JSON-able (colorV → []float64).
func renderExp(v any) any {
	switch t := v.(type) {
	case colorV:
		return []float64(t)
	case map[string]any:
		o := jobj{}
		for k, c := range t {
			o[k] = renderExp(c)
		}
		return o
	case []any:
		o := make([]any, len(t))
		for i, c := range t {
			o[i] = renderExp(c)
		}
		return o
	}
	return v
}

func f32eq(model float64, stored float64) bool {
	w := float64(float32(model))
	return w == stored || (w != w && stored != stored)
}

func vecOr(o jobj, key string, def []float64) ([]float64, bool) {
	x, has := o[key]
	if !has {
		return def, true
	}
	a, ok := asArr(x)
	if !ok || len(a) != len(def) {
		return nil, false
	}
	out := make([]float64, len(a))
	for i := range a {
		f, ok := asNum(a[i])
		if !ok {
			return nil, false
		}
		out[i] = f
	}
	return out, true
}

// matchNode compares node ni with model k; returns "" or (class, site, detail).
func (c *checker) matchNode(k, ni int) (class, site, detail string) {
	mo := c.si.scene.Models[k]
	info := c.si.models[k]
	no := c.d.objAt("nodes", ni)
	where := fmt.Sprintf("model %d (%q) ↔ nodes[%d]", k, mo.Name, ni)
	if no == nil {
		return "node-mismatch", siteNode, where + ": node is not an object"
	}
	if n, _ := asStr(no["name"]); n != mo.Name {
		return "node-mismatch", siteNode, fmt.Sprintf("%s: node name %q, model name %q", where, n, mo.Name)
	}
	// TRS (absent == identity)
	if _, has := no["matrix"]; has {
		return "node-transform-mismatch", siteNode, where + ": node uses a matrix; the model gives T/R/S"
	}
	et, er, es := []float64{0, 0, 0}, []float64{0, 0, 0, 1}, []float64{1, 1, 1}
	if mo.Translation != nil {
		et = []float64{mo.Translation.X(), mo.Translation.Y(), mo.Translation.Z()}
	}
	if mo.Rotation != nil {
		er = []float64{mo.Rotation.Dir().X(), mo.Rotation.Dir().Y(), mo.Rotation.Dir().Z(), mo.Rotation.W()}
	}
	if mo.Scale != nil {
		es = []float64{mo.Scale.X(), mo.Scale.Y(), mo.Scale.Z()}
	}
	for _, t := range []struct {
		key string
		exp []float64
		def []float64
	}{{"translation", et, []float64{0, 0, 0}}, {"rotation", er, []float64{0, 0, 0, 1}}, {"scale", es, []float64{1, 1, 1}}} {
		got, ok := vecOr(no, t.key, t.def)
		if !ok {
			return "node-transform-mismatch", siteNode, fmt.Sprintf("%s: malformed %s %v", where, t.key, no[t.key])
		}
		for i := range got {
			if got[i] != t.exp[i] {
				return "node-transform-mismatch", siteNode, fmt.Sprintf("%s: %s = %v, the model's is %v (x,y,z[,w])", where, t.key, got, t.exp)
			}
		}
	}
	if _, has := no["children"]; has {
		return "node-mismatch", siteNode, where + ": node has children; the model has none"
	}
	if _, has := no["skin"]; has {
		return "node-mismatch", siteNode, where + ": node has a skin; the model has no skeleton"
	}
	// mesh
	mi, ok := asInt(no["mesh"])
	meshO := c.d.objAt("meshes", mi)
	if !ok || meshO == nil {
		return "node-mismatch", siteNode, where + ": node has no usable mesh"
	}
	prims, _ := asArr(meshO["primitives"])
	if len(prims) != 1 {
		return "mesh-content-mismatch", siteMeshData, fmt.Sprintf("%s: meshes[%d] has %d primitives, the model is one primitive", where, mi, len(prims))
	}
	po, _ := asObj(prims[0])
	em := c.em[info.meshID]
	mode := 4
	if x, has := po["mode"]; has {
		mode, _ = asInt(x)
	}
	wantMode := 4
	if em.points {
		wantMode = 0
	}
	if mode != wantMode {
		return "mesh-content-mismatch", siteMeshData, fmt.Sprintf("%s: primitive mode %d, model topology needs %d", where, mode, wantMode)
	}
	attrs, _ := asObj(po["attributes"])
	expNames := map[string]bool{}
	for _, a := range em.attrs {
		expNames[a.name] = true
		ai, has := asInt(attrs[a.name])
		if !has {
			return "mesh-content-mismatch", siteMeshData, fmt.Sprintf("%s: attribute %s of the model is not in the primitive (has %v)", where, a.name, sortedKeys(attrs))
		}
		vals, acc := c.d.Accessor(ai)
		if vals == nil {
			return "mesh-content-mismatch", siteMeshData, fmt.Sprintf("%s: attribute %s → accessor %d is not decodable", where, a.name, ai)
		}
		if acc.n != a.n || acc.cnt != em.verts {
			return "mesh-content-mismatch", siteMeshData, fmt.Sprintf("%s: attribute %s: accessor %d is %s × %d, the model has %d components × %d vertices", where, a.name, ai, acc.typ, acc.cnt, a.n, em.verts)
		}
		if acc.normalized {
			return "mesh-content-mismatch", siteMeshData, fmt.Sprintf("%s: attribute %s is flagged normalized", where, a.name)
		}
		for i, v := range vals {
			okv := false
			if acc.ct == ctFloat {
				okv = f32eq(a.vals[i], v)
			} else {
				okv = a.vals[i] == v // integer storage: exact only if the model value is that integer
			}
			if !okv {
				return "mesh-content-mismatch", siteMeshData, fmt.Sprintf("%s: attribute %s vertex %d component %d: stored %v (componentType %d), model value %v (float32 image %v)",
					where, a.name, i/a.n, i%a.n, v, acc.ct, a.vals[i], float32(a.vals[i]))
			}
		}
		c.res.Count("attribute_components_compared", int64(len(vals)))
	}
	scalarSet := map[string]bool{}
	for _, s := range em.scalar {
		scalarSet[s] = true
	}
	for _, sname := range em.scalar {
		if _, has := attrs[sname]; !has {
			c.res.Count("float1_attributes_not_in_output_(no_demand)", 1)
		}
	}
	for name := range attrs {
		if expNames[name] {
			continue
		}
		if scalarSet[name] { // a SCALAR storage of a Float1 attribute would be legitimate
			continue
		}
		return "mesh-content-mismatch", siteMeshData, fmt.Sprintf("%s: primitive has attribute %s which the model does not have", where, name)
	}
	// indices
	if x, has := po["indices"]; has {
		ii, _ := asInt(x)
		vals, acc := c.d.Accessor(ii)
		if vals == nil {
			return "mesh-content-mismatch", siteMeshData, fmt.Sprintf("%s: indices accessor %d is not decodable", where, ii)
		}
		if acc.n != 1 || acc.cnt != len(em.indices) {
			return "mesh-content-mismatch", siteMeshData, fmt.Sprintf("%s: indices accessor %d holds %d × %s, the model has %d indices", where, ii, acc.cnt, acc.typ, len(em.indices))
		}
		for i, v := range vals {
			if int(v) != em.indices[i] {
				return "mesh-content-mismatch", siteMeshData, fmt.Sprintf("%s: index[%d] stored %d (componentType %d), model %d; %d vertices", where, i, int(v), acc.ct, em.indices[i], em.verts)
			}
		}
		c.res.Count("indices_compared", int64(len(vals)))
		c.res.SetAdd("index_component_types", fmt.Sprint(acc.ct))
	} else {
		for i, v := range em.indices {
			if i != v {
				return "mesh-content-mismatch", siteMeshData, where + ": primitive has no indices but the model's index list is not the identity"
			}
		}
		if len(em.indices) != em.verts {
			return "mesh-content-mismatch", siteMeshData, where + ": primitive has no indices but the model does not reference every vertex once"
		}
	}
	// material
	if mo.Material == nil {
		if _, has := po["material"]; has {
			return "material-mismatch", siteMat + "presence", fmt.Sprintf("%s: primitive references material %v, the model has none", where, po["material"])
		}
	} else {
		mx, has := asInt(po["material"])
		mat := c.d.objAt("materials", mx)
		if !has || mat == nil {
			return "material-mismatch", siteMat + "presence", where + ": the model has a material, the primitive references none"
		}
		b := &expBuilder{g: c.si.g}
		exp := b.material(mo.Material)
		obs := c.d.resolveMaterial(mat)
		if p, dsc := diffTree(exp, obs, ""); p != "" {
			return "material-mismatch", siteMat + materialGroup(p), fmt.Sprintf("%s: materials[%d] differs from the model's material at %s: %s", where, mx, p, dsc)
		}
		c.res.Count("materials_compared", 1)
	}
	// instancing
	var gi jobj
	if ex, ok := asObj(no["extensions"]); ok {
		gi, _ = asObj(ex["EXT_mesh_gpu_instancing"])
	}
	if len(mo.GpuInstances) == 0 {
		if gi != nil {
			return "instancing-mismatch", siteInst, where + ": node carries EXT_mesh_gpu_instancing, the model has no instances"
		}
	} else {
		if gi == nil {
			return "instancing-mismatch", siteInst, fmt.Sprintf("%s: the model has %d GPU instances, the node has no EXT_mesh_gpu_instancing", where, len(mo.GpuInstances))
		}
		ia, _ := asObj(gi["attributes"])
		for _, t := range []struct {
			name string
			n    int
			def  []float64
			get  func(i int) []float64
		}{
			{"TRANSLATION", 3, []float64{0, 0, 0}, func(i int) []float64 {
				p := mo.GpuInstances[i].Position()
				return []float64{p.X(), p.Y(), p.Z()}
			}},
			{"ROTATION", 4, []float64{0, 0, 0, 1}, func(i int) []float64 {
				q := mo.GpuInstances[i].Rotation()
				return []float64{q.Dir().X(), q.Dir().Y(), q.Dir().Z(), q.W()}
			}},
			{"SCALE", 3, []float64{1, 1, 1}, func(i int) []float64 {
				p := mo.GpuInstances[i].Scale()
				return []float64{p.X(), p.Y(), p.Z()}
			}},
		} {
			ai, has := asInt(ia[t.name])
			if !has {
				for i := range mo.GpuInstances {
					for j, v := range t.get(i) {
						if float64(float32(v)) != t.def[j] {
							return "instancing-mismatch", siteInst, fmt.Sprintf("%s: no %s instance attribute but instance %d has %v", where, t.name, i, t.get(i))
						}
					}
				}
				continue
			}
			vals, acc := c.d.Accessor(ai)
			if vals == nil || acc.n != t.n || acc.cnt != len(mo.GpuInstances) || acc.ct != ctFloat {
				return "instancing-mismatch", siteInst, fmt.Sprintf("%s: instance attribute %s → accessor %d is %s × %d (componentType %d), the model has %d instances", where, t.name, ai, acc.typ, acc.cnt, acc.ct, len(mo.GpuInstances))
			}
			for i := range mo.GpuInstances {
				e := t.get(i)
				for j := range e {
					if !f32eq(e[j], vals[i*t.n+j]) {
						return "instancing-mismatch", siteInst, fmt.Sprintf("%s: instance %d %s stored %v, the model's is %v (x,y,z[,w])", where, i, t.name, vals[i*t.n:(i+1)*t.n], e)
					}
				}
			}
			c.res.Count("instance_components_compared", int64(len(vals)))
		}
		for name := range ia {
			if name != "TRANSLATION" && name != "ROTATION" && name != "SCALE" {
				return "instancing-mismatch", siteInst, fmt.Sprintf("%s: unexpected instance attribute %s", where, name)
			}
		}
	}
	return "", "", ""
}

// content runs the per-model content oracle and the sharing rules.
func (c *checker) content() {
	d := c.d
	if d.Root == nil {
		return
	}
	c.em = make([]*expMesh, len(c.si.meshes))
	for i, mi := range c.si.meshes {
		c.em[i] = readMesh(mi.mesh)
	}
	c.nodeOf, c.meshOf, c.matOf, c.primOf = map[int]int{}, map[int]int{}, map[int]int{}, map[int]jobj{}
	// scene → root nodes
	var roots []int
	if sc := d.objAt("scenes", 0); sc != nil {
		ns, _ := asArr(sc["nodes"])
		for _, x := range ns {
			if ni, ok := asInt(x); ok {
				roots = append(roots, ni)
			}
		}
	} else if len(c.si.scene.Models)+len(c.si.scene.Lights) > 0 {
		c.viol("scene-missing", siteNode, "document has no scene 0")
		return
	}
	if x, has := d.Root["scene"]; has {
		if s, _ := asInt(x); s != 0 {
			c.viol("scene-missing", siteNode, "default scene is %v", x)
		}
	}
	var meshNodes, lightNodes, otherNodes []int
	for _, ni := range roots {
		no := d.objAt("nodes", ni)
		if no == nil {
			continue
		}
		_, hasMesh := no["mesh"]
		isLight := false
		if ex, ok := asObj(no["extensions"]); ok {
			_, isLight = ex["KHR_lights_punctual"]
		}
		switch {
		case hasMesh:
			meshNodes = append(meshNodes, ni)
		case isLight:
			lightNodes = append(lightNodes, ni)
		default:
			otherNodes = append(otherNodes, ni)
		}
	}
	nodes := d.arr("nodes")
	if len(roots) != len(nodes) {
		c.viol("stored-twice", siteStored, "%d nodes in the document, %d of them in the scene; every node written for a model or light must be a scene root", len(nodes), len(roots))
	}
	var written []int
	for k := range c.si.scene.Models {
		if !c.em[c.si.models[k].meshID].empty() {
			written = append(written, k)
		}
	}
	if len(meshNodes) != len(written) {
		c.viol("node-count-mismatch", siteNode, "%d mesh nodes in the scene, %d models with a non-empty mesh (of %d models)", len(meshNodes), len(written), len(c.si.scene.Models))
	}
	if len(otherNodes) > 0 {
		c.viol("node-count-mismatch", siteNode, "scene contains %d nodes that are neither a model nor a light: %v", len(otherNodes), otherNodes)
	}
	// greedy matching in order (falls back to any unused node, the order of nodes is not part of the property)
	usedNode := map[int]bool{}
	for pos, k := range written {
		try := []int{}
		if pos < len(meshNodes) {
			try = append(try, meshNodes[pos])
		}
		for _, ni := range meshNodes {
			if pos >= len(meshNodes) || ni != meshNodes[pos] {
				try = append(try, ni)
			}
		}
		matched := -1
		var first [3]string
		for t, ni := range try {
			if usedNode[ni] {
				continue
			}
			cl, st, dt := c.matchNode(k, ni)
			if cl == "" {
				matched = ni
				break
			}
			if t == 0 || first[0] == "" {
				first = [3]string{cl, st, dt}
			}
		}
		if matched < 0 {
			if first[0] != "" {
				c.viol(first[0], first[1], "%s", first[2])
			}
			continue
		}
		usedNode[matched] = true
		c.nodeOf[k] = matched
		no := d.objAt("nodes", matched)
		mi, _ := asInt(no["mesh"])
		c.meshOf[k] = mi
		prims, _ := asArr(d.objAt("meshes", mi)["primitives"])
		po, _ := asObj(prims[0])
		c.primOf[k] = po
		c.matOf[k] = -1
		if mx, has := asInt(po["material"]); has {
			c.matOf[k] = mx
		}
		c.res.Count("models_matched", 1)
	}
	c.lights(lightNodes)
	if len(c.nodeOf) == len(written) {
		c.sharing(written)
	}
}

func (c *checker) lights(lightNodes []int) {
	d := c.d
	ls := c.si.scene.Lights
	if len(lightNodes) != len(ls) {
		c.viol("light-mismatch", siteLight, "%d light nodes in the scene, the scene has %d lights", len(lightNodes), len(ls))
		return
	}
	var defs []any
	if re, ok := asObj(d.Root["extensions"]); ok {
		if rl, ok := asObj(re["KHR_lights_punctual"]); ok {
			defs, _ = asArr(rl["lights"])
		}
	}
	if len(defs) != len(ls) {
		c.viol("light-mismatch", siteLight, "%d light definitions, the scene has %d lights", len(defs), len(ls))
		return
	}
	used := map[int]bool{}
	for i, l := range ls {
		ok := false
		why := ""
		for _, ni := range lightNodes {
			if used[ni] {
				continue
			}
			no := d.objAt("nodes", ni)
			ex, _ := asObj(no["extensions"])
			lp, _ := asObj(ex["KHR_lights_punctual"])
			li, has := asInt(lp["light"])
			if !has || li < 0 || li >= len(defs) {
				continue
			}
			why = lightDiff(l, no, defs[li])
			if why == "" {
				used[ni] = true
				ok = true
				break
			}
		}
		if !ok {
			c.viol("light-mismatch", siteLight, "light %d of the scene has no matching node/definition: %s", i, why)
			return
		}
		c.res.Count("lights_compared", 1)
	}
}

func lightDiff(l gltf.KHR_LightsPunctual, no jobj, def any) string {
	t, ok := vecOr(no, "translation", []float64{0, 0, 0})
	if !ok || t[0] != l.Position.X() || t[1] != l.Position.Y() || t[2] != l.Position.Z() {
		return fmt.Sprintf("node translation %v, light position %v", no["translation"], l.Position)
	}
	do, _ := asObj(def)
	exp := jobj{"type": "point", "color": colorV{1, 1, 1}, "intensity": 1.0}
	if l.Type != "" {
		exp["type"] = string(l.Type)
	}
	if l.Color != nil {
		exp["color"] = rgb(l.Color)
	}
	if l.Intensity != nil {
		exp["intensity"] = *l.Intensity
	}
	if l.Range != nil {
		exp["range"] = *l.Range
	}
	obs := copyObj(do)
	setDef(obs, "color", []any{1.0, 1.0, 1.0})
	setDef(obs, "intensity", 1.0)
	delete(obs, "name") // the name of a light is not part of what the property states; not compared
	delete(obs, "spot")
	if p, dsc := diffTree(exp, obs, ""); p != "" {
		return "light definition differs at " + p + ": " + dsc
	}
	return ""
}

// sharing: stored-once and referenced-consistently rules.
func (c *checker) sharing(written []int) {
	d := c.d
	g := c.si.g
	// same mesh pointer → same accessors; + same material class → same mesh index
	type accSet struct {
		desc string
		k    int
	}
	byMesh := map[int]accSet{}
	type mm struct{ mesh, mat int }
	byMeshMat := map[mm][2]int{} // → (mesh index, model)
	meshMatClasses := map[mm]bool{}
	matIdxOfClass := map[int][2]int{}
	matClasses := map[int]bool{}
	accDesc := func(po jobj) string {
		at, _ := asObj(po["attributes"])
		var sb strings.Builder
		for _, k := range sortedKeys(at) {
			fmt.Fprintf(&sb, "%s=%v ", k, at[k])
		}
		fmt.Fprintf(&sb, "indices=%v", po["indices"])
		return sb.String()
	}
	for _, k := range written {
		info := c.si.models[k]
		mo := c.si.scene.Models[k]
		ds := accDesc(c.primOf[k])
		if prev, ok := byMesh[info.meshID]; ok {
			if prev.desc != ds {
				c.viol("mesh-not-shared", siteMeshDed, "models %d and %d use the same *modeling.Mesh but different accessors: {%s} vs {%s}", prev.k, k, prev.desc, ds)
			} else {
				c.res.Count("shared_mesh_pointer_pairs", 1)
			}
		} else {
			byMesh[info.meshID] = accSet{ds, k}
		}
		mc := -1
		if mo.Material != nil {
			mc = g.matClass[mo.Material]
			matClasses[mc] = true
			if prev, ok := matIdxOfClass[mc]; ok {
				if prev[0] != c.matOf[k] {
					c.viol("material-not-shared", siteMatDed, "models %d and %d use the same / an equal-by-value material (class %d, name %q) but reference materials[%d] and materials[%d]", prev[1], k, mc, mo.Material.Name, prev[0], c.matOf[k])
				} else {
					c.res.Count("shared_material_pairs", 1)
				}
			} else {
				matIdxOfClass[mc] = [2]int{c.matOf[k], k}
			}
		}
		key := mm{info.meshID, mc}
		meshMatClasses[key] = true
		if prev, ok := byMeshMat[key]; ok {
			if prev[0] != c.meshOf[k] {
				c.viol("mesh-not-shared", siteMeshDed, "models %d and %d use the same mesh pointer and the same material but reference meshes[%d] and meshes[%d]", prev[1], k, prev[0], c.meshOf[k])
			} else {
				c.res.Count("shared_mesh_index_pairs", 1)
			}
		} else {
			byMeshMat[key] = [2]int{c.meshOf[k], k}
		}
	}
	// distinct material indices for materials that differ (implied by the content check) — counted for the evidence
	for i, a := range written {
		for _, b := range written[i+1:] {
			ma, mb := c.si.scene.Models[a].Material, c.si.scene.Models[b].Material
			if ma != nil && mb != nil && g.matClass[ma] != g.matClass[mb] && c.matOf[a] != c.matOf[b] {
				c.res.Count("differing_material_pairs_kept_apart", 1)
			}
		}
	}
	// textures: same class → same texture index, wherever referenced
	texIdxOfClass := map[int][2]any{}
	texClasses := map[int]bool{}
	seenMat := map[int]bool{}
	for _, k := range written {
		mo := c.si.scene.Models[k]
		if mo.Material == nil {
			continue
		}
		b := &expBuilder{g: g}
		b.material(mo.Material)
		mat := d.objAt("materials", c.matOf[k])
		for _, ref := range b.refs {
			texClasses[ref.class] = true
			tio, ok := lookupPath(mat, ref.path)
			ti, _ := asObj(tio)
			if !ok || ti == nil {
				continue // content check already covers a missing texture
			}
			tx, _ := asInt(ti["index"])
			if prev, ok := texIdxOfClass[ref.class]; ok {
				if prev[0].(int) != tx {
					c.viol("texture-not-shared", siteTexDed, "the same / an equal-by-value texture (class %d, uri %q) is stored as textures[%d] (%v) and textures[%d] (materials[%d].%s)", ref.class, ref.tex.URI, prev[0], prev[1], tx, c.matOf[k], ref.path)
				} else if !seenMat[c.matOf[k]] {
					c.res.Count("shared_texture_refs", 1)
				}
			} else {
				texIdxOfClass[ref.class] = [2]any{tx, fmt.Sprintf("materials[%d].%s", c.matOf[k], ref.path)}
			}
		}
		seenMat[c.matOf[k]] = true
	}
	// stored once: upper bounds on the number of stored objects
	expAcc := 0
	for id := range byMesh {
		expAcc += len(c.em[id].attrs) + len(c.em[id].scalar) + 1
	}
	for _, k := range written {
		if c.si.models[k].inst > 0 {
			expAcc += 3
		}
	}
	bound := func(what string, got, max int) {
		if got > max {
			c.viol("stored-twice", siteStored, "%d %s stored, at most %d distinct ones are referenced by the scene", got, what, max)
		}
	}
	bound("accessors", len(d.arr("accessors")), expAcc)
	bound("bufferViews", len(d.arr("bufferViews")), expAcc)
	bound("meshes", len(d.arr("meshes")), len(meshMatClasses))
	bound("materials", len(d.arr("materials")), len(matClasses))
	bound("textures", len(d.arr("textures")), len(texClasses))
	bound("images", len(d.arr("images")), len(texClasses))
	bound("samplers", len(d.arr("samplers")), len(texClasses))
	// every stored accessor is referenced
	for i := range d.arr("accessors") {
		if _, ok := d.accUse[i]; !ok {
			c.viol("stored-twice", siteStored, "accessors[%d] is referenced by no primitive and no instancing extension", i)
			break
		}
	}
}

func sortedInts(m map[int]bool) []int {
	var out []int
	for k := range m {
		out = append(out, k)
	}
	sort.Ints(out)
	return out
}

var _ = math.Abs
