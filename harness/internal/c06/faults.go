package c06

// Phases fault-sequences (histories of exports with rejected scenes and failing writers in
// between) and large-payload (exact buffer sizes around the 1 MiB / 2 MiB marks).

import (
	"errors"
	"fmt"
	"io"
	"math"
	"math/rand"
	"strings"

	"github.com/EliCDavis/polyform/formats/gltf"
	"github.com/EliCDavis/polyform/modeling"
	"github.com/EliCDavis/vector/vector2"
	"github.com/EliCDavis/vector/vector3"
	"github.com/EliCDavis/vector/vector4"
	"polyverif/internal/gen"
	"polyverif/internal/run"
)

// validScene draws scenes until one is admissible to the writer and writes at least one model.
func validScene(r *rand.Rand) *sceneInfo {
	for {
		si := randomScene(r, nil, false)
		if si.expectReject || si.jsonReject {
			continue
		}
		for _, m := range si.models {
			if !m.skipped {
				return si
			}
		}
	}
}

var rejectKinds = []string{"nil-mesh", "alphaCutoff-without-alphaMode", "alphaCutoff-with-OPAQUE", "alphaCutoff-with-BLEND", "nonfinite-minmax-json"}

func smallTri(g *sg) *modeling.Mesh {
	m := modeling.NewTriangleMesh([]int{0, 1, 2, 2, 1, 3}).SetFloat3Attribute(modeling.PositionAttribute,
		[]vector3.Float64{g.v3(), g.v3(), g.v3(), g.v3()})
	return &m
}

// rejectScene: a valid scene whose first written model is followed (somewhere later) by a model
// the writer rejects: everything before it has already been added to the writer's buffer.
func rejectScene(r *rand.Rand, kind string) gltf.PolyformScene {
	si := validScene(r)
	g := si.g
	first := 0
	for k, m := range si.models {
		if !m.skipped {
			first = k
			break
		}
	}
	var bad gltf.PolyformModel
	switch kind {
	case "nil-mesh":
		bad = gltf.PolyformModel{Name: "bad", Mesh: nil}
		if r.Intn(2) == 0 {
			bad.Material = g.material(true)
		}
	case "alphaCutoff-without-alphaMode", "alphaCutoff-with-OPAQUE", "alphaCutoff-with-BLEND":
		m := g.material(true)
		m.AlphaCutoff = fp(0.25 + g.q()/2)
		m.AlphaMode = nil
		if kind == "alphaCutoff-with-OPAQUE" {
			am := gltf.MaterialAlphaMode_OPAQUE
			m.AlphaMode = &am
		} else if kind == "alphaCutoff-with-BLEND" {
			am := gltf.MaterialAlphaMode_BLEND
			m.AlphaMode = &am
		}
		bad = gltf.PolyformModel{Name: "bad", Mesh: smallTri(g), Material: m}
	case "nonfinite-minmax-json":
		mesh := smallTri(g)
		var m modeling.Mesh
		if r.Intn(2) == 0 {
			m = mesh.SetFloat4Attribute("userV4", []vector4.Float64{vector4.New(math.NaN(), 0, 0, 0), vector4.New(1., 0, 0, 0), vector4.New(0., 1, 0, 0), vector4.New(0., 0, 1, 0)})
		} else {
			m = mesh.SetFloat3Attribute(modeling.NormalAttribute, []vector3.Float64{vector3.New(math.Inf(1), 0, 0), vector3.New(1., 0, 0), vector3.New(0., 1, 0), vector3.New(0., 0, 1)})
		}
		bad = gltf.PolyformModel{Name: "bad", Mesh: &m}
	default:
		panic("harness: unknown reject kind " + kind)
	}
	models := append([]gltf.PolyformModel(nil), si.scene.Models...)
	pos := first + 1 + r.Intn(len(models)-first)
	models = append(models[:pos], append([]gltf.PolyformModel{bad}, models[pos:]...)...)
	return gltf.PolyformScene{Models: models, Lights: si.scene.Lights}
}

var errDiskFull = errors.New("verif: injected write failure")

// faultyWriter accepts budget bytes in total. The write that crosses the budget stores what fits
// and returns (n < len(p), err) as the io.Writer contract demands; later writes return (0, err).
type faultyWriter struct {
	budget int
	err    error
	n      int
	calls  int
}

func (f *faultyWriter) Write(p []byte) (int, error) {
	f.calls++
	room := f.budget - f.n
	if room >= len(p) {
		f.n += len(p)
		return len(p), nil
	}
	if room < 0 {
		room = 0
	}
	f.n += room
	return room, f.err
}

func faultSeqCase(c *run.Ctx) run.Result {
	var res run.Result
	r := c.Rng
	n := 3 + r.Intn(6)
	kinds := make([]string, n)
	anyFault := false
	for i := range kinds {
		switch r.Intn(4) {
		case 0:
			kinds[i] = "reject"
		case 1:
			kinds[i] = "failing-writer"
		default:
			kinds[i] = "valid"
		}
	}
	kinds[n-1] = "valid"
	for _, k := range kinds[:n-1] {
		anyFault = anyFault || k != "valid"
	}
	if !anyFault {
		kinds[r.Intn(n-1)] = []string{"reject", "failing-writer"}[r.Intn(2)]
	}
	var done []string
	faultSeen, checkedAfterFault := false, false
	for i, k := range kinds {
		cont := []string{"text", "glb"}[r.Intn(2)]
		site := "gltf.WriteText"
		if cont == "glb" {
			site = "gltf.WriteBinary"
		}
		note := fmt.Sprintf("export %d of %d, after [%s]: ", i+1, n, strings.Join(done, " "))
		write := func(sc gltf.PolyformScene, w io.Writer) (err error, p *run.PanicInfo) {
			p = run.Try(func() {
				if cont == "text" {
					err = gltf.WriteText(sc, w)
				} else {
					err = gltf.WriteBinary(sc, w)
				}
			})
			return
		}
		switch k {
		case "valid":
			si := validScene(r)
			acc, _ := exportAndCheck(c, &res, si, cont, note)
			res.Count("valid_exports_checked", 1)
			if faultSeen {
				res.Count("valid_exports_checked_after_a_fault", 1)
				if acc >= 2 {
					checkedAfterFault = true
				}
			}
			done = append(done, "valid/"+cont)
		case "reject":
			kind := rejectKinds[r.Intn(len(rejectKinds))]
			sc := rejectScene(r, kind)
			c.Note("gltf write rejected scene " + kind + " " + cont)
			err, p := write(sc, io.Discard)
			label := "reject:" + kind + "/" + cont
			res.SetAdd("fault_kinds", label)
			switch {
			case p != nil:
				res.Violate("writer-panic", site+" ("+p.Site+")", cont, fmt.Sprintf("%spanic while rejecting a scene (%s): %s\n%s", note, kind, p.Value, firstLines(p.Stack, 14)), map[string]any{"history": append(done, label)})
			case err == nil:
				res.Violate("fault-not-reported", site+" rejected scene", cont, fmt.Sprintf("%sscene with a %s model after valid models was exported without an error", note, kind), map[string]any{"history": append(done, label)})
			default:
				res.Count("rejected_exports_reported", 1)
				if errors.Is(err, gltf.ErrInvalidInput) {
					res.Count("rejections_wrapping_ErrInvalidInput", 1)
				}
			}
			faultSeen = true
			done = append(done, label)
		case "failing-writer":
			si := validScene(r)
			// learn the size from a checked export to a good writer (an ordinary valid export of the history)
			_, total := exportAndCheck(c, &res, si, cont, note)
			res.Count("valid_exports_checked", 1)
			if total <= 0 {
				done = append(done, "valid/"+cont)
				continue
			}
			budget := 0
			where := ""
			switch r.Intn(5) {
			case 0:
				budget, where = 0, "first-byte"
			case 1:
				budget, where = r.Intn(imin(20, total)), "header"
			case 2:
				budget, where = total-1, "last-byte"
			default:
				budget, where = r.Intn(total), "body"
			}
			fw := &faultyWriter{budget: budget, err: errDiskFull}
			mode := "error"
			if r.Intn(3) == 0 {
				fw.err, mode = io.ErrShortWrite, "short-write"
			}
			c.Note(fmt.Sprintf("gltf write %s to failing writer budget %d of %d", cont, budget, total))
			err, p := write(si.scene, fw)
			label := "failing-writer:" + mode + "@" + where + "/" + cont
			res.SetAdd("fault_kinds", label)
			switch {
			case p != nil:
				res.Violate("writer-panic", site+" ("+p.Site+")", cont, fmt.Sprintf("%spanic while writing to a failing io.Writer (budget %d of %d bytes): %s\n%s", note, budget, total, p.Value, firstLines(p.Stack, 14)), map[string]any{"history": append(done, label)})
			case err == nil:
				res.Count("failed_writes_not_reported_as_error(evidence only)", 1) // no property demands that a failed write is reported: evidence only, never a verdict
			default:
				res.Count("failed_writes_reported", 1)
			}
			faultSeen = true
			done = append(done, "valid/"+cont, label)
		}
	}
	res.Count("histories", 1)
	res.Count("exports", int64(len(done)))
	res.Sig = strings.Join(done, " ")
	res.Nontrivial = checkedAfterFault
	res.Sample = map[string]any{"history": done}
	return res
}

func imin(a, b int) int {
	if a < b {
		return a
	}
	return b
}

// ---- large payloads -----------------------------------------------------------

const mib = 1 << 20

// cloud builds a position-only (or position+uv) point cloud of n vertices with identity indices:
// 14 bytes per vertex with 16-bit indices (n ≤ 65535), 16 with 32-bit ones; +8 with uv.
func (g *sg) cloud(n int, uv bool) meshInfo {
	pos := make([]vector3.Float64, n)
	idx := make([]int, n)
	for i := range pos {
		pos[i] = vector3.New(float64(float32(g.r.Float64()*64-32)), float64(float32(g.r.Float64()*64-32)), float64(float32(g.r.Float64())))
		idx[i] = i
	}
	m := modeling.NewMesh(modeling.PointTopology, idx).SetFloat3Attribute(modeling.PositionAttribute, pos)
	d := gen.MeshDesc{Topology: modeling.PointTopology.String(), Verts: n, Prims: n, IndexPattern: "identity", ValueClass: "f32", Attrs: []string{"P"}}
	if uv {
		t := make([]vector2.Float64, n)
		for i := range t {
			t[i] = vector2.New(g.r.Float64(), g.r.Float64())
		}
		m = m.SetFloat2Attribute(modeling.TexCoordAttribute, t)
		d.Attrs = append(d.Attrs, modeling.TexCoordAttribute)
	}
	return meshInfo{mesh: &m, desc: d}
}

// composeClouds returns vertex counts (u32 cloud, u16 position-only clouds, one position+uv cloud)
// whose buffers add up to exactly target bytes (target even, ≥ 132).
func composeClouds(r *rand.Rand, target int) (n32 int, n16 []int, nUV int) {
	rest := target
	if target >= 16*65536 && r.Intn(2) == 0 {
		maxN := (target - 132) / 16
		if target == 16*65536 {
			maxN = 65536
		}
		if maxN >= 65536 {
			n32 = 65536 + r.Intn(imin(3000, maxN-65536+1))
			rest = target - 16*n32
		}
	}
	if rest == 0 {
		return
	}
	for b := 0; b <= 6; b++ {
		if rest-22*b >= 0 && (rest-22*b)%14 == 0 {
			nUV = b
			a := (rest - 22*b) / 14
			for a > 0 {
				k := imin(a, 20000+r.Intn(45000))
				n16 = append(n16, k)
				a -= k
			}
			return
		}
	}
	panic(fmt.Sprintf("harness: cannot compose %d bytes", target))
}

func largePayloadCase(c *run.Ctx) run.Result {
	r := c.Rng
	jitter := func(span int) int { return 2 * r.Intn(span/2) }
	var target int
	switch c.Case % 8 {
	case 0:
		target = mib - 2
	case 1:
		target = mib
	case 2:
		target = mib + 2
	case 3:
		target = mib + 4
	case 4:
		target = mib + 1000 + jitter(mib-2000) // strictly between 1 and 2 MiB
	case 5:
		target = 2*mib + 2
	case 6:
		target = 2*mib + 1000 + jitter(mib/2)
	default:
		target = 3*mib + 2 + jitter(mib/4)
	}
	if c.Tier == "thorough" && c.Case >= 8 && c.Case%8 <= 3 && r.Intn(2) == 0 {
		target = []int{mib - 4, 2*mib - 2, 2 * mib, 2*mib + 4, 3 * mib, 3*mib + 2}[r.Intn(6)]
	}
	g := newSG(r)
	n32, n16, nUV := composeClouds(r, target)
	var pool []meshInfo
	if n32 > 0 {
		pool = append(pool, g.cloud(n32, false))
	}
	for _, k := range n16 {
		pool = append(pool, g.cloud(k, false))
	}
	if nUV > 0 {
		pool = append(pool, g.cloud(nUV, true))
	}
	r.Shuffle(len(pool), func(i, j int) { pool[i], pool[j] = pool[j], pool[i] })
	var sc gltf.PolyformScene
	mat := g.material(false)
	for _, mi := range pool {
		mo := gltf.PolyformModel{Mesh: mi.mesh}
		if r.Intn(2) == 0 {
			mo.Material = mat
		}
		g.decorate(&mo)
		mo.GpuInstances = nil // instancing accessors would change the payload size
		sc.Models = append(sc.Models, mo)
	}
	// a second model on the first mesh: shares the accessors, adds no bytes
	sc.Models = append(sc.Models, gltf.PolyformModel{Name: "again", Mesh: pool[0].mesh, Material: mat})
	si := g.finish(sc, pool)
	res := runScene(c, si, fmt.Sprintf("target%d", target))
	res.Count("large_payload_target_bytes", int64(target))
	res.SetAdd("large_payload_targets", fmt.Sprint(target))
	return res
}
