package c06

// Independent structural reader of glTF 2.0 / GLB written from the format
// specification (Khronos glTF 2.0 §3–§5, GLB §4.4). It works on the generic
// encoding/json tree (map[string]any / []any / float64 / string) and on the raw
// buffer bytes; it shares no type and no code with polyform/formats/gltf.

import (
	"bytes"
	"encoding/base64"
	"encoding/binary"
	"encoding/json"
	"fmt"
	"math"
	"sort"
	"strings"
)

type jobj = map[string]any

// finding is one inconsistency. class+site form the signature.
type finding struct {
	class, site, detail string
}

const (
	siteGLB      = "gltf.Writer.WriteGLB container"
	siteText     = "gltf.WriteText container"
	siteRef      = "gltf.Writer index reference"
	siteView     = "gltf.Writer bufferView bookkeeping"
	siteAcc      = "gltf.Writer accessor bookkeeping"
	siteMinMax   = "gltf.Writer.WriteVector min/max"
	siteIdx      = "gltf.Writer.WriteIndices"
	siteExt      = "gltf.Writer extension bookkeeping"
	sitePrim     = "gltf.Writer.AddMesh primitive"
	siteKnownPad = "gltf.Writer bytesWritten (no padding after 2-byte view)"
)

const (
	ctByte   = 5120
	ctUByte  = 5121
	ctShort  = 5122
	ctUShort = 5123
	ctUInt   = 5125
	ctFloat  = 5126
)

func compSize(ct int) int {
	switch ct {
	case ctByte, ctUByte:
		return 1
	case ctShort, ctUShort:
		return 2
	case ctUInt, ctFloat:
		return 4
	}
	return 0
}

func typeN(t string) int {
	switch t {
	case "SCALAR":
		return 1
	case "VEC2":
		return 2
	case "VEC3":
		return 3
	case "VEC4", "MAT2":
		return 4
	case "MAT3":
		return 9
	case "MAT4":
		return 16
	}
	return 0
}

// Doc is a parsed asset: the JSON tree plus the payload of buffer 0.
type Doc struct {
	Container string // "glb" | "text"
	Root      jobj
	Bin       []byte // bytes available for buffer 0 (BIN chunk or decoded data URI)
	HasBin    bool
	F         []finding
	// usage marks collected while checking
	accUse   map[int]string // "index" | "attr" | "inst"
	accCache []accInfo
	ExtInUse map[string]string // extension name -> first place of use
	// stats
	Misaligned      int
	NonFiniteStored int // NaN / ±Inf components seen in accessors with min/max
	MinMaxNoDemand  int // min/max columns without any NaN-free element
	MinMaxSeen      int
}

func (d *Doc) add(class, site, format string, a ...any) {
	d.F = append(d.F, finding{class, site, fmt.Sprintf(format, a...)})
}

// ---- generic JSON helpers -------------------------------------------------

func asObj(v any) (jobj, bool) { o, ok := v.(map[string]any); return o, ok }
func asArr(v any) ([]any, bool) {
	a, ok := v.([]any)
	return a, ok
}
func asInt(v any) (int, bool) {
	f, ok := v.(float64)
	if !ok || f != math.Trunc(f) || math.Abs(f) > 1<<52 {
		return 0, false
	}
	return int(f), true
}
func asNum(v any) (float64, bool) { f, ok := v.(float64); return f, ok }
func asStr(v any) (string, bool)  { s, ok := v.(string); return s, ok }

func (d *Doc) arr(key string) []any {
	a, _ := asArr(d.Root[key])
	return a
}

// objAt returns element i of root array key as an object.
func (d *Doc) objAt(key string, i int) jobj {
	a := d.arr(key)
	if i < 0 || i >= len(a) {
		return nil
	}
	o, _ := asObj(a[i])
	return o
}

// ---- containers -----------------------------------------------------------

// ParseGLB checks the binary container (§4.4 of the spec) and parses the JSON chunk.
func ParseGLB(data []byte) *Doc {
	d := &Doc{Container: "glb"}
	if len(data) < 12 {
		d.add("glb-header", siteGLB, "file of %d bytes is shorter than the 12-byte header", len(data))
		return d
	}
	le := binary.LittleEndian
	if m := le.Uint32(data[0:]); m != 0x46546C67 {
		d.add("glb-header", siteGLB, "magic %#x != 0x46546C67", m)
		return d
	}
	if v := le.Uint32(data[4:]); v != 2 {
		d.add("glb-header", siteGLB, "container version %d != 2", v)
	}
	if tl := int(le.Uint32(data[8:])); tl != len(data) {
		d.add("glb-total-length", siteGLB, "header length %d != %d bytes written", tl, len(data))
	}
	if len(data)%4 != 0 {
		d.add("glb-chunk-padding", siteGLB, "file length %d is not a multiple of 4", len(data))
	}
	// chunk walk over the bytes actually present
	off := 12
	var jsonChunk []byte
	haveJSON := false
	nChunk := 0
	for off < len(data) {
		if off+8 > len(data) {
			d.add("glb-chunk-length", siteGLB, "truncated chunk header at offset %d (file %d bytes)", off, len(data))
			break
		}
		cl := int(le.Uint32(data[off:]))
		ct := le.Uint32(data[off+4:])
		if off%4 != 0 {
			d.add("glb-chunk-padding", siteGLB, "chunk %d starts at offset %d, not 4-byte aligned", nChunk, off)
		}
		if cl%4 != 0 {
			d.add("glb-chunk-padding", siteGLB, "chunk %d length %d is not a multiple of 4", nChunk, cl)
		}
		if off+8+cl > len(data) {
			d.add("glb-chunk-length", siteGLB, "chunk %d (type %#x) declares %d bytes at offset %d but the file ends at %d", nChunk, ct, cl, off+8, len(data))
			cl = len(data) - off - 8
		}
		body := data[off+8 : off+8+cl]
		switch {
		case nChunk == 0:
			if ct != 0x4E4F534A {
				d.add("glb-chunk-type", siteGLB, "first chunk type %#x is not JSON", ct)
			} else {
				jsonChunk, haveJSON = body, true
			}
		case nChunk == 1 && ct == 0x004E4942:
			d.Bin, d.HasBin = body, true
		case ct == 0x004E4942 || ct == 0x4E4F534A:
			d.add("glb-chunk-type", siteGLB, "chunk %d of type %#x: JSON must be first and BIN second, each at most once", nChunk, ct)
		}
		if cl == 0 && nChunk == 1 {
			d.add("glb-chunk-length", siteGLB, "empty BIN chunk")
		}
		off += 8 + cl
		nChunk++
	}
	if !haveJSON {
		d.add("glb-chunk-type", siteGLB, "no JSON chunk")
		return d
	}
	// JSON chunk: one JSON value followed by 0x20 padding only
	dec := json.NewDecoder(bytes.NewReader(jsonChunk))
	var root any
	if err := dec.Decode(&root); err != nil {
		d.add("json-invalid", siteGLB, "JSON chunk does not parse: %v", err)
		return d
	}
	rest := jsonChunk[dec.InputOffset():]
	for _, b := range rest {
		if b != 0x20 {
			d.add("glb-chunk-padding", siteGLB, "JSON chunk is followed by byte %#x inside the chunk; only 0x20 padding is allowed", b)
			break
		}
	}
	if len(rest) > 3 {
		d.add("glb-chunk-padding", siteGLB, "JSON chunk carries %d padding bytes (>3)", len(rest))
	}
	o, ok := asObj(root)
	if !ok {
		d.add("json-invalid", siteGLB, "JSON chunk is not an object")
		return d
	}
	d.Root = o
	// buffer 0 refers to the BIN chunk
	bufs := d.arr("buffers")
	if len(bufs) == 0 && d.HasBin {
		d.add("glb-bin-length", siteGLB, "BIN chunk of %d bytes but no buffer declared", len(d.Bin))
	}
	if len(bufs) > 0 {
		b0, _ := asObj(bufs[0])
		if _, hasURI := b0["uri"]; hasURI {
			d.add("glb-bin-length", siteGLB, "buffer 0 of a GLB carries a uri")
		}
		bl, _ := asInt(b0["byteLength"])
		if !d.HasBin {
			d.add("glb-bin-length", siteGLB, "buffer 0 declares %d bytes but there is no BIN chunk", bl)
		} else {
			if len(d.Bin) < bl {
				d.add("glb-bin-length", siteGLB, "BIN chunk has %d bytes < buffer.byteLength %d", len(d.Bin), bl)
			} else if len(d.Bin) > bl+3 {
				d.add("glb-bin-length", siteGLB, "BIN chunk has %d bytes, more than buffer.byteLength %d + 3 padding bytes", len(d.Bin), bl)
			} else {
				for _, b := range d.Bin[bl:] {
					if b != 0 {
						d.add("glb-chunk-padding", siteGLB, "BIN chunk padding byte %#x != 0", b)
						break
					}
				}
			}
		}
	}
	return d
}

// ParseText checks a .gltf document with an embedded base64 buffer.
func ParseText(data []byte) *Doc {
	d := &Doc{Container: "text"}
	dec := json.NewDecoder(bytes.NewReader(data))
	var root any
	if err := dec.Decode(&root); err != nil {
		d.add("json-invalid", siteText, "document does not parse: %v", err)
		return d
	}
	if rest := bytes.TrimSpace(data[dec.InputOffset():]); len(rest) > 0 {
		d.add("json-invalid", siteText, "%d bytes of trailing data after the JSON document", len(rest))
	}
	o, ok := asObj(root)
	if !ok {
		d.add("json-invalid", siteText, "document is not an object")
		return d
	}
	d.Root = o
	bufs := d.arr("buffers")
	if len(bufs) > 0 {
		b0, _ := asObj(bufs[0])
		uri, _ := asStr(b0["uri"])
		bl, _ := asInt(b0["byteLength"])
		const pfx = "data:"
		k := strings.Index(uri, ";base64,")
		if !strings.HasPrefix(uri, pfx) || k < 0 {
			d.add("text-buffer-uri", siteText, "buffer 0 uri is not a base64 data URI: %.60q", uri)
		} else {
			raw, err := strictBase64(uri[k+len(";base64,"):])
			if err != nil {
				d.add("text-buffer-uri", siteText, "base64 payload does not decode: %v", err)
			} else {
				d.Bin, d.HasBin = raw, true
				if len(raw) != bl {
					d.add("text-buffer-length", siteText, "decoded payload has %d bytes, buffer.byteLength says %d", len(raw), bl)
				}
			}
		}
	}
	return d
}

// strictBase64 decodes RFC 4648 §4 base64 the way a strict loader does: only alphabet characters,
// length a multiple of 4, '=' only as the last one or two characters, zero trailing bits.
func strictBase64(s string) ([]byte, error) {
	if len(s)%4 != 0 {
		return nil, fmt.Errorf("length %d is not a multiple of 4", len(s))
	}
	for i := 0; i < len(s); i++ {
		ch := s[i]
		ok := ch >= 'A' && ch <= 'Z' || ch >= 'a' && ch <= 'z' || ch >= '0' && ch <= '9' || ch == '+' || ch == '/'
		if ch == '=' {
			if i < len(s)-2 || (i == len(s)-2 && s[len(s)-1] != '=') {
				return nil, fmt.Errorf("padding character '=' at offset %d of %d (interior padding)", i, len(s))
			}
			ok = true
		}
		if !ok {
			return nil, fmt.Errorf("character %q at offset %d is not in the base64 alphabet", ch, i)
		}
	}
	return base64.StdEncoding.Strict().DecodeString(s)
}

// ---- structural checks ----------------------------------------------------

// refIdx checks that o[key], if present, is an integer in [0,n). Returns (idx, present&&valid).
func (d *Doc) refIdx(o jobj, key string, n int, what string) (int, bool) {
	v, ok := o[key]
	if !ok {
		return 0, false
	}
	i, ok := asInt(v)
	if !ok || i < 0 || i >= n {
		d.add("index-out-of-range", siteRef, "%s = %v, valid range [0,%d)", what, v, n)
		return 0, false
	}
	return i, true
}

// Check runs every structural rule listed in the property.
func (d *Doc) Check() {
	if d.Root == nil {
		return
	}
	d.accUse = map[int]string{}
	r := d.Root
	if a, ok := asObj(r["asset"]); !ok {
		d.add("asset-missing", siteRef, "no asset object")
	} else if v, _ := asStr(a["version"]); v != "2.0" {
		d.add("asset-missing", siteRef, "asset.version = %q", v)
	}
	buffers, views, accs := d.arr("buffers"), d.arr("bufferViews"), d.arr("accessors")
	nodes, meshes, mats := d.arr("nodes"), d.arr("meshes"), d.arr("materials")
	texs, imgs, smps, scenes := d.arr("textures"), d.arr("images"), d.arr("samplers"), d.arr("scenes")

	// buffers
	for i, b := range buffers {
		bo, _ := asObj(b)
		bl, ok := asInt(bo["byteLength"])
		if !ok || bl < 1 {
			d.add("buffer-length", siteView, "buffers[%d].byteLength = %v (must be an integer ≥ 1)", i, bo["byteLength"])
		}
		if i > 0 {
			d.add("buffer-length", siteView, "unexpected second buffer (no payload available for it)")
		}
	}
	buf0Len := 0
	if len(buffers) > 0 {
		b0, _ := asObj(buffers[0])
		buf0Len, _ = asInt(b0["byteLength"])
	}
	// bufferViews
	type viewT struct {
		ok               bool
		off, length      int
		stride, target   int
		hasStride, hasTg bool
	}
	vs := make([]viewT, len(views))
	for i, v := range views {
		vo, _ := asObj(v)
		var vt viewT
		if _, ok := d.refIdx(vo, "buffer", len(buffers), fmt.Sprintf("bufferViews[%d].buffer", i)); !ok {
			if _, has := vo["buffer"]; !has {
				d.add("index-out-of-range", siteRef, "bufferViews[%d] has no buffer", i)
			}
			continue
		}
		off := 0
		if x, has := vo["byteOffset"]; has {
			var ok bool
			off, ok = asInt(x)
			if !ok || off < 0 {
				d.add("view-out-of-buffer", siteView, "bufferViews[%d].byteOffset = %v", i, x)
				continue
			}
		}
		ln, ok := asInt(vo["byteLength"])
		if !ok || ln < 1 {
			d.add("view-out-of-buffer", siteView, "bufferViews[%d].byteLength = %v (must be ≥ 1)", i, vo["byteLength"])
			continue
		}
		if off+ln > buf0Len {
			d.add("view-out-of-buffer", siteView, "bufferViews[%d] covers [%d,%d) but buffer.byteLength is %d", i, off, off+ln, buf0Len)
			continue
		}
		if off+ln > len(d.Bin) {
			d.add("view-out-of-buffer", siteView, "bufferViews[%d] covers [%d,%d) but only %d payload bytes exist", i, off, off+ln, len(d.Bin))
			continue
		}
		vt.ok, vt.off, vt.length = true, off, ln
		if x, has := vo["byteStride"]; has {
			s, ok := asInt(x)
			if !ok || s < 4 || s > 252 || s%4 != 0 {
				d.add("view-stride", siteView, "bufferViews[%d].byteStride = %v (must be a multiple of 4 in [4,252])", i, x)
			} else {
				vt.stride, vt.hasStride = s, true
			}
		}
		if x, has := vo["target"]; has {
			t, ok := asInt(x)
			if !ok || (t != 34962 && t != 34963) {
				d.add("view-target", siteView, "bufferViews[%d].target = %v", i, x)
			} else {
				vt.target, vt.hasTg = t, true
			}
		}
		vs[i] = vt
	}
	// tightly packed layout? (used only to attribute misalignment to its known cause)
	packed := true
	run := 0
	for _, v := range vs {
		if !v.ok || v.off != run {
			packed = false
			break
		}
		run += v.length
	}

	// accessors
	type accT struct {
		ok         bool
		view       int
		base       int // absolute byte offset of element 0
		stride     int
		ct, n, cnt int
		typ        string
		normalized bool
		hasMinMax  bool
	}
	as := make([]accT, len(accs))
	oddSmallViewBefore := func(view int) bool {
		// some earlier view holds 1- or 2-byte components and has a length that is not a multiple of 4
		for _, a := range as {
			if a.ok && a.view < view && compSize(a.ct) < 4 && vs[a.view].length%4 != 0 {
				return true
			}
		}
		return false
	}
	for i, a := range accs {
		ao, _ := asObj(a)
		var at accT
		ct, ok := asInt(ao["componentType"])
		if !ok || compSize(ct) == 0 {
			d.add("accessor-type", siteAcc, "accessors[%d].componentType = %v", i, ao["componentType"])
			continue
		}
		typ, _ := asStr(ao["type"])
		n := typeN(typ)
		if n == 0 {
			d.add("accessor-type", siteAcc, "accessors[%d].type = %v", i, ao["type"])
			continue
		}
		cnt, ok := asInt(ao["count"])
		if !ok || cnt < 1 {
			d.add("accessor-count", siteAcc, "accessors[%d].count = %v (must be ≥ 1)", i, ao["count"])
			continue
		}
		if _, has := ao["bufferView"]; !has {
			d.add("accessor-out-of-view", siteAcc, "accessors[%d] has no bufferView (and no sparse data): it would be all zeros", i)
			continue
		}
		vi, ok := d.refIdx(ao, "bufferView", len(views), fmt.Sprintf("accessors[%d].bufferView", i))
		if !ok || !vs[vi].ok {
			continue
		}
		bo := 0
		if x, has := ao["byteOffset"]; has {
			bo, ok = asInt(x)
			if !ok || bo < 0 {
				d.add("accessor-out-of-view", siteAcc, "accessors[%d].byteOffset = %v", i, x)
				continue
			}
		}
		cs := compSize(ct)
		elem := cs * n
		stride := elem
		if vs[vi].hasStride {
			stride = vs[vi].stride
			if stride < elem {
				d.add("view-stride", siteView, "accessors[%d]: element size %d exceeds byteStride %d", i, elem, stride)
				continue
			}
		}
		need := stride*(cnt-1) + elem
		if bo+need > vs[vi].length {
			d.add("accessor-out-of-view", siteAcc, "accessors[%d] (%s of %d, count %d) needs bytes [%d,%d) of bufferViews[%d] whose byteLength is %d", i, typ, ct, cnt, bo, bo+need, vi, vs[vi].length)
			continue
		}
		at = accT{ok: true, view: vi, base: vs[vi].off + bo, stride: stride, ct: ct, n: n, cnt: cnt, typ: typ}
		at.normalized, _ = ao["normalized"].(bool)
		as[i] = at
		// component alignment — THE known finding when explained by missing padding
		if at.base%cs != 0 {
			d.Misaligned++
			if packed && bo == 0 && oddSmallViewBefore(vi) {
				d.add("accessor-misaligned", siteKnownPad,
					"accessors[%d] (componentType %d, size %d) starts at absolute byte %d = bufferViews[%d].byteOffset %d + accessor.byteOffset %d, not a multiple of %d; views are tightly packed after a 1-/2-byte-component view of a length that is not a multiple of 4",
					i, ct, cs, at.base, vi, vs[vi].off, bo, cs)
			} else {
				d.add("accessor-misaligned-unexplained", siteAcc,
					"accessors[%d] (componentType %d, size %d) starts at absolute byte %d = view offset %d + accessor offset %d, not a multiple of %d, and this is not explained by tightly packed views after a short-component view",
					i, ct, cs, at.base, vs[vi].off, bo, cs)
			}
		}
		if at.normalized && (ct == ctFloat || ct == ctUInt) {
			d.add("accessor-type", siteAcc, "accessors[%d]: normalized set on componentType %d", i, ct)
		}
		// min / max
		mn, hasMin := asArr(ao["min"])
		mx, hasMax := asArr(ao["max"])
		if hasMin != hasMax {
			d.add("minmax-mismatch", siteMinMax, "accessors[%d] declares only one of min/max", i)
		}
		if hasMin && hasMax {
			as[i].hasMinMax = true
			if len(mn) != n || len(mx) != n {
				d.add("minmax-mismatch", siteMinMax, "accessors[%d] %s: min has %d and max %d entries, expected %d", i, typ, len(mn), len(mx), n)
			} else {
				d.MinMaxSeen++
				vals := d.decode(at.base, at.stride, at.ct, at.n, at.cnt)
				// Non-finite data: the writer keeps NaN-carrying elements out of min/max (whole element on
				// the unchanged tree). Accepted: min/max over the elements without any NaN component (A), or
				// over the non-NaN components of each column (B). No contributing element => no demand.
				nanElem := make([]bool, cnt)
				for e := 0; e < cnt; e++ {
					for k := 0; k < n; k++ {
						if v := vals[e*n+k]; v != v {
							nanElem[e] = true
							d.NonFiniteStored++
						} else if math.IsInf(v, 0) {
							d.NonFiniteStored++
						}
					}
				}
				for k := 0; k < n; k++ {
					loA, hiA := math.Inf(1), math.Inf(-1)
					loB, hiB := math.Inf(1), math.Inf(-1)
					nA, nB := 0, 0
					for e := 0; e < cnt; e++ {
						v := vals[e*n+k]
						if v != v {
							continue
						}
						loB, hiB = math.Min(loB, v), math.Max(hiB, v)
						nB++
						if !nanElem[e] {
							loA, hiA = math.Min(loA, v), math.Max(hiA, v)
							nA++
						}
					}
					dlo, ok1 := asNum(mn[k])
					dhi, ok2 := asNum(mx[k])
					if !ok1 || !ok2 {
						d.add("minmax-mismatch", siteMinMax, "accessors[%d]: non-numeric min/max", i)
						break
					}
					if ct == ctFloat { // compared in float32
						dlo, dhi = float64(float32(dlo)), float64(float32(dhi))
					}
					if nA == 0 {
						d.MinMaxNoDemand++
						continue
					}
					okA := dlo == loA && dhi == hiA
					okB := nB > 0 && dlo == loB && dhi == hiB
					if !okA && !okB {
						d.add("minmax-mismatch", siteMinMax, "accessors[%d] %s component %d: declared min/max %v/%v, stored data has %v/%v over NaN-free elements (%v/%v over non-NaN components; count %d)", i, typ, k, mn[k], mx[k], loA, hiA, loB, hiB, cnt)
						break
					}
				}
			}
		}
	}
	d.accCache = make([]accInfo, len(as))
	for i, a := range as {
		d.accCache[i] = accInfo{ok: a.ok, view: a.view, base: a.base, stride: a.stride, ct: a.ct, n: a.n, cnt: a.cnt, typ: a.typ, normalized: a.normalized, hasMinMax: a.hasMinMax}
	}
	viewUse := map[int]string{}
	useView := func(ai int, kind string) {
		a := d.accCache[ai]
		if !a.ok {
			return
		}
		want := 34962
		k := "vertex"
		if kind == "index" {
			want, k = 34963, "index"
		}
		if prev, seen := viewUse[a.view]; seen && prev != k {
			d.add("view-target", siteView, "bufferViews[%d] is used for both index and vertex data", a.view)
		}
		viewUse[a.view] = k
		if kind != "inst" && vs[a.view].hasTg && vs[a.view].target != want {
			d.add("view-target", siteView, "bufferViews[%d].target = %d but it is used as %s data", a.view, vs[a.view].target, k)
		}
	}

	// samplers, images, textures
	for i, t := range texs {
		to, _ := asObj(t)
		d.refIdx(to, "source", len(imgs), fmt.Sprintf("textures[%d].source", i))
		d.refIdx(to, "sampler", len(smps), fmt.Sprintf("textures[%d].sampler", i))
	}
	for i, im := range imgs {
		io, _ := asObj(im)
		_, hasURI := io["uri"]
		_, hasBV := io["bufferView"]
		if hasURI == hasBV {
			d.add("image-source", siteRef, "images[%d] must have exactly one of uri / bufferView", i)
		}
		if hasBV {
			d.refIdx(io, "bufferView", len(views), fmt.Sprintf("images[%d].bufferView", i))
		}
	}
	// materials: every textureInfo (core and inside extensions) must reference a texture
	for i, m := range mats {
		mo, _ := asObj(m)
		d.walkTextureInfos(mo, fmt.Sprintf("materials[%d]", i), len(texs))
	}
	// meshes / primitives
	for mi, m := range meshes {
		mo, _ := asObj(m)
		prims, _ := asArr(mo["primitives"])
		if len(prims) == 0 {
			d.add("primitive-invalid", sitePrim, "meshes[%d] has no primitives", mi)
		}
		for pi, p := range prims {
			po, _ := asObj(p)
			where := fmt.Sprintf("meshes[%d].primitives[%d]", mi, pi)
			d.refIdx(po, "material", len(mats), where+".material")
			mode := 4
			if x, has := po["mode"]; has {
				var ok bool
				mode, ok = asInt(x)
				if !ok || mode < 0 || mode > 6 {
					d.add("primitive-invalid", sitePrim, "%s.mode = %v", where, x)
					mode = -1
				}
			}
			attrs, _ := asObj(po["attributes"])
			if len(attrs) == 0 {
				d.add("primitive-invalid", sitePrim, "%s has no attributes", where)
			}
			vcount := -1
			names := make([]string, 0, len(attrs))
			for k := range attrs {
				names = append(names, k)
			}
			sort.Strings(names)
			for _, name := range names {
				ai, ok := d.refIdx(attrs, name, len(accs), where+".attributes."+name)
				if !ok || !d.accCache[ai].ok {
					continue
				}
				a := d.accCache[ai]
				d.accUse[ai] = "attr"
				useView(ai, "attr")
				if vcount == -1 {
					vcount = a.cnt
				} else if vcount != a.cnt {
					d.add("attribute-count-mismatch", sitePrim, "%s: attribute %s has count %d, another attribute has %d", where, name, a.cnt, vcount)
				}
				if a.ct == ctUInt {
					d.add("accessor-type", siteAcc, "%s.attributes.%s uses UNSIGNED_INT components", where, name)
				}
				if (a.n*compSize(a.ct))%4 != 0 && !vs[a.view].hasStride {
					d.add("attribute-element-alignment", siteAcc, "%s.attributes.%s: element size %d is not a multiple of 4 and the view has no byteStride", where, name, a.n*compSize(a.ct))
				}
				want := ""
				switch name {
				case "POSITION", "NORMAL":
					want = "VEC3/5126"
				case "TEXCOORD_0", "TEXCOORD_1":
					if a.typ != "VEC2" {
						want = "VEC2"
					}
				case "TANGENT":
					want = "VEC4/5126"
				case "COLOR_0":
					if a.typ != "VEC3" && a.typ != "VEC4" {
						want = "VEC3|VEC4"
					}
				case "JOINTS_0":
					if a.typ != "VEC4" || (a.ct != ctUByte && a.ct != ctUShort) {
						want = "VEC4 of 5121|5123"
					}
				case "WEIGHTS_0":
					if a.typ != "VEC4" {
						want = "VEC4"
					}
				}
				if strings.Contains(want, "/") {
					if fmt.Sprintf("%s/%d", a.typ, a.ct) == want {
						want = ""
					}
				}
				if want != "" {
					d.add("accessor-type", siteAcc, "%s.attributes.%s is %s of componentType %d, the semantic requires %s", where, name, a.typ, a.ct, want)
				}
				if name == "POSITION" && !a.hasMinMax {
					d.add("minmax-mismatch", siteMinMax, "%s: POSITION accessor %d declares no min/max", where, ai)
				}
			}
			if _, has := po["indices"]; has {
				ii, ok := d.refIdx(po, "indices", len(accs), where+".indices")
				if ok && d.accCache[ii].ok {
					a := d.accCache[ii]
					d.accUse[ii] = "index"
					useView(ii, "index")
					if a.typ != "SCALAR" || (a.ct != ctUByte && a.ct != ctUShort && a.ct != ctUInt) {
						d.add("index-accessor-type", siteIdx, "%s.indices is %s of componentType %d", where, a.typ, a.ct)
					} else {
						if vs[a.view].hasStride {
							d.add("view-stride", siteView, "%s.indices: index bufferView has a byteStride", where)
						}
						vals := d.decode(a.base, a.stride, a.ct, 1, a.cnt)
						restart := float64(uint64(1)<<(8*uint(compSize(a.ct))) - 1)
						for e, v := range vals {
							if vcount >= 0 && int(v) >= vcount {
								d.add("index-out-of-vertex-range", siteIdx, "%s: index[%d] = %d but the attributes have %d vertices (index componentType %d)", where, e, int(v), vcount, a.ct)
								break
							}
							if v == restart {
								d.add("index-type-too-narrow", siteIdx, "%s: index[%d] = %d is the maximum value of componentType %d (reserved; type not wide enough for %d vertices)", where, e, int(v), a.ct, vcount)
								break
							}
						}
						switch mode {
						case 4:
							if a.cnt%3 != 0 {
								d.add("primitive-invalid", sitePrim, "%s: %d indices for TRIANGLES", where, a.cnt)
							}
						case 1:
							if a.cnt%2 != 0 {
								d.add("primitive-invalid", sitePrim, "%s: %d indices for LINES", where, a.cnt)
							}
						}
					}
				}
			}
		}
	}
	// nodes
	childOf := map[int]int{}
	for ni, n := range nodes {
		no, _ := asObj(n)
		where := fmt.Sprintf("nodes[%d]", ni)
		d.refIdx(no, "mesh", len(meshes), where+".mesh")
		d.refIdx(no, "skin", len(d.arr("skins")), where+".skin")
		d.refIdx(no, "camera", len(d.arr("cameras")), where+".camera")
		if ch, ok := asArr(no["children"]); ok {
			for _, c := range ch {
				ci, ok := asInt(c)
				if !ok || ci < 0 || ci >= len(nodes) {
					d.add("index-out-of-range", siteRef, "%s.children contains %v, valid range [0,%d)", where, c, len(nodes))
					continue
				}
				if _, dup := childOf[ci]; dup || ci == ni {
					d.add("node-hierarchy", siteRef, "nodes[%d] has more than one parent / is its own child", ci)
				}
				childOf[ci] = ni
			}
		}
		if _, hasM := no["matrix"]; hasM {
			for _, k := range []string{"translation", "rotation", "scale"} {
				if _, has := no[k]; has {
					d.add("node-hierarchy", siteRef, "%s has both matrix and %s", where, k)
				}
			}
		}
		for k, want := range map[string]int{"translation": 3, "rotation": 4, "scale": 3} {
			if x, has := no[k]; has {
				if a, ok := asArr(x); !ok || len(a) != want {
					d.add("node-transform-shape", siteRef, "%s.%s = %v", where, k, x)
				}
			}
		}
		// extensions on nodes
		if ex, ok := asObj(no["extensions"]); ok {
			if gi, ok := asObj(ex["EXT_mesh_gpu_instancing"]); ok {
				if _, hasMesh := no["mesh"]; !hasMesh {
					d.add("instancing-invalid", siteRef, "%s carries EXT_mesh_gpu_instancing without a mesh", where)
				}
				attrs, _ := asObj(gi["attributes"])
				if len(attrs) == 0 {
					d.add("instancing-invalid", siteRef, "%s: EXT_mesh_gpu_instancing without attributes", where)
				}
				icount := -1
				for _, name := range sortedKeys(attrs) {
					ai, ok := d.refIdx(attrs, name, len(accs), where+".EXT_mesh_gpu_instancing.attributes."+name)
					if !ok || !d.accCache[ai].ok {
						continue
					}
					a := d.accCache[ai]
					d.accUse[ai] = "inst"
					useView(ai, "inst")
					if icount == -1 {
						icount = a.cnt
					} else if icount != a.cnt {
						d.add("attribute-count-mismatch", siteRef, "%s: instancing attribute %s has count %d, another has %d", where, name, a.cnt, icount)
					}
					want := ""
					switch name {
					case "TRANSLATION", "SCALE":
						if a.typ != "VEC3" || a.ct != ctFloat {
							want = "VEC3 FLOAT"
						}
					case "ROTATION":
						if a.typ != "VEC4" || !(a.ct == ctFloat || ((a.ct == ctByte || a.ct == ctShort) && a.normalized)) {
							want = "VEC4 FLOAT or normalized BYTE/SHORT"
						}
					}
					if want != "" {
						d.add("accessor-type", siteAcc, "%s instancing attribute %s is %s of componentType %d, requires %s", where, name, a.typ, a.ct, want)
					}
				}
			}
			if lp, ok := asObj(ex["KHR_lights_punctual"]); ok {
				var lights []any
				if re, ok := asObj(r["extensions"]); ok {
					if rl, ok := asObj(re["KHR_lights_punctual"]); ok {
						lights, _ = asArr(rl["lights"])
					}
				}
				if _, has := lp["light"]; !has {
					d.add("index-out-of-range", siteRef, "%s.KHR_lights_punctual has no light index", where)
				}
				d.refIdx(lp, "light", len(lights), where+".extensions.KHR_lights_punctual.light")
			}
		}
	}
	// acyclic hierarchy
	for ni := range nodes {
		seen := 0
		for c, ok := ni, true; ok; c, ok = childOf[c], hasKey(childOf, c) {
			seen++
			if seen > len(nodes)+1 {
				d.add("node-hierarchy", siteRef, "cycle through nodes[%d]", ni)
				break
			}
		}
	}
	// scenes
	if _, has := r["scene"]; has {
		d.refIdx(r, "scene", len(scenes), "scene")
	}
	for si, s := range scenes {
		so, _ := asObj(s)
		ns, _ := asArr(so["nodes"])
		seen := map[int]bool{}
		for _, x := range ns {
			ni, ok := asInt(x)
			if !ok || ni < 0 || ni >= len(nodes) {
				d.add("index-out-of-range", siteRef, "scenes[%d].nodes contains %v, valid range [0,%d)", si, x, len(nodes))
				continue
			}
			if seen[ni] {
				d.add("node-hierarchy", siteRef, "scenes[%d].nodes lists node %d twice", si, ni)
			}
			seen[ni] = true
			if _, isChild := childOf[ni]; isChild {
				d.add("node-hierarchy", siteRef, "scenes[%d].nodes lists node %d which is not a root", si, ni)
			}
		}
	}
	// root light definitions
	if re, ok := asObj(r["extensions"]); ok {
		if rl, ok := asObj(re["KHR_lights_punctual"]); ok {
			ls, _ := asArr(rl["lights"])
			for i, l := range ls {
				lo, _ := asObj(l)
				t, _ := asStr(lo["type"])
				if t != "directional" && t != "point" && t != "spot" {
					d.add("light-invalid", siteExt, "lights[%d].type = %v", i, lo["type"])
				}
			}
		}
	}
	// extension declarations: every key of every "extensions" object anywhere must be in extensionsUsed
	used := map[string]bool{}
	if ua, ok := asArr(r["extensionsUsed"]); ok {
		for _, u := range ua {
			s, _ := asStr(u)
			if used[s] {
				d.add("extension-declaration", siteExt, "extensionsUsed lists %q twice", s)
			}
			used[s] = true
		}
	}
	if ra, ok := asArr(r["extensionsRequired"]); ok {
		for _, u := range ra {
			s, _ := asStr(u)
			if !used[s] {
				d.add("extension-undeclared", siteExt, "extensionsRequired lists %q which is not in extensionsUsed", s)
			}
		}
	}
	inUse := map[string]string{}
	collectExtensions(r, "", inUse)
	for _, e := range sortedKeysS(inUse) {
		if !used[e] {
			d.add("extension-undeclared", siteExt, "extension %q appears at %s but is not listed in extensionsUsed %v", e, inUse[e], r["extensionsUsed"])
		}
	}
	d.ExtInUse = inUse
}

func hasKey(m map[int]int, k int) bool { _, ok := m[k]; return ok }

func sortedKeys(m jobj) []string {
	ks := make([]string, 0, len(m))
	for k := range m {
		ks = append(ks, k)
	}
	sort.Strings(ks)
	return ks
}
func sortedKeysS(m map[string]string) []string {
	ks := make([]string, 0, len(m))
	for k := range m {
		ks = append(ks, k)
	}
	sort.Strings(ks)
	return ks
}

// collectExtensions walks the whole tree; every key below an object-valued
// "extensions" property is an extension in use. "extras" subtrees are opaque
// application data and are skipped.
func collectExtensions(v any, path string, out map[string]string) {
	switch t := v.(type) {
	case map[string]any:
		for k, c := range t {
			if k == "extras" {
				continue
			}
			if k == "extensions" {
				if eo, ok := c.(map[string]any); ok {
					for name, ev := range eo {
						if _, seen := out[name]; !seen {
							out[name] = path + ".extensions"
						}
						collectExtensions(ev, path+".extensions."+name, out)
					}
					continue
				}
			}
			collectExtensions(c, path+"."+k, out)
		}
	case []any:
		for i, c := range t {
			collectExtensions(c, fmt.Sprintf("%s[%d]", path, i), out)
		}
	}
}

// walkTextureInfos checks every object stored under a key ending in "Texture"
// (core material textures and those of material extensions).
func (d *Doc) walkTextureInfos(o jobj, path string, nTex int) {
	for _, k := range sortedKeys(o) {
		if k == "extras" {
			continue
		}
		c := o[k]
		co, ok := asObj(c)
		if !ok {
			continue
		}
		if strings.HasSuffix(k, "Texture") {
			if _, has := co["index"]; !has {
				d.add("index-out-of-range", siteRef, "%s.%s has no texture index", path, k)
			} else {
				d.refIdx(co, "index", nTex, path+"."+k+".index")
			}
			if x, has := co["texCoord"]; has {
				if tc, ok := asInt(x); !ok || tc < 0 {
					d.add("index-out-of-range", siteRef, "%s.%s.texCoord = %v", path, k, x)
				}
			}
		}
		d.walkTextureInfos(co, path+"."+k, nTex)
	}
}

// ---- accessor decoding ----------------------------------------------------

type accInfo struct {
	ok                 bool
	view, base, stride int
	ct, n, cnt         int
	typ                string
	normalized         bool
	hasMinMax          bool
}

// decode returns the cnt*n stored components as float64 (exact for every component type).
func (d *Doc) decode(base, stride, ct, n, cnt int) []float64 {
	out := make([]float64, cnt*n)
	cs := compSize(ct)
	le := binary.LittleEndian
	for e := 0; e < cnt; e++ {
		for k := 0; k < n; k++ {
			p := base + e*stride + k*cs
			if p+cs > len(d.Bin) {
				out[e*n+k] = math.NaN()
				continue
			}
			var v float64
			switch ct {
			case ctByte:
				v = float64(int8(d.Bin[p]))
			case ctUByte:
				v = float64(d.Bin[p])
			case ctShort:
				v = float64(int16(le.Uint16(d.Bin[p:])))
			case ctUShort:
				v = float64(le.Uint16(d.Bin[p:]))
			case ctUInt:
				v = float64(le.Uint32(d.Bin[p:]))
			case ctFloat:
				v = float64(math.Float32frombits(le.Uint32(d.Bin[p:])))
			}
			out[e*n+k] = v
		}
	}
	return out
}

// Accessor returns the decoded components of accessor i (nil when the accessor is not usable).
func (d *Doc) Accessor(i int) ([]float64, accInfo) {
	if i < 0 || i >= len(d.accCache) || !d.accCache[i].ok {
		return nil, accInfo{}
	}
	a := d.accCache[i]
	return d.decode(a.base, a.stride, a.ct, a.n, a.cnt), a
}
