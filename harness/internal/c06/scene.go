package c06

// Seeded scene generator: models drawn from small pools of mesh / material /
// texture pointers (to force sharing), value-equal copies, and single-field
// variants of a base material or texture.

import (
	"fmt"
	"image/color"
	"math"
	"math/rand"
	"sort"
	"strings"

	"github.com/EliCDavis/polyform/formats/gltf"
	"github.com/EliCDavis/polyform/math/quaternion"
	"github.com/EliCDavis/polyform/math/trs"
	"github.com/EliCDavis/polyform/modeling"
	"github.com/EliCDavis/vector/vector2"
	"github.com/EliCDavis/vector/vector3"
	"github.com/EliCDavis/vector/vector4"
	"polyverif/internal/gen"
)

// verifExt is a harness-defined material extension (the MaterialExtension interface is
// public API): exercises the extension bookkeeping with an id polyform has never heard of.
type verifExt struct {
	ID string
	A  float64
	B  string
}

func (v verifExt) ExtensionID() string { return v.ID }
func (v verifExt) ToMaterialExtensionData(w *gltf.Writer) map[string]any {
	return map[string]any{"a": v.A, "b": v.B}
}

type sg struct {
	r          *rand.Rand
	texClass   map[*gltf.PolyformTexture]int
	matClass   map[*gltf.PolyformMaterial]int
	nextClass  int
	samplers   []*gltf.Sampler
	kinds      []string // variant kinds applied in this scene
	deepExt    int      // number of materials that are deep copies with re-allocated extension internals (no sharing demand)
	noSampName bool     // leave sampler names out
}

func newSG(r *rand.Rand) *sg {
	return &sg{r: r, texClass: map[*gltf.PolyformTexture]int{}, matClass: map[*gltf.PolyformMaterial]int{}}
}

func (g *sg) class() int { g.nextClass++; return g.nextClass }

func fp(v float64) *float64 { return &v }
func ip(v int) *int         { return &v }

var uriPool = []string{"a.png", "b.png", "tex/c.jpg", "d.webp"}

// 8-bit channel values that differ by ≥ 1/15 after normalisation.
func (g *sg) chan8() uint8 { return uint8(17 * g.r.Intn(16)) }

func (g *sg) color() color.Color {
	switch g.r.Intn(5) {
	case 0:
		return color.RGBA{g.chan8(), g.chan8(), g.chan8(), 255}
	case 1:
		return color.NRGBA{g.chan8(), g.chan8(), g.chan8(), uint8(17 * (1 + g.r.Intn(15)))}
	case 2:
		return color.RGBA64{uint16(g.chan8()) * 257, uint16(g.chan8()) * 257, uint16(g.chan8()) * 257, 65535}
	case 3:
		return color.Gray{g.chan8()}
	}
	return color.RGBA{uint8(g.r.Intn(256)), uint8(g.r.Intn(256)), uint8(g.r.Intn(256)), 255}
}

// otherColor returns a colour whose normalised RGBA differs from c by ≥ 1/15 in some channel.
func (g *sg) otherColor(c color.Color) color.Color {
	for {
		n := color.RGBA{g.chan8(), g.chan8(), g.chan8(), 255}
		if c == nil {
			return n
		}
		r0, g0, b0, _ := c.RGBA()
		r1, g1, b1, _ := n.RGBA()
		d := func(a, b uint32) bool {
			x := int(a) - int(b)
			if x < 0 {
				x = -x
			}
			return x >= 65535/16
		}
		if d(r0, r1) || d(g0, g1) || d(b0, b1) {
			return n
		}
	}
}

var (
	magFilters = []gltf.SamplerMagFilter{0, gltf.SamplerMagFilter_NEAREST, gltf.SamplerMagFilter_LINEAR}
	minFilters = []gltf.SamplerMinFilter{0, gltf.SamplerMinFilter_NEAREST, gltf.SamplerMinFilter_LINEAR, gltf.SamplerMinFilter_NEAREST_MIPMAP_NEAREST,
		gltf.SamplerMinFilter_LINEAR_MIPMAP_NEAREST, gltf.SamplerMinFilter_NEAREST_MIPMAP_LINEAR, gltf.SamplerMinFilter_LINEAR_MIPMAP_LINEAR}
	wraps = []gltf.SamplerWrap{0, gltf.SamplerWrap_CLAMP_TO_EDGE, gltf.SamplerWrap_MIRRORED_REPEAT, gltf.SamplerWrap_REPEAT}
)

func (g *sg) sampler() *gltf.Sampler {
	if len(g.samplers) > 0 && g.r.Intn(2) == 0 {
		return g.samplers[g.r.Intn(len(g.samplers))]
	}
	s := &gltf.Sampler{MagFilter: magFilters[g.r.Intn(len(magFilters))], MinFilter: minFilters[g.r.Intn(len(minFilters))],
		WrapS: wraps[g.r.Intn(len(wraps))], WrapT: wraps[g.r.Intn(len(wraps))]}
	if !g.noSampName && g.r.Intn(4) == 0 {
		s.Name = []string{"s0", "s1"}[g.r.Intn(2)]
	}
	g.samplers = append(g.samplers, s)
	return s
}

func (g *sg) transform() gltf.PolyformTextureTransform {
	var t gltf.PolyformTextureTransform
	for t.Offset == nil && t.Rotation == nil && t.Scale == nil && t.TexCoord == nil {
		if g.r.Intn(2) == 0 {
			v := vector2.New(float64(g.r.Intn(5))/4, float64(g.r.Intn(5))/4)
			t.Offset = &v
		}
		if g.r.Intn(2) == 0 {
			t.Rotation = fp(float64(1+g.r.Intn(6)) / 4)
		}
		if g.r.Intn(2) == 0 {
			v := vector2.New(float64(1+g.r.Intn(4))/2, float64(1+g.r.Intn(4))/2)
			t.Scale = &v
		}
		if g.r.Intn(4) == 0 {
			t.TexCoord = ip(1 + g.r.Intn(2))
		}
	}
	t.Required = g.r.Intn(4) == 0
	return t
}

func (g *sg) texture() *gltf.PolyformTexture {
	t := &gltf.PolyformTexture{URI: uriPool[g.r.Intn(len(uriPool))]}
	if g.r.Intn(5) < 3 {
		t.Sampler = g.sampler()
	}
	if g.r.Intn(5) < 2 {
		t.Extensions = []gltf.TextureExtension{g.transform()}
	}
	g.texClass[t] = g.class()
	return t
}

// cloneTex: new pointer, equal by value, same class.
func (g *sg) cloneTex(t *gltf.PolyformTexture) *gltf.PolyformTexture {
	if t == nil {
		return nil
	}
	c := &gltf.PolyformTexture{URI: t.URI, Sampler: t.Sampler}
	if t.Sampler != nil && g.r.Intn(2) == 0 {
		s := *t.Sampler
		c.Sampler = &s
	}
	if t.Extensions != nil {
		c.Extensions = append([]gltf.TextureExtension(nil), t.Extensions...)
	}
	g.texClass[c] = g.texClass[t]
	return c
}

var texKinds = []string{"uri", "sampler-presence", "sampler.magFilter", "sampler.minFilter", "sampler.wrapS", "sampler.wrapT", "sampler.name",
	"transform-presence", "transform.offset", "transform.rotation", "transform.scale", "transform.texCoord"}

func (g *sg) getTransform(t *gltf.PolyformTexture) (gltf.PolyformTextureTransform, bool) {
	if len(t.Extensions) == 1 {
		tt, ok := t.Extensions[0].(gltf.PolyformTextureTransform)
		return tt, ok
	}
	return gltf.PolyformTextureTransform{}, false
}

// mutTex returns a value copy of t that differs in exactly the field named by kind (new class).
func (g *sg) mutTex(t *gltf.PolyformTexture, kind string) *gltf.PolyformTexture {
	c := &gltf.PolyformTexture{URI: t.URI}
	if t.Sampler != nil {
		s := *t.Sampler
		c.Sampler = &s
	}
	if t.Extensions != nil {
		c.Extensions = append([]gltf.TextureExtension(nil), t.Extensions...)
	}
	g.texClass[c] = g.class()
	needSampler := func() {
		if c.Sampler == nil {
			// cannot vary a sampler field without a sampler: vary presence instead
			kind = "sampler-presence"
		}
	}
	if strings.HasPrefix(kind, "sampler.") {
		needSampler()
	}
	tt, hasT := g.getTransform(c)
	if strings.HasPrefix(kind, "transform.") && !hasT {
		kind = "transform-presence"
	}
	switch kind {
	case "uri":
		for c.URI == t.URI {
			c.URI = uriPool[g.r.Intn(len(uriPool))]
		}
	case "sampler-presence":
		if c.Sampler == nil {
			c.Sampler = &gltf.Sampler{MagFilter: gltf.SamplerMagFilter_LINEAR, WrapS: gltf.SamplerWrap_CLAMP_TO_EDGE}
		} else {
			c.Sampler = nil
		}
	case "sampler.magFilter":
		for c.Sampler.MagFilter == t.Sampler.MagFilter {
			c.Sampler.MagFilter = magFilters[g.r.Intn(len(magFilters))]
		}
	case "sampler.minFilter":
		for c.Sampler.MinFilter == t.Sampler.MinFilter {
			c.Sampler.MinFilter = minFilters[g.r.Intn(len(minFilters))]
		}
	case "sampler.wrapS": // 0 and REPEAT are the same value semantically: choose among the other two / REPEAT
		c.Sampler.WrapS = otherWrap(g.r, t.Sampler.WrapS)
	case "sampler.wrapT":
		c.Sampler.WrapT = otherWrap(g.r, t.Sampler.WrapT)
	case "sampler.name":
		c.Sampler.Name = t.Sampler.Name + "x"
	case "transform-presence":
		if hasT {
			c.Extensions = nil
		} else {
			c.Extensions = []gltf.TextureExtension{g.transform()}
		}
	case "transform.offset":
		v := vector2.New(7.5, 0.25)
		if tt.Offset != nil {
			v = tt.Offset.Add(vector2.New(0.5, 0))
		}
		tt.Offset = &v
		c.Extensions = []gltf.TextureExtension{tt}
	case "transform.rotation":
		v := 2.75
		if tt.Rotation != nil {
			v = *tt.Rotation + 0.5
		}
		tt.Rotation = &v
		c.Extensions = []gltf.TextureExtension{tt}
	case "transform.scale":
		v := vector2.New(3.5, 3.5)
		if tt.Scale != nil {
			v = tt.Scale.Add(vector2.New(0, 0.5))
		}
		tt.Scale = &v
		c.Extensions = []gltf.TextureExtension{tt}
	case "transform.texCoord":
		v := 3
		if tt.TexCoord != nil {
			v = *tt.TexCoord + 1
		}
		tt.TexCoord = &v
		c.Extensions = []gltf.TextureExtension{tt}
	default:
		panic("harness: unknown texture kind " + kind)
	}
	g.kinds = append(g.kinds, "tex:"+kind)
	return c
}

func otherWrap(r *rand.Rand, w gltf.SamplerWrap) gltf.SamplerWrap {
	sem := func(x gltf.SamplerWrap) gltf.SamplerWrap {
		if x == 0 {
			return gltf.SamplerWrap_REPEAT
		}
		return x
	}
	for {
		n := wraps[1+r.Intn(3)]
		if sem(n) != sem(w) {
			return n
		}
	}
}

// ---- material extensions -------------------------------------------------

var extIDs = []string{"KHR_materials_pbrSpecularGlossiness", "KHR_materials_transmission", "KHR_materials_volume", "KHR_materials_ior",
	"KHR_materials_specular", "KHR_materials_unlit", "KHR_materials_clearcoat", "KHR_materials_emissive_strength", "KHR_materials_iridescence",
	"KHR_materials_sheen", "KHR_materials_anisotropy", "KHR_materials_dispersion", "VERIF_materials_probe"}

func (g *sg) q() float64 { return float64(g.r.Intn(17)) / 16 } // exactly representable factors

func (g *sg) optTex() *gltf.PolyformTexture {
	if g.r.Intn(3) == 0 {
		return g.texture()
	}
	return nil
}
func (g *sg) optF() *float64 {
	if g.r.Intn(2) == 0 {
		return fp(g.q())
	}
	return nil
}
func (g *sg) optColor() color.Color {
	if g.r.Intn(2) == 0 {
		return g.color()
	}
	return nil
}

func (g *sg) extension(id string) gltf.MaterialExtension {
	switch id {
	case "KHR_materials_pbrSpecularGlossiness":
		return gltf.PolyformPbrSpecularGlossiness{DiffuseFactor: g.optColor(), DiffuseTexture: g.optTex(), SpecularFactor: g.optColor(), GlossinessFactor: g.optF(), SpecularGlossinessTexture: g.optTex()}
	case "KHR_materials_transmission":
		return gltf.PolyformTransmission{Factor: g.q(), Texture: g.optTex()}
	case "KHR_materials_volume":
		return gltf.PolyformVolume{ThicknessFactor: g.q(), ThicknessTexture: g.optTex(), AttenuationDistance: g.optF(), AttenuationColor: g.optColor()}
	case "KHR_materials_ior":
		return gltf.PolyformIndexOfRefraction{IOR: g.optF()}
	case "KHR_materials_specular":
		return gltf.PolyformSpecular{Factor: g.optF(), Texture: g.optTex(), ColorFactor: g.optColor(), ColorTexture: g.optTex()}
	case "KHR_materials_unlit":
		return gltf.PolyformUnlit{}
	case "KHR_materials_clearcoat":
		return gltf.PolyformClearcoat{ClearcoatFactor: g.q(), ClearcoatTexture: g.optTex(), ClearcoatRoughnessFactor: g.q(), ClearcoatRoughnessTexture: g.optTex()}
	case "KHR_materials_emissive_strength":
		return gltf.PolyformEmissiveStrength{EmissiveStrength: g.optF()}
	case "KHR_materials_iridescence":
		return gltf.PolyformIridescence{IridescenceFactor: g.q(), IridescenceTexture: g.optTex(), IridescenceIor: g.optF(), IridescenceThicknessMinimum: g.optF(),
			IridescenceThicknessMaximum: g.optF(), IridescenceThicknessTexture: g.optTex()}
	case "KHR_materials_sheen":
		return gltf.PolyformSheen{SheenColorFactor: g.optColor(), SheenColorTexture: g.optTex(), SheenRoughnessFactor: g.q(), SheenRoughnessTexture: g.optTex()}
	case "KHR_materials_anisotropy":
		return gltf.PolyformAnisotropy{AnisotropyStrength: g.q(), AnisotropyRotation: g.q(), AnisotropyTexture: g.optTex()}
	case "KHR_materials_dispersion":
		return gltf.PolyformDispersion{Dispersion: g.q()}
	case "VERIF_materials_probe":
		return verifExt{ID: id, A: g.q(), B: []string{"x", "y"}[g.r.Intn(2)]}
	}
	panic("harness: unknown extension id " + id)
}

// mutExtValue returns ext with exactly one scalar/colour field changed to a semantically different value.
func (g *sg) mutExtValue(e gltf.MaterialExtension) (gltf.MaterialExtension, bool) {
	bump := func(p *float64, def float64) *float64 {
		v := def + 0.375
		if p != nil {
			v = *p + 0.375
		}
		return &v
	}
	switch x := e.(type) {
	case gltf.PolyformPbrSpecularGlossiness:
		if g.r.Intn(2) == 0 {
			x.GlossinessFactor = bump(x.GlossinessFactor, 1)
		} else {
			x.DiffuseFactor = g.otherColor(orWhite(x.DiffuseFactor))
		}
		return x, true
	case gltf.PolyformTransmission:
		x.Factor += 0.375
		return x, true
	case gltf.PolyformVolume:
		switch g.r.Intn(3) {
		case 0:
			x.ThicknessFactor += 0.375
		case 1:
			x.AttenuationDistance = bump(x.AttenuationDistance, 2)
		default:
			x.AttenuationColor = g.otherColor(orWhite(x.AttenuationColor))
		}
		return x, true
	case gltf.PolyformIndexOfRefraction:
		x.IOR = bump(x.IOR, 1.5)
		return x, true
	case gltf.PolyformSpecular:
		if g.r.Intn(2) == 0 {
			x.Factor = bump(x.Factor, 1)
		} else {
			x.ColorFactor = g.otherColor(orWhite(x.ColorFactor))
		}
		return x, true
	case gltf.PolyformClearcoat:
		if g.r.Intn(2) == 0 {
			x.ClearcoatFactor += 0.375
		} else {
			x.ClearcoatRoughnessFactor += 0.375
		}
		return x, true
	case gltf.PolyformEmissiveStrength:
		x.EmissiveStrength = bump(x.EmissiveStrength, 1)
		return x, true
	case gltf.PolyformIridescence:
		switch g.r.Intn(4) {
		case 0:
			x.IridescenceFactor += 0.375
		case 1:
			x.IridescenceIor = bump(x.IridescenceIor, 1.3)
		case 2:
			x.IridescenceThicknessMinimum = bump(x.IridescenceThicknessMinimum, 100)
		default:
			x.IridescenceThicknessMaximum = bump(x.IridescenceThicknessMaximum, 400)
		}
		return x, true
	case gltf.PolyformSheen:
		if g.r.Intn(2) == 0 {
			x.SheenRoughnessFactor += 0.375
		} else {
			x.SheenColorFactor = g.otherColor(orBlack(x.SheenColorFactor))
		}
		return x, true
	case gltf.PolyformAnisotropy:
		if g.r.Intn(2) == 0 {
			x.AnisotropyStrength += 0.375
		} else {
			x.AnisotropyRotation += 0.375
		}
		return x, true
	case gltf.PolyformDispersion:
		x.Dispersion += 0.375
		return x, true
	case verifExt:
		if g.r.Intn(2) == 0 {
			x.A += 0.375
		} else {
			x.B += "z"
		}
		return x, true
	}
	return e, false // unlit has no values
}

func orWhite(c color.Color) color.Color {
	if c == nil {
		return color.RGBA{255, 255, 255, 255}
	}
	return c
}
func orBlack(c color.Color) color.Color {
	if c == nil {
		return color.RGBA{0, 0, 0, 255}
	}
	return c
}

// extTexSlot gives access to one texture slot of an extension value (the first one it has).
func extTexSlot(e gltf.MaterialExtension) (get *gltf.PolyformTexture, set func(*gltf.PolyformTexture) gltf.MaterialExtension, ok bool) {
	switch x := e.(type) {
	case gltf.PolyformPbrSpecularGlossiness:
		return x.DiffuseTexture, func(t *gltf.PolyformTexture) gltf.MaterialExtension { x.DiffuseTexture = t; return x }, true
	case gltf.PolyformTransmission:
		return x.Texture, func(t *gltf.PolyformTexture) gltf.MaterialExtension { x.Texture = t; return x }, true
	case gltf.PolyformVolume:
		return x.ThicknessTexture, func(t *gltf.PolyformTexture) gltf.MaterialExtension { x.ThicknessTexture = t; return x }, true
	case gltf.PolyformSpecular:
		return x.ColorTexture, func(t *gltf.PolyformTexture) gltf.MaterialExtension { x.ColorTexture = t; return x }, true
	case gltf.PolyformClearcoat:
		return x.ClearcoatRoughnessTexture, func(t *gltf.PolyformTexture) gltf.MaterialExtension { x.ClearcoatRoughnessTexture = t; return x }, true
	case gltf.PolyformIridescence:
		return x.IridescenceThicknessTexture, func(t *gltf.PolyformTexture) gltf.MaterialExtension { x.IridescenceThicknessTexture = t; return x }, true
	case gltf.PolyformSheen:
		return x.SheenColorTexture, func(t *gltf.PolyformTexture) gltf.MaterialExtension { x.SheenColorTexture = t; return x }, true
	case gltf.PolyformAnisotropy:
		return x.AnisotropyTexture, func(t *gltf.PolyformTexture) gltf.MaterialExtension { x.AnisotropyTexture = t; return x }, true
	}
	return nil, nil, false
}

var extWithTex = []string{"KHR_materials_pbrSpecularGlossiness", "KHR_materials_transmission", "KHR_materials_volume", "KHR_materials_specular",
	"KHR_materials_clearcoat", "KHR_materials_iridescence", "KHR_materials_sheen", "KHR_materials_anisotropy"}

// deepExt re-allocates every pointer inside an extension value (equal by value, NOT identical):
// polyform compares extension values with ==, i.e. pointer fields by identity, so such copies are
// not expected to be merged; the monitor makes no sharing demand for them.
func (g *sg) deepExtCopy(e gltf.MaterialExtension) gltf.MaterialExtension {
	cf := func(p *float64) *float64 {
		if p == nil {
			return nil
		}
		return fp(*p)
	}
	switch x := e.(type) {
	case gltf.PolyformPbrSpecularGlossiness:
		x.DiffuseTexture, x.SpecularGlossinessTexture, x.GlossinessFactor = g.cloneTex(x.DiffuseTexture), g.cloneTex(x.SpecularGlossinessTexture), cf(x.GlossinessFactor)
		return x
	case gltf.PolyformTransmission:
		x.Texture = g.cloneTex(x.Texture)
		return x
	case gltf.PolyformVolume:
		x.ThicknessTexture, x.AttenuationDistance = g.cloneTex(x.ThicknessTexture), cf(x.AttenuationDistance)
		return x
	case gltf.PolyformIndexOfRefraction:
		x.IOR = cf(x.IOR)
		return x
	case gltf.PolyformSpecular:
		x.Factor, x.Texture, x.ColorTexture = cf(x.Factor), g.cloneTex(x.Texture), g.cloneTex(x.ColorTexture)
		return x
	case gltf.PolyformClearcoat:
		x.ClearcoatTexture, x.ClearcoatRoughnessTexture = g.cloneTex(x.ClearcoatTexture), g.cloneTex(x.ClearcoatRoughnessTexture)
		return x
	case gltf.PolyformEmissiveStrength:
		x.EmissiveStrength = cf(x.EmissiveStrength)
		return x
	case gltf.PolyformIridescence:
		x.IridescenceTexture, x.IridescenceThicknessTexture = g.cloneTex(x.IridescenceTexture), g.cloneTex(x.IridescenceThicknessTexture)
		x.IridescenceIor, x.IridescenceThicknessMinimum, x.IridescenceThicknessMaximum = cf(x.IridescenceIor), cf(x.IridescenceThicknessMinimum), cf(x.IridescenceThicknessMaximum)
		return x
	case gltf.PolyformSheen:
		x.SheenColorTexture, x.SheenRoughnessTexture = g.cloneTex(x.SheenColorTexture), g.cloneTex(x.SheenRoughnessTexture)
		return x
	case gltf.PolyformAnisotropy:
		x.AnisotropyTexture = g.cloneTex(x.AnisotropyTexture)
		return x
	}
	return e
}

// ---- materials -------------------------------------------------------------

func (g *sg) material(rich bool) *gltf.PolyformMaterial {
	p := func(n int) bool {
		if rich {
			return g.r.Intn(3) != 0
		}
		return g.r.Intn(n) == 0
	}
	m := &gltf.PolyformMaterial{Name: []string{"", "mat", "mat", "other", "mät\"<é>"}[g.r.Intn(5)]}
	if p(4) {
		m.Extras = map[string]any{"k": float64(g.r.Intn(3))}
		if g.r.Intn(2) == 0 {
			m.Extras["tag"] = "v"
		}
		if g.r.Intn(4) == 0 {
			m.Extras["nested"] = map[string]any{"extensions": map[string]any{"NOT_an_extension": 1.0}, "l": []any{1.0, "two"}}
		}
	}
	switch g.r.Intn(6) {
	case 0:
		am := gltf.MaterialAlphaMode_OPAQUE
		m.AlphaMode = &am
	case 1:
		am := gltf.MaterialAlphaMode_BLEND
		m.AlphaMode = &am
	case 2, 3:
		am := gltf.MaterialAlphaMode_MASK
		m.AlphaMode = &am
		if g.r.Intn(3) != 0 {
			m.AlphaCutoff = fp(g.q())
		}
	}
	if p(2) {
		pbr := &gltf.PolyformPbrMetallicRoughness{}
		if p(2) {
			pbr.BaseColorFactor = g.color()
		}
		if p(2) {
			pbr.MetallicFactor = fp(g.q())
		}
		if p(2) {
			pbr.RoughnessFactor = fp(g.q())
		}
		if p(3) {
			pbr.BaseColorTexture = g.texture()
		}
		if p(4) {
			pbr.MetallicRoughnessTexture = g.texture()
		}
		m.PbrMetallicRoughness = pbr
	}
	if p(4) {
		m.EmissiveFactor = g.color()
	}
	if p(4) {
		m.NormalTexture = &gltf.PolyformNormal{PolyformTexture: g.texture(), Scale: g.optF()}
	}
	if p(4) {
		m.OcclusionTexture = &gltf.PolyformOcclusion{PolyformTexture: g.texture(), Strength: g.optF()}
	}
	if p(3) {
		ids := g.r.Perm(len(extIDs))[:1+g.r.Intn(3)]
		sort.Ints(ids)
		for _, i := range ids {
			m.Extensions = append(m.Extensions, g.extension(extIDs[i]))
		}
	}
	g.matClass[m] = g.class()
	return m
}

// cloneMat copies m: shallow (shares all inner pointers) or deep (re-allocates every pointer of the
// core fields, clones textures by value; extension values are copied with their inner pointers kept).
// Same class as m.
func (g *sg) cloneMat(m *gltf.PolyformMaterial, deep bool) *gltf.PolyformMaterial {
	c := *m
	if deep {
		if m.Extras != nil {
			c.Extras = deepJSON(m.Extras).(map[string]any)
		}
		if m.AlphaMode != nil {
			am := *m.AlphaMode
			c.AlphaMode = &am
		}
		if m.AlphaCutoff != nil {
			c.AlphaCutoff = fp(*m.AlphaCutoff)
		}
		if m.PbrMetallicRoughness != nil {
			p := *m.PbrMetallicRoughness
			if p.MetallicFactor != nil {
				p.MetallicFactor = fp(*p.MetallicFactor)
			}
			if p.RoughnessFactor != nil {
				p.RoughnessFactor = fp(*p.RoughnessFactor)
			}
			p.BaseColorTexture = g.cloneTex(p.BaseColorTexture)
			p.MetallicRoughnessTexture = g.cloneTex(p.MetallicRoughnessTexture)
			c.PbrMetallicRoughness = &p
		}
		if m.NormalTexture != nil {
			n := &gltf.PolyformNormal{PolyformTexture: g.cloneTex(m.NormalTexture.PolyformTexture)}
			if m.NormalTexture.Scale != nil {
				n.Scale = fp(*m.NormalTexture.Scale)
			}
			c.NormalTexture = n
		}
		if m.OcclusionTexture != nil {
			n := &gltf.PolyformOcclusion{PolyformTexture: g.cloneTex(m.OcclusionTexture.PolyformTexture)}
			if m.OcclusionTexture.Strength != nil {
				n.Strength = fp(*m.OcclusionTexture.Strength)
			}
			c.OcclusionTexture = n
		}
		if m.Extensions != nil {
			c.Extensions = append([]gltf.MaterialExtension(nil), m.Extensions...)
		}
	}
	g.matClass[&c] = g.matClass[m]
	return &c
}

func deepJSON(v any) any {
	switch t := v.(type) {
	case map[string]any:
		o := make(map[string]any, len(t))
		for k, c := range t {
			o[k] = deepJSON(c)
		}
		return o
	case []any:
		o := make([]any, len(t))
		for i, c := range t {
			o[i] = deepJSON(c)
		}
		return o
	}
	return v
}

// texture slots of the core material
type texSlot struct {
	name string
	prep func(g *sg, m *gltf.PolyformMaterial)
	get  func(m *gltf.PolyformMaterial) *gltf.PolyformTexture
	set  func(m *gltf.PolyformMaterial, t *gltf.PolyformTexture)
}

func needPBR(m *gltf.PolyformMaterial) {
	if m.PbrMetallicRoughness == nil {
		m.PbrMetallicRoughness = &gltf.PolyformPbrMetallicRoughness{}
	}
}

var coreSlots = []texSlot{
	{"pbr.baseColorTexture",
		func(g *sg, m *gltf.PolyformMaterial) {
			needPBR(m)
			if m.PbrMetallicRoughness.BaseColorTexture == nil {
				m.PbrMetallicRoughness.BaseColorTexture = g.texture()
			}
		},
		func(m *gltf.PolyformMaterial) *gltf.PolyformTexture { return m.PbrMetallicRoughness.BaseColorTexture },
		func(m *gltf.PolyformMaterial, t *gltf.PolyformTexture) { m.PbrMetallicRoughness.BaseColorTexture = t }},
	{"pbr.metallicRoughnessTexture",
		func(g *sg, m *gltf.PolyformMaterial) {
			needPBR(m)
			if m.PbrMetallicRoughness.MetallicRoughnessTexture == nil {
				m.PbrMetallicRoughness.MetallicRoughnessTexture = g.texture()
			}
		},
		func(m *gltf.PolyformMaterial) *gltf.PolyformTexture {
			return m.PbrMetallicRoughness.MetallicRoughnessTexture
		},
		func(m *gltf.PolyformMaterial, t *gltf.PolyformTexture) {
			m.PbrMetallicRoughness.MetallicRoughnessTexture = t
		}},
	{"normalTexture",
		func(g *sg, m *gltf.PolyformMaterial) {
			if m.NormalTexture == nil {
				m.NormalTexture = &gltf.PolyformNormal{PolyformTexture: g.texture(), Scale: g.optF()}
			}
		},
		func(m *gltf.PolyformMaterial) *gltf.PolyformTexture { return m.NormalTexture.PolyformTexture },
		func(m *gltf.PolyformMaterial, t *gltf.PolyformTexture) { m.NormalTexture.PolyformTexture = t }},
	{"occlusionTexture",
		func(g *sg, m *gltf.PolyformMaterial) {
			if m.OcclusionTexture == nil {
				m.OcclusionTexture = &gltf.PolyformOcclusion{PolyformTexture: g.texture(), Strength: g.optF()}
			}
		},
		func(m *gltf.PolyformMaterial) *gltf.PolyformTexture { return m.OcclusionTexture.PolyformTexture },
		func(m *gltf.PolyformMaterial, t *gltf.PolyformTexture) { m.OcclusionTexture.PolyformTexture = t }},
}

// matKinds lists every single-field variation of a material (texture fields are expanded per slot × texKinds).
func matKinds() []string {
	ks := []string{"name", "extras-presence", "extras-value", "alphaMode", "alphaCutoff", "pbr.baseColorFactor", "pbr.metallicFactor", "pbr.roughnessFactor",
		"emissiveFactor", "normalTexture-presence", "normalTexture.scale", "occlusionTexture-presence", "occlusionTexture.strength",
		"pbr.baseColorTexture-presence", "pbr.metallicRoughnessTexture-presence"}
	for _, s := range coreSlots {
		for _, tk := range texKinds {
			ks = append(ks, s.name+":"+tk)
		}
	}
	for _, id := range extIDs {
		ks = append(ks, "ext-presence:"+id)
		if id != "KHR_materials_unlit" {
			ks = append(ks, "ext-value:"+id)
		}
	}
	for _, id := range extWithTex {
		ks = append(ks, "ext-texture-presence:"+id, "ext-texture:"+id)
	}
	return ks
}

var allMatKinds = matKinds()

func findExt(m *gltf.PolyformMaterial, id string) int {
	for i, e := range m.Extensions {
		if e.ExtensionID() == id {
			return i
		}
	}
	return -1
}

// prepKind makes kind applicable to the (not yet used) base material.
func (g *sg) prepKind(m *gltf.PolyformMaterial, kind string) {
	head, arg, _ := strings.Cut(kind, ":")
	switch head {
	case "alphaMode":
		m.AlphaCutoff = nil // any mode is admissible without a cutoff
	case "alphaCutoff":
		am := gltf.MaterialAlphaMode_MASK
		m.AlphaMode = &am
	case "pbr.baseColorFactor", "pbr.metallicFactor", "pbr.roughnessFactor", "pbr.baseColorTexture-presence", "pbr.metallicRoughnessTexture-presence":
		needPBR(m)
	case "normalTexture.scale":
		coreSlots[2].prep(g, m)
	case "occlusionTexture.strength":
		coreSlots[3].prep(g, m)
	case "ext-value", "ext-texture", "ext-texture-presence":
		if findExt(m, arg) < 0 {
			m.Extensions = append(m.Extensions, g.extension(arg))
		}
		if head == "ext-texture" {
			i := findExt(m, arg)
			if t, set, _ := extTexSlot(m.Extensions[i]); t == nil {
				m.Extensions[i] = set(g.texture())
			}
		}
	default:
		for _, s := range coreSlots {
			if head == s.name {
				s.prep(g, m)
			}
		}
	}
}

// variant returns a deep copy of base differing in exactly the field named by kind (new class).
func (g *sg) variant(base *gltf.PolyformMaterial, kind string) *gltf.PolyformMaterial {
	c := g.cloneMat(base, true)
	g.matClass[c] = g.class()
	head, arg, _ := strings.Cut(kind, ":")
	bumpP := func(p *float64, def float64) *float64 {
		if p != nil {
			return fp(*p + 0.375)
		}
		return fp(def + 0.375)
	}
	switch head {
	case "name":
		c.Name = base.Name + "'"
	case "extras-presence":
		if c.Extras == nil {
			c.Extras = map[string]any{"only": 1.0}
		} else {
			c.Extras = nil
		}
	case "extras-value":
		if c.Extras == nil {
			c.Extras = map[string]any{"k": 41.0}
		} else if g.r.Intn(2) == 0 {
			c.Extras["k"] = 42.0
		} else {
			c.Extras["added"] = "x"
		}
	case "alphaMode":
		cur := gltf.MaterialAlphaMode_OPAQUE
		if base.AlphaMode != nil {
			cur = *base.AlphaMode
		}
		opts := []gltf.MaterialAlphaMode{gltf.MaterialAlphaMode_OPAQUE, gltf.MaterialAlphaMode_MASK, gltf.MaterialAlphaMode_BLEND}
		n := cur
		for n == cur {
			n = opts[g.r.Intn(3)]
		}
		c.AlphaMode = &n
	case "alphaCutoff":
		c.AlphaCutoff = bumpP(base.AlphaCutoff, 0.5)
	case "pbr.baseColorFactor":
		c.PbrMetallicRoughness.BaseColorFactor = g.otherColor(orWhite(base.PbrMetallicRoughness.BaseColorFactor))
	case "pbr.metallicFactor":
		c.PbrMetallicRoughness.MetallicFactor = bumpP(base.PbrMetallicRoughness.MetallicFactor, 1)
	case "pbr.roughnessFactor":
		c.PbrMetallicRoughness.RoughnessFactor = bumpP(base.PbrMetallicRoughness.RoughnessFactor, 1)
	case "emissiveFactor":
		c.EmissiveFactor = g.otherColor(orBlack(base.EmissiveFactor))
	case "normalTexture-presence":
		if c.NormalTexture == nil {
			c.NormalTexture = &gltf.PolyformNormal{PolyformTexture: g.texture()}
		} else {
			c.NormalTexture = nil
		}
	case "normalTexture.scale":
		c.NormalTexture.Scale = bumpP(base.NormalTexture.Scale, 1)
	case "occlusionTexture-presence":
		if c.OcclusionTexture == nil {
			c.OcclusionTexture = &gltf.PolyformOcclusion{PolyformTexture: g.texture()}
		} else {
			c.OcclusionTexture = nil
		}
	case "occlusionTexture.strength":
		c.OcclusionTexture.Strength = bumpP(base.OcclusionTexture.Strength, 1)
	case "pbr.baseColorTexture-presence":
		if c.PbrMetallicRoughness.BaseColorTexture == nil {
			c.PbrMetallicRoughness.BaseColorTexture = g.texture()
		} else {
			c.PbrMetallicRoughness.BaseColorTexture = nil
		}
	case "pbr.metallicRoughnessTexture-presence":
		if c.PbrMetallicRoughness.MetallicRoughnessTexture == nil {
			c.PbrMetallicRoughness.MetallicRoughnessTexture = g.texture()
		} else {
			c.PbrMetallicRoughness.MetallicRoughnessTexture = nil
		}
	case "ext-presence":
		if i := findExt(c, arg); i >= 0 {
			c.Extensions = append(append([]gltf.MaterialExtension(nil), c.Extensions[:i]...), c.Extensions[i+1:]...)
		} else {
			c.Extensions = append(append([]gltf.MaterialExtension(nil), c.Extensions...), g.extension(arg))
		}
	case "ext-value":
		i := findExt(c, arg)
		c.Extensions[i], _ = g.mutExtValue(c.Extensions[i])
	case "ext-texture-presence":
		i := findExt(c, arg)
		t, set, _ := extTexSlot(c.Extensions[i])
		if t == nil {
			c.Extensions[i] = set(g.texture())
		} else {
			c.Extensions[i] = set(nil)
		}
	case "ext-texture":
		i := findExt(c, arg)
		t, set, _ := extTexSlot(c.Extensions[i])
		c.Extensions[i] = set(g.mutTex(t, g.pickTexKind()))
	default:
		done := false
		for _, s := range coreSlots {
			if head == s.name {
				s.set(c, g.mutTex(s.get(base), arg))
				done = true
			}
		}
		if !done {
			panic("harness: unknown material kind " + kind)
		}
	}
	g.kinds = append(g.kinds, "mat:"+kind)
	return c
}

func (g *sg) pickTexKind() string {
	for {
		k := texKinds[g.r.Intn(len(texKinds))]
		if g.noSampName && k == "sampler.name" {
			continue
		}
		return k
	}
}

// deepExtVariant: deep copy whose extension values have re-allocated internals (equal by value).
func (g *sg) deepExtClone(base *gltf.PolyformMaterial) *gltf.PolyformMaterial {
	c := g.cloneMat(base, true)
	changed := false
	for i, e := range c.Extensions {
		n := g.deepExtCopy(e)
		if n != e {
			changed = true
		}
		c.Extensions[i] = n
	}
	if changed {
		g.matClass[c] = g.class()
		g.deepExt++
	}
	return c
}

// ---- meshes ----------------------------------------------------------------

type meshInfo struct {
	mesh *modeling.Mesh
	desc gen.MeshDesc
	id   int // identity of the pointer
	// nonFinite describes injected NaN / ±Inf values: "" or "<attr>/<arity>:<kind>"
	nonFinite string
	// jsonReject: the unchanged writer cannot express this mesh's min/max in JSON (±Inf anywhere, NaN in a
	// VEC4 attribute: WriteVector4 has no NaN guard) and returns the encoding/json error
	jsonReject bool
}

var nanPayloads = []float64{math.NaN(), math.Float64frombits(0x7ff8000000000123), math.Float64frombits(0xfff8000000000001)}

// poison injects non-finite components into one float attribute of the mesh (never JOINTS, which is
// stored as bytes). Must be called before the mesh pointer is handed out.
func (g *sg) poison(mi *meshInfo) {
	m := *mi.mesh
	n := mi.desc.Verts
	if n == 0 {
		return
	}
	type cand struct {
		name  string
		arity int
	}
	var cs []cand
	for _, a := range m.Float2Attributes() {
		cs = append(cs, cand{a, 2})
	}
	for _, a := range m.Float3Attributes() {
		cs = append(cs, cand{a, 3})
	}
	for _, a := range m.Float4Attributes() {
		if a != modeling.JointAttribute {
			cs = append(cs, cand{a, 4})
		}
	}
	if len(cs) == 0 {
		return
	}
	c := cs[g.r.Intn(len(cs))]
	kind := []string{"nan", "nan", "nan", "nan-many", "nan-all", "inf", "nan+inf"}[g.r.Intn(7)]
	bad := func() float64 {
		switch kind {
		case "inf":
			return math.Inf(1 - 2*g.r.Intn(2))
		case "nan+inf":
			if g.r.Intn(2) == 0 {
				return math.Inf(1 - 2*g.r.Intn(2))
			}
		}
		return nanPayloads[g.r.Intn(len(nanPayloads))]
	}
	hit := map[int]bool{g.r.Intn(n): true}
	switch kind {
	case "nan-many", "nan+inf":
		for i := 0; i < 1+n/3; i++ {
			hit[g.r.Intn(n)] = true
		}
	case "nan-all":
		for i := 0; i < n; i++ {
			hit[i] = true
		}
	}
	switch c.arity {
	case 2:
		it := m.Float2Attribute(c.name)
		a := make([]vector2.Float64, n)
		for i := range a {
			a[i] = it.At(i)
			if hit[i] {
				if g.r.Intn(2) == 0 {
					a[i] = a[i].SetX(bad())
				} else {
					a[i] = a[i].SetY(bad())
				}
			}
		}
		m = m.SetFloat2Attribute(c.name, a)
	case 3:
		it := m.Float3Attribute(c.name)
		a := make([]vector3.Float64, n)
		for i := range a {
			a[i] = it.At(i)
			if hit[i] {
				switch g.r.Intn(3) {
				case 0:
					a[i] = a[i].SetX(bad())
				case 1:
					a[i] = a[i].SetY(bad())
				default:
					a[i] = a[i].SetZ(bad())
				}
			}
		}
		m = m.SetFloat3Attribute(c.name, a)
	case 4:
		it := m.Float4Attribute(c.name)
		a := make([]vector4.Float64, n)
		for i := range a {
			a[i] = it.At(i)
			if hit[i] {
				switch g.r.Intn(4) {
				case 0:
					a[i] = a[i].SetX(bad())
				case 1:
					a[i] = a[i].SetY(bad())
				case 2:
					a[i] = a[i].SetZ(bad())
				default:
					a[i] = a[i].SetW(bad())
				}
			}
		}
		m = m.SetFloat4Attribute(c.name, a)
	}
	mi.mesh = &m
	mi.nonFinite = fmt.Sprintf("VEC%d:%s", c.arity, kind)
	mi.jsonReject = c.arity == 4 || strings.Contains(kind, "inf")
}

func (g *sg) mesh(maxVerts int, allowEmpty bool) meshInfo {
	o := gen.MeshOpts{MaxVerts: maxVerts, AllowEmpty: allowEmpty, NoPositionOK: true,
		V3Names: []string{modeling.NormalAttribute, modeling.ColorAttribute, "userV3"}, V2Names: []string{modeling.TexCoordAttribute, "userV2"},
		V1Names: []string{}, V4Names: []string{}}
	if g.r.Intn(4) == 0 {
		o.MaxVerts = 4
	}
	if g.r.Intn(8) == 0 {
		o.ValueClass = "residue"
	}
	return g.meshFrom(o)
}

// exactMesh: the full attribute mix of mesh() on exactly n vertices (block-multiples phase).
func (g *sg) exactMesh(n int) meshInfo {
	return g.meshFrom(gen.MeshOpts{MinVerts: n, MaxVerts: n, NoPositionOK: true, F32: true,
		V3Names: []string{modeling.NormalAttribute, modeling.ColorAttribute, "userV3"}, V2Names: []string{modeling.TexCoordAttribute, "userV2"},
		V1Names: []string{}, V4Names: []string{}})
}

func (g *sg) meshFrom(o gen.MeshOpts) meshInfo {
	m, d := gen.Mesh(g.r, o)
	n := d.Verts
	if n > 0 {
		hasColor3 := false
		for _, a := range d.Attrs {
			if a == modeling.ColorAttribute {
				hasColor3 = true
			}
		}
		add4 := func(name string, f func() vector4.Float64) {
			a := make([]vector4.Float64, n)
			for i := range a {
				a[i] = f()
			}
			m = m.SetFloat4Attribute(name, a)
			d.Attrs = append(d.Attrs, name+"/4")
		}
		if !hasColor3 && g.r.Intn(4) == 0 {
			add4(modeling.ColorAttribute, func() vector4.Float64 { return vector4.New(g.r.Float64(), g.r.Float64(), g.r.Float64(), g.r.Float64()) })
		}
		if g.r.Intn(6) == 0 { // skinning attributes: JOINTS_0 is stored as UNSIGNED_BYTE
			add4(modeling.JointAttribute, func() vector4.Float64 {
				return vector4.New(float64(g.r.Intn(256)), float64(g.r.Intn(256)), float64(g.r.Intn(256)), float64(g.r.Intn(256)))
			})
			add4(modeling.WeightAttribute, func() vector4.Float64 { return vector4.New(g.r.Float64(), g.r.Float64(), g.r.Float64(), g.r.Float64()) })
		}
		if g.r.Intn(6) == 0 {
			add4("userV4", func() vector4.Float64 {
				return vector4.New(gen.Value(g.r, d.ValueClass), gen.Value(g.r, d.ValueClass), gen.Value(g.r, d.ValueClass), gen.Value(g.r, d.ValueClass))
			})
		}
		if g.r.Intn(8) == 0 { // scalar attributes: the writer has no SCALAR vertex attribute path; observed, no demand
			a := make([]float64, n)
			for i := range a {
				a[i] = g.r.Float64()
			}
			m = m.SetFloat1Attribute("userV1", a)
			d.Attrs = append(d.Attrs, "userV1/1")
		}
	}
	return meshInfo{mesh: &m, desc: d}
}

// bigMesh builds a mesh with exactly n vertices whose index list touches vertex n-1.
func (g *sg) bigMesh(n int) meshInfo {
	pos := make([]vector3.Float64, n)
	for i := range pos {
		pos[i] = vector3.New(float64(float32(g.r.Float64()*200-100)), float64(float32(g.r.Float64()*200-100)), float64(float32(g.r.Float64()*200-100)))
	}
	d := gen.MeshDesc{Verts: n, ValueClass: "f32", Attrs: []string{"P"}}
	var m modeling.Mesh
	if g.r.Intn(3) == 0 {
		idx := make([]int, n)
		for i := range idx {
			idx[i] = i
		}
		if g.r.Intn(2) == 0 { // reversed so that the first index is the largest
			for i := range idx {
				idx[i] = n - 1 - i
			}
		}
		m = modeling.NewMesh(modeling.PointTopology, idx)
		d.Topology, d.IndexPattern, d.Prims = modeling.PointTopology.String(), "identity", n
	} else {
		k := 3 * (20 + g.r.Intn(200))
		idx := make([]int, k)
		for i := range idx {
			idx[i] = g.r.Intn(n)
		}
		idx[g.r.Intn(k)] = n - 1
		idx[g.r.Intn(k)] = 0
		if n > 65535 {
			idx[0] = 65535
		}
		idx[1] = n - 2
		m = modeling.NewMesh(modeling.TriangleTopology, idx)
		d.Topology, d.IndexPattern, d.Prims = modeling.TriangleTopology.String(), "random", k/3
	}
	m = m.SetFloat3Attribute(modeling.PositionAttribute, pos)
	if g.r.Intn(2) == 0 {
		uv := make([]vector2.Float64, n)
		for i := range uv {
			uv[i] = vector2.New(g.r.Float64(), g.r.Float64())
		}
		m = m.SetFloat2Attribute(modeling.TexCoordAttribute, uv)
		d.Attrs = append(d.Attrs, modeling.TexCoordAttribute)
	}
	return meshInfo{mesh: &m, desc: d}
}

// ---- scenes ----------------------------------------------------------------

type modelInfo struct {
	meshID  int // pointer identity
	skipped bool
	inst    int
}

type sceneInfo struct {
	scene  gltf.PolyformScene
	models []modelInfo
	meshes []meshInfo // distinct pointers, id = position
	g      *sg
	// invalid alpha cutoff present: the writer is documented to reject the scene
	expectReject bool
	// non-finite data injected into written models ("" when none) and whether the unchanged writer
	// answers with an encoding/json error (±Inf in min/max, NaN through the unguarded VEC4 path)
	nonFinite  []string
	jsonReject bool
	instBad    map[int]string // model → kind of non-finite instance transform
}

func (g *sg) v3() vector3.Float64 {
	return vector3.New(gen.Value(g.r, "f64"), gen.Value(g.r, "smallint"), gen.Value(g.r, "f32"))
}

func (g *sg) quat() quaternion.Quaternion {
	if g.r.Intn(5) == 0 {
		return quaternion.Identity()
	}
	ax := vector3.New(g.r.NormFloat64(), g.r.NormFloat64(), g.r.NormFloat64()+1e-3).Normalized()
	return quaternion.FromTheta(g.r.Float64()*6.2, ax)
}

func (g *sg) light() gltf.KHR_LightsPunctual {
	l := gltf.KHR_LightsPunctual{Position: g.v3()}
	l.Type = []gltf.KHR_LightsPunctualType{"", gltf.KHR_LightsPunctualType_Directional, gltf.KHR_LightsPunctualType_Point, gltf.KHR_LightsPunctualType_Spot}[g.r.Intn(4)]
	l.Color = g.optColor()
	l.Intensity = g.optF()
	l.Range = g.optF()
	if g.r.Intn(3) == 0 {
		s := "lamp"
		l.Name = &s
	}
	return l
}

var modelNames = []string{"", "a", "a", "b", "model", "x y", "naïve ✓", "q\"uo\\te", "<&>"}

// decorate adds name / TRS / instances to a model.
func (g *sg) decorate(mo *gltf.PolyformModel) {
	mo.Name = modelNames[g.r.Intn(len(modelNames))]
	if g.r.Intn(3) == 0 {
		v := g.v3()
		mo.Translation = &v
	}
	if g.r.Intn(3) == 0 {
		q := g.quat()
		mo.Rotation = &q
	}
	if g.r.Intn(3) == 0 {
		v := vector3.New(0.5+g.r.Float64(), 0.5+g.r.Float64(), float64(1+g.r.Intn(3)))
		mo.Scale = &v
	}
	if g.r.Intn(4) == 0 {
		k := 1 + g.r.Intn(5)
		for j := 0; j < k; j++ {
			mo.GpuInstances = append(mo.GpuInstances, trs.New(g.v3(), g.quat(), vector3.New(0.5+g.r.Float64(), 1, 0.25+g.r.Float64())))
		}
	}
}

// finish computes the bookkeeping of a scene whose models are set.
func (g *sg) finish(sc gltf.PolyformScene, pool []meshInfo) *sceneInfo {
	si := &sceneInfo{scene: sc, g: g}
	ids := map[*modeling.Mesh]int{}
	for _, mi := range pool {
		if _, ok := ids[mi.mesh]; !ok {
			ids[mi.mesh] = len(si.meshes)
			mi.id = len(si.meshes)
			si.meshes = append(si.meshes, mi)
		}
	}
	for _, mo := range sc.Models {
		id, ok := ids[mo.Mesh]
		if !ok {
			panic("harness: model mesh not in pool")
		}
		info := modelInfo{meshID: id, skipped: mo.Mesh.PrimitiveCount() == 0, inst: len(mo.GpuInstances)}
		if !info.skipped {
			if mi := si.meshes[id]; mi.nonFinite != "" {
				si.nonFinite = append(si.nonFinite, mi.nonFinite)
				si.jsonReject = si.jsonReject || mi.jsonReject
			}
		}
		if !info.skipped && mo.Material != nil && mo.Material.AlphaCutoff != nil &&
			(mo.Material.AlphaMode == nil || *mo.Material.AlphaMode != gltf.MaterialAlphaMode_MASK) {
			si.expectReject = true
		}
		si.models = append(si.models, info)
	}
	return si
}

// randomScene: 0–8 models over small pools.
func randomScene(r *rand.Rand, big []int, thorough bool) *sceneInfo {
	return randomSceneX(r, big, thorough, 0)
}

// randomSceneX: a negative entry −n of big asks for exactMesh(n) instead of bigMesh(n); instCount > 0 gives
// the first model exactly that many GPU instances.
func randomSceneX(r *rand.Rand, big []int, thorough bool, instCount int) *sceneInfo {
	g := newSG(r)
	nMesh := 1 + r.Intn(4)
	var pool []meshInfo
	maxV := 40
	if thorough && r.Intn(10) == 0 {
		maxV = 300
	}
	for i := 0; i < nMesh; i++ {
		pool = append(pool, g.mesh(maxV, true))
	}
	// ≈5 % of the scenes carry non-finite data: in one attribute of one mesh, or in one instance transform
	nonFiniteMode := 0
	if r.Intn(20) == 0 {
		nonFiniteMode = 1 + r.Intn(3) // 1,2: mesh attribute; 3: instance translation / scale
		if nonFiniteMode < 3 {
			g.poison(&pool[r.Intn(len(pool))])
		}
	}
	for _, n := range big {
		if n < 0 {
			pool = append(pool, g.exactMesh(-n))
		} else {
			pool = append(pool, g.bigMesh(n))
		}
	}
	// value-equal copy of a mesh under a new pointer
	if r.Intn(4) == 0 {
		src := pool[r.Intn(len(pool))]
		cp := *src.mesh
		cpi := src
		cpi.mesh = &cp
		pool = append(pool, cpi)
	}
	// material pool
	var mats []*gltf.PolyformMaterial
	mats = append(mats, nil)
	nBase := 1 + r.Intn(2)
	for b := 0; b < nBase; b++ {
		kind := allMatKinds[r.Intn(len(allMatKinds))]
		base := g.material(r.Intn(3) == 0)
		g.prepKind(base, kind)
		mats = append(mats, base)
		for k := 0; k < 1+r.Intn(3); k++ {
			switch r.Intn(6) {
			case 0:
				mats = append(mats, base)
			case 1:
				mats = append(mats, g.cloneMat(base, false))
			case 2:
				mats = append(mats, g.cloneMat(base, true))
			case 3:
				if len(base.Extensions) > 0 && r.Intn(2) == 0 {
					mats = append(mats, g.deepExtClone(base))
					break
				}
				fallthrough
			default:
				mats = append(mats, g.variant(base, kind))
				kind = allMatKinds[r.Intn(len(allMatKinds))]
				// a second variant of the same base needs its own preparation; only kinds applicable as is
				if !g.applicable(base, kind) {
					kind = "name"
				}
			}
		}
	}
	// textures shared between different materials (same pointer in another slot)
	if r.Intn(3) == 0 {
		var texs []*gltf.PolyformTexture
		for t := range g.texClass {
			texs = append(texs, t)
		}
		if len(texs) > 0 {
			sort.Slice(texs, func(i, j int) bool { return g.texClass[texs[i]] < g.texClass[texs[j]] })
			t := texs[r.Intn(len(texs))]
			m := g.material(false)
			needPBR(m)
			if r.Intn(2) == 0 {
				m.PbrMetallicRoughness.BaseColorTexture = t
			} else {
				m.NormalTexture = &gltf.PolyformNormal{PolyformTexture: g.cloneTex(t)}
			}
			mats = append(mats, m)
		}
	}
	if r.Intn(60) == 0 { // documented rejection: alpha cutoff without MASK
		m := g.material(false)
		m.AlphaCutoff = fp(0.25)
		m.AlphaMode = nil
		mats = append(mats, m)
	}
	nModels := r.Intn(9)
	if len(big) > 0 && nModels < 2 {
		nModels = 2
	}
	var sc gltf.PolyformScene
	for k := 0; k < nModels; k++ {
		mi := pool[r.Intn(len(pool))]
		if k < len(big) {
			mi = pool[nMesh+k]
		}
		mo := gltf.PolyformModel{Mesh: mi.mesh, Material: mats[r.Intn(len(mats))]}
		g.decorate(&mo)
		sc.Models = append(sc.Models, mo)
	}
	// Round 9 (C06-N): instance lists of different models that ALIAS one backing array - the same slice, a
	// prefix of it (same first element, fewer instances), a suffix. What a model instances is what ITS slice
	// holds, whatever other slice starts at the same address.
	if len(sc.Models) >= 2 && r.Intn(4) == 0 {
		i := r.Intn(len(sc.Models))
		if len(sc.Models[i].GpuInstances) < 2 {
			k := 2 + r.Intn(5)
			insts := make([]trs.TRS, k)
			for j := range insts {
				insts[j] = trs.New(g.v3(), g.quat(), vector3.New(0.5+g.r.Float64(), 1, 0.25+g.r.Float64()))
			}
			sc.Models[i].GpuInstances = insts
		}
		all := sc.Models[i].GpuInstances
		for j := range sc.Models {
			if j == i || r.Intn(2) == 0 {
				continue
			}
			switch r.Intn(3) {
			case 0:
				sc.Models[j].GpuInstances = all[:1+r.Intn(len(all)-1)] // proper prefix
			case 1:
				sc.Models[j].GpuInstances = all[1+r.Intn(len(all)-1):] // proper suffix
			default:
				sc.Models[j].GpuInstances = all
			}
		}
	}
	if instCount > 0 && len(sc.Models) > 0 {
		insts := make([]trs.TRS, instCount)
		for j := range insts {
			insts[j] = trs.New(g.v3(), g.quat(), vector3.New(0.5+g.r.Float64(), 1, 0.25+g.r.Float64()))
		}
		sc.Models[0].GpuInstances = insts
	}
	for k := r.Intn(8) - 4; k > 0; k-- {
		sc.Lights = append(sc.Lights, g.light())
	}
	instBad := map[int]string{}
	if nonFiniteMode == 3 && len(sc.Models) > 0 {
		k := r.Intn(len(sc.Models))
		mo := &sc.Models[k]
		if len(mo.GpuInstances) == 0 {
			mo.GpuInstances = []trs.TRS{trs.New(g.v3(), g.quat(), vector3.New(1., 2., 0.5)), trs.New(g.v3(), g.quat(), vector3.New(1., 1., 1.))}
		}
		j := r.Intn(len(mo.GpuInstances))
		old := mo.GpuInstances[j]
		bad := nanPayloads[r.Intn(len(nanPayloads))]
		kind := "nan"
		if r.Intn(5) == 0 {
			bad, kind = math.Inf(1-2*r.Intn(2)), "inf"
		}
		insts := append([]trs.TRS(nil), mo.GpuInstances...)
		if r.Intn(2) == 0 {
			insts[j] = trs.New(old.Position().SetY(bad), old.Rotation(), old.Scale())
			kind = "instance-translation:" + kind
		} else {
			insts[j] = trs.New(old.Position(), old.Rotation(), old.Scale().SetX(bad))
			kind = "instance-scale:" + kind
		}
		mo.GpuInstances = insts
		instBad[k] = kind
	}
	si := g.finish(sc, pool)
	for k, kind := range instBad {
		if !si.models[k].skipped {
			si.nonFinite = append(si.nonFinite, kind)
			si.jsonReject = si.jsonReject || strings.HasSuffix(kind, "inf")
		}
	}
	return si
}

// applicable reports whether kind can be applied to base without preparing it (base is already in use).
func (g *sg) applicable(base *gltf.PolyformMaterial, kind string) bool {
	head, arg, _ := strings.Cut(kind, ":")
	switch head {
	case "name", "extras-presence", "extras-value", "emissiveFactor", "normalTexture-presence", "occlusionTexture-presence", "ext-presence":
		return true
	case "alphaMode":
		return base.AlphaCutoff == nil
	case "alphaCutoff":
		return base.AlphaMode != nil && *base.AlphaMode == gltf.MaterialAlphaMode_MASK
	case "pbr.baseColorFactor", "pbr.metallicFactor", "pbr.roughnessFactor", "pbr.baseColorTexture-presence", "pbr.metallicRoughnessTexture-presence":
		return base.PbrMetallicRoughness != nil
	case "normalTexture.scale", "normalTexture":
		return base.NormalTexture != nil
	case "occlusionTexture.strength", "occlusionTexture":
		return base.OcclusionTexture != nil
	case "pbr.baseColorTexture":
		return base.PbrMetallicRoughness != nil && base.PbrMetallicRoughness.BaseColorTexture != nil
	case "pbr.metallicRoughnessTexture":
		return base.PbrMetallicRoughness != nil && base.PbrMetallicRoughness.MetallicRoughnessTexture != nil
	case "ext-value", "ext-texture-presence":
		return findExt(base, arg) >= 0
	case "ext-texture":
		if i := findExt(base, arg); i >= 0 {
			t, _, _ := extTexSlot(base.Extensions[i])
			return t != nil
		}
	}
	return false
}

// dedupScene: the systematic matrix. Case i exercises variant kind i mod K: models using the base
// material (same pointer twice), a shallow copy, a deep copy and the single-field variant, over one
// or two meshes, in a seeded order.
func dedupScene(r *rand.Rand, caseIdx int) (*sceneInfo, string) {
	g := newSG(r)
	kind := allMatKinds[caseIdx%len(allMatKinds)]
	base := g.material(r.Intn(2) == 0)
	g.prepKind(base, kind)
	vr := g.variant(base, kind)
	mats := []*gltf.PolyformMaterial{base, vr, base, g.cloneMat(base, r.Intn(2) == 0), g.cloneMat(vr, true)}
	if r.Intn(3) == 0 {
		mats = append(mats, nil)
	}
	nonEmpty := func() meshInfo {
		for {
			if mi := g.mesh(12, false); mi.desc.Prims > 0 {
				return mi
			}
		}
	}
	pool := []meshInfo{nonEmpty()}
	if r.Intn(2) == 0 {
		pool = append(pool, nonEmpty())
	}
	order := r.Perm(len(mats))
	var sc gltf.PolyformScene
	for _, k := range order {
		mo := gltf.PolyformModel{Mesh: pool[r.Intn(len(pool))].mesh, Material: mats[k]}
		if r.Intn(2) == 0 {
			g.decorate(&mo)
		} else {
			mo.Name = fmt.Sprint("m", k)
		}
		sc.Models = append(sc.Models, mo)
	}
	return g.finish(sc, pool), kind
}
