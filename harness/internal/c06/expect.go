package c06

// Expected ("resolved") form of a material computed from the polyform model structs by harness
// code written from the glTF 2.0 schema and the Khronos extension specifications, and the same
// resolved form computed from the written document by following texture → image / sampler
// references. Both sides have the schema defaults applied, so that "absent" equals "default".

import (
	"fmt"
	"image/color"
	"math"
	"sort"
	"strings"

	"github.com/EliCDavis/polyform/formats/gltf"
)

// colorV is an expected colour: channel/65535 exactly. The writer is free to quantise colour
// factors; the oracle accepts |observed − expected| ≤ colorTol per channel.
type colorV []float64

const colorTol = 5.1e-4

func rgba(c color.Color) colorV {
	r, g, b, a := c.RGBA()
	return colorV{float64(r) / 65535, float64(g) / 65535, float64(b) / 65535, float64(a) / 65535}
}
func rgb(c color.Color) colorV { return rgba(c)[:3] }

type texRef struct {
	path  string // path of the textureInfo inside the raw material object
	class int
	tex   *gltf.PolyformTexture
}

type expBuilder struct {
	g    *sg
	refs []texRef
}

func numOr(p *float64, def float64) float64 {
	if p != nil {
		return *p
	}
	return def
}

func (b *expBuilder) sampler(s *gltf.Sampler) any {
	if s == nil {
		return nil
	}
	w := func(x gltf.SamplerWrap) float64 {
		if x == 0 {
			return 10497
		}
		return float64(x)
	}
	o := jobj{"magFilter": float64(s.MagFilter), "minFilter": float64(s.MinFilter), "wrapS": w(s.WrapS), "wrapT": w(s.WrapT), "name": s.Name}
	return o
}

func (b *expBuilder) texInfo(t *gltf.PolyformTexture, path string) any {
	if t == nil {
		return nil
	}
	b.refs = append(b.refs, texRef{path: path, class: b.g.texClass[t], tex: t})
	tex := jobj{"image": jobj{"uri": t.URI}, "sampler": b.sampler(t.Sampler), "name": ""}
	info := jobj{"texture": tex, "texCoord": 0.0}
	for _, e := range t.Extensions {
		tt, ok := e.(gltf.PolyformTextureTransform)
		if !ok {
			panic("harness: unknown texture extension")
		}
		// KHR_texture_transform lives on the textureInfo
		d := jobj{}
		if tt.Offset != nil {
			d["offset"] = []any{tt.Offset.X(), tt.Offset.Y()}
		}
		if tt.Rotation != nil {
			d["rotation"] = *tt.Rotation
		}
		if tt.Scale != nil {
			d["scale"] = []any{tt.Scale.X(), tt.Scale.Y()}
		}
		if tt.TexCoord != nil {
			d["texCoord"] = float64(*tt.TexCoord)
		}
		applyDefaults("KHR_texture_transform", d)
		ex, _ := info["extensions"].(jobj)
		if ex == nil {
			ex = jobj{}
			info["extensions"] = ex
		}
		ex["KHR_texture_transform"] = d
	}
	return info
}

// extension defaults from the Khronos extension specifications: (extension id, property) → default
var extDefaults = map[string]jobj{
	"KHR_texture_transform":               {"offset": []any{0.0, 0.0}, "rotation": 0.0, "scale": []any{1.0, 1.0}},
	"KHR_materials_pbrSpecularGlossiness": {"diffuseFactor": []any{1.0, 1.0, 1.0, 1.0}, "specularFactor": []any{1.0, 1.0, 1.0}, "glossinessFactor": 1.0},
	"KHR_materials_transmission":          {"transmissionFactor": 0.0},
	"KHR_materials_volume":                {"thicknessFactor": 0.0, "attenuationColor": []any{1.0, 1.0, 1.0}},
	"KHR_materials_ior":                   {"ior": 1.5},
	"KHR_materials_specular":              {"specularFactor": 1.0, "specularColorFactor": []any{1.0, 1.0, 1.0}},
	"KHR_materials_clearcoat":             {"clearcoatFactor": 0.0, "clearcoatRoughnessFactor": 0.0},
	"KHR_materials_emissive_strength":     {"emissiveStrength": 1.0},
	"KHR_materials_iridescence":           {"iridescenceFactor": 0.0, "iridescenceIor": 1.3, "iridescenceThicknessMinimum": 100.0, "iridescenceThicknessMaximum": 400.0},
	"KHR_materials_sheen":                 {"sheenColorFactor": []any{0.0, 0.0, 0.0}, "sheenRoughnessFactor": 0.0},
	"KHR_materials_anisotropy":            {"anisotropyStrength": 0.0, "anisotropyRotation": 0.0},
	"KHR_materials_dispersion":            {"dispersion": 0.0},
}

func applyDefaults(id string, d jobj) {
	for k, v := range extDefaults[id] {
		if _, has := d[k]; !has {
			d[k] = v
		}
	}
}

func (b *expBuilder) extension(e gltf.MaterialExtension, path string) (string, jobj) {
	d := jobj{}
	id := ""
	tex := func(key string, t *gltf.PolyformTexture) {
		if t != nil {
			d[key] = b.texInfo(t, path+"."+key)
		}
	}
	num := func(key string, p *float64) {
		if p != nil {
			d[key] = *p
		}
	}
	col3 := func(key string, c color.Color) {
		if c != nil {
			d[key] = rgb(c)
		}
	}
	switch x := e.(type) {
	case gltf.PolyformPbrSpecularGlossiness:
		id = "KHR_materials_pbrSpecularGlossiness"
		if x.DiffuseFactor != nil {
			d["diffuseFactor"] = rgba(x.DiffuseFactor)
		}
		col3("specularFactor", x.SpecularFactor)
		num("glossinessFactor", x.GlossinessFactor)
	case gltf.PolyformTransmission:
		id = "KHR_materials_transmission"
		d["transmissionFactor"] = x.Factor
	case gltf.PolyformVolume:
		id = "KHR_materials_volume"
		d["thicknessFactor"] = x.ThicknessFactor
		num("attenuationDistance", x.AttenuationDistance)
		col3("attenuationColor", x.AttenuationColor)
	case gltf.PolyformIndexOfRefraction:
		id = "KHR_materials_ior"
		num("ior", x.IOR)
	case gltf.PolyformSpecular:
		id = "KHR_materials_specular"
		num("specularFactor", x.Factor)
		col3("specularColorFactor", x.ColorFactor)
	case gltf.PolyformUnlit:
		id = "KHR_materials_unlit"
	case gltf.PolyformClearcoat:
		id = "KHR_materials_clearcoat"
		d["clearcoatFactor"] = x.ClearcoatFactor
		d["clearcoatRoughnessFactor"] = x.ClearcoatRoughnessFactor
	case gltf.PolyformEmissiveStrength:
		id = "KHR_materials_emissive_strength"
		num("emissiveStrength", x.EmissiveStrength)
	case gltf.PolyformIridescence:
		id = "KHR_materials_iridescence"
		d["iridescenceFactor"] = x.IridescenceFactor
		num("iridescenceIor", x.IridescenceIor)
		num("iridescenceThicknessMinimum", x.IridescenceThicknessMinimum)
		num("iridescenceThicknessMaximum", x.IridescenceThicknessMaximum)
	case gltf.PolyformSheen:
		id = "KHR_materials_sheen"
		col3("sheenColorFactor", x.SheenColorFactor)
		d["sheenRoughnessFactor"] = x.SheenRoughnessFactor
	case gltf.PolyformAnisotropy:
		id = "KHR_materials_anisotropy"
		d["anisotropyStrength"] = x.AnisotropyStrength
		d["anisotropyRotation"] = x.AnisotropyRotation
	case gltf.PolyformDispersion:
		id = "KHR_materials_dispersion"
		d["dispersion"] = x.Dispersion
	case verifExt:
		id = x.ID
		d["a"] = x.A
		d["b"] = x.B
	default:
		panic(fmt.Sprintf("harness: unknown extension %T", e))
	}
	path = "extensions." + id
	// textures (paths need the id, hence after the switch)
	switch x := e.(type) {
	case gltf.PolyformPbrSpecularGlossiness:
		tex("diffuseTexture", x.DiffuseTexture)
		tex("specularGlossinessTexture", x.SpecularGlossinessTexture)
	case gltf.PolyformTransmission:
		tex("transmissionTexture", x.Texture)
	case gltf.PolyformVolume:
		tex("thicknessTexture", x.ThicknessTexture)
	case gltf.PolyformSpecular:
		tex("specularTexture", x.Texture)
		tex("specularColorTexture", x.ColorTexture)
	case gltf.PolyformClearcoat:
		tex("clearcoatTexture", x.ClearcoatTexture)
		tex("clearcoatRoughnessTexture", x.ClearcoatRoughnessTexture)
	case gltf.PolyformIridescence:
		tex("iridescenceTexture", x.IridescenceTexture)
		tex("iridescenceThicknessTexture", x.IridescenceThicknessTexture)
	case gltf.PolyformSheen:
		tex("sheenColorTexture", x.SheenColorTexture)
		tex("sheenRoughnessTexture", x.SheenRoughnessTexture)
	case gltf.PolyformAnisotropy:
		tex("anisotropyTexture", x.AnisotropyTexture)
	}
	applyDefaults(id, d)
	return id, d
}

// material builds the expected resolved form of m.
func (b *expBuilder) material(m *gltf.PolyformMaterial) jobj {
	o := jobj{"name": m.Name, "alphaMode": "OPAQUE", "alphaCutoff": 0.5, "doubleSided": false}
	if len(m.Extras) > 0 {
		o["extras"] = deepJSON(map[string]any(m.Extras))
	}
	if m.AlphaMode != nil {
		o["alphaMode"] = string(*m.AlphaMode)
	}
	if m.AlphaCutoff != nil {
		o["alphaCutoff"] = *m.AlphaCutoff
	}
	pbr := jobj{"baseColorFactor": colorV{1, 1, 1, 1}, "metallicFactor": 1.0, "roughnessFactor": 1.0}
	if p := m.PbrMetallicRoughness; p != nil {
		if p.BaseColorFactor != nil {
			pbr["baseColorFactor"] = rgba(p.BaseColorFactor)
		}
		pbr["metallicFactor"] = numOr(p.MetallicFactor, 1)
		pbr["roughnessFactor"] = numOr(p.RoughnessFactor, 1)
		if p.BaseColorTexture != nil {
			pbr["baseColorTexture"] = b.texInfo(p.BaseColorTexture, "pbrMetallicRoughness.baseColorTexture")
		}
		if p.MetallicRoughnessTexture != nil {
			pbr["metallicRoughnessTexture"] = b.texInfo(p.MetallicRoughnessTexture, "pbrMetallicRoughness.metallicRoughnessTexture")
		}
	}
	o["pbrMetallicRoughness"] = pbr
	o["emissiveFactor"] = colorV{0, 0, 0}
	if m.EmissiveFactor != nil {
		o["emissiveFactor"] = rgb(m.EmissiveFactor)
	}
	if n := m.NormalTexture; n != nil {
		ti := b.texInfo(n.PolyformTexture, "normalTexture").(jobj)
		ti["scale"] = numOr(n.Scale, 1)
		o["normalTexture"] = ti
	}
	if n := m.OcclusionTexture; n != nil {
		ti := b.texInfo(n.PolyformTexture, "occlusionTexture").(jobj)
		ti["strength"] = numOr(n.Strength, 1)
		o["occlusionTexture"] = ti
	}
	if len(m.Extensions) > 0 {
		ex := jobj{}
		for _, e := range m.Extensions {
			id, d := b.extension(e, "")
			ex[id] = d
		}
		o["extensions"] = ex
	}
	return o
}

// ---- observed side -----------------------------------------------------------

func copyObj(o jobj) jobj {
	c := make(jobj, len(o))
	for k, v := range o {
		c[k] = v
	}
	return c
}

func setDef(o jobj, k string, v any) {
	if _, has := o[k]; !has {
		o[k] = v
	}
}

func dropEmpty(o jobj, k string) {
	if m, ok := o[k].(map[string]any); ok && len(m) == 0 {
		delete(o, k)
	}
}

func (d *Doc) resolveTexInfo(ti jobj, extra string, def float64) jobj {
	o := copyObj(ti)
	idx, ok := asInt(ti["index"])
	delete(o, "index")
	var tex any = "unresolvable texture index"
	if t := d.objAt("textures", idx); ok && t != nil {
		to := copyObj(t)
		setDef(to, "name", "")
		dropEmpty(to, "extensions")
		dropEmpty(to, "extras")
		if si, has := asInt(t["source"]); has {
			if im := d.objAt("images", si); im != nil {
				io := copyObj(im)
				dropEmpty(io, "extensions")
				dropEmpty(io, "extras")
				if n, _ := asStr(io["name"]); n == "" {
					delete(io, "name")
				}
				to["image"] = io
			} else {
				to["image"] = "unresolvable image index"
			}
		}
		delete(to, "source")
		to["sampler"] = nil
		if sv, has := t["sampler"]; has {
			si, _ := asInt(sv)
			if s := d.objAt("samplers", si); s != nil {
				so := copyObj(s)
				setDef(so, "magFilter", 0.0)
				setDef(so, "minFilter", 0.0)
				setDef(so, "wrapS", 10497.0)
				setDef(so, "wrapT", 10497.0)
				setDef(so, "name", "")
				dropEmpty(so, "extensions")
				dropEmpty(so, "extras")
				to["sampler"] = so
			} else {
				to["sampler"] = "unresolvable sampler index"
			}
		}
		tex = to
	}
	o["texture"] = tex
	setDef(o, "texCoord", 0.0)
	if extra != "" {
		setDef(o, extra, def)
	}
	if ex, ok := asObj(o["extensions"]); ok {
		ex = copyObj(ex)
		if tt, ok := asObj(ex["KHR_texture_transform"]); ok {
			tt = copyObj(tt)
			applyDefaults("KHR_texture_transform", tt)
			ex["KHR_texture_transform"] = tt
		}
		o["extensions"] = ex
	}
	dropEmpty(o, "extensions")
	dropEmpty(o, "extras")
	return o
}

// resolveMaterial computes the resolved form of materials[i] of the document.
func (d *Doc) resolveMaterial(mo jobj) jobj {
	o := copyObj(mo)
	setDef(o, "name", "")
	setDef(o, "alphaMode", "OPAQUE")
	setDef(o, "alphaCutoff", 0.5)
	setDef(o, "doubleSided", false)
	setDef(o, "emissiveFactor", []any{0.0, 0.0, 0.0})
	dropEmpty(o, "extras")
	pbr, _ := asObj(mo["pbrMetallicRoughness"])
	p := copyObj(pbr)
	setDef(p, "baseColorFactor", []any{1.0, 1.0, 1.0, 1.0})
	setDef(p, "metallicFactor", 1.0)
	setDef(p, "roughnessFactor", 1.0)
	for _, k := range []string{"baseColorTexture", "metallicRoughnessTexture"} {
		if ti, ok := asObj(p[k]); ok {
			p[k] = d.resolveTexInfo(ti, "", 0)
		}
	}
	dropEmpty(p, "extensions")
	dropEmpty(p, "extras")
	o["pbrMetallicRoughness"] = p
	if ti, ok := asObj(o["normalTexture"]); ok {
		o["normalTexture"] = d.resolveTexInfo(ti, "scale", 1)
	}
	if ti, ok := asObj(o["occlusionTexture"]); ok {
		o["occlusionTexture"] = d.resolveTexInfo(ti, "strength", 1)
	}
	if ti, ok := asObj(o["emissiveTexture"]); ok {
		o["emissiveTexture"] = d.resolveTexInfo(ti, "", 0)
	}
	if ex, ok := asObj(o["extensions"]); ok {
		ne := jobj{}
		for id, v := range ex {
			vo, ok := asObj(v)
			if !ok {
				ne[id] = v
				continue
			}
			c := copyObj(vo)
			for k, cv := range c {
				if ti, ok := asObj(cv); ok && strings.HasSuffix(k, "Texture") {
					if _, has := ti["index"]; has {
						c[k] = d.resolveTexInfo(ti, "", 0)
					}
				}
			}
			applyDefaults(id, c)
			ne[id] = c
		}
		o["extensions"] = ne
	}
	dropEmpty(o, "extensions")
	return o
}

// ---- tree comparison ----------------------------------------------------------

// diffTree returns the path of the first difference ("" when equal) and a description.
func diffTree(exp, obs any, path string) (string, string) {
	switch e := exp.(type) {
	case colorV:
		oa, ok := obs.([]any)
		if !ok || len(oa) != len(e) {
			return path, fmt.Sprintf("expected colour %v, observed %v", []float64(e), obs)
		}
		for i := range e {
			f, ok := oa[i].(float64)
			if !ok || math.Abs(f-e[i]) > colorTol {
				return path, fmt.Sprintf("expected colour %v (±%.0e), observed %v", []float64(e), colorTol, obs)
			}
		}
		return "", ""
	case map[string]any:
		o, ok := obs.(map[string]any)
		if !ok {
			return path, fmt.Sprintf("expected object %v, observed %v", e, obs)
		}
		keys := map[string]bool{}
		for k := range e {
			keys[k] = true
		}
		for k := range o {
			keys[k] = true
		}
		ks := make([]string, 0, len(keys))
		for k := range keys {
			ks = append(ks, k)
		}
		sort.Strings(ks)
		for _, k := range ks {
			ev, eh := e[k]
			ov, oh := o[k]
			sub := path + "." + k
			if path == "" {
				sub = k
			}
			if eh && ev == nil {
				eh = false
			}
			if oh && ov == nil {
				oh = false
			}
			if !eh && !oh {
				continue
			}
			if eh != oh {
				return sub, fmt.Sprintf("expected %v, observed %v", show(ev, eh), show(ov, oh))
			}
			if p, dsc := diffTree(ev, ov, sub); p != "" {
				return p, dsc
			}
		}
		return "", ""
	case []any:
		o, ok := obs.([]any)
		if !ok || len(o) != len(e) {
			return path, fmt.Sprintf("expected %v, observed %v", e, obs)
		}
		for i := range e {
			if p, dsc := diffTree(e[i], o[i], fmt.Sprintf("%s[%d]", path, i)); p != "" {
				return p, dsc
			}
		}
		return "", ""
	case float64:
		if f, ok := obs.(float64); ok && f == e {
			return "", ""
		}
	case string:
		if s, ok := obs.(string); ok && s == e {
			return "", ""
		}
	case bool:
		if s, ok := obs.(bool); ok && s == e {
			return "", ""
		}
	case nil:
		if obs == nil {
			return "", ""
		}
	case int:
		if f, ok := obs.(float64); ok && f == float64(e) {
			return "", ""
		}
	}
	return path, fmt.Sprintf("expected %v, observed %v", exp, obs)
}

func show(v any, has bool) string {
	if !has {
		return "<absent>"
	}
	s := fmt.Sprint(v)
	if len(s) > 300 {
		s = s[:300] + "…"
	}
	return s
}

// materialGroup names the field group of a difference path (part of the violation site).
func materialGroup(path string) string {
	switch {
	case strings.Contains(path, ".sampler.name") || strings.Contains(path, ".sampler.extras"):
		return "sampler name/extras"
	case strings.Contains(path, "Texture.extensions") || strings.Contains(path, "Texture.texCoord"):
		return "texture-info extensions"
	case strings.HasPrefix(path, "name"):
		return "name"
	case strings.HasPrefix(path, "extras"):
		return "extras"
	case strings.HasPrefix(path, "alpha"):
		return "alphaMode/alphaCutoff"
	case strings.HasPrefix(path, "emissive"):
		return "emissive"
	case strings.HasPrefix(path, "normalTexture"):
		return "normalTexture"
	case strings.HasPrefix(path, "occlusionTexture"):
		return "occlusionTexture"
	case strings.HasPrefix(path, "pbrMetallicRoughness.") && strings.Contains(path, "Texture"):
		return "pbr textures"
	case strings.HasPrefix(path, "pbrMetallicRoughness"):
		return "pbr factors"
	case strings.HasPrefix(path, "extensions"):
		return "material extensions"
	}
	return "other"
}

// lookupPath follows a dotted path inside a raw JSON object.
func lookupPath(o jobj, path string) (any, bool) {
	var cur any = o
	for _, k := range strings.Split(path, ".") {
		m, ok := cur.(map[string]any)
		if !ok {
			return nil, false
		}
		cur, ok = m[k]
		if !ok {
			return nil, false
		}
	}
	return cur, true
}
