package c06

// Phase writer-reuse: the Writer-level public API. On the unchanged tree the public emit methods
// of gltf.Writer are ToGLTF(strategy) Gltf and WriteGLB(io.Writer) error; both have value receivers
// and only read the payload (buf.Bytes()) and the bookkeeping slices, so they are idempotent and
// may be called any number of times in any order. (WriteText is json.MarshalIndent of
// ToGLTF(BufferEmbeddingStrategy_Base64Encode); the monitor does the same.)

import (
	"bytes"
	"encoding/json"
	"fmt"
	"reflect"
	"sort"
	"strings"

	"github.com/EliCDavis/polyform/formats/gltf"
	"polyverif/internal/run"
)

var emitOrders = func() [][]string {
	var out [][]string
	cs := []string{"glb", "text"}
	for _, a := range cs {
		for _, b := range cs {
			out = append(out, []string{a, b})
		}
	}
	for _, a := range cs {
		for _, b := range cs {
			for _, c := range cs {
				out = append(out, []string{a, b, c})
			}
		}
	}
	return out
}()

// normalized returns the JSON tree with the order-free string lists sorted.
func normalized(root jobj) jobj {
	c := copyObj(root)
	for _, k := range []string{"extensionsUsed", "extensionsRequired"} {
		if a, ok := asArr(c[k]); ok {
			ss := make([]string, len(a))
			for i, x := range a {
				ss[i], _ = asStr(x)
			}
			sort.Strings(ss)
			na := make([]any, len(ss))
			for i, x := range ss {
				na[i] = x
			}
			c[k] = na
		}
	}
	return c
}

func sameDocument(a, b *Doc) string {
	if a.Root == nil || b.Root == nil {
		return "one of the documents has no JSON"
	}
	if !bytes.Equal(a.Bin, b.Bin) {
		return fmt.Sprintf("payload differs: %d bytes vs %d bytes in the one-shot export", len(a.Bin), len(b.Bin))
	}
	if !reflect.DeepEqual(normalized(a.Root), normalized(b.Root)) {
		if p, d := diffTree(normalized(b.Root), normalized(a.Root), ""); p != "" {
			return "JSON differs from the one-shot export at " + p + ": " + d
		}
		return "JSON differs from the one-shot export"
	}
	return ""
}

func writerReuseCase(c *run.Ctx) run.Result {
	r := c.Rng
	si := validScene(r)
	order := emitOrders[c.Case%len(emitOrders)]
	name := strings.Join(order, ">")
	var res run.Result
	res.Sig = name + "|" + fmt.Sprint(len(si.scene.Models), len(si.scene.Lights), len(si.meshes))
	res.Sample = map[string]any{"emit_order": name, "models": len(si.scene.Models)}

	// one-shot references
	ref := map[string]*Doc{}
	for _, cont := range []string{"glb", "text"} {
		buf := &bytes.Buffer{}
		var err error
		if p := run.Try(func() {
			if cont == "glb" {
				err = gltf.WriteBinary(si.scene, buf)
			} else {
				err = gltf.WriteText(si.scene, buf)
			}
		}); p != nil || err != nil {
			res.Inconclusive = fmt.Sprintf("one-shot export failed: %v %v", p, err)
			return res
		}
		ref[cont] = checkBytes(&res, si, cont, "one-shot reference export: ", buf.Bytes())
	}

	var w *gltf.Writer
	var err error
	how := "NewWriterFromScene"
	c.Note("gltf writer reuse " + name)
	if p := run.Try(func() {
		if r.Intn(2) == 0 {
			w, err = gltf.NewWriterFromScene(si.scene)
		} else {
			how = "NewWriter+AddScene"
			w = gltf.NewWriter()
			err = w.AddScene(si.scene)
		}
	}); p != nil || err != nil {
		res.Violate("unexpected-write-error", "gltf."+how, "", fmt.Sprintf("well-formed scene not accepted: %v %v", p, err), nil)
		return res
	}
	res.SetAdd("writer_construction", how)
	var done []string
	accessors := 0
	for i, cont := range order {
		note := fmt.Sprintf("%s, emit %d of %d (%s) after [%s]: ", how, i+1, len(order), cont, strings.Join(done, " "))
		buf := &bytes.Buffer{}
		var err error
		site := "gltf.Writer.WriteGLB repeated emit"
		if cont == "text" {
			site = "gltf.Writer.ToGLTF repeated emit"
		}
		p := run.Try(func() {
			if cont == "glb" {
				err = w.WriteGLB(buf)
			} else {
				var b []byte
				b, err = json.MarshalIndent(w.ToGLTF(gltf.BufferEmbeddingStrategy_Base64Encode), "", "    ")
				buf.Write(b)
			}
		})
		if p != nil {
			res.Violate("writer-panic", site+" ("+p.Site+")", cont, note+"panic: "+p.Value+"\n"+firstLines(p.Stack, 14), nil)
			break
		}
		if err != nil {
			res.Violate("unexpected-write-error", site, cont, note+"emit failed: "+err.Error(), nil)
			break
		}
		d := checkBytes(&res, si, cont, note, buf.Bytes())
		if a := len(d.arr("accessors")); a > accessors {
			accessors = a
		}
		if why := sameDocument(d, ref[cont]); why != "" {
			res.Violate("writer-reuse-differs", site, cont, note+why, map[string]any{"emit_order": name, "construction": how})
		}
		res.Count("writer_level_emits_checked", 1)
		done = append(done, cont)
	}
	res.Count("emit_order "+name, 1)
	res.SetAdd("emit_orders", name)
	res.Nontrivial = accessors >= 2
	return res
}
