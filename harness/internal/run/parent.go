package run

import (
	"bufio"
	"encoding/json"
	"flag"
	"fmt"
	"os"
	"os/exec"
	"path/filepath"
	"sort"
	"strconv"
	"strings"
	"sync"
	"sync/atomic"
	"time"
)

type caseOutcome struct {
	Phase string
	Case  int
	Res   Result
	Death string // non-empty when the worker died during this case
	Notes []string
}

type knownFinding struct {
	Property string `json:"property"`
	Status   string `json:"status"` // known | fixed
	Class    string `json:"class"`
	Site     string `json:"site"`
	Input    string `json:"input,omitempty"`
	What     string `json:"what"`
	Commit   string `json:"commit,omitempty"`
}

type replayFile struct {
	Property   string      `json:"property"`
	Tier       string      `json:"tier"`
	Seed       uint64      `json:"seed"`
	Phase      string      `json:"phase"`
	Case       int         `json:"case"`
	BatchFrom  int         `json:"batch_from,omitempty"`
	BatchTo    int         `json:"batch_to,omitempty"`
	Race       bool        `json:"race,omitempty"`
	Notes      []string    `json:"notes,omitempty"`
	Death      string      `json:"death,omitempty"`
	Violations []Violation `json:"violations"`
}

// Main is the entry point of every per-property binary.
func Main(spec *Spec) {
	var (
		tier    = flag.String("tier", "quick", "quick|thorough")
		isW     = flag.Bool("worker", false, "worker mode")
		phase   = flag.String("phase", "", "phase (worker)")
		from    = flag.Int("from", 0, "")
		to      = flag.Int("to", 0, "")
		journal = flag.String("journal", "", "")
		replay  = flag.String("replay", "", "replay file")
		vdir    = flag.String("verif", envOr("VERIF_DIR", "/verif"), "verif dir")
		only    = flag.String("only", "", "run only this phase (debugging)")
		limit   = flag.Int("limit", 0, "cap cases per phase (debugging)")
		isRace  = flag.Bool("racebuild", false, "this binary is the -race build")
	)
	flag.Parse()
	seed := uint64(1)
	if s := os.Getenv("VERIF_SEED"); s != "" {
		if v, err := strconv.ParseUint(s, 10, 64); err == nil {
			seed = v
		} else if v, err := strconv.ParseInt(s, 10, 64); err == nil {
			seed = uint64(v)
		}
	}
	if *isW {
		ph := findPhase(spec, *phase)
		if ph == nil {
			fmt.Fprintln(os.Stderr, "no such phase", *phase)
			os.Exit(91)
		}
		runWorker(spec, ph, *tier, seed, *from, *to, *journal, *isRace)
		return
	}
	if *replay != "" {
		os.Exit(doReplay(spec, *replay, *isRace, *vdir))
	}
	os.Exit(parent(spec, *tier, seed, *vdir, *only, *limit))
}

func envOr(k, d string) string {
	if v := os.Getenv(k); v != "" {
		return v
	}
	return d
}

func findPhase(spec *Spec, name string) *Phase {
	for i := range spec.Phases {
		if spec.Phases[i].Name == name {
			return &spec.Phases[i]
		}
	}
	return nil
}

func loadKnown(vdir, id string) []knownFinding {
	b, err := os.ReadFile(filepath.Join(vdir, "known_findings.json"))
	if err != nil {
		return nil
	}
	var f struct {
		Findings []knownFinding `json:"findings"`
	}
	if json.Unmarshal(b, &f) != nil {
		return nil
	}
	var out []knownFinding
	for _, k := range f.Findings {
		if k.Property == id && k.Status == "known" {
			out = append(out, k)
		}
	}
	return out
}

func matchKnown(ks []knownFinding, v Violation) *knownFinding {
	for i := range ks {
		k := &ks[i]
		if k.Class == v.Class && strings.Contains(v.Site, k.Site) && (k.Input == "" || strings.Contains(v.Input, k.Input)) {
			return k
		}
	}
	return nil
}

type batch struct {
	ph       *Phase
	idx      int
	from, to int
}

func parent(spec *Spec, tier string, seed uint64, vdir, only string, limit int) int {
	t0 := time.Now()
	exe, _ := os.Executable()
	raceExe := exe + "-race"
	work := filepath.Join(vdir, ".build", "work", fmt.Sprintf("%s-%d", spec.ID, os.Getpid()))
	os.MkdirAll(work, 0o755)
	defer os.RemoveAll(work)

	wallLimit := 20 * time.Minute
	if tier == "thorough" {
		wallLimit = 120 * time.Minute
	}
	if s := os.Getenv("VERIF_WALL_MIN"); s != "" {
		if v, err := strconv.Atoi(s); err == nil {
			wallLimit = time.Duration(v) * time.Minute
		}
	}
	deadline := t0.Add(wallLimit)

	var outcomes []caseOutcome
	var raceViol []caseOutcome
	var mu sync.Mutex
	agg := &Aggregate{Distinct: map[uint64]bool{}, Counters: map[string]int64{}, Sets: map[string]map[string]bool{},
		Extra: map[string]any{}, PerPhase: map[string]*PhaseAgg{}, InconReasons: map[string]int{}}

	for pi := range spec.Phases {
		ph := &spec.Phases[pi]
		if only != "" && ph.Name != only {
			continue
		}
		n := ph.Cases(tier)
		if limit > 0 && n > limit {
			n = limit
		}
		pa := &PhaseAgg{}
		agg.PerPhase[ph.Name] = pa
		bs := ph.Batch
		if bs <= 0 {
			bs = 50
		}
		var batches []batch
		for a := 0; a < n; a += bs {
			b := a + bs
			if b > n {
				b = n
			}
			batches = append(batches, batch{ph: ph, idx: len(batches), from: a, to: b})
		}
		par := ph.Parallel
		if par <= 0 {
			par = 16
		}
		sem := make(chan struct{}, par)
		var wg sync.WaitGroup
		for _, b := range batches {
			b := b
			wg.Add(1)
			sem <- struct{}{}
			go func() {
				defer wg.Done()
				defer func() { <-sem }()
				outs, races, deaths := runBatch(spec, b, tier, seed, exe, raceExe, work, deadline)
				mu.Lock()
				outcomes = append(outcomes, outs...)
				raceViol = append(raceViol, races...)
				pa.Deaths += deaths
				pa.RaceReports += len(races)
				mu.Unlock()
			}()
		}
		wg.Wait()
	}

	sort.Slice(outcomes, func(i, j int) bool {
		if outcomes[i].Phase != outcomes[j].Phase {
			return outcomes[i].Phase < outcomes[j].Phase
		}
		return outcomes[i].Case < outcomes[j].Case
	})
	outcomes = append(outcomes, raceViol...)

	known := loadKnown(vdir, spec.ID)
	knownSeen := map[string]int{}
	type vrec struct {
		oc   caseOutcome
		path string
	}
	var unlisted []vrec
	sigCount := map[string]int{}
	alsoCount := map[string]int{} // further class@site of cases already counted under their first signature
	var samples []any
	samplesPerPhase := map[string]int{}
	outDir := envOr("VERIF_OUT", vdir) // scratch runs against another tree do not touch /verif/evidence
	replayDir := filepath.Join(outDir, "replays", spec.ID)
	if only != "" || limit > 0 { // debugging runs leave nothing in the registered directories
		replayDir = filepath.Join(outDir, ".build", "debug-replays", spec.ID)
	}
	for _, oc := range outcomes {
		pa := agg.PerPhase[oc.Phase]
		if oc.Case >= 0 {
			agg.Evaluations++
			pa.Cases++
		}
		r := oc.Res
		for k, v := range r.Counters {
			agg.Counters[k] += v
		}
		for k, els := range r.Sets {
			if agg.Sets[k] == nil {
				agg.Sets[k] = map[string]bool{}
			}
			for _, e := range els {
				agg.Sets[k][e] = true
			}
		}
		var rest []Violation
		for _, v := range r.Violations {
			if k := matchKnown(known, v); k != nil {
				knownSeen[k.Class+" @ "+k.Site+" — "+k.What]++
			} else {
				rest = append(rest, v)
			}
		}
		knownOnly := len(r.Violations) > 0 && len(rest) == 0
		switch {
		case len(rest) > 0:
			if oc.Case >= 0 {
				agg.Violated++
				pa.Violated++
			}
			sig := rest[0].Class + " @ " + rest[0].Site
			sigCount[sig]++
			for _, v := range rest[1:] {
				if s2 := v.Class + " @ " + v.Site; s2 != sig {
					alsoCount[s2]++
				}
			}
			if sigCount[sig] <= 3 && len(unlisted) < 40 {
				os.MkdirAll(replayDir, 0o755)
				p := filepath.Join(replayDir, fmt.Sprintf("%s-%d-%s-%d.json", tier, seed, oc.Phase, oc.Case))
				rf := replayFile{Property: spec.ID, Tier: tier, Seed: seed, Phase: oc.Phase, Case: oc.Case, Notes: oc.Notes, Death: oc.Death, Violations: rest}
				if ph := findPhase(spec, oc.Phase); ph != nil {
					rf.Race = ph.Race
				}
				if oc.Case < 0 {
					rf.BatchFrom, rf.BatchTo = -oc.Case-1, oc.Res.rangeTo
				}
				b, _ := json.MarshalIndent(rf, "", " ")
				os.WriteFile(p, b, 0o644)
				unlisted = append(unlisted, vrec{oc, p})
			}
		case knownOnly:
			// the case refuted the property only through a listed known finding: everything
			// else the oracle checked on it held
			agg.KnownOnly++
			pa.KnownOnly++
		case r.Inconclusive != "":
			agg.Inconclusive++
			pa.Inconclusive++
			reason := r.Inconclusive
			if k := strings.Index(reason, ":"); k > 0 {
				reason = reason[:k]
			}
			agg.InconReasons[reason]++
		default:
			agg.Held++
			pa.Held++
		}
		if r.Nontrivial && len(rest) == 0 && r.Inconclusive == "" {
			agg.Distinct[hashStr(oc.Phase+"|"+r.Sig)] = true
		}
		if r.Sample != nil && len(samples) < 12 && samplesPerPhase[oc.Phase] < 3 && (r.Nontrivial || samplesPerPhase[oc.Phase] < 1) {
			samplesPerPhase[oc.Phase]++
			samples = append(samples, map[string]any{"phase": oc.Phase, "case": oc.Case, "sig": r.Sig, "nontrivial": r.Nontrivial, "sample": r.Sample})
		}
	}
	if spec.Finalize != nil {
		spec.Finalize(agg)
	}

	// verdict
	exit := 0
	var kl []string
	for k := range knownSeen {
		kl = append(kl, k)
	}
	sort.Strings(kl)
	for _, k := range kl {
		fmt.Printf("KNOWN-FINDING: property=%s %s (observed in %d cases)\n", spec.ID, k, knownSeen[k])
	}
	for _, v := range unlisted {
		fmt.Printf("VIOLATION property=%s replay=%s\n", spec.ID, v.path)
		r0 := v.oc.Res.Violations
		for _, x := range r0 {
			if matchKnown(known, x) == nil {
				d := x.Detail
				if k := strings.Index(d, "\n"); k > 0 {
					d = d[:k]
				}
				if len(d) > 300 {
					d = d[:300]
				}
				fmt.Printf("  [%s @ %s] %s\n", x.Class, x.Site, d)
				break
			}
		}
	}
	totalSig := 0
	for _, c := range sigCount {
		totalSig += c
	}
	if totalSig > 0 {
		exit = 1
		var sl []string
		for s, c := range sigCount {
			sl = append(sl, fmt.Sprintf("%s ×%d", s, c))
		}
		sort.Strings(sl)
		fmt.Printf("violating cases: %d; signatures: %s\n", totalSig, strings.Join(sl, "; "))
		if len(alsoCount) > 0 {
			var al []string
			for s, c := range alsoCount {
				al = append(al, fmt.Sprintf("%s ×%d", s, c))
			}
			sort.Strings(al)
			fmt.Printf("  further signatures in those cases: %s\n", strings.Join(al, "; "))
		}
	}
	if agg.Inconclusive > 0 {
		fmt.Printf("INCONCLUSIVE property=%s cases=%d reasons=%v\n", spec.ID, agg.Inconclusive, agg.InconReasons)
	}
	floor := spec.MinNontrivial[tier]
	if floor < 2 {
		floor = 2
	}
	tooLittle := ""
	floorReport := map[string]any{"distinct_nontrivial": map[string]int64{"floor": int64(floor), "observed": int64(len(agg.Distinct))}}
	if only == "" && limit == 0 {
		if len(agg.Distinct) < floor {
			tooLittle = fmt.Sprintf("distinct non-trivial cases %d < floor %d", len(agg.Distinct), floor)
		}
		floors := map[string]int64{}
		for k, v := range spec.MinObserved {
			floors[k] = v
		}
		for k, v := range spec.MinObservedTier[tier] {
			floors[k] = v
		}
		for k, min := range floors {
			got := agg.Counters[k]
			if s, ok := agg.Sets[k]; ok {
				got = int64(len(s))
			}
			floorReport[k] = map[string]int64{"floor": min, "observed": got}
			if got < min {
				tooLittle += fmt.Sprintf(" observed %s=%d < floor %d", k, got, min)
			}
		}
	}
	if tooLittle != "" && exit == 0 {
		fmt.Printf("INCONCLUSIVE property=%s run observed too little: %s\n", spec.ID, tooLittle)
		exit = 2
	}

	// evidence
	wall := time.Since(t0).Seconds()
	cov := map[string]any{
		"evaluations":                    agg.Evaluations,
		"distinct_nontrivial":            len(agg.Distinct),
		"rule":                           spec.Rule,
		"samples":                        samples,
		"held":                           agg.Held,
		"held_apart_from_known_findings": agg.KnownOnly,
		"violated_cases":                 agg.Violated,
		"inconclusive":                   agg.Inconclusive,
		"phases":                         agg.PerPhase,
		"observed":                       agg.Counters,
	}
	if len(agg.InconReasons) > 0 {
		cov["inconclusive_reasons"] = agg.InconReasons
	}
	// what this run had to observe at least (below any of these the exit code is 2) and what it did observe
	cov["floors"] = floorReport
	if spec.Exhaustive {
		cov["exhaustive"] = true
	}
	sets := map[string]any{}
	for k, s := range agg.Sets {
		e := map[string]any{"count": len(s)}
		if len(s) <= 160 {
			var l []string
			for x := range s {
				l = append(l, x)
			}
			sort.Strings(l)
			e["elements"] = l
		}
		sets[k] = e
	}
	if len(sets) > 0 {
		cov["observed_sets"] = sets
	}
	for k, v := range agg.Extra {
		cov[k] = v
	}
	if len(knownSeen) > 0 {
		cov["known_findings_observed"] = knownSeen
	}
	if len(sigCount) > 0 {
		cov["violation_signatures"] = sigCount
	}
	if len(alsoCount) > 0 {
		cov["violation_signatures_secondary"] = alsoCount
	}
	if len(samples) == 0 {
		cov["samples"] = []any{map[string]any{"note": "no case produced a sample"}}
	}
	ev := map[string]any{
		"property_id": spec.ID,
		"tier":        tier,
		"seed":        int64(seed),
		"level":       spec.Level,
		"coverage":    cov,
		"assumptions": append([]string{}, spec.Assumptions...),
		"wall_s":      wall,
		"violations":  totalSig,
	}
	if only == "" && limit == 0 {
		os.MkdirAll(filepath.Join(outDir, "evidence"), 0o755)
		b, _ := json.MarshalIndent(ev, "", " ")
		os.WriteFile(filepath.Join(outDir, "evidence", spec.ID+".json"), append(b, '\n'), 0o644)
	}
	fmt.Printf("%s %s seed=%d: %d cases (%d held, %d known-finding only, %d violated, %d inconclusive), %d distinct non-trivial, %.1fs, exit %d\n",
		spec.ID, tier, seed, agg.Evaluations, agg.Held, agg.KnownOnly, agg.Violated, agg.Inconclusive, len(agg.Distinct), wall, exit)
	var ck []string
	for k, v := range agg.Counters {
		ck = append(ck, fmt.Sprintf("%s=%d", k, v))
	}
	for k, s := range agg.Sets {
		ck = append(ck, fmt.Sprintf("|%s|=%d", k, len(s)))
	}
	sort.Strings(ck)
	if len(ck) > 0 {
		line := strings.Join(ck, " ")
		if len(line) > 700 && os.Getenv("VERIF_VERBOSE") == "" {
			line = line[:700] + fmt.Sprintf(" … (%d observations; all of them are in the evidence file)", len(ck))
		}
		fmt.Printf("  observed: %s\n", line)
	}
	return exit
}

// runBatch runs cases [from,to) of a phase in worker children, restarting after deaths.
func runBatch(spec *Spec, b batch, tier string, seed uint64, exe, raceExe, work string, deadline time.Time) (outs []caseOutcome, races []caseOutcome, deaths int) {
	ph := b.ph
	next := b.from
	attempt := 0
	for next < b.to {
		attempt++
		if time.Now().After(deadline) {
			for i := next; i < b.to; i++ {
				outs = append(outs, caseOutcome{Phase: ph.Name, Case: i, Res: Result{Inconclusive: "wall-clock watchdog: not run"}})
			}
			return
		}
		dir := filepath.Join(work, fmt.Sprintf("%s-%d-%d", ph.Name, b.idx, attempt))
		os.MkdirAll(dir, 0o755)
		journal := filepath.Join(dir, "journal")
		bin := exe
		args := []string{"-worker", "-phase", ph.Name, "-tier", tier, "-from", strconv.Itoa(next), "-to", strconv.Itoa(b.to), "-journal", journal}
		env := append(os.Environ(), "VERIF_SEED="+strconv.FormatUint(seed, 10))
		if ph.Race {
			bin = raceExe
			args = append(args, "-racebuild")
			env = append(env, "GORACE=halt_on_error=0 log_path="+filepath.Join(dir, "race"))
		}
		if ph.Env != nil {
			env = append(env, ph.Env(b.idx)...)
		}
		cmd := exec.Command(bin, args...)
		cmd.Env = env
		errf, _ := os.Create(filepath.Join(dir, "stderr"))
		cmd.Stderr = errf
		cmd.Stdout = errf
		if err := cmd.Start(); err != nil {
			errf.Close()
			for i := next; i < b.to; i++ {
				outs = append(outs, caseOutcome{Phase: ph.Name, Case: i, Res: Result{Inconclusive: "cannot start worker: " + err.Error()}})
			}
			return
		}
		done := make(chan error, 1)
		go func() { done <- cmd.Wait() }()
		timedOut := false
		select {
		case <-done:
		case <-time.After(time.Until(deadline) + 5*time.Second):
			cmd.Process.Kill()
			<-done
			timedOut = true
		}
		errf.Close()
		// read journal
		started, ended, notes := -1, map[int]*Result{}, map[int][]string{}
		if f, err := os.Open(journal); err == nil {
			sc := bufio.NewScanner(f)
			sc.Buffer(make([]byte, 1<<20), 1<<28)
			for sc.Scan() {
				var l jline
				if json.Unmarshal(sc.Bytes(), &l) != nil {
					continue
				}
				switch l.T {
				case "S":
					started = l.I
				case "N":
					if len(notes[l.I]) < 30 {
						notes[l.I] = append(notes[l.I], l.Desc)
					} else {
						notes[l.I] = append(notes[l.I][:15], append(notes[l.I][16:], l.Desc)...)
					}
				case "E":
					ended[l.I] = l.R
				}
			}
			f.Close()
		}
		last := next - 1
		for i := next; i < b.to; i++ {
			if r, ok := ended[i]; ok && r != nil {
				outs = append(outs, caseOutcome{Phase: ph.Name, Case: i, Res: *r, Notes: nil})
				last = i
			} else {
				break
			}
		}
		if ph.Race {
			races = append(races, parseRaceLogs(dir, ph.Name, next, b.to)...)
		}
		if last+1 >= b.to {
			os.RemoveAll(dir)
			return
		}
		// the worker stopped early
		if timedOut {
			for i := last + 1; i < b.to; i++ {
				outs = append(outs, caseOutcome{Phase: ph.Name, Case: i, Res: Result{Inconclusive: "wall-clock watchdog: cut off"}})
			}
			return
		}
		if started == last+1 {
			// died during case `started`
			deaths++
			st, _ := os.ReadFile(filepath.Join(dir, "stderr"))
			death := tailStr(string(st), 6000)
			head := firstFatal(string(st))
			r := Result{Sig: "worker-death"}
			site := PolyformFrame(goroutineOf(string(st)))
			inputNote := ""
			if in, err := os.ReadFile(filepath.Join(dir, "input.bin")); err == nil && len(in) < 1<<16 {
				inputNote = fmt.Sprintf("last input (%d bytes) saved in replay", len(in))
				r.Violate("worker-death: "+head, site, fmt.Sprintf("phase %s case %d", ph.Name, started), death, map[string]any{"input_bytes": in, "notes": notes[started]})
			} else {
				r.Violate("worker-death: "+head, site, fmt.Sprintf("phase %s case %d", ph.Name, started), death, map[string]any{"notes": notes[started]})
			}
			_ = inputNote
			outs = append(outs, caseOutcome{Phase: ph.Name, Case: started, Res: r, Death: head, Notes: notes[started]})
			next = started + 1
		} else if last >= next {
			// the watchdog ended a case and exited: carry on after it
			next = last + 1
		} else {
			// exited before starting anything: harness-level problem → inconclusive for the next case
			st, _ := os.ReadFile(filepath.Join(dir, "stderr"))
			outs = append(outs, caseOutcome{Phase: ph.Name, Case: last + 1, Res: Result{Inconclusive: "worker exited without starting case: " + tailStr(string(st), 500)}})
			next = last + 2
		}
		if attempt > (b.to-b.from)+2 {
			return
		}
	}
	return
}

func tailStr(s string, n int) string {
	if len(s) > n {
		return "…" + s[len(s)-n:]
	}
	return s
}

func firstFatal(st string) string {
	for _, l := range strings.Split(st, "\n") {
		if strings.HasPrefix(l, "fatal error:") || strings.HasPrefix(l, "panic:") || strings.HasPrefix(l, "runtime: out of memory") || strings.HasPrefix(l, "signal:") {
			if len(l) > 160 {
				l = l[:160]
			}
			return l
		}
	}
	return "worker exited abnormally"
}

// goroutineOf returns the first goroutine dump after the fatal line (the faulting one).
func goroutineOf(st string) string {
	k := strings.Index(st, "goroutine ")
	if k < 0 {
		return st
	}
	rest := st[k:]
	if e := strings.Index(rest, "\n\n"); e > 0 {
		return rest[:e]
	}
	return rest
}

func doReplay(spec *Spec, path string, race bool, vdir string) int {
	b, err := os.ReadFile(path)
	if err != nil {
		fmt.Println("cannot read replay:", err)
		return 2
	}
	var rf replayFile
	if err := json.Unmarshal(b, &rf); err != nil {
		fmt.Println("bad replay file:", err)
		return 2
	}
	ph := findPhase(spec, rf.Phase)
	if ph == nil {
		fmt.Println("unknown phase", rf.Phase)
		return 2
	}
	if ph.Race && !race {
		fmt.Println("note: this phase is decided in the -race build; replaying its functional oracle only")
	}
	from, to := rf.Case, rf.Case+1
	if rf.Case < 0 {
		from, to = rf.BatchFrom, rf.BatchTo
	}
	bad := 0
	budget := time.Duration(ph.CPUBudgetS * float64(time.Second))
	if budget == 0 {
		budget = 20 * time.Second
	}
	var cur, curStart atomic.Int64
	go func() { // the same CPU-time verdict as in a worker
		for {
			time.Sleep(200 * time.Millisecond)
			if c := int64(cpuNow()); curStart.Load() > 0 && c-curStart.Load() > int64(budget) {
				fmt.Printf("REPRODUCED property=%s phase=%s case=%d [non-terminating] consumed more than %.0f CPU-seconds\n", spec.ID, rf.Phase, cur.Load(), budget.Seconds())
				os.Exit(1)
			}
		}
	}()
	for i := from; i < to; i++ {
		cur.Store(int64(i))
		curStart.Store(int64(cpuNow()) + 1)
		res := runCase(spec, ph, rf.Tier, rf.Seed, i, race, true, nil)
		for _, v := range res.Violations {
			fmt.Printf("REPRODUCED property=%s phase=%s case=%d [%s @ %s]\n%s\n", spec.ID, rf.Phase, i, v.Class, v.Site, v.Detail)
			bad++
		}
		if res.Inconclusive != "" {
			fmt.Printf("case %d inconclusive: %s\n", i, res.Inconclusive)
		}
	}
	if bad > 0 {
		return 1
	}
	fmt.Println("replay: no violation reproduced (for worker deaths and races re-run the check itself)")
	return 0
}
