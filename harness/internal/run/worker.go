package run

import (
	"encoding/json"
	"fmt"
	"math/rand"
	"os"
	"path/filepath"
	"runtime"
	"runtime/debug"
	"strings"
	"sync"
	"syscall"
	"time"
)

// journal lines (one JSON object per line)
type jline struct {
	T    string  `json:"t"` // S start, N note, E end
	I    int     `json:"i"`
	Desc string  `json:"d,omitempty"`
	R    *Result `json:"r,omitempty"`
}

type worker struct {
	mu       sync.Mutex
	jf       *os.File
	dir      string
	inflight int // case index or -1
	cpuStart time.Duration
	lastCPU  time.Duration
	lastMove time.Time
	ended    map[int]bool
}

func (w *worker) write(l jline) {
	b, err := json.Marshal(l)
	if err != nil && l.R != nil {
		// e.g. a NaN/Inf float inside a witness or sample: keep the verdict, drop the payload
		r := *l.R
		r.Sample = nil
		vs := make([]Violation, len(r.Violations))
		copy(vs, r.Violations)
		for i := range vs {
			vs[i].Witness = fmt.Sprintf("(witness not serialisable: %v)", err)
		}
		r.Violations = vs
		if len(vs) == 0 && r.Inconclusive == "" {
			r.Count("results_with_unserialisable_payload", 1)
		}
		l.R = &r
		b, err = json.Marshal(l)
	}
	if err != nil {
		b, _ = json.Marshal(jline{T: l.T, I: l.I, R: &Result{Inconclusive: "harness: result not serialisable: " + err.Error()}})
	}
	b = append(b, '\n')
	w.jf.Write(b)
}

func (w *worker) note(i int, desc string) {
	if len(desc) > 2000 {
		desc = desc[:2000]
	}
	w.mu.Lock()
	w.write(jline{T: "N", I: i, Desc: desc})
	w.mu.Unlock()
}

func (w *worker) saveInput(i int, data []byte) {
	os.WriteFile(filepath.Join(w.dir, "input.bin"), data, 0o644)
}

func cpuNow() time.Duration {
	var ru syscall.Rusage
	syscall.Getrusage(syscall.RUSAGE_SELF, &ru)
	return time.Duration(ru.Utime.Nano() + ru.Stime.Nano())
}

// PanicInfo describes a recovered panic.
type PanicInfo struct {
	Value     string
	Runtime   bool   // a Go runtime.Error (index out of range, nil deref, …)
	Site      string // innermost polyform frame
	Stack     string
	ErrorType string
}

// Try runs f and reports a panic instead of propagating it.
func Try(f func()) (p *PanicInfo) {
	defer func() {
		if r := recover(); r != nil {
			p = describePanic(r)
		}
	}()
	f()
	return nil
}

func describePanic(r any) *PanicInfo {
	st := string(debug.Stack())
	p := &PanicInfo{Value: fmt.Sprint(r), Stack: st, ErrorType: fmt.Sprintf("%T", r)}
	if _, ok := r.(runtime.Error); ok {
		p.Runtime = true
	}
	p.Site = PolyformFrame(st)
	return p
}

// PolyformFrame returns the innermost frame of a stack dump that lies in polyform
// ("pkg.Func" without arguments and line numbers, so that it is stable).
func PolyformFrame(stack string) string {
	lines := strings.Split(stack, "\n")
	seenPanic := false
	for _, l := range lines {
		l = strings.TrimSpace(l)
		if strings.HasPrefix(l, "panic(") || strings.HasPrefix(l, "runtime.") || strings.HasPrefix(l, "runtime/debug") {
			seenPanic = true
			continue
		}
		_ = seenPanic
		if strings.HasPrefix(l, "github.com/EliCDavis/polyform/") {
			f := strings.TrimPrefix(l, "github.com/EliCDavis/polyform/")
			f = stripArgs(f)
			// strip generic instantiation noise
			if k := strings.Index(f, "[...]"); k > 0 {
				f = f[:k] + f[k+5:]
			}
			return f
		}
	}
	return "?"
}

func runWorker(spec *Spec, ph *Phase, tier string, seed uint64, from, to int, journal string, race bool) {
	jf, err := os.OpenFile(journal, os.O_CREATE|os.O_WRONLY|os.O_APPEND, 0o644)
	if err != nil {
		fmt.Fprintln(os.Stderr, "worker: cannot open journal:", err)
		os.Exit(90)
	}
	w := &worker{jf: jf, dir: filepath.Dir(journal), inflight: -1, ended: map[int]bool{}}
	if !race && !ph.NoMemLimit {
		lim := uint64(12 << 30)
		syscall.Setrlimit(syscall.RLIMIT_AS, &syscall.Rlimit{Cur: lim, Max: lim})
	}
	budget := time.Duration(ph.CPUBudgetS * float64(time.Second))
	if budget == 0 {
		budget = 20 * time.Second
	}
	if race {
		budget *= 8
	}
	go func() { // watchdog: decides on consumed CPU time, not wall clock
		for {
			time.Sleep(100 * time.Millisecond)
			w.mu.Lock()
			i := w.inflight
			if i >= 0 {
				c := cpuNow()
				if c-w.cpuStart > budget {
					stack := allStacks()
					r := Result{Sig: "non-terminating"}
					r.Violate("non-terminating", caseFrame(stack), fmt.Sprintf("phase %s case %d", ph.Name, i),
						fmt.Sprintf("case consumed %.1f CPU-seconds (budget %.1f) without returning\n%s", (c-w.cpuStart).Seconds(), budget.Seconds(), stack), nil)
					w.write(jline{T: "E", I: i, R: &r})
					w.jf.Sync()
					os.Exit(93)
				}
				// progress = CPU accumulated since the last time progress was noted; the
				// watchdog's own polling costs ≈50 ms per 45 s and must not count, a starved
				// but healthy case on an overloaded machine (a few % of a core) must
				if c-w.lastCPU > 250*time.Millisecond {
					w.lastCPU = c
					w.lastMove = time.Now()
				}
				if time.Since(w.lastMove) > stallLimit() {
					stack := allStacks()
					r := Result{Sig: "stalled"}
					if ph.StallViolation {
						r.Violate("stalled", caseFrame(stack), fmt.Sprintf("phase %s case %d", ph.Name, i),
							fmt.Sprintf("case made no CPU progress for %s (all goroutines blocked)\n%s", stallLimit(), stack), nil)
					} else {
						r.Inconclusive = "stalled: no CPU progress for " + stallLimit().String()
					}
					w.write(jline{T: "E", I: i, R: &r})
					w.jf.Sync()
					os.Exit(94)
				}
			}
			w.mu.Unlock()
		}
	}()
	for i := from; i < to; i++ {
		w.mu.Lock()
		w.write(jline{T: "S", I: i})
		w.inflight = i
		w.cpuStart = cpuNow()
		w.lastCPU = w.cpuStart
		w.lastMove = time.Now()
		w.mu.Unlock()
		res := runCase(spec, ph, tier, seed, i, race, false, w)
		w.mu.Lock()
		w.inflight = -1
		w.write(jline{T: "E", I: i, R: &res})
		w.mu.Unlock()
	}
	jf.Close()
	os.Exit(0)
}

func runCase(spec *Spec, ph *Phase, tier string, seed uint64, i int, race, replay bool, w *worker) (res Result) {
	ctx := &Ctx{Tier: tier, Seed: seed, Phase: ph.Name, Case: i, Race: race, Replay: replay, w: w}
	ctx.Rng = rand.New(rand.NewSource(int64(Mix(seed, hashStr(spec.ID), hashStr(ph.Name), uint64(i)))))
	defer func() {
		if r := recover(); r != nil {
			p := describePanic(r)
			res = Result{Sig: "uncaught-panic"}
			res.Violate("uncaught-panic", p.Site, fmt.Sprintf("phase %s case %d", ph.Name, i), p.Value+"\n"+p.Stack, nil)
		}
	}()
	res = caseEntry(ph, ctx)
	return res
}

// caseEntry exists so that the case goroutine can be recognised in stack dumps.
//
//go:noinline
func caseEntry(ph *Phase, ctx *Ctx) Result { return ph.Run(ctx) }

func allStacks() string {
	buf := make([]byte, 1<<20)
	n := runtime.Stack(buf, true)
	s := string(buf[:n])
	if len(s) > 20000 {
		s = s[:20000]
	}
	return s
}

// caseFrame finds the innermost polyform frame of the goroutine executing the case.
func caseFrame(stacks string) string {
	for _, g := range strings.Split(stacks, "\n\n") {
		if strings.Contains(g, "run.caseEntry") {
			return PolyformFrame(g)
		}
	}
	return PolyformFrame(stacks)
}

// stripArgs removes the trailing "(args…)" of a stack frame line.
func stripArgs(f string) string {
	if !strings.HasSuffix(f, ")") {
		return f
	}
	depth := 0
	for i := len(f) - 1; i >= 0; i-- {
		switch f[i] {
		case ')':
			depth++
		case '(':
			depth--
			if depth == 0 {
				return f[:i]
			}
		}
	}
	return f
}

// stallLimit is how long a case may go without CPU progress before it is declared
// stalled: 45 s, stretched when the machine is overloaded (1-minute load average above
// twice the number of CPUs), up to 8x.
func stallLimit() time.Duration {
	base := 45 * time.Second
	b, err := os.ReadFile("/proc/loadavg")
	if err != nil {
		return base
	}
	var l1 float64
	fmt.Sscanf(string(b), "%f", &l1)
	f := l1 / float64(2*runtime.NumCPU())
	if f < 1 {
		f = 1
	}
	if f > 8 {
		f = 8
	}
	return time.Duration(float64(base) * f)
}
