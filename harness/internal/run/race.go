package run

import (
	"fmt"
	"os"
	"path/filepath"
	"strings"
)

// parseRaceLogs reads the race detector's log files of one worker child and
// turns every report block into a violation, de-duplicated by the pair of
// innermost polyform frames of the two conflicting accesses.
func parseRaceLogs(dir, phase string, from, to int) []caseOutcome {
	files, _ := filepath.Glob(filepath.Join(dir, "race.*"))
	seen := map[string]bool{}
	var out []caseOutcome
	for _, f := range files {
		b, err := os.ReadFile(f)
		if err != nil {
			continue
		}
		blocks := strings.Split(string(b), "==================")
		for _, blk := range blocks {
			if !strings.Contains(blk, "WARNING: DATA RACE") {
				continue
			}
			site := raceSite(blk)
			if seen[site] {
				continue
			}
			seen[site] = true
			r := Result{Sig: "data-race", rangeTo: to}
			r.Violate("data-race", site, fmt.Sprintf("phase %s cases %d..%d", phase, from, to-1), strings.TrimSpace(blk), nil)
			out = append(out, caseOutcome{Phase: phase, Case: -(from + 1), Res: r})
		}
	}
	return out
}

// raceSite = sorted pair of the innermost polyform frames of the two access stacks.
func raceSite(blk string) string {
	var stacks []string
	cur := ""
	inAccess := false
	for _, l := range strings.Split(blk, "\n") {
		t := strings.TrimSpace(l)
		switch {
		case strings.HasPrefix(t, "Read at") || strings.HasPrefix(t, "Write at") || strings.HasPrefix(t, "Previous read at") || strings.HasPrefix(t, "Previous write at") ||
			strings.HasPrefix(t, "Atomic") || strings.HasPrefix(t, "Previous atomic"):
			if inAccess {
				stacks = append(stacks, cur)
			}
			cur, inAccess = "", true
		case strings.HasPrefix(t, "Goroutine "):
			if inAccess {
				stacks = append(stacks, cur)
			}
			cur, inAccess = "", false
		default:
			if inAccess {
				cur += t + "\n"
			}
		}
	}
	if inAccess {
		stacks = append(stacks, cur)
	}
	var fr []string
	for _, s := range stacks {
		f := trimTypeArgs(PolyformFrame(s))
		if f == "?" && strings.Contains(s, "polyverif/") {
			f = "harness callback"
		}
		fr = append(fr, f)
	}
	for len(fr) < 2 {
		fr = append(fr, "?")
	}
	if fr[0] > fr[1] {
		fr[0], fr[1] = fr[1], fr[0]
	}
	return fr[0] + " <-> " + fr[1]
}

// trimTypeArgs shortens generic instantiations: nodes.(*Struct[go.shape.…]).Value → nodes.(*Struct[…]).Value
func trimTypeArgs(f string) string {
	var out strings.Builder
	depth := 0
	for i := 0; i < len(f); i++ {
		switch f[i] {
		case '[':
			if depth == 0 {
				out.WriteString("[…")
			}
			depth++
		case ']':
			depth--
			if depth == 0 {
				out.WriteByte(']')
			}
		default:
			if depth == 0 {
				out.WriteByte(f[i])
			}
		}
	}
	return out.String()
}
