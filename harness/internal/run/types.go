// Package run is the scheduler / journal / watchdog / evidence layer shared by
// every property monitor. A monitor is a Spec: one or more Phases, each a
// deterministic list of cases. The parent process never calls polyform; it runs
// the cases in worker children (same binary, -worker) and decides from their
// journals.
package run

import (
	"math/rand"
	"os"
)

// Violation is one observed refutation of the property. Class+Site form the
// signature matched against known_findings.json.
type Violation struct {
	Class   string `json:"class"`
	Site    string `json:"site"`
	Input   string `json:"input,omitempty"`
	Detail  string `json:"detail"`
	Witness any    `json:"witness,omitempty"`
}

// Result is what one case reports.
type Result struct {
	// Inconclusive, when non-empty, says why the case could not be decided
	// (checker timeout, degenerate by a stated rule, hook not reached).
	Inconclusive string `json:"inconclusive,omitempty"`
	// Nontrivial by the monitor's stated rule.
	Nontrivial bool `json:"nontrivial,omitempty"`
	// Sig is a structural descriptor of the case; distinctness is counted on it.
	Sig        string              `json:"sig,omitempty"`
	Violations []Violation         `json:"violations,omitempty"`
	Counters   map[string]int64    `json:"counters,omitempty"`
	Sets       map[string][]string `json:"sets,omitempty"`
	Sample     any                 `json:"sample,omitempty"`
	rangeTo    int
}

func (r *Result) Count(name string, n int64) {
	if r.Counters == nil {
		r.Counters = map[string]int64{}
	}
	r.Counters[name] += n
}

func (r *Result) SetAdd(name string, el string) {
	if r.Sets == nil {
		r.Sets = map[string][]string{}
	}
	for _, e := range r.Sets[name] {
		if e == el {
			return
		}
	}
	r.Sets[name] = append(r.Sets[name], el)
}

func (r *Result) Violate(class, site, input, detail string, witness any) {
	// keep journals bounded: a case that fails the same way many times reports it once
	for _, v := range r.Violations {
		if v.Class == class && v.Site == site {
			return
		}
	}
	if len(detail) > 6000 {
		detail = detail[:6000] + "…"
	}
	r.Violations = append(r.Violations, Violation{Class: class, Site: site, Input: input, Detail: detail, Witness: witness})
}

// Ctx is handed to a case.
type Ctx struct {
	Tier   string
	Seed   uint64 // VERIF_SEED
	Phase  string
	Case   int
	Rng    *rand.Rand // seeded from (Seed, property, phase, case): independent of batching
	Race   bool       // running in the -race build
	Replay bool       // re-execution of a recorded case
	w      *worker
}

// Note records, in the journal and before polyform is called, what is about to
// be executed, so that a process death can be attributed.
func (c *Ctx) Note(desc string) {
	if c.w != nil {
		c.w.note(c.Case, desc)
	}
}

// SaveInput writes the bytes about to be decoded to the worker's scratch file
// (overwritten per call) so that a fatal error leaves the input on disk.
func (c *Ctx) SaveInput(data []byte) {
	if c.w != nil {
		c.w.saveInput(c.Case, data)
	}
}

// ScratchDir is a directory private to the worker child (removed by the parent afterwards);
// in replay mode a fresh temporary directory.
func (c *Ctx) ScratchDir() string {
	if c.w != nil {
		return c.w.dir
	}
	d, _ := os.MkdirTemp("", "verif-replay-")
	return d
}

// SubRng derives an independent generator (e.g. to regenerate the same input twice).
func (c *Ctx) SubRng(salt uint64) *rand.Rand {
	return rand.New(rand.NewSource(int64(Mix(c.Seed, uint64(c.Case), salt, hashStr(c.Phase)))))
}

type Phase struct {
	Name string
	// Race: run this phase in the -race build; data-race reports become violations.
	Race bool
	// Cases returns the (constant) number of cases of the tier.
	Cases func(tier string) int
	Run   func(c *Ctx) Result
	// Batch = cases per worker child (default 50).
	Batch int
	// CPUBudgetS = CPU seconds one case may burn before it is declared
	// non-terminating (default 20).
	CPUBudgetS float64
	// StallViolation: a case that makes no CPU progress for StallS wall seconds is a
	// violation (deadlock) instead of inconclusive.
	StallViolation bool
	// Parallel = max concurrent children (default 16).
	Parallel int
	// Env returns extra environment for the child of batch b (e.g. GOMAXPROCS).
	Env func(batch int) []string
	// NoMemLimit disables RLIMIT_AS for the children of this phase.
	NoMemLimit bool
}

type Spec struct {
	ID          string
	Level       string // exploration | fault_enumeration
	Rule        string
	Assumptions []string
	Exhaustive  bool
	Phases      []Phase
	// MinNontrivial: floor of distinct non-trivial cases per tier below which the
	// run is inconclusive (exit 2).
	MinNontrivial map[string]int
	// MinObserved: floors on counters / set sizes (same consequence).
	MinObserved map[string]int64
	// MinObservedTier: additional / overriding floors per tier ("quick", "thorough").
	MinObservedTier map[string]map[string]int64
	// Finalize may add cross-case coverage entries to the evidence.
	Finalize func(a *Aggregate)
}

// Aggregate is the parent's view of a finished run.
type Aggregate struct {
	Evaluations  int
	Held         int
	Violated     int
	KnownOnly    int
	Inconclusive int
	Distinct     map[uint64]bool // hashes of non-trivial signatures
	Counters     map[string]int64
	Sets         map[string]map[string]bool
	Extra        map[string]any
	PerPhase     map[string]*PhaseAgg
	InconReasons map[string]int
}

type PhaseAgg struct {
	Cases        int `json:"cases"`
	Held         int `json:"held"`
	Violated     int `json:"violated"`
	KnownOnly    int `json:"known_finding_only,omitempty"`
	Inconclusive int `json:"inconclusive"`
	Deaths       int `json:"worker_deaths"`
	RaceReports  int `json:"race_reports,omitempty"`
}

// Mix is splitmix64 over a sequence of words.
func Mix(vs ...uint64) uint64 {
	var x uint64 = 0x9E3779B97F4A7C15
	for _, v := range vs {
		x += v + 0x9E3779B97F4A7C15
		z := x
		z = (z ^ (z >> 30)) * 0xBF58476D1CE4E5B9
		z = (z ^ (z >> 27)) * 0x94D049BB133111EB
		x = z ^ (z >> 31)
	}
	return x
}

func hashStr(s string) uint64 {
	var h uint64 = 1469598103934665603
	for i := 0; i < len(s); i++ {
		h ^= uint64(s[i])
		h *= 1099511628211
	}
	return h
}

// HashStr is exported for monitors that need stable hashes of descriptors.
func HashStr(s string) uint64 { return hashStr(s) }
