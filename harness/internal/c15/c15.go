// Package c15 monitors property C15: the gaussian-splat codecs.
//
//	splat-roundtrip  splat.Write → splat.Read keeps count, order, float32 positions,
//	                 scales up to float32 rounding of exp/log and colour / opacity /
//	                 rotation within one 8-bit step; the written bytes and a reference-
//	                 encoded file are cross-checked against the published 32-byte layout.
//	spz-decode       spz.Read on streams built by the reference encoder (versions 1/2,
//	                 SH degree 0–3, fractional bits 0–255 (positions judged for 0–62), arbitrary byte patterns) returns
//	                 exactly the published dequantisation of record i.
//	large            the three codecs at point counts on and around 2^12 … 2^16 and up to 120 000.
//	fault-sequences  histories of writes / reads with failing destinations / sources in between.
//	splatply-export  ply.SplatPly.Write → ply.ReadMesh (and an independent PLY parse)
//	                 preserves every splat attribute at float32.
//
// The reference encoders / dequantisers live in ./splatref and share no code with polyform.
package c15

import (
	"fmt"
	"io"

	"polyverif/internal/c15/readers"
	"polyverif/internal/run"
)

func n3(tier string, quick, thorough int) int {
	if tier == "thorough" {
		return thorough
	}
	return quick
}

func Spec() *run.Spec {
	return &run.Spec{
		ID: "C15", Level: "exploration",
		Rule: "Since rounds 7-10: phase block-multiples (point counts that fill a 4-64 KiB staging block exactly), positions of the `residue` class (non-zero magnitudes down to float32 subnormals) and colours of 1e8...1e307 of both signs. " +
			"splat-roundtrip: one case = one random splat cloud (count 0, 1 or 2…40, thorough up to 400; positions of four magnitude classes; log-scales in [-10,4] and up to ±80; " +
			"FDC colours that clamp on both sides and sit exactly on the clamp boundary; opacities to ±12; unit, axis, identity, ±1-component and non-normalised quaternions — " +
			"splat 0 of every cloud carries one of 16 special rotations) written by splat.Write, read by splat.Read and by the reference decoder, plus the reference encoding of the same cloud read by splat.Read. " +
			"spz-decode: one case = one SPZ stream from the reference encoder; version, SH degree, gzip level cycle with the case index, fractional bits 0–255 (positions judged for 0–62), counts 0/1/n, random byte patterns incl. 24-bit sign-extension edges and half-float subnormal/Inf/NaN. " +
			"splatply-export: one case = one cloud with Position/Scale/FDC/Rotation/Opacity, optional Normal and f_rest_k for a subset of 0…44 (contiguous 0/9/24/45 names = SH degree 0–3; with gaps: single name, high band only, degree-1 / degree-2 harmonics in the 45-wide per-channel layout, random subset, low bands stripped; names outside f_rest_0…44 are evidence only), values over float32's range. " +
			"large: one case = two point counts (one of 16383, 16384, 16385, 32769, 40000, 65535, 65536, 65537, random 20 000–120 000 — thorough adds k·2^j±1 — and one of 4095…4097, 8191…8193, 32767, 32768), each run through spz-decode, the .splat round trip and the splat-PLY export with the same per-index oracles. " +
			"fault-sequences: one case = a history of 3–9 calls in one goroutine (splat.Write / splat.Splat.Write, SplatPly.Write, splat.Read, spz.Read) in which about half the destinations / sources fail for good after k bytes " +
			"(k on .splat record boundaries and at 8 offsets inside a record; error with partial count, error with count 0, io.ErrShortWrite, panicking destination; non-EOF read error); every fault is followed by a good call of the same codec; " +
			"a failing call must report the error it was handed (for spz.Read: or return the complete exact cloud, the gzip layer reads ahead), every good call must satisfy the full ordinary oracle; non-trivial = a good call after a delivered fault of the same codec. " +
			"A case of the first three phases is non-trivial when the cloud holds at least one splat; distinct = distinct structural descriptors (count bucket, value classes, header configuration).",
		Assumptions: []string{
			"log-scales stay within ±80 so that exp(scale) is a normal float32 (overflow of float32 exp is out of reach, DESIGN C15)",
			"rotation components lie in [-1,1] (the 8-bit quantiser covers exactly that range; colours are the only field the property lets clamp)",
			"colour, opacity and rotation are compared in quantiser space: |unit(got) − clamp(unit(orig))| ≤ 1/255, |sigmoid(got) − sigmoid(orig)| ≤ 1/255 (so an opacity decoded from byte 0 / 255 as ∓Inf is within one step), |rot(got) − rot(orig)| ≤ 1/128",
			"SPZ: values whose dequantiser is exactly representable (24-bit positions, halves, scales, SH) must be bit-exact; colour, rotation xyz and a/255 within 1e-6 relative (float32 vs float64 evaluation of the published formula); rotation w: w ≥ 0 and |w² − max(0,1−|xyz|²)| ≤ 2e-6; opacity either a/255 (polyform's documented choice) or logit(a/255) (published)",
			"SPZ fractional bits are drawn from the whole byte range 0–255 and version-2 positions are judged bit-exact against fixed·2^-bits for all of them (exact in float64); the published C++ decoder shifts a 32-bit int and is undefined from 31 on, so for 31–255 the reference is the mathematical value the layout names, which is also what polyform computes since the fix of the 1<<bits overflow at 63 and above",
		},
		MinNontrivial: map[string]int{"quick": 300, "thorough": 2000},
		MinObserved: map[string]int64{
			"splat/splats_compared":                          50000,
			"splat/special_rotations":                        16,
			"splat/colour_clamped_low":                       5000,
			"splat/colour_clamped_high":                      5000,
			"splat/rotation_component_exactly_+1":            1000,
			"spz/points_compared":                            20000,
			"spz/header_configs":                             200,
			"spz/sh_coefficients_compared":                   300000,
			"splatply/values_compared":                       300000,
			"splatply/clouds_with_sh_degree_1":               200,
			"splatply/clouds_with_sh_degree_2":               200,
			"splatply/clouds_with_sh_degree_3":               200,
			"splatply/clouds_with_gaps_in_f_rest_numbering":  1000,
			"splatply/f_rest_numbers_in_gapped_clouds":       45,
			"spz/v2_positions_judged/fractional_bits_32-62":  3000,
			"spz/v2_positions_judged/fractional_bits_63":     500,
			"spz/v2_positions_judged/fractional_bits_64-255": 1500,
			"large/point_counts":                             9,
			"large/spz_points_compared":                      200000,
			"large/splat_splats_round_tripped":               200000,
			"large/splatply_splats_exported":                 200000,
			"reader_kinds/splat.Read":                        10,
			"reader_kinds/spz.Read":                          10,
			"reader_kinds/ply.ReadMesh":                      10,
			"faults/histories":                               1000,
			"faults/good_calls_after_a_fault/splat.Write":    500,
			"faults/good_calls_after_a_fault/SplatPly.Write": 300,
			"faults/good_calls_after_a_fault/splat.Read":     150,
			"faults/good_calls_after_a_fault/spz.Read":       150,
		},
		Phases: []run.Phase{
			{Name: "splat-roundtrip", Cases: func(t string) int { return n3(t, 5000, 150000) }, Run: splatRoundTrip, Batch: 250, CPUBudgetS: 20},
			{Name: "spz-decode", Cases: func(t string) int { return n3(t, 5000, 150000) }, Run: spzDecode, Batch: 250, CPUBudgetS: 20},
			{Name: "splatply-export", Cases: func(t string) int { return n3(t, 3000, 40000) }, Run: splatPly, Batch: 100, CPUBudgetS: 20},
			{Name: "large", Cases: func(t string) int { return n3(t, 9, 100) }, Run: largeClouds, Batch: 1, CPUBudgetS: 120},
			{Name: "block-multiples", Cases: func(t string) int { return n3(t, len(splatBlockBases), 4*len(splatBlockBases)) }, Run: blockMultipleClouds, Batch: 4, CPUBudgetS: 120},
			{Name: "fault-sequences", Cases: func(t string) int { return n3(t, 2000, 50000) }, Run: faultSequences, Batch: 250, CPUBudgetS: 20},
		},
	}
}

// openKind hands data to a decoder through one of the reader kinds of package readers.
// The kind is a function of the case, the call site and the size, so a replayed case meets
// the same readers. Every kind observed is recorded per codec.
func openKind(c *run.Ctx, res *run.Result, codec, site string, data []byte) (rd io.Reader, kind string, release func()) {
	kind = readers.Kinds[run.Mix(uint64(c.Case), run.HashStr(c.Phase), run.HashStr(site), uint64(len(data)))%uint64(len(readers.Kinds))]
	res.SetAdd("reader_kinds/"+codec, kind)
	scratch := ""
	if kind == "os.File" {
		scratch = c.ScratchDir()
	}
	c.Note(fmt.Sprintf("%s through reader kind %s (%d bytes)", codec, kind, len(data)))
	rd, release = readers.Open(kind, data, scratch)
	return
}
