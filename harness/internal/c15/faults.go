package c15

import (
	"errors"
	"fmt"
	"io"
	"math/rand"
	"strings"

	"github.com/EliCDavis/polyform/formats/ply"
	"github.com/EliCDavis/polyform/formats/splat"
	"github.com/EliCDavis/polyform/modeling"
	"polyverif/internal/c15/splatref"
	"polyverif/internal/run"
)

// Fault sequences: histories of writes and reads in ONE goroutine in which some
// destinations / sources fail part way. A codec may keep state between calls (pooled
// buffers, cached readers); whatever failed before, a call on a good writer / reader must
// satisfy the full ordinary oracle, and a call that was handed an I/O error must report it.

var errInjected = errors.New("c15: injected I/O fault")

type injectedPanic struct{}

// faultWriter accepts limit bytes, then fails for good: mode "error" returns the bytes it
// still took together with the error, "error0" takes nothing of the failing write, "short"
// reports io.ErrShortWrite, "panic" panics (a destination that blows up).
type faultWriter struct {
	limit, n int
	mode     string
	tripped  bool
}

func (w *faultWriter) Write(p []byte) (int, error) {
	if !w.tripped && w.n+len(p) <= w.limit {
		w.n += len(p)
		return len(p), nil
	}
	k := 0
	if !w.tripped {
		k = w.limit - w.n
		w.n = w.limit
	}
	w.tripped = true
	switch w.mode {
	case "panic":
		panic(injectedPanic{})
	case "short":
		return k, io.ErrShortWrite
	case "error0":
		return 0, errInjected
	}
	return k, errInjected
}

// faultReader delivers limit bytes, then fails for good with a non-EOF error.
type faultReader struct {
	data    []byte
	off     int
	limit   int
	tripped bool
}

func (r *faultReader) Read(p []byte) (int, error) {
	if r.off >= r.limit {
		r.tripped = true
		return 0, errInjected
	}
	if len(p) > r.limit-r.off {
		p = p[:r.limit-r.off]
	}
	n := copy(p, r.data[r.off:])
	r.off += n
	return n, nil
}

type faultOp struct {
	kind  string // splat.Write | SplatPly.Write | splat.Read | spz.Read
	fault string // "" = good destination / source
}

var faultKinds = []string{"splat.Write", "splat.Write", "splat.Write", "SplatPly.Write", "SplatPly.Write", "splat.Read", "spz.Read"}
var writeFaults = []string{"error", "error0", "short", "panic"}

func genHistory(r *rand.Rand) []faultOp {
	l := 3 + r.Intn(4)
	ops := make([]faultOp, l)
	for i := range ops {
		ops[i].kind = faultKinds[r.Intn(len(faultKinds))]
		if r.Intn(2) == 0 {
			if strings.HasSuffix(ops[i].kind, "Write") {
				ops[i].fault = writeFaults[r.Intn(len(writeFaults))]
			} else {
				ops[i].fault = "error"
			}
		}
	}
	if ops[0].fault == "" && ops[1].fault == "" { // every history starts to fail early
		ops[0] = faultOp{"splat.Write", writeFaults[r.Intn(len(writeFaults))]}
	}
	// every fault is eventually followed by a good call of the same codec
	pending := map[string]bool{}
	var order []string
	for _, o := range ops {
		if o.fault != "" {
			if !pending[o.kind] {
				order = append(order, o.kind)
			}
			pending[o.kind] = true
		} else {
			pending[o.kind] = false
		}
	}
	for _, k := range order {
		if pending[k] {
			ops = append(ops, faultOp{k, ""})
		}
	}
	return ops
}

const faultCtx = " (in a history with injected I/O faults)"

func faultSequences(c *run.Ctx) (res run.Result) {
	r := c.Rng
	ops := genHistory(r)
	var sig []string
	faultSeen := map[string]bool{}
	goodAfterFault := false
	for step, o := range ops {
		sig = append(sig, o.kind+":"+o.fault)
		n := 1 + r.Intn(12)
		input := fmt.Sprintf("step %d of %d: %s, %d splats, fault %q", step+1, len(ops), o.kind, n, o.fault)
		c.Note(input)
		res.Count("faults/ops", 1)
		if o.fault == "" && faultSeen[o.kind] {
			res.Count("faults/good_calls_after_a_fault/"+o.kind, 1)
			goodAfterFault = true
		}
		// judge a failing write: the error (or the destination's panic) must come out
		judgeWrite := func(w *faultWriter, p *run.PanicInfo, err error) {
			site := o.kind + " (failing destination)"
			switch {
			case p != nil && p.ErrorType == "c15.injectedPanic":
				res.Count("faults/destination_panic_propagated", 1)
			case p != nil:
				res.Violate("panic", site, input, p.Value+"\n"+p.Stack, nil)
			case !w.tripped:
				res.Count("faults/fault_not_reached", 1)
			case err == nil:
				res.Count("faults/failed_writes_not_reported_as_error(evidence only)", 1) // no property demands that a failed write is reported: evidence only, never a verdict
			default:
				res.Count("faults/reported_as_error", 1)
			}
			if w.tripped {
				faultSeen[o.kind] = true
				res.Count("faults/injected/"+o.kind+"/"+o.fault, 1)
			}
		}
		switch o.kind {
		case "splat.Write":
			ss, _ := genSplats(r, n, c.Case+step)
			if o.fault == "" {
				checkSplatCloud(c, &res, ss, faultCtx)
				break
			}
			k := 32*r.Intn(n) + []int{0, 0, 1, 4, 12, 16, 24, 27, 28, 31}[r.Intn(10)]
			res.SetAdd("faults/splat_write_fault_offset_in_record", fmt.Sprint(k%32))
			w := &faultWriter{limit: k, mode: o.fault}
			mesh := splatMesh(ss)
			var err error
			p := run.Try(func() {
				if step%2 == 0 {
					err = splat.Write(w, mesh)
				} else {
					err = splat.Splat{Mesh: mesh}.Write(w)
				}
			})
			judgeWrite(w, p, err)
		case "SplatPly.Write":
			rest := []int{0, 9}[r.Intn(2)]
			pc := genPlyCloud(r, n, contig(rest), r.Intn(2) == 0, "f64")
			if o.fault == "" {
				checkSplatPly(c, &res, pc, faultCtx)
				break
			}
			stride := 4 * (14 + rest)
			w := &faultWriter{limit: r.Intn(150 + n*stride), mode: o.fault} // the header alone is longer than 150 bytes
			var err error
			p := run.Try(func() { err = (ply.SplatPly{Mesh: pc.mesh}).Write(w) })
			judgeWrite(w, p, err)
		case "splat.Read":
			ss, _ := genSplats(r, n, c.Case+step)
			data := splatref.EncodeSplats(ss)
			if o.fault == "" {
				checkSplatRead(c, &res, ss, data, faultCtx)
				break
			}
			fr := &faultReader{data: data, limit: r.Intn(len(data))}
			var err error
			p := run.Try(func() { _, err = splat.Read(fr) })
			judgeRead(&res, o, input, fr, p, err, faultSeen)
		case "spz.Read":
			version, deg := uint32(1+r.Intn(2)), uint8(r.Intn(4))
			s := splatref.RandomSPZ(r, version, n, deg, drawFractionalBits(r), 0, true)
			level := gzLevels[r.Intn(len(gzLevels))]
			data := s.Gzip(level)
			if o.fault == "" {
				checkSPZ(c, &res, s, data, level, faultCtx)
				break
			}
			// The gzip layer reads ahead of what spz.Read consumes, so a fault in the last few
			// bytes may never reach the decoder: an error is the reported failure, a result
			// without error must be the complete exact cloud.
			fr := &faultReader{data: data, limit: r.Intn(len(data))}
			reported := false
			if checkSPZFrom(c, &res, s, fr, "failing reader", len(data), level, " (failing source)", &reported) {
				if reported {
					res.Count("faults/reported_as_error", 1)
				} else {
					res.Count("faults/fault_not_reached", 1)
				}
			}
			if fr.tripped {
				faultSeen[o.kind] = true
				res.Count("faults/injected/"+o.kind+"/"+o.fault, 1)
			}
		}
	}
	res.Count("faults/histories", 1)
	res.Sig = strings.Join(sig, " ")
	res.Nontrivial = goodAfterFault
	if c.Case < 2 {
		res.Sample = map[string]any{"history": sig}
	}
	return
}

func judgeRead(res *run.Result, o faultOp, input string, fr *faultReader, p *run.PanicInfo, err error, faultSeen map[string]bool) {
	site := o.kind + " (failing source)"
	switch {
	case p != nil:
		res.Violate("panic", site, input, p.Value+"\n"+p.Stack, nil)
	case !fr.tripped:
		res.Count("faults/fault_not_reached", 1) // the decoder never asked beyond the bytes delivered
	case err == nil:
		res.Violate("read-fault-not-reported", site, input,
			fmt.Sprintf("the source failed after %d of %d bytes with a non-EOF error and the call returned no error", fr.limit, len(fr.data)), nil)
	default:
		res.Count("faults/reported_as_error", 1)
	}
	if fr.tripped {
		faultSeen[o.kind] = true
		res.Count("faults/injected/"+o.kind+"/"+o.fault, 1)
	}
}

// checkSplatRead: a reference-encoded .splat file read by polyform, within one step of the cloud.
func checkSplatRead(c *run.Ctx, res *run.Result, ss []splatref.Splat, data []byte, ctx string) {
	n := len(ss)
	site := "splat.Read (reference-encoded file)" + ctx
	input := fmt.Sprintf("cloud of %d splats", n)
	c.SaveInput(data)
	var back modeling.Mesh
	var err error
	rd, kind, release := openKind(c, res, "splat.Read", site, data)
	p := run.Try(func() { back, err = splat.Read(rd) })
	release()
	input += ", file read through " + kind
	if p != nil {
		res.Violate("panic", site, input, p.Value+"\n"+p.Stack, nil)
		return
	}
	if err != nil {
		res.Violate("splat-read-error", site, input, fmt.Sprintf("file of %d complete records rejected: %v", n, err), nil)
		return
	}
	got, shape := meshSplats(back, n)
	if shape != "" {
		res.Violate("splat-count", site, input, shape, nil)
		return
	}
	for i := range ss {
		if f, msg := compareSplat(ss[i], got[i]); f != "" {
			res.Violate("splat-"+f, site, input, fmt.Sprintf("splat %d of %d: %s", i, n, msg), nil)
			return
		}
	}
	res.Count("splat/splats_compared", int64(n))
}
