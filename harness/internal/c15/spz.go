package c15

import (
	"compress/gzip"
	"fmt"
	"io"
	"math"
	"math/rand"

	"github.com/EliCDavis/polyform/formats/spz"
	"github.com/EliCDavis/polyform/modeling"
	"github.com/EliCDavis/vector/vector3"
	"polyverif/internal/c15/splatref"
	"polyverif/internal/run"
)

var gzLevels = []int{gzip.DefaultCompression, gzip.NoCompression, gzip.BestSpeed, gzip.BestCompression, gzip.HuffmanOnly}

// relClose: |a-b| <= tol*max(1,|b|); NaN never close.
func relClose(a, b, tol float64) bool { return math.Abs(a-b) <= tol*math.Max(1, math.Abs(b)) }

func spzDecode(c *run.Ctx) (res run.Result) {
	r := c.Rng
	version := uint32(1 + c.Case%2)
	deg := uint8((c.Case / 2) % 4)
	level := gzLevels[(c.Case/8)%len(gzLevels)]
	fb := drawFractionalBits(r)
	n := splatCount(r, c.Tier)
	nonFinite := version == 1 && r.Intn(3) == 0
	s := splatref.RandomSPZ(r, version, n, deg, fb, uint8(r.Intn(2)), !nonFinite)
	data := s.Gzip(level)
	gzHeader := r.Intn(8) == 0
	if gzHeader {
		data = s.GzipHeader(level, "scene.spz", "written by the c15 reference encoder", []byte{'c', '1', 2, 0, 7, 9})
	}

	res.Sig = fmt.Sprintf("v%d/sh%d/fb%d/n%s/gz%d/nonfinite:%v", version, deg, fb/4*4, nBucket(n), level, nonFinite)
	res.Nontrivial = n >= 1
	res.SetAdd("spz/header_configs", fmt.Sprintf("v%d/sh%d/fb%d", version, deg, fb))
	res.SetAdd("spz/fractional_bits", fmt.Sprint(fb))
	res.SetAdd("spz/counts", nBucket(n))
	if !checkSPZ(c, &res, s, data, level, "") || n == 0 {
		return
	}
	if nonFinite {
		res.Count("spz/streams_with_nonfinite_halves", 1)
	}
	if gzHeader {
		res.Count("spz/streams_with_optional_gzip_header_fields", 1)
	}
	if c.Case < 2 {
		res.Sample = map[string]any{"version": version, "sh_degree": deg, "fractional_bits": fb, "points": n, "gzip_level": level, "gzip_bytes": len(data), "point_0_dequantised": fmt.Sprintf("%+v", s.Point(0))}
	}
	return
}

// maxJudgedFractionalBits: the header field is a byte, and the dequantised version-2
// position is fixed·2^-bits for every value of it (exact in float64: |fixed| < 2^23 and
// 2^-255 is a normal number). Up to polyform 623b830 the scale was 1/float64(1<<bits) in a
// 64-bit int: negated at 63, ±Inf/NaN from 64 on (repaired by "fix: spz position scale for
// fractional bits of 63 and more"); the whole byte range is judged since then.
const maxJudgedFractionalBits = 255

func drawFractionalBits(r *rand.Rand) uint8 {
	switch u := r.Intn(20); {
	case u < 10:
		return uint8(r.Intn(24))
	case u < 13:
		return uint8(24 + r.Intn(8)) // 24…31
	case u < 17:
		return uint8(32 + r.Intn(31)) // 32…62
	case u < 18:
		return 63
	}
	return uint8(64 + r.Intn(192))
}

type v3At interface {
	At(int) vector3.Float64
	Len() int
}

// checkSPZ feeds one reference-encoded stream to spz.Read and compares every attribute
// of every point, per index, with the published dequantisation of the packed arrays.
// ctx is appended to the violation site. Returns false when a violation was recorded.
func checkSPZ(c *run.Ctx, res *run.Result, s *splatref.SPZ, data []byte, level int, ctx string) bool {
	c.SaveInput(data)
	rd, kind, release := openKind(c, res, "spz.Read", "spz.Read"+ctx, data)
	defer release()
	return checkSPZFrom(c, res, s, rd, kind, len(data), level, ctx, nil)
}

// checkSPZFrom: when failed is non-nil the source may fail; an error from spz.Read is then
// the reported failure (*failed = true) and not a violation, while a result returned
// without error must still be the complete, exact cloud.
func checkSPZFrom(c *run.Ctx, res *run.Result, s *splatref.SPZ, in io.Reader, kind string, streamBytes, level int, ctx string, failed *bool) bool {
	n, version, deg, fb := s.N, s.Version, s.SHDegree, s.FracBits
	dim := splatref.SHDim(deg)
	before := len(res.Violations)
	input := fmt.Sprintf("SPZ v%d, %d points, SH degree %d, %d fractional bits, stream read through %s", version, n, deg, fb, kind)
	site := "spz.Read" + ctx
	witness := func(i int) any {
		w := map[string]any{"version": version, "points": n, "sh_degree": deg, "fractional_bits": fb, "flags": s.Flags, "gzip_level": level, "point": i}
		if 16+n*(16+dim*3) <= 1500 {
			w["uncompressed_stream"] = s.Raw()
		}
		return w
	}

	c.Note("spz.Read " + input)
	var cloud *spz.Cloud
	var err error
	if p := run.Try(func() { cloud, err = spz.Read(in) }); p != nil {
		res.Violate("panic", site, input, p.Value+"\n"+p.Stack, witness(-1))
		return false
	}
	if err != nil && failed != nil {
		*failed = true
		return true
	}
	if err != nil || cloud == nil {
		res.Violate("spz-valid-stream-rejected", site, input, fmt.Sprintf("a stream built to the published layout was rejected: %v", err), witness(-1))
		return false
	}
	h := cloud.Header
	if h.Magic != splatref.SPZMagic || h.Version != version || int(h.NumPoints) != n || h.ShDegree != deg || h.FractionalBits != fb || h.Flags != s.Flags || h.Reserved != 0 {
		res.Violate("spz-header", site, input, fmt.Sprintf("decoded header %+v differs from the encoded one (version %d, %d points, SH %d, %d fractional bits, flags %d)", h, version, n, deg, fb, s.Flags), witness(-1))
	}
	m := cloud.Mesh
	if m.PrimitiveCount() != n {
		res.Violate("spz-count", site, input, fmt.Sprintf("%d points decoded, header declares %d", m.PrimitiveCount(), n), witness(-1))
		return false
	}
	// declared length of every attribute array; SH_k present exactly for k < dim
	for _, a := range m.Float3Attributes() {
		if l := m.Float3Attribute(a).Len(); l != n {
			res.Violate("spz-attribute-length", site, input, fmt.Sprintf("attribute %s has %d entries, NumPoints = %d", a, l, n), witness(-1))
			return false
		}
		var k int
		if _, e := fmt.Sscanf(a, "SH_%d", &k); e == nil && k >= dim {
			res.Violate("spz-sh-extra", site, input, fmt.Sprintf("attribute %s present although SH degree %d has only %d coefficients", a, deg, dim), witness(-1))
		}
	}
	for _, a := range m.Float1Attributes() {
		if l := m.Float1Attribute(a).Len(); l != n {
			res.Violate("spz-attribute-length", site, input, fmt.Sprintf("attribute %s has %d entries, NumPoints = %d", a, l, n), witness(-1))
			return false
		}
	}
	for _, a := range m.Float4Attributes() {
		if l := m.Float4Attribute(a).Len(); l != n {
			res.Violate("spz-attribute-length", site, input, fmt.Sprintf("attribute %s has %d entries, NumPoints = %d", a, l, n), witness(-1))
			return false
		}
	}
	if n == 0 {
		return len(res.Violations) == before
	}
	missing := ""
	for _, a := range []string{modeling.PositionAttribute, modeling.ScaleAttribute, modeling.FDCAttribute} {
		if !m.HasFloat3Attribute(a) {
			missing = a
		}
	}
	for d := 0; d < dim; d++ {
		if !m.HasFloat3Attribute(fmt.Sprintf("SH_%d", d)) {
			missing = fmt.Sprintf("SH_%d", d)
		}
	}
	if !m.HasFloat1Attribute(modeling.OpacityAttribute) {
		missing = modeling.OpacityAttribute
	}
	if !m.HasFloat4Attribute(modeling.RotationAttribute) {
		missing = modeling.RotationAttribute
	}
	if missing != "" {
		res.Violate("spz-attribute-missing", site, input, "attribute "+missing+" missing from the decoded cloud", witness(-1))
		return false
	}
	pos, sc, col := m.Float3Attribute(modeling.PositionAttribute), m.Float3Attribute(modeling.ScaleAttribute), m.Float3Attribute(modeling.FDCAttribute)
	op, rot := m.Float1Attribute(modeling.OpacityAttribute), m.Float4Attribute(modeling.RotationAttribute)
	shIt := make([]v3At, dim)
	for d := range shIt {
		shIt[d] = m.Float3Attribute(fmt.Sprintf("SH_%d", d))
	}
	idx := m.Indices()
	alphaUnit, alphaLogit := 0, 0
	unjudgedPosEqual, unjudgedPosDiffer := 0, 0
	for k := 0; k < n; k++ {
		i := idx.At(k)
		if i != k {
			res.Violate("spz-order", site, input, fmt.Sprintf("index[%d] = %d: points are not in record order", k, i), witness(k))
			return false
		}
		want := s.Point(i)
		bad := func(field, msg string) {
			res.Violate("spz-"+field, site, input, fmt.Sprintf("point %d of %d: %s", i, n, msg), witness(i))
		}
		p, sv, cv, q := pos.At(i), sc.At(i), col.At(i), rot.At(i)
		for c := 0; c < 3; c++ {
			if version == 2 && fb > maxJudgedFractionalBits {
				if sameBits(p.Component(c), want.Pos[c]) {
					unjudgedPosEqual++
				} else {
					unjudgedPosDiffer++
				}
			} else if !sameBits(p.Component(c), want.Pos[c]) {
				bad("position", fmt.Sprintf("position[%d] = %v, record dequantises to %v", c, p.Component(c), want.Pos[c]))
			}
			if !sameBits(sv.Component(c), want.Scale[c]) {
				bad("scale", fmt.Sprintf("scale[%d] = %v, byte %d dequantises to %v", c, sv.Component(c), s.Scale[i*3+c], want.Scale[c]))
			}
			if !relClose(cv.Component(c), want.Color[c], 1e-6) {
				bad("colour", fmt.Sprintf("colour[%d] = %v, byte %d dequantises to %v", c, cv.Component(c), s.Color[i*3+c], want.Color[c]))
			}
		}
		qa := [4]float64{q.X(), q.Y(), q.Z(), q.W()}
		n2 := 0.0
		for c := 0; c < 3; c++ {
			if !relClose(qa[c], want.RotXYZ[c], 1e-6) {
				bad("rotation", fmt.Sprintf("rotation[%d] = %v, byte %d dequantises to %v", c, qa[c], s.Rot[i*3+c], want.RotXYZ[c]))
			}
			n2 += want.RotXYZ[c] * want.RotXYZ[c]
		}
		if !(qa[3] >= 0) || !(math.Abs(qa[3]*qa[3]-math.Max(0, 1-n2)) <= 2e-6) {
			bad("rotation", fmt.Sprintf("rotation w = %v, published sqrt(max(0, 1-|xyz|²)) = %v (float64) / %v (float32)", qa[3], want.RotW64, want.RotW32))
		}
		o := op.At(i)
		switch {
		case relClose(o, want.AlphaUnit, 1e-6):
			alphaUnit++
		case sameBits(o, want.AlphaLog) || relClose(o, want.AlphaLog, 1e-6):
			alphaLogit++
		default:
			bad("opacity", fmt.Sprintf("opacity = %v, byte %d dequantises to %v (a/255) or %v (logit)", o, s.Alpha[i], want.AlphaUnit, want.AlphaLog))
		}
		for d := 0; d < dim; d++ {
			v := shIt[d].At(i)
			for ch := 0; ch < 3; ch++ {
				if !sameBits(v.Component(ch), want.SH[d][ch]) {
					bad("sh", fmt.Sprintf("SH_%d[%d] = %v, byte %d (offset %d of the SH array) dequantises to %v", d, ch, v.Component(ch), s.SH[i*dim*3+d*3+ch], i*dim*3+d*3+ch, want.SH[d][ch]))
				}
			}
		}
		if len(res.Violations) > before {
			return false // the first differing point says it all
		}
	}
	res.Count("spz/points_compared", int64(n))
	if version == 2 && fb > maxJudgedFractionalBits {
		bucket := "63"
		if fb >= 64 {
			bucket = "64-255"
		}
		res.Count("spz/v2_positions_not_judged/fractional_bits_"+bucket+"/equal_to_fixed_times_2^-bits", int64(unjudgedPosEqual))
		res.Count("spz/v2_positions_not_judged/fractional_bits_"+bucket+"/different", int64(unjudgedPosDiffer))
	} else if version == 2 {
		res.Count("spz/v2_positions_judged", int64(3*n))
		if fb >= 32 {
			res.Count("spz/v2_positions_judged/fractional_bits_32-62", int64(3*n))
		}
		if fb == 63 {
			res.Count("spz/v2_positions_judged/fractional_bits_63", int64(3*n))
		}
		if fb >= 64 {
			res.Count("spz/v2_positions_judged/fractional_bits_64-255", int64(3*n))
		}
	}
	res.Count("spz/sh_coefficients_compared", int64(n*dim*3))
	res.Count("spz/opacity_is_a_over_255", int64(alphaUnit))
	res.Count("spz/opacity_is_logit", int64(alphaLogit))
	res.Count("spz/stream_bytes", int64(streamBytes))
	return len(res.Violations) == before
}
