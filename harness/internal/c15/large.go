package c15

import (
	"compress/gzip"
	"fmt"
	"math/rand"

	"polyverif/internal/c15/splatref"
	"polyverif/internal/gen"
	"polyverif/internal/run"
)

// Large clouds: any decoder or encoder that works through its arrays in blocks (or with
// 16-bit counters) behaves differently only beyond the block size, which the small clouds
// of the other phases never reach. Point counts sit on and around powers of two.

var largePrimary = []int{16383, 16384, 16385, 32769, 40000, 65535, 65536, 65537, -1} // -1: random 20 000…120 000
var largeSecondary = []int{4095, 4096, 4097, 8191, 8192, 8193, 32767, 32768}
var largeGz = []int{gzip.BestSpeed, gzip.NoCompression, gzip.HuffmanOnly, gzip.DefaultCompression}

func largeSizes(r *rand.Rand, i int) (int, int) {
	p := largePrimary[i%len(largePrimary)]
	if i >= len(largePrimary)*2 && i%3 != 0 { // thorough: multiples of a power of two, ±1
		blk := []int{4096, 8192, 16384, 32768, 65536}[r.Intn(5)]
		p = blk*(1+r.Intn(120000/blk)) + r.Intn(3) - 1
	}
	if p < 0 {
		p = 20000 + r.Intn(100001)
	}
	return p, largeSecondary[i%len(largeSecondary)]
}

func largeClouds(c *run.Ctx) (res run.Result) {
	n1, n2 := largeSizes(c.Rng, c.Case)
	return largeCloudsN(c, n1, n2)
}

// splatBlockBases: point counts that fill a 4…64 KiB staging block exactly for the element sizes of the three
// codecs: .splat records (32), SPZ planes (9, 6, 3, 1 bytes per point; 24/45 for SH), PLY float rows (4·14, 4·17, 12, 16, 4).
var splatBlockBases = gen.BlockBases(8000, 32, 9, 6, 3, 24, 45, 56, 68, 12, 16, 4)

// blockMultipleClouds (round 7): the large-phase oracle on exactly k·base points (and a second, unrelated base).
func blockMultipleClouds(c *run.Ctx) run.Result {
	n1 := splatBlockBases[c.Case%len(splatBlockBases)] * (1 + c.Case/len(splatBlockBases))
	n2 := splatBlockBases[(c.Case*7+3)%len(splatBlockBases)]
	res := largeCloudsN(c, n1, n2)
	res.SetAdd("block_multiple_point_counts", fmt.Sprint(n1))
	return res
}

func largeCloudsN(c *run.Ctx, n1, n2 int) (res run.Result) {
	r := c.Rng
	res.Nontrivial = true
	res.Sig = fmt.Sprintf("%d+%d/v%d/sh%d", n1, n2, 1+c.Case%2, c.Case%4)
	for k, n := range []int{n1, n2} {
		res.SetAdd("large/point_counts", fmt.Sprint(n))
		// SPZ: reference encoder → spz.Read, every attribute of every point compared per index
		version := uint32(1 + (c.Case+k)%2)
		deg := uint8((c.Case + 3*k) % 4)
		level := largeGz[(c.Case/2+k)%len(largeGz)]
		s := splatref.RandomSPZ(r, version, n, deg, drawFractionalBits(r), uint8(r.Intn(2)), true)
		data := s.Gzip(level)
		if checkSPZ(c, &res, s, data, level, "") {
			res.Count("large/spz_points_compared", int64(n))
			res.SetAdd("large/spz_configs", fmt.Sprintf("v%d/sh%d", version, deg))
		}
		// .splat: write → read, bytes vs layout, reference encoding → read
		ss, _ := genSplats(r, n, c.Case)
		before := len(res.Violations)
		checkSplatCloud(c, &res, ss, "")
		if len(res.Violations) == before {
			res.Count("large/splat_splats_round_tripped", int64(n))
		}
		// splat PLY export
		rest := []int{0, 9}[(c.Case+k)%2]
		pc := genPlyCloud(r, n, contig(rest), (c.Case/2+k)%2 == 0, []string{"unit", "f64", "mixed"}[r.Intn(3)])
		before = len(res.Violations)
		checkSplatPly(c, &res, pc, "")
		if len(res.Violations) == before {
			res.Count("large/splatply_splats_exported", int64(n))
		}
	}
	if c.Case < 2 {
		res.Sample = map[string]any{"point_counts": []int{n1, n2}, "codecs": "spz.Read, splat.Write/Read, SplatPly.Write/ply.ReadMesh at each count"}
	}
	return
}
