package splatref

import (
	"encoding/binary"
	"math"
)

// SHC0 is the zeroth-order SH basis constant used by the .splat colour quantiser.
const SHC0 = 0.28209479177387814

// Splat is one gaussian in the attribute space of the 3DGS training output
// (what polyform keeps in Position / Scale / FDC / Opacity / Rotation).
type Splat struct {
	Pos     [3]float64
	Scale   [3]float64 // log space
	FDC     [3]float64
	Opacity float64    // logit space
	Rot     [4]float64 // rot_0 … rot_3 (polyform: X, Y, Z, W of the Rotation attribute)
}

func clamp(v, lo, hi float64) float64 {
	if v < lo {
		return lo
	}
	if v > hi {
		return hi
	}
	return v
}

// Sigmoid is the opacity activation.
func Sigmoid(x float64) float64 { return 1 / (1 + math.Exp(-x)) }

// ColorUnit maps an FDC component to displayable [0,1] (clamped).
func ColorUnit(c float64) float64 { return clamp(0.5+SHC0*c, 0, 1) }

// EncodeSplat writes the 32-byte record of antimatter15/splat convert.py:
// 3×f32 position, 3×f32 exp(scale), rgba bytes (colour*255 clipped, truncated),
// 4 rotation bytes (rot*128+128 clipped, truncated). The quaternion is taken as
// given (convert.py normalises; the inputs of the monitor are what they are).
func EncodeSplat(s Splat) [32]byte {
	var b [32]byte
	for c := 0; c < 3; c++ {
		binary.LittleEndian.PutUint32(b[c*4:], math.Float32bits(float32(s.Pos[c])))
		binary.LittleEndian.PutUint32(b[12+c*4:], math.Float32bits(float32(math.Exp(s.Scale[c]))))
		b[24+c] = byte(clamp((0.5+SHC0*s.FDC[c])*255, 0, 255))
	}
	b[27] = byte(clamp(Sigmoid(s.Opacity)*255, 0, 255))
	for c := 0; c < 4; c++ {
		b[28+c] = byte(clamp(s.Rot[c]*128+128, 0, 255))
	}
	return b
}

// EncodeSplats concatenates the records.
func EncodeSplats(ss []Splat) []byte {
	out := make([]byte, 0, 32*len(ss))
	for _, s := range ss {
		r := EncodeSplat(s)
		out = append(out, r[:]...)
	}
	return out
}

// DecodeSplat dequantises one record.
func DecodeSplat(b []byte) Splat {
	var s Splat
	for c := 0; c < 3; c++ {
		s.Pos[c] = float64(math.Float32frombits(binary.LittleEndian.Uint32(b[c*4:])))
		s.Scale[c] = math.Log(float64(math.Float32frombits(binary.LittleEndian.Uint32(b[12+c*4:]))))
		s.FDC[c] = (float64(b[24+c])/255 - 0.5) / SHC0
	}
	a := float64(b[27]) / 255
	s.Opacity = math.Log(a / (1 - a))
	for c := 0; c < 4; c++ {
		s.Rot[c] = (float64(b[28+c]) - 128) / 128
	}
	return s
}
