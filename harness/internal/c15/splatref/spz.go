// Package splatref holds the reference encoders / dequantisers of the gaussian
// splat formats (SPZ, .splat, splat PLY). Everything here is written from the
// published layouts (nianticlabs/spz load-spz.cc, antimatter15/splat convert.py,
// the 3DGS PLY property list) and shares no code with polyform. It is used by
// the C15 monitor (codec oracle) and by C14 (valid files to truncate).
package splatref

import (
	"bytes"
	"compress/gzip"
	"encoding/binary"
	"math"
	"math/rand"
)

// SPZMagic is "NGSP" little endian.
const SPZMagic uint32 = 0x5053474e

// SPZ is one packed SPZ stream before compression: the 16-byte header and the
// six planar arrays in the published order.
type SPZ struct {
	Version  uint32
	N        int
	SHDegree uint8
	FracBits uint8
	Flags    uint8
	Reserved uint8

	Pos   []byte // v1: N*3 half floats (6 bytes / point); v2: N*3 24-bit fixed point (9 bytes / point)
	Alpha []byte // N
	Color []byte // N*3
	Scale []byte // N*3
	Rot   []byte // N*3
	SH    []byte // N*SHDim*3, per point: coefficient-major, colour channel inner
}

// SHDim is the number of SH coefficients per colour channel of a degree.
func SHDim(deg uint8) int {
	switch deg {
	case 0:
		return 0
	case 1:
		return 3
	case 2:
		return 8
	case 3:
		return 15
	}
	return -1
}

// RandomSPZ fills the packed arrays with arbitrary byte patterns. avoidNonFinite
// keeps half-float positions (version 1) away from the Inf/NaN exponent.
func RandomSPZ(r *rand.Rand, version uint32, n int, deg, fracBits, flags uint8, avoidNonFinite bool) *SPZ {
	s := &SPZ{Version: version, N: n, SHDegree: deg, FracBits: fracBits, Flags: flags}
	rb := func(k int) []byte {
		b := make([]byte, k)
		for i := range b {
			b[i] = byte(r.Intn(256))
		}
		return b
	}
	if version == 1 {
		s.Pos = make([]byte, n*6)
		for i := 0; i < n*3; i++ {
			h := uint16(r.Intn(1 << 16))
			switch r.Intn(12) {
			case 0:
				h &= 0x83ff // subnormal / zero exponent
			case 1:
				h |= 0x7c00 // Inf / NaN exponent
			}
			if avoidNonFinite && (h>>10)&0x1f == 31 {
				h &^= 1 << 14
			}
			binary.LittleEndian.PutUint16(s.Pos[i*2:], h)
		}
	} else {
		s.Pos = rb(n * 9)
		for i := 0; i < n*3; i++ { // edge patterns of the 24-bit sign extension
			switch r.Intn(16) {
			case 0:
				copy(s.Pos[i*3:], []byte{0x00, 0x00, 0x80}) // most negative
			case 1:
				copy(s.Pos[i*3:], []byte{0xff, 0xff, 0x7f}) // most positive
			case 2:
				copy(s.Pos[i*3:], []byte{0xff, 0xff, 0xff}) // -1
			case 3:
				copy(s.Pos[i*3:], []byte{0x00, 0x80, 0x00}) // bit 15 only: must stay positive
			}
		}
	}
	s.Alpha = rb(n)
	s.Color = rb(n * 3)
	s.Scale = rb(n * 3)
	s.Rot = rb(n * 3)
	s.SH = rb(n * SHDim(deg) * 3)
	return s
}

// NonZero replaces every zero byte of the packed arrays by a non-zero one, so that a
// decoder that fills a missing tail with zero bytes cannot coincide with the data.
func (s *SPZ) NonZero(r *rand.Rand) {
	for _, a := range [][]byte{s.Pos, s.Alpha, s.Color, s.Scale, s.Rot, s.SH} {
		for i := range a {
			if a[i] == 0 {
				a[i] = byte(1 + r.Intn(255))
			}
		}
	}
}

// Raw is the uncompressed stream.
func (s *SPZ) Raw() []byte {
	b := &bytes.Buffer{}
	var h [16]byte
	binary.LittleEndian.PutUint32(h[0:], SPZMagic)
	binary.LittleEndian.PutUint32(h[4:], s.Version)
	binary.LittleEndian.PutUint32(h[8:], uint32(s.N))
	h[12], h[13], h[14], h[15] = s.SHDegree, s.FracBits, s.Flags, s.Reserved
	b.Write(h[:])
	for _, a := range [][]byte{s.Pos, s.Alpha, s.Color, s.Scale, s.Rot, s.SH} {
		b.Write(a)
	}
	return b.Bytes()
}

// Gzip is the .spz file: the raw stream as one gzip member.
func (s *SPZ) Gzip(level int) []byte { return s.GzipHeader(level, "", "", nil) }

// GzipHeader additionally sets the optional gzip header fields (FNAME, FCOMMENT, FEXTRA),
// which any conforming gzip reader skips.
func (s *SPZ) GzipHeader(level int, name, comment string, extra []byte) []byte {
	out := &bytes.Buffer{}
	w, err := gzip.NewWriterLevel(out, level)
	if err != nil {
		w = gzip.NewWriter(out)
	}
	w.Name, w.Comment, w.Extra = name, comment, extra
	w.Write(s.Raw())
	w.Close()
	return out.Bytes()
}

// Half converts an IEEE-754 binary16 pattern.
func Half(h uint16) float64 {
	sign := 1.0
	if h&0x8000 != 0 {
		sign = -1
	}
	e := int(h>>10) & 0x1f
	m := int(h & 0x3ff)
	switch e {
	case 0:
		return sign * math.Ldexp(float64(m), -24)
	case 31:
		if m != 0 {
			return math.NaN()
		}
		return math.Inf(int(sign))
	}
	return sign * math.Ldexp(float64(1024+m), e-25)
}

// SPZPoint is the dequantised record i per the published unpack routine.
type SPZPoint struct {
	Pos       [3]float64
	Scale     [3]float64
	Color     [3]float64
	RotXYZ    [3]float64
	RotW64    float64 // w evaluated in float64
	RotW32    float64 // w evaluated in float32, as the published decoder does
	AlphaUnit float64 // a/255 (polyform's documented choice)
	AlphaLog  float64 // logit(a/255) (published)
	SH        [][3]float64
}

// Point dequantises record i.
func (s *SPZ) Point(i int) SPZPoint {
	var p SPZPoint
	for c := 0; c < 3; c++ {
		if s.Version == 1 {
			p.Pos[c] = Half(binary.LittleEndian.Uint16(s.Pos[(i*3+c)*2:]))
		} else {
			o := (i*3 + c) * 3
			v := int32(uint32(s.Pos[o]) | uint32(s.Pos[o+1])<<8 | uint32(s.Pos[o+2])<<16)
			if v&0x800000 != 0 {
				v -= 1 << 24
			}
			p.Pos[c] = math.Ldexp(float64(v), -int(s.FracBits))
		}
		p.Scale[c] = float64(s.Scale[i*3+c])/16 - 10
		p.Color[c] = (float64(s.Color[i*3+c])/255 - 0.5) / 0.15
		p.RotXYZ[c] = float64(s.Rot[i*3+c])/127.5 - 1
	}
	n2 := p.RotXYZ[0]*p.RotXYZ[0] + p.RotXYZ[1]*p.RotXYZ[1] + p.RotXYZ[2]*p.RotXYZ[2]
	p.RotW64 = math.Sqrt(math.Max(0, 1-n2))
	{
		var x [3]float32
		for c := 0; c < 3; c++ {
			x[c] = float32(s.Rot[i*3+c])*(1.0/127.5) + -1
		}
		n := x[0]*x[0] + x[1]*x[1] + x[2]*x[2]
		d := float32(1) - n
		if d < 0 {
			d = 0
		}
		p.RotW32 = float64(float32(math.Sqrt(float64(d))))
	}
	a := float64(s.Alpha[i]) / 255
	p.AlphaUnit = a
	p.AlphaLog = math.Log(a / (1 - a))
	dim := SHDim(s.SHDegree)
	p.SH = make([][3]float64, dim)
	for d := 0; d < dim; d++ {
		for ch := 0; ch < 3; ch++ {
			p.SH[d][ch] = (float64(s.SH[i*dim*3+d*3+ch]) - 128) / 128
		}
	}
	return p
}
