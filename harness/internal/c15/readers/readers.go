// Package readers delivers one byte slice through the kinds of io.Reader a decoder meets
// in practice. The io.Reader contract makes them indistinguishable for a correct decoder:
// short reads, data returned together with io.EOF, one byte at a time, buffered, a file,
// a pipe fed by another goroutine, a decompressor.
package readers

import (
	"bufio"
	"bytes"
	"compress/gzip"
	"io"
	"os"
	"path/filepath"
	"testing/iotest"
)

// Kinds lists every reader kind Open knows.
var Kinds = []string{"bytes.Reader", "plain", "OneByteReader", "HalfReader", "DataErrReader", "LimitReader", "bufio", "os.File", "pipe", "gzip"}

// WrapKinds are the kinds Wrap knows (they need no access to the bytes).
var WrapKinds = []string{"plain", "OneByteReader", "HalfReader", "DataErrReader", "LimitReader", "bufio"}

type plain struct{ io.Reader }

// Wrap puts a reader of the given kind around r.
func Wrap(kind string, r io.Reader) io.Reader {
	switch kind {
	case "OneByteReader":
		return iotest.OneByteReader(r)
	case "HalfReader":
		return iotest.HalfReader(r)
	case "DataErrReader": // the last piece of data arrives together with io.EOF
		return iotest.DataErrReader(r)
	case "LimitReader":
		return io.LimitReader(r, 1<<62)
	case "bufio":
		return bufio.NewReaderSize(r, 37)
	}
	return plain{r}
}

// Open returns a reader of the given kind over data and a function that releases it
// (closes files, ends the feeding goroutine). scratch is a private directory.
func Open(kind string, data []byte, scratch string) (io.Reader, func()) {
	switch kind {
	case "bytes.Reader":
		return bytes.NewReader(data), func() {}
	case "os.File":
		p := filepath.Join(scratch, "reader-kind.bin")
		if err := os.WriteFile(p, data, 0o644); err == nil {
			if f, err := os.Open(p); err == nil {
				return f, func() { f.Close(); os.Remove(p) }
			}
		}
		return plain{bytes.NewReader(data)}, func() {}
	case "pipe":
		pr, pw := io.Pipe()
		done := make(chan struct{})
		go func() {
			defer close(done)
			for off := 0; off < len(data); {
				k := 4093
				if k > len(data)-off {
					k = len(data) - off
				}
				if _, err := pw.Write(data[off : off+k]); err != nil {
					return // the reading side was closed
				}
				off += k
			}
			pw.Close()
		}()
		return pr, func() { pr.Close(); <-done }
	case "gzip": // the decompressor hands out the tail of the data together with io.EOF
		var z bytes.Buffer
		w, _ := gzip.NewWriterLevel(&z, gzip.BestSpeed)
		w.Write(data)
		w.Close()
		if r, err := gzip.NewReader(bytes.NewReader(z.Bytes())); err == nil {
			return r, func() { r.Close() }
		}
		return plain{bytes.NewReader(data)}, func() {}
	}
	return Wrap(kind, bytes.NewReader(data)), func() {}
}
