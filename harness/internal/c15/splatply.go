package c15

import (
	"bytes"
	"encoding/binary"
	"fmt"
	"math"
	"math/rand"
	"strconv"
	"strings"

	"github.com/EliCDavis/polyform/formats/ply"
	"github.com/EliCDavis/polyform/modeling"
	"github.com/EliCDavis/vector/vector3"
	"github.com/EliCDavis/vector/vector4"
	"polyverif/internal/run"
)

// floatPLY is an independent reader for the subset of PLY the splat exporter may emit:
// binary little endian, one vertex element, scalar float / double properties.
type floatPLY struct {
	names []string
	types []string
	n     int
	vals  [][]float64 // [vertex][property]
}

func parseFloatPLY(data []byte) (*floatPLY, error) {
	end := bytes.Index(data, []byte("end_header\n"))
	if end < 0 {
		return nil, fmt.Errorf("no end_header")
	}
	lines := strings.Split(string(data[:end]), "\n")
	if len(lines) < 2 || lines[0] != "ply" {
		return nil, fmt.Errorf("magic %q", lines[0])
	}
	out := &floatPLY{n: -1}
	elements := 0
	for _, l := range lines[1:] {
		f := strings.Fields(l)
		if len(f) == 0 {
			continue
		}
		switch f[0] {
		case "format":
			if len(f) != 3 || f[1] != "binary_little_endian" || f[2] != "1.0" {
				return nil, fmt.Errorf("format line %q (the splat PLY is binary little endian)", l)
			}
		case "comment", "obj_info":
		case "element":
			elements++
			if len(f) != 3 || f[1] != "vertex" || elements > 1 {
				return nil, fmt.Errorf("unexpected element line %q", l)
			}
			n, err := strconv.Atoi(f[2])
			if err != nil {
				return nil, err
			}
			out.n = n
		case "property":
			if len(f) != 3 || (f[1] != "float" && f[1] != "float32" && f[1] != "double" && f[1] != "float64") {
				return nil, fmt.Errorf("unexpected property line %q", l)
			}
			out.types = append(out.types, f[1])
			out.names = append(out.names, f[2])
		default:
			return nil, fmt.Errorf("unexpected header line %q", l)
		}
	}
	if out.n < 0 {
		return nil, fmt.Errorf("no vertex element")
	}
	body := data[end+len("end_header\n"):]
	stride := 0
	for _, t := range out.types {
		if t == "float" || t == "float32" {
			stride += 4
		} else {
			stride += 8
		}
	}
	if len(body) != stride*out.n {
		return nil, fmt.Errorf("body has %d bytes, header declares %d vertices of %d bytes", len(body), out.n, stride)
	}
	for i := 0; i < out.n; i++ {
		row := make([]float64, len(out.names))
		for j, t := range out.types {
			if t == "float" || t == "float32" {
				row[j] = float64(math.Float32frombits(binary.LittleEndian.Uint32(body)))
				body = body[4:]
			} else {
				row[j] = math.Float64frombits(binary.LittleEndian.Uint64(body))
				body = body[8:]
			}
		}
		out.vals = append(out.vals, row)
	}
	return out, nil
}

// plyCloud is a splat cloud together with the expected value of every PLY property.
type plyCloud struct {
	n           int
	rest        []int // the numbers k of the f_rest_k attributes the cloud carries (any subset of 0…44)
	withNormals bool
	class       string
	mesh        modeling.Mesh
	want        map[string][]float64
	outOfLayout string // a float1 attribute named outside f_rest_0…44 (evidence only)
}

// contig is the contiguous numbering f_rest_0 … f_rest_{k-1}.
func contig(k int) []int {
	out := make([]int, k)
	for i := range out {
		out[i] = i
	}
	return out
}

// restLayout draws the f_rest numbering of a cloud. Modes 0–3 are the contiguous layouts
// of SH degree 0–3 (0 / 9 / 24 / 45 names); the others have GAPS: a single name, the high
// band only, degree-1 or degree-2 harmonics kept in the 45-wide per-channel layout
// (15 coefficients per colour channel), a random subset, the low bands stripped.
func restLayout(r *rand.Rand, mode int) (names []int, label string) {
	switch mode {
	case 0, 1, 2, 3:
		k := []int{0, 9, 24, 45}[mode]
		return contig(k), fmt.Sprintf("contiguous-%d", k)
	case 4:
		return []int{r.Intn(45)}, "single-name"
	case 5:
		lo := 9 + r.Intn(30)
		for k := lo; k < 45; k++ {
			names = append(names, k)
		}
		return names, "high-band-only"
	case 6:
		return []int{0, 1, 2, 15, 16, 17, 30, 31, 32}, "degree-1-in-channel-layout"
	case 7:
		for ch := 0; ch < 3; ch++ {
			for k := 0; k < 8; k++ {
				names = append(names, ch*15+k)
			}
		}
		return names, "degree-2-in-channel-layout"
	case 8:
		for k := 0; k < 45; k++ {
			if r.Intn(3) == 0 {
				names = append(names, k)
			}
		}
		if len(names) == 0 {
			names = []int{44}
		}
		return names, "random-subset"
	}
	lo := 1 + r.Intn(20)
	for k := lo; k < 45; k++ {
		names = append(names, k)
	}
	return names, "low-bands-stripped"
}

func genPlyCloud(r *rand.Rand, n int, rest []int, withNormals bool, class string) *plyCloud {
	val := func() float64 {
		cl := class
		if cl == "mixed" {
			cl = []string{"unit", "f64", "large", "tiny", "f32"}[r.Intn(5)]
		}
		switch cl {
		case "unit":
			return r.Float64()*2 - 1
		case "large":
			return (r.Float64() - 0.5) * math.Pow(10, float64(3+r.Intn(30)))
		case "tiny":
			return (r.Float64() - 0.5) * math.Pow(10, -float64(3+r.Intn(30)))
		case "f32":
			return float64(float32(r.NormFloat64() * 5))
		}
		return r.NormFloat64() * 10
	}
	// expected value of every PLY property, per vertex
	want := map[string][]float64{}
	v3 := func(p0, p1, p2 string) []vector3.Float64 {
		a := make([]vector3.Float64, n)
		want[p0], want[p1], want[p2] = make([]float64, n), make([]float64, n), make([]float64, n)
		for i := range a {
			x, y, z := val(), val(), val()
			a[i] = vector3.New(x, y, z)
			want[p0][i], want[p1][i], want[p2][i] = x, y, z
		}
		return a
	}
	v3data := map[string][]vector3.Float64{
		modeling.PositionAttribute: v3("x", "y", "z"),
		modeling.FDCAttribute:      v3("f_dc_0", "f_dc_1", "f_dc_2"),
		modeling.ScaleAttribute:    v3("scale_0", "scale_1", "scale_2"),
	}
	if withNormals {
		v3data[modeling.NormalAttribute] = v3("nx", "ny", "nz")
	}
	rot := make([]vector4.Float64, n)
	for k := 0; k < 4; k++ {
		want[fmt.Sprintf("rot_%d", k)] = make([]float64, n)
	}
	for i := range rot {
		q := [4]float64{val(), val(), val(), val()}
		rot[i] = vector4.New(q[0], q[1], q[2], q[3])
		for k := 0; k < 4; k++ {
			want[fmt.Sprintf("rot_%d", k)][i] = q[k]
		}
	}
	v1data := map[string][]float64{}
	scalar := func(name string) {
		a := make([]float64, n)
		w := make([]float64, n)
		for i := range a {
			a[i] = val()
			w[i] = a[i]
		}
		v1data[name] = a
		want[name] = w
	}
	scalar("opacity")
	v1data[modeling.OpacityAttribute] = v1data["opacity"]
	if modeling.OpacityAttribute != "opacity" {
		delete(v1data, "opacity")
	}
	for _, k := range rest {
		scalar(fmt.Sprintf("f_rest_%d", k))
	}
	mesh := modeling.NewPointCloud(map[string][]vector4.Float64{modeling.RotationAttribute: rot}, v3data, nil, v1data, nil)
	return &plyCloud{n: n, rest: rest, withNormals: withNormals, class: class, mesh: mesh, want: want}
}

func splatPly(c *run.Ctx) (res run.Result) {
	r := c.Rng
	n := splatCount(r, c.Tier)
	if n > 60 {
		n = 60
	}
	mode := c.Case % 10
	rest, layout := restLayout(r, mode)
	withNormals := (c.Case/10)%2 == 0
	class := []string{"unit", "f64", "large", "tiny", "mixed"}[r.Intn(5)]
	pc := genPlyCloud(r, n, rest, withNormals, class)
	// Names outside the exporter's layout (f_rest_45 and beyond, malformed suffixes) are not
	// written by the unchanged tree; they are kept out of the verdict and only counted.
	if c.Case%25 == 7 && n > 0 {
		extra := []string{"f_rest_45", "f_rest_100", "f_rest_x", "f_rest_"}[r.Intn(4)]
		a := make([]float64, n)
		for i := range a {
			a[i] = 1 + r.Float64()
		}
		pc.mesh = pc.mesh.SetFloat1Attribute(extra, a)
		pc.outOfLayout = extra
	}
	res.Sig = fmt.Sprintf("n%s/%s/normals:%v/%s", nBucket(n), layout, withNormals, class)
	res.Nontrivial = n >= 1
	res.SetAdd("splatply/configs", fmt.Sprintf("%s/normals:%v", layout, withNormals))
	res.SetAdd("splatply/counts", nBucket(n))
	if n >= 1 {
		res.Count("splatply/clouds_with_f_rest_layout/"+layout, 1)
		if mode < 4 { // f_rest_0 … f_rest_{k-1}: the higher-order harmonics of SH degree 0 / 1 / 2 / 3
			res.Count(fmt.Sprintf("splatply/clouds_with_sh_degree_%d", mode), 1)
		} else {
			res.Count("splatply/clouds_with_gaps_in_f_rest_numbering", 1)
			for _, k := range rest {
				res.SetAdd("splatply/f_rest_numbers_in_gapped_clouds", fmt.Sprint(k))
			}
		}
	}
	exported := checkSplatPly(c, &res, pc, "")
	if c.Case < 2 && n > 0 {
		res.Sample = map[string]any{"splats": n, "f_rest_numbers": rest, "normals": withNormals, "value_class": class, "export_bytes": exported}
	}
	return
}

// checkSplatPly applies the whole splat-PLY oracle to one cloud: SplatPly.Write, then
// ply.ReadMesh (the property's observation) and an independent parse of the bytes. ctx is
// appended to the violation sites. Returns the number of bytes exported.
func checkSplatPly(c *run.Ctx, res *run.Result, pc *plyCloud, ctx string) (exported int) {
	n, rest, withNormals, mesh, want := pc.n, pc.rest, pc.withNormals, pc.mesh, pc.want
	input := fmt.Sprintf("cloud of %d splats, f_rest numbers %v, normals %v", n, rest, withNormals)
	buf := &bytes.Buffer{}
	var werr error
	c.Note("SplatPly.Write " + input)
	if p := run.Try(func() { werr = (ply.SplatPly{Mesh: mesh}).Write(buf) }); p != nil {
		res.Violate("panic", "ply.SplatPly.Write"+ctx, input, p.Value+"\n"+p.Stack, nil)
		return
	}
	if werr != nil {
		res.Violate("splatply-write-error", "ply.SplatPly.Write"+ctx, input, "valid splat cloud rejected: "+werr.Error(), nil)
		return
	}
	data := buf.Bytes()
	exported = len(data)
	f32 := func(v float64) float64 { return float64(float32(v)) }

	// (b) independent parse of the exported bytes — runs after the round trip below, whatever its outcome
	defer func() {
		if fp, err := parseFloatPLY(data); err != nil {
			res.Violate("splatply-layout", "ply.SplatPly.Write (bytes vs PLY specification)"+ctx, input, "the export is not a binary little-endian PLY of float vertex properties: "+err.Error(), nil)
		} else {
			if fp.n != n {
				res.Violate("splatply-count", "ply.SplatPly.Write (bytes vs PLY specification)"+ctx, input, fmt.Sprintf("header declares %d vertices for %d splats", fp.n, n), nil)
			} else {
				col := map[string]int{}
				for j, name := range fp.names {
					if _, dup := col[name]; dup {
						res.Violate("splatply-layout", "ply.SplatPly.Write (bytes vs PLY specification)"+ctx, input, "property "+name+" declared twice", nil)
					}
					col[name] = j
				}
				for name, w := range want {
					if n == 0 {
						break // nothing to preserve: an empty cloud may be exported without properties
					}
					j, ok := col[name]
					if !ok {
						res.Violate("splatply-attribute-dropped", "ply.SplatPly.Write (bytes vs PLY specification)"+ctx, input, "property "+name+" is not in the exported header "+fmt.Sprint(fp.names), nil)
						continue
					}
					for i := 0; i < n; i++ {
						exp := w[i]
						if fp.types[j] == "float" || fp.types[j] == "float32" {
							exp = f32(exp)
						}
						if !sameBits(fp.vals[i][j], exp) {
							res.Violate("splatply-value", "ply.SplatPly.Write (bytes vs PLY specification)"+ctx, input,
								fmt.Sprintf("property %s of splat %d holds %v, the cloud has %v (float32: %v)", name, i, fp.vals[i][j], w[i], f32(w[i])), nil)
							break
						}
						res.Count("splatply/values_compared", 1)
					}
				}
			}
		}
	}()

	// (a) the property's observation: polyform reads its own export
	c.SaveInput(data)
	var back *modeling.Mesh
	var rerr error
	rd, kind, release := openKind(c, res, "ply.ReadMesh", "ply.SplatPly.Write→ply.ReadMesh"+ctx, data)
	p := run.Try(func() { back, rerr = ply.ReadMesh(rd) })
	release()
	input += ", export read through " + kind
	if p != nil {
		res.Violate("panic", "ply.SplatPly.Write→ply.ReadMesh"+ctx, input, p.Value+"\n"+p.Stack, nil)
		return
	}
	if rerr != nil || back == nil {
		res.Violate("splatply-read-error", "ply.SplatPly.Write→ply.ReadMesh"+ctx, input, fmt.Sprintf("the export is rejected by ply.ReadMesh: %v", rerr), nil)
		return
	}
	site := "ply.SplatPly.Write→ply.ReadMesh" + ctx
	if back.PrimitiveCount() != n {
		res.Violate("splatply-count", site, input, fmt.Sprintf("%d points read back, %d written", back.PrimitiveCount(), n), nil)
		return
	}
	if n == 0 {
		return
	}
	idx := back.Indices()
	for k := 0; k < n; k++ {
		if idx.At(k) != k {
			res.Violate("splatply-order", site, input, fmt.Sprintf("index[%d] = %d", k, idx.At(k)), nil)
			return
		}
	}
	check3 := func(attr string, props [3]string) {
		if !back.HasFloat3Attribute(attr) || back.Float3Attribute(attr).Len() != n {
			res.Violate("splatply-attribute-dropped", site, input, fmt.Sprintf("attribute %s missing or of the wrong length after the round trip (attributes: %v)", attr, back.Float3Attributes()), nil)
			return
		}
		it := back.Float3Attribute(attr)
		for i := 0; i < n; i++ {
			for c := 0; c < 3; c++ {
				if w := f32(want[props[c]][i]); !sameBits(it.At(i).Component(c), w) {
					res.Violate("splatply-value", site, input, fmt.Sprintf("%s[%d] of splat %d reads back %v, written %v (float32: %v)", attr, c, i, it.At(i).Component(c), want[props[c]][i], w), nil)
					return
				}
				res.Count("splatply/values_compared", 1)
			}
		}
	}
	check3(modeling.PositionAttribute, [3]string{"x", "y", "z"})
	check3(modeling.FDCAttribute, [3]string{"f_dc_0", "f_dc_1", "f_dc_2"})
	check3(modeling.ScaleAttribute, [3]string{"scale_0", "scale_1", "scale_2"})
	if withNormals {
		check3(modeling.NormalAttribute, [3]string{"nx", "ny", "nz"})
	}
	if !back.HasFloat4Attribute(modeling.RotationAttribute) || back.Float4Attribute(modeling.RotationAttribute).Len() != n {
		res.Violate("splatply-attribute-dropped", site, input, "attribute Rotation missing or of the wrong length after the round trip", nil)
	} else {
		it := back.Float4Attribute(modeling.RotationAttribute)
		for i := 0; i < n; i++ {
			q := it.At(i)
			for k, g := range []float64{q.X(), q.Y(), q.Z(), q.W()} {
				if w := f32(want[fmt.Sprintf("rot_%d", k)][i]); !sameBits(g, w) {
					res.Violate("splatply-value", site, input, fmt.Sprintf("Rotation[%d] of splat %d reads back %v, written %v (float32: %v)", k, i, g, want[fmt.Sprintf("rot_%d", k)][i], w), nil)
				}
				res.Count("splatply/values_compared", 1)
			}
		}
	}
	check1 := func(attr, prop string) {
		if !back.HasFloat1Attribute(attr) || back.Float1Attribute(attr).Len() != n {
			res.Violate("splatply-attribute-dropped", site, input, fmt.Sprintf("attribute %s missing or of the wrong length after the round trip (scalar attributes: %v)", attr, back.Float1Attributes()), nil)
			return
		}
		it := back.Float1Attribute(attr)
		for i := 0; i < n; i++ {
			if w := f32(want[prop][i]); !sameBits(it.At(i), w) {
				res.Violate("splatply-value", site, input, fmt.Sprintf("%s of splat %d reads back %v, written %v (float32: %v)", attr, i, it.At(i), want[prop][i], w), nil)
				return
			}
			res.Count("splatply/values_compared", 1)
		}
	}
	check1(modeling.OpacityAttribute, "opacity")
	for _, k := range rest {
		check1(fmt.Sprintf("f_rest_%d", k), fmt.Sprintf("f_rest_%d", k))
	}
	if pc.outOfLayout != "" { // evidence only: the exporter's layout ends at f_rest_44
		if back.HasFloat1Attribute(pc.outOfLayout) {
			res.Count("splatply/out_of_layout_f_rest_name_exported", 1)
		} else {
			res.Count("splatply/out_of_layout_f_rest_name_not_exported", 1)
		}
	}
	return
}
