package c15

import (
	"bytes"
	"fmt"
	"math"
	"math/rand"

	"github.com/EliCDavis/polyform/formats/splat"
	"github.com/EliCDavis/polyform/modeling"
	"github.com/EliCDavis/vector/vector3"
	"github.com/EliCDavis/vector/vector4"
	"polyverif/internal/c15/splatref"
	"polyverif/internal/gen"
	"polyverif/internal/run"
)

var sq = math.Sqrt(0.5)

// specialRots: identity, axis quaternions, components of exactly ±1, half-angle and
// non-normalised corner cases. Splat 0 of case i carries specialRots[i % 16].
var specialRots = [][4]float64{
	{0, 0, 0, 1}, {1, 0, 0, 0}, {0, 1, 0, 0}, {0, 0, 1, 0},
	{0, 0, 0, -1}, {-1, 0, 0, 0}, {0, -1, 0, 0}, {0, 0, -1, 0},
	{0.5, 0.5, 0.5, 0.5}, {-0.5, 0.5, -0.5, 0.5},
	{sq, sq, 0, 0}, {0, 0, sq, sq}, {sq, 0, 0, -sq},
	{1, 1, 1, 1}, {-1, -1, -1, -1}, {1, -1, 1, -1},
}

func sameBits(a, b float64) bool {
	if a != a || b != b {
		return a != a && b != b
	}
	return a == b
}

func nBucket(n int) string {
	switch {
	case n <= 2:
		return fmt.Sprint(n)
	case n <= 8:
		return "3-8"
	case n <= 40:
		return "9-40"
	}
	return ">40"
}

func splatCount(r *rand.Rand, tier string) int {
	u := r.Intn(40)
	switch {
	case u < 2:
		return 0
	case u < 6:
		return 1
	case tier == "thorough" && u == 6:
		return 100 + r.Intn(300)
	}
	return 2 + r.Intn(39)
}

type cloudDesc struct {
	posClass, scaleClass string
}

func genSplats(r *rand.Rand, n, caseIdx int) ([]splatref.Splat, cloudDesc) {
	d := cloudDesc{
		posClass:   []string{"f32", "f64", "large", "tiny", "mixed", "residue"}[r.Intn(6)],
		scaleClass: []string{"typical", "typical", "wide", "mixed"}[r.Intn(4)],
	}
	coord := func() float64 {
		cl := d.posClass
		if cl == "mixed" {
			cl = []string{"f32", "f64", "large", "tiny"}[r.Intn(4)]
		}
		switch cl {
		case "f32":
			return float64(float32(r.Float64()*20 - 10))
		case "large":
			return (r.Float64() - 0.5) * 4e5
		case "tiny":
			return (r.Float64() - 0.5) * 2e-3
		case "residue": // magnitudes far below any epsilon (round 8), see gen.Value
			return gen.Value(r, "residue")
		}
		return r.Float64()*20 - 10
	}
	scale := func() float64 {
		cl := d.scaleClass
		if cl == "mixed" {
			cl = []string{"typical", "wide", "zero"}[r.Intn(3)]
		}
		switch cl {
		case "wide":
			return r.Float64()*160 - 80
		case "zero":
			return 0
		}
		return r.Float64()*14 - 10
	}
	fdc := func() float64 {
		switch r.Intn(20) {
		case 0:
			return -0.5 / splatref.SHC0 // unit colour exactly 0
		case 1:
			return 0.5 / splatref.SHC0 // unit colour exactly 1
		case 2:
			return 0
		case 3:
			return (r.Float64() - 0.5) * 2e6
		case 4:
			// round 10 (C15-O): finite magnitudes beyond every integer type (1e8 ... 1e307): "colours clamp to the
			// displayable range" whatever the size; a float-to-int conversion before the clamp wraps around
			return math.Copysign((1+r.Float64())*math.Pow(10, float64(8+r.Intn(300))), float64(1-2*r.Intn(2)))
		}
		return r.Float64()*6 - 3
	}
	opacity := func() float64 {
		switch r.Intn(20) {
		case 0:
			return 0
		case 1:
			return []float64{12, -12, 30, -30, 40, -40}[r.Intn(6)]
		}
		return r.Float64()*16 - 8
	}
	out := make([]splatref.Splat, n)
	for i := range out {
		s := &out[i]
		for c := 0; c < 3; c++ {
			s.Pos[c], s.Scale[c], s.FDC[c] = coord(), scale(), fdc()
		}
		s.Opacity = opacity()
		switch u := r.Intn(20); {
		case i == 0:
			s.Rot = specialRots[caseIdx%len(specialRots)]
		case u < 3:
			s.Rot = specialRots[r.Intn(len(specialRots))]
		case u < 6: // not normalised, inside the quantiser's range
			for c := range s.Rot {
				s.Rot[c] = r.Float64()*2 - 1
			}
		default:
			var l float64
			for l < 1e-6 {
				l = 0
				for c := range s.Rot {
					s.Rot[c] = r.NormFloat64()
					l += s.Rot[c] * s.Rot[c]
				}
			}
			l = math.Sqrt(l)
			for c := range s.Rot {
				s.Rot[c] /= l
			}
		}
	}
	return out, d
}

func splatMesh(ss []splatref.Splat) modeling.Mesh {
	n := len(ss)
	pos, sc, fdc := make([]vector3.Float64, n), make([]vector3.Float64, n), make([]vector3.Float64, n)
	op := make([]float64, n)
	rot := make([]vector4.Float64, n)
	for i, s := range ss {
		pos[i] = vector3.New(s.Pos[0], s.Pos[1], s.Pos[2])
		sc[i] = vector3.New(s.Scale[0], s.Scale[1], s.Scale[2])
		fdc[i] = vector3.New(s.FDC[0], s.FDC[1], s.FDC[2])
		op[i] = s.Opacity
		rot[i] = vector4.New(s.Rot[0], s.Rot[1], s.Rot[2], s.Rot[3])
	}
	return modeling.NewPointCloud(
		map[string][]vector4.Float64{modeling.RotationAttribute: rot},
		map[string][]vector3.Float64{modeling.PositionAttribute: pos, modeling.ScaleAttribute: sc, modeling.FDCAttribute: fdc},
		nil, map[string][]float64{modeling.OpacityAttribute: op}, nil)
}

// meshSplats reads a decoded cloud back through the public accessors; "" or what is wrong
// with its shape (count, missing attribute, attribute length).
func meshSplats(m modeling.Mesh, n int) ([]splatref.Splat, string) {
	if m.PrimitiveCount() != n {
		return nil, fmt.Sprintf("%d splats returned, %d written", m.PrimitiveCount(), n)
	}
	if n == 0 {
		return nil, ""
	}
	if m.Topology() != modeling.PointTopology {
		return nil, fmt.Sprintf("topology %v", m.Topology())
	}
	for _, a := range []string{modeling.PositionAttribute, modeling.ScaleAttribute, modeling.FDCAttribute} {
		if !m.HasFloat3Attribute(a) {
			return nil, "attribute " + a + " missing"
		}
		if l := m.Float3Attribute(a).Len(); l != n {
			return nil, fmt.Sprintf("attribute %s has %d entries for %d splats", a, l, n)
		}
	}
	if !m.HasFloat1Attribute(modeling.OpacityAttribute) || m.Float1Attribute(modeling.OpacityAttribute).Len() != n {
		return nil, "attribute Opacity missing or of the wrong length"
	}
	if !m.HasFloat4Attribute(modeling.RotationAttribute) || m.Float4Attribute(modeling.RotationAttribute).Len() != n {
		return nil, "attribute Rotation missing or of the wrong length"
	}
	idx := m.Indices()
	out := make([]splatref.Splat, n)
	for k := 0; k < n; k++ {
		i := idx.At(k)
		if i < 0 || i >= n {
			return nil, fmt.Sprintf("index[%d]=%d out of range", k, i)
		}
		p, s, c := m.Float3Attribute(modeling.PositionAttribute).At(i), m.Float3Attribute(modeling.ScaleAttribute).At(i), m.Float3Attribute(modeling.FDCAttribute).At(i)
		q := m.Float4Attribute(modeling.RotationAttribute).At(i)
		out[k] = splatref.Splat{Pos: [3]float64{p.X(), p.Y(), p.Z()}, Scale: [3]float64{s.X(), s.Y(), s.Z()}, FDC: [3]float64{c.X(), c.Y(), c.Z()},
			Opacity: m.Float1Attribute(modeling.OpacityAttribute).At(i), Rot: [4]float64{q.X(), q.Y(), q.Z(), q.W()}}
	}
	return out, ""
}

const (
	step8   = 1.0/255 + 1e-9
	stepRot = 1.0/128 + 1e-9
)

// within reports |a-b| <= tol and is false for NaN.
func within(a, b, tol float64) bool { return math.Abs(a-b) <= tol }

// compareSplat applies the property's tolerances; returns the failing field and a message.
func compareSplat(orig, got splatref.Splat) (field, msg string) {
	for c := 0; c < 3; c++ {
		if want := float64(float32(orig.Pos[c])); !sameBits(got.Pos[c], want) {
			return "position", fmt.Sprintf("position[%d] = %v, float32(%v) = %v", c, got.Pos[c], orig.Pos[c], want)
		}
	}
	for c := 0; c < 3; c++ {
		want := math.Log(float64(float32(math.Exp(orig.Scale[c]))))
		if !within(got.Scale[c], want, 1e-6*math.Max(1, math.Abs(want))) {
			return "scale", fmt.Sprintf("scale[%d] = %v, original %v, log(float32(exp(s))) = %v", c, got.Scale[c], orig.Scale[c], want)
		}
	}
	for c := 0; c < 3; c++ {
		u, w := 0.5+splatref.SHC0*got.FDC[c], splatref.ColorUnit(orig.FDC[c])
		if !within(u, w, step8) {
			return "colour", fmt.Sprintf("colour[%d]: FDC %v → displayable %.6f; original FDC %v → displayable (clamped) %.6f; |Δ| = %.6f > 1/255", c, got.FDC[c], u, orig.FDC[c], w, math.Abs(u-w))
		}
	}
	if a, b := splatref.Sigmoid(got.Opacity), splatref.Sigmoid(orig.Opacity); !within(a, b, step8) {
		return "opacity", fmt.Sprintf("opacity %v → alpha %.6f; original %v → alpha %.6f; |Δ| = %.6f > 1/255", got.Opacity, a, orig.Opacity, b, math.Abs(a-b))
	}
	for c := 0; c < 4; c++ {
		if !within(got.Rot[c], orig.Rot[c], stepRot) {
			return "rotation", fmt.Sprintf("rotation[%d] = %v, original %v; |Δ| = %.6f > 1/128 (whole quaternion %v, original %v)", c, got.Rot[c], orig.Rot[c], math.Abs(got.Rot[c]-orig.Rot[c]), got.Rot, orig.Rot)
		}
	}
	return "", ""
}

func splatRoundTrip(c *run.Ctx) (res run.Result) {
	r := c.Rng
	n := splatCount(r, c.Tier)
	ss, d := genSplats(r, n, c.Case)
	res.Sig = fmt.Sprintf("n%s/pos:%s/scale:%s/rot0:%d", nBucket(n), d.posClass, d.scaleClass, c.Case%len(specialRots))
	res.Nontrivial = n >= 1
	res.SetAdd("splat/counts", nBucket(n))
	if n > 0 {
		res.SetAdd("splat/special_rotations", fmt.Sprint(ss[0].Rot))
	}
	for _, s := range ss {
		for k := 0; k < 3; k++ {
			if u := 0.5 + splatref.SHC0*s.FDC[k]; u <= 0 {
				res.Count("splat/colour_clamped_low", 1)
			} else if u >= 1 {
				res.Count("splat/colour_clamped_high", 1)
			}
		}
		for k := 0; k < 4; k++ {
			if s.Rot[k] == 1 {
				res.Count("splat/rotation_component_exactly_+1", 1)
			} else if s.Rot[k] == -1 {
				res.Count("splat/rotation_component_exactly_-1", 1)
			}
		}
	}
	data := checkSplatCloud(c, &res, ss, "")

	if c.Case < 2 {
		smp := map[string]any{"splats": n, "pos_class": d.posClass, "scale_class": d.scaleClass, "file_bytes": len(data)}
		if n > 0 {
			smp["splat_0"] = ss[0]
		}
		res.Sample = smp
	}
	return
}

// checkSplatCloud applies the whole .splat oracle to one cloud: polyform writes it, reads it
// back (the round trip of the property), the written bytes are dequantised by the reference
// decoder, and the reference encoding of the cloud is read by polyform. ctx is appended to
// the violation sites (e.g. " after an injected I/O fault"). Returns the bytes polyform wrote.
func checkSplatCloud(c *run.Ctx, res *run.Result, ss []splatref.Splat, ctx string) []byte {
	n := len(ss)
	witness := func(i int, orig, got splatref.Splat) any {
		return map[string]any{"splats": n, "index": i, "original": orig, "decoded": fmt.Sprintf("%+v", got)}
	}
	compareAll := func(site string, got []splatref.Splat) {
		for i := range ss {
			if f, msg := compareSplat(ss[i], got[i]); f != "" {
				res.Violate("splat-"+f, site, fmt.Sprintf("cloud of %d splats", n), fmt.Sprintf("splat %d of %d: %s", i, n, msg), witness(i, ss[i], got[i]))
				break
			}
		}
		res.Count("splat/splats_compared", int64(len(ss)))
	}

	mesh := splatMesh(ss)

	// 1. polyform writes
	buf := &bytes.Buffer{}
	var werr error
	c.Note(fmt.Sprintf("splat.Write of %d splats", n))
	if p := run.Try(func() { werr = splat.Write(buf, mesh) }); p != nil {
		res.Violate("panic", "splat.Write"+ctx, fmt.Sprintf("cloud of %d splats", n), p.Value+"\n"+p.Stack, nil)
		return nil
	}
	if werr != nil {
		res.Violate("splat-write-error", "splat.Write"+ctx, fmt.Sprintf("cloud of %d splats", n), "valid splat cloud rejected: "+werr.Error(), nil)
		return nil
	}
	data := buf.Bytes()

	// 2. polyform reads what it wrote — the round trip of the property statement
	readBack := func(site string, data []byte) {
		c.SaveInput(data)
		var back modeling.Mesh
		var rerr error
		rd, kind, release := openKind(c, res, "splat.Read", site, data)
		p := run.Try(func() { back, rerr = splat.Read(rd) })
		release()
		input := fmt.Sprintf("cloud of %d splats, file read through %s", n, kind)
		if p != nil {
			res.Violate("panic", site, input, p.Value+"\n"+p.Stack, nil)
			return
		}
		if rerr != nil {
			res.Violate("splat-read-error", site, input, fmt.Sprintf("file of %d complete records read through %s rejected: %v", len(data)/32, kind, rerr), nil)
			return
		}
		got, shape := meshSplats(back, n)
		if shape != "" {
			res.Violate("splat-count", site, input, shape+" (file read through "+kind+")", nil)
			return
		}
		compareAll(site, got)
	}
	readBack("splat.Write→splat.Read"+ctx, data)

	if len(data) != 32*n {
		res.Violate("splat-file-size", "splat.Write (bytes vs published layout)"+ctx, fmt.Sprintf("cloud of %d splats", n),
			fmt.Sprintf("%d bytes written for %d splats; the format has 32-byte records (%d bytes)", len(data), n, 32*n), nil)
	} else {
		// 3. the bytes polyform wrote, dequantised by the reference decoder
		got := make([]splatref.Splat, n)
		for i := range got {
			got[i] = splatref.DecodeSplat(data[i*32 : i*32+32])
		}
		compareAll("splat.Write (bytes vs published layout)"+ctx, got)
		res.Count("splat/bytes_written", int64(len(data)))
	}

	// 4. polyform reads the reference encoding of the same cloud
	readBack("splat.Read (reference-encoded file)"+ctx, splatref.EncodeSplats(ss))
	return data
}
