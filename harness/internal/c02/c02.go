// Package c02 monitors property C02: well-formedness is closed under geometry
// generation and mesh operations. Oracle = ref.WF (one common attribute length,
// every index in range, index count fitting the topology) evaluated through the
// public accessors on every mesh a generator or an operation returns; a Go
// runtime.Error escaping a generator / operation is a violation, an error value
// or a deliberate panic(error|string) is a reported failure.
package c02

import (
	"fmt"
	"io"
	"log"
	"math/rand"
	"strings"

	"github.com/EliCDavis/polyform/modeling"
	"github.com/EliCDavis/vector/vector3"
	"polyverif/internal/c01/ops"
	"polyverif/internal/gen"
	"polyverif/internal/ref"
	"polyverif/internal/run"
)

func init() {
	// triangulation.fillHole / ConstrainedBowyerWatson / extrude.PathPoints2 log to
	// the standard logger; the worker's stderr is not an observation channel.
	log.SetOutput(io.Discard)
}

func Spec() *run.Spec {
	return &run.Spec{
		ID: "C02", Level: "exploration",
		Rule: "Since rounds 8-9: extrude.Polygon with UVs on arbitrary subsets of the path points (random subset, prefix, all but one) and the value class `dyadic` (multiples of 1/16: exact half rounding steps of both signs). " +
			"generators: one case = one parameterisation of one generator family (small parameter grids enumerated, the rest sampled); " +
			"non-trivial = the generator accepted the parameters and returned ≥1 primitive; distinct by family+parameter bucket. " +
			"chains: one case = a gen.Mesh input (every topology, empty included) and 1–6 operations from the shared table, checked after each step; " +
			"non-trivial = input has non-identity indices or unreferenced vertices or ≥2 attribute arities AND ≥2 operations returned a mesh; " +
			"distinct by input descriptor + operation names. edge-inputs: one case = (operation, topology, edge class of receiver) enumerated exhaustively over the table × 6 topologies × 8 classes " +
			"(empty, vertices without indices, single primitive, no Position, uncovered material ranges, one arity only, zero-length attributes, ordinary), arguments drawn hostile (missing attribute names, bad pool sizes); non-trivial = the operation ran to a verdict (returned or reported failure). point-filters: one case = a point cloud of a given index pattern through 1–3 filter/crop operations. " +
			"confusable: one case = a sequence of ≤ 9 calls of ONE generator family in one process whose parameter tuples a lossy memo key would confuse (decimal-concatenation collisions, swapped integers, equal sum / product / XOR, equal low 8 bits, equal integers with other floats, floats printing alike, -0/+0; larger tuple first in the first pair, smaller first in the second), full oracle on each result and all earlier results of the sequence re-checked (well-formed and unchanged); enumerated family × kind. " +
			"large: one case = a point or triangle receiver with 32767 … 150000 vertices (block/batch sizes 4096·k, 16384, 32768, 65536 ± 1; the last vertices are referenced) or the result of a generator driven at such counts, " +
			"through every deriving operation of the table once (not chained), WF + accessor sweep on every result.",
		Assumptions: []string{
			"well-formed = ref.WF: all attribute arrays of all arities share one length L, every index in [0,L), index count a multiple of 3 (triangles) / 4 (quads)",
			"arguments supplied by the harness are admissible: attribute data of the common length, index lists in range, copy sources with the same vertex count; attributes are only deleted when another attribute still carries the vertices",
			"every mesh a case obtains (inputs and all results) is kept and re-checked (WF + accessor sweep) after every later call of the case: a result has to stay well-formed, not only be well-formed on return",
			"a panic whose value is a Go runtime.Error is a violation; error values and panic(error|string) are reported failures",
			"ClearAttributeData is a building block (its bare result keeps indices without vertices by definition): it is checked completed by SetFloat3Attribute; its bare result is only counted",
			"SplitOnUniqueMaterials receives material ranges that may or may not cover the primitives (Append of a material-less mesh, face removal) but never a nil *Material",
			"attribute filters / crop are driven on point topology (their domain); on other topologies they are only applied in the 10 % 'any operation' draw and must then still not die with a runtime error",
			"generator parameter domain: counts (sides, rows, columns, resolution) ≥ the geometric minimum or values the constructor rejects explicitly; see Families for the exact ranges",
		},
		MinNontrivial: map[string]int{"quick": 3000, "thorough": 30000},
		MinObserved: map[string]int64{
			"ops_returning_mesh":                              50,
			"generator_families":                              20,
			"chain_results_wf":                                10000,
			"edge_combinations":                               6000,
			"generator_results_wf":                            3000,
			"confusable_sequences":                            400,
			"confusable_families":                             18,
			"confusable_pairs/decimal-concatenation":          60,
			"confusable_pairs/swapped":                        60,
			"confusable_pairs/equal-sum":                      60,
			"confusable_pairs/equal-product":                  60,
			"confusable_pairs/equal-xor":                      60,
			"confusable_pairs/equal-low-8-bits":               60,
			"confusable_pairs/same-integers-different-floats": 60,
			"confusable_pairs/floats-printing-alike":          60,
			"confusable_pairs/negative-zero":                  60,
			"large_cases":                                     12,
			"large_receivers_above_65535_vertices":            5,
			"large_ops_returning_mesh":                        40,
		},
		Phases: []run.Phase{
			{Name: "generators", Cases: func(t string) int {
				if t == "thorough" {
					return 100000
				}
				return 5000
			}, Run: generators, Batch: 100, CPUBudgetS: 30},
			{Name: "marching", Cases: func(t string) int {
				if t == "thorough" {
					return 1500
				}
				return 80
			}, Run: marchingCase, Batch: 4, CPUBudgetS: 120},
			{Name: "chains", Cases: func(t string) int {
				if t == "thorough" {
					return 120000
				}
				return 6000
			}, Run: chains, Batch: 100, CPUBudgetS: 30},
			{Name: "edge-inputs", Cases: func(t string) int {
				n := len(deriving) * len(edgeClasses) * len(allTopos)
				if t == "thorough" {
					return 40 * n
				}
				return 3 * n
			}, Run: edgeInputs, Batch: 150, CPUBudgetS: 30},
			{Name: "point-filters", Cases: func(t string) int {
				if t == "thorough" {
					return 24000
				}
				return 1200
			}, Run: pointFilters, Batch: 100, CPUBudgetS: 30},
			{Name: "confusable", Cases: func(t string) int {
				n := len(cfFamilies) * len(cfKinds)
				if t == "thorough" {
					return 60 * n
				}
				return 3 * n
			}, Run: confusableCase, Batch: 60, CPUBudgetS: 60},
			{Name: "large", Cases: func(t string) int {
				if t == "thorough" {
					return 152
				}
				return 16
			}, Run: largeCase, Batch: 1, CPUBudgetS: 300},
		},
	}
}

var table = ops.All()

var allTopos = []modeling.Topology{modeling.TriangleTopology, modeling.PointTopology, modeling.QuadTopology,
	modeling.LineTopology, modeling.LineStripTopology, modeling.LineLoopTopology}

func drawTopology(r *rand.Rand) modeling.Topology {
	switch x := r.Intn(20); {
	case x < 8:
		return modeling.TriangleTopology
	case x < 14:
		return modeling.PointTopology
	default:
		return allTopos[2+r.Intn(4)]
	}
}

func arities(m modeling.Mesh) int {
	n := 0
	for _, l := range [][]string{m.Float1Attributes(), m.Float2Attributes(), m.Float3Attributes(), m.Float4Attributes()} {
		if len(l) > 0 {
			n++
		}
	}
	return n
}

// meshWitness renders a mesh small enough for a replay file.
func meshWitness(m modeling.Mesh) map[string]any {
	w := map[string]any{"topology": m.Topology().String()}
	idx := m.Indices()
	n := idx.Len()
	lim := n
	if lim > 120 {
		lim = 120
	}
	is := make([]int, lim)
	for i := range is {
		is[i] = idx.At(i)
	}
	w["indices"] = is
	w["index_count"] = n
	at := map[string]int{}
	for _, a := range m.Float1Attributes() {
		at["1:"+a] = m.Float1Attribute(a).Len()
	}
	for _, a := range m.Float2Attributes() {
		at["2:"+a] = m.Float2Attribute(a).Len()
	}
	for _, a := range m.Float3Attributes() {
		at["3:"+a] = m.Float3Attribute(a).Len()
	}
	for _, a := range m.Float4Attributes() {
		at["4:"+a] = m.Float4Attribute(a).Len()
	}
	w["attribute_lengths"] = at
	var mats []int
	for _, mm := range m.Materials() {
		mats = append(mats, mm.PrimitiveCount)
	}
	w["material_ranges"] = mats
	if L, _ := ops.AttrInfo(m); L <= 16 && m.HasFloat3Attribute(modeling.PositionAttribute) {
		var ps [][]float64
		p := m.Float3Attribute(modeling.PositionAttribute)
		for i := 0; i < p.Len(); i++ {
			ps = append(ps, p.At(i).ToArr())
		}
		w["positions"] = ps
	}
	return w
}

// accessorSweep reads a returned, well-formed mesh the way consumers do (primitive
// accessors per corner). A runtime error here means the mesh "reads out of range"
// although ref.WF accepted it.
func accessorSweep(m modeling.Mesh) *run.PanicInfo {
	return run.Try(func() {
		_ = m.AttributeLength()
		n := m.Indices().Len()
		switch m.Topology() {
		case modeling.TriangleTopology:
			_ = m.PrimitiveCount()
			for _, a := range m.Float3Attributes() {
				for i := 0; i < n/3; i++ {
					t := m.Tri(i)
					_, _, _ = t.P1Vec3Attr(a), t.P2Vec3Attr(a), t.P3Vec3Attr(a)
				}
			}
			for _, a := range m.Float2Attributes() {
				for i := 0; i < n/3; i++ {
					t := m.Tri(i)
					_, _, _ = t.P1Vec2Attr(a), t.P2Vec2Attr(a), t.P3Vec2Attr(a)
				}
			}
		case modeling.PointTopology:
			// point primitives go through the index list: a cloud with repeated or permuted
			// indices must be readable primitive by primitive and indexable by the octree
			_ = m.PrimitiveCount()
			v3 := m.Float3Attributes()
			if n > 20000 && m.HasFloat3Attribute(modeling.PositionAttribute) {
				v3 = []string{modeling.PositionAttribute} // large clouds: one attribute, every primitive
			}
			for _, a := range v3 {
				m.ScanPrimitives(func(i int, p modeling.Primitive) {
					_ = p.BoundingBox(a)
					_ = p.Scope(a).BoundingBox()
				})
			}
			if n > 0 && n <= 20000 && m.HasFloat3Attribute(modeling.PositionAttribute) {
				_ = m.OctTreeDepth(2)
			}
		default:
			_ = m.PrimitiveCount()
		}
	})
}

type stepRec struct {
	Op   string `json:"op"`
	Desc string `json:"desc"`
	Out  string `json:"out"`
}

// applyChain drives nOps operations chosen by choose on cur; shared by the chains and point-filters phases.
func applyChain(c *run.Ctx, res *run.Result, r *rand.Rand, cur modeling.Mesh, inputDesc string, inputW map[string]any, nOps int, valid bool, choose func(cur modeling.Mesh) ops.Op) (okOps int, names []string) {
	env := &ops.Env{Valid: valid, Other: func(r *rand.Rand, like modeling.Mesh) modeling.Mesh {
		t := like.Topology()
		if r.Intn(12) == 0 {
			t = allTopos[r.Intn(len(allTopos))]
		}
		o, _ := gen.Mesh(r, gen.MeshOpts{Topologies: []modeling.Topology{t}, AllowEmpty: true, Materials: true, MaxVerts: 24})
		return o
	}}
	okOps, names, _ = applyChainEnv(c, res, r, cur, inputDesc, inputW, nOps, env, choose, nil)
	return
}

// keeper holds every mesh a case has obtained so far. After every later call all of them are
// checked again: a result must stay well-formed for as long as the caller keeps it, not only
// at the moment it is returned (results that alias pooled or shared scratch storage only go
// bad when a LATER call reuses that storage).
type keeper struct {
	kept   []keptRes
	wfOnly bool                     // large meshes: skip the accessor sweep on re-checks
	only   func(opName string) bool // nil = keep every result
}

type keptRes struct {
	m      modeling.Mesh
	origin string
}

func (k *keeper) add(m modeling.Mesh, origin, opName string) {
	if k.only == nil || opName == "" || k.only(opName) {
		k.kept = append(k.kept, keptRes{m, origin})
	}
}

// recheck returns false after reporting a violation.
func (k *keeper) recheck(res *run.Result, opName, desc string, witness func() map[string]any) bool {
	for i, kr := range k.kept {
		res.Count("kept_results_rechecked", 1)
		var e error
		p := run.Try(func() { e = ref.WF(kr.m) })
		msg := ""
		switch {
		case p != nil:
			msg = "re-reading it panics: " + p.Value
		case e != nil:
			msg = e.Error()
		case !k.wfOnly:
			if ap := accessorSweep(kr.m); ap != nil {
				msg = "reading it through the primitive accessors panics: " + ap.Value
			}
		}
		if msg != "" {
			w := witness()
			w["earlier_result"] = meshWitness(kr.m)
			w["earlier_result_origin"] = kr.origin
			res.Violate("earlier-result-no-longer-well-formed", opName, "mesh kept alive across later calls",
				fmt.Sprintf("after %s, mesh #%d of this case (%s), which was well-formed when it was obtained, is not any more: %s", desc, i, kr.origin, msg), w)
			return false
		}
	}
	return true
}

func applyChainEnv(c *run.Ctx, res *run.Result, r *rand.Rand, cur modeling.Mesh, inputDesc string, inputW map[string]any, nOps int, env *ops.Env, choose func(cur modeling.Mesh) ops.Op, keep *keeper) (okOps int, names []string, last modeling.Mesh) {
	if keep == nil {
		keep = &keeper{}
		keep.add(cur, "the input", "")
	}
	defer func() { last = cur }()
	var steps []stepRec
	witness := func() map[string]any {
		return map[string]any{"input": inputW, "input_desc": inputDesc, "steps": steps}
	}
	for s := 0; s < nOps; s++ {
		op := choose(cur)
		call := op.Make(r, &cur, env)
		names = append(names, op.Name)
		c.Note(op.Name + " " + call.Desc)
		before := cur
		var outs []modeling.Mesh
		var err error
		p := run.Try(func() { outs, err = call.Run() })
		st := stepRec{Op: op.Name, Desc: call.Desc}
		if p == nil || !p.Runtime {
			if !keep.recheck(res, op.Name, call.Desc, func() map[string]any {
				w := witness()
				w["steps"] = append(append([]stepRec{}, steps...), st)
				return w
			}) {
				return
			}
		}
		if p != nil {
			st.Out = "panic: " + p.Value
			steps = append(steps, st)
			if p.Runtime {
				w := witness()
				w["receiver"] = meshWitness(before)
				w["stack_site"] = p.Site
				res.Violate("runtime-panic", op.Name, inputClass(before),
					fmt.Sprintf("%s on a well-formed %s mesh died with a Go runtime error instead of returning a mesh or reporting failure: %s (innermost polyform frame %s)", call.Desc, before.Topology(), p.Value, p.Site), w)
				return
			}
			res.Count("reported_failure_panic", 1)
			res.SetAdd("ops_reporting_failure", op.Name)
			if call.Pre {
				res.Count("reported_failure_although_precondition_met", 1)
				res.SetAdd("doubtful:failure_with_precondition_met", op.Name)
			}
			continue
		}
		if err != nil {
			st.Out = "error: " + err.Error()
			steps = append(steps, st)
			res.Count("reported_failure_error", 1)
			res.SetAdd("ops_reporting_failure", op.Name)
			if call.Pre {
				res.Count("reported_failure_although_precondition_met", 1)
				res.SetAdd("doubtful:failure_with_precondition_met", op.Name)
			}
			continue
		}
		st.Out = fmt.Sprintf("%d mesh(es)", len(outs))
		steps = append(steps, st)
		if !call.Pre {
			res.Count("returned_mesh_although_precondition_unmet", 1)
		}
		good := outs[:0:0]
		for k, o := range outs {
			if e := ref.WF(o); e != nil {
				if call.Intermediate {
					res.Count("intermediate_result_not_wf(ClearAttributeData keeps indices)", 1)
					continue
				}
				w := witness()
				w["receiver"] = meshWitness(before)
				w["result"] = meshWitness(o)
				res.Violate("ill-formed-result", op.Name, inputClass(before),
					fmt.Sprintf("%s on a well-formed %s mesh returned mesh #%d that is not well-formed: %v", call.Desc, before.Topology(), k, e), w)
				return
			}
			res.Count("chain_results_wf", 1)
			if ap := accessorSweep(o); ap != nil {
				w := witness()
				w["result"] = meshWitness(o)
				res.Violate("accessor-runtime-panic", op.Name, inputClass(before),
					fmt.Sprintf("result of %s passes ref.WF but reading it through the primitive accessors panics: %s", call.Desc, ap.Value), w)
				return
			}
			good = append(good, o)
			keep.add(o, fmt.Sprintf("result %d of step %d: %s %s", k, len(steps), op.Name, call.Desc), op.Name)
		}
		if op.Kind != ops.Observe {
			okOps++
			res.SetAdd("ops_returning_mesh", op.Name)
			res.Count("ops_returning_mesh_total", 1)
		}
		if len(good) > 0 {
			cur = good[r.Intn(len(good))]
		}
	}
	return
}

func inputClass(m modeling.Mesh) string {
	L, _ := ops.AttrInfo(m)
	return fmt.Sprintf("%s mesh, %s", m.Topology(), indexClass(m, L))
}

func indexClass(m modeling.Mesh, L int) string {
	idx := m.Indices()
	if idx.Len() == 0 {
		if L == 0 {
			return "empty"
		}
		return "vertices without indices"
	}
	ident := idx.Len() == L
	used := make([]bool, L)
	for i := 0; i < idx.Len(); i++ {
		v := idx.At(i)
		if v != i {
			ident = false
		}
		if v >= 0 && v < L {
			used[v] = true
		}
	}
	if ident {
		return "identity indices"
	}
	for _, u := range used {
		if !u {
			return "non-identity indices with unreferenced vertices"
		}
	}
	return "non-identity indices"
}

func opsFor(kindOK func(ops.Op) bool) []ops.Op {
	var out []ops.Op
	for _, o := range table {
		if kindOK(o) {
			out = append(out, o)
		}
	}
	return out
}

// the non-finite value class belongs to C01 (C02 states nothing about values)
var deriving = opsFor(func(o ops.Op) bool { return o.Kind == ops.Derive && o.Group != "special" })

func chains(c *run.Ctx) run.Result {
	var res run.Result
	r := c.Rng
	topo := drawTopology(r)
	maxV := 40
	if c.Tier == "thorough" && r.Intn(10) == 0 {
		maxV = 300
	}
	m, d := gen.Mesh(r, gen.MeshOpts{Topologies: []modeling.Topology{topo}, AllowEmpty: true, Materials: true, MaxVerts: maxV, NoPositionOK: true})
	if e := ref.WF(m); e != nil {
		res.Inconclusive = "reason: gen.Mesh produced an ill-formed input: " + e.Error()
		return res
	}
	nOps := 1 + r.Intn(6)
	choose := func(cur modeling.Mesh) ops.Op {
		for {
			o := deriving[r.Intn(len(deriving))]
			if o.Topo == nil || o.Topo(cur.Topology()) || (!o.StrictTopo && r.Intn(10) == 0) {
				return o
			}
		}
	}
	okOps, names := applyChain(c, &res, r, m, d.Sig(), meshWitness(m), nOps, false, choose)
	res.SetAdd("topologies", d.Topology)
	res.SetAdd("index_patterns", d.IndexPattern)
	res.Count("chains", 1)
	res.Count("chain_ops_drawn", int64(len(names)))
	res.Nontrivial = (!d.Identity || d.Unreferenced || arities(m) >= 2) && okOps >= 2
	res.Sig = d.Sig() + "|" + strings.Join(names, ">")
	res.Sample = map[string]any{"input": d.Sig(), "ops": names}
	return res
}

var filterOps = opsFor(func(o ops.Op) bool {
	return strings.HasPrefix(o.Name, "meshops.FilterFloat") || o.Name == "meshops.CropFloat3Attribute" || o.Name == "gausops.FilterNode"
})

var pointPatterns = []string{"identity", "random", "permutation", "welded", "unreferenced", "repeated"}

// pointFilters: the attribute filters and crop on point clouds with every index
// pattern and all four attribute arities present.
func pointFilters(c *run.Ctx) run.Result {
	var res run.Result
	r := c.Rng
	pat := pointPatterns[c.Case%len(pointPatterns)]
	// two clouds of different size, filtered alternately: storage that a filter keeps for reuse
	// (scratch lists, pools) is rewritten by the call on the OTHER cloud, and every result of both
	// lineages stays alive and is re-checked after every call
	a, d := filterInput(r, pat, 1, 30)
	b, db := filterInput(r, pointPatterns[r.Intn(len(pointPatterns))], 12, 90)
	for _, m := range []modeling.Mesh{a, b} {
		if e := ref.WF(m); e != nil {
			res.Inconclusive = "reason: input construction ill-formed: " + e.Error()
			return res
		}
	}
	choose := func(cur modeling.Mesh) ops.Op { return filterOps[r.Intn(len(filterOps))] }
	env := &ops.Env{Valid: r.Intn(8) != 0, Other: func(r *rand.Rand, like modeling.Mesh) modeling.Mesh { return like }}
	keep := &keeper{}
	keep.add(a, "input A "+d.Sig(), "")
	keep.add(b, "input B "+db.Sig(), "")
	cur := [2]modeling.Mesh{a, b}
	w := meshWitness(a)
	w["second_input"] = meshWitness(b)
	okOps, names := 0, []string{}
	for s, n := 0, 2+r.Intn(5); s < n && len(res.Violations) == 0; s++ {
		l := r.Intn(2)
		ok, nm, last := applyChainEnv(c, &res, r, cur[l], d.Sig()+" / "+db.Sig(), w, 1, env, choose, keep)
		okOps += ok
		for _, x := range nm {
			names = append(names, fmt.Sprintf("%c:%s", 'A'+l, x))
		}
		// a filter that removed everything leaves nothing to filter: restart that lineage from its input
		if lv, _ := ops.AttrInfo(last); lv == 0 {
			last = [2]modeling.Mesh{a, b}[l]
		}
		cur[l] = last
	}
	res.SetAdd("filter_index_patterns", pat)
	res.Count("filter_cases", 1)
	res.Nontrivial = !d.Identity && okOps >= 2
	res.Sig = "filters|" + d.Sig() + "|" + strings.Join(names, ">")
	res.Sample = map[string]any{"input": d.Sig(), "second_input": db.Sig(), "ops": names}
	return res
}

// filterInput: a point cloud of the given index pattern carrying every attribute the filters look at.
func filterInput(r *rand.Rand, pat string, minV, maxV int) (modeling.Mesh, gen.MeshDesc) {
	m, d := gen.Mesh(r, gen.MeshOpts{Topologies: []modeling.Topology{modeling.PointTopology}, IndexPatterns: []string{pat}, MaxVerts: maxV, MinVerts: minV,
		V1Names: []string{"userV1", modeling.OpacityAttribute}, V3Names: []string{modeling.NormalAttribute, modeling.ScaleAttribute, "userV3"}})
	L, _ := ops.AttrInfo(m)
	// make sure every arity is present so that each filter finds its attribute
	need1, need2, need4 := len(m.Float1Attributes()) == 0, len(m.Float2Attributes()) == 0, len(m.Float4Attributes()) == 0
	if !m.HasFloat1Attribute(modeling.OpacityAttribute) && r.Intn(4) != 0 {
		a := make([]float64, L)
		for i := range a {
			a[i] = r.Float64()*4 - 2
		}
		m = m.SetFloat1Attribute(modeling.OpacityAttribute, a)
		need1 = false
	}
	if !m.HasFloat3Attribute(modeling.ScaleAttribute) && r.Intn(4) != 0 {
		a := make([]vector3.Float64, L)
		for i := range a {
			a[i] = vector3.New(r.Float64()*2-1, r.Float64()*2-1, r.Float64()*2-1)
		}
		m = m.SetFloat3Attribute(modeling.ScaleAttribute, a)
	}
	if need1 {
		a := make([]float64, L)
		for i := range a {
			a[i] = r.Float64()*4 - 2
		}
		m = m.SetFloat1Attribute("userV1", a)
	}
	if need2 {
		m = m.CopyFloat2Attribute(m.SetFloat2Attribute("userV2", gen2(r, L)), "userV2")
	}
	if need4 {
		m = m.CopyFloat4Attribute(m.SetFloat4Attribute("userV4", gen4(r, L)), "userV4")
	}
	return m, d
}

var edgeClasses = []string{"empty", "vertices-without-indices", "single-primitive", "no-position", "uncovered-materials", "one-arity-only", "zero-length-attributes", "ordinary"}

// edgeReceiver builds a well-formed receiver of the given topology and edge class.
func edgeReceiver(r *rand.Rand, topo modeling.Topology, class string) modeling.Mesh {
	isz := topo.IndexSize()
	pos := func(n int) []vector3.Float64 {
		a := make([]vector3.Float64, n)
		for i := range a {
			a[i] = vector3.New(float64(i), float64(i*i%5), r.Float64())
		}
		return a
	}
	switch class {
	case "empty":
		if r.Intn(2) == 0 {
			return modeling.EmptyMesh(topo)
		}
		return modeling.NewMesh(topo, nil)
	case "vertices-without-indices":
		n := 1 + r.Intn(5)
		m := modeling.NewMesh(topo, []int{}).SetFloat3Attribute(modeling.PositionAttribute, pos(n)).SetFloat3Attribute("userV3", pos(n))
		if r.Intn(2) == 0 {
			m = m.SetFloat1Attribute("userV1", make([]float64, n)).SetFloat4Attribute("userV4", gen4(r, n)).SetFloat2Attribute(modeling.TexCoordAttribute, gen2(r, n))
		}
		return m
	case "single-primitive":
		idx := make([]int, isz)
		for i := range idx {
			idx[i] = i
		}
		return modeling.NewMesh(topo, idx).SetFloat3Attribute(modeling.PositionAttribute, pos(isz)).SetFloat3Attribute(modeling.NormalAttribute, pos(isz)).
			SetFloat2Attribute(modeling.TexCoordAttribute, gen2(r, isz)).SetFloat1Attribute(modeling.OpacityAttribute, make([]float64, isz)).SetFloat4Attribute("userV4", gen4(r, isz)).
			SetFloat3Attribute(modeling.ScaleAttribute, pos(isz))
	case "no-position":
		m, _ := gen.Mesh(r, gen.MeshOpts{Topologies: []modeling.Topology{topo}, MaxVerts: 10, MinVerts: 2, V3Names: []string{"userV3", modeling.ColorAttribute}, NoPositionOK: true})
		if m.HasFloat3Attribute(modeling.PositionAttribute) {
			// move the positions under another name
			L := m.Float3Attribute(modeling.PositionAttribute).Len()
			m = m.SetFloat3Attribute("userV3", pos(L)).SetFloat3Attribute(modeling.PositionAttribute, nil)
		}
		return m
	case "uncovered-materials":
		a, _ := gen.Mesh(r, gen.MeshOpts{Topologies: []modeling.Topology{topo}, MaxVerts: 9, MinVerts: 3, MinPrims: 1})
		b, _ := gen.Mesh(r, gen.MeshOpts{Topologies: []modeling.Topology{topo}, MaxVerts: 9, MinVerts: 3, MinPrims: 2})
		k := b.Indices().Len() / isz
		mats := gen.MaterialPool(r, 3)
		b = b.SetMaterials([]modeling.MeshMaterial{{PrimitiveCount: k / 2, Material: mats[0]}, {PrimitiveCount: 0, Material: mats[1]}, {PrimitiveCount: k - k/2, Material: mats[2]}})
		if r.Intn(2) == 0 {
			return a.Append(b) // ranges cover only b's primitives, at the wrong offset
		}
		return b.Append(a) // ranges stop before a's primitives
	case "one-arity-only":
		n := isz + r.Intn(4)
		idx := make([]int, isz*2)
		for i := range idx {
			idx[i] = r.Intn(n)
		}
		m := modeling.NewMesh(topo, idx)
		switch r.Intn(3) {
		case 0:
			return m.SetFloat1Attribute("userV1", make([]float64, n))
		case 1:
			return m.SetFloat2Attribute(modeling.TexCoordAttribute, gen2(r, n))
		}
		return m.SetFloat4Attribute("userV4", gen4(r, n))
	case "zero-length-attributes":
		// attribute names that exist with no vertices (what Unweld / extrude.Shape return for nothing)
		return modeling.NewMesh(topo, []int{}).
			SetFloat3Data(map[string][]vector3.Float64{modeling.PositionAttribute: {}, modeling.NormalAttribute: {}}).
			SetFloat1Data(map[string][]float64{modeling.OpacityAttribute: {}})
	}
	m, _ := gen.Mesh(r, gen.MeshOpts{Topologies: []modeling.Topology{topo}, MaxVerts: 12, MinVerts: 1, Materials: true})
	return m
}

// edgeInputs enumerates operation × topology × edge class.
func edgeInputs(c *run.Ctx) run.Result {
	var res run.Result
	r := c.Rng
	nOps, nCl := len(deriving), len(edgeClasses)
	op := deriving[c.Case%nOps]
	class := edgeClasses[(c.Case/nOps)%nCl]
	topo := allTopos[(c.Case/(nOps*nCl))%len(allTopos)]
	res.Sig = fmt.Sprintf("edge|%s|%s|%s", op.Name, topo, class)
	res.Sample = map[string]any{"op": op.Name, "topology": topo.String(), "class": class}
	if op.StrictTopo && op.Topo != nil && !op.Topo(topo) {
		res.Count("edge_combinations_outside_strict_domain(not applied)", 1)
		res.Nontrivial = false
		return res
	}
	var m modeling.Mesh
	if p := run.Try(func() { m = edgeReceiver(r, topo, class) }); p != nil {
		res.Inconclusive = "reason: building the edge receiver panicked: " + p.Value
		return res
	}
	if e := ref.WF(m); e != nil {
		res.Inconclusive = "reason: edge receiver not well-formed: " + e.Error()
		return res
	}
	env := &ops.Env{Hostile: r.Intn(3) != 0, Other: func(r *rand.Rand, like modeling.Mesh) modeling.Mesh {
		return edgeReceiver(r, like.Topology(), edgeClasses[r.Intn(len(edgeClasses))])
	}}
	before := len(res.Violations)
	applyChainEnv(c, &res, r, m, res.Sig, meshWitness(m), 1+r.Intn(2), env, func(cur modeling.Mesh) ops.Op { return op }, nil)
	res.Count("edge_combinations", 1)
	res.SetAdd("edge_classes", class)
	res.Nontrivial = len(res.Violations) == before
	return res
}
