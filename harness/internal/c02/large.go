package c02

import (
	"fmt"
	"math"
	"math/rand"
	"strings"

	"github.com/EliCDavis/polyform/math/quaternion"
	"github.com/EliCDavis/polyform/math/trs"
	"github.com/EliCDavis/polyform/modeling"
	"github.com/EliCDavis/polyform/modeling/extrude"
	"github.com/EliCDavis/polyform/modeling/primitives"
	"github.com/EliCDavis/polyform/modeling/repeat"
	"github.com/EliCDavis/vector/vector2"
	"github.com/EliCDavis/vector/vector3"
	"github.com/EliCDavis/vector/vector4"
	"polyverif/internal/c01/ops"
	"polyverif/internal/gen"
	"polyverif/internal/ref"
	"polyverif/internal/run"
)

// Vertex counts of the large phase: powers of two and multiples of typical batch /
// block sizes (4096·k, 16384, 32768, 65536) ± 1, where chunked or parallel rewrites
// of an operation lose or duplicate a tail; the last entry (0) is drawn from 40k–150k.
var largeSizes = []int{32767, 32768, 32769, 65535, 65536, 65537, 70001, 98303, 98305, 100000, 131073, 0}

func largeSize(r *rand.Rand, k int) int {
	n := largeSizes[k%len(largeSizes)]
	if n == 0 {
		switch r.Intn(3) {
		case 0:
			n = 4096*(10+r.Intn(26)) + r.Intn(3) - 1
		case 1:
			n = 16384*(3+r.Intn(6)) + r.Intn(3) - 1
		default:
			n = 40000 + r.Intn(110001)
		}
	}
	return n
}

// largeMesh builds a well-formed point or triangle mesh with n vertices whose LAST
// vertices are referenced by the index list (so that a lost tail shows), with a stated
// index pattern and all four attribute arities.
func largeMesh(r *rand.Rand, topo modeling.Topology, n int) (modeling.Mesh, string) {
	pos := make([]vector3.Float64, n)
	nor := make([]vector3.Float64, n)
	scl := make([]vector3.Float64, n)
	col := make([]vector3.Float64, n)
	uv := make([]vector2.Float64, n)
	op := make([]float64, n)
	rot := make([]vector4.Float64, n)
	for i := 0; i < n; i++ {
		// spread wide: range queries (implicit weld) stay local
		pos[i] = vector3.New(r.Float64()*1000-500, r.Float64()*1000-500, r.Float64()*1000-500)
		nor[i] = vector3.New(0., 1., 0.)
		scl[i] = vector3.New(r.Float64()-0.5, r.Float64()-0.5, r.Float64()-0.5)
		col[i] = vector3.New(r.Float64(), r.Float64(), r.Float64())
		uv[i] = vector2.New(r.Float64(), r.Float64())
		op[i] = r.Float64()*4 - 2
		rot[i] = vector4.New(1., 0., 0., r.Float64())
	}
	var idx []int
	pat := ""
	if topo == modeling.PointTopology {
		switch r.Intn(4) {
		case 0:
			pat = "identity"
			idx = make([]int, n)
			for i := range idx {
				idx[i] = i
			}
		case 1:
			pat = "identity with ≈10% unreferenced vertices (tail referenced)"
			for i := 0; i < n; i++ {
				if i >= n-64 || i < 8 || r.Intn(10) != 0 {
					idx = append(idx, i)
				}
			}
		case 2:
			pat = "permutation"
			idx = r.Perm(n)
		default:
			pat = "repeated points, ≈5% unreferenced (tail referenced)"
			for i := 0; i < n; i++ {
				if i >= n-64 || r.Intn(20) != 0 {
					idx = append(idx, i)
				}
				if r.Intn(8) == 0 {
					idx = append(idx, r.Intn(n))
				}
			}
		}
	} else {
		tail := []int{n - 3, n - 2, n - 1, n - 1, n - 2, n - 4}
		switch r.Intn(4) {
		case 0:
			pat = "unwelded (identity), last vertices in the last triangle"
			for i := 0; i+2 < n; i += 3 {
				idx = append(idx, i, i+1, i+2)
			}
			idx = append(idx, tail...)
		case 1:
			pat = "unwelded with ≈10% of the triangles missing (unreferenced vertices) and some degenerate faces"
			for i := 0; i+2 < n; i += 3 {
				switch x := r.Intn(20); {
				case x < 2 && i > 30:
					// vertices i..i+2 stay unreferenced
				case x == 2:
					idx = append(idx, i, i, i+1) // null face
				default:
					idx = append(idx, i, i+1, i+2)
				}
			}
			idx = append(idx, tail...)
		case 2:
			pat = "welded strip (every vertex shared by up to three triangles)"
			for i := 0; i+2 < n; i++ {
				idx = append(idx, i, i+1, i+2)
			}
		default:
			pat = "random indices plus tail triangles"
			k := n / 2
			idx = make([]int, 0, 3*k+6)
			for i := 0; i < 3*k; i++ {
				idx = append(idx, r.Intn(n))
			}
			idx = append(idx, tail...)
		}
	}
	m := modeling.NewMesh(topo, idx).
		SetFloat3Attribute(modeling.PositionAttribute, pos).
		SetFloat1Attribute(modeling.OpacityAttribute, op)
	attrs := "P,Opacity"
	if r.Intn(4) != 0 {
		m = m.SetFloat3Attribute(modeling.NormalAttribute, nor)
		attrs += ",Normal"
	}
	if r.Intn(3) != 0 {
		m = m.SetFloat3Attribute(modeling.ScaleAttribute, scl)
		attrs += ",Scale"
	}
	if r.Intn(2) == 0 {
		m = m.SetFloat3Attribute(modeling.ColorAttribute, col)
		attrs += ",Color"
	}
	if r.Intn(3) != 0 {
		m = m.SetFloat2Attribute(modeling.TexCoordAttribute, uv)
		attrs += ",TexCoord"
	}
	if r.Intn(3) != 0 {
		m = m.SetFloat4Attribute(modeling.RotationAttribute, rot)
		attrs += ",Rotation"
	}
	if topo == modeling.TriangleTopology && r.Intn(2) == 0 {
		np := len(idx) / 3
		mats := gen.MaterialPool(r, 3)
		a := r.Intn(np + 1)
		b := r.Intn(np - a + 1)
		m = m.SetMaterials([]modeling.MeshMaterial{{PrimitiveCount: a, Material: mats[0]}, {PrimitiveCount: b, Material: mats[1]}, {PrimitiveCount: np - a - b, Material: mats[2]}})
		attrs += " +3 material ranges"
	}
	return m, fmt.Sprintf("%s, %d vertices, %d indices, %s, attrs %s", topo, n, len(idx), pat, attrs)
}

// largeGenerator: generators at counts that put the vertex total around / above the block sizes.
func largeGenerator(r *rand.Rand, k int) (param, string) {
	pairs := [][2]int{{200, 200}, {150, 300}, {500, 64}, {257, 256}, {300, 300}, {128, 513}, {100 + r.Intn(300), 64 + r.Intn(340)}}
	pr := pairs[r.Intn(len(pairs))]
	sides := []int{16383, 16384, 20000, 32767, 32768, 40000, 65535, 65536, 8192 + r.Intn(30000)}[r.Intn(9)]
	rad := 1 + r.Float64()*50
	mk := func(desc string, f func() modeling.Mesh) (param, string) {
		return param{desc: desc, bucket: desc, run: func() []modeling.Mesh { return []modeling.Mesh{f()} }}, desc
	}
	switch k % 10 {
	case 0:
		return mk(fmt.Sprintf("UVSphere(%g, %d, %d)", rad, pr[0], pr[1]), func() modeling.Mesh { return primitives.UVSphere(rad, pr[0], pr[1]) })
	case 1:
		return mk(fmt.Sprintf("UVSphereUnwelded(%g, %d, %d)", rad, pr[0]/2, pr[1]/2), func() modeling.Mesh { return primitives.UVSphereUnwelded(rad, pr[0]/2, pr[1]/2) })
	case 2:
		return mk(fmt.Sprintf("Hemisphere.UV(%d, %d)", pr[0], pr[1]), func() modeling.Mesh { return primitives.Hemisphere{Radius: rad, Capped: true}.UV(pr[0], pr[1]) })
	case 3:
		return mk(fmt.Sprintf("Cylinder{Sides %d, all UVs}", sides), func() modeling.Mesh {
			return primitives.Cylinder{Sides: sides, Radius: rad, Height: 3, UVs: cylinderUVs(r.Intn(8), nil)}.ToMesh()
		})
	case 4:
		return mk(fmt.Sprintf("Circle{Sides %d}", 2*sides), func() modeling.Mesh {
			return primitives.Circle{Sides: 2 * sides, Radius: rad, UVs: &primitives.CircleUVs{Radius: 0.5}}.ToMesh()
		})
	case 5:
		return mk(fmt.Sprintf("Cone{Sides %d}", 2*sides), func() modeling.Mesh { return primitives.Cone{Sides: 2 * sides, Radius: rad, Height: 2}.ToMesh() })
	case 6:
		s, np := 16+r.Intn(100), 0
		np = (40000+r.Intn(60000))/(s+1) + 1
		return mk(fmt.Sprintf("extrude.Polygon(sides %d, %d points, UVs)", s, np), func() modeling.Mesh {
			pts := make([]extrude.ExtrusionPoint, np)
			for i := range pts {
				pts[i] = extrude.ExtrusionPoint{Point: vector3.New(math.Sin(float64(i)*0.01)*5, float64(i)*0.05, math.Cos(float64(i)*0.013)*5), Thickness: 0.5,
					UV: &extrude.ExtrusionPointUV{Point: vector2.New(0.5, float64(i)/float64(np)), Thickness: 1}}
			}
			return extrude.Polygon(s, pts)
		})
	case 7:
		np := 10922 + r.Intn(30000) // 3 vertices per point: 32766 … ≈ 123k
		return mk(fmt.Sprintf("extrude.Line(%d points)", np), func() modeling.Mesh {
			lp := make([]extrude.LinePoint, np)
			for i := range lp {
				lp[i] = extrude.LinePoint{Point: vector3.New(float64(i)*0.1, math.Sin(float64(i)*0.01), 0), Up: vector3.Up[float64](), Height: 0.1, Width: 0.2, Uv: vector2.New(float64(i)/float64(np), 0.5), UvWidth: 0.1}
			}
			return extrude.Line(lp)
		})
	case 8:
		ns, np := 20+r.Intn(100), 0
		np = (40000+r.Intn(60000))/ns + 2
		closed := r.Intn(2) == 0
		return mk(fmt.Sprintf("extrude.Shape(%d × %d, closed %v)", ns, np, closed), func() modeling.Mesh {
			sh := make([]vector2.Float64, ns)
			for i := range sh {
				a := 2 * math.Pi * float64(i) / float64(ns)
				sh[i] = vector2.New(math.Cos(a), math.Sin(a))
			}
			path := make([]vector3.Float64, np)
			for i := range path {
				path[i] = vector3.New(math.Sin(float64(i)*0.01)*20, float64(i)*0.1, math.Cos(float64(i)*0.01)*20)
			}
			if closed {
				return extrude.ClosedShape(sh, path)
			}
			return extrude.Shape(sh, path)
		})
	}
	reps := 4 + r.Intn(10)
	return mk(fmt.Sprintf("repeat.Mesh(UVSphere(100,100), %d transforms)", reps), func() modeling.Mesh {
		ts := make([]trs.TRS, reps)
		for i := range ts {
			ts[i] = trs.New(vector3.New(float64(i)*3, 0, 0), quaternion.FromTheta(float64(i), vector3.Up[float64]()), vector3.One[float64]())
		}
		return repeat.Mesh(primitives.UVSphere(1, 100, 100), ts)
	})
}

// largeCase: every deriving operation of the table once on a large receiver (not chained: the size
// stays), WF + accessor sweep on every result. Every fourth case takes its receiver from a generator
// driven at a large count (the generator's own result is checked first).
func largeCase(c *run.Ctx) run.Result {
	var res run.Result
	r := c.Rng
	var m modeling.Mesh
	var desc string
	if c.Case%4 == 3 {
		p, d := largeGenerator(r, c.Case/4+int(c.Seed))
		desc = "generator " + d
		c.Note("large " + desc)
		var outs []modeling.Mesh
		if pn := run.Try(func() { outs = p.run() }); pn != nil {
			if pn.Runtime {
				res.Violate("runtime-panic", "large generator", "large parameterisation", fmt.Sprintf("%s died with a Go runtime error: %s (innermost polyform frame %s)", d, pn.Value, pn.Site), map[string]any{"params": d})
			} else {
				res.Inconclusive = "reason: large generator rejected its parameters: " + pn.Value
			}
			return res
		}
		m = outs[0]
		if e := ref.WF(m); e != nil {
			res.Violate("ill-formed-result", "large generator", "large parameterisation", fmt.Sprintf("%s returned a mesh that is not well-formed: %v", d, e), map[string]any{"params": d, "result": meshWitness(m)})
			return res
		}
		if ap := accessorSweep(m); ap != nil {
			res.Violate("accessor-runtime-panic", "large generator", "large parameterisation", fmt.Sprintf("result of %s passes ref.WF but reading it through the primitive accessors panics: %s", d, ap.Value), map[string]any{"params": d})
			return res
		}
		res.Count("large_generator_results_wf", 1)
		res.SetAdd("large_generators", d[:indexOf(d, '(', '{')])
	} else {
		topo := modeling.PointTopology
		if r.Intn(2) == 0 {
			topo = modeling.TriangleTopology
		}
		n := largeSize(r, c.Case-c.Case/4)
		m, desc = largeMesh(r, topo, n)
		c.Note("large " + desc)
		if e := ref.WF(m); e != nil {
			res.Inconclusive = "reason: large receiver not well-formed: " + e.Error()
			return res
		}
		res.SetAdd("large_receiver_sizes", fmt.Sprint(n))
	}
	res.SetAdd("large_topologies", m.Topology().String())
	L := ref.AttrLen(m)
	res.Count("large_receiver_vertices", int64(L))
	if L > 65535 {
		res.Count("large_receivers_above_65535_vertices", 1)
	}
	env := &ops.Env{Valid: true, Large: true, Other: func(r *rand.Rand, like modeling.Mesh) modeling.Mesh {
		o, _ := gen.Mesh(r, gen.MeshOpts{Topologies: []modeling.Topology{like.Topology()}, Materials: true, MaxVerts: 24, MinVerts: 3})
		return o
	}}
	w := meshWitness(m)
	w["description"] = desc
	// results of the compacting operations stay alive and are re-checked (WF only) after every later call
	keep := &keeper{wfOnly: true, only: func(n string) bool {
		return strings.HasPrefix(n, "meshops.FilterFloat") || n == "gausops.FilterNode" || n == "meshops.RemovedUnreferencedVertices" || n == "meshops.CropFloat3Attribute"
	}}
	keep.add(m, "the large receiver", "")
	applied := 0
	before := res.Counters["chain_results_wf"]
	for _, op := range deriving {
		if op.Topo != nil && !op.Topo(m.Topology()) {
			continue
		}
		op := op
		ok, _, _ := applyChainEnv(c, &res, r, m, desc, w, 1, env, func(modeling.Mesh) ops.Op { return op }, keep)
		applied++
		if ok > 0 {
			res.SetAdd("large_ops_returning_mesh", op.Name)
		}
	}
	res.Count("large_ops_applied", int64(applied))
	res.Count("large_results_wf", res.Counters["chain_results_wf"]-before)
	res.Count("large_cases", 1)
	res.Nontrivial = len(res.Violations) == 0 && applied > 20
	res.Sig = fmt.Sprintf("large|%s|%d", m.Topology(), L)
	res.Sample = map[string]any{"receiver": desc, "ops_applied": applied}
	return res
}

func indexOf(s string, bs ...byte) int {
	for i := 0; i < len(s); i++ {
		for _, b := range bs {
			if s[i] == b {
				return i
			}
		}
	}
	return len(s)
}
