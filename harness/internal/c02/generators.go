package c02

import (
	"fmt"
	"image/color"
	"math"
	"math/rand"

	"github.com/EliCDavis/polyform/math/curves"
	"github.com/EliCDavis/polyform/math/quaternion"
	"github.com/EliCDavis/polyform/math/sdf"
	"github.com/EliCDavis/polyform/math/trs"
	"github.com/EliCDavis/polyform/modeling"
	"github.com/EliCDavis/polyform/modeling/extrude"
	"github.com/EliCDavis/polyform/modeling/marching"
	"github.com/EliCDavis/polyform/modeling/primitives"
	"github.com/EliCDavis/polyform/modeling/repeat"
	"github.com/EliCDavis/polyform/modeling/triangulation"
	"github.com/EliCDavis/polyform/nodes"
	"github.com/EliCDavis/vector/vector2"
	"github.com/EliCDavis/vector/vector3"
	"github.com/EliCDavis/vector/vector4"
	"polyverif/internal/gen"
	"polyverif/internal/ref"
	"polyverif/internal/run"
)

func gen2(r *rand.Rand, n int) []vector2.Float64 {
	out := make([]vector2.Float64, n)
	for i := range out {
		out[i] = vector2.New(r.Float64()*4-2, r.Float64()*4-2)
	}
	return out
}
func gen4(r *rand.Rand, n int) []vector4.Float64 {
	out := make([]vector4.Float64, n)
	for i := range out {
		out[i] = vector4.New(r.Float64()*4-2, r.Float64()*4-2, r.Float64()*4-2, r.Float64()*4-2)
	}
	return out
}

func nout[T any](v T) nodes.NodeOutput[T] { return nodes.Value(v).Out() }

// param is one parameterisation of a generator family.
type param struct {
	desc   string // full rendering (witness)
	bucket string // coarse bucket for distinctness
	run    func() []modeling.Mesh
}

// family: grid(k) enumerates the small parameter grid (k < gridN), sample draws the rest.
type family struct {
	name   string
	gridN  int
	grid   func(k int) param
	sample func(r *rand.Rand, thorough bool) param
}

func radius(r *rand.Rand) float64 {
	return []float64{1, 0.5, 2, 1e-3, 250, 0, r.Float64() * 3}[r.Intn(7)]
}

func rv3(r *rand.Rand) vector3.Float64 {
	return vector3.New(r.Float64()*4-2, r.Float64()*4-2, r.Float64()*4-2)
}

func bucketInt(n int) string {
	switch {
	case n < 0:
		return "<0"
	case n <= 6:
		return fmt.Sprint(n)
	case n <= 12:
		return "7-12"
	case n <= 40:
		return "13-40"
	}
	return ">40"
}

func strip(r *rand.Rand) *primitives.StripUVs {
	return &primitives.StripUVs{Start: vector2.New(r.Float64(), r.Float64()), End: vector2.New(r.Float64(), r.Float64()), Width: r.Float64()}
}

// cubeUVs builds a CubeUVs with the strips selected by mask (bit order Top,Bottom,Left,Right,Front,Back).
func cubeUVs(mask int, r *rand.Rand) *primitives.CubeUVs {
	s := func(b int) *primitives.StripUVs {
		if mask&(1<<b) == 0 {
			return nil
		}
		if r == nil {
			return &primitives.StripUVs{Start: vector2.New(0., 0.5), End: vector2.New(0.25, 0.5), Width: 0.3}
		}
		return strip(r)
	}
	return &primitives.CubeUVs{Top: s(0), Bottom: s(1), Left: s(2), Right: s(3), Front: s(4), Back: s(5)}
}

func sphereParam(kind string, rad float64, rows, cols int) param {
	return param{desc: fmt.Sprintf("%s(radius %g, rows %d, columns %d)", kind, rad, rows, cols), bucket: fmt.Sprintf("r%s c%s", bucketInt(rows), bucketInt(cols)),
		run: func() []modeling.Mesh {
			switch kind {
			case "UVSphere":
				return []modeling.Mesh{primitives.UVSphere(rad, rows, cols)}
			case "UVSphereUnwelded":
				return []modeling.Mesh{primitives.UVSphereUnwelded(rad, rows, cols)}
			case "Hemisphere.UV":
				return []modeling.Mesh{primitives.Hemisphere{Radius: rad}.UV(rows, cols)}
			case "Hemisphere.UV(capped)":
				return []modeling.Mesh{primitives.Hemisphere{Radius: rad, Capped: true}.UV(rows, cols)}
			case "UvSphereNode":
				m, err := primitives.UvSphereNodeData{Radius: nout(rad), Rows: nout(rows), Columns: nout(cols), Weld: nout(rows%2 == 0)}.Process()
				if err != nil {
					panic(err)
				}
				return []modeling.Mesh{m}
			}
			m, err := primitives.HemisphereNodeData{Radius: nout(rad), Rows: nout(rows), Columns: nout(cols)}.Process()
			if err != nil {
				panic(err)
			}
			return []modeling.Mesh{m}
		}}
}

func sphereFamily(kind string) family {
	// grid: rows -1..6 × columns -1..8 (values below the minimum are rejected by the constructor)
	return family{name: "primitives." + kind, gridN: 8 * 10,
		grid: func(k int) param { return sphereParam(kind, 1, k/10-1, k%10-1) },
		sample: func(r *rand.Rand, th bool) param {
			mx := 24
			if th && r.Intn(10) == 0 {
				mx = 120
			}
			return sphereParam(kind, radius(r), 2+r.Intn(mx), 3+r.Intn(mx))
		}}
}

func cylinderUVs(mask int, r *rand.Rand) *primitives.CylinderUVs {
	if mask == 8 {
		return nil
	}
	u := &primitives.CylinderUVs{}
	if mask&1 != 0 {
		u.Top = &primitives.CircleUVs{Center: vector2.New(0.5, 0.5), Radius: 0.5}
	}
	if mask&2 != 0 {
		u.Bottom = &primitives.CircleUVs{Center: vector2.New(0.25, 0.5), Radius: 0.25}
	}
	if mask&4 != 0 {
		if r != nil {
			u.Side = strip(r)
		} else {
			u.Side = &primitives.StripUVs{Start: vector2.New(0., 0.), End: vector2.New(1., 0.), Width: 1}
		}
	}
	return u
}

func pathPoints(r *rand.Rand, n int) []vector3.Float64 {
	p := make([]vector3.Float64, n)
	cls := r.Intn(8)
	for i := range p {
		switch cls {
		case 5: // closed loop whose last point repeats the first
			a := 2 * math.Pi * float64(i) / float64(imax1(n-1))
			p[i] = vector3.New(math.Cos(a), 0, math.Sin(a))
			if i == n-1 {
				p[i] = p[0]
			}
		case 6: // collinear run, a turn, another collinear run
			if i < n/2 {
				p[i] = vector3.New(float64(i), 0, 0)
			} else {
				p[i] = vector3.New(float64(n/2), float64(i-n/2+1), 0)
			}
		case 7: // every point the same
			p[i] = vector3.New(1., 2., 3.)
		case 0: // straight up
			p[i] = vector3.New(0, float64(i), 0)
		case 1: // straight along X (RotationTo antiparallel / parallel edge cases)
			p[i] = vector3.New(float64(i)*0.5, 0, 0)
		case 2: // goes back on itself
			p[i] = vector3.New(0, float64(i%2), 0)
		case 3: // repeated points (zero-length segments)
			p[i] = vector3.New(float64(i/2), 0, 1)
		default:
			p[i] = rv3(r)
		}
	}
	return p
}

func imax1(n int) int {
	if n < 1 {
		return 1
	}
	return n
}

var outlineClasses = []string{"regular", "explicit closing point (last == first)", "consecutive duplicate points", "collinear runs", "reversed winding",
	"all points identical", "closing point + duplicates + reversed", "random"}

// outline builds a 2-D outline of n points of a degenerate-but-accepted structure class.
func outline(r *rand.Rand, n, cls int) []vector2.Float64 {
	sh := make([]vector2.Float64, n)
	reg := func(i, m int) vector2.Float64 {
		a := 2 * math.Pi * float64(i) / float64(imax1(m))
		return vector2.New(math.Cos(a), math.Sin(a))
	}
	for i := range sh {
		switch cls {
		case 0:
			sh[i] = reg(i, n)
		case 1:
			sh[i] = reg(i, n-1)
			if i == n-1 {
				sh[i] = sh[0]
			}
		case 2:
			sh[i] = reg(i/2, (n+1)/2)
		case 3: // points along the edges of a square, several per edge
			per := imax1(n / 4)
			e, t := (i/per)%4, float64(i%per)/float64(per)
			c := []vector2.Float64{vector2.New(-1., -1.), vector2.New(1., -1.), vector2.New(1., 1.), vector2.New(-1., 1.)}
			sh[i] = c[e].Add(c[(e+1)%4].Sub(c[e]).Scale(t))
		case 4:
			sh[i] = reg(n-1-i, n)
		case 5:
			sh[i] = vector2.New(0.5, 0.5)
		case 6:
			sh[i] = reg((n-1-i)/2, (n+1)/2)
			if i == n-1 {
				sh[i] = sh[0]
			}
		default:
			sh[i] = vector2.New(r.Float64()*2-1, r.Float64()*2-1)
		}
	}
	return sh
}

// Families is the generator table of phase (a).
var Families = buildFamilies()

func buildFamilies() []family {
	var fs []family
	for _, k := range []string{"UVSphere", "UVSphereUnwelded", "Hemisphere.UV", "Hemisphere.UV(capped)", "UvSphereNode", "HemisphereNode"} {
		fs = append(fs, sphereFamily(k))
	}

	// Cube: every subset of the six UV strips, welded and quads. (A strip set on a
	// welded cube without a Bottom strip is part of the space: the code guards each
	// strip with a nil check.)
	cube := func(welded bool, dims [3]float64, mask int, r *rand.Rand) param {
		kind := "UnweldedQuads"
		if welded {
			kind = "Welded"
		}
		d := fmt.Sprintf("Cube{%g,%g,%g}.%s uv-mask %07b", dims[0], dims[1], dims[2], kind, mask)
		return param{desc: d, bucket: fmt.Sprintf("%s mask %d", kind, mask), run: func() []modeling.Mesh {
			c := primitives.Cube{Width: dims[0], Height: dims[1], Depth: dims[2]}
			switch {
			case mask == 64:
				c.UVs = nil
			case mask == 65:
				c.UVs = primitives.DefaultCubeUVs()
			default:
				c.UVs = cubeUVs(mask, r)
			}
			if welded {
				return []modeling.Mesh{c.Welded()}
			}
			return []modeling.Mesh{c.UnweldedQuads()}
		}}
	}
	for _, welded := range []bool{true, false} {
		welded := welded
		name := "primitives.Cube.UnweldedQuads"
		if welded {
			name = "primitives.Cube.Welded"
		}
		fs = append(fs, family{name: name, gridN: 66,
			grid: func(k int) param { return cube(welded, [3]float64{1, 2, 3}, k, nil) },
			sample: func(r *rand.Rand, th bool) param {
				return cube(welded, [3]float64{radius(r), radius(r), radius(r)}, r.Intn(66), r)
			}})
	}
	fs = append(fs, family{name: "primitives.UnitCube/CubeNode", gridN: 2,
		grid: func(k int) param {
			if k == 0 {
				return param{desc: "UnitCube()", bucket: "unit", run: func() []modeling.Mesh { return []modeling.Mesh{primitives.UnitCube()} }}
			}
			return param{desc: "CubeNode{}", bucket: "node-default", run: func() []modeling.Mesh {
				m, err := primitives.CubeNodeData{}.Process()
				if err != nil {
					panic(err)
				}
				return []modeling.Mesh{m}
			}}
		},
		sample: func(r *rand.Rand, th bool) param {
			w, h, d := radius(r), radius(r), radius(r)
			return param{desc: fmt.Sprintf("CubeNode{%g,%g,%g}", w, h, d), bucket: "node", run: func() []modeling.Mesh {
				m, err := primitives.CubeNodeData{Width: nout(w), Height: nout(h), Depth: nout(d)}.Process()
				if err != nil {
					panic(err)
				}
				return []modeling.Mesh{m}
			}}
		}})
	fs = append(fs, family{name: "primitives.Quad", gridN: 2,
		grid: func(k int) param {
			var uv *primitives.StripUVs
			if k == 1 {
				uv = &primitives.StripUVs{Start: vector2.New(0., 0.), End: vector2.New(1., 0.), Width: 1}
			}
			return param{desc: fmt.Sprintf("Quad{1,2,uv=%v}", uv != nil), bucket: fmt.Sprint(uv != nil), run: func() []modeling.Mesh {
				return []modeling.Mesh{primitives.Quad{Width: 1, Depth: 2, UVs: uv}.ToMesh()}
			}}
		},
		sample: func(r *rand.Rand, th bool) param {
			w, d := radius(r), radius(r)
			var uv *primitives.StripUVs
			if r.Intn(2) == 0 {
				uv = strip(r)
			}
			node := r.Intn(3) == 0
			return param{desc: fmt.Sprintf("Quad{%g,%g,uv=%v,node=%v}", w, d, uv != nil, node), bucket: fmt.Sprint(uv != nil, node), run: func() []modeling.Mesh {
				if node {
					nd := primitives.QuadNodeData{Width: nout(w), Depth: nout(d)}
					if uv != nil {
						nd.UVs = nout(*uv)
					}
					m, err := nd.Process()
					if err != nil {
						panic(err)
					}
					return []modeling.Mesh{m}
				}
				return []modeling.Mesh{primitives.Quad{Width: w, Depth: d, UVs: uv}.ToMesh()}
			}}
		}})

	// Circle: sides ≥ 1 (0 sides divides by zero and has no rim to close; negative counts are not counts)
	circle := func(sides int, rad float64, uv bool) param {
		return param{desc: fmt.Sprintf("Circle{Sides %d, Radius %g, UVs %v}", sides, rad, uv), bucket: fmt.Sprintf("s%s uv%v", bucketInt(sides), uv), run: func() []modeling.Mesh {
			c := primitives.Circle{Sides: sides, Radius: rad}
			if uv {
				c.UVs = &primitives.CircleUVs{Center: vector2.New(0.5, 0.5), Radius: 0.5}
			}
			return []modeling.Mesh{c.ToMesh()}
		}}
	}
	fs = append(fs, family{name: "primitives.Circle", gridN: 24,
		grid: func(k int) param { return circle(1+k/2, 1, k%2 == 1) },
		sample: func(r *rand.Rand, th bool) param {
			mx := 60
			if th && r.Intn(10) == 0 {
				mx = 2000
			}
			return circle(1+r.Intn(mx), radius(r), r.Intn(2) == 0)
		}})

	cyl := func(sides int, rad, h float64, noTop, noBottom bool, mask int, r *rand.Rand) param {
		return param{desc: fmt.Sprintf("Cylinder{Sides %d, R %g, H %g, NoTop %v, NoBottom %v, uv-mask %d}", sides, rad, h, noTop, noBottom, mask),
			bucket: fmt.Sprintf("s%s t%v b%v uv%d", bucketInt(sides), noTop, noBottom, mask), run: func() []modeling.Mesh {
				return []modeling.Mesh{primitives.Cylinder{Sides: sides, Radius: rad, Height: h, NoTop: noTop, NoBottom: noBottom, UVs: cylinderUVs(mask, r)}.ToMesh()}
			}}
	}
	fs = append(fs, family{name: "primitives.Cylinder", gridN: 8 * 4 * 9,
		grid: func(k int) param {
			return cyl(1+k%8, 1, 2, (k/8)%2 == 1, (k/16)%2 == 1, k/32, nil)
		},
		sample: func(r *rand.Rand, th bool) param {
			mx := 40
			if th && r.Intn(10) == 0 {
				mx = 1000
			}
			return cyl(1+r.Intn(mx), radius(r), radius(r), r.Intn(2) == 0, r.Intn(2) == 0, r.Intn(9), r)
		}})
	fs = append(fs, family{name: "primitives.CylinderNode/CircleNode/ConeNode", gridN: 3,
		grid: func(k int) param {
			return param{desc: fmt.Sprintf("default node %d", k), bucket: fmt.Sprint("default", k), run: func() []modeling.Mesh {
				var m modeling.Mesh
				var err error
				switch k {
				case 0:
					m, err = primitives.CylinderNodeData{}.Process()
				case 1:
					m, err = primitives.CircleNodeData{}.Process()
				default:
					m, err = primitives.ConeNodeData{}.Process()
				}
				if err != nil {
					panic(err)
				}
				return []modeling.Mesh{m}
			}}
		},
		sample: func(r *rand.Rand, th bool) param {
			k, sides, rad, h, top, bot := r.Intn(3), 1+r.Intn(30), radius(r), radius(r), r.Intn(2) == 0, r.Intn(2) == 0
			if k == 2 {
				sides = r.Intn(30) - 3 // ConeNode clamps to ≥ 3
			}
			return param{desc: fmt.Sprintf("node %d sides %d r %g h %g top %v bottom %v", k, sides, rad, h, top, bot), bucket: fmt.Sprint(k, bucketInt(sides)), run: func() []modeling.Mesh {
				var m modeling.Mesh
				var err error
				switch k {
				case 0:
					m, err = primitives.CylinderNodeData{Sides: nout(sides), Height: nout(h), Radius: nout(rad), Top: nout(top), Bottom: nout(bot)}.Process()
				case 1:
					m, err = primitives.CircleNodeData{Sides: nout(sides), Radius: nout(rad), UVs: nout(primitives.CircleUVs{Radius: 0.5})}.Process()
				default:
					m, err = primitives.ConeNodeData{Sides: nout(sides), Radius: nout(rad), Height: nout(h)}.Process()
				}
				if err != nil {
					panic(err)
				}
				return []modeling.Mesh{m}
			}}
		}})
	cone := func(sides int, rad, h float64) param {
		return param{desc: fmt.Sprintf("Cone{Sides %d, R %g, H %g}", sides, rad, h), bucket: "s" + bucketInt(sides), run: func() []modeling.Mesh {
			return []modeling.Mesh{primitives.Cone{Sides: sides, Radius: rad, Height: h}.ToMesh()}
		}}
	}
	fs = append(fs, family{name: "primitives.Cone", gridN: 16,
		grid: func(k int) param { return cone(k-2, 1, 1) }, // <3 is rejected by the constructor
		sample: func(r *rand.Rand, th bool) param {
			mx := 60
			if th && r.Intn(10) == 0 {
				mx = 2000
			}
			return cone(3+r.Intn(mx), radius(r), radius(r))
		}})

	// ---- extrude family -------------------------------------------------------
	polygon := func(sides int, n int, uvMode, dirMode int, seed int64) param {
		return param{desc: fmt.Sprintf("extrude.Polygon(sides %d, %d points, uv-mode %d, dir-mode %d, seed %d)", sides, n, uvMode, dirMode, seed),
			bucket: fmt.Sprintf("s%s n%s uv%d d%d", bucketInt(sides), bucketInt(n), uvMode, dirMode), run: func() []modeling.Mesh {
				r := rand.New(rand.NewSource(seed))
				path := pathPoints(r, n)
				pts := make([]extrude.ExtrusionPoint, n)
				for i := range pts {
					pts[i] = extrude.ExtrusionPoint{Point: path[i], Thickness: []float64{1, 0.3, 0, 2}[r.Intn(4)]}
					// uvMode 0: none, 1: all, 2: every other point, 3: a random subset, 4: a prefix of two or more points,
					// 5: all but one (round 8, C02-M: optional per-point data on an ARBITRARY subset; any point without a
					// UV means no UVs are emitted)
					mapped := uvMode == 1 || (uvMode == 2 && i%2 == 0) || (uvMode == 3 && r.Intn(10) < 7) ||
						(uvMode == 4 && i < 2+int(seed%3)) || (uvMode == 5 && i != int(seed%int64(n)))
					if mapped {
						pts[i].UV = &extrude.ExtrusionPointUV{Point: vector2.New(r.Float64(), r.Float64()), Thickness: r.Float64()}
					}
					if dirMode == 1 || (dirMode == 2 && r.Intn(2) == 0) {
						pts[i].Direction = &extrude.ExtrusionPointDirection{Direction: rv3(r).Normalized()}
					}
				}
				return []modeling.Mesh{extrude.Polygon(sides, pts)}
			}}
	}
	fs = append(fs, family{name: "extrude.Polygon", gridN: 7 * 6 * 6,
		grid: func(k int) param { return polygon(k%7, (k/7)%6, k/42, 0, int64(k)) }, // sides 0..6 × points 0..5 × uv-mode
		sample: func(r *rand.Rand, th bool) param {
			mx := 16
			if th && r.Intn(10) == 0 {
				mx = 200
			}
			return polygon(3+r.Intn(mx), 2+r.Intn(mx), r.Intn(6), r.Intn(3), r.Int63())
		}})
	circleEx := func(res, n int, radii int, seed int64) param {
		return param{desc: fmt.Sprintf("extrude.Circle{Resolution %d, %d path points, radii-mode %d, seed %d}", res, n, radii, seed),
			bucket: fmt.Sprintf("r%s n%s m%d", bucketInt(res), bucketInt(n), radii), run: func() []modeling.Mesh {
				r := rand.New(rand.NewSource(seed))
				c := extrude.Circle{Resolution: res, Radius: 0.5, Path: pathPoints(r, n), ClosePath: r.Intn(2) == 0}
				switch radii {
				case 1:
					c.Radii = make([]float64, n)
					for i := range c.Radii {
						c.Radii[i] = r.Float64()
					}
				case 2: // wrong length: documented to fall back to Radius
					c.Radii = make([]float64, n+1)
				}
				return []modeling.Mesh{c.Extrude()}
			}}
	}
	fs = append(fs, family{name: "extrude.Circle", gridN: 6 * 5 * 3,
		grid: func(k int) param { return circleEx(k%6+1, (k/6)%5, k/30, int64(k)) },
		sample: func(r *rand.Rand, th bool) param {
			return circleEx(3+r.Intn(20), 2+r.Intn(20), r.Intn(3), r.Int63())
		}})
	spline := func(cres, sres, npts int, radii bool, seed int64) param {
		return param{desc: fmt.Sprintf("extrude.CircleAlongSpline{CircleResolution %d, SplineResolution %d, %d control points, radii %v, seed %d}", cres, sres, npts, radii, seed),
			bucket: fmt.Sprintf("c%s s%s p%d %v", bucketInt(cres), bucketInt(sres), npts, radii), run: func() []modeling.Mesh {
				r := rand.New(rand.NewSource(seed))
				pts := make([]vector3.Float64, npts)
				for i := range pts {
					pts[i] = vector3.New(float64(i), r.Float64(), r.Float64()*2)
				}
				if r.Intn(4) == 0 { // duplicate control point
					pts[1] = pts[0]
				}
				if r.Intn(4) == 0 { // closed control polygon
					pts[npts-1] = pts[0]
				}
				sp := curves.CatmullRomSplineParameters{Points: pts, Alpha: 0.5}.Spline()
				c := extrude.CircleAlongSpline{CircleResolution: cres, Radius: 0.3, Spline: &sp, SplineResolution: sres}
				if radii {
					c.Radii = make([]float64, sres)
					for i := range c.Radii {
						c.Radii[i] = 0.1 + r.Float64()
					}
				}
				return []modeling.Mesh{c.Extrude()}
			}}
	}
	fs = append(fs, family{name: "extrude.CircleAlongSpline", gridN: 4 * 4,
		grid: func(k int) param { return spline(3+k%4, 2+k/4, 4, false, int64(k)) },
		sample: func(r *rand.Rand, th bool) param {
			return spline(3+r.Intn(12), 2+r.Intn(20), 4+r.Intn(5), r.Intn(2) == 0, r.Int63())
		}})
	line := func(n int, seed int64) param {
		return param{desc: fmt.Sprintf("extrude.Line(%d points, seed %d)", n, seed), bucket: "n" + bucketInt(n), run: func() []modeling.Mesh {
			r := rand.New(rand.NewSource(seed))
			path := pathPoints(r, n)
			lp := make([]extrude.LinePoint, n)
			for i := range lp {
				lp[i] = extrude.LinePoint{Point: path[i], Up: vector3.Up[float64](), Height: r.Float64(), Width: []float64{0, 0.3, 1}[r.Intn(3)],
					Uv: vector2.New(r.Float64(), r.Float64()), UvWidth: r.Float64()}
			}
			return []modeling.Mesh{extrude.Line(lp)}
		}}
	}
	fs = append(fs, family{name: "extrude.Line", gridN: 12,
		grid: func(k int) param { return line(k/2, int64(k)) },
		sample: func(r *rand.Rand, th bool) param {
			mx := 30
			if th && r.Intn(10) == 0 {
				mx = 1000
			}
			return line(2+r.Intn(mx), r.Int63())
		}})
	shape := func(closed bool, ns, np int, seed int64) param {
		kind := "Shape"
		if closed {
			kind = "ClosedShape"
		}
		return param{desc: fmt.Sprintf("extrude.%s(%d shape points, %d path points, seed %d)", kind, ns, np, seed), bucket: fmt.Sprintf("s%s p%s", bucketInt(ns), bucketInt(np)), run: func() []modeling.Mesh {
			r := rand.New(rand.NewSource(seed))
			sh := make([]vector2.Float64, ns)
			for i := range sh {
				a := 2 * math.Pi * float64(i) / float64(ns)
				sh[i] = vector2.New(math.Cos(a), math.Sin(a)).Scale(0.2 + r.Float64())
			}
			path := pathPoints(r, np)
			if closed {
				return []modeling.Mesh{extrude.ClosedShape(sh, path)}
			}
			return []modeling.Mesh{extrude.Shape(sh, path)}
		}}
	}
	for _, closed := range []bool{false, true} {
		closed := closed
		name := "extrude.Shape"
		if closed {
			name = "extrude.ClosedShape"
		}
		fs = append(fs, family{name: name, gridN: 7 * 6,
			grid: func(k int) param { return shape(closed, k%7, k/7, int64(k)) }, // shape 0..6 points × path 0..5 points
			sample: func(r *rand.Rand, th bool) param {
				mx := 20
				if th && r.Intn(10) == 0 {
					mx = 300
				}
				return shape(closed, 1+r.Intn(mx), 2+r.Intn(mx), r.Int63())
			}})
	}
	dshape := func(closed bool, cls, ns, np int, seed int64) param {
		kind := "Shape"
		if closed {
			kind = "ClosedShape"
		}
		return param{desc: fmt.Sprintf("extrude.%s(outline %q of %d points, %d path points, seed %d)", kind, outlineClasses[cls], ns, np, seed),
			bucket: fmt.Sprintf("%s o%d s%s p%s", kind, cls, bucketInt(ns), bucketInt(np)), run: func() []modeling.Mesh {
				r := rand.New(rand.NewSource(seed))
				sh := outline(r, ns, cls)
				path := pathPoints(r, np)
				if closed {
					return []modeling.Mesh{extrude.ClosedShape(sh, path)}
				}
				return []modeling.Mesh{extrude.Shape(sh, path)}
			}}
	}
	fs = append(fs, family{name: "extrude.Shape/ClosedShape(degenerate outlines)", gridN: 8 * 4 * 3 * 2,
		grid: func(k int) param {
			return dshape(k%2 == 1, (k/2)%8, []int{3, 4, 5, 9}[(k/16)%4], []int{2, 3, 6}[k/64], int64(k))
		},
		sample: func(r *rand.Rand, th bool) param {
			return dshape(r.Intn(2) == 0, r.Intn(8), 2+r.Intn(30), 2+r.Intn(20), r.Int63())
		}})

	screw := func(nl, seg int, rev, dist float64, uv bool, seed int64) param {
		return param{desc: fmt.Sprintf("extrude.ScrewNode(%d line points, %d segments, rev %g, dist %g, uv %v, seed %d)", nl, seg, rev, dist, uv, seed),
			bucket: fmt.Sprintf("l%s s%s %v", bucketInt(nl), bucketInt(seg), uv), run: func() []modeling.Mesh {
				r := rand.New(rand.NewSource(seed))
				l := make([]vector3.Float64, nl)
				for i := range l {
					l[i] = vector3.New(0.5+r.Float64(), float64(i)*0.3, 0)
				}
				if nl > 1 && r.Intn(3) == 0 { // profile closed explicitly
					l[nl-1] = l[0]
				}
				if nl > 2 && r.Intn(3) == 0 { // consecutive duplicate
					l[1] = l[0]
				}
				nd := extrude.ScrewNodeData{Line: nout(l), Segments: nout(seg), Revolutions: nout(rev), Distance: nout(dist)}
				if uv {
					nd.UVs = nout(*strip(r))
				}
				m, err := nd.Process()
				if err != nil {
					panic(err)
				}
				return []modeling.Mesh{m}
			}}
	}
	fs = append(fs, family{name: "extrude.ScrewNode", gridN: 5 * 6,
		grid: func(k int) param { return screw(k%5, k/5, 1, 0.5, false, int64(k)) },
		sample: func(r *rand.Rand, th bool) param {
			return screw(2+r.Intn(10), 2+r.Intn(30), r.Float64()*3, r.Float64()*2, r.Intn(2) == 0, r.Int63())
		}})

	// ---- repeat -----------------------------------------------------------------
	rep := func(src int, kind, n int, seed int64) param {
		return param{desc: fmt.Sprintf("repeat.Mesh(source %d, transforms kind %d × %d, seed %d)", src, kind, n, seed), bucket: fmt.Sprintf("src%d k%d n%s", src, kind, bucketInt(n)), run: func() []modeling.Mesh {
			r := rand.New(rand.NewSource(seed))
			var m modeling.Mesh
			switch src {
			case 0:
				m = primitives.UnitCube()
			case 1:
				m = primitives.Cylinder{Sides: 5, Height: 1, Radius: 1, UVs: cylinderUVs(1, nil)}.ToMesh() // mixed attribute sets inside
			case 2:
				m = primitives.Quad{Width: 1, Depth: 1}.ToMesh()
			case 3:
				m = modeling.EmptyMesh(modeling.TriangleTopology)
			case 4:
				m, _ = gen.Mesh(r, gen.MeshOpts{Topologies: []modeling.Topology{modeling.PointTopology}, MaxVerts: 12})
			default:
				m, _ = gen.Mesh(r, gen.MeshOpts{Materials: true, MaxVerts: 20, AllowEmpty: true})
			}
			var ts []trs.TRS
			switch kind {
			case 0:
				ts = make([]trs.TRS, n)
				for i := range ts {
					ts[i] = trs.New(rv3(r), quaternion.FromTheta(r.Float64()*6, rv3(r).Normalized()), rv3(r))
				}
			case 1:
				ts = repeat.Circle(n, 2)
			case 2:
				ts = repeat.Line(rv3(r), rv3(r), n)
			case 3:
				ts = repeat.LineExlusive(rv3(r), rv3(r), n)
			case 4:
				ts = repeat.FibonacciSphere(n, 2)
			case 5:
				pts := []vector3.Float64{rv3(r), rv3(r), rv3(r), rv3(r), rv3(r)}
				sp := curves.CatmullRomSplineParameters{Points: pts, Alpha: 0.5}.Spline()
				ts = repeat.Spline(&sp, n)
			default:
				ts = nil
			}
			if kind == 7 {
				out, err := repeat.MeshNodeData{Mesh: nout(m), Transforms: nout(ts)}.Process()
				if err != nil {
					panic(err)
				}
				return []modeling.Mesh{out}
			}
			return []modeling.Mesh{repeat.Mesh(m, ts)}
		}}
	}
	fs = append(fs, family{name: "repeat.Mesh", gridN: 6 * 8 * 4,
		grid: func(k int) param { return rep(k%6, (k/6)%8, k/48, int64(k)) }, // 0..3 transforms
		sample: func(r *rand.Rand, th bool) param {
			mx := 12
			if th && r.Intn(10) == 0 {
				mx = 120
			}
			return rep(r.Intn(6), r.Intn(8), r.Intn(mx), r.Int63())
		}})

	// ---- triangulation ---------------------------------------------------------------
	bw := func(n, cls int, constrained bool, seed int64) param {
		kind := "BowyerWatson"
		if constrained {
			kind = "ConstrainedBowyerWatson"
		}
		return param{desc: fmt.Sprintf("triangulation.%s(%d points, class %d, seed %d)", kind, n, cls, seed), bucket: fmt.Sprintf("n%s c%d", bucketInt(n), cls), run: func() []modeling.Mesh {
			r := rand.New(rand.NewSource(seed))
			pts := make([]vector2.Float64, n, n+8) // spare capacity: the triangulator appends its super triangle
			ext := []float64{1, 0.05, 1000, 10}[r.Intn(4)]
			for i := range pts {
				switch cls {
				case 0: // general position
					pts[i] = vector2.New(r.Float64(), r.Float64()).Scale(ext)
				case 1: // integer grid: cocircular / collinear subsets
					pts[i] = vector2.New(float64(i%4), float64(i/4))
				case 2: // all collinear
					pts[i] = vector2.New(float64(i), 2*float64(i))
				case 3: // duplicates
					pts[i] = vector2.New(float64(r.Intn(3)), float64(r.Intn(3)))
				case 4: // on a circle
					a := 2 * math.Pi * float64(i) / float64(n)
					pts[i] = vector2.New(math.Cos(a), math.Sin(a)).Scale(ext)
				}
			}
			if cls >= 5 { // an outline of a degenerate-but-accepted structure class used as the point set
				copy(pts, outline(r, n, cls-4))
				for i := range pts {
					pts[i] = pts[i].Scale(ext)
				}
			}
			if constrained {
				sq := []vector2.Float64{vector2.New(0.2, 0.2).Scale(ext), vector2.New(0.8, 0.2).Scale(ext), vector2.New(0.8, 0.8).Scale(ext), vector2.New(0.2, 0.8).Scale(ext)}
				switch r.Intn(5) {
				case 1: // explicit closing point
					sq = append(sq, sq[0])
				case 2: // reversed winding
					sq[1], sq[3] = sq[3], sq[1]
				case 3: // consecutive duplicates and a collinear midpoint
					sq = []vector2.Float64{sq[0], sq[0], sq[0].Add(sq[1]).Scale(0.5), sq[1], sq[2], sq[2], sq[3]}
				case 4: // degenerate: a segment
					sq = sq[:2]
				}
				return []modeling.Mesh{triangulation.ConstrainedBowyerWatson(pts, []triangulation.Constraint{triangulation.NewConstraint(sq)})}
			}
			return []modeling.Mesh{triangulation.BowyerWatson(pts)}
		}}
	}
	fs = append(fs, family{name: "triangulation.BowyerWatson", gridN: 9 * 11,
		grid: func(k int) param { return bw(k%9, k/9, false, int64(k)) }, // 0..8 points (<3 rejected) × 11 classes
		sample: func(r *rand.Rand, th bool) param {
			mx := 40
			if th && r.Intn(10) == 0 {
				mx = 300
			}
			return bw(3+r.Intn(mx), r.Intn(11), false, r.Int63())
		}})
	fs = append(fs, family{name: "triangulation.ConstrainedBowyerWatson", gridN: 9 * 4,
		grid: func(k int) param { return bw(k%9, []int{0, 1, 4, 5}[k/9], true, int64(k)) },
		sample: func(r *rand.Rand, th bool) param {
			return bw(3+r.Intn(40), []int{0, 0, 1, 4, 5, 6, 8}[r.Intn(7)], true, r.Int63())
		}})
	return fs
}

func generators(c *run.Ctx) run.Result {
	var res run.Result
	f := Families[c.Case%len(Families)]
	k := c.Case / len(Families)
	var p param
	how := "sampled"
	if k < f.gridN {
		p = f.grid(k)
		how = "grid"
	} else {
		p = f.sample(c.Rng, c.Tier == "thorough")
	}
	checkGenerator(c, &res, f.name, how, p)
	return res
}

func checkGenerator(c *run.Ctx, res *run.Result, fam, how string, p param) {
	c.Note(fam + " " + p.desc)
	res.SetAdd("generator_families", fam)
	res.Count("generator_params_"+how, 1)
	res.Sig = fam + "|" + p.bucket
	res.Sample = map[string]any{"family": fam, "params": p.desc}
	var outs []modeling.Mesh
	pn := run.Try(func() { outs = p.run() })
	if pn != nil {
		if pn.Runtime {
			res.Violate("runtime-panic", fam, "accepted parameterisation", fmt.Sprintf("%s died with a Go runtime error instead of returning a mesh or rejecting its parameters: %s (innermost polyform frame %s)", p.desc, pn.Value, pn.Site),
				map[string]any{"family": fam, "params": p.desc, "stack_site": pn.Site})
			return
		}
		res.Count("generator_rejected_params", 1)
		res.SetAdd("generators_rejecting", fam)
		return
	}
	prims := 0
	for k, o := range outs {
		if e := ref.WF(o); e != nil {
			res.Violate("ill-formed-result", fam, "accepted parameterisation", fmt.Sprintf("%s returned mesh #%d that is not well-formed: %v", p.desc, k, e),
				map[string]any{"family": fam, "params": p.desc, "result": meshWitness(o)})
			return
		}
		res.Count("generator_results_wf", 1)
		if ap := accessorSweep(o); ap != nil {
			res.Violate("accessor-runtime-panic", fam, "accepted parameterisation", fmt.Sprintf("result of %s passes ref.WF but reading it through the primitive accessors panics: %s", p.desc, ap.Value),
				map[string]any{"family": fam, "params": p.desc, "result": meshWitness(o)})
			return
		}
		res.Count("generator_vertices", int64(ops_attrLen(o)))
		prims += o.Indices().Len()
	}
	res.Nontrivial = prims > 0
}

func ops_attrLen(m modeling.Mesh) int { return ref.AttrLen(m) }

// ---------------------------------------------------------------------------
// marching canvases (small domains) and Field.March

func marchingCase(c *run.Ctx) run.Result {
	var res run.Result
	r := c.Rng
	cpu := []float64{1, 2, 3, 5, 8}[r.Intn(5)]
	nf := 1 + r.Intn(3)
	// Blocks are 100 cells wide and every touched block costs a full 100³ scan: most scenes sit in the
	// middle of one block, some straddle one, two or all three block boundaries (2, 4, 8 blocks; the
	// origin is such a corner because block coordinates are floor(cell/100)).
	u := 100 / cpu // one block in world units
	centre := vector3.New(0.4*u, 0.4*u, 0.4*u)
	layout := "inside one block"
	switch x := r.Intn(20); {
	case x < 4:
		centre = vector3.New(u, 0.4*u, 0.4*u)
		layout = "straddles one block boundary"
	case x < 7:
		centre = vector3.New(u, u, 0.4*u)
		layout = "straddles two block boundaries"
	case x < 9:
		centre = vector3.New(0., 0, 0)
		layout = "block corner (origin)"
	}
	res.SetAdd("marching_scene_layouts(by construction)", layout)
	var fields []marching.Field
	desc := fmt.Sprintf("cubesPerUnit %g centre %v:", cpu, centre.ToArr())
	for i := 0; i < nf; i++ {
		pos := centre.Add(rv3(r).Scale(0.4))
		switch r.Intn(6) {
		case 0, 1:
			rad := 0.3 + r.Float64()*1.2
			fields = append(fields, marching.Sphere(pos, rad, 1+r.Float64()))
			desc += fmt.Sprintf(" Sphere(r %.2f)", rad)
		case 2:
			sz := vector3.New(0.3+r.Float64(), 0.3+r.Float64(), 0.3+r.Float64())
			fields = append(fields, marching.Box(pos, sz, 1))
			desc += " Box"
		case 3:
			fields = append(fields, marching.Line(pos, pos.Add(rv3(r)), 0.2+r.Float64()*0.4, 1))
			desc += " Line"
		case 4:
			pts := []vector3.Float64{pos, pos.Add(rv3(r).Scale(0.5)), pos.Add(rv3(r).Scale(0.5))}
			fields = append(fields, marching.MultiSegmentLine(pts, 0.2+r.Float64()*0.3, 1))
			desc += " MultiSegmentLine"
		default:
			pts := []sdf.LinePoint{{Point: pos, Radius: 0.2 + r.Float64()*0.3}, {Point: pos.Add(rv3(r).Scale(0.6)), Radius: 0.1 + r.Float64()*0.5}}
			fields = append(fields, marching.VarryingThicknessLine(pts, 1))
			desc += " VarryingThicknessLine"
		}
	}
	cutoff := []float64{0, 0, 0.1, -0.1, 5}[r.Intn(5)] // 5: nothing is inside → empty surface
	mode := r.Intn(7)
	var p param
	switch mode {
	case 0, 1, 2, 3, 4:
		add := r.Intn(3)
		par := mode%2 == 1
		p = param{desc: fmt.Sprintf("MarchingCanvas %s add-variant %d parallel-march %v cutoff %g", desc, add, par, cutoff), bucket: fmt.Sprintf("canvas a%d p%v f%d c%g cpu%g", add, par, nf, cutoff, cpu),
			run: func() []modeling.Mesh {
				cv := marching.NewMarchingCanvas(cpu)
				for _, f := range fields {
					switch add {
					case 0:
						cv.AddField(f)
					case 1:
						cv.AddFieldParallel(f)
					default:
						cv.AddFieldParallel2(f)
					}
				}
				if par {
					return []modeling.Mesh{cv.MarchParallel(cutoff)}
				}
				return []modeling.Mesh{cv.March(cutoff)}
			}}
	default:
		withColor := r.Intn(2) == 0
		p = param{desc: fmt.Sprintf("Field.March %s combined, colour %v, cutoff %g", desc, withColor, cutoff), bucket: fmt.Sprintf("field f%d col%v c%g cpu%g", nf, withColor, cutoff, cpu),
			run: func() []modeling.Mesh {
				f := fields[0]
				if len(fields) > 1 {
					f = marching.CombineFields(fields...)
				}
				if withColor {
					f = f.WithColor(color.RGBA{R: 200, G: 10, B: 30, A: 255})
				}
				return []modeling.Mesh{f.March(modeling.PositionAttribute, cpu, cutoff)}
			}}
	}
	checkGenerator(c, &res, "marching", "sampled", p)
	return res
}
