package c02

import (
	"fmt"
	"math"
	"math/rand"
	"strconv"

	"github.com/EliCDavis/polyform/math/curves"
	"github.com/EliCDavis/polyform/math/trs"
	"github.com/EliCDavis/polyform/modeling"
	"github.com/EliCDavis/polyform/modeling/extrude"
	"github.com/EliCDavis/polyform/modeling/primitives"
	"github.com/EliCDavis/polyform/modeling/repeat"
	"github.com/EliCDavis/polyform/modeling/triangulation"
	"github.com/EliCDavis/vector/vector2"
	"github.com/EliCDavis/vector/vector3"
	"polyverif/internal/ref"
	"polyverif/internal/run"
)

// Phase "confusable": sequences of generator calls inside ONE case (one process, no restart)
// whose parameter tuples are mutually confusable for a memo keyed by a lossy function of the
// parameters: decimal-concatenation collisions, swapped integers, equal sum / product / XOR,
// equal low 8 bits, equal integers with different floats, floats that print alike but differ in
// bits, -0 vs +0. After every call the new result gets the full oracle and ALL earlier results of
// the sequence are re-checked: still well-formed and bit-for-bit what they were.

type cfFamily struct {
	name   string
	lo, hi []int // admissible range per integer parameter
	maxMul int   // cap on the product of the integers (mesh size)
	nf     int   // number of float parameters
	build  func(n []int, f []float64) modeling.Mesh
}

func cfPath(np int) []vector3.Float64 {
	p := make([]vector3.Float64, np)
	for i := range p {
		p[i] = vector3.New(math.Sin(float64(i)*0.3), float64(i)*0.2, math.Cos(float64(i)*0.3))
	}
	return p
}

var cfFamilies = []cfFamily{
	{"primitives.UVSphere", []int{2, 3}, []int{300, 300}, 5000, 1, func(n []int, f []float64) modeling.Mesh { return primitives.UVSphere(f[0], n[0], n[1]) }},
	{"primitives.UVSphereUnwelded", []int{2, 3}, []int{300, 300}, 3000, 1, func(n []int, f []float64) modeling.Mesh { return primitives.UVSphereUnwelded(f[0], n[0], n[1]) }},
	{"primitives.Hemisphere.UV", []int{2, 3}, []int{300, 300}, 5000, 1, func(n []int, f []float64) modeling.Mesh {
		return primitives.Hemisphere{Radius: f[0]}.UV(n[0], n[1])
	}},
	{"primitives.UvSphereNode", []int{2, 3}, []int{300, 300}, 4000, 1, func(n []int, f []float64) modeling.Mesh {
		m, err := primitives.UvSphereNodeData{Radius: nout(f[0]), Rows: nout(n[0]), Columns: nout(n[1]), Weld: nout(true)}.Process()
		if err != nil {
			panic(err)
		}
		return m
	}},
	{"primitives.Cylinder", []int{1, 0}, []int{600, 3}, 2400, 2, func(n []int, f []float64) modeling.Mesh {
		return primitives.Cylinder{Sides: n[0], NoTop: n[1]&1 != 0, NoBottom: n[1]&2 != 0, Radius: f[0], Height: f[1]}.ToMesh()
	}},
	{"primitives.Cone", []int{3}, []int{600}, 600, 2, func(n []int, f []float64) modeling.Mesh {
		return primitives.Cone{Sides: n[0], Radius: f[0], Height: f[1]}.ToMesh()
	}},
	{"primitives.Circle", []int{1}, []int{600}, 600, 1, func(n []int, f []float64) modeling.Mesh {
		return primitives.Circle{Sides: n[0], Radius: f[0], UVs: &primitives.CircleUVs{Radius: 0.5}}.ToMesh()
	}},
	{"primitives.Cube.Welded", nil, nil, 1, 3, func(n []int, f []float64) modeling.Mesh {
		return primitives.Cube{Width: f[0], Height: f[1], Depth: f[2], UVs: primitives.DefaultCubeUVs()}.Welded()
	}},
	{"primitives.Cube.UnweldedQuads", nil, nil, 1, 3, func(n []int, f []float64) modeling.Mesh {
		return primitives.Cube{Width: f[0], Height: f[1], Depth: f[2]}.UnweldedQuads()
	}},
	{"primitives.Quad", nil, nil, 1, 2, func(n []int, f []float64) modeling.Mesh { return primitives.Quad{Width: f[0], Depth: f[1]}.ToMesh() }},
	{"extrude.Polygon", []int{3, 2}, []int{300, 300}, 4000, 1, func(n []int, f []float64) modeling.Mesh {
		p := cfPath(n[1])
		pts := make([]extrude.ExtrusionPoint, len(p))
		for i := range pts {
			pts[i] = extrude.ExtrusionPoint{Point: p[i], Thickness: f[0], UV: &extrude.ExtrusionPointUV{Point: vector2.New(0.5, float64(i)), Thickness: 1}}
		}
		return extrude.Polygon(n[0], pts)
	}},
	{"extrude.Circle", []int{3, 2}, []int{300, 300}, 4000, 1, func(n []int, f []float64) modeling.Mesh {
		return extrude.Circle{Resolution: n[0], Radius: f[0], Path: cfPath(n[1])}.Extrude()
	}},
	{"extrude.CircleAlongSpline", []int{3, 2}, []int{100, 100}, 3000, 1, func(n []int, f []float64) modeling.Mesh {
		sp := curves.CatmullRomSplineParameters{Points: []vector3.Float64{vector3.New(0., 0., 0.), vector3.New(1., 1., 0.), vector3.New(2., 0., 1.), vector3.New(3., 1., 1.), vector3.New(4., 0., 0.)}, Alpha: 0.5}.Spline()
		return extrude.CircleAlongSpline{CircleResolution: n[0], SplineResolution: n[1], Radius: f[0], Spline: &sp}.Extrude()
	}},
	{"extrude.Line", []int{2}, []int{600}, 600, 2, func(n []int, f []float64) modeling.Mesh {
		p := cfPath(n[0])
		lp := make([]extrude.LinePoint, len(p))
		for i := range lp {
			lp[i] = extrude.LinePoint{Point: p[i], Up: vector3.Up[float64](), Width: f[0], Height: f[1], Uv: vector2.New(float64(i), 0.5), UvWidth: 0.1}
		}
		return extrude.Line(lp)
	}},
	{"extrude.Shape", []int{1, 2}, []int{300, 300}, 4000, 1, func(n []int, f []float64) modeling.Mesh {
		return extrude.Shape(outline(nil, n[0], 0), cfScaled(cfPath(n[1]), f[0]))
	}},
	{"extrude.ClosedShape", []int{1, 2}, []int{300, 300}, 4000, 1, func(n []int, f []float64) modeling.Mesh {
		return extrude.ClosedShape(outline(nil, n[0], 0), cfScaled(cfPath(n[1]), f[0]))
	}},
	{"extrude.ScrewNode", []int{2, 2}, []int{100, 300}, 4000, 2, func(n []int, f []float64) modeling.Mesh {
		l := make([]vector3.Float64, n[0])
		for i := range l {
			l[i] = vector3.New(0.5+float64(i%3)*0.1, float64(i)*0.3, 0)
		}
		m, err := extrude.ScrewNodeData{Line: nout(l), Segments: nout(n[1]), Revolutions: nout(f[0]), Distance: nout(f[1])}.Process()
		if err != nil {
			panic(err)
		}
		return m
	}},
	{"repeat.Mesh(Cone, repeat.Circle)", []int{3, 0}, []int{300, 60}, 3000, 1, func(n []int, f []float64) modeling.Mesh {
		return repeat.Mesh(primitives.Cone{Sides: n[0], Radius: 0.5, Height: 1}.ToMesh(), repeat.Circle(n[1], f[0]))
	}},
	{"repeat.Mesh(UVSphere, repeat.Line)", []int{2, 3, 0}, []int{40, 40, 12}, 4000, 1, func(n []int, f []float64) modeling.Mesh {
		var ts []trs.TRS
		if n[2] > 0 {
			ts = repeat.LineExlusive(vector3.New(0., 0., 0.), vector3.New(f[0], 1, 0), n[2])
		}
		return repeat.Mesh(primitives.UVSphere(1, n[0], n[1]), ts)
	}},
	{"triangulation.BowyerWatson", []int{3}, []int{300}, 300, 1, func(n []int, f []float64) modeling.Mesh {
		pr := rand.New(rand.NewSource(int64(n[0])))
		pts := make([]vector2.Float64, n[0], n[0]+8)
		for i := range pts {
			pts[i] = vector2.New(pr.Float64(), pr.Float64()).Scale(1 + math.Abs(f[0]))
		}
		return triangulation.BowyerWatson(pts)
	}},
}

func cfScaled(p []vector3.Float64, s float64) []vector3.Float64 {
	for i := range p {
		p[i] = p[i].Scale(1 + math.Abs(s))
	}
	return p
}

var cfKinds = []string{"decimal-concatenation", "swapped", "equal-sum", "equal-product", "equal-xor", "equal-low-8-bits",
	"same-integers-different-floats", "floats-printing-alike", "negative-zero"}

func (f *cfFamily) admissible(n []int) bool {
	mul := 1
	for i, v := range n {
		if v < f.lo[i] || v > f.hi[i] {
			return false
		}
		if v > 1 {
			mul *= v
		}
	}
	return mul <= f.maxMul
}

func (f *cfFamily) randomInts(r *rand.Rand) []int {
	for {
		n := make([]int, len(f.lo))
		for i := range n {
			span := f.hi[i] - f.lo[i] + 1
			if span > 60 && r.Intn(3) != 0 {
				span = 60 // mostly small
			}
			n[i] = f.lo[i] + r.Intn(span)
		}
		if f.admissible(n) {
			return n
		}
	}
}

func sameInts(a, b []int) bool {
	for i := range a {
		if a[i] != b[i] {
			return false
		}
	}
	return true
}

// resplit enumerates the other ways to cut the decimal concatenation of n into len(n) admissible integers.
func (f *cfFamily) resplit(n []int) [][]int {
	s := ""
	for _, v := range n {
		s += strconv.Itoa(v)
	}
	var out [][]int
	var rec func(pos int, cur []int)
	rec = func(pos int, cur []int) {
		k := len(cur)
		if k == len(n) {
			if pos == len(s) && !sameInts(cur, n) && f.admissible(cur) {
				out = append(out, append([]int{}, cur...))
			}
			return
		}
		for end := pos + 1; end <= len(s) && end-pos <= 4; end++ {
			if s[pos] == '0' && end-pos > 1 {
				break
			}
			v, _ := strconv.Atoi(s[pos:end])
			rec(end, append(cur, v))
		}
	}
	rec(0, nil)
	return out
}

// confusableInts returns two different admissible integer tuples that the given kind of lossy key confuses.
func (f *cfFamily) confusableInts(r *rand.Rand, kind string) (a, b []int, ok bool) {
	k := len(f.lo)
	for try := 0; try < 400; try++ {
		a = f.randomInts(r)
		b = append([]int{}, a...)
		switch kind {
		case "decimal-concatenation":
			if alts := f.resplit(a); len(alts) > 0 {
				return a, alts[r.Intn(len(alts))], true
			}
			continue
		case "swapped":
			if k < 2 {
				return nil, nil, false
			}
			i := r.Intn(k - 1)
			b[i], b[i+1] = a[i+1], a[i]
		case "equal-sum":
			if k < 2 {
				return nil, nil, false
			}
			d := 1 + r.Intn(9)
			if r.Intn(2) == 0 {
				d = -d
			}
			b[0], b[1] = a[0]+d, a[1]-d
		case "equal-product":
			if k < 2 {
				return nil, nil, false
			}
			p := a[0] * a[1]
			var fs [][2]int
			for x := 1; x <= p && x <= 300; x++ {
				if p%x == 0 {
					fs = append(fs, [2]int{x, p / x}, [2]int{p / x, x})
				}
			}
			if len(fs) == 0 {
				continue
			}
			c := fs[r.Intn(len(fs))]
			b[0], b[1] = c[0], c[1]
		case "equal-xor":
			if k < 2 {
				return nil, nil, false
			}
			m := 1 << uint(r.Intn(6))
			b[0], b[1] = a[0]^m, a[1]^m
		case "equal-low-8-bits":
			if k < 1 {
				return nil, nil, false
			}
			i := r.Intn(k)
			b[i] = a[i] + 256
			if !f.admissible(b) { // try the smaller partner
				for j := range a {
					a[j] = f.lo[j] + r.Intn(4)
				}
				b = append([]int{}, a...)
				b[i] = a[i] + 256
			}
		default:
			return a, b, true // float kinds: equal integers
		}
		if !sameInts(a, b) && f.admissible(a) && f.admissible(b) {
			return a, b, true
		}
	}
	return nil, nil, false
}

var alikePairs = [][2]float64{
	{1, math.Nextafter(1, 2)},     // 1 vs 1.0000000000000002
	{0.1 + 0.2, 0.3},              // 0.30000000000000004 vs 0.3
	{2, math.Nextafter(2, 3)},     //
	{0.5, math.Nextafter(0.5, 0)}, //
	{1.004, 1.0049},               // equal with %.2f
	{1e-17 + 1, 1},                // identical after rounding: really equal (control)
	{123456789.1, 123456789.2},    // equal with %g (6 significant digits)
	{float64(float32(0.1)), 0.1},  // equal as float32
	{math.Nextafter(3, 4), 3},     //
	{1.25, 1.2500000000000002},    //
}

// confusableFloats returns two float parameter vectors for the kind.
func (f *cfFamily) confusableFloats(r *rand.Rand, kind string) (a, b []float64) {
	a, b = make([]float64, f.nf), make([]float64, f.nf)
	for i := range a {
		a[i] = []float64{1, 0.5, 2, 1.5}[r.Intn(4)]
		b[i] = a[i]
	}
	if f.nf == 0 {
		return
	}
	i := r.Intn(f.nf)
	switch kind {
	case "same-integers-different-floats":
		b[i] = a[i] * (1.5 + r.Float64())
	case "floats-printing-alike":
		p := alikePairs[r.Intn(len(alikePairs))]
		a[i], b[i] = p[0], p[1]
	case "negative-zero":
		a[i], b[i] = 0, math.Copysign(0, -1)
	default: // integer kinds: sometimes equal floats, sometimes not
		if r.Intn(2) == 0 {
			b[i] = a[i] * 2
		}
	}
	return
}

func cfSize(n []int) int {
	m := 1
	for _, v := range n {
		if v > 1 {
			m *= v
		}
	}
	return m
}

type cfCall struct {
	n []int
	f []float64
}

func (c cfCall) String() string { return fmt.Sprintf("%v %v", c.n, c.f) }

func confusableCase(c *run.Ctx) run.Result {
	var res run.Result
	r := c.Rng
	fam := &cfFamilies[c.Case%len(cfFamilies)]
	k0 := (c.Case / len(cfFamilies)) % len(cfKinds)
	// the first kind, starting from the enumerated one, that this family admits (integer kinds need
	// ≥ 2 (or ≥ 1) integers and a confusable pair inside the admissible range, float kinds ≥ 1 float).
	// A sequence = several confusable pairs of one kind; first pair larger tuple first, second pair
	// smaller first, later pairs in random order; the first call of a pair is repeated after the second.
	var kind string
	var seq []cfCall
	pairs := 0
	for d := 0; d < len(cfKinds) && pairs == 0; d++ {
		kind = cfKinds[(k0+d)%len(cfKinds)]
		isFloat := kind == "same-integers-different-floats" || kind == "floats-printing-alike" || kind == "negative-zero"
		if (isFloat && fam.nf == 0) || (!isFloat && len(fam.lo) == 0) {
			continue
		}
		for p := 0; p < 3; p++ {
			var a, b []int
			if len(fam.lo) > 0 {
				var ok bool
				a, b, ok = fam.confusableInts(r, kind)
				if !ok {
					break
				}
			}
			fa, fb := fam.confusableFloats(r, kind)
			x, y := cfCall{a, fa}, cfCall{b, fb}
			largerFirst := p == 0 || (p == 2 && r.Intn(2) == 0)
			if (cfSize(x.n) < cfSize(y.n)) == largerFirst {
				x, y = y, x
			}
			seq = append(seq, x, y, x)
			pairs++
		}
	}
	res.Sig = fmt.Sprintf("confusable|%s|%s", fam.name, kind)
	res.Sample = map[string]any{"family": fam.name, "kind": kind, "calls": fmt.Sprint(seq)}
	if pairs == 0 {
		res.Inconclusive = "reason: no confusable pair of kind " + kind + " inside the admissible range of " + fam.name
		return res
	}
	type got struct {
		m    modeling.Mesh
		snap *ref.Snapshot
		call cfCall
	}
	var earlier []got
	witness := func(upto int) map[string]any {
		var cs []string
		for _, q := range seq[:upto+1] {
			cs = append(cs, q.String())
		}
		return map[string]any{"family": fam.name, "kind": kind, "calls_in_order(ints floats)": cs}
	}
	for i, q := range seq {
		c.Note(fmt.Sprintf("%s %s call %d %s", fam.name, kind, i, q))
		var m modeling.Mesh
		pn := run.Try(func() { m = fam.build(q.n, q.f) })
		if pn != nil {
			if pn.Runtime {
				res.Violate("runtime-panic", fam.name, "call sequence with confusable parameters ("+kind+")",
					fmt.Sprintf("call %d %s of the sequence died with a Go runtime error: %s (innermost polyform frame %s)", i, q, pn.Value, pn.Site), witness(i))
				return res
			}
			res.Count("confusable_calls_rejected", 1)
			continue
		}
		if e := ref.WF(m); e != nil {
			w := witness(i)
			w["result"] = meshWitness(m)
			res.Violate("ill-formed-result", fam.name, "call sequence with confusable parameters ("+kind+")",
				fmt.Sprintf("call %d %s, after the earlier calls of the sequence in the same process, returned a mesh that is not well-formed: %v", i, q, e), w)
			return res
		}
		if ap := accessorSweep(m); ap != nil {
			res.Violate("accessor-runtime-panic", fam.name, "call sequence with confusable parameters ("+kind+")",
				fmt.Sprintf("result of call %d %s passes ref.WF but reading it through the primitive accessors panics: %s", i, q, ap.Value), witness(i))
			return res
		}
		res.Count("confusable_results_wf", 1)
		for j, g := range earlier {
			res.Count("confusable_earlier_results_rechecked", 1)
			msg := ""
			if e := ref.WF(g.m); e != nil {
				msg = "is no longer well-formed: " + e.Error()
			} else if d := g.snap.Diff(ref.Snap(g.m)); d != "" {
				msg = "changed: " + d
			}
			if msg != "" {
				w := witness(i)
				w["earlier_call"] = g.call.String()
				res.Violate("earlier-result-no-longer-well-formed", fam.name, "call sequence with confusable parameters ("+kind+")",
					fmt.Sprintf("after call %d %s, the result of call %d %s %s", i, q, j, g.call, msg), w)
				return res
			}
		}
		earlier = append(earlier, got{m, ref.Snap(m), q})
	}
	res.Count("confusable_sequences", 1)
	res.Count("confusable_pairs/"+kind, int64(pairs))
	res.SetAdd("confusable_families", fam.name)
	res.Nontrivial = len(earlier) >= 2
	return res
}
