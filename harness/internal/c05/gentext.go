package c05

import (
	"fmt"
	"math"
	"math/rand"
	"strconv"
	"strings"
)

// --- generator of valid triangulated OBJ texts (phase load-save) ------------------
//
// A text is a sequence of segments. Segment 0 may hold faces before any `g`;
// every other segment starts with a `g` statement. Inside and around the
// segments `usemtl` statements are placed in every legal arrangement: before the
// `g`, right after it, between faces, several in a row (zero-length ranges),
// after the last face of a group, none at all, the same name again (adjacent
// equal), names reused across groups. The v / vt / vn statements come either all
// first, interleaved with each other, or in one block per segment (the usual
// layout of multi-object exports), always before their first use. All faces of a
// segment use one of the four corner forms the pools allow.

// enableMixedFormsInGroup adds texts whose faces use DIFFERENT corner forms inside one
// group (legal OBJ: the format only demands consistency inside one face statement).
// Before fix 95dd987 the reader appended a normal / uv only for corners that carried
// one and so produced an ill-formed mesh for such a group; saving it rewrote faces with
// out-of-range vt / vn indices. The repaired reader gives corners without a normal / uv
// a zero entry; the load-save oracle matches such corners tolerantly (match.go).
const enableMixedFormsInGroup = true

type textDesc struct {
	Layout        string
	Segments      int // segments with at least one face
	GStatements   int
	Usemtl        int
	Forms         []string
	Flags         []string // arrangement features present
	Faces         int
	Noise         []string
	EmptyGroups   int
	UnnamedFirst  bool
	RepeatedNames bool
}

func (d *textDesc) sig() string {
	return fmt.Sprintf("text/%s/g%d/u%d/%s/%s/%s", d.Layout, d.Segments, imin(d.Usemtl, 6), strings.Join(d.Forms, ""), strings.Join(d.Flags, ","), strings.Join(d.Noise, ","))
}

func imin(a, b int) int {
	if a < b {
		return a
	}
	return b
}

var numberStyles = []string{"int", "fixed3", "fixed6", "shortest", "exp", "g"}

// hugeToken spells a whole-valued number beyond the int64 range (or at its boundary)
// the way exporters and hand-written files do: plain digits, exponent form, with a
// redundant ".0".
func hugeToken(r *rand.Rand) string {
	var t string
	switch r.Intn(8) {
	case 0:
		t = []string{"1e19", "3e20", "2.5e25", "1e30", "3e38", "1.8446744e19", "9.223372e18", "5e22"}[r.Intn(8)]
	case 1:
		t = []string{"9223372036854775808", "9223372036854775807", "18446744073709551616", "9007199254740992", "9223373136366403584"}[r.Intn(5)]
	case 2:
		t = strconv.FormatFloat(float64(float32(math.Ldexp(1, 63)*math.Pow(10, r.Float64()*19.5))), 'f', 0, 64)
	case 3:
		t = strconv.FormatFloat(float64(float32(math.Ldexp(1, 63)*math.Pow(10, r.Float64()*19.5))), 'e', -1, 32)
	case 4:
		t = strconv.FormatFloat(math.Floor(math.Ldexp(1+r.Float64(), 53+r.Intn(10))), 'f', 0, 64)
	case 5:
		t = strconv.FormatFloat(float64(float32(math.Ldexp(1+r.Float64(), 64+r.Intn(60)))), 'f', 1, 64) // "….0"
	case 6:
		t = strconv.FormatFloat(float64(float32(math.Ldexp(1+r.Float64(), 24+r.Intn(39)))), 'f', -1, 64) // whole float32 below 2^63
	case 7:
		t = strconv.FormatFloat(math.Floor(math.Ldexp(1+r.Float64(), 20))+0.5, 'f', -1, 64) // k + 0.5, exactly a float32
	}
	if r.Intn(2) == 0 {
		t = "-" + t
	}
	return t
}

func fmtNumber(r *rand.Rand, style string) string {
	switch style {
	case "huge-whole":
		if r.Intn(3) != 0 {
			return hugeToken(r)
		}
		return strconv.Itoa(r.Intn(11) - 5)
	case "int":
		return strconv.Itoa(r.Intn(11) - 5)
	case "fixed3":
		return strconv.FormatFloat(r.Float64()*20-10, 'f', 3, 64)
	case "fixed6":
		return strconv.FormatFloat(r.Float64()*2-1, 'f', 6, 64)
	case "shortest":
		return strconv.FormatFloat(r.Float64()*200-100, 'f', -1, 64)
	case "exp":
		return strconv.FormatFloat((r.Float64()*2-1)*1e-3, 'e', 4, 64)
	case "g":
		return strconv.FormatFloat(float64(float32(r.NormFloat64()*50)), 'g', -1, 32)
	}
	return "0"
}

func fmtUnit(r *rand.Rand, style string) string {
	switch style {
	case "huge-whole":
		if r.Intn(3) == 0 {
			return hugeToken(r)
		}
		return strconv.FormatFloat(r.Float64(), 'f', 3, 64)
	case "int":
		return strconv.Itoa(r.Intn(2))
	case "fixed3":
		return strconv.FormatFloat(r.Float64(), 'f', 3, 64)
	case "exp":
		return strconv.FormatFloat(r.Float64(), 'e', 5, 64)
	case "shortest":
		return strconv.FormatFloat(r.Float64(), 'f', -1, 64)
	}
	return strconv.FormatFloat(r.Float64(), 'f', 6, 64)
}

var groupNames = []string{"A", "B", "Cube", "Cube.001", "wheel_fl", "default", "g1", "Body-Main", "lod0", "z"}
var mtlNames = []string{"m0", "m1", "Material.001", "steel", "None"}

type textGen struct {
	r       *rand.Rand
	sb      strings.Builder
	sep     func() string
	eol     string
	nv      int // v statements emitted so far
	nt, nn  int
	style   string
	d       *textDesc
	flags   map[string]bool
	noise   map[string]bool
	vExtra  string
	vtThree bool
}

func (g *textGen) line(tokens ...string) {
	s := g.sep
	for i, t := range tokens {
		if i > 0 {
			g.sb.WriteString(s())
		}
		g.sb.WriteString(t)
	}
	if g.noise["trailing-space"] && g.r.Intn(4) == 0 {
		g.sb.WriteString(" ")
	}
	g.sb.WriteString(g.eol)
	g.chatter()
}

func (g *textGen) raw(s string) { g.sb.WriteString(s + g.eol) }

// chatter inserts statements without influence on faces.
func (g *textGen) chatter() {
	if g.noise["comments"] && g.r.Intn(9) == 0 {
		g.raw([]string{"# a comment", "#", "#f 1 2 3", "# g hidden usemtl hidden", "# v 9 9 9"}[g.r.Intn(5)])
	}
	if g.noise["blank"] && g.r.Intn(9) == 0 {
		g.raw([]string{"", "   ", "\t"}[g.r.Intn(3)])
	}
	if g.noise["s/o"] && g.r.Intn(12) == 0 {
		g.raw([]string{"s off", "s 1", "o object", "s 0"}[g.r.Intn(4)])
	}
}

func (g *textGen) emitV(k int) {
	for i := 0; i < k; i++ {
		tk := []string{"v", fmtNumber(g.r, g.style), fmtNumber(g.r, g.style), fmtNumber(g.r, g.style)}
		switch g.vExtra {
		case "w":
			tk = append(tk, "1.0")
		case "rgb":
			tk = append(tk, fmtUnit(g.r, "fixed3"), fmtUnit(g.r, "fixed3"), fmtUnit(g.r, "fixed3"))
		}
		g.line(tk...)
		g.nv++
	}
}

func (g *textGen) emitVT(k int) {
	for i := 0; i < k; i++ {
		tk := []string{"vt", fmtUnit(g.r, g.style), fmtUnit(g.r, g.style)}
		if g.vtThree {
			tk = append(tk, "0.0")
		}
		g.line(tk...)
		g.nt++
	}
}

func (g *textGen) emitVN(k int) {
	for i := 0; i < k; i++ {
		g.line("vn", fmtNumber(g.r, g.style), fmtNumber(g.r, g.style), fmtNumber(g.r, g.style))
		g.nn++
	}
}

func (g *textGen) cornerToken(form string) string {
	v := 1 + g.r.Intn(g.nv)
	switch form {
	case "v/vt":
		return fmt.Sprintf("%d/%d", v, 1+g.r.Intn(g.nt))
	case "v//vn":
		return fmt.Sprintf("%d//%d", v, 1+g.r.Intn(g.nn))
	case "v/vt/vn":
		return fmt.Sprintf("%d/%d/%d", v, 1+g.r.Intn(g.nt), 1+g.r.Intn(g.nn))
	}
	return strconv.Itoa(v)
}

func (g *textGen) flag(s string) {
	if !g.flags[s] {
		g.flags[s] = true
		g.d.Flags = append(g.d.Flags, s)
	}
}

func tokenHas(t string) (vt, vn bool) {
	p := strings.Split(t, "/")
	return len(p) >= 2 && p[1] != "", len(p) == 3 && p[2] != ""
}

// mixedFlags records, from the tokens actually written for a mixed group, the states
// that matter to a reader that builds per-vertex arrays: which NEW vertices (first
// occurrence of a token) lack an attribute that another vertex of the group carries.
func (g *textGen) mixedFlags(faces [][3]string) {
	seen := map[string]bool{}
	var order []string // new tokens in order of first occurrence
	anyT, anyN := false, false
	for _, f := range faces {
		for _, t := range f {
			if !seen[t] {
				seen[t] = true
				order = append(order, t)
			}
			vt, vn := tokenHas(t)
			anyT, anyN = anyT || vt, anyN || vn
		}
	}
	if len(order) == 0 {
		return
	}
	ft, fn := tokenHas(order[0])
	lt, ln := tokenHas(order[len(order)-1])
	if anyN && !ln {
		g.flag("mixed:last-new-vertex-lacks-vn")
	}
	if anyT && !lt {
		g.flag("mixed:last-new-vertex-lacks-vt")
	}
	if anyN && !fn {
		g.flag("mixed:first-vertex-lacks-vn")
	}
	if anyT && !ft {
		g.flag("mixed:first-vertex-lacks-vt")
	}
	// the last face: only old tokens, or new ones?
	last := faces[len(faces)-1]
	before := map[string]bool{}
	for _, f := range faces[:len(faces)-1] {
		for _, t := range f {
			before[t] = true
		}
	}
	newInLast := 0
	for _, t := range last {
		if !before[t] {
			newInLast++
		}
	}
	lvt, lvn := tokenHas(last[0])
	poorLast := (anyN && !lvn) || (anyT && !lvt)
	switch {
	case poorLast && newInLast == 0:
		g.flag("mixed:trailing-poor-face-reuses-tokens")
	case poorLast:
		g.flag("mixed:trailing-poor-face-new-tokens")
	default:
		g.flag("mixed:trailing-rich-face")
	}
}

func formCode(f string) string {
	switch f {
	case "v":
		return "p"
	case "v/vt":
		return "t"
	case "v//vn":
		return "n"
	}
	return "a"
}

func genText(r *rand.Rand, tier string) (string, *textDesc) {
	d := &textDesc{}
	g := &textGen{r: r, d: d, flags: map[string]bool{}, noise: map[string]bool{}, eol: "\n"}
	g.style = numberStyles[r.Intn(len(numberStyles))]
	if r.Intn(25) == 0 {
		g.style = "huge-whole" // a few % of the texts
		d.Noise = append(d.Noise, "huge-whole")
	}
	for _, nz := range []string{"comments", "blank", "s/o", "trailing-space"} {
		if r.Intn(4) == 0 {
			g.noise[nz] = true
			d.Noise = append(d.Noise, nz)
		}
	}
	switch r.Intn(6) {
	case 0:
		g.sep = func() string { return "\t" }
		d.Noise = append(d.Noise, "tabs")
	case 1:
		g.sep = func() string { return strings.Repeat(" ", 1+r.Intn(3)) }
		d.Noise = append(d.Noise, "multi-space")
	default:
		g.sep = func() string { return " " }
	}
	if r.Intn(6) == 0 {
		g.eol = "\r\n"
		d.Noise = append(d.Noise, "crlf")
	}
	switch r.Intn(8) {
	case 0:
		g.vExtra = "w"
		d.Noise = append(d.Noise, "v-w")
	case 1:
		g.vExtra = "rgb"
		d.Noise = append(d.Noise, "v-rgb")
	}
	if r.Intn(5) == 0 {
		g.vtThree = true
		d.Noise = append(d.Noise, "vt-3")
	}
	d.Layout = []string{"pools-first", "pools-interleaved", "block-per-group"}[r.Intn(3)]
	wantT, wantN := r.Intn(3) != 0, r.Intn(3) != 0

	if r.Intn(3) == 0 {
		g.raw("# exported by some tool")
	}
	if r.Intn(3) == 0 {
		g.raw("mtllib scene.mtl")
		d.Noise = append(d.Noise, "mtllib")
	}
	if r.Intn(6) == 0 {
		g.raw("o scene")
	}
	switch d.Layout {
	case "pools-first":
		g.emitV(3 + r.Intn(10))
		if wantT {
			g.emitVT(1 + r.Intn(8))
		}
		if wantN {
			g.emitVN(1 + r.Intn(8))
		}
	case "pools-interleaved":
		nv, nt, nn := 3+r.Intn(10), 0, 0
		if wantT {
			nt = 1 + r.Intn(8)
		}
		if wantN {
			nn = 1 + r.Intn(8)
		}
		for nv+nt+nn > 0 {
			switch p := r.Intn(nv + nt + nn); {
			case p < nv:
				g.emitV(1)
				nv--
			case p < nv+nt:
				g.emitVT(1)
				nt--
			default:
				g.emitVN(1)
				nn--
			}
		}
	}

	nG := r.Intn(6) // number of g statements
	if r.Intn(3) == 0 {
		nG = 2 + r.Intn(3)
	}
	facesBeforeG := nG == 0 || r.Intn(4) == 0
	maxFaces := 5
	if tier == "thorough" && r.Intn(10) == 0 {
		maxFaces = 30
	}
	namePerm := r.Perm(len(groupNames))
	usedNames := []string{}
	curMat := ""
	matUsedInGroup := map[string]int{} // material name -> number of distinct groups using it
	segCount := nG
	first := 0
	if !facesBeforeG {
		first = 1
	}
	for s := first; s <= segCount; s++ {
		isG := s > 0
		// per-segment definitions
		if d.Layout == "block-per-group" {
			g.emitV(1 + r.Intn(5))
			if g.nv < 3 {
				g.emitV(3 - g.nv)
			}
			if wantT && (g.nt == 0 || r.Intn(2) == 0) {
				g.emitVT(1 + r.Intn(4))
			}
			if wantN && (g.nn == 0 || r.Intn(2) == 0) {
				g.emitVN(1 + r.Intn(4))
			}
		}
		usemtlHere := func(where string) {
			name := mtlNames[r.Intn(len(mtlNames))]
			if curMat != "" && r.Intn(5) == 0 {
				name = curMat
				g.flag("usemtl-same-again")
			}
			g.line("usemtl", name)
			curMat = name
			d.Usemtl++
			g.flag(where)
		}
		if isG {
			if r.Intn(5) == 0 {
				usemtlHere("usemtl-before-g")
			}
			name := groupNames[namePerm[(s-1)%len(namePerm)]]
			if len(usedNames) > 0 && r.Intn(8) == 0 {
				name = usedNames[r.Intn(len(usedNames))]
				d.RepeatedNames = true
				g.flag("group-name-again")
			}
			usedNames = append(usedNames, name)
			g.line("g", name)
			d.GStatements++
			if curMat != "" {
				g.flag("g-with-material-in-force")
			}
		} else {
			d.UnnamedFirst = true
			g.flag("faces-before-any-g")
		}
		nf := 1 + r.Intn(maxFaces)
		if isG && r.Intn(7) == 0 {
			nf = 0
			d.EmptyGroups++
			g.flag("empty-group")
		}
		// corner form of this segment
		forms := []string{"v"}
		if g.nt > 0 {
			forms = append(forms, "v/vt")
		}
		if g.nn > 0 {
			forms = append(forms, "v//vn")
		}
		if g.nt > 0 && g.nn > 0 {
			forms = append(forms, "v/vt/vn", "v/vt/vn")
		}
		form := forms[r.Intn(len(forms))]
		mixed := enableMixedFormsInGroup && len(forms) > 1 && r.Intn(6) == 0
		// A mixed group: which faces carry MORE attributes (rich form) and which fewer
		// (poor form) — rich first, last, in the middle, around a poor middle, or at random.
		var plan []string // form of face f when the arrangement is planned
		marr := ""
		if mixed && nf > 0 {
			g.flag("mixed-forms-in-group")
			if nf < 3 {
				nf = 3 + r.Intn(3)
			}
			rich := forms[1+r.Intn(len(forms)-1)]
			var poorer []string
			for _, f := range forms {
				if f != rich && (f == "v" || rich == "v/vt/vn") {
					poorer = append(poorer, f)
				}
			}
			poor := poorer[r.Intn(len(poorer))]
			marr = []string{"random", "rich-first", "rich-last", "rich-middle", "poor-middle"}[r.Intn(5)]
			a := 1 + r.Intn(nf-2)       // 1 … nf-2
			b := a + 1 + r.Intn(nf-a-1) // a+1 … nf-1
			plan = make([]string, nf)
			for f := range plan {
				var isRich bool
				switch marr {
				case "rich-first":
					isRich = f < a
				case "rich-last":
					isRich = f >= a
				case "rich-middle":
					isRich = f >= a && f < b
				case "poor-middle":
					isRich = f < a || f >= b
				default:
					isRich = r.Intn(2) == 0
				}
				plan[f] = poor
				if isRich {
					plan[f] = rich
				}
				if marr == "random" {
					plan[f] = forms[r.Intn(len(forms))]
				}
			}
			g.flag("mixed:" + marr)
		}
		// usemtl arrangement inside the segment
		arr := r.Intn(6)
		usedHere := 0
		if nf > 0 {
			d.Segments++
			d.Forms = append(d.Forms, formCode(form))
		}
		if arr >= 1 && r.Intn(2) == 0 {
			usemtlHere("usemtl-after-g")
			usedHere++
			if r.Intn(6) == 0 {
				usemtlHere("usemtl-twice-in-a-row")
				usedHere++
			}
		}
		var faceTokens [][3]string
		for f := 0; f < nf; f++ {
			if f > 0 && arr >= 2 && r.Intn(3) == 0 {
				usemtlHere("usemtl-between-faces")
				usedHere++
				if r.Intn(6) == 0 {
					usemtlHere("usemtl-twice-in-a-row")
					usedHere++
				}
			}
			var tk [3]string
			if len(faceTokens) > 0 && r.Intn(8) == 0 {
				tk = faceTokens[r.Intn(len(faceTokens))] // the same face again
			} else {
				if plan != nil {
					form = plan[f]
				}
				tk = [3]string{g.cornerToken(form), g.cornerToken(form), g.cornerToken(form)}
				if plan != nil && r.Intn(3) == 0 {
					// reuse tokens of the same form that the group already used (no new vertex)
					var same []string
					for _, ft := range faceTokens {
						for _, t := range ft {
							if strings.Count(t, "/") == strings.Count(tk[0], "/") && strings.Contains(t, "//") == strings.Contains(tk[0], "//") {
								same = append(same, t)
							}
						}
					}
					for k := range tk {
						if len(same) > 0 && r.Intn(4) != 0 {
							tk[k] = same[r.Intn(len(same))]
						}
					}
				}
				if r.Intn(10) == 0 {
					tk[2] = tk[0] // degenerate face
				}
			}
			faceTokens = append(faceTokens, tk)
			g.line("f", tk[0], tk[1], tk[2])
			d.Faces++
			if curMat == "" {
				g.flag("faces-without-material")
			} else {
				matUsedInGroup[fmt.Sprintf("%s@%d", curMat, s)]++
			}
		}
		if plan != nil {
			g.mixedFlags(faceTokens)
		}
		if nf > 0 && arr >= 4 && r.Intn(2) == 0 {
			usemtlHere("usemtl-after-last-face")
			usedHere++
		}
		if usedHere >= 2 {
			g.flag("several-usemtl-in-group")
		}
		if usedHere == 0 && nf > 0 {
			g.flag("group-without-usemtl")
		}
	}
	// a material reused across groups?
	seen := map[string]map[string]bool{}
	for k := range matUsedInGroup {
		p := strings.SplitN(k, "@", 2)
		if seen[p[0]] == nil {
			seen[p[0]] = map[string]bool{}
		}
		seen[p[0]][p[1]] = true
	}
	for _, gs := range seen {
		if len(gs) > 1 {
			g.flag("material-reused-across-groups")
			break
		}
	}
	text := g.sb.String()
	if r.Intn(6) == 0 && strings.HasSuffix(text, g.eol) {
		text = strings.TrimSuffix(text, g.eol) // last line without terminator
		d.Noise = append(d.Noise, "no-final-eol")
	}
	return text, d
}
