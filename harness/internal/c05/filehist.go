package c05

import (
	"fmt"
	"image/color"
	"os"
	"path/filepath"
	"strings"

	"github.com/EliCDavis/polyform/formats/obj"
	"github.com/EliCDavis/polyform/modeling"

	"polyverif/internal/run"
)

// --- phase file-histories -------------------------------------------------------------
//
// One case = a history of 3–6 obj.Save / obj.SaveAll / obj.Load calls in ONE process on
// ONE path (and, in a third of the histories, on a second path in another directory
// whose files have the same names, scene.obj / scene.mtl). Between two saves the
// materials change: new names, or the same names with another diffuse colour and
// specular exponent. Every Load must return what the LAST save on that path wrote:
// groups, corners, material name per triangle, and — materials being resolved from the
// library by name — the definition the last save wrote for that name (Kd to 2/255 per
// channel, Ns at float32 precision).

type matProps struct {
	ns float64
	kd [3]uint8
}

type savedState struct {
	exp    []*expMesh
	byName bool
	props  map[string]matProps // by material name, as written by the last save
	how    string
	step   int
}

// rematerial gives every material of the list a definition that depends on the version:
// either the same name (new colour / exponent) or a new name.
func rematerial(list []obj.ObjMesh, exp []*expMesh, version int, rename bool) map[string]matProps {
	props := map[string]matProps{}
	byName := map[string]*modeling.Material{}
	newName := func(old string) string {
		if rename {
			return fmt.Sprintf("%s_v%d", old, version)
		}
		return old
	}
	get := func(old string) *modeling.Material {
		nn := newName(old)
		if m, ok := byName[nn]; ok {
			return m
		}
		h := run.HashStr(nn) % 5
		kd := [3]uint8{uint8((40*version + 37*int(h)) % 256), uint8((90*version + 11) % 256), uint8((200 + 50*version) % 256)}
		ns := float64(5+13*version) + float64(h)/4
		m := &modeling.Material{Name: nn, DiffuseColor: color.RGBA{kd[0], kd[1], kd[2], 255}, SpecularHighlight: ns, OpticalDensity: 1}
		byName[nn] = m
		props[nn] = matProps{ns: ns, kd: kd}
		return m
	}
	for j := range list {
		old := list[j].Mesh.Materials()
		if len(old) == 0 {
			continue
		}
		nr := make([]modeling.MeshMaterial, len(old))
		for i, r := range old {
			nr[i] = modeling.MeshMaterial{PrimitiveCount: r.PrimitiveCount}
			if r.Material != nil {
				nr[i].Material = get(r.Material.Name)
			}
		}
		list[j].Mesh = list[j].Mesh.SetMaterials(nr)
		e := exp[j]
		for t, nm := range e.Mats {
			if nm != "" && nm != nameOfNil {
				e.Mats[t] = newName(nm)
			}
		}
		if e.LastRange != "" && e.LastRange != nameOfNil {
			e.LastRange = newName(e.LastRange)
		}
	}
	// the default material (written for a nil pointer): white, Ns 100
	props[nameOfNil] = matProps{ns: 100, kd: [3]uint8{255, 255, 255}}
	return props
}

func fileHistories(c *run.Ctx) run.Result {
	var res run.Result
	r := c.Rng
	root, cleanup, err := scratchDir(c)
	if err != nil {
		res.Inconclusive = "no scratch directory: " + err.Error()
		return res
	}
	defer cleanup()
	paths := map[string]string{"P": filepath.Join(root, "a", "scene.obj"), "Q": filepath.Join(root, "b", "scene.obj")}
	for _, p := range paths {
		os.MkdirAll(filepath.Dir(p), 0o755)
	}
	twoPaths := r.Intn(3) == 0
	L := 3 + r.Intn(4)
	ops := make([]string, L)
	kinds := []string{"save:P", "saveall:P", "load:P", "save:P", "saveall:P", "load:P"}
	if twoPaths {
		kinds = append(kinds, "save:Q", "saveall:Q", "load:Q", "load:P")
	}
	for i := range ops {
		ops[i] = kinds[r.Intn(len(kinds))]
	}
	ops[0] = []string{"save:P", "saveall:P"}[r.Intn(2)]
	ops[L-1] = "load:P"
	if L >= 4 { // load, then a save with changed materials, then load again
		ops[1] = "load:P"
		ops[2] = []string{"save:P", "saveall:P", "saveall:P"}[r.Intn(3)]
	}
	state := map[string]*savedState{}
	var codes []string
	version := 0
	loadsAfterResave := 0
	for i, op := range ops {
		parts := strings.SplitN(op, ":", 2)
		what, pk := parts[0], parts[1]
		path := paths[pk]
		step := fmt.Sprintf("step %d/%d %s of history %v", i+1, L, op, ops)
		if what == "load" {
			st := state[pk]
			if st == nil {
				codes = append(codes, "skip")
				continue // nothing saved on this path yet
			}
			codes = append(codes, "load:"+pk)
			wit := map[string]any{"step": step, "last_save": fmt.Sprintf("step %d (%s)", st.step, st.how)}
			if b, e := os.ReadFile(path); e == nil {
				wit["obj_on_disk"] = clip(string(b), 1500)
			}
			if b, e := os.ReadFile(strings.TrimSuffix(path, ".obj") + ".mtl"); e == nil {
				wit["mtl_on_disk"] = clip(string(b), 1200)
			}
			c.Note("obj.Load " + step)
			var back []obj.ObjMesh
			var lerr error
			if p := run.Try(func() { back, lerr = obj.Load(path) }); p != nil {
				res.Violate(panicClass(p), "obj.Load", step, p.Value+"\n"+p.Stack, wit)
				continue
			}
			if lerr != nil {
				res.Violate("read-error", "obj.Load", step, lerr.Error(), wit)
				continue
			}
			site := "obj.Load after " + st.how
			if !checkReadBack(&res, back, st.exp, site, step, st.byName, wit) {
				continue
			}
			// the definitions behind the names
			ok := true
			for _, om := range back {
				for _, rg := range om.Mesh.Materials() {
					if rg.PrimitiveCount == 0 || rg.Material == nil {
						continue
					}
					want, known := st.props[rg.Material.Name]
					if !known {
						continue
					}
					got := rg.Material
					var kd [3]int
					hasKd := got.DiffuseColor != nil
					if hasKd {
						cr, cg, cb, _ := got.DiffuseColor.RGBA()
						kd = [3]int{int(cr >> 8), int(cg >> 8), int(cb >> 8)}
					}
					near := func(a int, b uint8) bool { d := a - int(b); return d >= -2 && d <= 2 }
					if !eqDecimalF32(want.ns, got.SpecularHighlight) || !hasKd || !near(kd[0], want.kd[0]) || !near(kd[1], want.kd[1]) || !near(kd[2], want.kd[2]) {
						res.Violate("material-definition-stale", site, step,
							fmt.Sprintf("group %q material %q: the last save on this path (step %d) wrote Ns %v Kd %v/255, obj.Load resolved the name to Ns %v Kd %v (present: %v)",
								om.Name, got.Name, st.step, want.ns, want.kd, got.SpecularHighlight, kd, hasKd), wit)
						ok = false
					}
					res.Count("material_definitions_compared", 1)
				}
			}
			if ok {
				res.Count("history_loads_equal_last_save", 1)
				if st.step > 0 && version > 1 {
					loadsAfterResave++
				}
			}
			continue
		}
		// a save with a fresh list and materials of a new version
		version++
		list, exp, ld := genList(r, c.Tier)
		rename := r.Intn(2) == 0
		how := "obj.SaveAll"
		if what == "save" {
			how = "obj.Save"
			list, exp = list[:1], exp[:1]
			list[0].Name, exp[0].Name = "", ""
		}
		_ = ld
		props := rematerial(list, exp, version, rename)
		wit := map[string]any{"step": step, "list": listWitness(list)}
		c.Note(how + " " + step)
		var serr error
		if p := run.Try(func() {
			if what == "save" {
				serr = obj.Save(path, list[0].Mesh)
			} else {
				m := map[string]modeling.Mesh{}
				for _, om := range list {
					m[om.Name] = om.Mesh
				}
				serr = obj.SaveAll(path, m)
			}
		}); p != nil {
			res.Violate(panicClass(p), how, step, p.Value+"\n"+p.Stack, wit)
			delete(state, pk)
			codes = append(codes, "failed")
			continue
		}
		if serr != nil {
			res.Violate("write-error", how, step, serr.Error(), wit)
			delete(state, pk)
			codes = append(codes, "failed")
			continue
		}
		hasMats := false
		for _, e := range exp {
			hasMats = hasMats || e.HasRanges
		}
		code := what + ":" + pk
		if hasMats {
			code += "+mtl"
			if rename {
				code += "(new names)"
			} else {
				code += "(same names)"
			}
			res.SetAdd("history_material_changes", map[bool]string{true: "new names", false: "same names, new definitions"}[rename])
		}
		codes = append(codes, code)
		state[pk] = &savedState{exp: exp, byName: what == "saveall", props: props, how: how, step: i + 1}
		res.Count("history_saves", 1)
	}
	res.Sig = "filehist/" + strings.Join(codes, ",")
	res.Sample = map[string]any{"history": codes}
	res.Nontrivial = loadsAfterResave > 0
	res.Count("file_histories", 1)
	res.Count("history_loads_after_a_resave_with_other_materials", int64(loadsAfterResave))
	if twoPaths {
		res.Count("file_histories_on_two_paths_sharing_file_names", 1)
	}
	return res
}
