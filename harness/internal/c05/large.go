package c05

import (
	"fmt"
	"math/rand"
	"strconv"
	"strings"

	"github.com/EliCDavis/polyform/formats/obj"
	"github.com/EliCDavis/polyform/modeling"
	"github.com/EliCDavis/vector/vector2"
	"github.com/EliCDavis/vector/vector3"

	"polyverif/internal/run"
)

// --- phase large ------------------------------------------------------------------------
//
// Long uninterrupted runs of faces (around typical batch sizes 1024·k, 4096, 8192,
// 65536 …) and more than 65 536 vertices, through the same three oracles:
//
//	kind 0  list with one large mesh (+ small meshes of other attribute sets) → write → read
//	kind 1  generated large TEXT (long runs of f statements, many v/vt/vn) → load → save
//	kind 2  list with one large mesh through obj.Save / obj.SaveAll / obj.Load on disk
//
// Case i uses run length largeRuns[i mod 9] and kind (i + i/9) mod 3, so that every
// length meets every kind; attribute set and material arrangement rotate with i.

var largeRuns = []int{1023, 1024, 1025, 2047, 2049, 4097, 8193, 20000, 70000}
var largeRangeKinds = []string{"no-materials", "one-range", "several-long-ranges", "long-ranges-with-zero-length-between"}

func eighths(r *rand.Rand) float64 { return float64(r.Intn(4001)-2000) / 8 }

// genBigMesh builds a mesh whose longest material range (or, without materials, whose
// whole face list) is a run of exactly `run` triangles.
func genBigMesh(r *rand.Rand, name string, hasN, hasT bool, run int, rangeKind string) (modeling.Mesh, *expMesh, meshDesc) {
	d := meshDesc{Name: name, Class: "eighths"}
	// material ranges first: they fix the number of triangles
	var counts []int
	switch rangeKind {
	case "no-materials", "one-range":
		counts = []int{run}
	case "several-long-ranges":
		counts = []int{run, 1 + r.Intn(run), run - r.Intn(imin(run, 3))}
	default: // long ranges separated by zero-length ranges (also first and last)
		counts = []int{0, run, 0, 0, 1 + r.Intn(run), 0}
	}
	n := 0
	for _, k := range counts {
		n += k
	}
	// index pattern: a welded grid, or unwelded triangles; large ones get > 65 536 vertices
	var idx []int
	var V int
	if r.Intn(2) == 0 || 3*n > 65536 {
		d.Pattern = "identity+unreferenced"
		V = 3 * n
		idx = make([]int, V)
		for i := range idx {
			idx[i] = i
		}
		if n >= 20000 && V <= 65536 {
			V = 65537 + r.Intn(1000)
		} else {
			V += r.Intn(5)
		}
	} else {
		d.Pattern = "grid"
		w := 16 + r.Intn(100)
		h := (n + 2*w - 1) / (2 * w)
		V = (w + 1) * (h + 1)
		for y := 0; y < h && len(idx) < 3*n; y++ {
			for x := 0; x < w && len(idx) < 3*n; x++ {
				a, b, c, e := y*(w+1)+x, y*(w+1)+x+1, (y+1)*(w+1)+x, (y+1)*(w+1)+x+1
				idx = append(idx, a, b, e)
				if len(idx) < 3*n {
					idx = append(idx, a, e, c)
				}
			}
		}
		d.Shared = true
	}
	d.Verts, d.Tris = V, n
	pos := make([][3]float64, V)
	nor := make([][3]float64, V)
	uv := make([][2]float64, V)
	wide := run <= 4097 && r.Intn(2) == 0
	if wide {
		d.Class = "f64"
	}
	for i := 0; i < V; i++ {
		if wide {
			pos[i] = [3]float64{r.Float64()*20 - 10, r.Float64()*20 - 10, r.Float64()*20 - 10}
		} else {
			pos[i] = [3]float64{eighths(r), eighths(r), eighths(r)}
		}
		nor[i] = [3]float64{float64(r.Intn(5)-2) / 2, float64(r.Intn(5)-2) / 2, float64(r.Intn(5)-2) / 2}
		uv[i] = [2]float64{float64(r.Intn(129)) / 128, float64(r.Intn(129)) / 128}
	}
	m := modeling.NewTriangleMesh(append([]int(nil), idx...))
	p3 := make([]vector3.Float64, V)
	for i := range p3 {
		p3[i] = vector3.New(pos[i][0], pos[i][1], pos[i][2])
	}
	m = m.SetFloat3Attribute(modeling.PositionAttribute, p3)
	d.Attrs = "P"
	if hasN {
		a := make([]vector3.Float64, V)
		for i := range a {
			a[i] = vector3.New(nor[i][0], nor[i][1], nor[i][2])
		}
		m = m.SetFloat3Attribute(modeling.NormalAttribute, a)
		d.Attrs += "N"
	}
	if hasT {
		a := make([]vector2.Float64, V)
		for i := range a {
			a[i] = vector2.New(uv[i][0], uv[i][1])
		}
		m = m.SetFloat2Attribute(modeling.TexCoordAttribute, a)
		d.Attrs += "T"
	}
	e := &expMesh{Name: name, HasN: hasN, HasT: hasT, Tris: make([][3]corner, n), Mats: make([]string, n)}
	for t := 0; t < n; t++ {
		for k := 0; k < 3; k++ {
			v := idx[3*t+k]
			c := corner{P: pos[v]}
			if hasN {
				c.N = nor[v]
			}
			if hasT {
				c.T = uv[v]
			}
			e.Tris[t][k] = c
		}
	}
	d.MatKind = rangeKind
	if rangeKind != "no-materials" {
		pool := []*modeling.Material{{Name: "steel"}, {Name: "glass"}, {Name: "paint_red"}}
		ranges := make([]modeling.MeshMaterial, len(counts))
		at := 0
		for i, k := range counts {
			mat := pool[i%len(pool)]
			if rangeKind == "long-ranges-with-zero-length-between" && i == 4 && r.Intn(2) == 0 {
				mat = pool[1] // the same material again after zero-length ranges
			}
			ranges[i] = modeling.MeshMaterial{PrimitiveCount: k, Material: mat}
			for q := 0; q < k; q++ {
				e.Mats[at] = mat.Name
				at++
			}
			if k == 0 {
				d.ZeroLen++
			}
			e.LastRange = mat.Name
		}
		m = m.SetMaterials(ranges)
		e.HasRanges = true
	}
	return m, e, d
}

// genBigList: the large mesh at a random place among 0–2 small meshes.
func genBigList(r *rand.Rand, tier string, run int, attrs int, rangeKind string, single bool) ([]obj.ObjMesh, []*expMesh, *listDesc) {
	ld := &listDesc{Variant: "WriteMeshes"}
	hasN, hasT := attrs&1 != 0, attrs&2 != 0
	k := 1 + r.Intn(3)
	if single {
		k = 1
	}
	bigAt := r.Intn(k)
	pool := materialPool(r)
	var list []obj.ObjMesh
	var exp []*expMesh
	for j := 0; j < k; j++ {
		name := fmt.Sprintf("%s%d", meshNames[r.Intn(len(meshNames))], j)
		var m modeling.Mesh
		var e *expMesh
		var d meshDesc
		if j == bigAt {
			m, e, d = genBigMesh(r, name, hasN, hasT, run, rangeKind)
		} else {
			m, e, d = genOneMesh(r, name, r.Intn(2) == 0, r.Intn(2) == 0, pool, false)
		}
		list = append(list, obj.ObjMesh{Name: name, Mesh: m})
		exp = append(exp, e)
		ld.Meshes = append(ld.Meshes, d)
	}
	if k == 1 && r.Intn(2) == 0 {
		ld.Variant = "WriteMesh"
		list[0].Name, exp[0].Name = "", ""
	}
	return list, exp, ld
}

// genBigText writes a valid text with a run of `run` faces that no g or usemtl interrupts.
func genBigText(r *rand.Rand, run int, form string, rangeKind string) (string, *textDesc) {
	d := &textDesc{Layout: "pools-first", Noise: []string{"large"}}
	var sb strings.Builder
	sb.Grow(run * 40)
	nv := run/2 + 3
	if run >= 20000 {
		nv = 65537 + r.Intn(5000) // more vertices than 16 bits address
	}
	nt, nn := 0, 0
	if strings.Contains(form, "vt") {
		nt = 1 + run/3
	}
	if strings.Contains(form, "vn") {
		nn = 1 + run/5
	}
	num := func() string { return strconv.FormatFloat(eighths(r), 'f', -1, 64) }
	for i := 0; i < nv; i++ {
		sb.WriteString("v " + num() + " " + num() + " " + num() + "\n")
	}
	for i := 0; i < nt; i++ {
		sb.WriteString("vt " + strconv.FormatFloat(float64(r.Intn(129))/128, 'f', -1, 64) + " " + strconv.FormatFloat(float64(r.Intn(129))/128, 'f', -1, 64) + "\n")
	}
	for i := 0; i < nn; i++ {
		sb.WriteString("vn " + num() + " " + num() + " " + num() + "\n")
	}
	tok := func() string {
		v := 1 + r.Intn(nv)
		switch form {
		case "v/vt":
			return fmt.Sprintf("%d/%d", v, 1+r.Intn(nt))
		case "v//vn":
			return fmt.Sprintf("%d//%d", v, 1+r.Intn(nn))
		case "v/vt/vn":
			return fmt.Sprintf("%d/%d/%d", v, 1+r.Intn(nt), 1+r.Intn(nn))
		}
		return strconv.Itoa(v)
	}
	faces := func(k int) {
		for i := 0; i < k; i++ {
			sb.WriteString("f " + tok() + " " + tok() + " " + tok() + "\n")
			d.Faces++
		}
	}
	usemtl := func(name string) {
		sb.WriteString("usemtl " + name + "\n")
		d.Usemtl++
	}
	group := func(name string) {
		sb.WriteString("g " + name + "\n")
		d.GStatements++
		d.Segments++
		d.Forms = append(d.Forms, formCode(form))
	}
	// a small group before, the long run, a small group after
	if r.Intn(2) == 0 {
		group("before")
		faces(1 + r.Intn(4))
	}
	group("big")
	switch rangeKind {
	case "no-materials":
		faces(run)
	case "one-range":
		usemtl("steel")
		faces(run)
	case "several-long-ranges":
		usemtl("steel")
		faces(run)
		usemtl("glass")
		faces(1 + r.Intn(run))
		usemtl("steel")
		faces(run - r.Intn(imin(run, 3)))
	default:
		usemtl("paint")
		usemtl("steel")
		faces(run)
		usemtl("glass")
		usemtl("glass")
		usemtl("steel")
		faces(1 + r.Intn(run))
		usemtl("last")
	}
	if r.Intn(2) == 0 {
		group("after")
		faces(1 + r.Intn(4))
	}
	d.Flags = []string{"large:" + rangeKind}
	return sb.String(), d
}

func large(c *run.Ctx) run.Result {
	r := c.Rng
	i := c.Case
	run0 := largeRuns[i%len(largeRuns)]
	kind := (i + i/len(largeRuns)) % 3
	attrs := (i/3 + i/27) % 4 // P, PN, PT, PNT
	rangeKind := largeRangeKinds[(i+i/4)%len(largeRangeKinds)]
	var res run.Result
	kindName := ""
	switch kind {
	case 0:
		kindName = "write-read"
		list, exp, ld := genBigList(r, c.Tier, run0, attrs, rangeKind, false)
		res.Sig = ld.sig()
		res.Sample = ld
		input := fmt.Sprintf("list of %d meshes, one with a run of %d triangles (%s)", len(list), run0, rangeKind)
		roundTrip(c, &res, list, exp, ld.Variant, input, listWitness(list))
		if len(res.Violations) == 0 {
			checkLibrary(c, &res, list, exp, listWitness(list))
		}
	case 1:
		kindName = "load-save"
		form := []string{"v", "v//vn", "v/vt", "v/vt/vn"}[attrs]
		text, d := genBigText(r, run0, form, rangeKind)
		res = loadSaveText(c, text, d)
	default:
		kindName = "files"
		list, exp, ld := genBigList(r, c.Tier, run0, attrs, rangeKind, r.Intn(2) == 0)
		res = filesWith(c, list, exp, ld)
	}
	res.Sig = fmt.Sprintf("large/%s/run%d/%s/%s", kindName, run0, []string{"P", "PN", "PT", "PNT"}[attrs], rangeKind)
	res.Nontrivial = len(res.Violations) == 0
	res.SetAdd("large_runs", fmt.Sprint(run0))
	res.SetAdd("large_kinds", kindName)
	res.SetAdd("large_range_kinds", rangeKind)
	res.SetAdd("large_attribute_sets", []string{"P", "PN", "PT", "PNT"}[attrs])
	res.Count("large_cases", 1)
	if len(res.Violations) == 0 {
		res.Count("large_run_triangles_checked", int64(run0))
	}
	return res
}
