package c05

import (
	"fmt"
	"os"
	"path/filepath"

	"github.com/EliCDavis/polyform/formats/obj"
	"github.com/EliCDavis/polyform/modeling"

	"polyverif/internal/run"
)

// --- phase files: the same oracles through obj.Save / obj.SaveAll / obj.Load -------------

// scratchDir returns a fresh directory inside the worker's scratch directory; the second
// result removes it.
func scratchDir(c *run.Ctx) (string, func(), error) {
	d := filepath.Join(scratch(c), fmt.Sprintf("c05-files-%d-%d", os.Getpid(), c.Case))
	if err := os.MkdirAll(d, 0o755); err != nil {
		return "", nil, err
	}
	return d, func() { os.RemoveAll(d) }, nil
}

func files(c *run.Ctx) run.Result {
	list, exp, ld := genList(c.Rng, c.Tier)
	return filesWith(c, list, exp, ld)
}

// filesWith is the files oracle for one list.
func filesWith(c *run.Ctx, list []obj.ObjMesh, exp []*expMesh, ld *listDesc) run.Result {
	var res run.Result
	variant := "SaveAll"
	if len(list) == 1 {
		variant = "Save"
		// obj.Save writes one unnamed mesh
		list[0].Name = ""
		exp[0].Name = ""
	}
	ld.Variant = variant
	res.Sig = "files/" + ld.sig()
	res.Sample = ld
	multiRange := false
	for _, d := range ld.Meshes {
		if d.MatKind != "none" && d.MatKind != "one-range" {
			multiRange = true
		}
	}
	res.Nontrivial = len(list) >= 2 || multiRange
	res.Count("file_cases", 1)
	res.SetAdd("file_variants", variant)
	wit := listWitness(list)
	input := fmt.Sprintf("list of %d named triangle meshes via obj.%s + obj.Load", len(list), variant)

	dir, cleanup, err := scratchDir(c)
	if err != nil {
		res.Inconclusive = "no scratch directory: " + err.Error()
		return res
	}
	defer cleanup()
	path := filepath.Join(dir, "scene.obj")
	c.Note("obj." + variant + " " + path)
	if p := run.Try(func() {
		if variant == "Save" {
			err = obj.Save(path, list[0].Mesh)
		} else {
			m := map[string]modeling.Mesh{}
			for _, om := range list {
				m[om.Name] = om.Mesh
			}
			err = obj.SaveAll(path, m)
		}
	}); p != nil {
		res.Violate(panicClass(p), "obj."+variant, input, p.Value+"\n"+p.Stack, wit)
		return res
	}
	if err != nil {
		res.Violate("write-error", "obj."+variant, input, err.Error(), wit)
		return res
	}
	text, rerr := os.ReadFile(path)
	if rerr != nil {
		res.Inconclusive = "cannot read back the saved file: " + rerr.Error()
		return res
	}
	w2 := map[string]any{"list": wit, "written_text": clip(string(text), 2000)}
	if lib, e := os.ReadFile(filepath.Join(dir, "scene.mtl")); e == nil {
		w2["written_mtl"] = clip(string(lib), 800)
		res.Count("mtl_files_written", 1)
	}
	// the file on disk, interpreted independently (group order of SaveAll is the map's: by name)
	if variant == "Save" {
		checkTextMeansList(&res, string(text), exp, "obj.Save", input, w2)
	} else if m, ierr := interpretOBJ(string(text)); ierr != nil {
		res.Violate("invalid-obj-text", "obj.SaveAll", input, "the independent interpreter rejects the saved file: "+ierr.Error(), w2)
	} else {
		total := 0
		for _, e := range exp {
			total += len(e.Tris)
		}
		if len(m.Faces) != total {
			res.Violate("face-count-in-text", "obj.SaveAll", input, fmt.Sprintf("the list has %d triangles, the saved file has %d face statements", total, len(m.Faces)), w2)
		}
	}
	c.SaveInput(text)
	c.Note("obj.Load " + path)
	var back []obj.ObjMesh
	if p := run.Try(func() { back, err = obj.Load(path) }); p != nil {
		res.Violate(panicClass(p), "obj.Load", "files written by obj."+variant, p.Value+"\n"+p.Stack, w2)
		return res
	}
	if err != nil {
		res.Violate("read-error", "obj.Load", "files written by obj."+variant, err.Error(), w2)
		return res
	}
	if checkReadBack(&res, back, exp, "obj.Load(obj."+variant+")", input, variant == "SaveAll", w2) {
		res.Count("file_round_trips_equal", 1)
	}
	return res
}
