package c05

import (
	"fmt"
	"math"
	"strings"

	"github.com/EliCDavis/polyform/formats/obj"
	"github.com/EliCDavis/polyform/modeling"

	"polyverif/internal/ref"
)

// The abstract content of a list of OBJ meshes, in the unit the property speaks
// about: per mesh a name, and per triangle (in order) three corners with
// position / optional normal / optional texture coordinate and one material name.

type corner struct {
	P [3]float64
	N [3]float64
	T [2]float64
}

type expMesh struct {
	Name       string
	HasN, HasT bool
	Tris       [][3]corner
	Mats       []string // per triangle; "" = no material
	HasRanges  bool     // the mesh carries material ranges
	LastRange  string   // name of its last range (what `usemtl` leaves in force), "" if none
}

// nameOfNil is how the writer spells a nil material (modeling.DefaultMaterial()
// is called "Default Diffuse" and the writer removes blanks from material names).
const nameOfNil = "DefaultDiffuse"

func matName(m *modeling.Material) string {
	if m == nil {
		return nameOfNil
	}
	return m.Name
}

// viewOf reads a polyform mesh through its public accessors into the abstract
// content. resultSide: the mesh was returned by polyform (a nil material pointer
// in a range is then not the writer's "default" but a missing material).
func viewOf(name string, m modeling.Mesh, resultSide bool) (*expMesh, error) {
	if m.Topology() != modeling.TriangleTopology {
		return nil, fmt.Errorf("topology %v", m.Topology())
	}
	if err := ref.WF(m); err != nil {
		return nil, err
	}
	e := &expMesh{Name: name}
	idx := m.Indices()
	n := idx.Len() / 3
	hasP := m.HasFloat3Attribute(modeling.PositionAttribute)
	if !hasP && n > 0 {
		return nil, fmt.Errorf("%d triangles but no Position attribute", n)
	}
	e.HasN = m.HasFloat3Attribute(modeling.NormalAttribute)
	e.HasT = m.HasFloat2Attribute(modeling.TexCoordAttribute)
	e.Tris = make([][3]corner, n)
	for t := 0; t < n; t++ {
		for k := 0; k < 3; k++ {
			v := idx.At(3*t + k)
			var c corner
			p := m.Float3Attribute(modeling.PositionAttribute).At(v)
			c.P = [3]float64{p.X(), p.Y(), p.Z()}
			if e.HasN {
				q := m.Float3Attribute(modeling.NormalAttribute).At(v)
				c.N = [3]float64{q.X(), q.Y(), q.Z()}
			}
			if e.HasT {
				q := m.Float2Attribute(modeling.TexCoordAttribute).At(v)
				c.T = [2]float64{q.X(), q.Y()}
			}
			e.Tris[t][k] = c
		}
	}
	e.Mats = make([]string, n)
	ranges := m.Materials()
	e.HasRanges = len(ranges) > 0
	at := 0
	for _, r := range ranges {
		nm := matName(r.Material)
		if r.Material == nil && resultSide {
			nm = "<nil material pointer>"
		}
		if r.PrimitiveCount < 0 {
			return nil, fmt.Errorf("material range %q has negative length %d", nm, r.PrimitiveCount)
		}
		for q := 0; q < r.PrimitiveCount; q++ {
			if at < n {
				e.Mats[at] = nm
			}
			at++
		}
		e.LastRange = nm
	}
	if at > n {
		return e, fmt.Errorf("material ranges cover %d triangles, the mesh has %d", at, n)
	}
	return e, nil
}

// eqDecimalF32 decides whether got is what a float32-precision reader must
// obtain from the shortest-round-trip decimal of x: float32(x), except when x
// lies exactly half way between two float32 values (then the decimal may fall
// on either side and the neighbour on the other side is equally right).
func eqDecimalF32(x, got float64) bool {
	f := float64(float32(x))
	if got == f {
		return true
	}
	if float64(float32(got)) != got {
		return false // not a float32 value at all
	}
	return math.Abs(x-f) == math.Abs(x-got) && math.Abs(x-f) > 0
}

func eqVec(a, b []float64) bool {
	for i := range a {
		if !eqDecimalF32(a[i], b[i]) {
			return false
		}
	}
	return true
}

// cornerDiff compares an expected corner with an observed one ("" = equal at float32 precision).
func cornerDiff(w, g corner, hasN, hasT bool) string {
	if !eqVec(w.P[:], g.P[:]) {
		return fmt.Sprintf("position %v (float32 %v) vs %v", w.P, f32s(w.P[:]), g.P)
	}
	if hasN && !eqVec(w.N[:], g.N[:]) {
		return fmt.Sprintf("normal %v (float32 %v) vs %v", w.N, f32s(w.N[:]), g.N)
	}
	if hasT && !eqVec(w.T[:], g.T[:]) {
		return fmt.Sprintf("texcoord %v (float32 %v) vs %v", w.T, f32s(w.T[:]), g.T)
	}
	return ""
}

func f32s(a []float64) []float32 {
	out := make([]float32, len(a))
	for i, v := range a {
		out[i] = float32(v)
	}
	return out
}

// materialOK: may a triangle whose expected material is want carry got after the
// round trip? carried = the set of names an OBJ `usemtl` statement of an earlier
// mesh may have left in force when this mesh carries no ranges at all.
func materialOK(want, got string, meshHasRanges bool, carried map[string]bool) bool {
	if want == got {
		return true
	}
	if !meshHasRanges && want == "" && carried[got] {
		return true // OBJ has no "no material" statement: the previous usemtl stays in force
	}
	return false
}

func attrSet(e *expMesh) string {
	s := "P"
	if e.HasN {
		s += "N"
	}
	if e.HasT {
		s += "T"
	}
	return s
}

func matsSummary(m []string) string {
	if len(m) == 0 {
		return "[]"
	}
	var sb strings.Builder
	prev, run := m[0], 0
	flush := func() {
		fmt.Fprintf(&sb, "%q×%d ", prev, run)
	}
	for _, x := range m {
		if x != prev {
			flush()
			prev, run = x, 0
		}
		run++
	}
	flush()
	return strings.TrimSpace(sb.String())
}

// listWitness renders a small list of meshes for a replay file.
func listWitness(list []obj.ObjMesh) any {
	var out []map[string]any
	total := 0
	for _, om := range list {
		if n := om.Mesh.Indices().Len(); n > 300 { // a large mesh is described, not listed
			total += n
			out = append(out, map[string]any{"name": om.Name, "triangles": n / 3, "vertices": ref.AttrLen(om.Mesh),
				"float3": om.Mesh.Float3Attributes(), "float2": om.Mesh.Float2Attributes(), "material_ranges": rangesOf(om.Mesh)})
			continue
		}
		s := ref.Snap(om.Mesh)
		total += len(s.Indices)
		e := map[string]any{"name": om.Name, "indices": s.Indices, "material_ranges": rangesOf(om.Mesh)}
		if total < 100 {
			e["attributes"] = s.Data
		} else {
			e["attributes"] = s.Names
		}
		out = append(out, e)
	}
	return out
}

func rangesOf(m modeling.Mesh) []string {
	var out []string
	for _, r := range m.Materials() {
		out = append(out, fmt.Sprintf("%s×%d", matName(r.Material), r.PrimitiveCount))
	}
	return out
}
