package c05

import (
	"bytes"
	"errors"
	"fmt"
	"io"
	"strings"

	"github.com/EliCDavis/polyform/formats/obj"
	"github.com/EliCDavis/polyform/modeling"

	"polyverif/internal/run"
)

// --- phase fault-sequences ----------------------------------------------------------
//
// One case = a short history (3–8 operations, one goroutine) that interleaves
// operations on GOOD writers / readers with operations on FAILING ones:
//
//	Gl  a fresh list through the complete write-read oracle
//	Gt  a fresh text through the complete load-save oracle
//	Fw  obj.WriteMeshes / obj.WriteMesh of a fresh list to a writer that fails for good
//	    after k bytes (k inside the comment line, the v block, the vt/vn block, a g line,
//	    a usemtl line, the faces, or the very last byte)
//	Fm  obj.WriteMaterials to such a writer
//	Fr  obj.ReadMesh from a reader that fails after k bytes (k at a line boundary)
//
// Oracle: a write to a failing writer and a read from a failing reader must report an
// error (and must not panic); every good operation must satisfy its complete ordinary
// oracle whatever failed before it (a writer or reader must not carry state from a
// failed call into a later one).

var errInjected = errors.New("injected I/O failure")

// failWriter accepts limit bytes and then fails on every call.
type failWriter struct {
	limit   int
	partial bool // the failing call still takes the bytes that fit and reports n < len(p) with the error
	n       int
	failed  bool
	calls   int
	got     []byte
}

func (w *failWriter) Write(p []byte) (int, error) {
	w.calls++
	if w.failed {
		return 0, errInjected
	}
	room := w.limit - w.n
	if len(p) <= room {
		w.n += len(p)
		w.got = append(w.got, p...)
		return len(p), nil
	}
	w.failed = true
	if w.partial {
		w.n += room
		w.got = append(w.got, p[:room]...)
		return room, errInjected
	}
	return 0, errInjected
}

// failReader delivers limit bytes of data in chunks and then fails on every call.
type failReader struct {
	data     []byte
	limit    int
	chunk    int
	withData bool // the last chunk is returned together with the error
	err      error
	pos      int
}

func (r *failReader) Read(p []byte) (int, error) {
	if r.pos >= r.limit {
		return 0, r.err
	}
	n := len(p)
	if n > r.chunk {
		n = r.chunk
	}
	if n > r.limit-r.pos {
		n = r.limit - r.pos
	}
	copy(p, r.data[r.pos:r.pos+n])
	r.pos += n
	if r.pos >= r.limit && r.withData {
		return n, r.err
	}
	return n, nil
}

// merge folds the result of one step into the result of the history.
func merge(dst *run.Result, src run.Result, step string) {
	for k, v := range src.Counters {
		dst.Count(k, v)
	}
	for k, els := range src.Sets {
		for _, e := range els {
			dst.SetAdd(k, e)
		}
	}
	for _, v := range src.Violations {
		dst.Violate(v.Class, v.Site, step+": "+v.Input, v.Detail, v.Witness)
	}
	if src.Inconclusive != "" && dst.Inconclusive == "" {
		dst.Inconclusive = step + ": " + src.Inconclusive
	}
}

type lineSpan struct {
	kind       string
	start, end int // byte range including the line terminator
}

// spansOf classifies the lines of a written text by their statement.
func spansOf(text []byte) []lineSpan {
	var out []lineSpan
	at := 0
	for at < len(text) {
		e := bytes.IndexByte(text[at:], '\n')
		end := len(text)
		if e >= 0 {
			end = at + e + 1
		}
		line := string(text[at:end])
		kind := "other"
		switch f := strings.Fields(line); {
		case len(f) == 0:
			kind = "blank"
		case f[0] == "v":
			kind = "v"
		case f[0] == "vt" || f[0] == "vn":
			kind = "vt/vn"
		case f[0] == "g":
			kind = "g"
		case f[0] == "usemtl":
			kind = "usemtl"
		case f[0] == "f":
			kind = "f"
		case strings.HasPrefix(f[0], "#"):
			kind = "comment"
		case f[0] == "newmtl":
			kind = "newmtl"
		}
		out = append(out, lineSpan{kind, at, end})
		at = end
	}
	return out
}

// pickFault chooses the byte after which the writer fails: a random byte of a random
// line of a random statement kind, or the very last byte.
func pickFault(c *run.Ctx, text []byte) (k int, where string) {
	if c.Rng.Intn(7) == 0 {
		return len(text) - 1, "last-byte"
	}
	spans := spansOf(text)
	kinds := map[string][]lineSpan{}
	var order []string
	for _, s := range spans {
		if _, ok := kinds[s.kind]; !ok {
			order = append(order, s.kind)
		}
		kinds[s.kind] = append(kinds[s.kind], s)
	}
	kind := order[c.Rng.Intn(len(order))]
	s := kinds[kind][c.Rng.Intn(len(kinds[kind]))]
	k = s.start + c.Rng.Intn(s.end-s.start)
	if k >= len(text) {
		k = len(text) - 1
	}
	return k, kind
}

func faultSequences(c *run.Ctx) run.Result {
	var res run.Result
	r := c.Rng
	L := 3 + r.Intn(6)
	ops := make([]string, L)
	fkinds := []string{"Fw", "Fw", "Fm", "Fr"}
	gkinds := []string{"Gl", "Gl", "Gt"}
	for i := range ops {
		if r.Intn(2) == 0 {
			ops[i] = fkinds[r.Intn(len(fkinds))]
		} else {
			ops[i] = gkinds[r.Intn(len(gkinds))]
		}
	}
	ops[L-1] = gkinds[r.Intn(len(gkinds))]              // a history ends with a good operation …
	ops[r.Intn(L-1)] = fkinds[r.Intn(len(fkinds))]      // … and contains a failing one before it
	if r.Intn(3) == 0 && L >= 4 && ops[L-2][0] != 'F' { // failing write right before the last good write
		ops[L-2] = "Fw"
	}
	var codes []string
	bodyFaultBeforeGood := false
	pendingBodyFault := false
	for i, op := range ops {
		step := fmt.Sprintf("step %d/%d %s of history %v", i+1, L, op, ops)
		switch op {
		case "Gl":
			merge(&res, writeRead(c), step)
			codes = append(codes, "Gl")
			res.Count("good_ops_in_histories", 1)
			if pendingBodyFault {
				bodyFaultBeforeGood = true
			}
		case "Gt":
			merge(&res, loadSave(c), step)
			codes = append(codes, "Gt")
			res.Count("good_ops_in_histories", 1)
			if pendingBodyFault {
				bodyFaultBeforeGood = true
			}
		case "Fw", "Fm":
			where, body := failingWrite(c, &res, op, step)
			codes = append(codes, op+":"+where)
			pendingBodyFault = pendingBodyFault || body
		case "Fr":
			where := failingRead(c, &res, step)
			codes = append(codes, "Fr:"+where)
			pendingBodyFault = true
		}
	}
	res.Sig = "fault/" + strings.Join(codes, ",")
	res.Nontrivial = bodyFaultBeforeGood
	res.Sample = map[string]any{"history": codes}
	res.Count("fault_histories", 1)
	return res
}

// failingWrite: one write of a fresh list (or of its material library) to a failing writer.
func failingWrite(c *run.Ctx, res *run.Result, op, step string) (where string, body bool) {
	list, _, ld := genList(c.Rng, c.Tier)
	variant := ld.Variant
	var ranges []modeling.MeshMaterial
	for _, om := range list {
		ranges = append(ranges, om.Mesh.Materials()...)
	}
	if op == "Fm" && len(ranges) == 0 {
		op = "Fw"
	}
	site := "obj.WriteMeshes"
	write := func(w io.Writer) error { return obj.WriteMeshes(list, "", w) }
	switch {
	case op == "Fm":
		site = "obj.WriteMaterials"
		write = func(w io.Writer) error { return obj.WriteMaterials(ranges, w) }
	case variant == "WriteMesh":
		site = "obj.WriteMesh"
		write = func(w io.Writer) error { return obj.WriteMesh(list[0].Mesh, "", w) }
	case variant == "WriteMeshes+mtllib":
		write = func(w io.Writer) error { return obj.WriteMeshes(list, "scene.mtl", w) }
	}
	wit := map[string]any{"step": step, "list": listWitness(list)}
	// size and layout of the complete output (a good write; it is judged by the ordinary
	// oracle in the Gl steps, here it only tells where the statements lie)
	var probe bytes.Buffer
	var err error
	if p := run.Try(func() { err = write(&probe) }); p != nil || err != nil {
		if p != nil {
			res.Violate(panicClass(p), site, step+": good writer", p.Value+"\n"+p.Stack, wit)
		} else {
			res.Violate("write-error", site, step+": good writer", err.Error(), wit)
		}
		return "probe-failed", false
	}
	text := probe.Bytes()
	if len(text) == 0 {
		return "empty", false
	}
	k, where := pickFault(c, text)
	fw := &failWriter{limit: k, partial: c.Rng.Intn(2) == 0}
	mode := "refuse"
	if fw.partial {
		mode = "partial"
	}
	wit["fails_after_bytes"] = k
	wit["of_bytes"] = len(text)
	wit["fault_in"] = where
	wit["mode"] = mode
	c.Note(fmt.Sprintf("%s to a writer failing after %d of %d bytes (%s, %s)", site, k, len(text), where, mode))
	p := run.Try(func() { err = write(fw) })
	res.SetAdd("write_fault_positions", where)
	res.SetAdd("write_fault_modes", mode)
	res.SetAdd("write_fault_sites", site)
	switch {
	case p != nil:
		res.Violate(panicClass(p), site+" (failing writer)", step, p.Value+"\n"+p.Stack, wit)
	case err == nil:
		res.Count("failed_writes_not_reported_as_error(evidence only)", 1) // no property demands that a failed write is reported: evidence only, never a verdict
	default:
		res.Count("failed_writes_reported", 1)
		// measured, not judged: what reached the writer before the failure
		if bytes.HasPrefix(text, fw.got) {
			res.Count("failed_write_output_is_prefix_of_good_output", 1)
		} else {
			res.Count("failed_write_output_is_not_a_prefix", 1)
		}
	}
	return where, where != "comment"
}

// failingRead: obj.ReadMesh from a reader that fails at a line boundary of a valid text.
func failingRead(c *run.Ctx, res *run.Result, step string) string {
	text, _ := genText(c.Rng, c.Tier)
	// line boundaries
	var cuts []int
	cuts = append(cuts, 0)
	for i := 0; i < len(text)-1; i++ {
		if text[i] == '\n' {
			cuts = append(cuts, i+1)
		}
	}
	k := cuts[c.Rng.Intn(len(cuts))]
	where := "start"
	switch {
	case k > 0 && k >= len(text)*2/3:
		where = "late"
	case k > 0:
		where = "early"
	}
	errs := []error{errInjected, io.ErrUnexpectedEOF, io.ErrClosedPipe}
	fr := &failReader{data: []byte(text), limit: k, chunk: 1 + c.Rng.Intn(200), withData: c.Rng.Intn(2) == 0, err: errs[c.Rng.Intn(len(errs))]}
	wit := map[string]any{"step": step, "text": clip(text, 1500), "fails_after_bytes": k, "error": fr.err.Error(), "with_data": fr.withData}
	c.Note(fmt.Sprintf("obj.ReadMesh from a reader failing after %d of %d bytes", k, len(text)))
	var err error
	p := run.Try(func() { _, _, err = obj.ReadMesh(fr) })
	res.SetAdd("read_fault_positions", where)
	switch {
	case p != nil:
		res.Violate(panicClass(p), "obj.ReadMesh (failing reader)", step, p.Value+"\n"+p.Stack, wit)
	case err == nil:
		res.Violate("read-error-not-reported", "obj.ReadMesh (failing reader)", step,
			fmt.Sprintf("the reader failed with %q after %d of %d bytes (a line boundary) but obj.ReadMesh returned no error", fr.err, k, len(text)), wit)
	default:
		res.Count("failed_reads_reported", 1)
	}
	// measured, not judged: a failure in the middle of a line hands the parser a cut
	// statement (an invalid text): error, panic or silent acceptance are only counted
	if len(text) > 4 {
		km := 1 + c.Rng.Intn(len(text)-2)
		fm := &failReader{data: []byte(text), limit: km, chunk: 64, err: errInjected}
		var e2 error
		switch p2 := run.Try(func() { _, _, e2 = obj.ReadMesh(fm) }); {
		case p2 != nil:
			res.Count("midline_read_failure_panics", 1)
		case e2 != nil:
			res.Count("midline_read_failure_errors", 1)
		default:
			res.Count("midline_read_failure_accepted", 1)
		}
	}
	return where
}
