package c05

import "fmt"

// Face matching for "loses or invents no face".
//
// A face of the input text must be matched one-to-one by a face of the re-saved
// text. For a face that lies in a group whose faces all use one corner form the
// match is strict: same three positions in order, the same corner form, the same
// normal / texture coordinate at every corner. A group may legally MIX the forms
// v, v/vt, v//vn and v/vt/vn; a mesh has one attribute set for all its vertices, so
// a corner of such a group that referenced no normal (texture coordinate) may come
// back with none or with a zero one. Corners that HAD a normal / texture coordinate
// must keep it, in mixed groups too.

func (f *refFace) posKey() string {
	return fmt.Sprintf("%v,%v,%v|%v,%v,%v|%v,%v,%v",
		z(f.C[0].P[0]), z(f.C[0].P[1]), z(f.C[0].P[2]),
		z(f.C[1].P[0]), z(f.C[1].P[1]), z(f.C[1].P[2]),
		z(f.C[2].P[0]), z(f.C[2].P[1]), z(f.C[2].P[2]))
}

// mixedSegments returns the set of segments (faces between two g statements) whose
// corners do not all use the same form.
func mixedSegments(faces []refFace) map[int]bool {
	type form struct{ t, n bool }
	first := map[int]form{}
	mixed := map[int]bool{}
	for i := range faces {
		for _, c := range faces[i].C {
			fm := form{c.HasT, c.HasN}
			if f0, ok := first[faces[i].Seg]; !ok {
				first[faces[i].Seg] = fm
			} else if f0 != fm {
				mixed[faces[i].Seg] = true
			}
		}
	}
	return mixed
}

// faceMatches: may the output face out stand for the input face in?
func faceMatches(in, out *refFace, tolerant bool) bool {
	for k := 0; k < 3; k++ {
		a, b := in.C[k], out.C[k]
		if a.P != b.P && !(z(a.P[0]) == z(b.P[0]) && z(a.P[1]) == z(b.P[1]) && z(a.P[2]) == z(b.P[2])) {
			return false
		}
		switch {
		case a.HasN:
			if !b.HasN || !(a.N[0] == b.N[0] && a.N[1] == b.N[1] && a.N[2] == b.N[2]) {
				return false
			}
		case b.HasN:
			if !tolerant || !(b.N[0] == 0 && b.N[1] == 0 && b.N[2] == 0) {
				return false
			}
		}
		switch {
		case a.HasT:
			if !b.HasT || !(a.T[0] == b.T[0] && a.T[1] == b.T[1]) {
				return false
			}
		case b.HasT:
			if !tolerant || !(b.T[0] == 0 && b.T[1] == 0) {
				return false
			}
		}
	}
	return true
}

// matchFaces computes a maximum one-to-one matching between input and output faces
// (augmenting paths inside each class of equal positions). It returns, for every
// input face, the index of its output face or -1, and for every output face whether
// it is matched.
func matchFaces(in, out []refFace, mixed map[int]bool) (inTo []int, outUsed []bool) {
	inTo = make([]int, len(in))
	for i := range inTo {
		inTo[i] = -1
	}
	outFrom := make([]int, len(out))
	for i := range outFrom {
		outFrom[i] = -1
	}
	byPos := map[string][]int{}
	for j := range out {
		k := out[j].posKey()
		byPos[k] = append(byPos[k], j)
	}
	var try func(i int, seen map[int]bool) bool
	try = func(i int, seen map[int]bool) bool {
		for _, j := range byPos[in[i].posKey()] {
			if seen[j] || !faceMatches(&in[i], &out[j], mixed[in[i].Seg]) {
				continue
			}
			seen[j] = true
			if outFrom[j] == -1 || try(outFrom[j], seen) {
				outFrom[j] = i
				inTo[i] = j
				return true
			}
		}
		return false
	}
	// first pass: prefer the face at the same place in the sequence (the usual case),
	// so that the order/group/material counters describe the natural pairing
	for i := range in {
		if i < len(out) && outFrom[i] == -1 && faceMatches(&in[i], &out[i], mixed[in[i].Seg]) {
			outFrom[i], inTo[i] = i, i
		}
	}
	for i := range in {
		if inTo[i] == -1 {
			try(i, map[int]bool{})
		}
	}
	outUsed = make([]bool, len(out))
	for j, i := range outFrom {
		outUsed[j] = i != -1
	}
	return inTo, outUsed
}
