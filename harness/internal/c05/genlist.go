package c05

import (
	"fmt"
	"math"
	"math/rand"
	"strings"

	"github.com/EliCDavis/polyform/formats/obj"
	"github.com/EliCDavis/polyform/modeling"
	"github.com/EliCDavis/vector/vector2"
	"github.com/EliCDavis/vector/vector3"
)

// --- generator of lists of named triangle meshes (phase write-read) -----------

var listValueClasses = []string{"smallint", "f32", "f64", "tiny", "large", "zeros", "thirds"}

func value(r *rand.Rand, class string) float64 {
	switch class {
	case "smallint":
		return float64(r.Intn(9) - 4)
	case "f32":
		return float64(float32(r.Float64()*20 - 10))
	case "f64":
		return r.Float64()*20 - 10
	case "tiny":
		return (r.Float64() - 0.5) * 1e-12
	case "large":
		return (r.Float64() - 0.5) * 2e6
	case "zeros":
		switch r.Intn(4) {
		case 0:
			return 0
		case 1:
			return math.Copysign(0, -1)
		}
		return r.Float64()*2 - 1
	case "thirds":
		return float64(r.Intn(13)-6) / 3
	}
	return r.Float64()
}

// hugeWhole draws a whole-valued finite number whose magnitude is beyond what integer
// types hold: mostly float32-representable magnitudes in [2^63, 3e38], further whole
// values in [2^53, 2^63] including the exact int64 boundaries, and the largest numbers
// that still have a fraction (k + 0.5 just below 2^52). Both signs.
func hugeWhole(r *rand.Rand) float64 {
	var x float64
	switch r.Intn(10) {
	case 0, 1, 2, 3, 4:
		x = float64(float32(math.Ldexp(1, 63) * math.Pow(10, r.Float64()*19.5))) // 9.2e18 … 2.9e38
		if x > 3e38 {
			x = float64(float32(3e38))
		}
	case 5:
		x = []float64{1e19, 3e20, 2.5e25, 1e30, 3e38, 18446744073709551616}[r.Intn(6)]
		x = float64(float32(x))
	case 6:
		x = []float64{math.Ldexp(1, 63), math.Ldexp(1, 63) - 1024, math.Ldexp(1, 63) + 2048, math.Ldexp(1, 62), math.Ldexp(1, 53), math.Ldexp(1, 53) + 2}[r.Intn(6)]
	case 7, 8:
		x = math.Floor(math.Ldexp(1+r.Float64(), 53+r.Intn(10))) // whole, 2^53 … 2^63
	case 9:
		x = math.Floor(math.Ldexp(1+r.Float64(), 51)) + 0.5 // largest magnitudes with a fraction
		if x >= math.Ldexp(1, 52) {
			x = math.Ldexp(1, 52) - 0.5
		}
	}
	if r.Intn(2) == 0 {
		x = -x
	}
	return x
}

var indexPatterns = []string{"identity", "permutation", "welded", "grid", "unreferenced", "repeated"}

type meshDesc struct {
	Name     string
	Attrs    string // P, PN, PT, PNT
	Pattern  string
	Class    string
	Verts    int
	Tris     int
	MatKind  string // none | ranges | ranges+zero | ranges+nil | …
	Extras   string
	Shared   bool
	ZeroLen  int
	NilMat   bool
	AdjEqual bool
	Huge     int // components drawn from the huge-whole class
}

type listDesc struct {
	Meshes  []meshDesc
	Variant string // WriteMeshes | WriteMesh | WriteMeshes+mtllib
}

func (d *listDesc) sig() string {
	var parts []string
	for _, m := range d.Meshes {
		parts = append(parts, fmt.Sprintf("%s:%s:%s:%s", m.Attrs, m.Pattern, m.MatKind, sizeBucket(m.Tris)))
	}
	return fmt.Sprintf("list/%s/%s", d.Variant, strings.Join(parts, "|"))
}

func sizeBucket(n int) string {
	switch {
	case n <= 1:
		return fmt.Sprint(n)
	case n <= 4:
		return "≤4"
	case n <= 16:
		return "≤16"
	}
	return ">16"
}

var meshNames = []string{"mesh", "Cube.001", "body_lod0", "a", "Wheel-FL", "part", "x1", "Plane", "roof", "g7"}

// materialPool: a few material pointers shared by all meshes of one list, with two
// distinct pointers that carry the same name (equal-by-name copies).
func materialPool(r *rand.Rand) []*modeling.Material {
	names := []string{"red", "green", "blue", "steel_brushed", "Mat.001", "red"}
	k := 2 + r.Intn(len(names)-1)
	out := make([]*modeling.Material, k)
	for i := range out {
		out[i] = &modeling.Material{Name: names[i], SpecularHighlight: float64(10 * i), OpticalDensity: 1}
	}
	return out
}

// partition draws material ranges for n triangles: random cuts, zero-length ranges
// anywhere (start, middle, end), adjacent equal materials, nil materials.
func partition(r *rand.Rand, n int, pool []*modeling.Material, d *meshDesc) []modeling.MeshMaterial {
	k := 1 + r.Intn(5)
	counts := make([]int, k)
	mode := r.Intn(4)
	left := n
	for i := 0; i < k-1; i++ {
		c := 0
		switch {
		case mode == 0 && r.Intn(3) == 0: // sprinkle zero-length ranges
			c = 0
		case left > 0:
			c = r.Intn(left + 1)
			if mode == 1 && c == 0 {
				c = 1
			}
		}
		counts[i] = c
		left -= c
	}
	counts[k-1] = left
	if mode >= 2 {
		r.Shuffle(k, func(i, j int) { counts[i], counts[j] = counts[j], counts[i] })
	}
	out := make([]modeling.MeshMaterial, k)
	var prev *modeling.Material
	for i := range out {
		var m *modeling.Material
		switch p := r.Intn(12); {
		case p == 0:
			m = nil
			d.NilMat = true
		case p <= 2 && i > 0:
			m = prev // adjacent equal material
			d.AdjEqual = true
		default:
			m = pool[r.Intn(len(pool))]
			if i > 0 && m == prev {
				d.AdjEqual = true
			}
		}
		out[i] = modeling.MeshMaterial{PrimitiveCount: counts[i], Material: m}
		if counts[i] == 0 {
			d.ZeroLen++
		}
		prev = m
	}
	d.MatKind = "ranges"
	if k == 1 {
		d.MatKind = "one-range"
	}
	if d.ZeroLen > 0 {
		d.MatKind += "+zero"
	}
	if d.NilMat {
		d.MatKind += "+nil"
	}
	return out
}

// genOneMesh builds one non-empty well-formed triangle mesh plus its abstract content.
func genOneMesh(r *rand.Rand, name string, hasN, hasT bool, pool []*modeling.Material, big bool) (modeling.Mesh, *expMesh, meshDesc) {
	d := meshDesc{Name: name}
	d.Class = listValueClasses[r.Intn(len(listValueClasses))]
	huge := r.Intn(25) == 0 // a few % of the meshes carry huge whole-valued components in every attribute
	if huge {
		d.Class = "huge-whole"
	}
	d.Pattern = indexPatterns[r.Intn(len(indexPatterns))]
	maxT := 8
	if big {
		maxT = 60
	}
	n := 1 + r.Intn(maxT)
	if r.Intn(3) == 0 {
		n = 1 + r.Intn(3)
	}
	var idx []int
	var V int
	switch d.Pattern {
	case "identity":
		V = 3 * n
		idx = make([]int, V)
		for i := range idx {
			idx[i] = i
		}
	case "permutation":
		V = 3 * n
		idx = r.Perm(V)
	case "welded":
		V = 1 + r.Intn(2*n+2)
		idx = make([]int, 3*n)
		for i := range idx {
			idx[i] = r.Intn(V)
		}
	case "grid":
		w := 1 + r.Intn(1+int(math.Sqrt(float64(n))))
		h := (n + 2*w - 1) / (2 * w)
		V = (w + 1) * (h + 1)
		for y := 0; y < h && len(idx) < 3*n; y++ {
			for x := 0; x < w && len(idx) < 3*n; x++ {
				a, b, c, e := y*(w+1)+x, y*(w+1)+x+1, (y+1)*(w+1)+x, (y+1)*(w+1)+x+1
				idx = append(idx, a, b, e)
				if len(idx) < 3*n {
					idx = append(idx, a, e, c)
				}
			}
		}
	case "unreferenced":
		used := 1 + r.Intn(2*n+1)
		V = used + 1 + r.Intn(6)
		off := r.Intn(V - used + 1)
		idx = make([]int, 3*n)
		for i := range idx {
			idx[i] = off + r.Intn(used)
		}
	case "repeated":
		V = 3 + r.Intn(n+2)
		for t := 0; t < n; t++ {
			if t > 0 && r.Intn(3) == 0 {
				q := r.Intn(t)
				idx = append(idx, idx[3*q], idx[3*q+1], idx[3*q+2])
				continue
			}
			a := r.Intn(V)
			tri := [3]int{a, r.Intn(V), r.Intn(V)}
			if r.Intn(4) == 0 {
				tri[1+r.Intn(2)] = a
			}
			idx = append(idx, tri[0], tri[1], tri[2])
		}
	}
	d.Verts, d.Tris = V, n
	seen := make([]int, V)
	for _, v := range idx {
		seen[v]++
		if seen[v] > 1 {
			d.Shared = true
		}
	}
	pos := make([][3]float64, V)
	nor := make([][3]float64, V)
	uv := make([][2]float64, V)
	for i := 0; i < V; i++ {
		pos[i] = [3]float64{value(r, d.Class), value(r, d.Class), value(r, d.Class)}
		if i > 0 && r.Intn(8) == 0 {
			pos[i] = pos[r.Intn(i)] // same position under another vertex id
		}
		x, y, z := r.NormFloat64(), r.NormFloat64(), r.NormFloat64()
		l := math.Sqrt(x*x+y*y+z*z) + 1e-9
		nor[i] = [3]float64{x / l, y / l, z / l}
		if r.Intn(6) == 0 {
			var a [3]float64
			a[r.Intn(3)] = float64(1 - 2*r.Intn(2))
			nor[i] = a
		}
		uv[i] = [2]float64{r.Float64(), r.Float64()}
		if huge {
			for k := 0; k < 3; k++ {
				if r.Intn(2) == 0 {
					pos[i][k] = hugeWhole(r)
					d.Huge++
				}
				if r.Intn(3) == 0 {
					nor[i][k] = hugeWhole(r) // a non-unit normal is still a normal
					d.Huge++
				}
			}
			for k := 0; k < 2; k++ {
				if r.Intn(3) == 0 {
					uv[i][k] = hugeWhole(r)
					d.Huge++
				}
			}
			continue
		}
		if r.Intn(6) == 0 {
			uv[i] = [2]float64{float64(r.Intn(3)) / 2, float64(r.Intn(5)-1) / 2} // 0, 0.5, 1, outside [0,1]
		}
	}
	m := modeling.NewTriangleMesh(append([]int(nil), idx...))
	p3 := make([]vector3.Float64, V)
	for i := range p3 {
		p3[i] = vector3.New(pos[i][0], pos[i][1], pos[i][2])
	}
	m = m.SetFloat3Attribute(modeling.PositionAttribute, p3)
	d.Attrs = "P"
	if hasN {
		a := make([]vector3.Float64, V)
		for i := range a {
			a[i] = vector3.New(nor[i][0], nor[i][1], nor[i][2])
		}
		m = m.SetFloat3Attribute(modeling.NormalAttribute, a)
		d.Attrs += "N"
	}
	if hasT {
		a := make([]vector2.Float64, V)
		for i := range a {
			a[i] = vector2.New(uv[i][0], uv[i][1])
		}
		m = m.SetFloat2Attribute(modeling.TexCoordAttribute, a)
		d.Attrs += "T"
	}
	// attributes OBJ does not carry must not disturb anything
	if r.Intn(5) == 0 {
		a := make([]vector3.Float64, V)
		for i := range a {
			a[i] = vector3.New(r.Float64(), r.Float64(), r.Float64())
		}
		m = m.SetFloat3Attribute(modeling.ColorAttribute, a)
		d.Extras += "C"
	}
	if r.Intn(6) == 0 {
		a := make([]float64, V)
		for i := range a {
			a[i] = r.Float64()
		}
		m = m.SetFloat1Attribute("userV1", a)
		d.Extras += "U"
	}
	e := &expMesh{Name: name, HasN: hasN, HasT: hasT, Tris: make([][3]corner, n), Mats: make([]string, n)}
	for t := 0; t < n; t++ {
		for k := 0; k < 3; k++ {
			v := idx[3*t+k]
			c := corner{P: pos[v]}
			if hasN {
				c.N = nor[v]
			}
			if hasT {
				c.T = uv[v]
			}
			e.Tris[t][k] = c
		}
	}
	d.MatKind = "none"
	if r.Intn(5) < 3 {
		ranges := partition(r, n, pool, &d)
		m = m.SetMaterials(ranges)
		e.HasRanges = true
		at := 0
		for _, rg := range ranges {
			for q := 0; q < rg.PrimitiveCount; q++ {
				e.Mats[at] = matName(rg.Material)
				at++
			}
			e.LastRange = matName(rg.Material)
		}
	}
	return m, e, d
}

// genList draws the list of a write-read case.
func genList(r *rand.Rand, tier string) ([]obj.ObjMesh, []*expMesh, *listDesc) {
	k := 1 + r.Intn(6)
	if r.Intn(4) == 0 {
		k = 2 + r.Intn(2)
	}
	ld := &listDesc{Variant: "WriteMeshes"}
	if r.Intn(5) == 0 {
		ld.Variant = "WriteMeshes+mtllib"
	}
	if k == 1 && r.Intn(2) == 0 {
		ld.Variant = "WriteMesh"
	}
	pool := materialPool(r)
	sameAttrs := r.Intn(4) == 0
	n0, t0 := r.Intn(2) == 0, r.Intn(2) == 0
	big := tier == "thorough" && r.Intn(10) == 0
	names := r.Perm(len(meshNames))
	var list []obj.ObjMesh
	var exp []*expMesh
	for j := 0; j < k; j++ {
		hasN, hasT := n0, t0
		if !sameAttrs {
			hasN, hasT = r.Intn(2) == 0, r.Intn(2) == 0
		}
		name := meshNames[names[j]]
		if r.Intn(3) == 0 {
			name = fmt.Sprintf("%s%d", name, j)
		}
		if ld.Variant == "WriteMesh" {
			name = ""
		}
		m, e, d := genOneMesh(r, name, hasN, hasT, pool, big)
		list = append(list, obj.ObjMesh{Name: name, Mesh: m})
		exp = append(exp, e)
		ld.Meshes = append(ld.Meshes, d)
	}
	return list, exp, ld
}
