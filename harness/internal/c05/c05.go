// Package c05 monitors property C05: OBJ write/read round trip of groups, corners
// and materials, and load→save losing or inventing no face.
//
// Phases:
//
//	write-read  generated lists of 1–6 named non-empty triangle meshes (every mesh
//	            independently with/without normals and texture coordinates, six index
//	            patterns, material ranges = random partitions with zero-length ranges,
//	            adjacent equal and nil materials) → obj.WriteMeshes / obj.WriteMesh →
//	            (a) the independent OBJ interpreter must read the list back out of the
//	            text, (b) obj.ReadMesh must return one group per mesh with the same
//	            triangles, corners (float32) and per-triangle material; (c) the material
//	            library written by obj.WriteMaterials, read by obj.ReadMaterials, must
//	            define every material name that ends up on a triangle.
//	load-save   generated valid triangulated OBJ texts (g / usemtl in every legal
//	            arrangement, four corner forms, three pool layouts, harmless noise) →
//	            obj.ReadMesh → obj.WriteMeshes → the interpreter's faces of the saved
//	            text must be the interpreter's faces of the input text (none lost, none
//	            invented); and the loaded list, being a list of named well-formed
//	            meshes, must itself satisfy the write-read oracle.
//	files       the same two oracles through obj.Save / obj.SaveAll / obj.Load on disk
//	            (.obj + .mtl; materials resolved by name from the library).
package c05

import (
	"bytes"
	"fmt"
	"io"
	"os"
	"path/filepath"
	"sort"
	"strings"

	"github.com/EliCDavis/polyform/formats/obj"
	"github.com/EliCDavis/polyform/modeling"

	"polyverif/internal/gen"
	"polyverif/internal/run"
)

func Spec() *run.Spec {
	return &run.Spec{
		ID: "C05", Level: "exploration",
		Rule: "Since round 10 a fifth of the load-save texts are written to disk next to a material library that defines all, some or none of the material names used and are loaded with obj.Load(path) (a nil material pointer returned by Load is the writer's default material; faces are judged, material names are not). " +
			"write-read: one case = one list of 1–6 named non-empty well-formed triangle meshes (per mesh: attribute set P/PN/PT/PNT drawn independently, index pattern identity/permutation/welded/grid/unreferenced/repeated+degenerate, " +
			"7 value classes, no materials or a random partition into 1–5 ranges incl. zero-length ranges at any place, adjacent equal, nil and equal-by-name materials, material pointers shared across meshes); " +
			"non-trivial iff ≥ 2 meshes with different attribute sets. " +
			"load-save: one case = one generated valid triangulated OBJ text (0–5 g statements, faces before any g, empty groups, repeated group names, usemtl before g / after g / between faces / twice in a row / after the last face / none / same name again / reused across groups, " +
			"the corner forms v, v/vt, v//vn, v/vt/vn, one per group or mixed face by face inside a group, pools first / interleaved / one block per group, comments, blank lines, s/o/mtllib statements, tabs, CRLF, 4-component v, 3-component vt, no final newline); " +
			"non-trivial iff ≥ 2 groups with faces and ≥ 2 usemtl statements. files: one case = a list saved with obj.Save / obj.SaveAll and loaded with obj.Load; non-trivial iff some mesh carries ≥ 2 material ranges or ≥ 2 meshes. " +
			"file-histories: one case = 3–6 obj.Save / obj.SaveAll / obj.Load calls in one process on one path (a third of the histories also on a second path in another directory with the same file names), materials changing between saves (new names, or same names with another Kd / Ns); " +
			"every Load must equal the last save on its path incl. the library definition behind each material name; non-trivial iff a Load follows a re-save with other materials. " +
			"Every ordinary read draws the reader kind (bytes.Reader, struct{io.Reader}, iotest.OneByteReader / HalfReader / DataErrReader, io.LimitReader, chunked, small bufio.Reader, os.File, io.Pipe), every ordinary write the sink kind (bytes.Buffer, small bufio.Writer, looping chunk wrapper, os.File). " +
			"Mixed-form groups are planned: richer form first / last / in the middle / around a poorer middle / random, later faces reusing earlier tokens or not (flags mixed:*). " +
			"large: case i carries an uninterrupted run of largeRuns[i mod 9] ∈ {1023, 1024, 1025, 2047, 2049, 4097, 8193, 20000, 70000} faces (no materials / one range / several long ranges / long ranges separated by zero-length ranges; attribute sets P, PN, PT, PNT in rotation; > 65 536 vertices for the two longest) " +
			"through kind (i + i/9) mod 3: list write→read, generated large text load→save, or obj.Save / obj.SaveAll / obj.Load — same oracles. " +
			"fault-sequences: one case = a history of 3–8 operations in one goroutine mixing complete write-read / load-save cases on good writers and readers with obj.WriteMeshes / obj.WriteMesh / obj.WriteMaterials to a writer that fails for good after k bytes " +
			"(k inside the comment, v, vt/vn, g, usemtl, f lines or the last byte; refusing or partially accepting the failing call) and obj.ReadMesh from a reader that fails at a line boundary; a failing call must report an error, every good operation must pass its complete oracle whatever failed before; " +
			"non-trivial iff a failure past the first line is followed by a good operation. " +
			"Distinctness = phase / writer variant / per-mesh (attribute set, index pattern, material kind, size bucket) resp. layout / groups / usemtl count / form sequence / arrangement flags / noise.",
		Assumptions: []string{
			"mesh, group and material names are non-empty (except the single unnamed mesh of obj.WriteMesh / obj.Save) and contain no blanks; a nil material is written as the default material, whose OBJ name is \"DefaultDiffuse\"",
			"OBJ has no statement that ends a material: a mesh WITHOUT material ranges that follows a mesh with ranges may come back either without material or with the material the previous usemtl left in force (both accepted, counted in carried_material_meshes)",
			"float32 precision: a value read back must be float32(x); when x lies exactly half way between two float32 values either neighbour is accepted",
			"materials are identified by name (the reader creates its own material values; only the name is compared)",
			"a group of a loaded text may mix the corner forms v, v/vt, v//vn, v/vt/vn: a face of such a group is matched by a re-saved face with the same three positions in order, the same normal / texcoord at every corner that had one, and none or a zero normal / texcoord at corners that had none; faces of groups with one form are matched strictly (same form, same data); matching is one-to-one (maximum bipartite matching)",
			"value class huge-whole (a few % of meshes and texts): whole-valued finite components with magnitude in [2^53, 3e38] (mostly ≥ 2^63, float32-representable), both signs, in positions, normals and texture coordinates; same float32 oracle",
			"injected writer faults are permanent (every call after the first failing one fails too) and always return a non-nil error; reader faults return a non-EOF error at a line boundary (a failure in the middle of a line hands the parser a cut, i.e. invalid, statement: only counted)",
			"meshes are non-empty: a mesh with zero triangles has no face statements and cannot be told from an empty group (outside the workload, see DESIGN.md C05)",
			"load-save judges faces as multisets of corner data (position, texcoord, normal as referenced; see the mixed-form rule); order, group and material agreement of the re-saved faces are measured and reported as counters only",
			"generated texts use positive indices, triangles only, definitions before use, names without blanks (negative indices and polygons are out of reach); one group in six with several forms available mixes them face by face",
		},
		MinNontrivial: map[string]int{"quick": 300, "thorough": 2000},
		MinObserved: map[string]int64{
			"lists_written":                               1000,
			"triangles_compared_readback":                 5000,
			"material_triangles_compared":                 2000,
			"later_mesh_with_normals_after_one_without":   200,
			"later_mesh_with_uvs_after_one_without":       200,
			"zero_length_ranges_written":                  200,
			"texts_loaded":                                1000,
			"faces_in_texts":                              5000,
			"g_statement_with_material_in_force":          300,
			"loaded_lists_rewritten_and_reread":           300,
			"text_arrangement_flags":                      26,
			"flag:mixed:last-new-vertex-lacks-vn":         150,
			"flag:mixed:last-new-vertex-lacks-vt":         150,
			"flag:mixed:first-vertex-lacks-vn":            150,
			"flag:mixed:trailing-poor-face-reuses-tokens": 40,
			"flag:mixed:trailing-poor-face-new-tokens":    150,
			"reader_kinds":                                9,
			"writer_kinds":                                4,
			"text_forms":                                  4,
			"text_layouts":                                3,
			"attribute_set_pairs":                         12,
			"faces_matched_with_zero_filled_corner":       500,
			"file_cases":                                  50,
			"huge_whole_components_written":               2000,
			"texts_with_huge_whole_numbers":               150,
			"fault_histories":                             500,
			"failed_writes_reported":                      500,
			"failed_reads_reported":                       200,
			"write_fault_positions":                       6,
		},
		Phases: []run.Phase{
			{Name: "write-read", Cases: func(t string) int {
				if t == "thorough" {
					return 150000
				}
				return 12000
			}, Run: writeRead, Batch: 200, CPUBudgetS: 20},
			{Name: "load-save", Cases: func(t string) int {
				if t == "thorough" {
					return 150000
				}
				return 12000
			}, Run: loadSave, Batch: 200, CPUBudgetS: 20},
			{Name: "files", Cases: func(t string) int {
				if t == "thorough" {
					return 8000
				}
				return 800
			}, Run: files, Batch: 100, CPUBudgetS: 20},
			{Name: "file-histories", Cases: func(t string) int {
				if t == "thorough" {
					return 8000
				}
				return 1000
			}, Run: fileHistories, Batch: 100, CPUBudgetS: 20},
			{Name: "large", Cases: func(t string) int {
				if t == "thorough" {
					return 162
				}
				return 10
			}, Run: large, Batch: 1, CPUBudgetS: 180},
			{Name: "fault-sequences", Cases: func(t string) int {
				if t == "thorough" {
					return 15000
				}
				return 1500
			}, Run: faultSequences, Batch: 100, CPUBudgetS: 20},
		},
	}
}

func panicClass(p *run.PanicInfo) string {
	if p.Runtime {
		return "runtime-panic"
	}
	return "panic"
}

func clip(s string, n int) string {
	if len(s) > n {
		return s[:n] + "…"
	}
	return s
}

// --- oracle A: the text written for a list means the list ------------------------

// checkTextMeansList applies the independent interpreter to the text polyform wrote
// for the list and compares face by face. It judges the WRITER alone.
func checkTextMeansList(res *run.Result, text string, exp []*expMesh, site, input string, wit any) bool {
	m, err := interpretOBJ(text)
	if err != nil {
		res.Violate("invalid-obj-text", site, input, "the independent interpreter rejects the written text: "+err.Error(), wit)
		return false
	}
	total := 0
	for _, e := range exp {
		total += len(e.Tris)
	}
	if len(m.Faces) != total {
		res.Violate("face-count-in-text", site, input, fmt.Sprintf("the list has %d triangles, the written text has %d face statements", total, len(m.Faces)), wit)
		return false
	}
	at := 0
	carried := map[string]bool{}
	for j, e := range exp {
		for t := range e.Tris {
			f := &m.Faces[at]
			at++
			if f.Group != e.Name {
				res.Violate("group-in-text", site, input,
					fmt.Sprintf("mesh %d (%q) triangle %d is written under group %q (line %d)", j, e.Name, t, f.Group, f.Line), wit)
				return false
			}
			for k := 0; k < 3; k++ {
				c := f.C[k]
				if c.HasN != e.HasN || c.HasT != e.HasT {
					res.Violate("corner-form-in-text", site, input,
						fmt.Sprintf("mesh %d (%q, attributes %s) triangle %d corner %d is written with vt=%v vn=%v (line %d)", j, e.Name, attrSet(e), t, k, c.HasT, c.HasN, f.Line), wit)
					return false
				}
				g := corner{P: [3]float64{float64(c.P[0]), float64(c.P[1]), float64(c.P[2])},
					N: [3]float64{float64(c.N[0]), float64(c.N[1]), float64(c.N[2])},
					T: [2]float64{float64(c.T[0]), float64(c.T[1])}}
				if d := cornerDiff(e.Tris[t][k], g, e.HasN, e.HasT); d != "" {
					res.Violate("corner-in-text", site, input,
						fmt.Sprintf("mesh %d (%q, attributes %s) triangle %d corner %d: the face statement at line %d resolves to a different corner: %s", j, e.Name, attrSet(e), t, k, f.Line, d), wit)
					return false
				}
			}
			if !materialOK(e.Mats[t], f.Mat, e.HasRanges, carried) {
				res.Violate("material-in-text", site, input,
					fmt.Sprintf("mesh %d (%q) triangle %d: material %q expected, the usemtl in force at line %d is %q", j, e.Name, t, e.Mats[t], f.Line, f.Mat), wit)
				return false
			}
		}
		if e.HasRanges {
			carried = map[string]bool{e.LastRange: true}
		}
	}
	res.Count("faces_checked_in_written_text", int64(total))
	return true
}

// --- oracle B: what ReadMesh returns for the text equals the list ------------------

// checkReadBack compares the groups returned by obj.ReadMesh with the expected
// content. byName: the order of the groups is not defined (SaveAll takes a map),
// groups are matched by name.
func checkReadBack(res *run.Result, back []obj.ObjMesh, exp []*expMesh, site, input string, byName bool, wit any) bool {
	if len(back) != len(exp) {
		var names []string
		for _, b := range back {
			names = append(names, fmt.Sprintf("%q(%d)", b.Name, b.Mesh.PrimitiveCount()))
		}
		res.Violate("group-count", site, input, fmt.Sprintf("%d meshes were written, %d groups came back: %s", len(exp), len(back), strings.Join(names, " ")), wit)
		return false
	}
	order := make([]int, len(exp)) // order[j] = position in back of expected mesh j
	for j := range order {
		order[j] = j
	}
	allCarried := map[string]bool{}
	if byName {
		pos := map[string]int{}
		for i, b := range back {
			pos[b.Name] = i
		}
		for j, e := range exp {
			i, ok := pos[e.Name]
			if !ok {
				res.Violate("group-name", site, input, fmt.Sprintf("no group named %q came back", e.Name), wit)
				return false
			}
			order[j] = i
			if e.HasRanges {
				allCarried[e.LastRange] = true
			}
		}
	}
	carried := map[string]bool{}
	ok := true
	for j, e := range exp {
		b := back[order[j]]
		if b.Name != e.Name {
			res.Violate("group-name", site, input, fmt.Sprintf("group %d: written as %q, read as %q", j, e.Name, b.Name), wit)
			return false
		}
		g, err := viewOf(b.Name, b.Mesh, true)
		if err != nil {
			cls := "ill-formed-result"
			if g != nil {
				cls = "material-range-overrun"
			}
			res.Violate(cls, site, input, fmt.Sprintf("group %d (%q): %v", j, b.Name, err), wit)
			return false
		}
		if len(g.Tris) != len(e.Tris) {
			res.Violate("triangle-count", site, input, fmt.Sprintf("group %d (%q): %d triangles written, %d read", j, e.Name, len(e.Tris), len(g.Tris)), wit)
			return false
		}
		if g.HasN != e.HasN || g.HasT != e.HasT {
			res.Violate("attribute-set", site, input, fmt.Sprintf("group %d (%q): written with attributes %s, read with %s", j, e.Name, attrSet(e), attrSet(g)), wit)
			return false
		}
		for t := range e.Tris {
			for k := 0; k < 3; k++ {
				if d := cornerDiff(e.Tris[t][k], g.Tris[t][k], e.HasN, e.HasT); d != "" {
					res.Violate("corner-mismatch", site, input,
						fmt.Sprintf("group %d (%q, attributes %s) triangle %d corner %d: %s", j, e.Name, attrSet(e), t, k, d), wit)
					return false
				}
			}
		}
		res.Count("triangles_compared_readback", int64(len(e.Tris)))
		res.Count("corners_compared_readback", int64(3*len(e.Tris)))
		cs := carried
		if byName {
			cs = allCarried
		}
		for t := range e.Tris {
			if !materialOK(e.Mats[t], g.Mats[t], e.HasRanges, cs) {
				res.Violate("material-mismatch", site, input,
					fmt.Sprintf("group %d (%q) triangle %d: material %q written, %q read; written per triangle: %s; read per triangle: %s (ranges read: %v)",
						j, e.Name, t, e.Mats[t], g.Mats[t], matsSummary(e.Mats), matsSummary(g.Mats), rangesOf(b.Mesh)), wit)
				ok = false
				break
			}
		}
		if !ok {
			return false
		}
		if e.HasRanges {
			res.Count("material_triangles_compared", int64(len(e.Tris)))
			carried = map[string]bool{e.LastRange: true}
		} else if len(e.Tris) > 0 && g.Mats[0] != "" {
			res.Count("carried_material_meshes", 1)
		}
	}
	return true
}

// scratch returns the worker's scratch directory (one lookup per case).
var scratchCtx *run.Ctx
var scratchPath string

func scratch(c *run.Ctx) string {
	if scratchCtx != c {
		scratchCtx, scratchPath = c, c.ScratchDir()
	}
	return scratchPath
}

// source draws the KIND of reader through which polyform gets the bytes.
func source(c *run.Ctx, res *run.Result, b []byte) *gen.IOSource {
	s := gen.NewIOSource(c.Rng, b, scratch(c), len(b) > 150000)
	res.SetAdd("reader_kinds", s.Kind)
	return s
}

// sinkWrite runs write against a sink of a drawn kind and returns what the sink received.
func sinkWrite(c *run.Ctx, res *run.Result, write func(w io.Writer) error) (out []byte, err error, p *run.PanicInfo, kind string) {
	sink := gen.NewIOSink(c.Rng, scratch(c))
	res.SetAdd("writer_kinds", sink.Kind)
	p = run.Try(func() { err = write(sink.W) })
	got, ferr := sink.Finish()
	if err == nil {
		err = ferr
	}
	return append([]byte(nil), got...), err, p, sink.Kind
}

// roundTrip writes the list, checks the text, reads it back and checks the result.
// It returns the text (nil when writing failed).
func roundTrip(c *run.Ctx, res *run.Result, list []obj.ObjMesh, exp []*expMesh, variant, input string, wit any) []byte {
	site := "obj.WriteMeshes"
	if variant == "WriteMesh" {
		site = "obj.WriteMesh"
	}
	c.Note("obj write " + variant + " " + input)
	text, err, p, sk := sinkWrite(c, res, func(w io.Writer) error {
		switch variant {
		case "WriteMesh":
			return obj.WriteMesh(list[0].Mesh, "", w)
		case "WriteMeshes+mtllib":
			return obj.WriteMeshes(list, "scene.mtl", w)
		}
		return obj.WriteMeshes(list, "", w)
	})
	input += ", sink " + sk
	if p != nil {
		res.Violate(panicClass(p), site, input, p.Value+"\n"+p.Stack, wit)
		return nil
	}
	if err != nil {
		res.Violate("write-error", site, input, err.Error(), wit)
		return nil
	}
	res.Count("bytes_written", int64(len(text)))
	w2 := map[string]any{"list": wit, "written_text": clip(string(text), 2000)}
	checkTextMeansList(res, string(text), exp, site, input, w2)

	c.SaveInput(text)
	c.Note("obj.ReadMesh of written text")
	var back []obj.ObjMesh
	var libs []string
	rd := source(c, res, text)
	p = run.Try(func() { back, libs, err = obj.ReadMesh(rd.R) })
	rd.Close()
	input += ", reader " + rd.Kind
	if p != nil {
		res.Violate(panicClass(p), "obj.ReadMesh", "text written by "+site+" for "+input, p.Value+"\n"+p.Stack, w2)
		return text
	}
	if err != nil {
		res.Violate("read-error", "obj.ReadMesh", "text written by "+site+" for "+input, err.Error(), w2)
		return text
	}
	if variant == "WriteMeshes+mtllib" {
		if len(libs) == 1 && libs[0] == "scene.mtl" {
			res.Count("mtllib_reported", 1)
		} else {
			res.Count("mtllib_not_reported", 1)
		}
	}
	checkReadBack(res, back, exp, "obj.ReadMesh(obj.Write)", input, false, w2)
	return text
}

// --- phase write-read -----------------------------------------------------------------

func writeRead(c *run.Ctx) run.Result {
	var res run.Result
	list, exp, ld := genList(c.Rng, c.Tier)
	res.Sig = ld.sig()
	sets := map[string]bool{}
	seenNoN, seenNoT := false, false
	totalTris := 0
	for j, d := range ld.Meshes {
		sets[d.Attrs] = true
		e := exp[j]
		if e.HasN && seenNoN {
			res.Count("later_mesh_with_normals_after_one_without", 1)
		}
		if e.HasT && seenNoT {
			res.Count("later_mesh_with_uvs_after_one_without", 1)
		}
		seenNoN = seenNoN || !e.HasN
		seenNoT = seenNoT || !e.HasT
		if j > 0 {
			res.SetAdd("attribute_set_pairs", ld.Meshes[j-1].Attrs+">"+d.Attrs)
		}
		res.SetAdd("index_patterns", d.Pattern)
		res.SetAdd("material_kinds", d.MatKind)
		res.SetAdd("value_classes", d.Class)
		res.Count("zero_length_ranges_written", int64(d.ZeroLen))
		res.Count("huge_whole_components_written", int64(d.Huge))
		if d.NilMat {
			res.Count("meshes_with_nil_material", 1)
		}
		if d.AdjEqual {
			res.Count("meshes_with_adjacent_equal_materials", 1)
		}
		if d.Shared {
			res.Count("welded_meshes", 1)
		}
		totalTris += d.Tris
	}
	res.Count("lists_written", 1)
	res.Count("meshes_written", int64(len(list)))
	res.SetAdd("writer_variants", ld.Variant)
	res.SetAdd("list_lengths", fmt.Sprint(len(list)))
	res.Nontrivial = len(list) >= 2 && len(sets) >= 2
	if res.Nontrivial {
		res.Count("lists_with_mixed_attribute_sets", 1)
	}
	res.Sample = ld
	input := fmt.Sprintf("list of %d named triangle meshes", len(list))
	if len(sets) >= 2 {
		input += " with different attribute sets"
	}
	wit := listWitness(list)
	roundTrip(c, &res, list, exp, ld.Variant, input, wit)

	// material library: every material name that is on a triangle must be defined by the
	// library written for the same list (materials are resolved by name).
	if len(res.Violations) == 0 {
		checkLibrary(c, &res, list, exp, wit)
	}
	return res
}

func checkLibrary(c *run.Ctx, res *run.Result, list []obj.ObjMesh, exp []*expMesh, wit any) {
	var ranges []modeling.MeshMaterial
	for _, om := range list {
		ranges = append(ranges, om.Mesh.Materials()...)
	}
	if len(ranges) == 0 {
		return
	}
	c.Note("obj.WriteMaterials")
	lib, err, p, _ := sinkWrite(c, res, func(w io.Writer) error { return obj.WriteMaterials(ranges, w) })
	buf := bytes.NewBuffer(lib)
	if p != nil {
		res.Violate(panicClass(p), "obj.WriteMaterials", "material ranges of the list", p.Value+"\n"+p.Stack, wit)
		return
	}
	if err != nil {
		res.Violate("write-error", "obj.WriteMaterials", "material ranges of the list", err.Error(), wit)
		return
	}
	var mats []modeling.Material
	c.Note("obj.ReadMaterials")
	rd := source(c, res, lib)
	p = run.Try(func() { mats, err = obj.ReadMaterials(rd.R) })
	rd.Close()
	if p != nil {
		res.Violate(panicClass(p), "obj.ReadMaterials", "library written by obj.WriteMaterials", p.Value+"\n"+p.Stack, wit)
		return
	}
	if err != nil {
		res.Violate("read-error", "obj.ReadMaterials", "library written by obj.WriteMaterials", err.Error(), wit)
		return
	}
	defined := map[string]bool{}
	for _, m := range mats {
		defined[m.Name] = true
	}
	for _, e := range exp {
		for _, nm := range e.Mats {
			if nm != "" && !defined[nm] {
				var names []string
				for n := range defined {
					names = append(names, n)
				}
				sort.Strings(names)
				res.Violate("material-undefined-in-library", "obj.WriteMaterials/obj.ReadMaterials", "material ranges of the list",
					fmt.Sprintf("material %q is on a triangle of mesh %q but the library written for the list defines only %v\n%s", nm, e.Name, names, clip(buf.String(), 1500)), wit)
				return
			}
		}
	}
	res.Count("material_libraries_checked", 1)
}

// --- phase load-save --------------------------------------------------------------------

func loadSave(c *run.Ctx) run.Result {
	text, d := genText(c.Rng, c.Tier)
	return loadSaveText(c, text, d)
}

// loadSaveText is the load-save oracle for one valid text.
func loadSaveText(c *run.Ctx, text string, d *textDesc) run.Result {
	var res run.Result
	res.Sig = d.sig()
	res.Sample = map[string]any{"desc": d, "text": clip(text, 600)}
	res.Nontrivial = d.Segments >= 2 && d.Usemtl >= 2
	res.Count("texts_loaded", 1)
	res.Count("faces_in_texts", int64(d.Faces))
	res.Count("usemtl_statements", int64(d.Usemtl))
	res.Count("g_statements", int64(d.GStatements))
	res.SetAdd("text_layouts", d.Layout)
	for _, f := range d.Flags {
		res.SetAdd("text_arrangement_flags", f)
		res.Count("flag:"+f, 1)
		if f == "g-with-material-in-force" {
			res.Count("g_statement_with_material_in_force", 1)
		}
	}
	for _, f := range d.Forms {
		res.SetAdd("text_forms", f)
	}
	for _, n := range d.Noise {
		res.SetAdd("text_noise", n)
		if n == "huge-whole" {
			res.Count("texts_with_huge_whole_numbers", 1)
		}
	}
	wit := map[string]any{"text": clip(text, 2500)}
	input := "valid triangulated OBJ text"
	if d.Segments >= 2 {
		input += ", several groups"
	}
	if d.Usemtl > 0 {
		input += ", usemtl"
	}

	// reference meaning of the input
	want, err := interpretOBJ(text)
	if err != nil {
		res.Inconclusive = "generator produced a text the reference interpreter rejects: " + err.Error()
		return res
	}
	if len(want.Faces) != d.Faces {
		res.Inconclusive = fmt.Sprintf("generator/interpreter disagree on the number of faces (%d vs %d)", d.Faces, len(want.Faces))
		return res
	}

	// load
	c.SaveInput([]byte(text))
	c.Note("obj.ReadMesh of generated text")
	var loaded []obj.ObjMesh
	var p *run.PanicInfo
	loadSite := "obj.ReadMesh"
	// Round 10 (C05-O): a fifth of the texts are loaded the way users load files - obj.Load(path), next to a
	// material library that defines all, some or none of the names the text uses (a text without an mtllib
	// statement has no library). What Load makes of the materials is not judged here; the faces are.
	viaFile := run.Mix(c.Seed, uint64(c.Case), 0xF11E)%5 == 0
	if viaFile {
		dir, cleanup, derr := scratchDir(c)
		if derr != nil {
			res.Inconclusive = "no scratch directory: " + derr.Error()
			return res
		}
		defer cleanup()
		path := filepath.Join(dir, "scene.obj")
		lib, defined, used := libraryFor(text, run.Mix(c.Seed, uint64(c.Case), 0x317B))
		if werr := os.WriteFile(path, []byte(text), 0o644); werr != nil {
			res.Inconclusive = "cannot write the scratch file: " + werr.Error()
			return res
		}
		if strings.Contains(text, "mtllib scene.mtl") {
			if werr := os.WriteFile(filepath.Join(dir, "scene.mtl"), []byte(lib), 0o644); werr != nil {
				res.Inconclusive = "cannot write the scratch library: " + werr.Error()
				return res
			}
			res.Count("texts_loaded_by_path_with_a_library", 1)
			res.SetAdd("library_coverage", fmt.Sprintf("%s of the used names defined", map[bool]string{true: "all", false: "some or none"}[defined == used]))
			wit["library"] = clip(lib, 600)
			input += fmt.Sprintf(", library defining %d of the %d material names used", defined, used)
		}
		res.Count("texts_loaded_by_path", 1)
		loadSite = "obj.Load"
		input += ", loaded by path"
		c.Note("obj.Load " + path)
		p = run.Try(func() { loaded, err = obj.Load(path) })
	} else {
		rd := source(c, &res, []byte(text))
		input += ", reader " + rd.Kind
		p = run.Try(func() { loaded, _, err = obj.ReadMesh(rd.R) })
		rd.Close()
	}
	if p != nil {
		res.Violate(panicClass(p), loadSite, input, p.Value+"\n"+p.Stack, wit)
		return res
	}
	if err != nil {
		res.Violate("read-error", loadSite, input, "valid text rejected: "+err.Error(), wit)
		return res
	}
	loadedTris := 0
	var views []*expMesh
	viewsOK := true
	for _, om := range loaded {
		loadedTris += om.Mesh.PrimitiveCount()
		// a nil material pointer returned by ReadMesh is a missing material; returned by Load it is a name no
		// library defines, which the writer spells as its default material
		v, verr := viewOf(om.Name, om.Mesh, !viaFile)
		if verr != nil {
			viewsOK = false
			res.Count("loaded_meshes_ill_formed", 1)
			wit["loaded_problem"] = fmt.Sprintf("group %q: %v", om.Name, verr)
			cls := "ill-formed-result"
			if v != nil {
				cls = "material-range-overrun"
			}
			res.Violate(cls, "obj.ReadMesh", input, fmt.Sprintf("group %q loaded from a valid text: %v", om.Name, verr), wit)
		}
		views = append(views, v)
	}
	loadedDesc := describeLoaded(loaded)
	wit["loaded"] = loadedDesc

	// save
	c.Note("obj.WriteMeshes of loaded list")
	savedBytes, err, p, _ := sinkWrite(c, &res, func(w io.Writer) error { return obj.WriteMeshes(loaded, "", w) })
	if p != nil {
		site := "obj.WriteMeshes(obj.ReadMesh)"
		res.Violate(panicClass(p), site, input,
			fmt.Sprintf("saving the loaded list panics (%d faces in the text, %d triangles loaded, loaded: %s)\n%s\n%s", len(want.Faces), loadedTris, loadedDesc, p.Value, p.Stack), wit)
		return res
	}
	if err != nil {
		res.Violate("write-error", "obj.WriteMeshes(obj.ReadMesh)", input, err.Error(), wit)
		return res
	}
	saved := string(savedBytes)
	wit["saved_text"] = clip(saved, 2000)
	got, err := interpretOBJ(saved)
	if err != nil {
		res.Violate("invalid-obj-text", "obj.WriteMeshes(obj.ReadMesh)", input, "the independent interpreter rejects the re-saved text: "+err.Error(), wit)
		return res
	}

	// no face lost, none invented: maximum one-to-one matching of input and output faces
	// (strict corner data; in groups that mix corner forms a corner without vt/vn may
	// come back with a zero one, see match.go)
	mixed := mixedSegments(want.Faces)
	if len(mixed) > 0 {
		res.Count("texts_with_mixed_form_group", 1)
	}
	inTo, outUsed := matchFaces(want.Faces, got.Faces, mixed)
	site := "obj.WriteMeshes(obj.ReadMesh)"
	if loadedTris != len(want.Faces) {
		site = "obj.ReadMesh" // the loss is already visible in the loaded list
	}
	lost, invented := 0, 0
	var firstLost, firstInv string
	for i, j := range inTo {
		if j == -1 {
			if lost == 0 {
				firstLost = want.Faces[i].String()
				if mixed[want.Faces[i].Seg] {
					firstLost += " (its group mixes corner forms)"
				}
			}
			lost++
		} else if mixed[want.Faces[i].Seg] {
			res.Count("faces_of_mixed_form_groups_matched", 1)
			if want.Faces[i].key() != got.Faces[j].key() {
				res.Count("faces_matched_with_zero_filled_corner", 1)
			}
		}
	}
	for j, u := range outUsed {
		if !u {
			if invented == 0 {
				firstInv = got.Faces[j].String()
			}
			invented++
		}
	}
	if lost > 0 {
		res.Violate("face-lost", site, input,
			fmt.Sprintf("the text has %d faces, %d triangles were loaded (%s), the re-saved text has %d faces: %d face(s) of the input are missing, first: %s",
				len(want.Faces), loadedTris, loadedDesc, len(got.Faces), lost, firstLost), wit)
	}
	if invented > 0 {
		res.Violate("face-invented", site, input,
			fmt.Sprintf("the text has %d faces, %d triangles were loaded (%s), the re-saved text has %d faces: %d face(s) of the output do not occur in the input, first: %s",
				len(want.Faces), loadedTris, loadedDesc, len(got.Faces), invented, firstInv), wit)
	}
	if lost > 0 || invented > 0 {
		return res
	}
	res.Count("faces_preserved_load_save", int64(len(want.Faces)))

	// measured, not judged: order, group and material of the re-saved faces
	sameOrder, sameGroup, sameMat, defaulted := 0, 0, 0, 0
	for i := range want.Faces {
		if inTo[i] != i {
			continue
		}
		w, g := &want.Faces[i], &got.Faces[i]
		sameOrder++
		if w.Group == g.Group {
			sameGroup++
		}
		switch {
		case w.Mat == g.Mat:
			sameMat++
		case w.Mat == "":
			defaulted++
		}
	}
	res.Count("resaved_faces_same_position_in_sequence", int64(sameOrder))
	res.Count("resaved_faces_same_group", int64(sameGroup))
	res.Count("resaved_faces_same_material", int64(sameMat))
	res.Count("resaved_faces_material_given_to_unassigned", int64(defaulted))
	res.Count("resaved_faces_material_changed", int64(sameOrder-sameMat-defaulted))

	// The loaded list is itself a list of named well-formed triangle meshes: the first
	// sentence of the property applies to it (write → read gives it back).
	eligible := viewsOK && len(loaded) > 0
	named := true
	for _, om := range loaded {
		if om.Mesh.PrimitiveCount() == 0 {
			eligible = false
			res.Count("loaded_lists_with_empty_mesh", 1)
			break
		}
	}
	for _, om := range loaded {
		if om.Name == "" {
			named = false
		}
	}
	if eligible && !named {
		if len(loaded) == 1 {
			// a single unnamed mesh is what obj.WriteMesh writes: no g statement at all
			named = true
		} else {
			res.Count("loaded_lists_with_unnamed_group_among_several", 1)
		}
	}
	if eligible && named {
		c.SaveInput([]byte(saved))
		c.Note("obj.ReadMesh of re-saved text")
		var back []obj.ObjMesh
		rd := source(c, &res, savedBytes)
		p := run.Try(func() { back, _, err = obj.ReadMesh(rd.R) })
		rd.Close()
		if p != nil {
			res.Violate(panicClass(p), "obj.ReadMesh", "text re-saved by obj.WriteMeshes from a loaded list", p.Value+"\n"+p.Stack, wit)
			return res
		}
		if err != nil {
			res.Violate("read-error", "obj.ReadMesh", "text re-saved by obj.WriteMeshes from a loaded list", err.Error(), wit)
			return res
		}
		if checkReadBack(&res, back, views, "obj.ReadMesh(obj.WriteMeshes(obj.ReadMesh))", "list loaded from "+input, false, wit) {
			res.Count("loaded_lists_rewritten_and_reread", 1)
		}
	}
	return res
}

func describeLoaded(loaded []obj.ObjMesh) string {
	var parts []string
	for _, om := range loaded {
		parts = append(parts, fmt.Sprintf("%q:%dtris%v", om.Name, om.Mesh.PrimitiveCount(), rangesOf(om.Mesh)))
	}
	return strings.Join(parts, " ")
}

// libraryFor writes a material library for the names the text selects with usemtl: all of them, a subset or none
// (salt-determined). Returns the library text, the number of names defined and used.
func libraryFor(text string, salt uint64) (lib string, defined, used int) {
	seen := map[string]bool{}
	var names []string
	for _, ln := range strings.Split(text, "\n") {
		f := strings.Fields(ln)
		if len(f) >= 2 && f[0] == "usemtl" && !seen[f[1]] {
			seen[f[1]] = true
			names = append(names, f[1])
		}
	}
	mode := salt % 3 // 0 all, 1 subset, 2 none
	var sb strings.Builder
	sb.WriteString("# library\n")
	for i, n := range names {
		if mode == 2 || (mode == 1 && (salt>>uint(8+i%40))&1 == 0) {
			continue
		}
		defined++
		fmt.Fprintf(&sb, "newmtl %s\nKd 0.5 0.25 %d\n", n, i%2)
	}
	return sb.String(), defined, len(names)
}
