package c05

// Independent interpreter of Wavefront OBJ text, written from the format
// definition (Wavefront "Object Files (.obj)" appendix B1) and sharing nothing
// with /repo/formats/obj. It gives the reference meaning of a text: the sequence
// of faces, each with the group and the material that are in force when the `f`
// statement is met and the data of its corners resolved against the v / vt / vn
// pools as they stand at that point.
//
// Statements understood: v, vt, vn, f, g, usemtl. Everything else (o, s, mtllib,
// comments, blank lines …) has no influence on the faces and is only counted.
// Indices are 1-based; negative indices are relative to the end of the pool at
// the time of the face statement. Polygons with more than three corners are
// triangulated as a fan (the monitored workload only contains triangles).
// State rules of the format that matter here: the active group changes only at
// `g`; the active material changes only at `usemtl` and is NOT reset by `g`.

import (
	"fmt"
	"strconv"
	"strings"
)

type refCorner struct {
	P      [3]float32
	HasT   bool
	T      [2]float32
	HasN   bool
	N      [3]float32
	tokenV int // resolved 0-based indices (diagnostics)
}

type refFace struct {
	Group string
	Mat   string // "" = no usemtl in force
	C     [3]refCorner
	Line  int
	Seg   int // number of g statements met before this face (0 = before any g)
}

type refMeaning struct {
	Faces      []refFace
	Groups     []string // names of the g statements in order (including empty groups)
	NV, NT, NN int
	Ignored    map[string]int
	Usemtl     int
}

func splitLines(text string) []string {
	lines := strings.Split(text, "\n")
	for i, l := range lines {
		lines[i] = strings.TrimSuffix(l, "\r")
	}
	return lines
}

func isSpace(c byte) bool { return c == ' ' || c == '\t' || c == '\v' || c == '\f' || c == '\r' }

func tokens(line string) []string {
	if k := strings.IndexByte(line, '#'); k >= 0 {
		line = line[:k]
	}
	var out []string
	i := 0
	for i < len(line) {
		for i < len(line) && isSpace(line[i]) {
			i++
		}
		j := i
		for j < len(line) && !isSpace(line[j]) {
			j++
		}
		if j > i {
			out = append(out, line[i:j])
		}
		i = j
	}
	return out
}

func parseF32(tok string) (float32, error) {
	f, err := strconv.ParseFloat(tok, 32)
	if err != nil {
		return 0, err
	}
	return float32(f), nil
}

func resolveIndex(tok string, pool int, what string) (int, error) {
	n, err := strconv.Atoi(tok)
	if err != nil {
		return 0, fmt.Errorf("%s index %q is not an integer", what, tok)
	}
	switch {
	case n > 0:
		n--
	case n < 0:
		n = pool + n
	default:
		return 0, fmt.Errorf("%s index 0 is not allowed", what)
	}
	if n < 0 || n >= pool {
		return 0, fmt.Errorf("%s index %s is outside the %d %s statements seen so far", what, tok, pool, what)
	}
	return n, nil
}

// interpretOBJ returns the meaning of the text or the first reason why the text
// is not a valid OBJ.
func interpretOBJ(text string) (*refMeaning, error) {
	m := &refMeaning{Ignored: map[string]int{}}
	var V, N [][3]float32
	var T [][2]float32
	group, mat := "", ""
	seg := 0
	for ln, line := range splitLines(text) {
		tk := tokens(line)
		if len(tk) == 0 {
			continue
		}
		fail := func(format string, a ...any) error {
			return fmt.Errorf("line %d %q: %s", ln+1, line, fmt.Sprintf(format, a...))
		}
		switch tk[0] {
		case "v", "vn":
			if len(tk) < 4 {
				return nil, fail("%s needs three numbers", tk[0])
			}
			var p [3]float32
			for k := 0; k < 3; k++ {
				f, err := parseF32(tk[1+k])
				if err != nil {
					return nil, fail("bad number %q", tk[1+k])
				}
				p[k] = f
			}
			if tk[0] == "v" {
				V = append(V, p)
			} else {
				N = append(N, p)
			}
		case "vt":
			if len(tk) < 2 {
				return nil, fail("vt needs at least one number")
			}
			var p [2]float32
			for k := 0; k < 2 && 1+k < len(tk); k++ {
				f, err := parseF32(tk[1+k])
				if err != nil {
					return nil, fail("bad number %q", tk[1+k])
				}
				p[k] = f
			}
			T = append(T, p)
		case "g":
			group = strings.Join(tk[1:], " ")
			m.Groups = append(m.Groups, group)
			seg++
		case "usemtl":
			mat = strings.Join(tk[1:], " ")
			m.Usemtl++
		case "f":
			if len(tk) < 4 {
				return nil, fail("face with %d corners", len(tk)-1)
			}
			cs := make([]refCorner, 0, len(tk)-1)
			for _, ct := range tk[1:] {
				parts := strings.Split(ct, "/")
				if len(parts) > 3 {
					return nil, fail("corner %q has more than three references", ct)
				}
				var c refCorner
				vi, err := resolveIndex(parts[0], len(V), "v")
				if err != nil {
					return nil, fail("corner %q: %v", ct, err)
				}
				c.P, c.tokenV = V[vi], vi
				if len(parts) >= 2 && parts[1] != "" {
					ti, err := resolveIndex(parts[1], len(T), "vt")
					if err != nil {
						return nil, fail("corner %q: %v", ct, err)
					}
					c.HasT, c.T = true, T[ti]
				}
				if len(parts) == 3 && parts[2] != "" {
					ni, err := resolveIndex(parts[2], len(N), "vn")
					if err != nil {
						return nil, fail("corner %q: %v", ct, err)
					}
					c.HasN, c.N = true, N[ni]
				}
				cs = append(cs, c)
			}
			for k := 1; k+1 < len(cs); k++ {
				m.Faces = append(m.Faces, refFace{Group: group, Mat: mat, C: [3]refCorner{cs[0], cs[k], cs[k+1]}, Line: ln + 1, Seg: seg})
			}
		default:
			m.Ignored[tk[0]]++
		}
	}
	m.NV, m.NT, m.NN = len(V), len(T), len(N)
	return m, nil
}

// key is a canonical rendering of the corner data of a face (what "a face" is when
// faces are counted as lost or invented): positions, and texture coordinates /
// normals where the corner references them. -0 and +0 are not distinguished.
func (f *refFace) key() string {
	var sb strings.Builder
	for _, c := range f.C {
		fmt.Fprintf(&sb, "p%v,%v,%v", z(c.P[0]), z(c.P[1]), z(c.P[2]))
		if c.HasT {
			fmt.Fprintf(&sb, "t%v,%v", z(c.T[0]), z(c.T[1]))
		}
		if c.HasN {
			fmt.Fprintf(&sb, "n%v,%v,%v", z(c.N[0]), z(c.N[1]), z(c.N[2]))
		}
		sb.WriteByte('|')
	}
	return sb.String()
}

func z(f float32) float32 {
	if f == 0 {
		return 0
	}
	return f
}

func (f *refFace) String() string {
	return fmt.Sprintf("{line %d group %q usemtl %q %s}", f.Line, f.Group, f.Mat, f.key())
}
