// Package c13 monitors property C13: UpdateParameter, ParameterData and Artifact of
// graph.Instance, issued concurrently, behave as if executed one at a time in an order
// consistent with real time; no data race, no crash, no deadlock.
//
// Every case is one history: a fresh graph (parameters -> shared mid-level nodes -> top
// node -> text/binary producers, so that each parameter reaches an artifact by several
// routes), 2-8 client goroutines issuing 3-8 operations each, every operation recorded at
// the client boundary {client, op, args, call, result, return} with ONE process-wide atomic
// counter as the clock. The history is decided by porcupine against an executable
// sequential model (state = parameter values; artifact = reference rendering of the state
// computed from the plain-data description of the graph). Phase "race" repeats the workload
// in the -race build.
package c13

import (
	"bytes"
	"encoding/json"
	"fmt"
	"math/rand"
	"os"
	"runtime"
	"sort"
	"strings"
	"sync"
	"sync/atomic"
	"time"

	"github.com/anishathalye/porcupine"
	"polyverif/internal/run"
)

func tierFromArgs() string {
	for i, a := range os.Args {
		if (a == "-tier" || a == "--tier") && i+1 < len(os.Args) {
			return os.Args[i+1]
		}
		if len(a) > 6 && a[:6] == "-tier=" {
			return a[6:]
		}
	}
	return "quick"
}

func linCases(t string) int {
	if t == "thorough" {
		return 20000
	}
	return 1200
}

func raceCases(t string) int {
	if t == "thorough" {
		return 2000
	}
	return 150
}

func Spec() *run.Spec {
	tier := tierFromArgs()
	total := int64(linCases(tier) + raceCases(tier))
	return &run.Spec{
		ID: "C13", Level: "exploration",
		Rule: "one case = one concurrent history on a fresh graph.Instance: graph shape (the DESIGN graph p1..p3 -> M1,M2 -> T or a random DAG of 2-5 parameters " +
			"(string/int/file/Vector3Array/Float64/Vector3 — float values include +0/-0, denormals, +-MaxFloat64 and are rendered and compared by bits), 3-6 join nodes, 2-4 text/binary producers plus a real stl.Artifact over a mesh that aliases each vector parameter's slice), 2-8 clients x 3-8 operations drawn from UpdateParameter (unique values; a few with an " +
			"undecodable payload), ParameterData, Artifact+Write; seeded pauses inside the node processors and between client operations. " +
			"non-trivial = the recorded history has operations of different clients that overlap in time (by the logical clock) and contains at least one update and one artifact read; " +
			"signature = graph shape/parameter kinds/depth/producers x clients x operation mix bucket.",
		Assumptions: []string{
			"linearizability is decided per history by porcupine v1.3.0 (CheckOperationsVerbose, 20 s timeout; Unknown -> inconclusive, never held) against the sequential model: Update sets a value (an undecodable payload returns an error and changes nothing), ParameterData returns the current value's message, Artifact returns the reference rendering of the current state",
			"the operation interval of an artifact read ends after Artifact.Write returned (what an HTTP client of the edit server observes); Write is called after a seeded pause, outside the lock, so an artifact that is not a value (it aliases data a later update rewrites) shows as a mixture or as a state that was never current in the interval",
			"vector parameters: a value is n elements (id,j,n) with a unique id, lengths 1-6; rejected vector updates are well-formed JSON whose leading elements decode and a later element has a string for a number (model: error, no change)",
			"the clock of a history is one process-wide atomic counter read immediately before the call and immediately after the return; the wall clock is never read by the oracle",
			"node processors are harness-defined pure functions of their inputs that pause (runtime.Gosched / microsecond sleeps, seeded) between input reads; their only shared state is an atomic execution counter, so every race report implicates polyform",
			"only the three entry points the property names are called concurrently (no graph editing while generating)",
			"poison: an int parameter whose value mod 1000 is in [660,670) makes the harness Itoa node panic; a build that reads it fails (direct: the panic reaches the calling client, which recovers it; HTTP: 500 for that request; GET /zip: the connection dies) and changes nothing — the model renders such a build as PANIC and every other operation must keep linearizing",
			"settle: after every client has finished, each producer and each parameter is read once more, sequentially; these reads are part of the history handed to porcupine",
			"a history that does not return (deadlock) is reported by the framework's stall watchdog as a violation of this property",
			"schedules: only those the Go runtime produced (GOMAXPROCS 2,4,8,16 in the plain build; 2,4,16 under -race)",
		},
		MinNontrivial: map[string]int{"quick": 400, "thorough": 5000},
		MinObserved: map[string]int64{
			"histories_with_overlap":            total/2 + 1, // DESIGN §6: overlapping operations in > 50 % of the histories
			"porcupine_ok":                      total * 8 / 10,
			"event_orders":                      total / 2,
			"artifact_reads":                    total,
			"updates":                           total,
			"parameter_reads":                   total / 2,
			"artifact_evaluations":              total, // processor executions observed: artifacts were recomputed, not served stale from a cache by luck
			"artifacts_after_update":            total / 2,
			"client_counts":                     6,
			"race_gomaxprocs":                   3,
			"graph_shapes":                      3,
			"two_route_graphs":                  total / 2,
			"rejected_updates":                  total / 20,
			"param_kinds":                       6,
			"signed_zero_updates":               total / 4,
			"float_updates":                     total / 2,
			"stl_artifact_reads":                total / 4,
			"stl_artifacts_written_after_pause": total / 8,
			"vec_updates":                       total / 2,
			"vec_update_lengths":                6,
			"rejected_vec_updates_with_decodable_prefix": total / 20,
			"binary_artifact_reads":                      total / 50,
			"histories_lock_contended":                   total / 4,
			"http_histories":                             200,
			"http_requests":                              4000,
			"http_started_reads":                         2000,
			"http_zip_files_read":                        200,
			"http_websocket_clients":                     50,
			"settle_reads":                               total * 3,
			"conditional_read_graphs":                    total / 4,
			"poison_updates":                             total / 20,
			"failed_builds_observed":                     total / 20,
			"slow_artifact_reads":                        total / 4,
		},
		Phases: []run.Phase{
			{Name: "linearize", Cases: linCases, Run: history, Batch: 10, CPUBudgetS: 60, StallViolation: true,
				Env: func(b int) []string { return []string{"GOMAXPROCS=" + []string{"16", "4", "2", "8"}[b%4]} }},
			{Name: "race", Race: true, Cases: raceCases, Run: history, Batch: 5, CPUBudgetS: 60, StallViolation: true, Parallel: 6,
				Env: func(b int) []string { return []string{"GOMAXPROCS=" + []string{"2", "4", "16"}[b%3]} }},
			// the same histories as real HTTP requests against the real edit server (App.Run "edit")
			{Name: "http-linearize", Cases: func(t string) int {
				if t == "thorough" {
					return 6000
				}
				return 400
			}, Run: httpHistory, Batch: 10, CPUBudgetS: 60, StallViolation: true,
				Env: func(b int) []string { return []string{"GOMAXPROCS=" + []string{"4", "16", "2", "8"}[b%4]} }},
			{Name: "http-race", Race: true, Cases: func(t string) int {
				if t == "thorough" {
					return 600
				}
				return 60
			}, Run: httpHistory, Batch: 5, CPUBudgetS: 60, StallViolation: true, Parallel: 6,
				Env: func(b int) []string { return []string{"GOMAXPROCS=" + []string{"2", "4", "16"}[b%3]} }},
		},
	}
}

// ---------------------------------------------------------------------------
// operations and histories
// ---------------------------------------------------------------------------

const (
	opUpdate = iota
	opRead
	opArtifact
)

var opName = []string{"update", "read", "artifact"}

// planned operation (input of the case, generated from the seed before anything runs)
type planOp struct {
	Kind    int
	Param   int
	Prod    int
	Val     string // display value of an update
	Bad     bool   // update with an undecodable payload
	Pre     int32  // pause before the call: <0 = -k yields, >0 microseconds
	Mid     int32  // artifact reads: pause between Artifact() returning and Write (same encoding)
	BadAt   int    // vector parameters: index of the element of a rejected update that has the wrong type
	Zip     bool   // http phases: GET /zip (every producer's artifact in one request) instead of one producer
	ZipPick int    // seeded choice of the archive's files that are checked
	ZipFail bool   // recorded: the /zip request died (no archive): legal only if some build fails in the model
	Settle  bool   // sequential read issued after every client has finished
}

// recorded operation
type recOp struct {
	Client int    `json:"c"`
	Op     string `json:"op"`
	Arg    string `json:"arg"`
	Call   int64  `json:"call"`
	Ret    int64  `json:"ret"`
	Out    string `json:"out"`
	Status int    `json:"status,omitempty"` // http phases
	Fail   string `json:"fail,omitempty"`   // http phases: transport-level failure
	plan   planOp
	ok     bool
	err    bool
	panicV string
	stack  string
	site   string
}

// clock is the process-wide logical clock of all histories.
var clock int64

type pIn struct {
	ZipFail bool
	Kind    int
	Param   int
	Prod    int
	Val     string
	Bad     bool
}

type pOut struct {
	Val string
	Ok  bool
	Err bool
}

const sep = "\x1f"

func model(d *graphDesc, init []string) porcupine.Model {
	return porcupine.Model{
		Init: func() interface{} { return strings.Join(init, sep) },
		Step: func(state, input, output interface{}) (bool, interface{}) {
			st := state.(string)
			in := input.(pIn)
			out := output.(pOut)
			switch in.Kind {
			case opUpdate:
				if in.Bad {
					return out.Err && !out.Ok, st
				}
				// the boolean result ("changed?") is not part of the specification: a repeated
				// value may be a no-op in effect as long as every read shows the model's bits
				if out.Err {
					return false, st
				}
				vals := strings.Split(st, sep)
				vals[in.Param] = in.Val
				return true, strings.Join(vals, sep)
			case opRead:
				vals := strings.Split(st, sep)
				return out.Val == readExpect(d.Params[in.Param].Kind, vals[in.Param]), st
			default:
				vals := strings.Split(st, sep)
				if in.ZipFail {
					// GET /zip died half way: legal only where some producer's build fails
					return d.anyPoisoned(vals), st
				}
				return out.Val == d.artifactOf(vals, in.Prod), st
			}
		},
		Equal: func(a, b interface{}) bool { return a.(string) == b.(string) },
		DescribeOperation: func(input, output interface{}) string {
			return fmt.Sprintf("%+v -> %+v", input, output)
		},
	}
}

func bucket(n int) string {
	switch {
	case n <= 2:
		return fmt.Sprint(n)
	case n <= 4:
		return "3-4"
	case n <= 6:
		return "5-6"
	}
	return "7-8"
}

func history(c *run.Ctx) run.Result { return runHistory(c, false) }

// httpHistory: the same histories issued as real HTTP requests against the real edit server.
func httpHistory(c *run.Ctx) run.Result { return runHistory(c, true) }

func runHistory(c *run.Ctx, viaHTTP bool) run.Result {
	var res run.Result
	r := c.Rng

	// ---- the case: graph, clients, planned operations --------------------------------
	var d *graphDesc
	if r.Intn(3) == 0 {
		d = designGraph(r)
	} else {
		d = randomGraph(r)
	}
	intensity := 1 + r.Intn(4)
	lv := build(d, r, intensity, viaHTTP)
	reachable, twoRoutes := d.reach()
	var targets []int
	for k, ok := range reachable {
		if ok && lv.paramIDs[k] != "" {
			targets = append(targets, k)
		}
	}
	if len(targets) == 0 {
		res.Inconclusive = "degenerate: no parameter reaches a producer"
		return res
	}
	nClients := 2 + r.Intn(7)
	plans := make([][]planOp, nClients)
	lastVec := map[[2]int]string{}
	mix := [3]int{}
	updWeight := 25 + r.Intn(35)
	readWeight := 10 + r.Intn(20)
	for ci := range plans {
		n := 3 + r.Intn(6)
		for j := 0; j < n; j++ {
			op := planOp{Param: targets[r.Intn(len(targets))], Prod: r.Intn(len(d.Producers))}
			switch x := r.Intn(100); {
			case x < updWeight:
				op.Kind = opUpdate
				switch d.Params[op.Param].Kind {
				case pString:
					op.Val = fmt.Sprintf("c%dn%d", ci, j)
				case pInt:
					op.Val = fmt.Sprint(1000*(ci+1) + j)
					if r.Intn(7) == 0 {
						op.Val = fmt.Sprint(1000*(ci+1) + 660 + j) // poison: builds that read it panic
					}
				case pFile:
					op.Val = fmt.Sprintf("f%dn%d", ci, j)
				case pVec:
					// lengths 1..6: shorter, equal and longer than whatever is current, so that
					// some values fit the capacity of the array they replace
					op.Val = fmt.Sprintf("v%dx%d", 100*(ci+1)+j, 1+r.Intn(6))
					if r.Intn(3) == 0 {
						op.Val += "m" // element 0's y is -0
					}
					// the client's previous value again with only the sign of that zero flipped:
					// == in every component, not bit-identical
					if prev := lastVec[[2]int{ci, op.Param}]; prev != "" && r.Intn(3) == 0 {
						if vecNeg(prev) {
							op.Val = strings.TrimSuffix(prev, "m")
						} else {
							op.Val = prev + "m"
						}
					}
					lastVec[[2]int{ci, op.Param}] = op.Val
				case pFloat:
					// signed zeros, denormals, +-MaxFloat64 (genuinely repeated values included),
					// and unique ordinary values
					if r.Intn(10) < 6 {
						op.Val = floatDisplay(specialFloats[r.Intn(len(specialFloats))])
					} else {
						op.Val = floatDisplay(float64(1000*(ci+1)+j) + 0.5)
					}
				case pVec3:
					pick := func() float64 {
						if r.Intn(10) < 7 {
							return specialFloats[r.Intn(len(specialFloats))]
						}
						return float64(1000*(ci+1)+j) + 0.25
					}
					op.Val = vec3Display(pick(), pick(), pick())
				}
				// an undecodable payload (File parameters accept any bytes)
				op.Bad = d.Params[op.Param].Kind != pFile && r.Intn(9) == 0
				if d.Params[op.Param].Kind == pVec {
					// well-formed JSON of the right shape whose leading elements decode and
					// a later element has the wrong type
					op.Bad = r.Intn(5) == 0
					_, n := parseVec(op.Val)
					if op.Bad && n < 2 {
						op.Val = fmt.Sprintf("v%dx%d", 100*(ci+1)+j, 2+r.Intn(5))
						_, n = parseVec(op.Val)
					}
					op.BadAt = 1 + r.Intn(n)
					if op.BadAt >= n {
						op.BadAt = n - 1
					}
				}
			case x < updWeight+readWeight:
				op.Kind = opRead
			default:
				op.Kind = opArtifact
				// a response that is written a little after the artifact was obtained
				switch y := r.Intn(10); {
				case y < 2:
				case y < 4:
					op.Mid = -int32(1 + r.Intn(5))
				default:
					op.Mid = int32(5 + r.Intn(80*intensity))
				}
				// GET /zip: its files share one long request interval, which is what makes a
				// history expensive to check — a few per history, three files looked at per archive
				op.Zip = viaHTTP && r.Intn(12) == 0
				op.ZipPick = r.Intn(1 << 16)
			}
			mix[op.Kind]++
			switch x := r.Intn(10); {
			case x < 3:
			case x < 6:
				op.Pre = -int32(1 + r.Intn(5))
			default:
				op.Pre = int32(5 + r.Intn(60*intensity))
			}
			plans[ci] = append(plans[ci], op)
		}
	}
	res.Sig = fmt.Sprintf("%s|clients%s|u%s/r%s/a%s", d.sig(), bucket(nClients), bucket(mix[0]/3), bucket(mix[1]/3), bucket(mix[2]/3))

	// ---- sequential set-up: file parameters get their initial content --------------------
	init := make([]string, len(d.Params))
	for k, p := range d.Params {
		init[k] = p.Init
		if p.Kind == pFile && lv.paramIDs[k] != "" {
			if pn := run.Try(func() { lv.g.UpdateParameter(lv.paramIDs[k], []byte(p.Init)) }); pn != nil {
				res.Inconclusive = "set-up: UpdateParameter panicked: " + pn.Value
				return res
			}
		}
	}

	var srv *server
	var obs *observers
	if viaHTTP {
		var err error
		if srv, err = startServer(lv.app); err != nil {
			res.Inconclusive = "set-up: the edit server did not come up: " + err.Error()
			return res
		}
		defer srv.tr.CloseIdleConnections()
		obs = srv.observe(1+r.Intn(2), r.Intn(2) == 0)
	}

	// ---- run the clients ----------------------------------------------------------------
	c.Note(fmt.Sprintf("history: %s, %d clients, %d ops, http=%v", d.sig(), nClients, mix[0]+mix[1]+mix[2], viaHTTP))
	// exec issues one operation (directly on graph.Instance or as an HTTP request) and records it
	exec := func(rec recOp) []recOp {
		op := rec.plan
		var pn *run.PanicInfo
		if viaHTTP {
			return httpOp(srv, d, lv, rec)
		}
		switch op.Kind {
		case opUpdate:
			payload := encodeParam(d.Params[op.Param].Kind, op.Val)
			if op.Bad {
				payload = []byte(`{"not": "a ` + pKindName[d.Params[op.Param].Kind] + `"`)
				if d.Params[op.Param].Kind == pVec {
					payload = vecJSON(op.Val, op.BadAt)
				}
			}
			rec.Arg = fmt.Sprintf("p%d=%s", op.Param, payload)
			id := lv.paramIDs[op.Param]
			rec.Call = atomic.AddInt64(&clock, 1)
			pn = run.Try(func() {
				ok, err := lv.g.UpdateParameter(id, payload)
				rec.ok, rec.err = ok, err != nil
			})
			rec.Ret = atomic.AddInt64(&clock, 1)
			rec.Out = fmt.Sprintf("ok=%v err=%v", rec.ok, rec.err)
		case opRead:
			rec.Arg = fmt.Sprintf("p%d", op.Param)
			id := lv.paramIDs[op.Param]
			rec.Call = atomic.AddInt64(&clock, 1)
			pn = run.Try(func() { rec.Out = string(lv.g.ParameterData(id)) })
			rec.Ret = atomic.AddInt64(&clock, 1)
			rec.Out = readCanon(d.Params[op.Param].Kind, rec.Out)
		case opArtifact:
			name := d.Producers[op.Prod].Name
			rec.Arg = name
			var buf bytes.Buffer
			rec.Call = atomic.AddInt64(&clock, 1)
			pn = run.Try(func() {
				a := lv.g.Artifact(name)
				switch {
				case op.Mid < 0:
					for i := int32(0); i < -op.Mid; i++ {
						runtime.Gosched()
					}
				case op.Mid > 0:
					time.Sleep(time.Duration(op.Mid) * time.Microsecond)
				}
				if err := a.Write(&buf); err != nil {
					rec.err = true
				}
			})
			rec.Ret = atomic.AddInt64(&clock, 1)
			if d.Producers[op.Prod].Stl {
				rec.Out = decodeSTL(buf.Bytes())
			} else {
				rec.Out = buf.String()
			}
		}
		if pn != nil {
			if op.Kind == opArtifact && strings.Contains(pn.Value, poisonPanic) {
				// the build failed on a poisoned parameter: the panic reached this client only
				rec.Out = panicOut
			} else {
				rec.panicV, rec.stack, rec.site = pn.Value, pn.Stack, pn.Site
			}
		}
		return []recOp{rec}
	}
	recs := make([][]recOp, nClients)
	start := make(chan struct{})
	var wg sync.WaitGroup
	for ci := range plans {
		wg.Add(1)
		go func(ci int) {
			defer wg.Done()
			<-start
			for _, op := range plans[ci] {
				switch {
				case op.Pre < 0:
					for i := int32(0); i < -op.Pre; i++ {
						runtime.Gosched()
					}
				case op.Pre > 0:
					time.Sleep(time.Duration(op.Pre) * time.Microsecond)
				}
				recs[ci] = append(recs[ci], exec(recOp{Client: ci, Op: opName[op.Kind], plan: op})...)
			}
		}(ci)
	}
	close(start)
	dl := waitOrDeadlock(&wg)
	if obs != nil && dl == nil {
		obs.finish()
		res.Count("http_started_reads", atomic.LoadInt64(&obs.started))
		res.Count("http_websocket_frames", atomic.LoadInt64(&obs.wsFrames))
		res.Count("http_websocket_clients", int64(atomic.LoadInt32(&obs.wsOK)))
		if f := atomic.LoadInt64(&obs.failures); f > 0 {
			res.Violate("http-error", "edit server GET /started", "concurrent clients", fmt.Sprintf("%d of the observer's GET /started requests failed or were not answered 200 while the history ran", f), nil)
		}
	}
	if dl != nil {
		// The clients can never return; their records are incomplete and still being owned by
		// them, so nothing else of this history is evaluated.
		res.Count("histories", 1)
		res.Nontrivial = false
		res.Violate("deadlock", "graph.Instance UpdateParameter/ParameterData/Artifact", "concurrent clients",
			fmt.Sprintf("history never returns: %d goroutine(s) with polyform frames, every one of them parked in a sync mutex acquisition (%s) in two goroutine dumps %v apart while the logical clock stood at %d; nobody is left to release the lock. graph %s, %d clients\n%s",
				dl.parked, strings.Join(dl.entries, ", "), deadlockRecheck, dl.clock, d.sig(), nClients, dl.dump),
			map[string]any{"graph": d, "plans": plans})
		return res
	}

	// ---- settle: every update has been acknowledged; one sequential read of every producer
	// and of every parameter must now show the final state (a download that is older than a
	// completed update is visible here even when no concurrent client happened to look)
	var settle []recOp
	var swg sync.WaitGroup
	swg.Add(1)
	go func() {
		defer swg.Done()
		for pi := range d.Producers {
			settle = append(settle, exec(recOp{Client: nClients, Op: opName[opArtifact], plan: planOp{Kind: opArtifact, Prod: pi, Settle: true}})...)
		}
		for _, k := range targets {
			settle = append(settle, exec(recOp{Client: nClients, Op: opName[opRead], plan: planOp{Kind: opRead, Param: k, Settle: true}})...)
		}
	}()
	if dl := waitOrDeadlock(&swg); dl != nil {
		res.Count("histories", 1)
		res.Violate("deadlock", "graph.Instance UpdateParameter/ParameterData/Artifact", "concurrent clients",
			fmt.Sprintf("every client has finished, but a sequential read issued afterwards never returns: %d goroutine(s) inside graph.Instance entry points, every one of them parked in a sync mutex acquisition (%s) in two goroutine dumps %v apart; the lock was left held. graph %s\n%s",
				dl.parked, strings.Join(dl.entries, ", "), deadlockRecheck, d.sig(), dl.dump),
			map[string]any{"graph": d, "plans": plans})
		return res
	}
	res.Count("settle_reads", int64(len(settle)))

	// ---- evaluate ---------------------------------------------------------------------
	var all []recOp
	for _, rs := range recs {
		all = append(all, rs...)
	}
	all = append(all, settle...)
	sort.Slice(all, func(i, j int) bool { return all[i].Call < all[j].Call })
	wit := func() any { return map[string]any{"graph": d, "history": all} }
	site := "graph.Instance UpdateParameter/ParameterData/Artifact"
	if viaHTTP {
		site = "edit server POST/GET /parameter/value, GET /producer/value, GET /zip"
		res.Count("http_histories", 1)
		res.Count("http_requests", int64(mix[0]+mix[1]+mix[2]))
	}

	panicked := false
	for _, op := range all {
		if !viaHTTP {
			break
		}
		route := map[string]string{"update": "POST /parameter/value/", "read": "GET /parameter/value/", "artifact": "GET /producer/value/"}[op.Op]
		if op.plan.Zip {
			route = "GET /zip"
			res.Count("http_zip_files_read", 1)
		}
		if op.plan.ZipFail || op.Out == panicOut {
			continue // a failed build: the model decides whether a build could fail there
		}
		if op.Fail != "" {
			panicked = true // the history is incomplete: not handed to the checker
			res.Violate("request-failed", "edit server "+route, "concurrent clients",
				fmt.Sprintf("client %d %s(%s): the request got no proper answer (crashed handler/server, reset or hung connection): %s", op.Client, op.Op, op.Arg, op.Fail), wit())
			continue
		}
		wellFormed := !(op.plan.Kind == opUpdate && op.plan.Bad)
		if wellFormed && (op.Status < 200 || op.Status > 299) {
			res.Violate("http-error", "edit server "+route, "concurrent clients",
				fmt.Sprintf("client %d %s(%s): a well-formed request was answered %d %q", op.Client, op.Op, op.Arg, op.Status, op.Out), wit())
		}
	}
	for _, op := range all {
		if op.panicV != "" {
			panicked = true
			res.Violate("runtime-panic", "graph.Instance."+map[string]string{"update": "UpdateParameter", "read": "ParameterData", "artifact": "Artifact"}[op.Op],
				"concurrent clients", fmt.Sprintf("client %d %s(%s) panicked: %s (innermost polyform frame %s)\n%s", op.Client, op.Op, op.Arg, op.panicV, op.site, op.stack), wit())
		}
	}

	// evidence: overlap by the logical clock, event order, counts
	overlap, contended := 0, 0
	for i := range all {
		for j := i + 1; j < len(all); j++ {
			if all[j].Call > all[i].Ret {
				break
			}
			if all[i].Client != all[j].Client {
				overlap++
			}
		}
	}
	// an operation that returned after a later-called operation of another client returned was overtaken (blocked on the lock or slow)
	for i := range all {
		for j := i + 1; j < len(all); j++ {
			if all[j].Call < all[i].Ret && all[j].Ret < all[i].Ret && all[i].Client != all[j].Client {
				contended++
				break
			}
		}
	}
	oh := uint64(1469598103934665603)
	for _, op := range all {
		oh = (oh ^ uint64(op.Client*4+op.plan.Kind)) * 1099511628211
	}
	res.SetAdd("event_orders", fmt.Sprintf("%016x", oh^run.HashStr(res.Sig)))
	res.Count("histories", 1)
	res.Count("operations", int64(len(all)))
	res.Count("updates", int64(mix[0]))
	res.Count("parameter_reads", int64(mix[1]))
	res.Count("artifact_reads", int64(mix[2]))
	res.Count("overlapping_pairs", int64(overlap))
	if overlap > 0 {
		res.Count("histories_with_overlap", 1)
	}
	if contended > 0 {
		res.Count("histories_lock_contended", 1)
	}
	res.Count("artifact_evaluations", atomic.LoadInt64(&lv.execs))
	res.SetAdd("client_counts", fmt.Sprint(nClients))
	res.SetAdd("graph_shapes", d.Shape)
	for _, p := range d.Producers {
		if !p.Stl && d.conditional(p.Node) {
			res.Count("conditional_read_graphs", 1)
			break
		}
	}
	res.SetAdd("gomaxprocs", fmt.Sprint(runtime.GOMAXPROCS(0)))
	if c.Race {
		res.SetAdd("race_gomaxprocs", fmt.Sprint(runtime.GOMAXPROCS(0)))
	}
	if twoRoutes > 0 {
		res.Count("two_route_graphs", 1)
	}
	for _, p := range d.Params {
		res.SetAdd("param_kinds", pKindName[p.Kind])
	}
	distinctArt := map[string]bool{}
	seenUpdate := false
	for _, op := range all {
		switch op.plan.Kind {
		case opUpdate:
			if op.plan.Bad {
				res.Count("rejected_updates", 1)
				if d.Params[op.plan.Param].Kind == pVec {
					res.Count("rejected_vec_updates_with_decodable_prefix", 1)
				}
			} else {
				seenUpdate = true
				if poisonDisplay(d.Params[op.plan.Param].Kind, op.plan.Val) {
					res.Count("poison_updates", 1)
				}
				switch d.Params[op.plan.Param].Kind {
				case pFloat, pVec3:
					res.Count("float_updates", 1)
					for _, f := range parseFloatDisplay(op.plan.Val) {
						if f == 0 {
							res.Count("signed_zero_updates", 1)
							break
						}
					}
				case pVec:
					if vecNeg(op.plan.Val) {
						res.Count("signed_zero_updates", 1)
					}
				}
				if d.Params[op.plan.Param].Kind == pVec {
					_, n := parseVec(op.plan.Val)
					res.Count("vec_updates", 1)
					res.SetAdd("vec_update_lengths", fmt.Sprint(n))
				}
			}
		case opArtifact:
			distinctArt[op.Arg+"="+op.Out] = true
			if seenUpdate {
				res.Count("artifacts_after_update", 1)
			}
			if d.Producers[op.plan.Prod].Binary {
				res.Count("binary_artifact_reads", 1)
			}
			if d.Producers[op.plan.Prod].SlowUS > 0 {
				res.Count("slow_artifact_reads", 1)
			}
			if op.Out == panicOut || op.plan.ZipFail {
				res.Count("failed_builds_observed", 1)
			}
			if d.Producers[op.plan.Prod].Stl {
				res.Count("stl_artifact_reads", 1)
				if op.plan.Mid != 0 {
					res.Count("stl_artifacts_written_after_pause", 1)
				}
			}
		}
	}
	res.Count("distinct_artifact_contents", int64(len(distinctArt)))
	res.Sample = map[string]any{"graph": d, "clients": nClients, "history_head": head(all, 12), "operations": len(all)}
	res.Nontrivial = overlap > 0 && mix[0] > 0 && mix[2] > 0

	if panicked {
		return res
	}

	// porcupine
	ops := make([]porcupine.Operation, 0, len(all))
	for _, op := range all {
		in := pIn{Kind: op.plan.Kind, Param: op.plan.Param, Prod: op.plan.Prod, Val: op.plan.Val, Bad: op.plan.Bad, ZipFail: op.plan.ZipFail}
		out := pOut{Val: op.Out, Ok: op.ok, Err: op.err}
		if op.plan.Kind == opUpdate {
			out.Val = ""
		}
		ops = append(ops, porcupine.Operation{ClientId: op.Client, Input: in, Call: op.Call, Output: out, Return: op.Ret})
	}
	unknown := false
	t0 := time.Now() // evidence only: how expensive the checks were
	result, info := porcupine.CheckOperationsVerbose(model(d, init), ops, 20*time.Second)
	switch el := time.Since(t0); {
	case el < 10*time.Millisecond:
		res.Count("porcupine_checks_under_10ms", 1)
	case el < 100*time.Millisecond:
		res.Count("porcupine_checks_10_100ms", 1)
	case el < time.Second:
		res.Count("porcupine_checks_100ms_1s", 1)
	default:
		res.Count("porcupine_checks_over_1s", 1)
		if dir := os.Getenv("C13_DEBUG_DIR"); dir != "" {
			b, _ := json.Marshal(map[string]any{"phase": c.Phase, "case": c.Case, "graph": d, "init": init, "history": all, "seconds": time.Since(t0).Seconds()})
			os.WriteFile(fmt.Sprintf("%s/slow-%s-%d.json", dir, c.Phase, c.Case), b, 0o644)
		}
	}
	switch result {
	case porcupine.Ok:
		res.Count("porcupine_ok", 1)
	case porcupine.Illegal:
		res.Count("porcupine_illegal", 1)
		longest := 0
		for _, part := range info.PartialLinearizations() {
			for _, lin := range part {
				if len(lin) > longest {
					longest = len(lin)
				}
			}
		}
		res.Violate("not-linearizable", site, "concurrent clients",
			fmt.Sprintf("porcupine: the history of %d operations by %d clients has no linearization against the sequential model (longest partial linearization: %d operations); initial state %v; see the witness for the history",
				len(all), nClients, longest, init)+"\n"+describe(all), wit())
	default:
		res.Count("porcupine_unknown", 1)
		unknown = true
	}
	// direct check: every artifact is the rendering of ONE assignment of the parameters
	matchers := map[int]*regexp2{}
	for _, op := range all {
		if op.plan.Kind != opArtifact || op.plan.ZipFail || op.Out == panicOut {
			continue
		}
		if op.err {
			res.Violate("artifact-write-error", "graph.Instance.Artifact", "concurrent clients", fmt.Sprintf("client %d: Write of artifact %s failed", op.Client, op.Arg), wit())
			continue
		}
		if d.Producers[op.plan.Prod].Stl {
			res.Count("stl_artifacts_decoded", 1)
			if strings.HasPrefix(op.Out, "mix") || op.Out == "empty" {
				res.Violate("torn-snapshot", "graph.Instance.Artifact", "concurrent clients",
					fmt.Sprintf("artifact %s obtained by client %d (clock %d..%d) and written after the lock was released decodes to %q: the facets are not the elements of ONE value of parameter p%d (a value is n elements (id,j,n)) — the returned artifact is not a value usable after unlock", op.Arg, op.Client, op.Call, op.Ret, op.Out, d.Producers[op.plan.Prod].Param), wit())
			}
			continue
		}
		if d.conditional(d.Producers[op.plan.Prod].Node) {
			continue // no fixed shape to unify with: porcupine decides
		}
		m := matchers[op.plan.Prod]
		if m == nil {
			re, occ := d.matcher(d.Producers[op.plan.Prod].Node)
			m = &regexp2{re: re, occ: occ}
			matchers[op.plan.Prod] = m
		}
		groups := m.re.FindStringSubmatch(op.Out)
		if groups == nil {
			res.Violate("torn-snapshot", "graph.Instance.Artifact", "concurrent clients",
				fmt.Sprintf("artifact %s read by client %d is %q, which is not a rendering of the graph for any parameter values (expected shape %s)", op.Arg, op.Client, op.Out, m.re.String()), wit())
			continue
		}
		val := map[int]string{}
		for gi, k := range m.occ {
			v := groups[gi+1]
			if prev, ok := val[k]; ok && prev != v {
				res.Violate("torn-snapshot", "graph.Instance.Artifact", "concurrent clients",
					fmt.Sprintf("artifact %s read by client %d (clock %d..%d) is %q: parameter p%d appears as %q on one route and as %q on another — no single state produces this", op.Arg, op.Client, op.Call, op.Ret, op.Out, k, prev, v), wit())
				break
			}
			val[k] = v
		}
		res.Count("artifacts_unified", 1)
	}
	if unknown && len(res.Violations) == 0 {
		res.Inconclusive = "porcupine: timeout after 20s (Unknown)"
		if dir := os.Getenv("C13_DEBUG_DIR"); dir != "" {
			b, _ := json.Marshal(map[string]any{"phase": c.Phase, "case": c.Case, "graph": d, "init": init, "history": all})
			os.WriteFile(fmt.Sprintf("%s/unknown-%s-%d.json", dir, c.Phase, c.Case), b, 0o644)
		}
	}

	return res
}

// ---------------------------------------------------------------------------
// deadlock detection (state based)
// ---------------------------------------------------------------------------

type deadlock struct {
	parked  int
	entries []string // polyform entry points the parked goroutines sit in
	clock   int64
	dump    string
}

const (
	deadlockPoll    = 250 * time.Millisecond
	deadlockIdle    = 12 // polls without any movement of the logical clock before looking (3 s)
	deadlockRecheck = 2 * time.Second
)

// waitOrDeadlock waits for the clients. The verdict "deadlock" is a statement about the
// state of the process, not about elapsed time: every goroutine that has a polyform frame on
// its stack is parked in a mutex acquisition, in two goroutine dumps taken deadlockRecheck
// apart, and the logical clock did not move in between. Timers only decide WHEN to look.
func waitOrDeadlock(wg *sync.WaitGroup) *deadlock {
	if os.Getenv("C13_NO_DEADLOCK_DETECTOR") != "" {
		// validation knob: leave a deadlock to the framework's stall watchdog (StallViolation)
		wg.Wait()
		return nil
	}
	done := make(chan struct{})
	go func() { wg.Wait(); close(done) }()
	last := atomic.LoadInt64(&clock)
	idle := 0
	for {
		select {
		case <-done:
			return nil
		case <-time.After(deadlockPoll):
		}
		now := atomic.LoadInt64(&clock)
		if now != last {
			last, idle = now, 0
			continue
		}
		idle++
		if idle < deadlockIdle {
			continue
		}
		d1 := allParked()
		if d1 == nil {
			idle = deadlockIdle / 2
			continue
		}
		select {
		case <-done:
			return nil
		case <-time.After(deadlockRecheck):
		}
		d2 := allParked()
		if d2 == nil || atomic.LoadInt64(&clock) != last || d2.parked != d1.parked {
			idle = 0
			last = atomic.LoadInt64(&clock)
			continue
		}
		d2.clock = last
		return d2
	}
}

// allParked inspects a dump of all goroutines: non-nil iff at least one goroutine has a
// polyform frame and every such goroutine is blocked acquiring a sync.Mutex / sync.RWMutex.
func allParked() *deadlock {
	buf := make([]byte, 4<<20)
	n := runtime.Stack(buf, true)
	dl := &deadlock{}
	entries := map[string]bool{}
	var sample []string
	for _, g := range strings.Split(string(buf[:n]), "\n\n") {
		// the goroutines that matter are those inside one of the three entry points (clients
		// calling graph.Instance directly, or the edit server's request handlers); the
		// server's accept loop and websocket hub also carry polyform frames and idle forever
		if !strings.Contains(g, "polyform/generator/graph.(*Instance).") {
			continue
		}
		headEnd := strings.Index(g, "\n")
		if headEnd < 0 {
			headEnd = len(g)
		}
		header := g[:headEnd]
		inLock := strings.Contains(g, "sync.(*Mutex).Lock") || strings.Contains(g, "sync.(*RWMutex).Lock") || strings.Contains(g, "sync.(*RWMutex).RLock")
		waiting := strings.Contains(header, "sync.Mutex.Lock") || strings.Contains(header, "sync.RWMutex") || strings.Contains(header, "semacquire")
		if !inLock || !waiting {
			return nil // somebody inside polyform is not parked on a lock: may still make progress
		}
		dl.parked++
		entries[run.PolyformFrame(g)] = true
		if len(sample) < 3 {
			sample = append(sample, g)
		}
	}
	if dl.parked == 0 {
		return nil
	}
	for e := range entries {
		dl.entries = append(dl.entries, e)
	}
	sort.Strings(dl.entries)
	dl.dump = strings.Join(sample, "\n\n")
	if len(dl.dump) > 3000 {
		dl.dump = dl.dump[:3000]
	}
	return dl
}

type regexp2 struct {
	re interface {
		FindStringSubmatch(string) []string
		String() string
	}
	occ []int
}

func head(a []recOp, n int) []recOp {
	if len(a) > n {
		return a[:n]
	}
	return a
}

func describe(all []recOp) string {
	var b strings.Builder
	for _, op := range all {
		fmt.Fprintf(&b, "[%d..%d] c%d %s(%s) -> %s\n", op.Call, op.Ret, op.Client, op.Op, op.Arg, op.Out)
	}
	return b.String()
}

var _ = rand.Int
