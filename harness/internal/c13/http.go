package c13

import (
	"archive/zip"
	"bufio"
	"bytes"
	"crypto/rand"
	"encoding/base64"
	"fmt"
	"io"
	"net"
	"net/http"
	"os"
	"strings"
	"sync"
	"sync/atomic"
	"time"

	"github.com/EliCDavis/polyform/generator"
)

// The http phases drive the REAL edit server: generator.App.Run([... "edit" ...]) — the
// App's own entry point — builds AppServer, its mux with the real routes and handlers
// (endpoint.Handler / BodyMethod / BinaryRequestReader, ProducerEndpoint, ZipEndpoint,
// StartedEndpoint, the websocket hub) and serves it with http.ListenAndServe on a free
// loopback port. AppServer cannot be constructed from outside the package (its app field is
// unexported), so httptest around AppServer.Handler() is not reachable without a hook.
// ListenAndServe has no shutdown: the listener, the hub goroutine and its ticker live until
// the worker process exits at the end of its batch (a fresh App on a fresh port per case).

type server struct {
	base   string
	hostp  string
	client *http.Client
	tr     *http.Transport
}

func freePort() (string, error) {
	l, err := net.Listen("tcp", "127.0.0.1:0")
	if err != nil {
		return "", err
	}
	defer l.Close()
	return fmt.Sprint(l.Addr().(*net.TCPAddr).Port), nil
}

// startServer runs the App's edit command and waits until /started answers.
func startServer(app *generator.App) (*server, error) {
	var lastErr error
	for attempt := 0; attempt < 4; attempt++ {
		port, err := freePort()
		if err != nil {
			lastErr = err
			continue
		}
		exited := make(chan error, 1)
		go func() {
			exited <- app.Run([]string{"c13", "edit", "-host", "127.0.0.1", "-port", port, "-launch-browser=false"})
		}()
		tr := &http.Transport{MaxIdleConns: 64, MaxIdleConnsPerHost: 64, DisableCompression: true}
		s := &server{base: "http://127.0.0.1:" + port, hostp: "127.0.0.1:" + port, tr: tr, client: &http.Client{Transport: tr, Timeout: 40 * time.Second}}
		for i := 0; i < 400; i++ {
			select {
			case err := <-exited:
				lastErr = fmt.Errorf("App.Run(edit) returned: %v", err)
				i = 1 << 30
				continue
			default:
			}
			// The port was free a moment ago, but sixteen workers pick ports at the same time:
			// the answering server must be OURS — the index page carries the App's name, which
			// is a per-case nonce.
			resp, err := s.client.Get(s.base + "/")
			if err == nil {
				body, _ := io.ReadAll(resp.Body)
				resp.Body.Close()
				if resp.StatusCode == 200 && bytes.Contains(body, []byte(app.Name)) {
					select {
					case err := <-exited:
						lastErr = fmt.Errorf("App.Run(edit) returned: %v", err)
						i = 1 << 30
						continue
					default:
					}
					return s, nil
				}
				lastErr = fmt.Errorf("a server answers on port %s but it is not this case's App (status %d)", port, resp.StatusCode)
				if resp.StatusCode == 200 {
					i = 1 << 30 // somebody else's server: take another port
					continue
				}
			} else {
				lastErr = err
			}
			time.Sleep(5 * time.Millisecond)
		}
	}
	return nil, lastErr
}

var observeSchema = os.Getenv("C13_OBSERVE_SCHEMA") != ""

type httpResult struct {
	status int
	body   []byte
	fail   string // transport-level failure (connection refused / reset / EOF / timeout)
}

func (s *server) do(method, path string, body []byte) httpResult {
	var rd io.Reader
	if body != nil {
		rd = bytes.NewReader(body)
	}
	req, err := http.NewRequest(method, s.base+path, rd)
	if err != nil {
		return httpResult{fail: err.Error()}
	}
	if body != nil {
		req.Header.Set("Content-Type", "application/octet-stream")
	}
	resp, err := s.client.Do(req)
	if err != nil {
		return httpResult{fail: err.Error()}
	}
	defer resp.Body.Close()
	b, err := io.ReadAll(resp.Body)
	if err != nil {
		return httpResult{status: resp.StatusCode, body: b, fail: "reading the response body: " + err.Error()}
	}
	return httpResult{status: resp.StatusCode, body: b}
}

// unzip returns the files of a /zip answer.
func unzip(b []byte) (map[string][]byte, error) {
	zr, err := zip.NewReader(bytes.NewReader(b), int64(len(b)))
	if err != nil {
		return nil, err
	}
	out := map[string][]byte{}
	for _, f := range zr.File {
		rc, err := f.Open()
		if err != nil {
			return nil, err
		}
		data, err := io.ReadAll(rc)
		rc.Close()
		if err != nil {
			return nil, err
		}
		out[f.Name] = data
	}
	return out, nil
}

// observers: the server's own concurrent readers. GET /started (reads the model version
// without the graph lock) in a loop, and one websocket client on /live so that the hub
// broadcasts room states (model version included) while the history runs.
type observers struct {
	stop     chan struct{}
	wg       sync.WaitGroup
	started  int64
	wsFrames int64
	wsOK     int32
	failures int64
}

func (s *server) observe(n int, withWS bool) *observers {
	o := &observers{stop: make(chan struct{})}
	for i := 0; i < n; i++ {
		o.wg.Add(1)
		go func() {
			defer o.wg.Done()
			for {
				select {
				case <-o.stop:
					return
				default:
				}
				r := s.do("GET", "/started", nil)
				if r.fail != "" || r.status != 200 {
					atomic.AddInt64(&o.failures, 1)
				} else {
					atomic.AddInt64(&o.started, 1)
				}
				if observeSchema {
					// exploration knob (off in the registered phases): GET /schema is outside the three entry points of C13
					s.do("GET", "/schema", nil)
				}
				time.Sleep(200 * time.Microsecond)
			}
		}()
	}
	if withWS {
		o.wg.Add(1)
		go func() {
			defer o.wg.Done()
			s.websocket(o)
		}()
	}
	return o
}

func (o *observers) finish() {
	close(o.stop)
	o.wg.Wait()
}

// websocket: RFC 6455 client handshake by hand (no extra module), then counts the frames the
// hub sends until the history is over.
func (s *server) websocket(o *observers) {
	conn, err := net.DialTimeout("tcp", s.hostp, 5*time.Second)
	if err != nil {
		return
	}
	defer conn.Close()
	key := make([]byte, 16)
	rand.Read(key)
	fmt.Fprintf(conn, "GET /live HTTP/1.1\r\nHost: %s\r\nUpgrade: websocket\r\nConnection: Upgrade\r\nSec-WebSocket-Key: %s\r\nSec-WebSocket-Version: 13\r\n\r\n", s.hostp, base64.StdEncoding.EncodeToString(key))
	br := bufio.NewReader(conn)
	conn.SetReadDeadline(time.Now().Add(5 * time.Second))
	status, err := br.ReadString('\n')
	if err != nil || !strings.Contains(status, "101") {
		return
	}
	for {
		l, err := br.ReadString('\n')
		if err != nil {
			return
		}
		if l == "\r\n" {
			break
		}
	}
	atomic.StoreInt32(&o.wsOK, 1)
	for {
		select {
		case <-o.stop:
			return
		default:
		}
		conn.SetReadDeadline(time.Now().Add(20 * time.Millisecond))
		var h [2]byte
		if _, err := io.ReadFull(br, h[:]); err != nil {
			if ne, ok := err.(net.Error); ok && ne.Timeout() {
				continue
			}
			return
		}
		n := int64(h[1] & 0x7f)
		conn.SetReadDeadline(time.Now().Add(2 * time.Second))
		switch n {
		case 126:
			var e [2]byte
			if _, err := io.ReadFull(br, e[:]); err != nil {
				return
			}
			n = int64(e[0])<<8 | int64(e[1])
		case 127:
			var e [8]byte
			if _, err := io.ReadFull(br, e[:]); err != nil {
				return
			}
			n = 0
			for _, b := range e {
				n = n<<8 | int64(b)
			}
		}
		if _, err := io.CopyN(io.Discard, br, n); err != nil {
			return
		}
		atomic.AddInt64(&o.wsFrames, 1)
	}
}

func payloadOf(d *graphDesc, op planOp) []byte {
	kind := d.Params[op.Param].Kind
	if !op.Bad {
		return encodeParam(kind, op.Val)
	}
	if kind == pVec {
		return vecJSON(op.Val, op.BadAt)
	}
	return []byte(`{"not": "a ` + pKindName[kind] + `"`)
}

// httpOp issues one planned operation as a real HTTP request and records it at the client
// boundary with the logical clock. GET /zip yields one record per producer (each file of the
// archive is an artifact read that happened inside the request's interval).
func httpOp(s *server, d *graphDesc, lv *live, rec recOp) []recOp {
	op := rec.plan
	switch op.Kind {
	case opUpdate:
		payload := payloadOf(d, op)
		rec.Arg = fmt.Sprintf("p%d=%s", op.Param, payload)
		rec.Call = atomic.AddInt64(&clock, 1)
		r := s.do("POST", "/parameter/value/"+lv.paramIDs[op.Param], payload)
		rec.Ret = atomic.AddInt64(&clock, 1)
		rec.Status, rec.Fail = r.status, r.fail
		rec.ok = r.fail == "" && r.status >= 200 && r.status <= 299
		rec.err = !rec.ok
		rec.Out = fmt.Sprintf("status=%d %s", r.status, r.body)
	case opRead:
		rec.Arg = fmt.Sprintf("p%d", op.Param)
		rec.Call = atomic.AddInt64(&clock, 1)
		r := s.do("GET", "/parameter/value/"+lv.paramIDs[op.Param], nil)
		rec.Ret = atomic.AddInt64(&clock, 1)
		rec.Status, rec.Fail = r.status, r.fail
		rec.Out = string(r.body)
		if r.status == 200 {
			rec.Out = readCanon(d.Params[op.Param].Kind, rec.Out)
		}
	case opArtifact:
		if op.Zip {
			rec.Call = atomic.AddInt64(&clock, 1)
			r := s.do("GET", "/zip", nil)
			rec.Ret = atomic.AddInt64(&clock, 1)
			rec.Status, rec.Fail = r.status, r.fail
			var files map[string][]byte
			if r.fail == "" {
				var err error
				if files, err = unzip(r.body); err != nil {
					rec.Fail = "unreadable zip archive: " + err.Error()
				}
			}
			if rec.Fail != "" {
				// ZipEndpoint lets a panicking build escape (net/http recovers it and drops the
				// connection): one failed operation; the model says where that is legal
				rec.plan.ZipFail = true
				rec.Arg = "zip"
				rec.Out = "no archive: " + rec.Fail
				return []recOp{rec}
			}
			var out []recOp
			n := len(d.Producers)
			for pi, pr := range d.Producers {
				// three files per archive (seeded rotation), the rest is not looked at
				if n > 3 && (pi+op.ZipPick)%n >= 3 {
					continue
				}
				x := rec
				x.plan.Prod = pi
				x.Arg = "zip:" + pr.Name
				if data, ok := files[pr.Name]; !ok {
					x.Out = "missing from the archive"
				} else if pr.Stl {
					x.Out = decodeSTL(data)
				} else {
					x.Out = string(data)
				}
				out = append(out, x)
			}
			return out
		}
		name := d.Producers[op.Prod].Name
		rec.Arg = name
		rec.Call = atomic.AddInt64(&clock, 1)
		r := s.do("GET", "/producer/value/"+name, nil)
		rec.Ret = atomic.AddInt64(&clock, 1)
		rec.Status, rec.Fail = r.status, r.fail
		switch {
		case r.status == 500 && bytes.Contains(r.body, []byte(poisonPanic)):
			rec.Out = panicOut // the handler recovered the build's panic: this request failed, nothing else
		case d.Producers[op.Prod].Stl && r.status == 200:
			rec.Out = decodeSTL(r.body)
		default:
			rec.Out = string(r.body)
		}
	}
	return []recOp{rec}
}
