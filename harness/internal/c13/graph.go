package c13

import (
	"encoding/binary"
	"encoding/json"
	"fmt"
	"io"
	"math"
	"math/rand"
	"os"
	"regexp"
	"runtime"
	"strconv"
	"strings"
	"sync/atomic"
	"time"

	"github.com/EliCDavis/polyform/formats/stl"
	"github.com/EliCDavis/polyform/generator"
	"github.com/EliCDavis/polyform/generator/artifact"
	"github.com/EliCDavis/polyform/generator/artifact/basics"
	"github.com/EliCDavis/polyform/generator/graph"
	"github.com/EliCDavis/polyform/generator/parameter"
	"github.com/EliCDavis/polyform/modeling"
	"github.com/EliCDavis/polyform/nodes"
	"github.com/EliCDavis/polyform/refutil"
	"github.com/EliCDavis/vector/vector3"
)

// ---------------------------------------------------------------------------
// plain-data description of a graph (the reference model evaluates THIS, from
// scratch, and never looks at polyform's nodes)
// ---------------------------------------------------------------------------

const (
	pString = iota
	pInt
	pFile
	pVec   // parameter.Vector3Array: slice-valued, its data is aliased by meshes built from it
	pFloat // parameter.Float64 over signed zeros, denormals, +-MaxFloat64: values are compared by BITS
	pVec3  // parameter.Vector3 with such components
)

var pKindName = []string{"string", "int", "file", "vec", "float", "vec3"}

type paramDesc struct {
	Kind int    `json:"kind"`
	Init string `json:"init"` // display value (what a node renders)
}

// a reference: >= 0 node index, < 0 parameter -(k+1)
type nodeDesc struct {
	In []int `json:"in"`
	// Kind: 0 join (reads every input); nSwitch: In = [sel, a, b], reads sel, then a if
	// cond(sel) else b — the other input is NOT read; nEarly: In = [a, b], reads a and returns
	// early without reading b if cond(a).
	Kind int `json:"kind,omitempty"`
}

const (
	nJoin = iota
	nSwitch
	nEarly
)

// cond is the condition of the conditional-read nodes: parity of the byte sum of the text.
func cond(s string) bool {
	t := 0
	for i := 0; i < len(s); i++ {
		t += int(s[i])
	}
	return t%2 == 0
}

// eval is the reference evaluation with the conditional-read semantics: the rendering of r
// and whether the evaluation reads a poisoned parameter (inputs that are not read do not count).
func (g *graphDesc) eval(state []string, r int) (string, bool) {
	if r < 0 {
		k := -r - 1
		return state[k], poisonDisplay(g.Params[k].Kind, state[k])
	}
	nd := g.Nodes[r]
	var parts []string
	read := func(in int) (string, bool) { return g.eval(state, in) }
	switch nd.Kind {
	case nSwitch:
		sel, bad := read(nd.In[0])
		if bad {
			return "", true
		}
		br := nd.In[2]
		if cond(sel) {
			br = nd.In[1]
		}
		v, bad := read(br)
		if bad {
			return "", true
		}
		parts = []string{sel, v}
	case nEarly:
		a, bad := read(nd.In[0])
		if bad {
			return "", true
		}
		parts = []string{a}
		if !cond(a) {
			b, bad := read(nd.In[1])
			if bad {
				return "", true
			}
			parts = append(parts, b)
		}
	default:
		for _, in := range nd.In {
			v, bad := read(in)
			if bad {
				return "", true
			}
			parts = append(parts, v)
		}
	}
	return fmt.Sprintf("n%d(%s)", r, strings.Join(parts, ",")), false
}

// conditional: the rendering of r has no fixed shape (some node below reads conditionally).
func (g *graphDesc) conditional(r int) bool {
	if r < 0 {
		return false
	}
	if g.Nodes[r].Kind != nJoin {
		return true
	}
	for _, in := range g.Nodes[r].In {
		if g.conditional(in) {
			return true
		}
	}
	return false
}

type prodDesc struct {
	Name   string `json:"name"`
	Node   int    `json:"node"`
	Binary bool   `json:"binary,omitempty"`
	// Stl: a real stl.Artifact over a mesh whose Position attribute IS the slice of vector
	// parameter Param (no copy); the bytes are formatted from the mesh at Write time.
	Stl   bool `json:"stl,omitempty"`
	Param int  `json:"param,omitempty"`
	// SlowUS > 0: a text artifact whose Write takes this many microseconds (an encoder that
	// is still busy after Artifact() released the lock).
	SlowUS int `json:"slow_us,omitempty"`
}

type graphDesc struct {
	Shape     string      `json:"shape"`
	Params    []paramDesc `json:"params"`
	Nodes     []nodeDesc  `json:"nodes"`
	Producers []prodDesc  `json:"producers"`
}

func pref(k int) int { return -(k + 1) }

// render is the reference evaluation of node n under the parameter values `state`.
// Poison: an int parameter whose value modulo 1000 lies in [660,670) makes the Itoa node that
// reads it panic. A build that touches a poisoned parameter FAILS (the panic reaches the
// caller of Artifact / the HTTP layer answers 500) and changes nothing; it is rendered as
// panicOut by the reference model.
const (
	panicOut    = "PANIC"
	poisonPanic = "c13 poison value"
)

func poisonInt(v int) bool { m := v % 1000; return m >= 660 && m < 670 }

func poisonDisplay(kind int, display string) bool {
	if kind != pInt {
		return false
	}
	v, err := strconv.Atoi(display)
	return err == nil && poisonInt(v)
}

// artifactOf is the reference content of producer pi under `state` (panicOut when the build
// touches a poisoned parameter).
func (g *graphDesc) artifactOf(state []string, pi int) string {
	pr := g.Producers[pi]
	if pr.Stl {
		return state[pr.Param]
	}
	v, bad := g.eval(state, pr.Node)
	if bad {
		return panicOut
	}
	return v
}

// anyPoisoned: some producer's build would fail under `state`.
func (g *graphDesc) anyPoisoned(state []string) bool {
	for pi := range g.Producers {
		if g.artifactOf(state, pi) == panicOut {
			return true
		}
	}
	return false
}

func (g *graphDesc) render(state []string, n int) string {
	var b strings.Builder
	g.renderTo(&b, state, n)
	return b.String()
}

func (g *graphDesc) renderTo(b *strings.Builder, state []string, r int) {
	if r < 0 {
		b.WriteString(state[-r-1])
		return
	}
	fmt.Fprintf(b, "n%d(", r)
	for i, in := range g.Nodes[r].In {
		if i > 0 {
			b.WriteByte(',')
		}
		g.renderTo(b, state, in)
	}
	b.WriteByte(')')
}

// occurrences lists, in rendering order, which parameter fills each slot of the rendering of n.
func (g *graphDesc) occurrences(r int, out []int) []int {
	if r < 0 {
		return append(out, -r-1)
	}
	for _, in := range g.Nodes[r].In {
		out = g.occurrences(in, out)
	}
	return out
}

// matcher builds the regular expression every rendering of node n matches, one capture
// group per parameter occurrence (values are [a-z0-9]*, structure characters are not).
func (g *graphDesc) matcher(n int) (*regexp.Regexp, []int) {
	ph := make([]string, len(g.Params))
	for i := range ph {
		ph[i] = "\x00"
	}
	tpl := g.render(ph, n)
	parts := strings.Split(tpl, "\x00")
	var b strings.Builder
	b.WriteString("^")
	for i, p := range parts {
		b.WriteString(regexp.QuoteMeta(p))
		if i < len(parts)-1 {
			b.WriteString("([a-z0-9]*)")
		}
	}
	b.WriteString("$")
	return regexp.MustCompile(b.String()), g.occurrences(n, nil)
}

// reach: parameters reachable from some producer, and parameters that reach one producer
// by at least two routes (a torn snapshot of those is directly visible).
func (g *graphDesc) reach() (reachable []bool, twoRoutes int) {
	reachable = make([]bool, len(g.Params))
	multi := make([]bool, len(g.Params))
	for _, p := range g.Producers {
		if p.Stl {
			reachable[p.Param] = true
			continue
		}
		cnt := map[int]int{}
		for _, k := range g.occurrences(p.Node, nil) {
			cnt[k]++
			reachable[k] = true
		}
		for k, c := range cnt {
			if c >= 2 {
				multi[k] = true
			}
		}
	}
	for _, m := range multi {
		if m {
			twoRoutes++
		}
	}
	return
}

func (g *graphDesc) depth(r int) int {
	if r < 0 {
		return 0
	}
	d := 0
	for _, in := range g.Nodes[r].In {
		if x := g.depth(in); x > d {
			d = x
		}
	}
	return d + 1
}

// designGraph is the graph of DESIGN.md §3 C13: p1..p3; M1=f(p1,p2), M2=g(p2,p3);
// T=h(M1,M2,p1) feeding two text producers (and one on M1).
func designGraph(r *rand.Rand) *graphDesc {
	g := &graphDesc{Shape: "design"}
	for k := 0; k < 3; k++ {
		g.Params = append(g.Params, paramDesc{Kind: pString})
	}
	switch r.Intn(4) {
	case 0:
		g.Params[2].Kind = pInt
		g.Shape = "design+int"
	case 1, 2:
		g.Params[1].Kind = pVec // the parameter shared by M1 and M2
		g.Shape = "design+vec"
	}
	if r.Intn(2) == 0 {
		g.Params[0].Kind = []int{pFloat, pVec3}[r.Intn(2)] // the parameter that reaches T by two routes
		g.Shape += "+float"
	}
	g.Nodes = []nodeDesc{
		{In: []int{pref(0), pref(1)}},
		{In: []int{pref(1), pref(2)}},
		{In: []int{0, 1, pref(0)}},
	}
	switch r.Intn(3) {
	case 0:
		// T switches on p1 between the two multi-level inputs M1 and M2
		g.Nodes[2] = nodeDesc{Kind: nSwitch, In: []int{pref(0), 0, 1}}
		g.Shape += "+switch"
	case 1:
		// an early-return node over M1 and M2 in front of T
		g.Nodes = append(g.Nodes, nodeDesc{Kind: nEarly, In: []int{0, 1}})
		g.Nodes[2], g.Nodes[3] = nodeDesc{Kind: nEarly, In: []int{0, 1}}, nodeDesc{In: []int{2, 1, pref(0)}}
		g.Shape += "+early"
	}
	top := len(g.Nodes) - 1
	g.Producers = []prodDesc{{Name: "out.txt", Node: top}, {Name: "copy.txt", Node: top}, {Name: "m1.txt", Node: 0}}
	if r.Intn(2) == 0 {
		g.Producers = append(g.Producers, prodDesc{Name: "slow.txt", Node: top, SlowUS: 300 + r.Intn(2500)})
	}
	g.addStlProducers(r, 1)
	return g
}

// randomGraph: 2..5 parameters of mixed kinds, 2..5 mid-level nodes over parameters and
// earlier nodes, a top node over two nodes and a parameter, 2..4 producers (text and binary)
// on the top node and on mid-level nodes.
func randomGraph(r *rand.Rand) *graphDesc {
	g := &graphDesc{Shape: "random"}
	np := 2 + r.Intn(4)
	for k := 0; k < np; k++ {
		kind := pString
		switch r.Intn(12) {
		case 0, 1:
			kind = pInt
		case 2:
			kind = pFile
		case 3, 4, 5:
			kind = pVec
		case 6, 7, 8:
			kind = pFloat
		case 9, 10:
			kind = pVec3
		}
		g.Params = append(g.Params, paramDesc{Kind: kind})
	}
	nm := 2 + r.Intn(4)
	for i := 0; i < nm; i++ {
		var in []int
		in = append(in, pref((i+r.Intn(2))%np)) // every node reads at least one parameter directly
		want := 2 + r.Intn(2)
		for len(in) < want {
			var c int
			if i > 0 && r.Intn(2) == 0 {
				c = r.Intn(i)
			} else {
				c = pref(r.Intn(np))
			}
			dup := false
			for _, x := range in {
				if x == c {
					dup = true
				}
			}
			if !dup {
				in = append(in, c)
			} else if r.Intn(4) == 0 {
				break
			}
		}
		r.Shuffle(len(in), func(a, b int) { in[a], in[b] = in[b], in[a] })
		nd := nodeDesc{In: in}
		if i >= 2 && r.Intn(3) == 0 {
			// conditional read over two earlier (multi-level) nodes
			x := r.Intn(i)
			y := (x + 1 + r.Intn(i-1)) % i
			if r.Intn(2) == 0 {
				nd = nodeDesc{Kind: nSwitch, In: []int{pref(r.Intn(np)), x, y}}
			} else {
				nd = nodeDesc{Kind: nEarly, In: []int{x, y}}
			}
			g.Shape = "random+cond"
		}
		g.Nodes = append(g.Nodes, nd)
	}
	// top: last mid, another node, and a parameter that already sits below (two routes)
	a := nm - 1
	b := r.Intn(nm)
	if b == a {
		b = (a + nm - 1) % nm
	}
	under := g.occurrences(a, nil)
	top := nodeDesc{In: []int{a, b, pref(under[r.Intn(len(under))])}}
	if a == b {
		top.In = []int{a, pref(under[r.Intn(len(under))])}
	}
	if a != b && r.Intn(3) == 0 {
		top = nodeDesc{Kind: nSwitch, In: []int{pref(under[r.Intn(len(under))]), a, b}}
		g.Shape = "random+cond"
	}
	g.Nodes = append(g.Nodes, top)
	t := len(g.Nodes) - 1
	g.Producers = []prodDesc{{Name: "top.txt", Node: t}, {Name: "mid.txt", Node: r.Intn(nm)}}
	if r.Intn(2) == 0 {
		g.Producers = append(g.Producers, prodDesc{Name: "top.bin", Node: t, Binary: true})
	}
	if r.Intn(3) == 0 {
		g.Producers = append(g.Producers, prodDesc{Name: "other.bin", Node: r.Intn(nm), Binary: true})
	}
	if r.Intn(2) == 0 {
		g.Producers = append(g.Producers, prodDesc{Name: "slow.txt", Node: []int{t, r.Intn(nm)}[r.Intn(2)], SlowUS: 300 + r.Intn(2500)})
	}
	g.addStlProducers(r, 4)
	return g
}

// addStlProducers puts an stl producer on vector parameters (always when oneIn == 1).
func (g *graphDesc) addStlProducers(r *rand.Rand, oneIn int) {
	for k, p := range g.Params {
		if p.Kind == pVec && (oneIn <= 1 || r.Intn(oneIn) != 0) {
			g.Producers = append(g.Producers, prodDesc{Name: fmt.Sprintf("cloud%d.stl", k), Stl: true, Param: k, Node: -1})
		}
	}
}

func (g *graphDesc) sig() string {
	kinds := ""
	for _, p := range g.Params {
		kinds += pKindName[p.Kind][:1]
	}
	maxd := 0
	bin := 0
	stl := 0
	for _, p := range g.Producers {
		if p.Stl {
			stl++
			continue
		}
		if d := g.depth(p.Node); d > maxd {
			maxd = d
		}
		if p.Binary {
			bin++
		}
	}
	_, two := g.reach()
	return fmt.Sprintf("%s/p=%s/n%d/depth%d/prod%d(bin%d,stl%d)/2route%d", g.Shape, kinds, len(g.Nodes), maxd, len(g.Producers), bin, stl, two)
}

// ---------------------------------------------------------------------------
// harness-defined node types (nodes.Struct processors)
// ---------------------------------------------------------------------------

// pausePlan says what a processor does after reading each of its inputs: nothing, yield k
// times, or sleep a few microseconds. Immutable once built; the counters are atomics.
type pausePlan struct {
	kind  [3]int8 // 0 none, 1 gosched, 2 sleep
	n     [3]int32
	execs *int64
}

func (p *pausePlan) pause(slot int) {
	if p == nil {
		return
	}
	switch p.kind[slot] {
	case 1:
		for i := int32(0); i < p.n[slot]; i++ {
			runtime.Gosched()
		}
	case 2:
		time.Sleep(time.Duration(p.n[slot]) * time.Microsecond)
	}
}

func genPlan(r *rand.Rand, execs *int64, intensity int) *pausePlan {
	p := &pausePlan{execs: execs}
	for s := 0; s < 3; s++ {
		switch x := r.Intn(10); {
		case x < 2:
		case x < 5:
			p.kind[s], p.n[s] = 1, int32(1+r.Intn(4))
		default:
			p.kind[s], p.n[s] = 2, int32(10+r.Intn(40*intensity))
		}
	}
	return p
}

// JoinData renders its inputs in order: Tag(a,b,c). It yields between input reads so that,
// without mutual exclusion, another client can change a parameter in the middle.
type JoinData struct {
	A    nodes.NodeOutput[string]
	B    nodes.NodeOutput[string]
	C    nodes.NodeOutput[string]
	Tag  string
	Plan *pausePlan
}

func (d JoinData) Process() (string, error) {
	if d.Plan != nil {
		atomic.AddInt64(d.Plan.execs, 1)
	}
	parts := make([]string, 0, 3)
	for slot, in := range []nodes.NodeOutput[string]{d.A, d.B, d.C} {
		if in == nil {
			continue
		}
		parts = append(parts, in.Value())
		d.Plan.pause(slot)
	}
	return d.Tag + "(" + strings.Join(parts, ",") + ")", nil
}

type JoinNode = nodes.Struct[string, JoinData]

// SwitchData reads Sel and then ONLY the input the condition selects.
type SwitchData struct {
	Sel  nodes.NodeOutput[string]
	A    nodes.NodeOutput[string]
	B    nodes.NodeOutput[string]
	Tag  string
	Plan *pausePlan
}

func (d SwitchData) Process() (string, error) {
	if d.Plan != nil {
		atomic.AddInt64(d.Plan.execs, 1)
	}
	sel := d.Sel.Value()
	d.Plan.pause(0)
	var v string
	if cond(sel) {
		v = d.A.Value()
	} else {
		v = d.B.Value()
	}
	d.Plan.pause(1)
	return d.Tag + "(" + sel + "," + v + ")", nil
}

type SwitchNode = nodes.Struct[string, SwitchData]

// EarlyData reads A and returns early, without reading B, when the condition holds.
type EarlyData struct {
	A    nodes.NodeOutput[string]
	B    nodes.NodeOutput[string]
	Tag  string
	Plan *pausePlan
}

func (d EarlyData) Process() (string, error) {
	if d.Plan != nil {
		atomic.AddInt64(d.Plan.execs, 1)
	}
	a := d.A.Value()
	d.Plan.pause(0)
	if cond(a) {
		return d.Tag + "(" + a + ")", nil
	}
	b := d.B.Value()
	d.Plan.pause(1)
	return d.Tag + "(" + a + "," + b + ")", nil
}

type EarlyNode = nodes.Struct[string, EarlyData]

// ItoaData turns an int parameter into its decimal text.
type ItoaData struct {
	In   nodes.NodeOutput[int]
	Plan *pausePlan
}

func (d ItoaData) Process() (string, error) {
	v := d.In.Value()
	d.Plan.pause(0)
	if poisonInt(v) {
		panic(fmt.Errorf("%s %d", poisonPanic, v))
	}
	return strconv.Itoa(v), nil
}

type ItoaNode = nodes.Struct[string, ItoaData]

// BytesToStringData turns a file parameter's content into text.
type BytesToStringData struct {
	In   nodes.NodeOutput[[]byte]
	Plan *pausePlan
}

func (d BytesToStringData) Process() (string, error) {
	v := string(d.In.Value())
	d.Plan.pause(0)
	return v, nil
}

type BytesToStringNode = nodes.Struct[string, BytesToStringData]

// ---- float parameters ----------------------------------------------------------------
//
// Values are compared by BITS: the display of a float is "x" + 16 hex digits of its IEEE bits
// (of a Vector3: 48 digits). +0 and -0, which compare == but are different values (1/x is
// +Inf or -Inf), therefore differ in every rendering and in every read.

var specialFloats = []float64{0, math.Copysign(0, -1), 0, math.Copysign(0, -1), 5e-324, -5e-324, math.MaxFloat64, -math.MaxFloat64, 1, -1, 2.2250738585072014e-308}

func floatDisplay(v float64) string { return fmt.Sprintf("x%016x", math.Float64bits(v)) }

func vec3Display(x, y, z float64) string {
	return fmt.Sprintf("x%016x%016x%016x", math.Float64bits(x), math.Float64bits(y), math.Float64bits(z))
}

func parseFloatDisplay(display string) []float64 {
	var out []float64
	for i := 1; i+16 <= len(display); i += 16 {
		b, _ := strconv.ParseUint(display[i:i+16], 16, 64)
		out = append(out, math.Float64frombits(b))
	}
	return out
}

func jsonFloat(v float64) string { return strconv.FormatFloat(v, 'g', -1, 64) }

// readCanon turns what ParameterData returned for a float-valued parameter into its display
// (so that the comparison with the model is on bits, not on the text of the number).
func readCanon(kind int, raw string) string {
	switch kind {
	case pFloat:
		if v, err := strconv.ParseFloat(strings.TrimSpace(raw), 64); err == nil {
			return floatDisplay(v)
		}
	case pVec3:
		var t struct{ X, Y, Z *float64 }
		if json.Unmarshal([]byte(raw), &t) == nil && t.X != nil && t.Y != nil && t.Z != nil {
			return vec3Display(*t.X, *t.Y, *t.Z)
		}
	}
	return raw
}

// readExpect is what a read of the parameter must show (after readCanon) in state `display`.
func readExpect(kind int, display string) string {
	if kind == pFloat || kind == pVec3 {
		return display
	}
	return string(encodeParam(kind, display))
}

// FloatToStringData / Vec3ToStringData render the BITS (sign sensitive) into the text DAG.
type FloatToStringData struct {
	In   nodes.NodeOutput[float64]
	Plan *pausePlan
}

func (d FloatToStringData) Process() (string, error) {
	v := floatDisplay(d.In.Value())
	d.Plan.pause(0)
	return v, nil
}

type FloatToStringNode = nodes.Struct[string, FloatToStringData]

type Vec3ToStringData struct {
	In   nodes.NodeOutput[vector3.Float64]
	Plan *pausePlan
}

func (d Vec3ToStringData) Process() (string, error) {
	v := d.In.Value()
	d.Plan.pause(0)
	return vec3Display(v.X(), v.Y(), v.Z()), nil
}

type Vec3ToStringNode = nodes.Struct[string, Vec3ToStringData]

// ---- vector parameters ---------------------------------------------------------------
//
// A value of a vector parameter is identified by (id, n): n elements (id, j, n), j = 0..n-1;
// its display text is "v<id>x<n>". Any other content (elements of two values mixed, wrong
// count) is displayed as "mix..." and is the rendering of no state.

func vecDisplay(pts [][3]int, negY0 bool) string {
	if len(pts) == 0 {
		return "empty"
	}
	m := ""
	if negY0 {
		m = "m" // element 0's y (always zero) is -0
	}
	ok := true
	for j, p := range pts {
		if p[0] != pts[0][0] || p[1] != j || p[2] != len(pts) {
			ok = false
		}
	}
	if ok {
		return fmt.Sprintf("v%dx%d%s", pts[0][0], len(pts), m)
	}
	var b strings.Builder
	b.WriteString("mix" + m)
	for _, p := range pts {
		fmt.Fprintf(&b, "i%dj%dn%d", p[0], p[1], p[2])
	}
	return b.String()
}

func parseVec(display string) (id, n int) {
	fmt.Sscanf(display, "v%dx%d", &id, &n)
	return
}

func vecNeg(display string) bool { return strings.HasSuffix(display, "m") }

func vecPoints(display string) []vector3.Float64 {
	id, n := parseVec(display)
	out := make([]vector3.Float64, n)
	for j := range out {
		out[j] = vector3.New(float64(id), float64(j), float64(n))
	}
	if n > 0 && vecNeg(display) {
		out[0] = vector3.New(float64(id), math.Copysign(0, -1), float64(n))
	}
	return out
}

// vecJSON is the message of a vector value, written out by hand ({"x":..,"y":..,"z":..}).
// badAt >= 0: element badAt carries a string where a number belongs (the prefix decodes).
func vecJSON(display string, badAt int) []byte {
	id, n := parseVec(display)
	var b strings.Builder
	b.WriteByte('[')
	for j := 0; j < n; j++ {
		if j > 0 {
			b.WriteByte(',')
		}
		y := fmt.Sprint(j)
		if j == 0 && vecNeg(display) {
			y = "-0"
		}
		if j == badAt {
			fmt.Fprintf(&b, `{"x":"%d","y":%s,"z":%d}`, id, y, n)
		} else {
			fmt.Fprintf(&b, `{"x":%d,"y":%s,"z":%d}`, id, y, n)
		}
	}
	b.WriteByte(']')
	return []byte(b.String())
}

func sliceDisplay(v []vector3.Float64) string {
	pts := make([][3]int, len(v))
	for i, p := range v {
		pts[i] = [3]int{int(p.X()), int(p.Y()), int(p.Z())}
	}
	return vecDisplay(pts, len(v) > 0 && v[0].Y() == 0 && math.Signbit(v[0].Y()))
}

// VecToStringData renders a vector parameter into the text DAG (a copy, made under the lock).
type VecToStringData struct {
	In   nodes.NodeOutput[[]vector3.Float64]
	Plan *pausePlan
}

func (d VecToStringData) Process() (string, error) {
	v := sliceDisplay(d.In.Value())
	d.Plan.pause(0)
	return v, nil
}

type VecToStringNode = nodes.Struct[string, VecToStringData]

// CloudMeshData builds a mesh over the parameter's slice WITHOUT copying it (as
// modeling.NewPointCloud / SetFloat3Attribute do): triangle i = (i,i,i), so the binary STL
// written later lists element i as the first vertex of facet i.
type CloudMeshData struct {
	In nodes.NodeOutput[[]vector3.Float64]
}

func (d CloudMeshData) Process() (modeling.Mesh, error) {
	pts := d.In.Value()
	idx := make([]int, 0, 3*len(pts))
	for i := range pts {
		idx = append(idx, i, i, i)
	}
	return modeling.NewTriangleMesh(idx).SetFloat3Attribute(modeling.PositionAttribute, pts), nil
}

type CloudMeshNode = nodes.Struct[modeling.Mesh, CloudMeshData]

// decodeSTL reads a binary STL by its published layout (80-byte header, uint32 facet count,
// 50 bytes per facet: normal, 3 vertices, attribute) and displays the first vertices.
func decodeSTL(b []byte) string {
	if len(b) < 84 {
		return fmt.Sprintf("mixshort%d", len(b))
	}
	n := int(binary.LittleEndian.Uint32(b[80:84]))
	if len(b) != 84+50*n {
		return fmt.Sprintf("mixsize%dfor%d", len(b), n)
	}
	pts := make([][3]int, n)
	negY0 := false
	for k := 0; k < n; k++ {
		off := 84 + 50*k + 12
		for c := 0; c < 3; c++ {
			f := math.Float32frombits(binary.LittleEndian.Uint32(b[off+4*c:]))
			pts[k][c] = int(f)
			if k == 0 && c == 1 && f == 0 && math.Signbit(float64(f)) {
				negY0 = true
			}
		}
	}
	return vecDisplay(pts, negY0)
}

// SlowText is a harness artifact whose Write is slow: the encoder keeps working for a while
// after Artifact() returned and released the lock.
type SlowText struct {
	Data  string
	Delay time.Duration
}

func (s SlowText) Write(w io.Writer) error {
	half := len(s.Data) / 2
	if _, err := w.Write([]byte(s.Data[:half])); err != nil {
		return err
	}
	time.Sleep(s.Delay)
	_, err := w.Write([]byte(s.Data[half:]))
	return err
}

func (SlowText) Mime() string { return "text/plain" }

type SlowTextData struct {
	In      nodes.NodeOutput[string]
	DelayUS int
}

func (d SlowTextData) Process() (artifact.Artifact, error) {
	return SlowText{Data: d.In.Value(), Delay: time.Duration(d.DelayUS) * time.Microsecond}, nil
}

type SlowTextNode = nodes.Struct[artifact.Artifact, SlowTextData]

// StringToBytesData feeds a binary producer.
type StringToBytesData struct {
	In nodes.NodeOutput[string]
}

func (d StringToBytesData) Process() ([]byte, error) { return []byte(d.In.Value()), nil }

type StringToBytesNode = nodes.Struct[[]byte, StringToBytesData]

// ---------------------------------------------------------------------------
// building the polyform graph from the description
// ---------------------------------------------------------------------------

var appSerial int64

type live struct {
	app      *generator.App
	g        *graph.Instance
	paramIDs []string
	execs    int64
}

func encodeParam(kind int, display string) []byte {
	switch kind {
	case pString:
		return []byte(`"` + display + `"`)
	case pInt:
		return []byte(display)
	case pVec:
		return vecJSON(display, -1)
	case pFloat:
		return []byte(jsonFloat(parseFloatDisplay(display)[0]))
	case pVec3:
		f := parseFloatDisplay(display)
		return []byte(fmt.Sprintf(`{"x":%s,"y":%s,"z":%s}`, jsonFloat(f[0]), jsonFloat(f[1]), jsonFloat(f[2])))
	}
	return []byte(display)
}

// build creates the polyform graph of the description. viaApp: the graph.Instance is the one
// of a generator.App whose Files are the producers (the App the edit server serves), obtained
// through the verif hook; otherwise a bare graph.Instance.
func build(d *graphDesc, r *rand.Rand, intensity int, viaApp bool) *live {
	lv := &live{}
	pnodes := make([]nodes.Node, len(d.Params))
	pouts := make([]nodes.NodeOutput[string], len(d.Params))
	vouts := make([]nodes.NodeOutput[[]vector3.Float64], len(d.Params))
	for k := range d.Params {
		p := &d.Params[k]
		switch p.Kind {
		case pString:
			p.Init = fmt.Sprintf("s%dinit", k)
			n := &parameter.String{Name: fmt.Sprintf("p%d", k), DefaultValue: p.Init}
			pnodes[k], pouts[k] = n, n.Out()
		case pInt:
			p.Init = strconv.Itoa(7 + k)
			n := &parameter.Int{Name: fmt.Sprintf("p%d", k), DefaultValue: 7 + k}
			pnodes[k] = n
			pouts[k] = (&ItoaNode{Data: ItoaData{In: n.Out(), Plan: genPlan(r, &lv.execs, intensity)}}).Out()
		case pVec:
			p.Init = fmt.Sprintf("v%dx%d", 900+k, 2+k%3)
			n := &parameter.Vector3Array{Name: fmt.Sprintf("p%d", k), DefaultValue: vecPoints(p.Init)}
			pnodes[k] = n
			vouts[k] = n.Out()
			pouts[k] = (&VecToStringNode{Data: VecToStringData{In: n.Out(), Plan: genPlan(r, &lv.execs, intensity)}}).Out()
		case pFloat:
			v := []float64{0, math.Copysign(0, -1), 1.5}[k%3]
			p.Init = floatDisplay(v)
			n := &parameter.Float64{Name: fmt.Sprintf("p%d", k), DefaultValue: v}
			pnodes[k] = n
			pouts[k] = (&FloatToStringNode{Data: FloatToStringData{In: n.Out(), Plan: genPlan(r, &lv.execs, intensity)}}).Out()
		case pVec3:
			x, y, z := 0.0, math.Copysign(0, -1), float64(k)
			p.Init = vec3Display(x, y, z)
			n := &parameter.Vector3{Name: fmt.Sprintf("p%d", k), DefaultValue: vector3.New(x, y, z)}
			pnodes[k] = n
			pouts[k] = (&Vec3ToStringNode{Data: Vec3ToStringData{In: n.Out(), Plan: genPlan(r, &lv.execs, intensity)}}).Out()
		case pFile:
			p.Init = fmt.Sprintf("f%dinit", k)
			n := &parameter.File{Name: fmt.Sprintf("p%d", k)}
			pnodes[k] = n
			pouts[k] = (&BytesToStringNode{Data: BytesToStringData{In: n.Out(), Plan: genPlan(r, &lv.execs, intensity)}}).Out()
		}
	}
	nouts := make([]nodes.NodeOutput[string], len(d.Nodes))
	get := func(ref int) nodes.NodeOutput[string] {
		if ref < 0 {
			return pouts[-ref-1]
		}
		return nouts[ref]
	}
	for i, nd := range d.Nodes {
		switch nd.Kind {
		case nSwitch:
			nouts[i] = (&SwitchNode{Data: SwitchData{Sel: get(nd.In[0]), A: get(nd.In[1]), B: get(nd.In[2]), Tag: fmt.Sprintf("n%d", i), Plan: genPlan(r, &lv.execs, intensity)}}).Out()
			continue
		case nEarly:
			nouts[i] = (&EarlyNode{Data: EarlyData{A: get(nd.In[0]), B: get(nd.In[1]), Tag: fmt.Sprintf("n%d", i), Plan: genPlan(r, &lv.execs, intensity)}}).Out()
			continue
		}
		jd := JoinData{Tag: fmt.Sprintf("n%d", i), Plan: genPlan(r, &lv.execs, intensity)}
		for s, in := range nd.In {
			switch s {
			case 0:
				jd.A = get(in)
			case 1:
				jd.B = get(in)
			case 2:
				jd.C = get(in)
			}
		}
		nouts[i] = (&JoinNode{Data: jd}).Out()
	}
	files := map[string]nodes.NodeOutput[artifact.Artifact]{}
	for _, p := range d.Producers {
		var out nodes.NodeOutput[artifact.Artifact]
		if p.Stl {
			mesh := (&CloudMeshNode{Data: CloudMeshData{In: vouts[p.Param]}}).Out()
			out = (&stl.ArtifactNode{Data: stl.ArtifactNodeData{In: mesh}}).Out()
		} else if p.SlowUS > 0 {
			out = (&SlowTextNode{Data: SlowTextData{In: nouts[p.Node], DelayUS: p.SlowUS}}).Out()
		} else if p.Binary {
			out = basics.NewBinaryNode((&StringToBytesNode{Data: StringToBytesData{In: nouts[p.Node]}}).Out())
		} else {
			out = basics.NewTextNode(nouts[p.Node])
		}
		files[p.Name] = out
	}
	var g *graph.Instance
	if viaApp {
		lv.app = &generator.App{Name: fmt.Sprintf("c13-%d-%d-%x", os.Getpid(), atomic.AddInt64(&appSerial, 1), r.Uint64()), Version: "v0", Description: "C13 history", Files: files, Out: io.Discard}
		g = generator.VerifGraph(lv.app)
	} else {
		g = graph.New(&refutil.TypeFactory{})
		for _, p := range d.Producers {
			g.AddProducer(p.Name, files[p.Name])
		}
	}
	lv.g = g
	lv.paramIDs = make([]string, len(d.Params))
	for k, n := range pnodes {
		lv.paramIDs[k] = g.NodeId(n) // "" when no producer reaches the parameter
	}
	return lv
}
