package c08

import (
	"bytes"
	"encoding/binary"
	"fmt"
	"math"
	"strconv"
	"strings"
)

// encode is the reference PLY encoder: it renders the abstract file model as
// the bytes a third-party tool would write, following the format description
// (header grammar; ascii = white-space separated numbers, one record per line,
// a list = its count then its items; binary = the declared machine types in the
// declared byte order, no padding). It shares nothing with polyform.
func encode(m *model) []byte {
	out := &bytes.Buffer{}
	nl := m.HeaderNL
	var core []string
	core = append(core, fmt.Sprintf("element vertex %d", len(m.Verts)))
	for _, p := range m.VProps {
		core = append(core, "property "+p.Spelled+" "+p.Name)
	}
	if m.HasFace {
		core = append(core, fmt.Sprintf("element face %d", len(m.Faces)))
		for _, l := range m.Lists {
			core = append(core, "property list "+l.CountSpelled+" "+l.ItemSpelled+" "+l.Name)
		}
	}
	if m.HeaderWide {
		// tokens of a header line are separated by white space: some tools align them
		for i, l := range core {
			f := strings.Fields(l)
			core[i] = strings.Join(f, []string{"  ", "\t", "   "}[i%3]) + []string{"", " ", ""}[i%3]
		}
	}
	out.WriteString("ply" + nl + "format " + m.Format + " 1.0" + nl)
	for i := 0; i <= len(core); i++ {
		for _, e := range m.Extras {
			if e.After == i {
				out.WriteString(e.Text + nl)
			}
		}
		if i < len(core) {
			out.WriteString(core[i] + nl)
		}
	}
	out.WriteString("end_header" + nl)

	if m.Format == "ascii" {
		eol := "\n"
		if m.BodyCRLF {
			eol = "\r\n"
		}
		line := func(toks []string) {
			for i, t := range toks {
				if i > 0 {
					out.WriteString(m.Sep)
				}
				out.WriteString(t)
			}
			if m.Trailing {
				out.WriteString(" ")
			}
			out.WriteString(eol)
		}
		for i, row := range m.Verts {
			if m.VText != nil {
				line(m.VText[i]) // wide-row files: explicit (padded) number texts
				continue
			}
			toks := make([]string, len(row))
			for j, p := range m.VProps {
				toks[j] = m.text(p.Type, row[j])
			}
			line(toks)
		}
		for f, fc := range m.Faces {
			if m.FText != nil {
				line(m.FText[f])
				continue
			}
			var toks []string
			for _, l := range m.Lists {
				items := m.listItems(l, f, fc)
				toks = append(toks, strconv.Itoa(len(items)))
				for _, v := range items {
					toks = append(toks, m.text(l.ItemType, v))
				}
			}
			line(toks)
		}
		b := out.Bytes()
		if m.NoFinalN && len(m.Verts)+len(m.Faces) > 0 {
			b = b[:len(b)-len(eol)]
		}
		return b
	}

	var bo binary.ByteOrder = binary.LittleEndian
	if m.Format == "binary_big_endian" {
		bo = binary.BigEndian
	}
	for _, row := range m.Verts {
		for j, p := range m.VProps {
			putNum(out, bo, p.Type, row[j])
		}
	}
	for f, fc := range m.Faces {
		for _, l := range m.Lists {
			items := m.listItems(l, f, fc)
			putNum(out, bo, l.CountType, float64(len(items)))
			for _, v := range items {
				putNum(out, bo, l.ItemType, v)
			}
		}
	}
	return out.Bytes()
}

func (m *model) listItems(l faceList, f int, fc []int) []float64 {
	switch l.Kind {
	case "index":
		it := make([]float64, len(fc))
		for i, v := range fc {
			it[i] = float64(v)
		}
		return it
	case "texcoord":
		return m.FaceUV[f]
	}
	return m.FaceEx[f]
}

func putNum(out *bytes.Buffer, bo binary.ByteOrder, typ string, v float64) {
	var b [8]byte
	switch typ {
	case "uchar":
		out.WriteByte(uint8(v))
	case "int":
		bo.PutUint32(b[:4], uint32(int32(v)))
		out.Write(b[:4])
	case "uint":
		bo.PutUint32(b[:4], uint32(v))
		out.Write(b[:4])
	case "float":
		bo.PutUint32(b[:4], math.Float32bits(float32(v)))
		out.Write(b[:4])
	case "double":
		bo.PutUint64(b[:], math.Float64bits(v))
		out.Write(b[:])
	default:
		panic("harness: type " + typ)
	}
}

// text renders one number the way some tool would: integers as integers, reals
// in one of several decimal styles, each precise enough to denote the stored
// float32-representable value uniquely.
func (m *model) text(typ string, v float64) string {
	switch typ {
	case "uchar", "int", "uint":
		return strconv.FormatInt(int64(v), 10)
	}
	bits := 32
	if typ == "double" {
		bits = 64
	}
	switch m.FloatStyle {
	case "e":
		return strconv.FormatFloat(v, 'e', -1, bits)
	case "f":
		return strconv.FormatFloat(v, 'f', -1, bits)
	case "g9":
		return strconv.FormatFloat(v, 'g', 9, 64)
	case "g17":
		return strconv.FormatFloat(v, 'g', 17, 64)
	}
	return strconv.FormatFloat(v, 'g', -1, bits)
}
