package c08

import (
	"fmt"
	"math"
	"math/rand"
	"strings"
)

// ---------------------------------------------------------------------------
// abstract file model: what a third-party tool decided to store
// ---------------------------------------------------------------------------

type vprop struct {
	Name    string
	Type    string // canonical: uchar | int | float | double
	Spelled string // the alias written in the header
}

type faceList struct {
	Kind         string // index | texcoord | extra
	Name         string
	CountType    string // canonical: uchar | int | uint
	CountSpelled string
	ItemType     string // canonical: int | uint | float
	ItemSpelled  string
}

type headerExtra struct {
	After int // inserted after this many core header lines (0 = right after the format line)
	Text  string
}

type model struct {
	Format   string // ascii | binary_little_endian | binary_big_endian
	HeaderNL string // "\n" | "\r\n"
	BodyCRLF bool   // ascii body lines end in CRLF too
	NoFinalN bool   // ascii: last line not terminated
	VProps   []vprop
	Verts    [][]float64 // the stored numbers: uchar 0..255, int, float32-representable reals
	HasFace  bool
	Lists    []faceList
	Faces    [][]int
	FaceUV   [][]float64 // 2 numbers per listed vertex (when a texcoord list exists)
	FaceEx   [][]float64 // items of the unrelated list (when it exists)
	Extras   []headerExtra
	// ascii rendering
	FloatStyle string // g | e | f | g9 | g17
	Sep        string
	Trailing   bool // trailing blank before the line end (MeshLab does this)
	// header rendering: element/property lines with wider white space between the tokens
	HeaderWide bool
	// descriptors
	Order     string // canonical | groups-shuffled | fully-shuffled
	NAlias    int
	NExtra    int
	NPartial  int
	NQuad     int
	GroupTags []string
	Lone      []string // members of incomplete groups (each a scalar of its own name)
	// wide-row files: the exact token texts of the ascii rows (nil = rendered from the values)
	VText, FText [][]string
	PadForms     []string
	Wide         *wideSpec
	Directed     string // directed near-packed layout: which group, which pattern
}

func (m *model) hasList(kind string) int {
	for i, l := range m.Lists {
		if l.Kind == kind {
			return i
		}
	}
	return -1
}

var aliasOf = map[string][]string{
	"uchar": {"uchar", "uint8"}, "int": {"int", "int32"}, "uint": {"uint", "uint32"},
	"float": {"float", "float32"}, "double": {"double", "float64"},
}

func spell(r *rand.Rand, t string, nAlias *int) string {
	a := aliasOf[t]
	k := r.Intn(len(a))
	if k > 0 {
		*nAlias++
	}
	return a[k]
}

// property groups a reader of PLY meshes / splats recognises: the conventional
// names of the format's common usage plus the alternatives polyform documents
type group struct {
	tag   string
	names []string
	attr  string
	types []string // storage types a tool would use for it
	p     float64
}

var groupsCanonical = []group{
	{"xyz", []string{"x", "y", "z"}, "Position", []string{"float", "float", "float", "double", "int"}, 0.88},
	{"n", []string{"nx", "ny", "nz"}, "Normal", []string{"float", "float", "double", "int"}, 0.45},
	{"rgb", []string{"red", "green", "blue"}, "Color", []string{"uchar", "uchar", "uchar", "float", "double", "int"}, 0.5},
	{"st", []string{"s", "t"}, "TexCoord", []string{"float", "double"}, 0.15},
	{"fdc", []string{"f_dc_0", "f_dc_1", "f_dc_2"}, "FDC", []string{"float", "float", "double"}, 0.15},
	{"opacity", []string{"opacity"}, "Opacity", []string{"float", "float", "double", "uchar", "int"}, 0.15},
	{"scale", []string{"scale_0", "scale_1", "scale_2"}, "Scale", []string{"float", "double"}, 0.15},
	{"rot", []string{"rot_0", "rot_1", "rot_2", "rot_3"}, "Rotation", []string{"float", "double"}, 0.15},
}

// alternative spellings of a group that polyform's default reader documents
var groupAlternatives = map[string][][]string{
	"xyz": {{"px", "py", "pz"}, {"posx", "posy", "posz"}},
	"n":   {{"normalx", "normaly", "normalz"}},
	"rgb": {{"r", "g", "b"}, {"diffuse_red", "diffuse_green", "diffuse_blue"}},
}

var alphaOf = map[string]string{"red": "alpha", "r": "a", "diffuse_red": "diffuse_alpha"}

var extraNames = []string{"confidence", "intensity", "quality", "label", "scalar_Intensity", "material_index", "radius", "flags", "value",
	"f_rest_0", "f_rest_1", "f_rest_2", "class", "curvature", "time", "u", "v", "w", "id", "nxx", "alpha2"}

// incomplete groups: every member is just a scalar of its own name
var partials = [][]string{{"nx", "ny"}, {"red"}, {"alpha"}, {"green", "blue"}, {"s"}, {"t"}, {"rot_0", "rot_1", "rot_2"}, {"scale_0"}, {"f_dc_0", "f_dc_1"}, {"z"}, {"g"}, {"normalx"}}

type genOpts struct {
	MinV, MaxV int
	Large      bool
	// directed cases of the large phase
	ForceV      int
	ForceFormat string
	Wide        *wideSpec
}

func drawStored(r *rand.Rand, typ string) float64 {
	switch typ {
	case "uchar":
		switch r.Intn(8) {
		case 0:
			return 0
		case 1:
			return 255
		}
		return float64(r.Intn(256))
	case "int":
		switch r.Intn(12) {
		case 0:
			return float64(r.Intn(1<<25) - 1<<24) // exactly representable in float32
		case 1:
			return float64(int32(r.Uint32()) &^ 0xff) // large, multiple of 256: float32-representable
		case 2:
			return math.MinInt32
		case 3:
			return 0
		}
		return float64(r.Intn(2001) - 1000)
	}
	// float / double: float32-representable
	switch r.Intn(14) {
	case 12:
		return hugeWhole(r)
	case 0:
		return 0
	case 1:
		return float64(r.Intn(21) - 10)
	case 2:
		return float64(float32((r.Float64() - 0.5) * 2e5))
	case 3:
		return float64(float32((r.Float64() - 0.5) * 1e-3))
	case 4:
		v := float64(float32((1 + r.Float64()) * math.Pow(10, float64(r.Intn(41)-20))))
		if r.Intn(2) == 0 {
			v = -v
		}
		return v
	case 5:
		return float64(float32(r.Float64())) // [0,1): colours / opacities / texcoords
	}
	return float64(float32(r.Float64()*20 - 10))
}

func genModel(r *rand.Rand, o genOpts) *model {
	m := &model{}
	m.Format = []string{"ascii", "binary_little_endian", "binary_big_endian"}[r.Intn(3)]
	if o.ForceFormat != "" {
		m.Format = o.ForceFormat
	}
	m.HeaderNL = "\n"
	if r.Intn(3) == 0 {
		m.HeaderNL = "\r\n"
		m.BodyCRLF = m.Format == "ascii" && r.Intn(2) == 0
	}
	m.FloatStyle = []string{"g", "e", "f", "g9", "g17"}[r.Intn(5)]
	m.Sep = []string{" ", " ", " ", "  ", "\t"}[r.Intn(5)]
	m.Trailing = r.Intn(4) == 0
	m.NoFinalN = m.Format == "ascii" && r.Intn(10) == 0
	m.HeaderWide = r.Intn(10) == 0

	// --- vertex properties
	type chunk []vprop
	var chunks []chunk
	usedName := map[string]bool{}
	hasST := false
	for _, g := range groupsCanonical {
		if r.Float64() >= g.p {
			continue
		}
		names := g.names
		tag := g.tag
		if alts := groupAlternatives[g.tag]; alts != nil && r.Intn(8) == 0 {
			names = alts[r.Intn(len(alts))]
			tag += "(" + names[0] + "…)"
		}
		typ := g.types[r.Intn(len(g.types))]
		if g.tag == "rgb" && r.Intn(2) == 0 {
			names = append(append([]string{}, names...), alphaOf[names[0]])
			tag += "+alpha"
		}
		if g.tag == "st" {
			hasST = true
		}
		var c chunk
		for _, n := range names {
			c = append(c, vprop{Name: n, Type: typ})
			usedName[n] = true
		}
		chunks = append(chunks, c)
		m.GroupTags = append(m.GroupTags, tag+":"+typ)
	}
	ne := []int{0, 0, 1, 1, 2, 3}[r.Intn(6)]
	for e := 0; e < ne; e++ {
		n := extraNames[r.Intn(len(extraNames))]
		if usedName[n] {
			continue
		}
		usedName[n] = true
		typ := []string{"float", "double", "int", "uchar"}[r.Intn(4)]
		chunks = append(chunks, chunk{{Name: n, Type: typ}})
		m.NExtra++
	}
	if r.Intn(4) == 0 {
		if p := loneComponents(r, usedName); p != nil {
			typ := []string{"float", "double", "int", "uchar"}[r.Intn(4)]
			mixed := r.Intn(2) == 0
			for _, n := range p {
				if mixed {
					typ = []string{"float", "double", "int", "uchar"}[r.Intn(4)]
				}
				// separate chunks: the members of an incomplete group need not be neighbours
				chunks = append(chunks, chunk{{Name: n, Type: typ}})
				usedName[n] = true
				m.Lone = append(m.Lone, n)
			}
			m.NPartial++
		}
	}
	if len(chunks) == 0 {
		chunks = append(chunks, chunk{{Name: "x", Type: "float"}, {Name: "y", Type: "float"}, {Name: "z", Type: "float"}})
		m.GroupTags = append(m.GroupTags, "xyz:float")
	}
	switch r.Intn(10) {
	case 0, 1:
		m.Order = "canonical"
	case 2, 3, 4:
		m.Order = "groups-shuffled"
		r.Shuffle(len(chunks), func(i, j int) { chunks[i], chunks[j] = chunks[j], chunks[i] })
	default:
		m.Order = "fully-shuffled"
	}
	for _, c := range chunks {
		m.VProps = append(m.VProps, c...)
	}
	if m.Order == "fully-shuffled" {
		r.Shuffle(len(m.VProps), func(i, j int) { m.VProps[i], m.VProps[j] = m.VProps[j], m.VProps[i] })
	}
	if r.Intn(7) == 0 {
		directedNearPacked(r, m, chunks0(chunks), usedName)
	}
	for i := range m.VProps {
		m.VProps[i].Spelled = spell(r, m.VProps[i].Type, &m.NAlias)
	}

	// --- vertices
	maxV := o.MaxV
	if maxV == 0 {
		maxV = 24
	}
	nv := o.MinV + r.Intn(maxV-o.MinV+1)
	if !o.Large {
		switch r.Intn(12) {
		case 0:
			nv = 0
		case 1, 2, 3:
			nv = 1 + r.Intn(6)
		}
	}
	if o.ForceV > 0 {
		nv = o.ForceV
	}
	m.Verts = make([][]float64, nv)
	for i := range m.Verts {
		row := make([]float64, len(m.VProps))
		for j, p := range m.VProps {
			row[j] = drawStored(r, p.Type)
		}
		m.Verts[i] = row
	}
	if o.Wide != nil {
		m.Wide = o.Wide
		if r.Intn(6) != 0 {
			m.Format = "ascii" // the other encodings have no rows; kept now and then as a control
			m.BodyCRLF = m.HeaderNL == "\r\n" && r.Intn(2) == 0
		}
		if o.Wide.Kind == "vertex" {
			widenVertexRows(r, m, o.Wide)
			nv = len(m.Verts)
		} else if nv == 0 {
			nv = 3 + r.Intn(20)
			m.Verts = make([][]float64, nv)
			for i := range m.Verts {
				row := make([]float64, len(m.VProps))
				for j, p := range m.VProps {
					row[j] = drawStored(r, p.Type)
				}
				m.Verts[i] = row
			}
		}
	}

	// --- faces
	nf := 0
	if nv > 0 {
		nf = []int{0, 0, 1, 2, 3, 5, 9}[r.Intn(7)]
		if o.Large {
			nf = nv/2 + r.Intn(nv)
			if o.ForceV > 0 && r.Intn(3) == 0 {
				nf = 0 // a large cloud (with or without `element face 0`)
			}
		}
	}
	wideFaces := o.Wide != nil && o.Wide.Kind == "face"
	if wideFaces {
		nf = len(o.Wide.Widths)
	}
	m.HasFace = nf > 0 || r.Intn(2) == 0
	if m.HasFace {
		idx := faceList{Kind: "index", Name: []string{"vertex_indices", "vertex_index"}[r.Intn(2)]}
		idx.CountType = []string{"uchar", "uchar", "int", "uint"}[r.Intn(4)]
		idx.ItemType = []string{"int", "int", "uint"}[r.Intn(3)]
		idx.CountSpelled, idx.ItemSpelled = spell(r, idx.CountType, &m.NAlias), spell(r, idx.ItemType, &m.NAlias)
		m.Lists = []faceList{idx}
		if !hasST && r.Intn(4) == 0 {
			t := faceList{Kind: "texcoord", Name: "texcoord", ItemType: "float"}
			t.CountType = []string{"uchar", "uchar", "int", "uint"}[r.Intn(4)]
			t.CountSpelled, t.ItemSpelled = spell(r, t.CountType, &m.NAlias), spell(r, "float", &m.NAlias)
			m.Lists = append(m.Lists, t)
		}
		if r.Intn(10) == 0 || wideFaces {
			e := faceList{Kind: "extra", Name: []string{"flags_list", "neighbours", "weights"}[r.Intn(3)]}
			e.CountType = []string{"uchar", "int", "uint"}[r.Intn(3)]
			if wideFaces {
				e.CountType = []string{"int", "uint"}[r.Intn(2)] // thousands of entries
			}
			e.ItemType = []string{"int", "uint", "float"}[r.Intn(3)]
			e.CountSpelled, e.ItemSpelled = spell(r, e.CountType, &m.NAlias), spell(r, e.ItemType, &m.NAlias)
			m.Lists = append(m.Lists, e)
		}
		r.Shuffle(len(m.Lists), func(i, j int) { m.Lists[i], m.Lists[j] = m.Lists[j], m.Lists[i] })
		quadP := []int{0, 0, 3, 10}[r.Intn(4)] // of 10
		for f := 0; f < nf; f++ {
			k := 3
			if r.Intn(10) < quadP {
				k = 4
				m.NQuad++
			}
			fc := make([]int, k)
			for i := range fc {
				fc[i] = r.Intn(nv)
			}
			m.Faces = append(m.Faces, fc)
			if m.hasList("texcoord") >= 0 {
				uv := make([]float64, 2*k)
				for i := range uv {
					uv[i] = drawStored(r, "float")
				}
				m.FaceUV = append(m.FaceUV, uv)
			}
			if ei := m.hasList("extra"); ei >= 0 {
				ex := make([]float64, r.Intn(6))
				for i := range ex {
					switch m.Lists[ei].ItemType {
					case "int":
						ex[i] = float64(r.Intn(2001) - 1000)
					case "uint":
						ex[i] = float64(r.Intn(100000))
					default:
						ex[i] = drawStored(r, "float")
					}
				}
				m.FaceEx = append(m.FaceEx, ex)
			}
		}
	}

	if wideFaces {
		widenFaceRows(r, m, o.Wide)
	}

	// --- comment / obj_info lines anywhere after the format line
	core := 1 + len(m.VProps)
	if m.HasFace {
		core += 1 + len(m.Lists)
	}
	texts := []string{"comment made by someone else", "comment VCGLIB generated", "obj_info something 1 2 3", "comment TextureFile texture_0.png",
		"comment element vertex 99", "comment property float x", "comment end_header", "obj_info is_mesh 0", "comment", "comment   padded   text  ",
		"obj_info element face 7", "comment format ascii 1.0"}
	for k := []int{0, 0, 1, 1, 2, 4}[r.Intn(6)]; k > 0; k-- {
		m.Extras = append(m.Extras, headerExtra{After: r.Intn(core + 1), Text: texts[r.Intn(len(texts))]})
	}
	return m
}

func completesAGroup(used map[string]bool, add []string) bool {
	has := func(n string) bool {
		if used[n] {
			return true
		}
		for _, a := range add {
			if a == n {
				return true
			}
		}
		return false
	}
	all := [][]string{}
	for _, g := range groupsCanonical {
		all = append(all, g.names)
		for _, alt := range groupAlternatives[g.tag] {
			all = append(all, alt)
		}
	}
	// colour groups with their fourth member
	all = append(all, []string{"red", "green", "blue", "alpha"}, []string{"r", "g", "b", "a"},
		[]string{"diffuse_red", "diffuse_green", "diffuse_blue", "diffuse_alpha"})
	for _, names := range all {
		touches := false
		for _, n := range names {
			for _, a := range add {
				if a == n {
					touches = true
				}
			}
		}
		if !touches {
			continue
		}
		complete := true
		for _, n := range names {
			if !has(n) {
				complete = false
			}
		}
		if complete {
			return true
		}
	}
	return false
}

func (m *model) sig() string {
	var ps []string
	for _, p := range m.VProps {
		ps = append(ps, p.Spelled+" "+p.Name)
	}
	var ls []string
	for _, l := range m.Lists {
		ls = append(ls, l.CountSpelled+"/"+l.ItemSpelled+" "+l.Name)
	}
	nl := "lf"
	if m.HeaderNL == "\r\n" {
		nl = "crlf"
		if m.BodyCRLF {
			nl = "crlf+body"
		}
	}
	return fmt.Sprintf("%s/%s/[%s]/face=%v[%s]/v%d/f%d/q%d/x%d/%s%q%v%v", m.Format, nl, strings.Join(ps, ","), m.HasFace, strings.Join(ls, ","),
		bucket(len(m.Verts)), bucket(len(m.Faces)), bucket(m.NQuad), len(m.Extras), m.FloatStyle, m.Sep, m.Trailing, m.HeaderWide)
}

func bucket(n int) int {
	switch {
	case n <= 2:
		return n
	case n <= 4:
		return 4
	case n <= 8:
		return 8
	case n <= 32:
		return 32
	}
	return 1 << uint(math.Ceil(math.Log2(float64(n))))
}

// hugeWhole: a whole number of magnitude in [2^53, 3e38], exactly representable
// in float32, both signs; the int64 boundary is drawn on purpose.
func hugeWhole(r *rand.Rand) float64 {
	var v float64
	switch r.Intn(8) {
	case 0:
		v = math.Ldexp(1, 63)
	case 1:
		v = math.Ldexp(1, 64)
	case 2:
		v = math.Ldexp(1, 53+r.Intn(10))
	case 3:
		v = float64(float32(3e38 * (0.5 + r.Float64()/2)))
	default:
		v = float64(float32(math.Ldexp(1+r.Float64(), 53+r.Intn(75))))
	}
	if v > 3e38 {
		v = float64(float32(3e38))
	}
	if r.Intn(2) == 0 {
		v = -v
	}
	return v
}

// every spelling of every group polyform's default reader recognises
var allSpellings = [][]string{
	{"x", "y", "z"}, {"px", "py", "pz"}, {"posx", "posy", "posz"},
	{"nx", "ny", "nz"}, {"normalx", "normaly", "normalz"},
	{"red", "green", "blue", "alpha"}, {"r", "g", "b", "a"}, {"diffuse_red", "diffuse_green", "diffuse_blue", "diffuse_alpha"},
	{"s", "t"}, {"f_dc_0", "f_dc_1", "f_dc_2"}, {"scale_0", "scale_1", "scale_2"}, {"rot_0", "rot_1", "rot_2", "rot_3"},
}

// loneComponents draws a proper, non-empty subset of one spelling such that, with
// the names already used, no recognised group becomes complete: every member is
// then just a scalar of its own name.
func loneComponents(r *rand.Rand, used map[string]bool) []string {
	for try := 0; try < 6; try++ {
		sp := allSpellings[r.Intn(len(allSpellings))]
		if try == 0 && !used["x"] && r.Intn(2) == 0 {
			sp = allSpellings[0] // files without x y z are rare: use them
		}
		var free []string
		for _, n := range sp {
			if !used[n] {
				free = append(free, n)
			}
		}
		if len(free) == 0 {
			continue
		}
		k := 1
		if r.Intn(10) >= 6 && len(sp) > 2 {
			k = 1 + r.Intn(len(sp)-1)
		}
		r.Shuffle(len(free), func(i, j int) { free[i], free[j] = free[j], free[i] })
		if k > len(free) {
			k = len(free)
		}
		pick := free[:k]
		if len(pick) == len(sp) || completesAGroup(used, pick) {
			continue
		}
		return pick
	}
	return nil
}

func chunks0[T ~[]vprop](cs []T) [][]vprop {
	out := make([][]vprop, len(cs))
	for i, c := range cs {
		out[i] = c
	}
	return out
}

func sizeOf(t string) int {
	switch t {
	case "uchar":
		return 1
	case "double":
		return 8
	}
	return 4
}

// directedNearPacked rearranges the property list so that two members of one
// vector group sit exactly two slots apart with a foreign property of the same
// byte size between them, the member that belongs between them being elsewhere
// (`x intensity z y`, `y x nx z`, `nx x nz ny`, `rot_0 q rot_2 rot_1 rot_3`,
// `rot_0 rot_1 q rot_3 rot_2`, `t q s`, …) — layouts on which a reader that
// decodes a group from one window of the record takes the wrong property.
func directedNearPacked(r *rand.Rand, m *model, chunks [][]vprop, used map[string]bool) {
	var groups [][]vprop
	for _, c := range chunks {
		if len(c) >= 2 {
			groups = append(groups, c)
		}
	}
	if len(groups) == 0 {
		return
	}
	g := groups[r.Intn(len(groups))]
	member := map[string]int{}
	for i, p := range g {
		member[p.Name] = i
	}
	// the foreign property: same byte size, from another group / an extra, else a new extra
	var rest []vprop
	foreign := -1
	var cands []int
	for _, p := range m.VProps {
		if _, ok := member[p.Name]; !ok {
			rest = append(rest, p)
			if sizeOf(p.Type) == sizeOf(g[0].Type) {
				cands = append(cands, len(rest)-1)
			}
		}
	}
	var F vprop
	if len(cands) > 0 && r.Intn(4) != 0 {
		foreign = cands[r.Intn(len(cands))]
		F = rest[foreign]
		rest = append(rest[:foreign:foreign], rest[foreign+1:]...)
	} else {
		name := ""
		for _, n := range []string{"pad", "intensity", "quality", "weight", "pad2"} {
			if !used[n] {
				name = n
				break
			}
		}
		if name == "" {
			return
		}
		used[name] = true
		t := g[0].Type
		if t != "uchar" && r.Intn(2) == 0 {
			t = map[string]string{"float": "int", "int": "float", "double": "double"}[t] // other type, same size
		}
		F = vprop{Name: name, Type: t}
		m.NExtra++
	}
	// the window a F c
	i := 0
	pat := "a?c"
	switch {
	case len(g) == 2:
		i = -1
	case len(g) == 4 && r.Intn(2) == 0:
		i = 1
		pat = "b?d"
	}
	var window, others []vprop
	if i < 0 {
		// two-component groups: the pair split by the foreign property, or reversed
		switch r.Intn(3) {
		case 0:
			window, pat = []vprop{g[0], F, g[1]}, "a?b"
		case 1:
			window, pat = []vprop{g[1], F, g[0]}, "b?a"
		default:
			window, pat = []vprop{g[1], g[0], F}, "ba"
		}
	} else {
		window = []vprop{g[i], F, g[i+2]}
		if r.Intn(5) == 0 {
			window = []vprop{g[i+2], F, g[i]}
			pat += "(reversed)"
		}
		for k, p := range g {
			if k != i && k != i+2 {
				others = append(others, p)
			}
		}
	}
	// the other members: right after the window, right before it, or anywhere else
	var before, after []vprop
	var far []vprop
	for _, p := range others {
		switch r.Intn(3) {
		case 0:
			after = append(after, p)
		case 1:
			before = append(before, p)
		default:
			far = append(far, p)
		}
	}
	block := append(append(append([]vprop{}, before...), window...), after...)
	at := r.Intn(len(rest) + 1)
	out := append(append(append([]vprop{}, rest[:at]...), block...), rest[at:]...)
	for _, p := range far {
		// not inside the window
		var slots []int
		for k := 0; k <= len(out); k++ {
			inside := false
			if k > 0 && k < len(out) {
				// k splits out[k-1] | out[k]: forbidden when both belong to the window
				a, b := out[k-1].Name, out[k].Name
				inW := func(n string) bool {
					for _, q := range window {
						if q.Name == n {
							return true
						}
					}
					return false
				}
				inside = inW(a) && inW(b)
			}
			if !inside {
				slots = append(slots, k)
			}
		}
		k := slots[r.Intn(len(slots))]
		out = append(out[:k:k], append([]vprop{p}, out[k:]...)...)
	}
	m.VProps = out
	m.Order = "directed-near-packed"
	m.Directed = g[0].Name + ":" + pat
}
