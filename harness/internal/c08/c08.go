// Package c08 monitors property C08: PLY files written by other tools load to
// what the specification says.
//
// Per case an abstract file model (ordered, typed, aliased vertex properties;
// per-vertex numbers; optional face element with index / texcoord / unrelated
// lists; comments; line endings) is rendered by an independent reference encoder
// and loaded with ply.ReadMesh. The expected mesh is computed from the model,
// never from the bytes.
package c08

import (
	"bytes"
	"encoding/base64"
	"fmt"
	"io"
	"math"
	"os"
	"sort"
	"strings"

	"github.com/EliCDavis/polyform/formats/ply"
	"github.com/EliCDavis/polyform/modeling"
	"polyverif/internal/c04/plyfile"
	"polyverif/internal/ref"
	"polyverif/internal/run"
)

func Spec() *run.Spec {
	return &run.Spec{
		ID: "C08", Level: "exploration",
		Rule: "case = one abstract PLY file rendered by the reference encoder: format ascii/LE/BE; vertex properties = any subset of the recognised groups " +
			"(x y z | nx ny nz | red green blue [alpha] | s t | f_dc_* | opacity | scale_* | rot_*; now and then the alternative spellings polyform documents: px.., posx.., normalx.., r g b [a], diffuse_*), " +
			"one storage type per group (uchar/int/float/double as a tool would use them), 0-3 unrecognised scalars and now and then an incomplete group, in canonical, group-shuffled or fully shuffled order, each type spelled by either alias; " +
			"0..24 vertices ('large' phase: directed sizes 65 535/65 536/65 537/70 001/131 073 (thorough also 200 003/262 145/300 007) in each encoding, then random 2 000..30 000, thorough ..80 000); no face element, `element face 0`, or 1..9 faces (triangles/quads mixed) with count type uchar/int/uint and index type int/uint, property vertex_indices or vertex_index, " +
			"optionally a per-corner texcoord float list and an unrelated list, in any order; 0-4 comment/obj_info lines anywhere after the format line (some looking like keywords); LF or CRLF header (ascii: CRLF body too), one file in ten with wider white space between header tokens, " +
			"ascii numbers in five decimal styles, separators blank/double blank/tab, optional trailing blank, optional missing final newline. " +
			"fault-sequences: one case = a history of 3–8 operations in one goroutine mixing complete ordinary cases (up to 3 000 vertices) with ply.ReadMesh from a source that fails after k bytes (header, first record, mid-records, around 32 KiB, face records, last needed byte; four error values, with or without data on the failing call); non-trivial there: a good operation follows a failed read. " +
			"Non-trivial: property order differs from the order polyform's own writer emits, or ≥1 alias / unrecognised scalar / quad. Distinct = distinct header layouts (format, line ending, spelled property list, face lists, size buckets, ascii style).",
		Assumptions: []string{
			"all stored reals are float32-representable and all ints are exactly representable in float32, so the reader's 32-bit text parse is not at issue; ascii values are compared after rounding the loaded value to float32, binary values exactly",
			"one storage type per recognised group (mixed-type groups are outside the statement, DESIGN C08); never two spellings of the same attribute, never s/t together with a texcoord list",
			"for unrecognised (scalar-path) uchar properties both conventions are accepted, consistently per column: raw 0..255 or ÷255 (DESIGN C08; the disagreement is C04's known finding)",
			"with a per-corner texcoord list the comparison is per corner, otherwise per vertex (vertex i == record i, attribute arrays of exactly `vertex count` entries) and per face through the indices",
			"every file reaches ply.ReadMesh (and, a second time, ply.ReadHeader) through a reader kind drawn per case (bytes.Reader, bytes.Buffer, bufio.Reader, plain io.Reader wrapper, iotest One-byte/Half/DataErr readers, io.LimitReader, *os.File, io.Pipe): third-party files arrive as files, pipes and streams; ReadHeader must leave exactly the body unread (its doc comment)",
			"the model → bytes → independent decoder (plyfile) loop is checked on every case; a disagreement there makes the case inconclusive (harness fault), not a violation",
		},
		MinNontrivial: map[string]int{"quick": 1000, "thorough": 20000},
		MinObserved: map[string]int64{
			"formats": 3, "files_loaded": 2000, "vertex_values_compared": 20000, "face_element_with_0_faces": 30, "no_face_element": 30,
			"quad_faces": 100, "files_with_texcoord_list": 30, "type_spellings": 8, "crlf_headers": 100,
			"source_kinds": 10, "readheader_source_kinds": 10, "source_kind_x_format": 30,
			"ascii_files_over_65536_vertices_loaded": 3, "binary_files_over_65536_vertices_loaded": 6,
			"lone_component_names": 36, "directed_near_packed_layouts": 500, "near_packed_groups": 15,
			"near_packed_vector_groups_binary": 400, "near_packed_vector_groups_ascii": 200,
			"huge_whole_values_float_ascii": 1000, "huge_whole_values_double_ascii": 1000, "huge_whole_values_float_binary": 1000, "huge_whole_values_double_binary": 1000,
			"ascii_vertex_row_widths": 36, "ascii_face_row_widths": 30, "wide_row_populations": 25, "padded_number_forms": 4,
			"ascii_files_loaded_with_a_vertex_row_over_4096_bytes": 30, "ascii_files_loaded_with_a_vertex_row_over_8192_bytes": 20,
			"ascii_files_loaded_with_a_vertex_row_over_16384_bytes": 10, "ascii_files_loaded_with_a_vertex_row_over_60000_bytes": 5,
			"ascii_files_loaded_with_a_face_row_over_4096_bytes": 15, "ascii_files_loaded_with_a_face_row_over_8192_bytes": 10,
			"ascii_files_loaded_with_a_face_row_over_16384_bytes": 5, "ascii_files_loaded_with_a_face_row_over_60000_bytes": 2,
			"fault_histories": 300, "failed_reads_reported": 300, "good_ops_after_a_failed_read": 300, "read_fault_positions": 5,
		},
		Phases: []run.Phase{
			{Name: "foreign", Cases: func(t string) int {
				if t == "thorough" {
					return 250000
				}
				return 8000
			}, Run: func(c *run.Ctx) run.Result {
				o := genOpts{}
				if c.Case%50 == 23 { // one file in fifty has wide ascii rows
					o.Wide = wideTarget(c.Rng, c.Tier, c.Case/50)
				}
				return runCase(c, o)
			}, Batch: 250, CPUBudgetS: 20},
			{Name: "fault-sequences", Cases: func(t string) int {
				if t == "thorough" {
					return 20000
				}
				return 500
			}, Run: faultSequences, Batch: 50, CPUBudgetS: 60},
			{Name: "large", Cases: func(t string) int {
				if t == "thorough" {
					return 120
				}
				return 23
			}, Run: func(c *run.Ctx) run.Result {
				o := genOpts{Large: true, MinV: 2000, MaxV: 30000}
				// directed: sizes around 2^16 and 2^17 (allocation / growth boundaries of readers) in every encoding
				sizes := []int{65535, 65536, 65537, 70001, 131073}
				if c.Tier == "thorough" {
					o.MaxV = 80000
					sizes = append(sizes, 200003, 262145, 300007)
				}
				formats := []string{"ascii", "binary_little_endian", "binary_big_endian"}
				directed := len(sizes) * len(formats)
				if c.Tier == "thorough" {
					directed *= 2
				}
				if c.Case < directed {
					o.ForceV = sizes[c.Case%len(sizes)]
					o.ForceFormat = formats[(c.Case/len(sizes))%len(formats)]
				}
				return runCase(c, o)
			}, Batch: 1, CPUBudgetS: 300},
		},
	}
}

// ---------------------------------------------------------------------------
// what the file describes
// ---------------------------------------------------------------------------

type expAttr struct {
	Key   string // "arity:Name"
	Cols  []int  // indices into model.VProps
	UChar bool   // stored as uchar
}

type rgroup struct {
	names      []string
	attr       string
	ignorableW bool
}

var readerGroups = []rgroup{
	{[]string{"x", "y", "z"}, "Position", false},
	{[]string{"px", "py", "pz"}, "Position", false},
	{[]string{"posx", "posy", "posz"}, "Position", false},
	{[]string{"nx", "ny", "nz"}, "Normal", false},
	{[]string{"normalx", "normaly", "normalz"}, "Normal", false},
	{[]string{"red", "green", "blue", "alpha"}, "Color", true},
	{[]string{"r", "g", "b", "a"}, "Color", true},
	{[]string{"diffuse_red", "diffuse_green", "diffuse_blue", "diffuse_alpha"}, "Color", true},
	{[]string{"s", "t"}, "TexCoord", false},
	{[]string{"f_dc_0", "f_dc_1", "f_dc_2"}, "FDC", false},
	{[]string{"opacity"}, "Opacity", false},
	{[]string{"scale_0", "scale_1", "scale_2"}, "Scale", false},
	{[]string{"rot_0", "rot_1", "rot_2", "rot_3"}, "Rotation", false},
}

func expected(m *model) []expAttr {
	by := map[string]int{}
	for i, p := range m.VProps {
		by[p.Name] = i
	}
	used := map[int]bool{}
	var out []expAttr
	for _, g := range readerGroups {
		take := func(names []string) bool {
			var cs []int
			for _, n := range names {
				i, ok := by[n]
				if !ok || (len(cs) > 0 && m.VProps[cs[0]].Type != m.VProps[i].Type) {
					return false
				}
				cs = append(cs, i)
			}
			for _, i := range cs {
				used[i] = true
			}
			out = append(out, expAttr{Key: fmt.Sprintf("%d:%s", len(names), g.attr), Cols: cs, UChar: m.VProps[cs[0]].Type == "uchar"})
			return true
		}
		if !take(g.names) && g.ignorableW {
			take(g.names[:3])
		}
	}
	for i, p := range m.VProps {
		if !used[i] {
			out = append(out, expAttr{Key: "1:" + p.Name, Cols: []int{i}, UChar: p.Type == "uchar"})
		}
	}
	return out
}

// fan triangulation of the faces: (0,1,2) and for a quad also (0,2,3); returns
// per output corner the vertex id and the position inside its face
func fan(m *model) (idx []int, faceOf []int, posIn []int) {
	for f, fc := range m.Faces {
		tris := [][3]int{{0, 1, 2}}
		if len(fc) == 4 {
			tris = append(tris, [3]int{0, 2, 3})
		}
		for _, t := range tris {
			for _, k := range t {
				idx = append(idx, fc[k])
				faceOf = append(faceOf, f)
				posIn = append(posIn, k)
			}
		}
	}
	return
}

// ---------------------------------------------------------------------------

func fileWitness(data []byte, m *model) any {
	if len(data) <= 2000 {
		if m.Format == "ascii" {
			return string(data)
		}
		return map[string]any{"base64": base64.StdEncoding.EncodeToString(data)}
	}
	k := bytes.Index(data, []byte("end_header"))
	if k < 0 || k > 2000 {
		k = 200
	}
	return map[string]any{"header": string(data[:k+10]), "bytes": len(data)}
}

func runCase(c *run.Ctx, o genOpts) run.Result {
	var res run.Result
	m := genModel(c.Rng, o)
	data := encode(m)
	exp := expected(m)
	nv := len(m.Verts)

	// --- descriptors / evidence
	res.Sig = fmt.Sprintf("%s/%s/p%d/face=%v/v%d/f%d/q%d/%016x", m.Format, m.Order, len(m.VProps), m.HasFace, bucket(len(m.Verts)), bucket(len(m.Faces)), bucket(m.NQuad), run.HashStr(m.sig()))
	res.Nontrivial = !canonicalOrder(m) || m.NAlias > 0 || m.NExtra > 0 || m.NQuad > 0
	var hdr string
	if k := bytes.Index(data, []byte("end_header")); k > 0 {
		hdr = string(data[:k+10])
	}
	if c.Case%97 == 0 || c.Replay {
		res.Sample = map[string]any{"header": hdr, "vertices": nv, "faces": len(m.Faces), "quads": m.NQuad}
	}
	res.SetAdd("formats", m.Format)
	res.SetAdd("property_orders", m.Order)
	for _, p := range m.VProps {
		res.SetAdd("type_spellings", p.Spelled)
	}
	for _, l := range m.Lists {
		res.SetAdd("list_types", l.Kind+":"+l.CountSpelled+"/"+l.ItemSpelled)
		res.SetAdd("index_property_names", l.Name)
	}
	for _, g := range m.GroupTags {
		res.SetAdd("groups", g)
	}
	for _, e := range exp {
		res.SetAdd("attributes_expected", e.Key[:2]+attrClass(e.Key[2:]))
	}
	if m.HeaderNL == "\r\n" {
		res.Count("crlf_headers", 1)
	}
	if m.HeaderWide {
		res.Count("headers_with_wide_white_space", 1)
	}
	if len(m.Extras) > 0 {
		res.Count("files_with_comment_or_obj_info_lines", 1)
	}
	if m.NPartial > 0 {
		res.Count("files_with_incomplete_group", 1)
	}
	for _, n := range m.Lone {
		res.SetAdd("lone_component_names", n)
	}
	maxVRow, maxFRow := 0, 0
	if m.Format == "ascii" {
		if ph, err := plyfile.ParseHeader(data); err == nil {
			pos := ph.BodyOffset
			for i := 0; i < nv+len(m.Faces) && pos < len(data); i++ {
				k := bytes.IndexByte(data[pos:], '\n')
				if k < 0 {
					k = len(data) - pos
				}
				if i < nv {
					if k > maxVRow {
						maxVRow = k
					}
					if k >= 4000 {
						res.SetAdd("ascii_vertex_row_widths", rowWidthLabel(k))
					}
				} else {
					if k > maxFRow {
						maxFRow = k
					}
					if k >= 4000 {
						res.SetAdd("ascii_face_row_widths", rowWidthLabel(k))
					}
				}
				pos += k + 1
			}
		}
	}
	if m.Wide != nil {
		res.SetAdd("wide_row_populations", m.Wide.Kind+"/"+m.Wide.Label+"/"+m.Wide.Mode+"/"+map[bool]string{true: "ascii", false: "binary"}[m.Format == "ascii"])
		for _, f := range m.PadForms {
			res.SetAdd("padded_number_forms", f)
		}
	}
	if m.Directed != "" {
		res.Count("directed_near_packed_layouts", 1)
		res.SetAdd("directed_near_packed_patterns", m.Directed)
	}
	// detector, independent of how the layout came about: a recognised vector group two of
	// whose members are exactly two slots apart with a foreign property of the same byte
	// size between them (or a two-component group that is split or reversed)
	for _, e := range exp {
		if np := nearPacked(m, e); np != "" {
			res.SetAdd("near_packed_groups", e.Key[2:]+"("+m.VProps[e.Cols[0]].Name+"…) "+np)
			res.Count("near_packed_vector_groups_"+map[bool]string{true: "ascii", false: "binary"}[m.Format == "ascii"], 1)
		}
	}
	for j, p := range m.VProps {
		if p.Type != "float" && p.Type != "double" {
			continue
		}
		for i := range m.Verts {
			if math.Abs(m.Verts[i][j]) >= 1<<53 {
				res.Count("huge_whole_values_"+p.Type+"_"+map[bool]string{true: "ascii", false: "binary"}[m.Format == "ascii"], 1)
			}
		}
	}
	switch {
	case !m.HasFace:
		res.Count("no_face_element", 1)
	case len(m.Faces) == 0:
		res.Count("face_element_with_0_faces", 1)
	}
	res.Count("quad_faces", int64(m.NQuad))
	res.Count("triangle_faces", int64(len(m.Faces)-m.NQuad))
	ti := m.hasList("texcoord")
	if ti >= 0 {
		res.Count("files_with_texcoord_list", 1)
	}
	if m.hasList("extra") >= 0 {
		res.Count("files_with_unrelated_face_list", 1)
	}
	input := fmt.Sprintf("%s order=%s face=%v", m.Format, m.Order, m.HasFace)
	wit := func() map[string]any {
		return map[string]any{"file": fileWitness(data, m), "vertex_properties": propList(m), "faces": headInts(m.Faces, 12)}
	}

	// --- harness self-check: the independent decoder must read the model back from the bytes
	if msg := selfCheck(m, data); msg != "" {
		res.Inconclusive = "harness: reference encoder and independent decoder disagree: " + msg
		return res
	}

	// --- load, through a reader kind drawn per case
	srcRng := c.SubRng(0x50c)
	kind, hkind := plyfile.PickSource(srcRng), plyfile.PickSource(srcRng)
	dir := c.ScratchDir()
	if c.Replay {
		defer os.RemoveAll(dir)
	}
	input += " src=" + kind
	c.SaveInput(data)
	c.Note("ReadMesh " + m.Format + " from " + kind)
	var mesh *modeling.Mesh
	var err error
	src, done, serr := plyfile.Source(kind, data, dir, fmt.Sprintf("%s-%d-m", c.Phase, c.Case))
	if serr != nil {
		res.Inconclusive = "harness: cannot open source " + kind + ": " + serr.Error()
		return res
	}
	p := run.Try(func() { mesh, err = ply.ReadMesh(src) })
	done()
	res.SetAdd("source_kinds", kind)
	res.SetAdd("source_kind_x_format", kind+"/"+m.Format)
	site := "ply.ReadMesh " + m.Format
	if p != nil || err != nil {
		site += " (" + readerClass(kind) + ")"
	}
	{
		w0 := wit
		wit = func() map[string]any { w := w0(); w["source"] = kind; return w }
	}
	// ply.ReadHeader on its own: the caller's reader must be left at the first body byte
	if hs, hdone, herr := plyfile.Source(hkind, data, dir, fmt.Sprintf("%s-%d-h", c.Phase, c.Case)); herr == nil {
		var rest []byte
		var e1, e2 error
		hp := run.Try(func() {
			if _, e1 = ply.ReadHeader(hs); e1 == nil {
				rest, e2 = io.ReadAll(hs)
			}
		})
		hdone()
		res.SetAdd("readheader_source_kinds", hkind)
		if ph, perr := plyfile.ParseHeader(data); perr == nil && hp == nil && e1 == nil {
			body := data[ph.BodyOffset:]
			if e2 != nil || !bytes.Equal(rest, body) {
				res.Violate("header-overread", "ply.ReadHeader on "+readerClass(hkind), input+" hsrc="+hkind,
					fmt.Sprintf("after ReadHeader the caller's %s holds %d bytes (err %v), the body after end_header has %d: ReadHeader consumed bytes past end_header", hkind, len(rest), e2, len(body)), wit())
			} else {
				res.Count("readheader_left_exactly_the_body", 1)
			}
		}
		// a ReadHeader failure / panic shows up in ReadMesh below as well
	}
	if p != nil {
		class := "read-panic"
		if p.Runtime {
			class = "runtime-panic"
		}
		res.Violate(class, site+" ("+p.Site+")", input, "a specification-conforming file makes the reader panic: "+p.Value+"\n"+p.Stack, wit())
		return res
	}
	if err != nil {
		if m.Format == "ascii" && (maxVRow >= scannerLimit-1 || maxFRow >= scannerLimit-1) && strings.Contains(err.Error(), "token too long") {
			// only reachable with includeRowsOver64KiB
			res.Violate("ascii-row-over-64KiB", "ply ascii reader (bufio.Scanner token limit)", input,
				fmt.Sprintf("the file has a row of %d bytes; ply.ReadMesh: %v", max(maxVRow, maxFRow), err), wit())
			return res
		}
		res.Violate("read-error", site, input, "a specification-conforming file is rejected: "+err.Error(), wit())
		return res
	}
	if mesh == nil {
		res.Violate("read-error", site, input, "ReadMesh returned nil, nil", wit())
		return res
	}
	res.Count("files_loaded", 1)
	for _, b := range []int{4096, 8192, 16384, 60000} {
		if maxVRow > b {
			res.Count(fmt.Sprintf("ascii_files_loaded_with_a_vertex_row_over_%d_bytes", b), 1)
		}
		if maxFRow > b {
			res.Count(fmt.Sprintf("ascii_files_loaded_with_a_face_row_over_%d_bytes", b), 1)
		}
	}
	if nv > 65536 {
		if m.Format == "ascii" {
			res.Count("ascii_files_over_65536_vertices_loaded", 1)
		} else {
			res.Count("binary_files_over_65536_vertices_loaded", 1)
		}
	}
	if e := ref.WF(*mesh); e != nil {
		res.Violate("mesh-mismatch", site, input, "the loaded mesh is not well-formed: "+e.Error(), wit())
		return res
	}
	snap := ref.Snap(*mesh)
	ascii := m.Format == "ascii"

	// --- topology and indices
	wantTopo := modeling.PointTopology
	var wantIdx, faceOf, posIn []int
	if m.HasFace {
		wantTopo = modeling.TriangleTopology
		wantIdx, faceOf, posIn = fan(m)
	} else {
		wantIdx = make([]int, nv)
		for i := range wantIdx {
			wantIdx[i] = i
		}
	}
	if snap.Topology != wantTopo {
		res.Violate("mesh-mismatch", site, input, fmt.Sprintf("topology %v, the file describes %v", snap.Topology, wantTopo), wit())
		return res
	}
	if len(snap.Indices) != len(wantIdx) {
		res.Violate("mesh-mismatch", site, input, fmt.Sprintf("%d indices loaded, the file describes %d (%d faces of which %d quads; %d vertices)", len(snap.Indices), len(wantIdx), len(m.Faces), m.NQuad, nv), wit())
		return res
	}
	perCorner := ti >= 0 && len(m.Faces) > 0

	// --- attribute set
	wantKeys := map[string]bool{}
	for _, e := range exp {
		wantKeys[e.Key] = true
	}
	if perCorner {
		wantKeys["2:TexCoord"] = true
	}
	if nv == 0 {
		// a file without vertices carries no attribute values; polyform meshes cannot hold empty arrays
		wantKeys = map[string]bool{}
	}
	var problems []string
	for _, n := range snap.Names {
		if !wantKeys[n] {
			problems = append(problems, "unexpected "+n)
		}
	}
	for k := range wantKeys {
		if _, ok := snap.Data[k]; !ok {
			problems = append(problems, "missing "+k)
		}
	}
	if len(problems) > 0 {
		sort.Strings(problems)
		res.Violate("mesh-mismatch", site, input, "attributes of the loaded mesh: "+strings.Join(problems, ", ")+"; the file declares "+propList(m), wit())
		return res
	}

	// value comparison for one stored number
	eq := func(stored, got float64, typ string) bool {
		switch typ {
		case "uchar":
			return math.Abs(got-stored/255) <= 1e-12
		case "int":
			return got == stored
		}
		if ascii {
			return sameBits(float64(float32(got)), stored)
		}
		return sameBits(got, stored)
	}
	// pairs: (record of the file, vertex of the loaded mesh)
	var pairs [][2]int
	if perCorner {
		for j, v := range wantIdx {
			pairs = append(pairs, [2]int{v, snap.Indices[j]})
		}
	} else {
		for j := range wantIdx {
			if snap.Indices[j] != wantIdx[j] {
				what := "identity index list of a cloud"
				if m.HasFace {
					what = fmt.Sprintf("face %d (%v), fan corner %d", faceOf[j], m.Faces[faceOf[j]], posIn[j])
				}
				res.Violate("mesh-mismatch", site, input, fmt.Sprintf("index %d is %d, the file describes %d (%s)", j, snap.Indices[j], wantIdx[j], what), wit())
				return res
			}
		}
		for i := 0; i < nv; i++ {
			pairs = append(pairs, [2]int{i, i})
		}
	}
	if nv > 0 {
		for _, e := range exp {
			d := snap.Data[e.Key]
			ar := len(e.Cols)
			if !perCorner && len(d) != nv*ar {
				res.Violate("mesh-mismatch", site, input, fmt.Sprintf("attribute %s has %d entries, the file has %d vertices", e.Key[2:], len(d)/ar, nv), wit())
				return res
			}
			scalarUChar := e.UChar && ar == 1
			allDiv, allRaw := true, true
			for _, pr := range pairs {
				for cmp, col := range e.Cols {
					stored := m.Verts[pr[0]][col]
					got := d[pr[1]*ar+cmp]
					typ := m.VProps[col].Type
					if scalarUChar {
						if !eq(stored, got, "uchar") {
							allDiv = false
						}
						if got != stored {
							allRaw = false
						}
						if !allDiv && !allRaw {
							res.Violate("mesh-mismatch", site, input, fmt.Sprintf("uchar property %s: record %d stores %v, vertex %d loads %v — neither raw nor ÷255 consistently over the column", m.VProps[col].Name, pr[0], stored, pr[1], got), wit())
							return res
						}
						continue
					}
					if !eq(stored, got, typ) {
						want := stored
						if typ == "uchar" {
							want = stored / 255
						}
						res.Violate("mesh-mismatch", site, input, fmt.Sprintf("attribute %s[%d]: record %d stores %s %s = %v (→ %v), vertex %d of the loaded mesh has %v",
							e.Key[2:], cmp, pr[0], m.VProps[col].Spelled, m.VProps[col].Name, stored, want, pr[1], got), wit())
						return res
					}
				}
			}
			if scalarUChar {
				if allRaw && !allDiv {
					res.SetAdd("uchar_scalar_convention", m.Format+":raw")
				} else if allDiv && !allRaw {
					res.SetAdd("uchar_scalar_convention", m.Format+":÷255")
				}
			}
			res.Count("vertex_values_compared", int64(len(pairs)*ar))
		}
	}
	if perCorner {
		d := snap.Data["2:TexCoord"]
		for j := range wantIdx {
			uv := m.FaceUV[faceOf[j]]
			for cmp := 0; cmp < 2; cmp++ {
				stored := uv[2*posIn[j]+cmp]
				got := d[snap.Indices[j]*2+cmp]
				if !eq(stored, got, "float") {
					res.Violate("mesh-mismatch", site, input, fmt.Sprintf("texcoord of face %d listed vertex %d component %d: file stores %v, corner %d of the loaded mesh has %v",
						faceOf[j], posIn[j], cmp, stored, j, got), wit())
					return res
				}
			}
		}
		res.Count("texcoord_corners_compared", int64(len(wantIdx)))
	}
	res.Count("indices_compared", int64(len(wantIdx)))
	return res
}

func sameBits(a, b float64) bool {
	if a == 0 && b == 0 {
		return true
	}
	return math.Float64bits(a) == math.Float64bits(b)
}

func attrClass(name string) string {
	switch name {
	case "Position", "Normal", "Color", "TexCoord", "FDC", "Opacity", "Scale", "Rotation":
		return name
	}
	return "<scalar of its own name>"
}

func propList(m *model) string {
	var ps []string
	for _, p := range m.VProps {
		ps = append(ps, p.Spelled+" "+p.Name)
	}
	return strings.Join(ps, ", ")
}

func headInts(f [][]int, n int) [][]int {
	if len(f) > n {
		return f[:n]
	}
	return f
}

// canonicalOrder: is the property list in the order polyform's own writer would emit
// (x y z, nx ny nz, red green blue, f_dc, opacity, scale, rot, then the rest)?
func canonicalOrder(m *model) bool {
	rank := map[string]int{}
	for i, n := range []string{"x", "y", "z", "nx", "ny", "nz", "red", "green", "blue", "f_dc_0", "f_dc_1", "f_dc_2", "opacity",
		"scale_0", "scale_1", "scale_2", "rot_0", "rot_1", "rot_2", "rot_3"} {
		rank[n] = i + 1
	}
	last := 0
	for _, p := range m.VProps {
		rk, ok := rank[p.Name]
		if !ok {
			rk = 1000
		}
		if rk < last {
			return false
		}
		last = rk
	}
	return true
}

// selfCheck decodes the reference encoder's bytes with the independent decoder
// of package plyfile and compares with the model.
func selfCheck(m *model, data []byte) string {
	d := data
	if m.NoFinalN && len(m.Verts)+len(m.Faces) > 0 {
		d = append(append([]byte{}, data...), '\n')
	}
	f, err := plyfile.Decode(d)
	if err != nil {
		return err.Error()
	}
	h := f.Header
	if h.Format != m.Format || len(h.Elements) != 1+b2i(m.HasFace) {
		return "format/elements"
	}
	ve := h.Elements[0]
	if ve.Name != "vertex" || ve.Count != len(m.Verts) || len(ve.Props) != len(m.VProps) {
		return "vertex element"
	}
	for k, p := range ve.Props {
		if p.Name != m.VProps[k].Name || p.Type != m.VProps[k].Type || p.List {
			return "vertex property " + p.Name
		}
	}
	for i, rec := range f.Data[0] {
		for k := range ve.Props {
			if !sameNum(rec.Scalars[k], m.Verts[i][k], ve.Props[k].Type, m.Format == "ascii") {
				return fmt.Sprintf("vertex %d property %s: decoded %v, model %v", i, ve.Props[k].Name, rec.Scalars[k], m.Verts[i][k])
			}
		}
	}
	if m.HasFace {
		fe := h.Elements[1]
		if fe.Name != "face" || fe.Count != len(m.Faces) || len(fe.Props) != len(m.Lists) {
			return "face element"
		}
		for fi, rec := range f.Data[1] {
			for k, l := range m.Lists {
				want := m.listItems(l, fi, m.Faces[fi])
				got := rec.Lists[k]
				if len(got) != len(want) {
					return fmt.Sprintf("face %d list %s length", fi, l.Name)
				}
				for j := range want {
					if !sameNum(got[j], want[j], l.ItemType, m.Format == "ascii") {
						return fmt.Sprintf("face %d list %s item %d: decoded %v, model %v", fi, l.Name, j, got[j], want[j])
					}
				}
			}
		}
	}
	return ""
}

func b2i(b bool) int {
	if b {
		return 1
	}
	return 0
}

// sameNum: decoded equals the model's stored number; ascii reals are decimal
// renderings that denote the stored float32-representable value uniquely at
// float32 precision (e.g. nine significant digits), not necessarily at float64.
func sameNum(decoded, stored float64, typ string, ascii bool) bool {
	if ascii && (typ == "float" || typ == "double") {
		return sameBits(float64(float32(decoded)), stored)
	}
	return sameBits(decoded, stored)
}

// readerClass groups the source kinds by what a reader implementation can see of them.
func readerClass(kind string) string {
	switch kind {
	case "*bytes.Reader", "*bytes.Buffer", "*bufio.Reader":
		return "source implementing io.ByteReader"
	}
	return "plain io.Reader source"
}

// nearPacked describes the layout of a recognised vector group when a reader that
// decodes it from one window of the record would take a wrong property; "" otherwise.
func nearPacked(m *model, e expAttr) string {
	if len(e.Cols) < 2 {
		return ""
	}
	sz := sizeOf(m.VProps[e.Cols[0]].Type)
	isMember := map[int]bool{}
	for _, c := range e.Cols {
		isMember[c] = true
	}
	if len(e.Cols) == 2 {
		a, b := e.Cols[0], e.Cols[1]
		switch {
		case b == a-1:
			return "reversed"
		case (b == a+2 || a == b+2) && !isMember[(a+b)/2] && sizeOf(m.VProps[(a+b)/2].Type) == sz:
			return "split by a same-size foreign property"
		}
		return ""
	}
	for i := 0; i+2 < len(e.Cols); i++ {
		a, c := e.Cols[i], e.Cols[i+2]
		if (c == a+2 || a == c+2) && !isMember[(a+c)/2] && sizeOf(m.VProps[(a+c)/2].Type) == sz {
			return fmt.Sprintf("members %d and %d two slots apart around a same-size foreign property", i, i+2)
		}
	}
	return ""
}
