package c08

import (
	"fmt"
	"math/rand"
	"strings"
)

// --- wide ASCII rows ------------------------------------------------------------------
//
// A sub-population of the foreign phase: ASCII files whose vertex rows, or face rows,
// have a chosen width around the buffer sizes a line reader is likely to use (4096:
// bufio's default; 8192; 16 KiB; 64 KiB: bufio.Scanner's token limit). The width is
// reached in two ways: many properties / list entries with ordinary number texts, or
// few of them with long number texts — leading zeros, a plus sign, trailing zeros
// after the decimal point, zero-padded exponents, %.17g — all of which denote the
// same stored number for any reader built on scanf / strtod conventions.

// includeRowsOver64KiB admits rows wider than bufio.Scanner's 64 KiB token limit. On the
// current tree ply.ReadMesh rejects such files ("bufio.Scanner: token too long"):
// reported as a finding by the author of this monitor, not listed in
// known_findings.json. With the switch on, exactly that behaviour is reported as class
// "ascii-row-over-64KiB".
const includeRowsOver64KiB = true

const scannerLimit = 64 * 1024

type wideSpec struct {
	Label  string
	Kind   string // vertex | face
	Widths []int  // per row: bytes of the row without "\n" (a "\r" of a CRLF body counts)
	Mode   string // many | long | mixed
}

func rangeWidths(lo, hi int) []int {
	var w []int
	for x := lo; x <= hi; x++ {
		w = append(w, x)
	}
	return w
}

func wideTarget(r *rand.Rand, tier string, k int) *wideSpec {
	ws := &wideSpec{Kind: []string{"vertex", "vertex", "face"}[k%3]}
	labels := []string{"4000-4200", "4090-4100", "8190-8200", "16KiB", "below-64KiB", "4090-4100", "8190-8200"}
	if includeRowsOver64KiB {
		labels = append(labels, "64KiB±", "70KiB")
	}
	ws.Label = labels[(k/3)%len(labels)]
	switch ws.Label {
	case "4000-4200":
		for i := 0; i < 10; i++ {
			ws.Widths = append(ws.Widths, 4000+r.Intn(201))
		}
	case "4090-4100":
		ws.Widths = rangeWidths(4090, 4100)
	case "8190-8200":
		ws.Widths = rangeWidths(8186, 8200)
	case "16KiB":
		ws.Widths = rangeWidths(16380, 16388)
	case "below-64KiB":
		ws.Widths = []int{60000 + r.Intn(5000), scannerLimit - 40, scannerLimit - 3, scannerLimit - 2}
	case "64KiB±":
		ws.Widths = rangeWidths(scannerLimit-3, scannerLimit+3)
	case "70KiB":
		ws.Widths = []int{70 * 1024, 70*1024 + 1 + r.Intn(100), 66000 + r.Intn(3000)}
	}
	r.Shuffle(len(ws.Widths), func(i, j int) { ws.Widths[i], ws.Widths[j] = ws.Widths[j], ws.Widths[i] })
	ws.Mode = []string{"many", "long", "mixed"}[r.Intn(3)]
	if ws.Kind == "vertex" && ws.Widths[0] > 20000 && ws.Mode == "many" {
		// 6 500 properties per vertex: the reader's UpdateMesh copies the attribute table once per
		// attribute (quadratic; it terminates, but not reliably inside the per-case CPU budget)
		ws.Mode = "mixed"
	}
	return ws
}

func isIntType(t string) bool { return t == "uchar" || t == "int" || t == "uint" }

// padToken lengthens the text of a number by exactly extra characters without
// changing the number it denotes. Returns the new text and the forms used.
func padToken(r *rand.Rand, tok, typ string, extra int, forms map[string]bool) string {
	for extra > 0 {
		sign, body := "", tok
		if strings.HasPrefix(tok, "-") || strings.HasPrefix(tok, "+") {
			sign, body = tok[:1], tok[1:]
		}
		hasExp := strings.ContainsAny(body, "eE")
		opts := []string{"leading-zeros", "leading-zeros"}
		if sign == "" {
			opts = append(opts, "plus-sign")
		}
		if !isIntType(typ) {
			if !hasExp && (strings.Contains(body, ".") || extra >= 2) {
				opts = append(opts, "trailing-zeros", "trailing-zeros")
			}
			if hasExp || extra >= 2 {
				opts = append(opts, "padded-exponent")
			}
		}
		form := opts[r.Intn(len(opts))]
		n := extra
		if n > 3 && r.Intn(3) == 0 {
			n = 1 + r.Intn(n) // several forms on one token
		}
		switch form {
		case "plus-sign":
			tok, n = "+"+body, 1
		case "leading-zeros":
			tok = sign + strings.Repeat("0", n) + body
		case "trailing-zeros":
			if !strings.Contains(body, ".") {
				if n < 2 {
					continue
				}
				tok = sign + body + "." + strings.Repeat("0", n-1)
			} else {
				tok = sign + body + strings.Repeat("0", n)
			}
		case "padded-exponent":
			if !hasExp {
				if n < 2 {
					continue
				}
				// e0, e00…, or e+0…
				if n >= 3 && r.Intn(2) == 0 {
					tok = sign + body + "e+" + strings.Repeat("0", n-2)
				} else {
					tok = sign + body + "e" + strings.Repeat("0", n-1)
				}
			} else {
				k := strings.IndexAny(body, "eE") + 1
				if k < len(body) && (body[k] == '+' || body[k] == '-') {
					k++
				}
				tok = sign + body[:k] + strings.Repeat("0", n) + body[k:]
			}
		}
		forms[form] = true
		extra -= n
	}
	return tok
}

// spread distributes extra characters over the tokens of one row.
func spread(r *rand.Rand, ntok int, extra int, mode string, eligible func(j int) bool) []int {
	pad := make([]int, ntok)
	var el []int
	for j := 0; j < ntok; j++ {
		if eligible(j) {
			el = append(el, j)
		}
	}
	for extra > 0 {
		maxPad := 8
		if mode == "long" || (mode == "mixed" && r.Intn(3) == 0) {
			maxPad = 400
		}
		d := 1 + r.Intn(maxPad)
		if d > extra {
			d = extra
		}
		pad[el[r.Intn(len(el))]] += d
		extra -= d
	}
	return pad
}

func (m *model) rowOverhead(ntok int) int {
	o := len(m.Sep) * (ntok - 1)
	if m.Trailing {
		o++
	}
	if m.BodyCRLF {
		o++
	}
	return o
}

func baseFraction(mode string) float64 {
	switch mode {
	case "many":
		return 0.9
	case "long":
		return 0.12
	}
	return 0.5
}

// widenVertexRows: called when the regular properties exist and before faces are drawn.
// It sets the vertex count, draws the values, adds unrecognised scalar properties until
// the ordinary texts fill the wanted fraction of the narrowest row, and pads every row to
// its exact width.
func widenVertexRows(r *rand.Rand, m *model, ws *wideSpec) {
	nv := len(ws.Widths)
	minW := ws.Widths[0]
	for _, w := range ws.Widths {
		if w < minW {
			minW = w
		}
	}
	m.Verts = make([][]float64, nv)
	base := make([]int, nv) // Σ token lengths
	toks := make([][]string, nv)
	addColumn := func(p vprop) {
		for i := 0; i < nv; i++ {
			v := drawStored(r, p.Type)
			m.Verts[i] = append(m.Verts[i], v)
			t := m.text(p.Type, v)
			toks[i] = append(toks[i], t)
			base[i] += len(t)
		}
	}
	for _, p := range m.VProps {
		addColumn(p)
	}
	limit := int(baseFraction(ws.Mode) * float64(minW))
	maxBase := func() int {
		mb := 0
		for i := range base {
			if b := base[i] + m.rowOverhead(len(toks[i])); b > mb {
				mb = b
			}
		}
		return mb
	}
	for k := 0; maxBase()+45 < limit; k++ {
		p := vprop{Name: fmt.Sprintf("e%04d", k), Type: []string{"float", "float", "double", "int", "uchar"}[r.Intn(5)]}
		p.Spelled = spell(r, p.Type, &m.NAlias)
		m.VProps = append(m.VProps, p)
		m.NExtra++
		addColumn(p)
	}
	forms := map[string]bool{}
	for i, W := range ws.Widths {
		extra := W - base[i] - m.rowOverhead(len(toks[i]))
		if extra < 0 {
			panic(fmt.Sprintf("harness: vertex row %d is already %d bytes wider than its target %d", i, -extra, W))
		}
		pad := spread(r, len(toks[i]), extra, ws.Mode, func(int) bool { return true })
		for j := range toks[i] {
			toks[i][j] = padToken(r, toks[i][j], m.VProps[j].Type, pad[j], forms)
		}
	}
	m.VText = toks
	for f := range forms {
		m.PadForms = append(m.PadForms, f)
	}
}

// widenFaceRows: called after the faces exist. The unrelated list of every face gets
// entries until the ordinary texts fill the wanted fraction of the row, then the items
// are padded to the exact width.
func widenFaceRows(r *rand.Rand, m *model, ws *wideSpec) {
	ei := m.hasList("extra")
	forms := map[string]bool{}
	m.FText = make([][]string, len(m.Faces))
	for f, fc := range m.Faces {
		W := ws.Widths[f]
		limit := int(baseFraction(ws.Mode) * float64(W))
		build := func() ([]string, []string, int) {
			var toks, types []string
			sum := 0
			for _, l := range m.Lists {
				items := m.listItems(l, f, fc)
				toks, types = append(toks, fmt.Sprint(len(items))), append(types, "count")
				for _, v := range items {
					toks, types = append(toks, m.text(l.ItemType, v)), append(types, l.ItemType)
				}
			}
			for _, t := range toks {
				sum += len(t)
			}
			return toks, types, sum + m.rowOverhead(len(toks))
		}
		toks, types, width := build()
		for width+45 < limit {
			var v float64
			switch m.Lists[ei].ItemType {
			case "int":
				v = float64(r.Intn(2000001) - 1000000)
			case "uint":
				v = float64(r.Intn(4000000))
			default:
				v = drawStored(r, "float")
			}
			m.FaceEx[f] = append(m.FaceEx[f], v)
			// incremental: one more token
			t := m.text(m.Lists[ei].ItemType, v)
			width += len(t) + len(m.Sep)
			_ = t
		}
		toks, types, width = build()
		extra := W - width
		if extra < 0 {
			panic(fmt.Sprintf("harness: face row %d is already %d bytes wider than its target %d", f, -extra, W))
		}
		pad := spread(r, len(toks), extra, ws.Mode, func(j int) bool { return types[j] != "count" })
		for j := range toks {
			if pad[j] > 0 {
				toks[j] = padToken(r, toks[j], types[j], pad[j], forms)
			}
		}
		m.FText[f] = toks
	}
	for f := range forms {
		m.PadForms = append(m.PadForms, f)
	}
}

// rowWidthLabel names the width of an ASCII row for the evidence.
func rowWidthLabel(L int) string {
	for _, b := range []int{4096, 8192, 16384, scannerLimit} {
		if L >= b-8 && L <= b+8 {
			return fmt.Sprintf("%d%+d", b, L-b)
		}
	}
	switch {
	case L < 1000:
		return "<1000"
	case L < 4000:
		return "1000-3999"
	case L <= 4200:
		return "4000-4200"
	case L < 8192:
		return "4201-8191"
	case L < 16384:
		return "8K-16K"
	case L < 60000:
		return "16K-60000"
	case L < scannerLimit:
		return "60000-64K"
	case L < 70*1024:
		return "64K-70K"
	}
	return ">=70K"
}
