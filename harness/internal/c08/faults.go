package c08

import (
	"bytes"
	"errors"
	"fmt"
	"io"
	"strings"

	"github.com/EliCDavis/polyform/formats/ply"
	"github.com/EliCDavis/polyform/modeling"
	"polyverif/internal/c04/plyfile"
	"polyverif/internal/ref"
	"polyverif/internal/run"
)

// --- phase fault-sequences ----------------------------------------------------------
//
// One case = a short history (3–8 operations, one goroutine):
//
//	G   a fresh third-party file through the complete ordinary oracle (1..3 000 vertices)
//	Fr  ply.ReadMesh of a fresh third-party file from a source that fails after k bytes:
//	    k inside the header, the first vertex record, the middle of the vertex records,
//	    around 32 KiB, the face records, or the last needed byte
//
// Oracle: no call may panic; a read that was cut before its last record must report an
// error, and one that reports none must have produced the mesh of the complete file;
// every good operation must satisfy its complete ordinary oracle whatever failed before
// it (no state may leak from a failed read into a later one).

var errInjected = errors.New("injected I/O failure")

type failReader struct {
	data     []byte
	limit    int
	chunk    int
	withData bool
	err      error
	pos      int
}

func (r *failReader) Read(p []byte) (int, error) {
	if r.pos >= r.limit {
		return 0, r.err
	}
	n := len(p)
	if n > r.chunk {
		n = r.chunk
	}
	if n > r.limit-r.pos {
		n = r.limit - r.pos
	}
	copy(p, r.data[r.pos:r.pos+n])
	r.pos += n
	if r.pos >= r.limit && r.withData {
		return n, r.err
	}
	return n, nil
}

func merge(dst *run.Result, src run.Result, step string) {
	for k, v := range src.Counters {
		dst.Count(k, v)
	}
	for k, els := range src.Sets {
		for _, e := range els {
			dst.SetAdd(k, e)
		}
	}
	for _, v := range src.Violations {
		dst.Violate(v.Class, v.Site, step+": "+v.Input, v.Detail, v.Witness)
	}
	if src.Inconclusive != "" && dst.Inconclusive == "" {
		dst.Inconclusive = step + ": " + src.Inconclusive
	}
}

func faultOpts(c *run.Ctx) genOpts {
	switch p := c.Rng.Intn(10); {
	case p < 6:
		return genOpts{}
	case p < 9:
		return genOpts{Large: true, MinV: 300, MaxV: 1200}
	}
	return genOpts{Large: true, MinV: 1200, MaxV: 3000}
}

func between(c *run.Ctx, lo, hi int) int {
	if hi <= lo {
		return lo
	}
	return lo + c.Rng.Intn(hi-lo)
}

func faultSequences(c *run.Ctx) run.Result {
	var res run.Result
	r := c.Rng
	L := 3 + r.Intn(6)
	ops := make([]string, L)
	for i := range ops {
		ops[i] = []string{"G", "Fr"}[r.Intn(2)]
	}
	ops[L-1] = "G"
	ops[r.Intn(L-1)] = "Fr"
	if r.Intn(2) == 0 {
		ops[L-2] = "Fr"
	}
	var codes []string
	pending, afterFault := false, false
	for i, op := range ops {
		step := fmt.Sprintf("step %d/%d %s of history %v", i+1, L, op, ops)
		if op == "G" {
			sub := runCase(c, faultOpts(c))
			merge(&res, sub, step)
			codes = append(codes, "G")
			res.Count("good_ops_in_histories", 1)
			if pending {
				afterFault = true
				res.Count("good_ops_after_a_failed_read", 1)
			}
			continue
		}
		where := failingRead(c, &res, step)
		codes = append(codes, "Fr:"+where)
		pending = true
	}
	res.Sig = "fault/" + strings.Join(codes, ",")
	res.Nontrivial = afterFault
	res.Sample = map[string]any{"history": codes}
	res.Count("fault_histories", 1)
	return res
}

func failingRead(c *run.Ctx, res *run.Result, step string) string {
	m := genModel(c.Rng, faultOpts(c))
	data := encode(m)
	h, err := plyfile.ParseHeader(data)
	if err != nil {
		res.Inconclusive = "harness: reference encoder wrote an unreadable header: " + err.Error()
		return "skipped"
	}
	body := h.BodyOffset
	// needed = the bytes without which the file is certainly incomplete. An ASCII file cut
	// inside its last record cannot always be told from a complete one: cut before it.
	needed := len(data)
	if m.Format == "ascii" && len(data) > body {
		d := bytes.TrimRight(data, "\r\n")
		needed = bytes.LastIndexByte(d, '\n') + 1
		if needed < body {
			needed = body
		}
	}
	// regions
	firstEnd, vertexEnd := body, body
	if nv := len(m.Verts); nv > 0 {
		if m.Format == "ascii" {
			pos := body
			for i := 0; i < nv && pos < len(data); i++ {
				k := bytes.IndexByte(data[pos:], '\n')
				if k < 0 {
					pos = len(data)
					break
				}
				pos += k + 1
				if i == 0 {
					firstEnd = pos
				}
			}
			vertexEnd = pos
		} else {
			rs := 0
			for _, p := range m.VProps {
				rs += sizeOf(p.Type)
			}
			firstEnd, vertexEnd = body+rs, body+rs*nv
		}
	}
	if firstEnd > needed {
		firstEnd = needed
	}
	if vertexEnd > needed {
		vertexEnd = needed
	}
	opts := []string{"header", "header"}
	if needed > body {
		opts = append(opts, "last-needed-byte")
	}
	if firstEnd > body {
		opts = append(opts, "first-record", "first-record")
	}
	if vertexEnd > firstEnd+1 {
		opts = append(opts, "mid-records", "mid-records", "mid-records")
	}
	if needed > vertexEnd+1 {
		opts = append(opts, "face-records", "face-records")
	}
	if needed > 32768+3 {
		opts = append(opts, "32KiB", "32KiB", "32KiB", "32KiB")
	}
	where := opts[c.Rng.Intn(len(opts))]
	var k int
	switch where {
	case "header":
		k = between(c, 0, body)
	case "first-record":
		k = between(c, body, firstEnd)
	case "mid-records":
		k = between(c, firstEnd, vertexEnd-1)
	case "face-records":
		k = between(c, vertexEnd, needed-1)
	case "32KiB":
		k = []int{0, body}[c.Rng.Intn(2)] + 32768 + c.Rng.Intn(5) - 2
		if k >= needed {
			k = needed - 1
		}
	case "last-needed-byte":
		k = needed - 1
	}
	errs := []error{errInjected, io.ErrUnexpectedEOF, io.EOF, io.ErrClosedPipe}
	rd := &failReader{data: data, limit: k, chunk: 1 + c.Rng.Intn(5000), withData: c.Rng.Intn(2) == 0, err: errs[c.Rng.Intn(len(errs))]}
	wit := map[string]any{"step": step, "file": fileWitness(data, m), "fails_after_bytes": k, "of_bytes": len(data), "fault_in": where, "error": rd.err.Error(), "with_data": rd.withData}
	c.Note(fmt.Sprintf("ply.ReadMesh %s from a reader failing after %d of %d bytes (%s)", m.Format, k, len(data), where))
	var back *modeling.Mesh
	var rerr error
	p := run.Try(func() { back, rerr = ply.ReadMesh(rd) })
	res.SetAdd("read_fault_positions", where)
	res.SetAdd("read_fault_errors", rd.err.Error())
	site := "ply.ReadMesh (failing reader)"
	switch {
	case p != nil:
		class := "read-panic"
		if p.Runtime {
			class = "runtime-panic"
		}
		res.Violate(class, site+" ("+p.Site+")", step, p.Value+"\n"+p.Stack, wit)
	case rerr == nil:
		var full *modeling.Mesh
		var ferr error
		if q := run.Try(func() { full, ferr = ply.ReadMesh(bytes.NewReader(data)) }); q == nil && ferr == nil && full != nil && back != nil &&
			ref.Snap(*full).Diff(ref.Snap(*back)) == "" {
			res.Count("failing_reads_that_had_everything_they_need", 1)
			break
		}
		res.Violate("read-error-not-reported", site, step,
			fmt.Sprintf("the source failed with %q after %d of the %d bytes (%s) but ply.ReadMesh returned no error and not the mesh of the complete file", rd.err, k, len(data), where), wit)
	default:
		res.Count("failed_reads_reported", 1)
	}
	return where
}
