package c10

import (
	"fmt"
	"runtime"
	"sort"
	"strings"
	"sync"
	"sync/atomic"
	"time"

	"github.com/EliCDavis/polyform/modeling"
	"polyverif/internal/run"
)

// ---------------------------------------------------------------------------
// does-not-return detector (state based, like C13's deadlock detector)
// ---------------------------------------------------------------------------

type stuck struct {
	parked int
	states []string
	dump   string
}

const (
	stuckPoll    = 250 * time.Millisecond
	stuckIdle    = 12 // polls without a single callback before looking (3 s)
	stuckRecheck = 2 * time.Second
)

// waitOrStuck waits for the guarded call. Verdict "stuck": every goroutine that has a
// polyform frame on its stack is parked in a channel / semaphore / WaitGroup / mutex wait, in
// two goroutine dumps stuckRecheck apart, and no callback ran in between. The harness
// callbacks never block (atomics and runtime.Gosched only), so such a state cannot resolve.
// Timers only decide when to look.
func waitOrStuck(wg *sync.WaitGroup) *stuck {
	done := make(chan struct{})
	go func() { wg.Wait(); close(done) }()
	last := atomic.LoadInt64(&progress)
	idle := 0
	for {
		select {
		case <-done:
			return nil
		case <-time.After(stuckPoll):
		}
		now := atomic.LoadInt64(&progress)
		if now != last {
			last, idle = now, 0
			continue
		}
		if idle++; idle < stuckIdle {
			continue
		}
		s1 := allParked()
		if s1 == nil {
			idle = stuckIdle / 2
			continue
		}
		select {
		case <-done:
			return nil
		case <-time.After(stuckRecheck):
		}
		s2 := allParked()
		if s2 == nil || s2.parked != s1.parked || atomic.LoadInt64(&progress) != last {
			idle, last = 0, atomic.LoadInt64(&progress)
			continue
		}
		return s2
	}
}

var parkedStates = []string{"chan send", "chan receive", "select", "semacquire", "sync.WaitGroup.Wait", "sync.Mutex.Lock", "sync.RWMutex", "sync.Cond.Wait"}

func allParked() *stuck {
	buf := make([]byte, 8<<20)
	n := runtime.Stack(buf, true)
	st := &stuck{}
	states := map[string]bool{}
	var sample []string
	for _, g := range strings.Split(string(buf[:n]), "\n\n") {
		if !strings.Contains(g, "github.com/EliCDavis/polyform/") {
			continue
		}
		end := strings.Index(g, "\n")
		if end < 0 {
			end = len(g)
		}
		header := g[:end]
		state := ""
		for _, ps := range parkedStates {
			if strings.Contains(header, "["+ps) {
				state = ps
			}
		}
		if state == "" {
			return nil // running, runnable, sleeping, in a syscall …: may still make progress
		}
		st.parked++
		states[state+" in "+run.PolyformFrame(g)] = true
		if len(sample) < 3 {
			sample = append(sample, g)
		}
	}
	if st.parked == 0 {
		return nil
	}
	for s := range states {
		st.states = append(st.states, s)
	}
	sort.Strings(st.states)
	if len(st.states) > 6 {
		st.states = st.states[:6]
	}
	st.dump = strings.Join(sample, "\n\n")
	if len(st.dump) > 3000 {
		st.dump = st.dump[:3000]
	}
	return st
}

// ---------------------------------------------------------------------------
// nested use
// ---------------------------------------------------------------------------

func firstModified(k kind, out modeling.Mesh) float64 {
	switch k {
	case kMod1:
		if out.HasFloat1Attribute(attr1) && out.Float1Attribute(attr1).Len() > 0 {
			return out.Float1Attribute(attr1).At(0)
		}
	case kMod2:
		if out.HasFloat2Attribute(attr2) && out.Float2Attribute(attr2).Len() > 0 {
			return out.Float2Attribute(attr2).At(0).X()
		}
	case kMod3:
		if out.HasFloat3Attribute(attr3) && out.Float3Attribute(attr3).Len() > 0 {
			return out.Float3Attribute(attr3).At(0).X()
		}
	}
	return 0
}

// scanNested: a race-free callback that ITSELF calls a parallel scan/modify on a second,
// small mesh. Outer: >= NumCPU elements, pools NumCPU, NumCPU+1, 2*NumCPU and the default
// entry point; inner: 2..12 elements, pools 2..NumCPU+1 (or the default entry point). The
// reference is the sequential nesting (sequential outer, sequential inner): same exactly-once
// logs for the outer call, every (outer i, inner j) pair visited exactly once, same value
// obtained by every callback from its inner call, same outer output. A call that does not
// return is a violation (state-based detector; the framework's stall watchdog is the backstop).
func scanNested(c *run.Ctx) run.Result {
	var res run.Result
	r := c.Rng
	ncpu := runtime.NumCPU()
	ok, ik := kind(c.Case%exhaustiveKinds), kind(r.Intn(exhaustiveKinds))
	n := ncpu + r.Intn(3*ncpu+1)
	m := 2 + r.Intn(11)
	outer, inner := buildSubject(r, ok, n), buildSubject(r, ik, m)
	outer.guard = true
	innerPool := 0
	var mat []int32
	var innerBad int64
	outer.nest = func(parallel bool) func(i int) float64 {
		mat = make([]int32, outer.n*inner.n)
		ip, cur := 0, mat
		if parallel {
			ip = innerPool
		}
		return func(i int) float64 {
			il := newLog(inner.n, uint32(i)*7919, 0x3)
			out, p := inner.call(ip, il)
			if p != nil || atomic.LoadInt64(&il.oor) != 0 {
				atomic.AddInt64(&innerBad, 1)
				return -1
			}
			sum := 0.0
			for j := 0; j < inner.n; j++ {
				cnt := atomic.LoadInt32(&il.counts[j])
				atomic.AddInt32(&cur[i*inner.n+j], cnt)
				sum += float64(cnt) * float64(j+1)
			}
			return sum + firstModified(inner.k, out)
		}
	}
	c.Note(fmt.Sprintf("nested: outer %s; inner %s", outer.input, inner.input))
	rf, good := outer.runReference(&res)
	if !good {
		return res
	}
	for _, v := range mat {
		if v != 1 {
			res.Inconclusive = "reference: the sequential nesting did not visit every (outer, inner) pair once"
			return res
		}
	}
	outerPools := []int{ncpu, 2 * ncpu, -1, ncpu + 1}
	for _, op := range outerPools {
		innerPool = 2 + r.Intn(ncpu)
		if r.Intn(6) == 0 {
			innerPool = -1
		}
		innerBad = 0
		before := len(res.Violations)
		outer.check(&res, rf, op, r.Uint32(), []uint32{0xffffffff, 0x7}[r.Intn(2)])
		res.Count("nested_outer_calls", 1)
		if len(res.Violations) > before && res.Violations[len(res.Violations)-1].Class == "does-not-return" {
			break // the workers of that call are parked for good
		}
		bad := 0
		for _, v := range mat {
			if v != 1 {
				bad++
			}
		}
		if bad > 0 || atomic.LoadInt64(&innerBad) > 0 {
			res.Violate("visit-count", siteWithPool[inner.k]+" (nested in "+siteWithPool[outer.k]+")", outer.input+" / inner "+inner.input,
				fmt.Sprintf("nested call with outer pool %d, inner pool %d: %d of %d (outer, inner) pairs not visited exactly once, %d inner calls panicked or went out of range; the sequential nesting visits each pair once", op, innerPool, bad, len(mat), innerBad), nil)
		}
		res.Count("nested_pairs_checked", int64(len(mat)))
		res.SetAdd("nested_inner_pools", fmt.Sprint(innerPool))
	}
	res.SetAdd("nested_kind_pairs", kindName[ok]+">"+kindName[ik])
	res.SetAdd("gomaxprocs", fmt.Sprint(runtime.GOMAXPROCS(0)))
	if c.Race {
		res.SetAdd("race_gomaxprocs", fmt.Sprint(runtime.GOMAXPROCS(0)))
	}
	res.Sig = fmt.Sprintf("nested/%s>%s/%s", kindName[ok], kindName[ik], countBucket(n))
	res.Sample = map[string]any{"outer": outer.input, "inner": inner.input, "outer_pools": outerPools}
	res.Nontrivial = true
	return res
}
