// Package c10 monitors property C10: every parallel entry point of polyform
// (parallel primitive / attribute scans and modifications with any pool size,
// parallel field accumulation, parallel marching) produces exactly the
// observable result of its sequential counterpart, on every schedule, without
// data races.
//
// Three monitors (DESIGN.md §3 C10):
//
//	(a) exactly-once log      phases scan-exhaustive, scan-large
//	(b) result equality       phase  field
//	(c) race detector         phases race-scan, race-field (-race build, GOMAXPROCS 2/4/16)
//
// The reference of every check is the sequential counterpart executed on the
// same input in the same case; the harness callbacks are pure functions of
// their arguments and record what they see with atomics only.
package c10

import (
	"os"
	"runtime"
	"strconv"

	"polyverif/internal/run"
)

const (
	exhaustiveMaxCount = 70 // counts 0..70
	exhaustiveKinds    = 9
	// one extra subject per repetition: the line strip with zero indices
	// (PrimitiveCount() == -1)
	exhaustivePerRep = (exhaustiveMaxCount+1)*exhaustiveKinds + 1
)

func tierFromArgs() string {
	for i, a := range os.Args {
		if (a == "-tier" || a == "--tier") && i+1 < len(os.Args) {
			return os.Args[i+1]
		}
		if len(a) > 6 && (a[:6] == "-tier=") {
			return a[6:]
		}
	}
	return "quick"
}

var gomaxprocsCycle = []string{"2", "4", "16"}

func raceEnv(batch int) []string {
	return []string{"GOMAXPROCS=" + gomaxprocsCycle[batch%len(gomaxprocsCycle)]}
}

// plain phases also vary the number of threads: schedules are part of the quantifier
func plainEnv(batch int) []string {
	return []string{"GOMAXPROCS=" + []string{"16", "4", "2", "8"}[batch%4]}
}

func Spec() *run.Spec {
	thorough := tierFromArgs() == "thorough"
	minObs := map[string]int64{
		"order_hashes":                         200, // distinct visitation orders seen (set)
		"logs_not_in_index_order":              500,
		"pool_gt_count_calls":                  500,
		"count_not_divisible_calls":            2000,
		"repeat_configs_multi_order":           20,
		"field_canvases_multi_block":           8,
		"field_block_orders":                   2, // distinct block completion orders of AddFieldParallel
		"race_gomaxprocs":                      3,
		"march_parallel_compared":              10,
		"many_block_parallel_marches":          6,
		"field_polyform_composite_multi_block": 6,
		"field_kinds":                          7,
		"nested_outer_calls":                   100,
		"nested_pairs_checked":                 20000,
		"nested_kind_pairs":                    20,
		"history_march_steps":                  12,
		"history_adders":                       3,
		"field_exact_block_bounds":             3,
		"field_aligned_scenes":                 4,
		"field_cutoffs":                        4,
		"many_block_blocks_over_cpus":          2,
		"field_parallel_compared":              10,
		"field_parallel2_compared":             10,
		"scan_entry_points":                    14,
		"topologies_scanned":                   3,
		"race_field_blocks_marched":            10,
		"race_field_blocks_filled":             40,
		"race_scan_callbacks":                  1000,
		"field_overlapping_fields":             2,
		"field_negative_block_coords":          1,
		"field_triangles_compared":             10000,
		"scan_large_max_count_bucket":          1,
		"scan_default_pool_calls":              100,
		"modify_outputs_compared":              500,
		"primitive_identities_checked":         10000,
	}
	if thorough {
		minObs["order_hashes"] = 2000
		minObs["field_canvases_multi_block"] = 100
		minObs["field_triangles_compared"] = 200000
	}
	return &run.Spec{
		ID: "C10", Level: "exploration",
		Rule: "Since round 7 the field phase contains scenes kept only when some field's UPPER canvas bound is an exact multiple of the block size and the cutoff is positive (12 quick / 60 thorough). " +
			"scan cases: one subject (entry point kind x element count) run against every pool size 1..count+3 (exhaustive, counts 0..70, " +
			"triangle/point/line-strip primitives, float1/2/3 scans and modifies) or against a drawn set of pool sizes (large counts); " +
			"non-trivial = some call had a count not divisible by the pool size or fewer elements than workers; signature = kind/count bucket. " +
			"field cases: one canvas scene (1-3 asymmetric fields, 1-3 attributes, cubes-per-unit, cutoff) accumulated with AddField, AddFieldParallel and " +
			"AddFieldParallel2 on fresh canvases and marched sequentially and in parallel; non-trivial = the scene spans >= 2 blocks; " +
			"signature = field kinds/blocks per axis/attributes/cpu.",
		Assumptions: []string{
			"the reference of every comparison is polyform's own sequential counterpart run on the same input in the same case (that is what the property states); element identity for triangles and lines is additionally checked against the mesh's index list",
			"callbacks and field functions are pure and record with atomics only, so every race report implicates polyform",
			"schedules: only those the Go runtime produced in the repetitions made (GOMAXPROCS 2,4,8,16, seeded runtime.Gosched() inside callbacks and field functions); the evidence reports how many distinct visitation orders were seen",
			"marched meshes are compared as multisets of triangles whose corners are identified up to March's own welds (4 decimals in cell units across blocks, then 3 decimals in world units, first vertex wins over a Go-map block order even sequentially): corners of both meshes are clustered at Chebyshev distance 2.5e-3, triangles with two corners in one cluster are ignored on both sides; canvases holding only lattice fields at cutoff 0 are also compared coordinate-wise at 1e-9",
			"a sequential March that panics with 'mesh without the attribute' (its behaviour on an empty surface) is taken as the empty triangle multiset",
			"AddFieldParallel/AddFieldParallel2/MarchParallel size their pools from runtime.NumCPU() (" + strconv.Itoa(runtime.NumCPU()) + " here), not from an argument",
			"topologies the scan does not support (line, quad) are outside the quantifier and not called",
		},
		MinNontrivial: map[string]int{"quick": 150, "thorough": 600},
		MinObserved:   minObs,
		Phases: []run.Phase{
			{Name: "scan-exhaustive", Cases: func(t string) int {
				if t == "thorough" {
					return 10 * exhaustivePerRep
				}
				return exhaustivePerRep
			}, Run: scanExhaustive, Batch: 40, CPUBudgetS: 30, Env: plainEnv},
			{Name: "scan-large", Cases: func(t string) int {
				if t == "thorough" {
					return 4000
				}
				return 240
			}, Run: scanLarge, Batch: 15, CPUBudgetS: 60, Env: plainEnv},
			// non-return is decided by the state-based detector in nested.go; the framework's stall
			// watchdog is NOT a verdict here (on a starved machine it fires on healthy cases)
			{Name: "scan-nested", Cases: func(t string) int {
				if t == "thorough" {
					return 270
				}
				return 27
			}, Run: scanNested, Batch: 3, CPUBudgetS: 60, Env: plainEnv},
			{Name: "field", Cases: func(t string) int {
				if t == "thorough" {
					return 300 + manyBlockCases(t) + historyCases(t) + pfStressCases(t) + seamCases(t) + tieCases(t) + exactBoundCases(t)
				}
				return 16 + manyBlockCases(t) + historyCases(t) + pfStressCases(t) + seamCases(t) + tieCases(t) + exactBoundCases(t)
			}, Run: fieldCase, Batch: 1, CPUBudgetS: 900, Parallel: 12, Env: plainEnv},
			{Name: "race-scan", Race: true, Cases: func(t string) int {
				if t == "thorough" {
					return 900
				}
				return 90
			}, Run: scanRace, Batch: 10, CPUBudgetS: 60, Parallel: 6, Env: raceEnv},
			{Name: "race-scan-nested", Race: true, Cases: func(t string) int {
				if t == "thorough" {
					return 90
				}
				return 9
			}, Run: scanNested, Batch: 3, CPUBudgetS: 60, Parallel: 6, Env: raceEnv},
			{Name: "race-field", Race: true, Cases: func(t string) int {
				if t == "thorough" {
					return 150
				}
				return 12
			}, Run: fieldRace, Batch: 1, CPUBudgetS: 240, Parallel: 6, Env: raceEnv},
		},
	}
}
