package c10

import (
	"fmt"
	"math"
	"math/rand"
	"runtime"
	"sort"
	"strings"
	"sync"
	"sync/atomic"

	"github.com/EliCDavis/polyform/modeling"
	"github.com/EliCDavis/vector/vector2"
	"github.com/EliCDavis/vector/vector3"
	"polyverif/internal/ref"
	"polyverif/internal/run"
)

// ---------------------------------------------------------------------------
// subjects
// ---------------------------------------------------------------------------

type kind int

const (
	kPrimTri kind = iota
	kPrimPoint
	kPrimStrip
	kScan1
	kScan2
	kScan3
	kMod1
	kMod2
	kMod3
)

var kindName = []string{"prim-triangle", "prim-point", "prim-linestrip", "scan-float1", "scan-float2", "scan-float3", "modify-float1", "modify-float2", "modify-float3"}

var siteWithPool = []string{
	"Mesh.ScanPrimitivesParallelWithPoolSize", "Mesh.ScanPrimitivesParallelWithPoolSize", "Mesh.ScanPrimitivesParallelWithPoolSize",
	"Mesh.ScanFloat1AttributeParallelWithPoolSize", "Mesh.ScanFloat2AttributeParallelWithPoolSize", "Mesh.ScanFloat3AttributeParallelWithPoolSize",
	"Mesh.ModifyFloat1AttributeParallelWithPoolSize", "Mesh.ModifyFloat2AttributeParallelWithPoolSize", "Mesh.ModifyFloat3AttributeParallelWithPoolSize",
}
var siteDefaultPool = []string{
	"Mesh.ScanPrimitivesParallel", "Mesh.ScanPrimitivesParallel", "Mesh.ScanPrimitivesParallel",
	"Mesh.ScanFloat1AttributeParallel", "Mesh.ScanFloat2AttributeParallel", "Mesh.ScanFloat3AttributeParallel",
	"Mesh.ModifyFloat1AttributeParallel", "Mesh.ModifyFloat2AttributeParallel", "Mesh.ModifyFloat3AttributeParallel",
}

const (
	attr1 = "w"
	attr2 = modeling.TexCoordAttribute
	attr3 = modeling.PositionAttribute
	other = "untouched"
)

// subject = one mesh and one entry-point kind. All slices below are the harness's own
// copies; the ones handed to polyform are never touched again.
type subject struct {
	k     kind
	n     int // number of elements the sequential counterpart visits
	rawN  int // PrimitiveCount() / attribute length as reported by polyform
	topo  modeling.Topology
	mesh  modeling.Mesh
	idx   []int
	w     []float64
	uv    []vector2.Float64
	pos   []vector3.Float64
	salt  float64
	input string // human description, leading with the topology / attribute kind
	// nested use (scan-nested phases): nest(parallel) builds the callback extension for one
	// run; guard: run the call under the does-not-return detector
	nest  func(parallel bool) func(i int) float64
	guard bool
}

func cp[T any](s []T) []T { return append(make([]T, 0, len(s)), s...) }

// buildSubject makes a mesh for kind k with `count` elements (count == -1: the line strip
// with no indices at all).
func buildSubject(r *rand.Rand, k kind, count int) *subject {
	s := &subject{k: k, salt: float64(r.Intn(1000)) / 8}
	var V int
	switch k {
	case kPrimTri:
		s.topo = modeling.TriangleTopology
		V = 1 + r.Intn(count+3)
		if count == 0 {
			V = r.Intn(3)
		}
		s.idx = make([]int, 3*count)
	case kPrimPoint:
		s.topo = modeling.PointTopology
		// point primitive i is the vertex indices[i]: non-identity, repeated and unreferenced
		// vertices (V independent of the number of points)
		V = 1 + r.Intn(count+3)
		if count == 0 {
			V = r.Intn(3)
		}
		s.idx = make([]int, count)
	case kPrimStrip:
		s.topo = modeling.LineStripTopology
		V = 1 + r.Intn(count+4)
		s.idx = make([]int, count+1) // count == -1 -> no indices
	default:
		V = count
		s.topo = []modeling.Topology{modeling.TriangleTopology, modeling.PointTopology, modeling.LineStripTopology}[r.Intn(3)]
		if V > 0 {
			m := r.Intn(2*V + 2)
			if s.topo == modeling.TriangleTopology {
				m -= m % 3
			}
			s.idx = make([]int, m)
		} else {
			s.idx = []int{}
		}
	}
	for i := range s.idx {
		s.idx[i] = r.Intn(V)
	}
	s.w = make([]float64, V)
	s.uv = make([]vector2.Float64, V)
	s.pos = make([]vector3.Float64, V)
	for i := 0; i < V; i++ {
		// every element carries its own identity (distinct per index) plus seeded noise
		s.w[i] = float64(i) + s.salt + float64(r.Intn(8))/16
		s.uv[i] = vector2.New(float64(i)+0.25, s.salt-float64(i)*0.5+float64(r.Intn(4)))
		s.pos[i] = vector3.New(float64(i)+0.125, -float64(i)*2-s.salt, float64(r.Intn(1000))+float64(i)*1e-3)
	}
	ot := make([]float64, V)
	for i := range ot {
		ot[i] = float64(r.Intn(100))
	}
	s.mesh = modeling.NewMesh(s.topo, cp(s.idx)).
		SetFloat1Data(map[string][]float64{attr1: cp(s.w), other: ot}).
		SetFloat2Data(map[string][]vector2.Float64{attr2: cp(s.uv)}).
		SetFloat3Data(map[string][]vector3.Float64{attr3: cp(s.pos)})
	switch k {
	case kPrimTri, kPrimPoint, kPrimStrip:
		s.rawN = s.mesh.PrimitiveCount()
	default:
		s.rawN = V
	}
	s.n = s.rawN
	if s.n < 0 {
		s.n = 0
	}
	switch {
	case k == kPrimStrip && len(s.idx) == 0:
		s.input = fmt.Sprintf("line-strip with 0 indices (PrimitiveCount %d)", s.rawN)
	case k <= kPrimStrip:
		s.input = fmt.Sprintf("%s topology, %d primitives, %d vertices", s.topo.String(), s.rawN, V)
	default:
		s.input = fmt.Sprintf("%s over %d elements (%s mesh)", kindName[k], V, s.topo.String())
	}
	return s
}

// ---------------------------------------------------------------------------
// the exactly-once log
// ---------------------------------------------------------------------------

// obs is what a callback could observe of the element it was handed.
type obs [4]uint64

func fbits(f float64) uint64 {
	if f == 0 {
		return 0
	}
	if f != f {
		return 0x7ff8000000000001
	}
	return math.Float64bits(f)
}

const (
	tagTri = 1 + iota
	tagLine
	tagPoint
	tagF1
	tagF2
	tagF3
	tagPanic
	tagUnknown
	tagPointSplit
)

var origin = vector3.New(0., 0, 0)

// observePrimitive reads the identity of a primitive through its public methods. It never
// lets a panic escape (a callback runs on a polyform worker goroutine).
func observePrimitive(p modeling.Primitive) (o obs) {
	defer func() {
		if r := recover(); r != nil {
			o = obs{tagPanic}
		}
	}()
	switch t := p.(type) {
	case modeling.Tri:
		return obs{tagTri, uint64(t.P1()), uint64(t.P2()), uint64(t.P3())}
	case *modeling.Tri:
		return obs{tagTri, uint64(t.P1()), uint64(t.P2()), uint64(t.P3())}
	case modeling.Line:
		return obs{tagLine, uint64(t.P1()), uint64(t.P2())}
	case *modeling.Line:
		return obs{tagLine, uint64(t.P1()), uint64(t.P2())}
	case modeling.Point:
		return observePoint(t)
	case *modeling.Point:
		return observePoint(*t)
	}
	return obs{tagUnknown}
}

// observePoint: the position of the point through ClosestPoint; the bounding box (a
// zero-size box at the point) must agree with it, otherwise the observation is marked.
func observePoint(t modeling.Point) obs {
	v := t.ClosestPoint(attr3, origin)
	c := t.BoundingBox(attr3).Center()
	if fbits(c.X()) != fbits(v.X()) || fbits(c.Y()) != fbits(v.Y()) || fbits(c.Z()) != fbits(v.Z()) {
		return obs{tagPointSplit, fbits(v.X()), fbits(c.X()), fbits(c.Y())}
	}
	return obs{tagPoint, fbits(v.X()), fbits(v.Y()), fbits(v.Z())}
}

// visitLog is written concurrently by callbacks; atomics and disjoint slots only.
type visitLog struct {
	n        int
	counts   []int32
	seen     []obs   // slot i written by the (first) visitor of i, guarded by counts[i] 0->1
	order    []int32 // event log: order[k] = index of the k-th callback (by the atomic cursor)
	cursor   int64
	oor      int64 // callbacks with an index outside [0,n)
	oorFirst int64
	dupObs   int64 // second and later visitors whose observation differs are counted via counts only
	salt     uint32
	yieldAnd uint32 // yield when hash&yieldAnd == 0; 0xffffffff = never
	// nested use: the callback itself calls another (parallel) scan/modify and folds what it
	// saw into extra[i] (slot i written by the visitor of i only)
	nest  func(i int) float64
	extra []float64
}

// progress counts callbacks process-wide (the does-not-return detector looks at it).
var progress int64

func (l *visitLog) ext(i int) float64 {
	if l.extra == nil || i < 0 || i >= len(l.extra) {
		return 0
	}
	return l.extra[i]
}

const noIndex = int64(math.MinInt64)

func newLog(n int, salt uint32, yieldAnd uint32) *visitLog {
	return &visitLog{n: n, counts: make([]int32, n), seen: make([]obs, n), order: make([]int32, n+16), oorFirst: noIndex, salt: salt, yieldAnd: yieldAnd}
}

func (l *visitLog) hit(i int, o obs) {
	atomic.AddInt64(&progress, 1)
	if l.nest != nil && i >= 0 && i < l.n {
		l.extra[i] = l.nest(i)
	}
	k := atomic.AddInt64(&l.cursor, 1) - 1
	if k < int64(len(l.order)) {
		l.order[k] = int32(i)
	}
	if i < 0 || i >= l.n {
		atomic.AddInt64(&l.oor, 1)
		atomic.CompareAndSwapInt64(&l.oorFirst, noIndex, int64(i))
	} else if atomic.AddInt32(&l.counts[i], 1) == 1 {
		l.seen[i] = o
	}
	if l.yieldAnd != 0xffffffff {
		h := (uint32(i)*2654435761 ^ l.salt) * 2246822519
		if (h>>16)&l.yieldAnd == 0 {
			runtime.Gosched()
		}
	}
}

func (l *visitLog) orderHash() (h uint64, inIndexOrder bool) {
	h = 1469598103934665603
	inIndexOrder = true
	k := int(l.cursor)
	if k > len(l.order) {
		k = len(l.order)
	}
	for j := 0; j < k; j++ {
		h ^= uint64(uint32(l.order[j]))
		h *= 1099511628211
		if j > 0 && l.order[j] < l.order[j-1] {
			inIndexOrder = false
		}
	}
	return
}

// the pure modification functions (harness-defined; the same closure is given to the
// sequential and to the parallel call)
func (s *subject) f1(i int, v float64) float64 { return v*1.25 + float64(i)*0.5 - s.salt }
func (s *subject) f2(i int, v vector2.Float64) vector2.Float64 {
	return vector2.New(v.Y()+float64(i), v.X()*2-s.salt)
}
func (s *subject) f3(i int, v vector3.Float64) vector3.Float64 {
	return vector3.New(v.Z()+s.salt, v.X()-float64(i), v.Y()*0.5)
}

// call runs the entry point of the subject's kind. pool == 0: the sequential counterpart;
// pool == -1: the parallel variant without a pool argument (runtime.NumCPU() workers).
func (s *subject) call(pool int, l *visitLog) (out modeling.Mesh, p *run.PanicInfo) {
	m := s.mesh
	p = run.Try(func() {
		switch s.k {
		case kPrimTri, kPrimPoint, kPrimStrip:
			f := func(i int, pr modeling.Primitive) { l.hit(i, observePrimitive(pr)) }
			switch pool {
			case 0:
				out = m.ScanPrimitives(f)
			case -1:
				out = m.ScanPrimitivesParallel(f)
			default:
				out = m.ScanPrimitivesParallelWithPoolSize(pool, f)
			}
		case kScan1:
			f := func(i int, v float64) { l.hit(i, obs{tagF1, fbits(v)}) }
			switch pool {
			case 0:
				out = m.ScanFloat1Attribute(attr1, f)
			case -1:
				out = m.ScanFloat1AttributeParallel(attr1, f)
			default:
				out = m.ScanFloat1AttributeParallelWithPoolSize(attr1, pool, f)
			}
		case kScan2:
			f := func(i int, v vector2.Float64) { l.hit(i, obs{tagF2, fbits(v.X()), fbits(v.Y())}) }
			switch pool {
			case 0:
				out = m.ScanFloat2Attribute(attr2, f)
			case -1:
				out = m.ScanFloat2AttributeParallel(attr2, f)
			default:
				out = m.ScanFloat2AttributeParallelWithPoolSize(attr2, pool, f)
			}
		case kScan3:
			f := func(i int, v vector3.Float64) { l.hit(i, obs{tagF3, fbits(v.X()), fbits(v.Y()), fbits(v.Z())}) }
			switch pool {
			case 0:
				out = m.ScanFloat3Attribute(attr3, f)
			case -1:
				out = m.ScanFloat3AttributeParallel(attr3, f)
			default:
				out = m.ScanFloat3AttributeParallelWithPoolSize(attr3, pool, f)
			}
		case kMod1:
			f := func(i int, v float64) float64 { l.hit(i, obs{tagF1, fbits(v)}); return s.f1(i, v) + l.ext(i) }
			switch pool {
			case 0:
				out = m.ModifyFloat1Attribute(attr1, f)
			case -1:
				out = m.ModifyFloat1AttributeParallel(attr1, f)
			default:
				out = m.ModifyFloat1AttributeParallelWithPoolSize(attr1, pool, f)
			}
		case kMod2:
			f := func(i int, v vector2.Float64) vector2.Float64 {
				l.hit(i, obs{tagF2, fbits(v.X()), fbits(v.Y())})
				w := s.f2(i, v)
				return vector2.New(w.X()+l.ext(i), w.Y())
			}
			switch pool {
			case 0:
				out = m.ModifyFloat2Attribute(attr2, f)
			case -1:
				out = m.ModifyFloat2AttributeParallel(attr2, f)
			default:
				out = m.ModifyFloat2AttributeParallelWithPoolSize(attr2, pool, f)
			}
		case kMod3:
			f := func(i int, v vector3.Float64) vector3.Float64 {
				l.hit(i, obs{tagF3, fbits(v.X()), fbits(v.Y()), fbits(v.Z())})
				w := s.f3(i, v)
				return vector3.New(w.X()+l.ext(i), w.Y(), w.Z())
			}
			switch pool {
			case 0:
				out = m.ModifyFloat3Attribute(attr3, f)
			case -1:
				out = m.ModifyFloat3AttributeParallel(attr3, f)
			default:
				out = m.ModifyFloat3AttributeParallelWithPoolSize(attr3, pool, f)
			}
		}
	})
	return
}

// expectedIdentity: what element i is by the mesh definition (triangles/lines/points: the
// index list; attributes: the harness's copy of the data).
func (s *subject) expectedIdentity(i int) (obs, bool) {
	switch s.k {
	case kPrimTri:
		return obs{tagTri, uint64(s.idx[3*i]), uint64(s.idx[3*i+1]), uint64(s.idx[3*i+2])}, true
	case kPrimStrip:
		return obs{tagLine, uint64(s.idx[i]), uint64(s.idx[i+1])}, true
	case kPrimPoint:
		v := s.pos[s.idx[i]]
		return obs{tagPoint, fbits(v.X()), fbits(v.Y()), fbits(v.Z())}, true
	case kScan1, kMod1:
		return obs{tagF1, fbits(s.w[i])}, true
	case kScan2, kMod2:
		return obs{tagF2, fbits(s.uv[i].X()), fbits(s.uv[i].Y())}, true
	case kScan3, kMod3:
		return obs{tagF3, fbits(s.pos[i].X()), fbits(s.pos[i].Y()), fbits(s.pos[i].Z())}, true
	}
	return obs{}, false
}

// reference = the sequential counterpart's log and output
type reference struct {
	log  *visitLog
	out  modeling.Mesh
	snap *ref.Snapshot
	pan  *run.PanicInfo
}

func (s *subject) runReference(res *run.Result) (*reference, bool) {
	l := newLog(s.n, 0, 0xffffffff)
	if s.nest != nil {
		l.nest, l.extra = s.nest(false), make([]float64, s.n)
	}
	out, p := s.call(0, l)
	rf := &reference{log: l, out: out, pan: p}
	if p != nil {
		res.Inconclusive = "reference: sequential counterpart panicked: " + p.Value
		return rf, false
	}
	if l.oor != 0 {
		res.Inconclusive = fmt.Sprintf("reference: sequential counterpart handed out index %d outside [0,%d)", l.oorFirst, s.n)
		return rf, false
	}
	for i, c := range l.counts {
		if c != 1 {
			res.Inconclusive = fmt.Sprintf("reference: sequential counterpart visited element %d %d times", i, c)
			return rf, false
		}
	}
	rf.snap = ref.Snap(out)
	return rf, true
}

type callStats struct {
	orderHash    uint64
	inIndexOrder bool
}

// check compares one parallel call with the reference and files violations.
func (s *subject) check(res *run.Result, rf *reference, pool int, salt uint32, yieldAnd uint32) callStats {
	site := siteWithPool[s.k]
	poolDesc := fmt.Sprintf("pool %d", pool)
	if pool == -1 {
		site = siteDefaultPool[s.k]
		poolDesc = fmt.Sprintf("default pool (NumCPU=%d)", runtime.NumCPU())
	}
	l := newLog(s.n, salt, yieldAnd)
	if s.nest != nil {
		l.nest, l.extra = s.nest(true), make([]float64, s.n)
	}
	input := s.input + ", " + poolDesc
	var out modeling.Mesh
	var p *run.PanicInfo
	if s.guard {
		var wg sync.WaitGroup
		wg.Add(1)
		go func() { defer wg.Done(); out, p = s.call(pool, l) }()
		if st := waitOrStuck(&wg); st != nil {
			res.Violate("does-not-return", site, input,
				fmt.Sprintf("the call never returns while the sequential nesting returned at once: %d goroutine(s) with polyform frames, every one of them parked (%s) in two goroutine dumps %v apart, no callback ran in between (%d callbacks so far)\n%s",
					st.parked, strings.Join(st.states, ", "), stuckRecheck, atomic.LoadInt64(&l.cursor), st.dump), nil)
			return callStats{}
		}
	} else {
		out, p = s.call(pool, l)
	}
	wit := func() any {
		w := map[string]any{"kind": kindName[s.k], "topology": s.topo.String(), "count": s.rawN, "pool": pool}
		if len(s.idx) <= 240 {
			w["indices"] = s.idx
		}
		return w
	}
	res.Count("parallel_calls", 1)
	res.Count("callbacks", l.cursor)
	res.SetAdd("scan_entry_points", site)
	if s.k <= kPrimStrip {
		res.SetAdd("topologies_scanned", s.topo.String())
	}
	if pool > s.n {
		res.Count("pool_gt_count_calls", 1)
	}
	if pool > 1 && s.n%pool != 0 {
		res.Count("count_not_divisible_calls", 1)
	}
	if pool == -1 {
		res.Count("scan_default_pool_calls", 1)
	}
	if p != nil {
		res.Violate("runtime-panic", site, input, fmt.Sprintf("the sequential counterpart returned normally, the parallel call panicked: %s\n%s", p.Value, p.Stack), wit())
		return callStats{}
	}
	if l.oor != 0 {
		res.Violate("visit-out-of-range", site, input,
			fmt.Sprintf("callback was invoked %d time(s) with an index outside [0,%d) (first: %d); the sequential counterpart made %d callbacks, all in range", l.oor, s.n, l.oorFirst, rf.log.cursor), wit())
	}
	var missed, dup []int
	total := 0
	for i, c := range l.counts {
		total += int(c)
		if c == 0 {
			missed = append(missed, i)
		} else if c > 1 {
			dup = append(dup, i)
		}
	}
	if len(missed)+len(dup) > 0 {
		res.Violate("visit-count", site, input,
			fmt.Sprintf("%d elements: %d in-range callbacks; %d elements never visited (first %v), %d visited more than once (first %v); sequential counterpart: each exactly once",
				s.n, total, len(missed), head(missed, 12), len(dup), head(dup, 12)), wit())
	}
	idChecked := 0
	for i, c := range l.counts {
		if c == 0 {
			continue
		}
		idChecked++
		if l.seen[i] != rf.log.seen[i] {
			res.Violate("visit-identity", site, input,
				fmt.Sprintf("element handed to the callback for index %d differs from what the sequential counterpart hands out: parallel %s, sequential %s", i, l.seen[i].String(), rf.log.seen[i].String()), wit())
			break
		}
		if want, ok := s.expectedIdentity(i); ok && l.seen[i] != want {
			res.Violate("visit-identity", site, input,
				fmt.Sprintf("element handed to the callback for index %d is not element %d of the mesh: got %s, mesh definition %s", i, i, l.seen[i].String(), want.String()), wit())
			break
		}
	}
	res.Count("primitive_identities_checked", int64(idChecked))
	// returned mesh: bit-equal to what the sequential counterpart returns
	snap := ref.Snap(out)
	if d := rf.snap.Diff(snap); d != "" {
		cls := "scan-return"
		if s.k >= kMod1 {
			cls = "modify-output"
		}
		res.Violate(cls, site, input, "returned mesh differs from the sequential counterpart's (sequential -> parallel): "+d, wit())
	}
	if rf.log.extra != nil {
		for i := range rf.log.extra {
			if l.counts[i] == 1 && fbits(l.extra[i]) != fbits(rf.log.extra[i]) {
				res.Violate("nested-result", site, input, fmt.Sprintf("what the callback of element %d obtained from its nested call differs from the sequential nesting: %v vs %v", i, l.extra[i], rf.log.extra[i]), wit())
				break
			}
		}
	}
	if s.k >= kMod1 && s.nest == nil {
		res.Count("modify_outputs_compared", 1)
		if d := s.checkModified(out); d != "" {
			res.Violate("modify-output", site, input, d, wit())
		}
	}
	h, in := l.orderHash()
	return callStats{orderHash: h, inIndexOrder: in}
}

// checkModified compares the modified attribute with f applied by the harness to its own copy.
func (s *subject) checkModified(out modeling.Mesh) string {
	switch s.k {
	case kMod1:
		if len(s.w) == 0 {
			return ""
		}
		if !out.HasFloat1Attribute(attr1) {
			return "modified float1 attribute is missing"
		}
		it := out.Float1Attribute(attr1)
		if it.Len() != len(s.w) {
			return fmt.Sprintf("modified attribute has %d elements, want %d", it.Len(), len(s.w))
		}
		for i := range s.w {
			if fbits(it.At(i)) != fbits(s.f1(i, s.w[i])) {
				return fmt.Sprintf("element %d of the modified attribute is %v, f(%d, %v) = %v", i, it.At(i), i, s.w[i], s.f1(i, s.w[i]))
			}
		}
	case kMod2:
		if len(s.uv) == 0 {
			return ""
		}
		if !out.HasFloat2Attribute(attr2) {
			return "modified float2 attribute is missing"
		}
		it := out.Float2Attribute(attr2)
		if it.Len() != len(s.uv) {
			return fmt.Sprintf("modified attribute has %d elements, want %d", it.Len(), len(s.uv))
		}
		for i := range s.uv {
			g, w := it.At(i), s.f2(i, s.uv[i])
			if fbits(g.X()) != fbits(w.X()) || fbits(g.Y()) != fbits(w.Y()) {
				return fmt.Sprintf("element %d of the modified attribute is %v, f(%d, %v) = %v", i, g, i, s.uv[i], w)
			}
		}
	case kMod3:
		if len(s.pos) == 0 {
			return ""
		}
		if !out.HasFloat3Attribute(attr3) {
			return "modified float3 attribute is missing"
		}
		it := out.Float3Attribute(attr3)
		if it.Len() != len(s.pos) {
			return fmt.Sprintf("modified attribute has %d elements, want %d", it.Len(), len(s.pos))
		}
		for i := range s.pos {
			g, w := it.At(i), s.f3(i, s.pos[i])
			if fbits(g.X()) != fbits(w.X()) || fbits(g.Y()) != fbits(w.Y()) || fbits(g.Z()) != fbits(w.Z()) {
				return fmt.Sprintf("element %d of the modified attribute is %v, f(%d, %v) = %v", i, g, i, s.pos[i], w)
			}
		}
	}
	return ""
}

func (o obs) String() string {
	switch o[0] {
	case tagTri:
		return fmt.Sprintf("Tri(%d,%d,%d)", o[1], o[2], o[3])
	case tagLine:
		return fmt.Sprintf("Line(%d,%d)", o[1], o[2])
	case tagPoint:
		return fmt.Sprintf("Point@(%v,%v,%v)", math.Float64frombits(o[1]), math.Float64frombits(o[2]), math.Float64frombits(o[3]))
	case tagF1:
		return fmt.Sprintf("%v", math.Float64frombits(o[1]))
	case tagF2:
		return fmt.Sprintf("(%v,%v)", math.Float64frombits(o[1]), math.Float64frombits(o[2]))
	case tagF3:
		return fmt.Sprintf("(%v,%v,%v)", math.Float64frombits(o[1]), math.Float64frombits(o[2]), math.Float64frombits(o[3]))
	case tagPointSplit:
		return fmt.Sprintf("Point whose ClosestPoint (x=%v) and BoundingBox centre (%v,%v,..) disagree", math.Float64frombits(o[1]), math.Float64frombits(o[2]), math.Float64frombits(o[3]))
	case tagPanic:
		return "primitive whose accessors panic"
	case 0:
		return "nothing"
	}
	return "unknown primitive type"
}

func head(s []int, n int) []int {
	if len(s) > n {
		return s[:n]
	}
	return s
}

func countBucket(n int) string {
	switch {
	case n < 0:
		return "neg"
	case n <= 70:
		return fmt.Sprint(n)
	case n < 1000:
		return "<1e3"
	case n < 10000:
		return "<1e4"
	case n < 100000:
		return "<1e5"
	}
	return ">=1e5"
}

// ---------------------------------------------------------------------------
// phases
// ---------------------------------------------------------------------------

// runSubject runs the reference and every pool of `pools` (-1 = default-pool variant);
// `repeatPool` > 0 is run `repeats` more times to measure order diversity.
func runSubject(c *run.Ctx, res *run.Result, s *subject, pools []int, repeatPool, repeats int) {
	r := c.Rng
	c.Note(fmt.Sprintf("%s; pools %v", s.input, head(pools, 80)))
	rf, ok := s.runReference(res)
	if !ok {
		return
	}
	yields := []uint32{0xffffffff, 0x1, 0x7, 0x3f}
	hashesAdded := 0
	nontrivial := false
	for _, pool := range pools {
		st := s.check(res, rf, pool, r.Uint32(), yields[r.Intn(len(yields))])
		eff := pool
		if eff == -1 {
			eff = runtime.NumCPU()
		}
		if eff > 1 && (s.n%eff != 0 || eff > s.n) {
			nontrivial = true
		}
		if eff > 1 && s.n > 1 {
			res.Count("order_logs", 1)
			if !st.inIndexOrder {
				res.Count("logs_not_in_index_order", 1)
			}
			if hashesAdded < 6 && !st.inIndexOrder {
				res.SetAdd("order_hashes", fmt.Sprintf("%s/%d/%d:%016x", kindName[s.k], s.n, pool, st.orderHash))
				hashesAdded++
			}
		}
	}
	if repeatPool > 1 && s.n > 1 {
		seen := map[uint64]bool{}
		for k := 0; k < repeats; k++ {
			st := s.check(res, rf, repeatPool, r.Uint32(), 0x1)
			seen[st.orderHash] = true
		}
		res.Count("repeat_configs", 1)
		res.Count("repeat_config_orders", int64(len(seen)))
		if len(seen) > 1 {
			res.Count("repeat_configs_multi_order", 1)
		}
	}
	res.Nontrivial = nontrivial
	res.Sig = fmt.Sprintf("%s/%s", kindName[s.k], countBucket(s.rawN))
	res.SetAdd("gomaxprocs", fmt.Sprint(runtime.GOMAXPROCS(0)))
	if c.Race {
		res.SetAdd("race_gomaxprocs", fmt.Sprint(runtime.GOMAXPROCS(0)))
		res.Count("race_scan_callbacks", res.Counters["callbacks"])
	}
	res.Sample = map[string]any{"subject": s.input, "pools": head(pools, 16), "pools_total": len(pools)}
}

// scanExhaustive: counts 0..70 x 9 kinds (+ the index-less line strip), every pool size
// 1..count+3 plus the default-pool variant. In the thorough tier the whole table is
// repeated ten times with other meshes, yields and schedules.
func scanExhaustive(c *run.Ctx) run.Result {
	var res run.Result
	j := c.Case % exhaustivePerRep
	var s *subject
	if j == exhaustivePerRep-1 {
		s = buildSubject(c.Rng, kPrimStrip, -1)
	} else {
		s = buildSubject(c.Rng, kind(j%exhaustiveKinds), j/exhaustiveKinds)
	}
	var pools []int
	for p := 1; p <= s.n+3; p++ {
		pools = append(pools, p)
	}
	pools = append(pools, -1)
	rp := 0
	if s.n >= 4 {
		rp = 2 + c.Rng.Intn(3)
	}
	runSubject(c, &res, s, pools, rp, 5)
	return res
}

func drawLarge(r *rand.Rand, max int) int {
	// log-uniform in (70, max]
	lo, hi := math.Log(71), math.Log(float64(max))
	return int(math.Exp(lo + r.Float64()*(hi-lo)))
}

func largePools(r *rand.Rand, n int, maxPool int) []int {
	set := map[int]bool{}
	add := func(p int) {
		if p >= 1 && p <= maxPool {
			set[p] = true
		}
	}
	add(2)
	add(3)
	add(runtime.NumCPU())
	add(2 + r.Intn(63))
	add(2 + r.Intn(63))
	add([]int{7, 13, 31, 61, 127, 251, 509, 1021}[r.Intn(8)])
	add(n - 1)
	add(n)
	add(n + 1)
	add(n + 3)
	add(n/2 + 1)
	add(2*n + 1)
	var out []int
	for p := range set {
		out = append(out, p)
	}
	sort.Ints(out)
	out = append(out, -1)
	return out
}

// scanLarge: counts 71..20 000 (thorough: ..300 000), drawn pool sizes including
// count-1, count, count+1, count+3, 2*count+1 (when affordable), primes and NumCPU.
func scanLarge(c *run.Ctx) run.Result {
	var res run.Result
	r := c.Rng
	max := 20000
	if c.Tier == "thorough" && r.Intn(4) == 0 {
		max = 300000
	}
	n := drawLarge(r, max)
	s := buildSubject(r, kind(r.Intn(exhaustiveKinds)), n)
	pools := largePools(r, s.n, 45000)
	runSubject(c, &res, s, pools, 2+r.Intn(15), 3)
	if n >= 10000 {
		res.Count("scan_large_max_count_bucket", 1)
	}
	return res
}

// scanRace: reduced (a) for the -race build.
func scanRace(c *run.Ctx) run.Result {
	var res run.Result
	r := c.Rng
	n := r.Intn(260)
	if r.Intn(6) == 0 {
		n = drawLarge(r, 4000)
	}
	k := kind(c.Case % exhaustiveKinds)
	s := buildSubject(r, k, n)
	set := map[int]bool{2: true, 3: true, runtime.NumCPU(): true, s.n + 1: true, 2 + r.Intn(30): true}
	if s.n > 1 {
		set[s.n-1] = true
		set[s.n] = true
	}
	var pools []int
	for p := range set {
		if p >= 1 {
			pools = append(pools, p)
		}
	}
	sort.Ints(pools)
	pools = append(pools, -1)
	runSubject(c, &res, s, pools, 4, 2)
	return res
}

var _ = strings.Join
