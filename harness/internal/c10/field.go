package c10

import (
	"fmt"
	"math"
	"math/rand"
	"runtime"
	"sort"
	"strings"
	"sync"
	"sync/atomic"
	"time"

	"github.com/EliCDavis/polyform/math/geometry"
	"github.com/EliCDavis/polyform/math/sample"
	"github.com/EliCDavis/polyform/math/sdf"
	"github.com/EliCDavis/polyform/modeling"
	"github.com/EliCDavis/polyform/modeling/marching"
	"github.com/EliCDavis/vector/vector3"
	"polyverif/internal/run"
)

// ---------------------------------------------------------------------------
// scene description (JSON-able: it is the witness of a violation)
// ---------------------------------------------------------------------------

const blockCells = 100 // marchingSectionSize: a canvas block is 100^3 cells

type fieldDesc struct {
	Kind  string     `json:"kind"` // ellipsoid | slab | gyroid | lattice
	Lo    [3]float64 `json:"lo"`   // domain in canvas cells (world = cells / cpu)
	Hi    [3]float64 `json:"hi"`
	Attrs []string   `json:"attrs"`
	P     [6]float64 `json:"p"` // shape parameters
	Salt  uint32     `json:"salt"`
	Yield uint32     `json:"yield_mask"`
	// DelayAttr: the first evaluation of this attribute's function in every Add* call sleeps
	// DelayUS microseconds, so that one job is reliably the last to finish.
	// seam kinds: centre and radii / half sizes in canvas cells
	C         [3]float64 `json:"c,omitempty"`
	R         [3]float64 `json:"r,omitempty"`
	DelayAttr string     `json:"delay_attr,omitempty"`
	DelayUS   int        `json:"delay_us,omitempty"`
	blocks    [3][2]int  // predicted block range per axis
	// pf kinds: polyform's own function (one instance per Add* call, shared by all attributes and workers)
	base sample.Vec3ToFloat
}

type scene struct {
	CPU     float64     `json:"cubes_per_unit"`
	Cutoff  float64     `json:"cutoff"`
	Anchor  [3]int      `json:"anchor_block"`
	Fields  []fieldDesc `json:"fields"`
	Attrs   []string    `json:"attrs"`
	Aligned bool        `json:"aligned,omitempty"`
	// derived
	blocksPerAxis [3]int
	blocks        int
	latticeOnly   map[string]bool
	overlap       bool
	alignedBounds int
	exactBounds   int // canvas bounds that are exactly a multiple of the block size
	exactUpper    int // … of which UPPER bounds: the block that starts there gets an empty sample range
}

var attrPalette = []string{modeling.PositionAttribute, "density", "aux"}

// genScene draws a scene whose union of blocks times attributes stays within budget.
func genScene(r *rand.Rand, budget int, maxFields int) *scene {
	for {
		// cutoffs above 0 too: C10 is about equality, not closedness (unwritten cells hold 0 and
		// are then "inside")
		// cubes per unit: powers of two, and plenty of values whose reciprocal is inexact
		sc := &scene{CPU: []float64{4, 8, 16, 3, 5, 6, 7, 10, 12, 20, 49, 100, 2.5, 7.3, 5, 10}[r.Intn(16)], Cutoff: []float64{0, 0, 0, -0.05, -0.2, 0.3, 0.5}[r.Intn(7)]}
		// aligned scenes: the canvas bounds of the domains (floor(min*cpu)-1, ceil(max*cpu)+1)
		// are placed exactly on, one below or one above a multiple of the block size
		sc.Aligned = r.Intn(2) == 0
		if sc.Aligned && r.Intn(4) > 0 {
			// a cutoff above 0 puts a surface into the outermost cell layer of every written region
			sc.Cutoff = []float64{0.3, 0.5}[r.Intn(2)]
		}
		for a := 0; a < 3; a++ {
			sc.Anchor[a] = r.Intn(4) - 1 // block boundary at Anchor*100 cells; -1,0 give negative coordinates
		}
		nAttr := 1
		if x := r.Intn(20); x >= 15 {
			nAttr = 3
		} else if x >= 8 {
			nAttr = 2
		}
		sc.Attrs = attrPalette[:nAttr]
		// which axes straddle the anchor boundary; at most one axis may run through a whole block (3 blocks)
		var straddle [3]int // 0 inside, 1 straddle (2 blocks), 2 long (3 blocks)
		for a := 0; a < 3; a++ {
			switch x := r.Intn(10); {
			case x < 6:
				straddle[a] = 1
			case x == 9:
				straddle[a] = 2
			}
		}
		nf := 1 + r.Intn(maxFields)
		// harness closures, and polyform's OWN composite fields (CombineFields / Field.Combine of
		// marching.Sphere/Box/Line, MultiSegmentLine, VarryingThicknessLine): there the code
		// that the adders' workers share is polyform's, not a user callback
		kinds := []string{"ellipsoid", "slab", "gyroid", "lattice", "pf-combine", "pf-multiline", "pf-varline", "pf-combine"}
		sceneKind := ""
		if r.Intn(3) == 0 {
			sceneKind = "lattice" // lattice-only scenes get the coordinate-wise comparison
		}
		for f := 0; f < nf; f++ {
			fd := fieldDesc{Kind: kinds[r.Intn(len(kinds))], Salt: r.Uint32(), Yield: []uint32{0xffffffff, 0x3ff, 0x3f}[r.Intn(3)]}
			if sceneKind != "" {
				fd.Kind = sceneKind
			}
			for a := 0; a < 3; a++ {
				B := float64(sc.Anchor[a] * blockCells)
				jl, jh := r.Float64(), r.Float64()
				switch {
				case straddle[a] == 1 && (f == 0 || r.Intn(5) > 0):
					fd.Lo[a] = B - float64(4+r.Intn(19)) - jl
					fd.Hi[a] = B + float64(4+r.Intn(19)) + jh
				case straddle[a] == 2 && f == 0:
					fd.Lo[a] = B - float64(4+r.Intn(12)) - jl
					fd.Hi[a] = B + blockCells + float64(4+r.Intn(12)) + jh
				case straddle[a] == 2:
					// later fields sit on one of the two boundaries of the long axis
					B2 := B + float64(r.Intn(2)*blockCells)
					fd.Lo[a] = B2 - float64(4+r.Intn(12)) - jl
					fd.Hi[a] = B2 + float64(4+r.Intn(12)) + jh
				default:
					// inside one block: the one above or (if this axis straddles elsewhere) below the anchor
					base := B
					if straddle[a] != 0 && r.Intn(2) == 0 {
						base = B - blockCells
					}
					lo := base + float64(6+r.Intn(40))
					fd.Lo[a] = lo + jl
					fd.Hi[a] = lo + float64(8+r.Intn(24)) + jh
				}
			}
			if sc.Aligned && (f == 0 || r.Intn(3) > 0) {
				for a := 0; a < 3; a++ {
					delta := []float64{0, 0, -1, 1}[r.Intn(4)]
					switch x := r.Intn(20); {
					case x < 8:
						// upper canvas bound ceil(hi)+1 = 100k+delta (delta = 0: the sample range of
						// block k is empty, the block is still allocated)
						k := math.Ceil(fd.Hi[a] / blockCells)
						nh := k*blockCells + delta - 1.5
						fd.Lo[a] += nh - fd.Hi[a]
						fd.Hi[a] = nh
						sc.alignedBounds++
					case x < 13:
						// lower canvas bound floor(lo)-1 = 100k+delta
						k := math.Floor(fd.Lo[a] / blockCells)
						nl := k*blockCells + delta + 1.5
						fd.Hi[a] += nl - fd.Lo[a]
						fd.Lo[a] = nl
						sc.alignedBounds++
					}
				}
			}
			// attributes of this field: non-empty subset; field 0 always carries Position
			for i, a := range sc.Attrs {
				// polyform's composite fields carry every attribute of the scene: all of them map
				// to ONE polyform closure, which more workers then sample at the same time
				if (i == 0 && f == 0) || r.Intn(10) < 7 || strings.HasPrefix(fd.Kind, "pf-") {
					fd.Attrs = append(fd.Attrs, a)
				}
			}
			if len(fd.Attrs) == 0 {
				fd.Attrs = []string{sc.Attrs[r.Intn(len(sc.Attrs))]}
			}
			for i := range fd.P {
				fd.P[i] = r.Float64()
			}
			if r.Intn(4) != 0 {
				fd.DelayAttr = fd.Attrs[0]
				if r.Intn(10) >= 7 {
					fd.DelayAttr = fd.Attrs[r.Intn(len(fd.Attrs))]
				}
				fd.DelayUS = 3000 + r.Intn(25000)
			}
			sc.Fields = append(sc.Fields, fd)
		}
		sc.derive()
		used := map[string]bool{}
		for _, f := range sc.Fields {
			for _, a := range f.Attrs {
				used[a] = true
			}
		}
		if sc.blocks*len(used) <= budget {
			var attrs []string
			for _, a := range sc.Attrs {
				if used[a] {
					attrs = append(attrs, a)
				}
			}
			sc.Attrs = attrs
			return sc
		}
	}
}

func (fd *fieldDesc) isPF() bool { return strings.HasPrefix(fd.Kind, "pf-") }

// pfField builds one of polyform's own composite fields inside the region Lo..Hi
// (deterministic in the description: seeded by Salt). The Domain is polyform's.
func (fd *fieldDesc) pfField(cpu float64) marching.Field {
	r := rand.New(rand.NewSource(int64(fd.Salt) + 1))
	var lo, size [3]float64
	minSide := math.Inf(1)
	for a := 0; a < 3; a++ {
		lo[a] = fd.Lo[a] / cpu
		size[a] = (fd.Hi[a] - fd.Lo[a]) / cpu
		minSide = math.Min(minSide, size[a])
	}
	at := func(fx, fy, fz float64) vector3.Float64 {
		return vector3.New(lo[0]+fx*size[0], lo[1]+fy*size[1], lo[2]+fz*size[2])
	}
	pt := func() vector3.Float64 { return at(0.15+0.7*r.Float64(), 0.15+0.7*r.Float64(), 0.15+0.7*r.Float64()) }
	path := func() []vector3.Float64 {
		// from one corner region to the opposite one (crosses whatever block boundary the region straddles)
		pts := []vector3.Float64{at(0.1+0.1*r.Float64(), 0.1+0.15*r.Float64(), 0.1+0.2*r.Float64())}
		for k := r.Intn(3) + 1; k > 0; k-- {
			pts = append(pts, pt())
		}
		return append(pts, at(0.9-0.1*r.Float64(), 0.9-0.15*r.Float64(), 0.9-0.2*r.Float64()))
	}
	switch fd.Kind {
	case "pf-seam-sphere":
		return marching.Sphere(vector3.New(fd.C[0]/cpu, fd.C[1]/cpu, fd.C[2]/cpu), fd.R[0]/cpu, 1)
	case "pf-seam-box":
		return marching.Box(vector3.New(fd.C[0]/cpu, fd.C[1]/cpu, fd.C[2]/cpu), vector3.New(2*fd.R[0]/cpu, 2*fd.R[1]/cpu, 2*fd.R[2]/cpu), 1)
	case "pf-multiline":
		return marching.MultiSegmentLine(path(), minSide*(0.07+0.06*r.Float64()), 1)
	case "pf-varline":
		var lp []sdf.LinePoint
		for _, p := range path() {
			lp = append(lp, sdf.LinePoint{Point: p, Radius: minSide * (0.05 + 0.1*r.Float64())})
		}
		return marching.VarryingThicknessLine(lp, 1+r.Float64())
	}
	fields := []marching.Field{marching.Sphere(at(0.5, 0.5, 0.5), minSide*(0.28+0.15*r.Float64()), 1)}
	extra := 2 + r.Intn(4)
	if fd.Kind == "pf-stress" {
		extra = 8 + r.Intn(5) // many sub-fields spread over the region: element lists differ from place to place
	}
	for n := extra; n > 0; n-- {
		switch r.Intn(3) {
		case 0:
			fields = append(fields, marching.Sphere(pt(), minSide*(0.15+0.15*r.Float64()), 1+0.4*r.Float64()))
		case 1:
			fields = append(fields, marching.Box(pt(), vector3.New(minSide*(0.2+0.3*r.Float64()), minSide*(0.15+0.3*r.Float64()), minSide*(0.25+0.3*r.Float64())), 0.4+0.6*r.Float64()))
		default:
			fields = append(fields, marching.Line(pt(), pt(), minSide*(0.06+0.06*r.Float64()), 1))
		}
	}
	if r.Intn(2) == 0 {
		return fields[0].Combine(fields[1:]...)
	}
	return marching.CombineFields(fields...)
}

func (fd *fieldDesc) domain(cpu float64) geometry.AABB {
	if fd.isPF() {
		return fd.pfField(cpu).Domain
	}
	return geometry.NewAABBFromPoints(
		vector3.New(fd.Lo[0]/cpu, fd.Lo[1]/cpu, fd.Lo[2]/cpu),
		vector3.New(fd.Hi[0]/cpu, fd.Hi[1]/cpu, fd.Hi[2]/cpu))
}

// derive predicts (for cost control, signatures and the non-triviality rule only) which
// blocks the canvas will allocate: floor(min*cpu)-1 .. ceil(max*cpu)+1, block = floor(cell/100).
func (sc *scene) derive() {
	var lo, hi [3]int
	first := true
	sc.latticeOnly = map[string]bool{}
	sc.exactBounds, sc.exactUpper = 0, 0
	cnt := map[string]int{}
	for i := range sc.Fields {
		fd := &sc.Fields[i]
		d := fd.domain(sc.CPU)
		mn, mx := d.Min(), d.Max()
		mins := [3]float64{mn.X(), mn.Y(), mn.Z()}
		maxs := [3]float64{mx.X(), mx.Y(), mx.Z()}
		for a := 0; a < 3; a++ {
			cl, ch := int(math.Floor(mins[a]*sc.CPU))-1, int(math.Ceil(maxs[a]*sc.CPU))+1
			if cl%blockCells == 0 || ch%blockCells == 0 {
				sc.exactBounds++
			}
			if ch%blockCells == 0 {
				sc.exactUpper++
			}
			l := int(math.Floor(float64(cl) / blockCells))
			h := int(math.Floor(float64(ch) / blockCells))
			fd.blocks[a] = [2]int{l, h}
			if first || l < lo[a] {
				lo[a] = l
			}
			if first || h > hi[a] {
				hi[a] = h
			}
		}
		first = false
		for _, a := range fd.Attrs {
			cnt[a]++
			if _, ok := sc.latticeOnly[a]; !ok {
				sc.latticeOnly[a] = true
			}
			if fd.Kind != "lattice" {
				sc.latticeOnly[a] = false
			}
		}
	}
	sc.blocks = 1
	for a := 0; a < 3; a++ {
		sc.blocksPerAxis[a] = hi[a] - lo[a] + 1
		sc.blocks *= sc.blocksPerAxis[a]
	}
	for _, n := range cnt {
		if n > 1 {
			sc.overlap = true
		}
	}
}

func (sc *scene) sig() string {
	var kinds []string
	for _, f := range sc.Fields {
		kinds = append(kinds, f.Kind)
	}
	sort.Strings(kinds)
	return fmt.Sprintf("%s/blocks%dx%dx%d/attrs%d/cpu%g/cut%g", strings.Join(kinds, "+"), sc.blocksPerAxis[0], sc.blocksPerAxis[1], sc.blocksPerAxis[2], len(sc.Attrs), sc.CPU, sc.Cutoff)
}

// ---------------------------------------------------------------------------
// field functions: pure, deterministic, asymmetric in x/y/z
// ---------------------------------------------------------------------------

// probe records (atomics only) in which order blocks are first touched and how many
// evaluations were in flight at once. Evidence only.
type probe struct {
	cpu      float64
	anchor   [3]int
	touched  [343]int32 // 7^3 blocks around the anchor
	order    [343]int32
	cursor   int32
	inflight int32
	maxSeen  int32
	evals    int64
	// per Add* call (= per field of the scene): evaluations so far, and what the harness saw
	// at the moment the call returned
	perCall          [8]int64
	atReturn         [8]int64
	inflightAtReturn [8]int32
	calls            int
	// sample positions: the sequential adder's probe records lattice index -> position bits
	// (single goroutine); a parallel adder's probe looks every sample up there (the map is
	// read-only by then) and remembers the first position that is not bit-identical
	record  bool
	samples map[[3]int32]*posEntry
	ref     *probe
	slot    int // which hit flag of the reference's entries this probe sets (0 or 1)
	both    int64
	onlyPar int64
	posBad  int64
	badMu   sync.Mutex
	badMsg  string
}

type posEntry struct {
	bits [3]uint64
	hit  [2]int32
}

func (p *probe) sample(v vector3.Float64) {
	idx := [3]int32{int32(math.Round(v.X() * p.cpu)), int32(math.Round(v.Y() * p.cpu)), int32(math.Round(v.Z() * p.cpu))}
	bits := [3]uint64{math.Float64bits(v.X()), math.Float64bits(v.Y()), math.Float64bits(v.Z())}
	if p.record {
		if p.samples == nil {
			p.samples = map[[3]int32]*posEntry{}
		}
		if e := p.samples[idx]; e == nil {
			p.samples[idx] = &posEntry{bits: bits}
		} else if e.bits != bits && p.badMsg == "" {
			p.posBad++
			p.badMsg = fmt.Sprintf("lattice point %v was handed to the field functions at two different positions by the sequential adder itself", idx)
		}
		return
	}
	if p.ref == nil {
		return
	}
	e := p.ref.samples[idx]
	if e == nil {
		atomic.AddInt64(&p.onlyPar, 1)
		return
	}
	atomic.AddInt64(&p.both, 1)
	atomic.StoreInt32(&e.hit[p.slot], 1)
	if e.bits != bits {
		if atomic.AddInt64(&p.posBad, 1) == 1 {
			p.badMu.Lock()
			p.badMsg = fmt.Sprintf("lattice point %v (cubes per unit %v): the sequential AddField hands the field function the position (%.17g, %.17g, %.17g), this adder hands it (%.17g, %.17g, %.17g) [bits %016x %016x %016x vs %016x %016x %016x]",
				idx, p.cpu, math.Float64frombits(e.bits[0]), math.Float64frombits(e.bits[1]), math.Float64frombits(e.bits[2]), v.X(), v.Y(), v.Z(), e.bits[0], e.bits[1], e.bits[2], bits[0], bits[1], bits[2])
			p.badMu.Unlock()
		}
	}
}

// positions reports this (parallel) probe's comparison with the sequential samples.
func (p *probe) positions(res *run.Result, site, input string, wit any) {
	both, only, bad := atomic.LoadInt64(&p.both), atomic.LoadInt64(&p.onlyPar), atomic.LoadInt64(&p.posBad)
	res.Count("field_sample_positions_compared", both)
	res.Count("lattice_points_sampled_by_both", both)
	res.Count("lattice_points_only_parallel", only)
	notHit := 0
	for _, e := range p.ref.samples {
		if atomic.LoadInt32(&e.hit[p.slot]) == 0 {
			notHit++
		}
	}
	res.Count("lattice_points_only_sequential", int64(notHit))
	if bad > 0 {
		p.badMu.Lock()
		msg := p.badMsg
		p.badMu.Unlock()
		res.Violate("sample-position-differs", site, input, fmt.Sprintf("%d of %d samples at lattice points that both adders sample are not bit-identical; first: %s", bad, both, msg), wit)
	}
}

// returned is called by the harness right after Add* call number i returned.
func (p *probe) returned(i int) {
	p.atReturn[i] = atomic.LoadInt64(&p.perCall[i])
	p.inflightAtReturn[i] = atomic.LoadInt32(&p.inflight)
	p.calls = i + 1
}

// late reports field-function activity that outlived the Add* call that caused it: the
// sequential AddField has finished every evaluation (and every accumulation) when it returns.
func (p *probe) late() string {
	for i := 0; i < p.calls; i++ {
		now := atomic.LoadInt64(&p.perCall[i])
		if p.inflightAtReturn[i] != 0 || now != p.atReturn[i] {
			return fmt.Sprintf("call %d (field %d of the scene): %d field-function evaluation(s) were still in flight when the call returned and %d evaluation(s) of its functions started or finished after it returned (%d at return, %d at the end of the case)",
				i, i, p.inflightAtReturn[i], now-p.atReturn[i], p.atReturn[i], now)
		}
	}
	return ""
}

func (p *probe) enter(v vector3.Float64, call int) {
	atomic.AddInt64(&p.perCall[call&7], 1)
	n := atomic.AddInt32(&p.inflight, 1)
	for {
		m := atomic.LoadInt32(&p.maxSeen)
		if n <= m || atomic.CompareAndSwapInt32(&p.maxSeen, m, n) {
			break
		}
	}
	atomic.AddInt64(&p.evals, 1)
	p.sample(v)
	bx := int(math.Floor(v.X()*p.cpu/blockCells)) - p.anchor[0] + 3
	by := int(math.Floor(v.Y()*p.cpu/blockCells)) - p.anchor[1] + 3
	bz := int(math.Floor(v.Z()*p.cpu/blockCells)) - p.anchor[2] + 3
	if bx < 0 || bx > 6 || by < 0 || by > 6 || bz < 0 || bz > 6 {
		return
	}
	k := (bz*7+by)*7 + bx
	if atomic.LoadInt32(&p.touched[k]) == 0 && atomic.CompareAndSwapInt32(&p.touched[k], 0, 1) {
		c := atomic.AddInt32(&p.cursor, 1) - 1
		if int(c) < len(p.order) {
			atomic.StoreInt32(&p.order[c], int32(k))
		}
	}
}

func (p *probe) leave() { atomic.AddInt32(&p.inflight, -1) }

func (p *probe) orderString() string {
	n := int(atomic.LoadInt32(&p.cursor))
	if n > len(p.order) {
		n = len(p.order)
	}
	var b strings.Builder
	for i := 0; i < n; i++ {
		fmt.Fprintf(&b, "%d.", atomic.LoadInt32(&p.order[i]))
	}
	return b.String()
}

func hash3(x, y, z int64, salt uint32) uint32 {
	h := uint64(salt)*0x9E3779B97F4A7C15 + uint64(x)*0xBF58476D1CE4E5B9
	h ^= h >> 29
	h += uint64(y) * 0x94D049BB133111EB
	h ^= h >> 32
	h += uint64(z) * 0xD6E8FEB86659FD93
	h *= 0xFF51AFD7ED558CCD
	h ^= h >> 33
	return uint32(h)
}

// function builds the scalar function of one field for one attribute. ai (attribute
// ordinal) perturbs the shape so that attributes of one field are different surfaces.
func (fd *fieldDesc) function(cpu float64, ai int, pr *probe, call int, attr string) sample.Vec3ToFloat {
	lo, hi := fd.Lo, fd.Hi
	var c, half [3]float64 // world units
	for a := 0; a < 3; a++ {
		c[a] = (lo[a] + hi[a]) / 2 / cpu
		half[a] = (hi[a] - lo[a]) / 2 / cpu
	}
	P := fd.P
	salt := fd.Salt + uint32(ai)*7919
	yield := fd.Yield
	maybeYield := func(v vector3.Float64) {
		if yield != 0xffffffff {
			h := hash3(int64(math.Float64bits(v.X())>>20), int64(math.Float64bits(v.Y())>>20), int64(math.Float64bits(v.Z())>>20), salt)
			if h&yield == 0 {
				runtime.Gosched()
			}
		}
	}
	var f func(v vector3.Float64) float64
	switch fd.Kind {
	case "ellipsoid":
		// distinct radii per axis, centre off the domain centre
		rx := half[0] * (0.55 + 0.35*P[0])
		ry := half[1] * (0.45 + 0.40*P[1])
		rz := half[2] * (0.60 + 0.30*P[2])
		cx := c[0] + half[0]*0.2*(P[3]-0.5)
		cy := c[1] + half[1]*0.2*(P[4]-0.5)
		cz := c[2] + half[2]*0.2*(P[5]-0.5)
		s := 1 + float64(ai)*0.25
		f = func(v vector3.Float64) float64 {
			dx, dy, dz := (v.X()-cx)/rx, (v.Y()-cy)/ry, (v.Z()-cz)/rz
			return (math.Sqrt(dx*dx+dy*dy+dz*dz) - 1) * s
		}
	case "slab":
		// tilted half-space with a ripple: the surface runs into the domain boundary
		nx, ny, nz := 1.0+P[0], 0.37+0.3*P[1], -0.61-0.5*P[2]
		k := 2 + 4*P[3]
		off := (P[4] - 0.5) * half[0] * 0.5
		f = func(v vector3.Float64) float64 {
			return nx*(v.X()-c[0]) + ny*(v.Y()-c[1]) + nz*(v.Z()-c[2]) + off + 0.08*math.Sin(k*v.X()+1.7*v.Y()-0.3*v.Z()+float64(ai))
		}
	case "gyroid":
		a, b, g := 2.1+3*P[0], 3.3+3*P[1], 4.7+3*P[2]
		sh := (P[3] - 0.5) * 0.6
		f = func(v vector3.Float64) float64 {
			x, y, z := a*v.X(), b*v.Y()+0.5, g*v.Z()+1.1+float64(ai)
			return math.Sin(x)*math.Cos(y) + math.Sin(y)*math.Cos(z) + math.Sin(z)*math.Cos(x) + sh
		}
	case "pf-combine", "pf-multiline", "pf-varline", "pf-stress", "pf-seam-sphere", "pf-seam-box":
		f = fd.base
	case "tie-sphere":
		// world-space sphere with integer centre and radius: lattice points lie EXACTLY on it
		cx, cy, cz, rw := fd.C[0]/cpu, fd.C[1]/cpu, fd.C[2]/cpu, fd.R[0]/cpu
		f = func(v vector3.Float64) float64 {
			dx, dy, dz := v.X()-cx, v.Y()-cy, v.Z()-cz
			return math.Sqrt(dx*dx+dy*dy+dz*dz) - rw
		}
	case "tie-box":
		// grid-aligned box with integer centre and half sizes
		cx, cy, cz := fd.C[0]/cpu, fd.C[1]/cpu, fd.C[2]/cpu
		hx, hy, hz := fd.R[0]/cpu, fd.R[1]/cpu, fd.R[2]/cpu
		f = func(v vector3.Float64) float64 {
			return math.Max(math.Abs(v.X()-cx)-hx, math.Max(math.Abs(v.Y()-cy)-hy, math.Abs(v.Z()-cz)-hz))
		}
	case "seam-blob":
		C, R := fd.C, fd.R
		f = func(v vector3.Float64) float64 {
			dx, dy, dz := (v.X()*cpu-C[0])/R[0], (v.Y()*cpu-C[1])/R[1], (v.Z()*cpu-C[2])/R[2]
			return math.Sqrt(dx*dx+dy*dy+dz*dz) - 1
		}
	default: // lattice: a value from {-1.5,-0.5,0.5,1.5} per lattice point, by hash of its integer coordinates
		vals := [4]float64{-1.5, -0.5, 0.5, 1.5}
		bias := uint32(P[0] * 3) // how often "inside"
		f = func(v vector3.Float64) float64 {
			ix, iy, iz := int64(math.Round(v.X()*cpu)), int64(math.Round(v.Y()*cpu)), int64(math.Round(v.Z()*cpu))
			// two cells inside the domain boundary everything is outside, so that the surface is bounded
			if float64(ix) < lo[0]+2 || float64(ix) > hi[0]-2 || float64(iy) < lo[1]+2 || float64(iy) > hi[1]-2 || float64(iz) < lo[2]+2 || float64(iz) > hi[2]-2 {
				return 1.5
			}
			// coarse blobs (hash of the 4-cell super lattice) mixed with single-cell noise
			h := hash3(ix>>2, iy>>2, iz>>2, salt)
			if h&3 <= bias&3 && h&0x30 != 0 {
				return vals[(hash3(ix, iy, iz, salt)>>8)&1] // inside: -1.5 or -0.5
			}
			return vals[2+((hash3(ix, iy, iz, salt)>>9)&1)]
		}
	}
	var delayed int32
	delay := time.Duration(0)
	if attr == fd.DelayAttr {
		delay = time.Duration(fd.DelayUS) * time.Microsecond
	}
	return func(v vector3.Float64) float64 {
		if pr != nil {
			pr.enter(v, call)
			defer pr.leave()
		}
		if delay > 0 && atomic.CompareAndSwapInt32(&delayed, 0, 1) {
			time.Sleep(delay) // a schedule perturbation, not a clock read: makes this job the late one
		}
		maybeYield(v)
		return f(v)
	}
}

func (sc *scene) field(i int, pr *probe) marching.Field {
	fd := &sc.Fields[i]
	fns := map[string]sample.Vec3ToFloat{}
	var pf marching.Field
	if fd.isPF() {
		cp := *fd
		pf = fd.pfField(sc.CPU)
		cp.base = pf.Float1Functions[modeling.PositionAttribute]
		fd = &cp
	}
	for _, a := range fd.Attrs {
		ai := 0
		for k, n := range attrPalette {
			if n == a {
				ai = k
			}
		}
		fns[a] = fd.function(sc.CPU, ai, pr, i, a)
	}
	if fd.isPF() {
		return marching.Field{Domain: pf.Domain, Float1Functions: fns}
	}
	return marching.Field{Domain: fd.domain(sc.CPU), Float1Functions: fns}
}

// ---------------------------------------------------------------------------
// triangle multisets
// ---------------------------------------------------------------------------

// A marched mesh is read as the list of its triangles (corner positions). Two meshes are
// compared as multisets of triangles whose corners are identified up to the welds that
// March applies: a 4-decimal weld in cell units across blocks followed by a 3-decimal weld
// in world units, both "first vertex seen wins" over a block order that is a Go map order
// even in the sequential code. The surviving representative of a corner therefore moves by
// up to ~1.03e-3 per coordinate between two runs on identical canvas data, and a sliver
// triangle can be dropped in one run and kept in the other. So corners of BOTH meshes are
// clustered together (single linkage, Chebyshev distance <= clusterTol), triangles become
// triples of cluster ids (rotation-canonical, winding kept), triangles with two corners in
// one cluster are ignored on both sides, and the two multisets must be equal.
const clusterTol = 2.5e-3

type triSet struct {
	n     int
	tris  [][9]float64
	err   string
	empty bool // sequential March panicked on an empty surface
}

// triangles reads a marched mesh through its public accessors.
func triangles(m modeling.Mesh, attr string) *triSet {
	ts := &triSet{}
	if m.Topology() != modeling.TriangleTopology {
		ts.err = "topology is " + m.Topology().String()
		return ts
	}
	idx := m.Indices()
	if idx.Len()%3 != 0 {
		ts.err = fmt.Sprintf("index count %d is not a multiple of 3", idx.Len())
		return ts
	}
	if idx.Len() == 0 {
		return ts
	}
	if !m.HasFloat3Attribute(attr) {
		ts.err = "marched mesh has triangles but no float3 attribute " + attr
		return ts
	}
	pos := m.Float3Attribute(attr)
	L := pos.Len()
	ts.tris = make([][9]float64, 0, idx.Len()/3)
	for t := 0; t < idx.Len(); t += 3 {
		var p [9]float64
		for c := 0; c < 3; c++ {
			vi := idx.At(t + c)
			if vi < 0 || vi >= L {
				ts.err = fmt.Sprintf("index %d out of range [0,%d)", vi, L)
				return ts
			}
			v := pos.At(vi)
			p[3*c], p[3*c+1], p[3*c+2] = v.X(), v.Y(), v.Z()
		}
		ts.tris = append(ts.tris, p)
		ts.n++
	}
	return ts
}

type clusterer struct {
	ids    map[[3]float64]int
	pts    [][3]float64
	parent []int
}

func (c *clusterer) add(p [3]float64) {
	if _, ok := c.ids[p]; !ok {
		c.ids[p] = len(c.pts)
		c.pts = append(c.pts, p)
	}
}

func (c *clusterer) find(i int) int {
	for c.parent[i] != i {
		c.parent[i] = c.parent[c.parent[i]]
		i = c.parent[i]
	}
	return i
}

func (c *clusterer) build() {
	c.parent = make([]int, len(c.pts))
	for i := range c.parent {
		c.parent[i] = i
	}
	type cell [3]int64
	grid := map[cell][]int{}
	key := func(p [3]float64) cell {
		return cell{int64(math.Floor(p[0] / clusterTol)), int64(math.Floor(p[1] / clusterTol)), int64(math.Floor(p[2] / clusterTol))}
	}
	for i, p := range c.pts {
		k := key(p)
		for dx := int64(-1); dx <= 1; dx++ {
			for dy := int64(-1); dy <= 1; dy++ {
				for dz := int64(-1); dz <= 1; dz++ {
					for _, j := range grid[cell{k[0] + dx, k[1] + dy, k[2] + dz}] {
						q := c.pts[j]
						if math.Abs(p[0]-q[0]) <= clusterTol && math.Abs(p[1]-q[1]) <= clusterTol && math.Abs(p[2]-q[2]) <= clusterTol {
							if a, b := c.find(i), c.find(j); a != b {
								c.parent[a] = b
							}
						}
					}
				}
			}
		}
		grid[k] = append(grid[k], i)
	}
}

type triKey [3]int

func (c *clusterer) keyOf(t *[9]float64) (k triKey, rot int, degenerate bool) {
	var id [3]int
	for j := 0; j < 3; j++ {
		id[j] = c.find(c.ids[[3]float64{t[3*j], t[3*j+1], t[3*j+2]}])
	}
	if id[0] == id[1] || id[1] == id[2] || id[0] == id[2] {
		return k, 0, true
	}
	rot = 0
	if id[1] < id[rot] {
		rot = 1
	}
	if id[2] < id[rot] {
		rot = 2
	}
	return triKey{id[rot], id[(rot+1)%3], id[(rot+2)%3]}, rot, false
}

func describeTri(t *[9]float64) string {
	return fmt.Sprintf("(%.4f,%.4f,%.4f)-(%.4f,%.4f,%.4f)-(%.4f,%.4f,%.4f)", t[0], t[1], t[2], t[3], t[4], t[5], t[6], t[7], t[8])
}

// diff returns "" when both meshes are the same triangle multiset. tight: also compare the
// coordinates of matched triangles at 1e-9 (sound only for lattice-only canvases).
func (a *triSet) diff(b *triSet, tight bool) string {
	if a.err != "" || b.err != "" {
		if a.err != b.err {
			return fmt.Sprintf("malformed output: reference %q, other %q", a.err, b.err)
		}
		return ""
	}
	c := &clusterer{ids: map[[3]float64]int{}}
	for _, ts := range []*triSet{a, b} {
		for i := range ts.tris {
			t := &ts.tris[i]
			c.add([3]float64{t[0], t[1], t[2]})
			c.add([3]float64{t[3], t[4], t[5]})
			c.add([3]float64{t[6], t[7], t[8]})
		}
	}
	c.build()
	type entry struct {
		n   int
		rep *[9]float64
		rot int
	}
	count := func(ts *triSet) (map[triKey]*entry, int) {
		m := map[triKey]*entry{}
		slivers := 0
		for i := range ts.tris {
			k, rot, deg := c.keyOf(&ts.tris[i])
			if deg {
				slivers++
				continue
			}
			e := m[k]
			if e == nil {
				e = &entry{rep: &ts.tris[i], rot: rot}
				m[k] = e
			}
			e.n++
		}
		return m, slivers
	}
	ma, sa := count(a)
	mb, sb := count(b)
	var onlyA, onlyB []string
	na, nb := 0, 0
	for k, e := range ma {
		o := 0
		if x := mb[k]; x != nil {
			o = x.n
		}
		if d := e.n - o; d > 0 {
			na += d
			if len(onlyA) < 3 {
				onlyA = append(onlyA, describeTri(e.rep))
			}
		}
	}
	for k, e := range mb {
		o := 0
		if x := ma[k]; x != nil {
			o = x.n
		}
		if d := e.n - o; d > 0 {
			nb += d
			if len(onlyB) < 3 {
				onlyB = append(onlyB, describeTri(e.rep))
			}
		}
	}
	if na+nb > 0 {
		return fmt.Sprintf("triangle multisets differ: reference has %d triangles, other has %d (slivers below %.1e ignored: %d / %d); %d only in the reference (e.g. %v), %d only in the other (e.g. %v)",
			a.n, b.n, clusterTol, sa, sb, na, onlyA, nb, onlyB)
	}
	if tight {
		for k, ea := range ma {
			eb := mb[k]
			for j := 0; j < 9; j++ {
				pa, pb := ea.rep[(j+3*ea.rot)%9], eb.rep[(j+3*eb.rot)%9]
				if math.Abs(pa-pb) > 1e-9 {
					return fmt.Sprintf("triangle %s: coordinate %d is %.12g in the reference and %.12g in the other (lattice canvas, tolerance 1e-9)", describeTri(ea.rep), j, pa, pb)
				}
			}
		}
	}
	return ""
}

// ---------------------------------------------------------------------------
// running a scene
// ---------------------------------------------------------------------------

type adder int

const (
	addSeq adder = iota
	addPar
	addPar2
)

var adderSite = []string{"MarchingCanvas.AddField", "MarchingCanvas.AddFieldParallel", "MarchingCanvas.AddFieldParallel2"}

func (sc *scene) fill(how adder, pr *probe) (cv *marching.MarchingCanvas, p *run.PanicInfo) {
	cv = marching.NewMarchingCanvas(sc.CPU)
	p = run.Try(func() {
		for i := range sc.Fields {
			f := sc.field(i, pr)
			switch how {
			case addSeq:
				cv.AddField(f)
			case addPar:
				cv.AddFieldParallel(f)
			case addPar2:
				cv.AddFieldParallel2(f)
			}
			if pr != nil {
				pr.returned(i)
			}
		}
	})
	return
}

// march runs the sequential or the parallel march of one attribute.
func march(cv *marching.MarchingCanvas, attr string, cutoff float64, parallel bool) (*triSet, *run.PanicInfo) {
	var m modeling.Mesh
	p := run.Try(func() {
		if parallel {
			if attr == modeling.PositionAttribute {
				m = cv.MarchParallel(cutoff)
			} else {
				m = cv.MarchOnAttributeParallel(attr, cutoff)
			}
		} else {
			if attr == modeling.PositionAttribute {
				m = cv.March(cutoff)
			} else {
				m = cv.MarchOnAttribute(attr, cutoff)
			}
		}
	})
	if p != nil {
		if !parallel && strings.Contains(p.Value, "without the attribute") {
			// sequential March on an empty surface (DESIGN §0: not a C10 matter): empty multiset
			return &triSet{empty: true}, nil
		}
		return nil, p
	}
	return triangles(m, attr), nil
}

func (sc *scene) witness() any { return sc }

var marchAttrs = []string{modeling.PositionAttribute}

func (sc *scene) inputClass() string {
	maxA := 0
	for _, f := range sc.Fields {
		if len(f.Attrs) > maxA {
			maxA = len(f.Attrs)
		}
	}
	per := "single-attribute fields"
	if maxA > 1 {
		per = fmt.Sprintf("a field with %d float1 attributes", maxA)
	}
	return fmt.Sprintf("%d field(s), %s, %dx%dx%d blocks, %d attribute(s) on the canvas", len(sc.Fields), per, sc.blocksPerAxis[0], sc.blocksPerAxis[1], sc.blocksPerAxis[2], len(sc.Attrs))
}

// tight: coordinate-wise comparison at 1e-9 is sound when every field feeding the attribute
// is a lattice field (values are multiples of 0.5) and the cutoff is 0: distinct marched
// vertices are then >= 1/18 cell (>= 0.0034 world units at 16 cubes per unit) apart, more
// than a weld cell, so a weld cell never merges two different vertices.
func (sc *scene) tight(attr string) bool {
	return sc.latticeOnly[attr] && sc.Cutoff == 0 && sc.CPU <= 16
}

// manyBlockCases: the first cases of the field phase (so that they start first and overlap
// with the rest) are the many-blocks sub-population.
func manyBlockCases(tier string) int {
	if tier == "thorough" {
		return 12
	}
	return 2
}

// manyBlocks: a long thin wobbling tube along one axis that crosses 2*NumCPU+2.. blocks in a
// row, i.e. more blocks than MarchParallel has workers (runtime.NumCPU()): every worker
// marches several blocks, neighbours included, and the surface crosses every seam. One
// sequential March is the reference for 4 repeated MarchParallel runs on the same canvas and
// for one MarchParallel of a canvas filled by AddFieldParallel (more jobs than workers too).
func manyBlocks(c *run.Ctx) run.Result {
	var res run.Result
	r := c.Rng
	ncpu := runtime.NumCPU()
	n := 2*ncpu + 2 + r.Intn(3)
	axis := c.Case % 3
	cpu := []float64{4, 5, 8}[r.Intn(3)]
	k0 := -r.Intn(n) // first block along the axis: negative and positive block coordinates
	var lo, hi [3]float64
	var centre [3]float64
	for a := 0; a < 3; a++ {
		if a == axis {
			lo[a] = float64(k0*blockCells) + 20 + float64(r.Intn(30)) + r.Float64()
			hi[a] = float64((k0+n-1)*blockCells) + 40 + float64(r.Intn(40)) + r.Float64()
		} else {
			base := float64((r.Intn(3)-1)*blockCells) + 25 + float64(r.Intn(40))
			lo[a] = base + r.Float64()
			hi[a] = base + 18 + r.Float64()
			centre[a] = base + 9.5
		}
	}
	o1, o2 := (axis+1)%3, (axis+2)%3
	r0, ra := 4.2+r.Float64(), 0.8+r.Float64()*0.8
	k1, k2, k3 := 0.011+r.Float64()*0.01, 0.017+r.Float64()*0.01, 0.023+r.Float64()*0.01
	fn := func(v vector3.Float64) float64 {
		p := [3]float64{v.X() * cpu, v.Y() * cpu, v.Z() * cpu} // cell units
		t := p[axis]
		d1 := p[o1] - centre[o1] - 1.7*math.Sin(k1*t)
		d2 := p[o2] - centre[o2] - 1.3*math.Cos(k2*t+0.4)
		return (math.Sqrt(d1*d1+d2*d2*1.21) - (r0 + ra*math.Sin(k3*t+1))) / cpu
	}
	field := marching.Field{
		Domain:          geometry.NewAABBFromPoints(vector3.New(lo[0]/cpu, lo[1]/cpu, lo[2]/cpu), vector3.New(hi[0]/cpu, hi[1]/cpu, hi[2]/cpu)),
		Float1Functions: map[string]sample.Vec3ToFloat{modeling.PositionAttribute: fn},
	}
	desc := map[string]any{"kind": "many-blocks tube", "axis": axis, "blocks_in_a_row": n, "num_cpu": ncpu, "first_block": k0, "cubes_per_unit": cpu,
		"lo_cells": lo, "hi_cells": hi, "radius": []float64{r0, ra}, "k": []float64{k1, k2, k3}}
	res.Sig = fmt.Sprintf("many-blocks/axis%d/%dblocks/cpu%g", axis, n, cpu)
	res.Sample = desc
	input := fmt.Sprintf("one tube over %d blocks in a row along axis %d (NumCPU %d workers)", n, axis, ncpu)
	c.Note("many-blocks " + res.Sig)

	cSeq := marching.NewMarchingCanvas(cpu)
	if p := run.Try(func() { cSeq.AddField(field) }); p != nil {
		res.Inconclusive = "reference: AddField panicked: " + p.Value
		return res
	}
	c.Note("sequential March")
	seq, p := march(cSeq, modeling.PositionAttribute, 0, false)
	if p != nil || seq.err != "" || seq.n == 0 {
		res.Inconclusive = fmt.Sprintf("reference: sequential March unusable (panic %v, err %q, %d triangles)", p != nil, seq.err, seq.n)
		return res
	}
	for rep := 0; rep < 4; rep++ {
		c.Note(fmt.Sprintf("MarchParallel #%d", rep))
		mp, p := march(cSeq, modeling.PositionAttribute, 0, true)
		if p != nil {
			res.Violate("runtime-panic", "MarchingCanvas.MarchOnAttributeParallel", input, "sequential March returned normally; the parallel one panicked: "+p.Value+"\n"+p.Stack, desc)
		} else if d := seq.diff(mp, false); d != "" {
			res.Violate("march-mismatch", "MarchingCanvas.MarchOnAttributeParallel", input, fmt.Sprintf("MarchParallel run %d differs from March on the same canvas: %s", rep, d), desc)
		}
		res.Count("many_block_parallel_marches", 1)
		res.Count("march_parallel_compared", 1)
	}
	// more jobs than workers for the parallel adder as well
	cPar := marching.NewMarchingCanvas(cpu)
	c.Note("AddFieldParallel + MarchParallel")
	if p := run.Try(func() { cPar.AddFieldParallel(field) }); p != nil {
		res.Violate("runtime-panic", adderSite[addPar], input, "AddField returned normally; AddFieldParallel panicked: "+p.Value+"\n"+p.Stack, desc)
	} else if mp, p := march(cPar, modeling.PositionAttribute, 0, true); p != nil {
		res.Violate("runtime-panic", "MarchingCanvas.MarchOnAttributeParallel", input, p.Value+"\n"+p.Stack, desc)
	} else if d := seq.diff(mp, false); d != "" {
		res.Violate("field-accumulate-mismatch", adderSite[addPar], input, "canvas filled by AddFieldParallel (marched in parallel) differs from the canvas filled by AddField (marched sequentially): "+d, desc)
	}
	res.Count("many_block_parallel_marches", 1)
	res.Count("many_block_cases", 1)
	res.Count("many_block_blocks", int64(n))
	if n > ncpu {
		res.Count("many_block_blocks_over_cpus", 1)
	}
	res.Count("field_triangles_compared", int64(seq.n))
	res.SetAdd("gomaxprocs", fmt.Sprint(runtime.GOMAXPROCS(0)))
	res.Nontrivial = n > ncpu && seq.n > 0
	return res
}

// pfStressCases: polyform's CombineFields closure under as much concurrent sampling as the
// adders can produce (after the history cases).
func pfStressCases(tier string) int {
	if tier == "thorough" {
		return 30
	}
	return 4
}

// pfStress: ONE CombineFields field of 9-13 spheres/boxes/lines spread over a region that
// straddles a block corner in x and y (4 blocks), registered under three attributes that all
// map to the same polyform closure (12 jobs sampling one closure at once, no delays). The
// canvas filled by AddField is the reference for three AddFieldParallel fills and one
// AddFieldParallel2 fill on fresh canvases, each observed through the sequential March.
func pfStress(c *run.Ctx) run.Result {
	var res run.Result
	r := c.Rng
	sc := &scene{CPU: []float64{4, 5, 8}[r.Intn(3)], Cutoff: 0, Attrs: attrPalette}
	for a := 0; a < 3; a++ {
		sc.Anchor[a] = r.Intn(4) - 1
	}
	fd := fieldDesc{Kind: "pf-stress", Salt: r.Uint32(), Yield: 0xffffffff, Attrs: attrPalette}
	for a := 0; a < 3; a++ {
		B := float64(sc.Anchor[a] * blockCells)
		if a < 2 {
			fd.Lo[a], fd.Hi[a] = B-float64(14+r.Intn(14))-r.Float64(), B+float64(14+r.Intn(14))+r.Float64()
		} else {
			lo := B + float64(20+r.Intn(30))
			fd.Lo[a], fd.Hi[a] = lo+r.Float64(), lo+float64(24+r.Intn(14))+r.Float64()
		}
	}
	sc.Fields = []fieldDesc{fd}
	sc.derive()
	res.Sig = "pf-stress/" + sc.sig()
	res.Sample = sc
	input := sc.inputClass()
	c.Note("pf-stress " + sc.sig())
	attr := modeling.PositionAttribute
	cSeq, p := sc.fill(addSeq, nil)
	if p != nil {
		res.Inconclusive = "reference: AddField panicked: " + p.Value
		return res
	}
	seq, p := march(cSeq, attr, sc.Cutoff, false)
	if p != nil || seq.err != "" || seq.n == 0 {
		res.Inconclusive = fmt.Sprintf("reference: sequential March unusable (panic %v, err %q, %d triangles)", p != nil, seq.err, seq.n)
		return res
	}
	for rep, how := range []adder{addPar, addPar, addPar, addPar2} {
		c.Note(fmt.Sprintf("fill #%d with %s", rep, adderSite[how]))
		cv, pp := sc.fill(how, nil)
		if pp != nil {
			res.Violate("runtime-panic", adderSite[how], input, pp.Value+"\n"+pp.Stack, sc.witness())
			continue
		}
		got, pm := march(cv, attr, sc.Cutoff, false)
		if pm != nil {
			res.Violate("field-accumulate-mismatch", adderSite[how], input, "March of the AddField canvas succeeds, March of the canvas filled by "+adderSite[how]+" panics: "+pm.Value, sc.witness())
		} else if d := seq.diff(got, false); d != "" {
			res.Violate("field-accumulate-mismatch", adderSite[how], input,
				fmt.Sprintf("fill #%d: canvas filled by %s (polyform's own CombineFields closure, no user code) marches differently from the canvas filled by AddField: %s", rep, adderSite[how], d), sc.witness())
		}
		res.Count("pf_stress_fills_compared", 1)
	}
	res.Count("field_triangles_compared", int64(seq.n))
	res.Count("field_polyform_composite_multi_block", 1)
	res.SetAdd("field_kinds", "pf-stress")
	res.SetAdd("gomaxprocs", fmt.Sprint(runtime.GOMAXPROCS(0)))
	res.Nontrivial = sc.blocks >= 2
	return res
}

// seamCases: "seam-layer-only" shapes (after the pf-stress cases).
func seamCases(tier string) int {
	if tier == "thorough" {
		return 40
	}
	return 4
}

// genSeamScene: small blobs whose ENTIRE below-threshold region touches only lattice layer
// 100k of one or more axes (the first sample layer of the upper block): the surface cubes
// between cell 99 of the lower block and cell 0 of the upper one belong to the LOWER block,
// whose own samples all lie outside. Harness ellipsoids thinner than a cell across the seam
// (faces, edges and corners of the anchor block), polyform's own Sphere and Box whose low
// extreme sits inside the seam layer (cutoff taken into account), plus an ordinary larger
// ellipsoid inside the anchor block. All axes; cutoffs 0 and -0.1.
func genSeamScene(r *rand.Rand) *scene {
	sc := &scene{CPU: []float64{4, 5, 8, 10, 7, 12}[r.Intn(6)], Cutoff: []float64{0, -0.1}[r.Intn(2)], Attrs: attrPalette[:1]}
	for a := 0; a < 3; a++ {
		sc.Anchor[a] = r.Intn(4) - 1
	}
	base := [3]float64{float64(sc.Anchor[0] * blockCells), float64(sc.Anchor[1] * blockCells), float64(sc.Anchor[2] * blockCells)}
	mk := func(kind string, seam [3]bool) fieldDesc {
		fd := fieldDesc{Kind: kind, Salt: r.Uint32(), Yield: 0xffffffff, Attrs: attrPalette[:1]}
		shrink := sc.Cutoff * sc.CPU // a distance field's surface at cutoff c lies c world units = c*cpu cells inside
		for a := 0; a < 3; a++ {
			switch {
			case kind == "seam-blob" && seam[a]:
				fd.C[a], fd.R[a] = base[a], 0.35+0.5*r.Float64() // only lattice layer 100k is inside
			case kind == "seam-blob":
				fd.C[a], fd.R[a] = base[a]+float64(20+r.Intn(50)), 0.6+2*r.Float64()
			case seam[a]:
				// low extreme of the (shrunk) shape inside (99.05, 99.95)
				fd.R[a] = float64(3 + r.Intn(4))
				fd.C[a] = base[a] - 0.95 + 0.9*r.Float64() + fd.R[a] + shrink
			default:
				fd.R[a] = float64(3 + r.Intn(4))
				fd.C[a] = base[a] + float64(25+r.Intn(40)) + r.Float64()
			}
		}
		if kind == "pf-seam-sphere" {
			// one radius; the centre of the seam axis was computed with R of that axis
			for a := 0; a < 3; a++ {
				if seam[a] {
					fd.R[0], fd.R[1], fd.R[2] = fd.R[a], fd.R[a], fd.R[a]
				}
			}
		}
		for a := 0; a < 3; a++ {
			fd.Lo[a], fd.Hi[a] = fd.C[a]-fd.R[a]-3.5, fd.C[a]+fd.R[a]+3.5
		}
		return fd
	}
	axis := func(a int) [3]bool { var s [3]bool; s[a] = true; return s }
	// one face blob per axis (kinds rotate), an edge and the corner
	kinds := []string{"seam-blob", "pf-seam-sphere", "pf-seam-box"}
	off := r.Intn(3)
	for a := 0; a < 3; a++ {
		sc.Fields = append(sc.Fields, mk(kinds[(a+off)%3], axis(a)))
	}
	e := r.Intn(3)
	edge := [3]bool{true, true, true}
	edge[e] = false
	sc.Fields = append(sc.Fields, mk([]string{"seam-blob", "pf-seam-box"}[r.Intn(2)], edge))
	if r.Intn(2) == 0 {
		sc.Fields = append(sc.Fields, mk([]string{"seam-blob", "pf-seam-box"}[r.Intn(2)], [3]bool{true, true, true}))
	}
	// the larger scene: an ordinary ellipsoid inside the anchor block
	big := fieldDesc{Kind: "ellipsoid", Salt: r.Uint32(), Yield: 0xffffffff, Attrs: attrPalette[:1]}
	for a := 0; a < 3; a++ {
		big.Lo[a] = base[a] + float64(30+r.Intn(20)) + r.Float64()
		big.Hi[a] = big.Lo[a] + float64(16+r.Intn(14))
	}
	for i := range big.P {
		big.P[i] = r.Float64()
	}
	sc.Fields = append(sc.Fields, big)
	sc.derive()
	return sc
}

// tieCases: exact-tie scenes (after the seam cases).
func exactBoundCases(tier string) int {
	if tier == "thorough" {
		return 60
	}
	return 12
}

// genExactBoundScene (round 7, C10-L): scenes of the ordinary generator, kept only when some field's UPPER
// canvas bound is exactly a multiple of the block size (the block starting there is allocated by AddField
// with an empty sample range and then supplies the far corners of the last cell layer) and the cutoff puts
// a surface into that layer (cutoff > 0: unwritten samples are 0, i.e. inside). k rotates how many such
// bounds are asked for (1, 2, 3+).
func genExactBoundScene(r *rand.Rand, k int) *scene {
	var sc *scene
	for try := 0; try < 5000; try++ {
		sc = genScene(r, 8, 2)
		if sc.exactUpper >= 1+k%3 && sc.Cutoff > 0 {
			break
		}
	}
	return sc
}

func tieCases(tier string) int {
	if tier == "thorough" {
		return 15
	}
	return 3
}

// genTieScene: a unit-ish sphere (harness closure or polyform's own marching.Sphere) or a
// grid-aligned box with INTEGER world centre and radius / half sizes at 49, 10 or 7 cubes per
// unit (inexact reciprocals): lattice points lie exactly on the cutoff-0 surface, so a sample
// position that is one ulp off flips their classification. All adders must classify alike.
func genTieScene(r *rand.Rand, k int) *scene {
	cpu := []float64{49, 10, 7}[k%3]
	kind := []string{"tie-sphere", "pf-seam-sphere", "tie-box"}[(k+k/3)%3]
	sc := &scene{CPU: cpu, Cutoff: 0, Attrs: attrPalette[:1]}
	fd := fieldDesc{Kind: kind, Salt: r.Uint32(), Yield: 0xffffffff, Attrs: attrPalette[:1]}
	rad := 1
	if cpu < 49 {
		rad = 1 + r.Intn(3)
	}
	for a := 0; a < 3; a++ {
		c := r.Intn(3) - 1 // integer world coordinate: negative, zero, positive
		h := rad
		if kind == "tie-box" && cpu < 49 {
			h = 1 + r.Intn(3)
		}
		fd.C[a], fd.R[a] = float64(c)*cpu, float64(h)*cpu
		fd.Lo[a], fd.Hi[a] = fd.C[a]-fd.R[a]-3.5, fd.C[a]+fd.R[a]+3.5
		sc.Anchor[a] = int(math.Floor(fd.C[a] / blockCells))
	}
	if kind != "tie-box" {
		fd.R[1], fd.R[2] = fd.R[0], fd.R[0]
		for a := 0; a < 3; a++ {
			fd.Lo[a], fd.Hi[a] = fd.C[a]-fd.R[a]-3.5, fd.C[a]+fd.R[a]+3.5
		}
	}
	sc.Fields = []fieldDesc{fd}
	sc.derive()
	return sc
}

// historyCases: multi-step histories on ONE canvas (after the many-blocks cases).
func historyCases(tier string) int {
	if tier == "thorough" {
		return 80
	}
	return 8
}

type histStep struct {
	Op     string  `json:"op"` // AddField | AddFieldParallel | AddFieldParallel2 | march
	Field  int     `json:"field,omitempty"`
	Cutoff float64 `json:"cutoff,omitempty"`
}

// fieldHistory: 4-7 steps on one canvas mixing the three adders and marches at the same and
// at different cutoffs (fields touch existing blocks and create new ones). At every march
// step: MarchParallel and March on the history canvas, and March on a FRESH canvas filled
// sequentially with the same fields in the same order; all three must be the same mesh.
func fieldHistory(c *run.Ctx) run.Result {
	var res run.Result
	r := c.Rng
	sc := genScene(r, 4, 4)
	c0 := sc.Cutoff
	alt := []float64{0, -0.2, 0.3, 0.5}[r.Intn(4)]
	adders := []string{"AddField", "AddFieldParallel", "AddFieldParallel2"}
	next := 0
	add := func() histStep {
		st := histStep{Op: adders[r.Intn(3)], Field: next % len(sc.Fields)}
		next++
		return st
	}
	// skeleton: march, add into the canvas, march again at the SAME cutoff
	steps := []histStep{add(), {Op: "march", Cutoff: c0}, add(), {Op: "march", Cutoff: c0}}
	if r.Intn(2) == 0 {
		steps[2].Op = "AddField" // the sequential adder between two parallel marches
	}
	for extra := r.Intn(4); extra > 0; extra-- {
		if steps[len(steps)-1].Op == "march" && r.Intn(5) > 0 {
			steps = append(steps, add())
		} else {
			steps = append(steps, histStep{Op: "march", Cutoff: []float64{c0, c0, alt}[r.Intn(3)]})
		}
	}
	if steps[len(steps)-1].Op != "march" {
		steps = append(steps, histStep{Op: "march", Cutoff: c0})
	}
	wit := map[string]any{"scene": sc, "steps": steps}
	var ops []string
	for _, st := range steps {
		ops = append(ops, st.Op)
	}
	res.Sig = "history/" + strings.Join(ops, ">") + "/" + sc.sig()
	res.Sample = wit
	c.Note("history " + res.Sig)
	input := fmt.Sprintf("history of %d steps on one canvas (%s)", len(steps), strings.Join(ops, ", "))
	attr := modeling.PositionAttribute

	H := marching.NewMarchingCanvas(sc.CPU)
	var added []int
	marches, tris := 0, 0
	for si, st := range steps {
		if st.Op != "march" {
			f := sc.field(st.Field, nil)
			p := run.Try(func() {
				switch st.Op {
				case "AddField":
					H.AddField(f)
				case "AddFieldParallel":
					H.AddFieldParallel(f)
				default:
					H.AddFieldParallel2(f)
				}
			})
			if p != nil {
				res.Violate("runtime-panic", "MarchingCanvas."+st.Op, input, fmt.Sprintf("step %d: %s", si, p.Value)+"\n"+p.Stack, wit)
				return res
			}
			added = append(added, st.Field)
			res.SetAdd("history_adders", st.Op)
			continue
		}
		// Position must exist on the canvas
		has := false
		for _, fi := range added {
			for _, a := range sc.Fields[fi].Attrs {
				if a == attr {
					has = true
				}
			}
		}
		if !has {
			continue
		}
		fresh := marching.NewMarchingCanvas(sc.CPU)
		if p := run.Try(func() {
			for _, fi := range added {
				fresh.AddField(sc.field(fi, nil))
			}
		}); p != nil {
			res.Inconclusive = "reference: AddField on the fresh canvas panicked: " + p.Value
			return res
		}
		c.Note(fmt.Sprintf("step %d: march at %g", si, st.Cutoff))
		ref, p := march(fresh, attr, st.Cutoff, false)
		if p != nil || ref.err != "" {
			res.Inconclusive = fmt.Sprintf("reference: March of the fresh canvas unusable (panic %v, err %q)", p != nil, ref.err)
			return res
		}
		tight := sc.latticeOnly[attr] && st.Cutoff == 0
		mp, pp := march(H, attr, st.Cutoff, true)
		ms, ps := march(H, attr, st.Cutoff, false)
		where := fmt.Sprintf("step %d (march at cutoff %g after %d add(s))", si, st.Cutoff, len(added))
		if pp != nil {
			res.Violate("runtime-panic", "MarchingCanvas.MarchOnAttributeParallel", input, where+": "+pp.Value+"\n"+pp.Stack, wit)
		} else if d := ref.diff(mp, tight); d != "" {
			res.Violate("march-mismatch", "MarchingCanvas.MarchOnAttributeParallel", input,
				where+": MarchParallel of the history canvas differs from March of a fresh canvas filled sequentially with the same fields (reference): "+d, wit)
		}
		if ps != nil {
			res.Violate("field-accumulate-mismatch", "MarchingCanvas history (mixed adders, sequential March)", input, where+": March of the fresh canvas succeeds, March of the history canvas panics: "+ps.Value, wit)
		} else if d := ref.diff(ms, tight); d != "" {
			res.Violate("field-accumulate-mismatch", "MarchingCanvas history (mixed adders, sequential March)", input,
				where+": March of the history canvas differs from March of a fresh canvas filled sequentially with the same fields (reference): "+d, wit)
		}
		marches++
		tris += ref.n
		res.Count("history_march_steps", 1)
		res.Count("march_parallel_compared", 1)
		res.SetAdd("field_cutoffs", fmt.Sprint(st.Cutoff))
	}
	res.Count("history_cases", 1)
	res.Count("history_steps", int64(len(steps)))
	res.Count("field_triangles_compared", int64(tris))
	res.SetAdd("gomaxprocs", fmt.Sprint(runtime.GOMAXPROCS(0)))
	res.Nontrivial = marches >= 2 && tris > 0
	return res
}

func fieldCase(c *run.Ctx) run.Result {
	if c.Case < manyBlockCases(c.Tier) {
		return manyBlocks(c)
	}
	if c.Case < manyBlockCases(c.Tier)+historyCases(c.Tier) {
		return fieldHistory(c)
	}
	if c.Case < manyBlockCases(c.Tier)+historyCases(c.Tier)+pfStressCases(c.Tier) {
		return pfStress(c)
	}
	var res run.Result
	r := c.Rng
	budget := 8
	if c.Tier == "thorough" && r.Intn(5) == 0 {
		budget = 16
	}
	var sc *scene
	special := manyBlockCases(c.Tier) + historyCases(c.Tier) + pfStressCases(c.Tier)
	if c.Case < special+seamCases(c.Tier) {
		sc = genSeamScene(r)
		res.Count("field_seam_layer_scenes", 1)
	} else if c.Case < special+seamCases(c.Tier)+tieCases(c.Tier) {
		sc = genTieScene(r, c.Case-special-seamCases(c.Tier))
		res.Count("field_exact_tie_scenes", 1)
	} else if c.Case < special+seamCases(c.Tier)+tieCases(c.Tier)+exactBoundCases(c.Tier) {
		sc = genExactBoundScene(r, c.Case)
		res.Count("field_exact_upper_bound_scenes", 1)
	} else {
		sc = genScene(r, budget, 3)
	}
	res.Sig = sc.sig()
	res.Sample = sc
	c.Note("scene " + sc.sig())
	input := sc.inputClass()

	prSeq := &probe{cpu: sc.CPU, anchor: sc.Anchor, record: true}
	cSeq, p := sc.fill(addSeq, prSeq)
	if p != nil {
		res.Inconclusive = "reference: AddField panicked: " + p.Value
		return res
	}
	if prSeq.badMsg != "" {
		res.Inconclusive = "reference: " + prSeq.badMsg
		return res
	}
	prPar := &probe{cpu: sc.CPU, anchor: sc.Anchor, ref: prSeq, slot: 0}
	c.Note("AddFieldParallel")
	cPar, pp := sc.fill(addPar, prPar)
	prPar2 := &probe{cpu: sc.CPU, anchor: sc.Anchor, ref: prSeq, slot: 1}
	c.Note("AddFieldParallel2")
	cPar2, pp2 := sc.fill(addPar2, prPar2)
	if pp != nil {
		res.Violate("runtime-panic", adderSite[addPar], input, "AddField returned normally on the same scene; AddFieldParallel panicked: "+pp.Value+"\n"+pp.Stack, sc.witness())
	}
	if pp2 != nil {
		res.Violate("runtime-panic", adderSite[addPar2], input, "AddField returned normally on the same scene; AddFieldParallel2 panicked: "+pp2.Value+"\n"+pp2.Stack, sc.witness())
	}
	// the positions the library hands to the field functions: bit-identical to the sequential
	// adder's at every lattice point both sample
	if pp == nil {
		prPar.positions(&res, adderSite[addPar], input, sc.witness())
	}
	if pp2 == nil {
		prPar2.positions(&res, adderSite[addPar2], input, sc.witness())
	}
	if sc.CPU != math.Exp2(math.Round(math.Log2(sc.CPU))) {
		res.SetAdd("field_cpu_values_with_inexact_reciprocal", fmt.Sprint(sc.CPU))
	}
	// number of field-function evaluations: evidence only (the property states result equality
	// for field accumulation, not a visitation count)
	eSeq, ePar, ePar2 := atomic.LoadInt64(&prSeq.evals), atomic.LoadInt64(&prPar.evals), atomic.LoadInt64(&prPar2.evals)
	if (pp == nil && ePar != eSeq) || (pp2 == nil && ePar2 != eSeq) {
		res.Count("field_eval_count_differs_from_sequential", 1)
	}
	res.Count("field_function_evaluations", eSeq+ePar+ePar2)
	res.SetAdd("field_block_orders", "P1:"+prPar.orderString())
	res.SetAdd("field_block_orders", "P2:"+prPar2.orderString())
	res.SetAdd("field_eval_concurrency", fmt.Sprint(atomic.LoadInt32(&prPar.maxSeen)))
	res.SetAdd("field_eval_concurrency", fmt.Sprint(atomic.LoadInt32(&prPar2.maxSeen)))
	res.SetAdd("gomaxprocs", fmt.Sprint(runtime.GOMAXPROCS(0)))

	totalTris := 0
	// Only Position can be marched (MarchOnAttribute on any other attribute panics in the
	// sequential and the parallel code alike); the other attributes are load for the adders.
	for _, attr := range marchAttrs {
		tight := sc.tight(attr)
		c.Note("March " + attr)
		seq, p := march(cSeq, attr, sc.Cutoff, false)
		if p != nil {
			res.Inconclusive = "reference: sequential March panicked: " + p.Value
			return res
		}
		if seq.err != "" {
			res.Inconclusive = "reference: sequential March output malformed: " + seq.err
			return res
		}
		totalTris += seq.n
		// (b1) MarchParallel vs March on the same canvas
		c.Note("MarchParallel " + attr)
		mp, p := march(cSeq, attr, sc.Cutoff, true)
		if p != nil {
			res.Violate("runtime-panic", "MarchingCanvas.MarchOnAttributeParallel", input, "sequential March returned normally; the parallel one panicked: "+p.Value+"\n"+p.Stack, sc.witness())
		} else if d := seq.diff(mp, tight); d != "" {
			res.Violate("march-mismatch", "MarchingCanvas.MarchOnAttributeParallel", input, "attribute "+attr+": MarchParallel differs from March on the same canvas: "+d, sc.witness())
		}
		res.Count("march_parallel_compared", 1)
		// (b2) canvases filled in parallel, observed through the sequential March
		for _, v := range []struct {
			how adder
			cv  *marching.MarchingCanvas
			bad bool
		}{{addPar, cPar, pp != nil}, {addPar2, cPar2, pp2 != nil}} {
			if v.bad {
				continue
			}
			c.Note("March of " + adderSite[v.how] + " canvas " + attr)
			got, p := march(v.cv, attr, sc.Cutoff, false)
			if p != nil {
				res.Violate("field-accumulate-mismatch", adderSite[v.how], input,
					"attribute "+attr+": March of the AddField canvas succeeds, March of the canvas filled by "+adderSite[v.how]+" panics: "+p.Value, sc.witness())
				continue
			}
			if d := seq.diff(got, tight); d != "" {
				res.Violate("field-accumulate-mismatch", adderSite[v.how], input,
					"attribute "+attr+": canvas filled by "+adderSite[v.how]+" marches differently from the canvas filled by AddField: "+d, sc.witness())
			}
			if v.how == addPar {
				res.Count("field_parallel_compared", 1)
			} else {
				res.Count("field_parallel2_compared", 1)
			}
		}
		res.Count("field_triangles_compared", int64(seq.n))
		if tight {
			res.Count("field_lattice_tight_compared", 1)
		}
		if seq.empty || seq.n == 0 {
			res.Count("field_empty_surfaces", 1)
		}
	}
	// all marches are done (hundreds of milliseconds later): did any field function run after
	// the Add* call that owns it had returned?
	if l := prSeq.late(); l != "" {
		res.Inconclusive = "reference: AddField itself " + l
		return res
	}
	for _, v := range []struct {
		how adder
		pr  *probe
		bad bool
	}{{addPar, prPar, pp != nil}, {addPar2, prPar2, pp2 != nil}} {
		if v.bad {
			continue
		}
		if l := v.pr.late(); l != "" {
			res.Violate("returns-before-done", adderSite[v.how], input,
				adderSite[v.how]+" returned while its work was still going on (AddField has evaluated and accumulated everything when it returns): "+l, sc.witness())
		}
		res.Count("field_calls_checked_for_late_work", int64(v.pr.calls))
	}
	for _, f := range sc.Fields {
		if f.DelayUS > 0 {
			res.Count("field_delayed_first_evaluation", 1)
		}
	}
	if sc.Aligned {
		res.Count("field_aligned_scenes", 1)
	}
	res.Count("field_exact_block_bounds", int64(sc.exactBounds))
	res.Count("field_exact_upper_block_bounds", int64(sc.exactUpper))
	res.SetAdd("field_cutoffs", fmt.Sprint(sc.Cutoff))
	for _, f := range sc.Fields {
		if f.isPF() {
			res.Count("field_polyform_composite_fields", 1)
			res.SetAdd("field_kinds", f.Kind)
			if sc.blocks >= 2 {
				res.Count("field_polyform_composite_multi_block", 1)
			}
		} else {
			res.SetAdd("field_kinds", f.Kind)
		}
	}
	res.Count("field_blocks", int64(sc.blocks*len(sc.Attrs)))
	for _, f := range sc.Fields {
		if len(f.Attrs) > 1 {
			res.Count("field_multi_attribute_fields", 1)
		}
	}
	if sc.blocks >= 2 {
		res.Count("field_canvases_multi_block", 1)
	}
	if sc.overlap {
		res.Count("field_overlapping_fields", 1)
	}
	for a := 0; a < 3; a++ {
		if sc.Anchor[a] <= 0 {
			res.Count("field_negative_block_coords", 1)
			break
		}
	}
	res.SetAdd("field_block_shapes", fmt.Sprintf("%dx%dx%d", sc.blocksPerAxis[0], sc.blocksPerAxis[1], sc.blocksPerAxis[2]))
	res.Nontrivial = sc.blocks >= 2 && totalTris > 0
	return res
}

// fieldRace: reduced (b) for the -race build (a block costs ~2 CPU-seconds to march under
// the race detector). Both parallel adders fill a fresh canvas; in the quick tier one of the
// two canvases (alternating) is marched in parallel, in the thorough tier both are and must
// agree (the comparison against the sequential counterpart lives in the plain phase).
func fieldRace(c *run.Ctx) run.Result {
	var res run.Result
	r := c.Rng
	budget := 4
	if c.Tier == "thorough" && r.Intn(6) == 0 {
		budget = 8
	}
	var sc *scene
	for {
		sc = genScene(r, budget, 2)
		if sc.blocks >= 2 {
			break
		}
	}
	res.Sig = sc.sig()
	res.Sample = sc
	c.Note("race scene " + sc.sig())
	input := sc.inputClass()
	res.SetAdd("race_gomaxprocs", fmt.Sprint(runtime.GOMAXPROCS(0)))
	res.SetAdd("gomaxprocs", fmt.Sprint(runtime.GOMAXPROCS(0)))
	// a sequential fill (not marched) records the reference sample positions
	prS := &probe{cpu: sc.CPU, anchor: sc.Anchor, record: true}
	if _, p := sc.fill(addSeq, prS); p != nil {
		res.Inconclusive = "reference: AddField panicked: " + p.Value
		return res
	}
	prA := &probe{cpu: sc.CPU, anchor: sc.Anchor, ref: prS, slot: 0}
	prB := &probe{cpu: sc.CPU, anchor: sc.Anchor, ref: prS, slot: 1}
	tris := 0
	attr := modeling.PositionAttribute
	var sets []*triSet
	// each canvas is marched right after it was filled: work that an adder left running
	// behind its return then overlaps with the march that reads the same blocks
	for which, how := range []adder{addPar, addPar2} {
		pr := []*probe{prA, prB}[which]
		c.Note("fill with " + adderSite[how])
		cv, pn := sc.fill(how, pr)
		if pn != nil {
			res.Violate("runtime-panic", adderSite[how], input, pn.Value+"\n"+pn.Stack, sc.witness())
			continue
		}
		res.Count("race_field_blocks_filled", int64(sc.blocks*len(sc.Attrs)))
		if c.Tier != "thorough" && which != c.Case%2 {
			continue
		}
		c.Note(fmt.Sprintf("MarchParallel canvas %d %s", which, attr))
		ts, p := march(cv, attr, sc.Cutoff, true)
		if p != nil {
			res.Violate("runtime-panic", "MarchingCanvas.MarchOnAttributeParallel", input, p.Value+"\n"+p.Stack, sc.witness())
			continue
		}
		if ts.err != "" {
			res.Violate("march-malformed", "MarchingCanvas.MarchOnAttributeParallel", input, ts.err, sc.witness())
			continue
		}
		sets = append(sets, ts)
		tris += ts.n
		res.Count("race_field_blocks_marched", int64(sc.blocks))
	}
	if len(sets) == 2 {
		if d := sets[0].diff(sets[1], sc.tight(attr)); d != "" {
			res.Violate("field-accumulate-mismatch", "MarchingCanvas.AddFieldParallel / AddFieldParallel2", input,
				"attribute "+attr+": the canvases filled by AddFieldParallel (reference below) and AddFieldParallel2 march (in parallel) to different meshes: "+d, sc.witness())
		}
	}
	// the probes are read only now, after the marches: an atomic load here would order the
	// workers' earlier writes before the march and could hide a race from the detector
	res.SetAdd("field_block_orders", "P1:"+prA.orderString())
	res.SetAdd("field_block_orders", "P2:"+prB.orderString())
	for _, v := range []struct {
		how adder
		pr  *probe
	}{{addPar, prA}, {addPar2, prB}} {
		v.pr.positions(&res, adderSite[v.how], input, sc.witness())
		if l := v.pr.late(); l != "" {
			res.Violate("returns-before-done", adderSite[v.how], input,
				adderSite[v.how]+" returned while its work was still going on: "+l, sc.witness())
		}
	}
	res.Count("race_field_triangles", int64(tris))
	res.Nontrivial = tris > 0
	return res
}
