package c03

import (
	"fmt"
	"math"
	"sort"

	"github.com/EliCDavis/polyform/modeling"
	"github.com/EliCDavis/polyform/modeling/meshops"
	"polyverif/internal/gen"
	"polyverif/internal/ref"
	"polyverif/internal/run"
)

// layoutCase: unweld, remove unreferenced, to point cloud, flip (and flip∘flip),
// remove null faces, weld by position (and weld∘unweld) on one generated mesh.
func layoutCase(c *run.Ctx) run.Result {
	var res run.Result
	r := c.Rng
	topos := []modeling.Topology{
		modeling.TriangleTopology, modeling.TriangleTopology, modeling.TriangleTopology, modeling.TriangleTopology,
		modeling.TriangleTopology, modeling.TriangleTopology, modeling.PointTopology, modeling.QuadTopology,
		modeling.LineTopology, modeling.LineStripTopology,
	}
	m, d := gen.Mesh(r, gen.MeshOpts{Topologies: []modeling.Topology{pick(r, topos)}, MaxVerts: maxVerts(c),
		AllowEmpty: true, Materials: true, NoPositionOK: true})
	o := newOpctx(c, &res, m, d)

	o.checkUnweld()
	o.checkRemoveUnreferenced()
	o.checkToPointCloud()
	if m.Topology() == modeling.TriangleTopology {
		o.checkFlip()
		o.checkTransformChain()
		if v3 := o.im.namesOfArity(3); len(v3) > 0 {
			o.checkRemoveNullFaces(pickV3(o, v3))
			attr := pickV3(o, v3)
			dec := pick(r, []int{-1, 0, 1, 1, 2, 2, 3, 3, 4, 6})
			o.checkWeld(attr, dec)
			o.checkWeldAfterUnweld(attr, dec)
		}
	}
	o.checkRemoveUnreferencedSequences()
	if c.Case%2 == 0 {
		o.checkWeldStrides()
	} else {
		o.checkSliverNullFaces()
	}
	o.finish(m.Topology() == modeling.TriangleTopology)
	return res
}

// pickV3 prefers Position (the usual target) but also takes any other v3 attribute.
func pickV3(o *opctx, v3 []string) string {
	if o.im.has("3:"+modeling.PositionAttribute) && o.r.Intn(4) != 0 {
		return "3:" + modeling.PositionAttribute
	}
	return pick(o.r, v3)
}

// sameSequence is the contract of the operations that change layout only: the
// primitive sequence and every corner tuple are kept exactly.
func (o *opctx) sameSequence(site string, out *ref.Snapshot, checkMaterials bool) bool {
	om := newModel(out)
	if out.Topology != o.in.Topology {
		o.violate("topology-changed", site, fmt.Sprintf("topology %v -> %v", o.in.Topology, out.Topology))
		return false
	}
	want := o.im.prims()
	got := om.primsOver(o.im.names)
	if len(got) > 0 && !sameNames(o.im.names, om.names) {
		o.violate("attribute-set-changed", site, fmt.Sprintf("attributes %v -> %v", o.im.names, om.names))
		return false
	}
	if d := seqDiff(want, got, o.im.names, o.im.K, func(i int) string { return fmt.Sprintf("input primitive %d", i) }); d != "" {
		o.violate("corner-mismatch", site, d)
		return false
	}
	o.res.Count("corners_compared", int64(len(want)*o.im.K))
	if checkMaterials {
		if d := matDiff(o.in, out); d != "" {
			o.violate("materials-changed", site, "the primitive sequence is unchanged but the material ranges are not: "+d)
			return false
		}
	}
	return true
}

func (o *opctx) checkUnweld() {
	const site = "meshops.Unweld"
	viaT := o.r.Intn(3) == 0
	out, ok := o.call(site, func() modeling.Mesh {
		if viaT {
			return must(meshops.UnweldTransformer{}.Transform(o.mesh))
		}
		return meshops.Unweld(o.mesh)
	})
	if !ok {
		return
	}
	if !o.sameSequence(site, out, true) {
		return
	}
	// "no two primitive indices share any one vertex"
	seen := map[int]int{}
	for i, v := range out.Indices {
		if j, dup := seen[v]; dup {
			o.violate("still-shared-vertex", site, fmt.Sprintf("after unweld, index positions %d and %d both reference vertex %d", j, i, v))
			return
		}
		seen[v] = i
	}
	o.nontrivial(site, o.nonIdentity() && o.d.Shared)
}

func (o *opctx) checkRemoveUnreferenced() {
	const site = "meshops.RemovedUnreferencedVertices"
	viaT := o.r.Intn(3) == 0
	out, ok := o.call(site, func() modeling.Mesh {
		if viaT {
			return must(meshops.RemovedUnreferencedVerticesTransformer{}.Transform(o.mesh))
		}
		return meshops.RemovedUnreferencedVertices(o.mesh)
	})
	if !ok {
		return
	}
	if !o.sameSequence(site, out, true) {
		return
	}
	om := newModel(out)
	refd := make([]bool, om.L)
	for _, v := range out.Indices {
		refd[v] = true
	}
	for v, b := range refd {
		if !b {
			o.violate("unreferenced-vertex-left", site, fmt.Sprintf("vertex %d of the result (%d vertices) is referenced by no index", v, om.L))
			return
		}
	}
	o.nontrivial(site, o.im.nPrims() > 0 && o.d.Unreferenced)
}

// ToPointCloud: "All original indice information is dropped and is replaced by a
// flat reference to all attribute data previously defined".
func (o *opctx) checkToPointCloud() {
	const site = "Mesh.ToPointCloud"
	out, ok := o.call(site, func() modeling.Mesh { return o.mesh.ToPointCloud() })
	if !ok {
		return
	}
	if out.Topology != modeling.PointTopology {
		o.violate("topology-changed", site, fmt.Sprintf("result has topology %v", out.Topology))
		return
	}
	if o.in.Topology == modeling.PointTopology {
		// already a point cloud: nothing may change (corner view and everything else)
		if d := o.in.Diff(out); d != "" {
			o.violate("corner-mismatch", site, "a point cloud converted to a point cloud changed: "+d)
		}
		o.nontrivial(site, o.nonIdentity())
		return
	}
	// point i = vertex i, for all vertices; attributes bit-identical
	if len(out.Indices) != o.im.L {
		o.violate("primitive-count", site, fmt.Sprintf("mesh has %d vertices, point cloud has %d points", o.im.L, len(out.Indices)))
		return
	}
	om := newModel(out)
	if o.im.L > 0 && !sameNames(o.im.names, om.names) {
		o.violate("attribute-set-changed", site, fmt.Sprintf("attributes %v -> %v", o.im.names, om.names))
		return
	}
	want := make([][]float64, o.im.L)
	for v := range want {
		want[v] = o.im.vert(v)
	}
	got := om.primsOver(o.im.names)
	if d := seqDiff(want, got, o.im.names, 1, func(i int) string { return fmt.Sprintf("input vertex %d", i) }); d != "" {
		o.violate("corner-mismatch", site, d)
		return
	}
	o.res.Count("corners_compared", int64(len(want)))
	o.nontrivial(site, o.nonIdentity())
}

// oddPermutation: is b an odd permutation of the triple a?
func oddPermutation(a, b [3]int) bool {
	for _, p := range [][3]int{{1, 0, 2}, {0, 2, 1}, {2, 1, 0}} {
		if b[0] == a[p[0]] && b[1] == a[p[1]] && b[2] == a[p[2]] {
			return true
		}
	}
	return false
}

func (o *opctx) checkFlip() {
	const site = "meshops.FlipTriangleWinding"
	viaT := o.r.Intn(3) == 0
	var flipped modeling.Mesh
	out, ok := o.call(site, func() modeling.Mesh {
		if viaT {
			flipped = must(meshops.FlipTriangleWindingTransformer{}.Transform(o.mesh))
		} else {
			flipped = meshops.FlipTriangleWinding(o.mesh)
		}
		return flipped
	})
	if !ok {
		return
	}
	// everything but the order of the three corners inside each triangle is untouched
	exp := *o.in
	exp.Indices = out.Indices
	if len(out.Indices) != len(o.in.Indices) {
		o.violate("primitive-count", site, fmt.Sprintf("%d indices -> %d", len(o.in.Indices), len(out.Indices)))
		return
	}
	if cl, d := untouchedExcept(&exp, out, ""); d != "" {
		o.violate(cl, site, "flip must only reorder corners inside each triangle: "+d)
		return
	}
	for t := 0; t+2 < len(out.Indices); t += 3 {
		a := [3]int{o.in.Indices[t], o.in.Indices[t+1], o.in.Indices[t+2]}
		b := [3]int{out.Indices[t], out.Indices[t+1], out.Indices[t+2]}
		if !oddPermutation(a, b) {
			o.violate("corner-mismatch", site, fmt.Sprintf("triangle %d: corners %v became %v, which is not the reversed winding of the same three corners", t/3, a, b))
			return
		}
	}
	o.res.Count("corners_compared", int64(len(out.Indices)))
	o.nontrivial(site, o.nonIdentity())

	// flip ∘ flip = identity
	const site2 = "flip∘flip"
	out2, ok := o.call(site2, func() modeling.Mesh { return meshops.FlipTriangleWinding(flipped) })
	if !ok {
		return
	}
	if d := o.in.Diff(out2); d != "" {
		o.violate("composition-not-identity", site2, "flipping twice must give back the input: "+d)
		return
	}
	o.nontrivial(site2, o.nonIdentity())
}

func cross(a, b [3]float64) [3]float64 {
	return [3]float64{a[1]*b[2] - a[2]*b[1], a[2]*b[0] - a[0]*b[2], a[0]*b[1] - a[1]*b[0]}
}
func sub3(a, b []float64) [3]float64 { return [3]float64{a[0] - b[0], a[1] - b[1], a[2] - b[2]} }
func len3(a [3]float64) float64      { return math.Sqrt(a[0]*a[0] + a[1]*a[1] + a[2]*a[2]) }

func (o *opctx) checkRemoveNullFaces(attr string) {
	const site = "meshops.RemoveNullFaces3D"
	np := o.im.nPrims()
	areas := make([]float64, np)
	scale := make([]float64, np)
	for t := 0; t < np; t++ {
		a, b, c := o.im.attr(attr, o.in.Indices[3*t]), o.im.attr(attr, o.in.Indices[3*t+1]), o.im.attr(attr, o.in.Indices[3*t+2])
		e1, e2 := sub3(b, a), sub3(c, a)
		areas[t] = len3(cross(e1, e2)) / 2
		scale[t] = len3(e1) * len3(e2)
	}
	// threshold classes: zero, negative, tiny, a value splitting the faces, huge
	var minArea float64
	class := pick(o.r, []string{"zero", "zero", "negative", "tiny", "median", "median", "median", "huge"})
	switch class {
	case "negative":
		minArea = -1
	case "tiny":
		minArea = 1e-12
	case "median":
		if np > 0 {
			s := append([]float64{}, areas...)
			sort.Float64s(s)
			minArea = s[len(s)/2]
			if o.r.Intn(2) == 0 && len(s) > 1 { // strictly between two areas
				minArea = (s[len(s)/2-1] + s[len(s)/2]) / 2
			}
		}
	case "huge":
		minArea = 1e30
	}
	o.param("rmnull(%s,%s)", attr[2:], class)
	o.res.SetAdd("rmnull.threshold_classes", class)
	viaT := o.r.Intn(3) == 0
	out, ok := o.call(site, func() modeling.Mesh {
		if viaT {
			return must(meshops.RemoveNullFaces3DTransformer{Attribute: attr[2:], MinArea: minArea}.Transform(o.mesh))
		}
		return meshops.RemoveNullFaces3D(o.mesh, attr[2:], minArea)
	}, "attribute", attr[2:], "minArea", minArea)
	if !ok {
		return
	}
	if out.Topology != modeling.TriangleTopology {
		o.violate("topology-changed", site, fmt.Sprintf("topology -> %v", out.Topology))
		return
	}
	om := newModel(out)
	got := om.primsOver(o.im.names)
	if len(got) > 0 && !sameNames(o.im.names, om.names) {
		o.violate("attribute-set-changed", site, fmt.Sprintf("attributes %v -> %v", o.im.names, om.names))
		return
	}
	in := o.im.prims()
	// walk the input: definite keeps must appear next, ambiguous faces (area within
	// rounding of the threshold) may or may not
	gi, kept, dropped, ambiguous := 0, 0, 0, 0
	for t := 0; t < np; t++ {
		keep := areas[t] > minArea
		amb := scale[t] > 0 && math.Abs(areas[t]-minArea) <= 1e-9*math.Max(scale[t], math.Abs(minArea))
		switch {
		case amb:
			ambiguous++
			if gi < len(got) && sameTuple(got[gi], in[t]) {
				gi++
			}
		case keep:
			if gi >= len(got) || !sameTuple(got[gi], in[t]) {
				obs := "end of output"
				if gi < len(got) {
					obs = fmtPrim(got[gi], o.im.names, 3)
				}
				o.violate("corner-mismatch", site, fmt.Sprintf("input triangle %d has area %v > minArea %v on %s and must survive as output triangle %d with its corners intact; observed there: %s; expected %s (output has %d triangles, input %d)",
					t, areas[t], minArea, attr[2:], gi, obs, fmtPrim(in[t], o.im.names, 3), len(got), np), "attribute", attr[2:], "minArea", minArea)
				return
			}
			gi++
			kept++
		default:
			dropped++
		}
	}
	if gi != len(got) {
		o.violate("primitive-not-dropped", site, fmt.Sprintf("output has %d triangles beyond the %d that have area > minArea %v on %s; first surplus: %s",
			len(got)-gi, gi, minArea, attr[2:], fmtPrim(got[gi], o.im.names, 3)), "attribute", attr[2:], "minArea", minArea)
		return
	}
	o.res.Count("corners_compared", int64(3*kept))
	o.res.Count("prims_survived", int64(kept))
	o.res.Count("prims_dropped", int64(dropped))
	o.res.Count("rmnull.ambiguous_faces", int64(ambiguous))
	nt := kept > 0 && dropped > 0
	if nt {
		o.dropSeen = true
	}
	o.nontrivial(site, nt && o.nonIdentity())
}

// ---------------------------------------------------------------------------
// weld by position

type cell [3]int64

func cellOf(p []float64, dec int) cell {
	pw := math.Pow10(dec)
	return cell{int64(math.Round(p[0] * pw)), int64(math.Round(p[1] * pw)), int64(math.Round(p[2] * pw))}
}

// weldOracle checks a welded result against an abstract input (vertex tuples over
// keys + index list): exactly the triangles whose three corners fall in three
// different rounding cells survive, in order; each surviving corner carries the
// complete tuple of *a* vertex of the input that lies in the same cell as the
// original corner; no two vertices of the result share a cell.
func (o *opctx) weldOracle(site string, keys []string, verts [][]float64, idx []int, attr string, dec int, out *ref.Snapshot) (kept, dropped int, ok bool) {
	extra := []any{"attribute", attr[2:], "decimalPlace", dec}
	off := 0
	for _, k := range keys {
		if k == attr {
			break
		}
		off += arityOf(k)
	}
	pos := func(t []float64) []float64 { return t[off : off+3] }
	classes := map[cell][]int{}
	for v, t := range verts {
		c := cellOf(pos(t), dec)
		classes[c] = append(classes[c], v)
	}
	var survivors []int
	for t := 0; t+2 < len(idx); t += 3 {
		a, b, c := cellOf(pos(verts[idx[t]]), dec), cellOf(pos(verts[idx[t+1]]), dec), cellOf(pos(verts[idx[t+2]]), dec)
		if a != b && b != c && a != c {
			survivors = append(survivors, t/3)
		} else {
			dropped++
		}
	}
	if out.Topology != modeling.TriangleTopology {
		o.violate("topology-changed", site, fmt.Sprintf("topology -> %v", out.Topology), extra...)
		return
	}
	om := newModel(out)
	if om.nPrims() != len(survivors) {
		o.violate("primitive-count", site, fmt.Sprintf("%d of %d input triangles have their corners in three different rounding cells (10^-%d on %s) and must survive, the result has %d triangles; expected survivors %v",
			len(survivors), len(idx)/3, dec, attr[2:], om.nPrims(), head(survivors, 12)), extra...)
		return
	}
	if len(survivors) > 0 && !sameNames(keys, om.names) {
		o.violate("attribute-set-changed", site, fmt.Sprintf("attributes %v -> %v", keys, om.names), extra...)
		return
	}
	for k, t := range survivors {
		for c := 0; c < 3; c++ {
			orig := verts[idx[3*t+c]]
			oc := cellOf(pos(orig), dec)
			g := om.vertOver(out.Indices[3*k+c], keys)
			if gc := cellOf(pos(g), dec); gc != oc {
				o.violate("corner-left-cell", site, fmt.Sprintf("input triangle %d (output %d) corner %d: %s %v lies in cell %v, the welded corner %v lies in cell %v",
					t, k, c, attr[2:], pos(orig), oc, pos(g), gc), extra...)
				return
			}
			found := false
			for _, v := range classes[oc] {
				if sameTuple(verts[v], g) {
					found = true
					break
				}
			}
			if !found {
				o.violate("corner-mismatch", site, fmt.Sprintf("input triangle %d (output %d) corner %d: the welded corner {%s} is not the tuple of any of the %d input vertices of its rounding cell %v (original corner {%s})",
					t, k, c, fmtTuple(g, keys), len(classes[oc]), oc, fmtTuple(orig, keys)), extra...)
				return
			}
		}
	}
	seen := map[cell]int{}
	for v := 0; v < om.L; v++ {
		c := cellOf(om.attr(attr, v), dec)
		if w, dup := seen[c]; dup {
			o.violate("not-welded", site, fmt.Sprintf("vertices %d and %d of the result lie in the same rounding cell %v", w, v, c), extra...)
			return
		}
		seen[c] = v
	}
	o.res.Count("corners_compared", int64(3*len(survivors)))
	o.res.Count("prims_survived", int64(len(survivors)))
	o.res.Count("prims_dropped", int64(dropped))
	return len(survivors), dropped, true
}

func head(xs []int, n int) []int {
	if len(xs) > n {
		return xs[:n]
	}
	return xs
}

func (o *opctx) checkWeld(attr string, dec int) {
	const site = "Mesh.WeldByFloat3Attribute"
	o.param("weld(%s,%d)", attr[2:], dec)
	o.res.SetAdd("weld.decimal_places", fmt.Sprint(dec))
	out, ok := o.call(site, func() modeling.Mesh { return o.mesh.WeldByFloat3Attribute(attr[2:], dec) }, "attribute", attr[2:], "decimalPlace", dec)
	if !ok {
		return
	}
	verts := make([][]float64, o.im.L)
	for v := range verts {
		verts[v] = o.im.vert(v)
	}
	kept, dropped, ok := o.weldOracle(site, o.im.names, verts, o.in.Indices, attr, dec, out)
	if !ok {
		return
	}
	nt := kept > 0 && dropped > 0
	if nt {
		o.dropSeen = true
	}
	o.nontrivial(site, nt && o.nonIdentity())
}

// weld ∘ unweld: the same surface up to the rounding cell. The abstract input of
// the oracle is the *reference* unweld of the mesh (one vertex per corner).
func (o *opctx) checkWeldAfterUnweld(attr string, dec int) {
	const site = "weld∘unweld"
	out, ok := o.call(site, func() modeling.Mesh {
		return meshops.Unweld(o.mesh).WeldByFloat3Attribute(attr[2:], dec)
	}, "attribute", attr[2:], "decimalPlace", dec)
	if !ok {
		return
	}
	verts := make([][]float64, len(o.in.Indices))
	idx := make([]int, len(o.in.Indices))
	for i, v := range o.in.Indices {
		verts[i] = o.im.vert(v)
		idx[i] = i
	}
	kept, dropped, ok := o.weldOracle(site, o.im.names, verts, idx, attr, dec, out)
	if !ok {
		return
	}
	o.nontrivial(site, kept > 0 && dropped > 0 && o.nonIdentity())
}

// checkTransformChain: Mesh.Transform with a random program of 2-5 layout
// transformers (unweld, remove unreferenced, flip). The primitive sequence and the
// corner tuples are kept; the winding is reversed iff the program flips an odd
// number of times (an even number of flips is the identity on the corner view).
func (o *opctx) checkTransformChain() {
	const site = "Mesh.Transform(layout chain)"
	n := 2 + o.r.Intn(4)
	var ts []modeling.Transformer
	var names []string
	flips := 0
	for i := 0; i < n; i++ {
		switch o.r.Intn(3) {
		case 0:
			ts, names = append(ts, meshops.UnweldTransformer{}), append(names, "unweld")
		case 1:
			ts, names = append(ts, meshops.RemovedUnreferencedVerticesTransformer{}), append(names, "rmunref")
		default:
			ts, names = append(ts, meshops.FlipTriangleWindingTransformer{}), append(names, "flip")
			flips++
		}
	}
	extra := []any{"program", names}
	out, ok := o.call(site, func() modeling.Mesh { return o.mesh.Transform(ts...) }, extra...)
	if !ok {
		return
	}
	om := newModel(out)
	want := o.im.prims()
	got := om.primsOver(o.im.names)
	if len(want) != len(got) {
		o.violate("primitive-count", site, fmt.Sprintf("program %v: %d triangles -> %d", names, len(want), len(got)), extra...)
		return
	}
	if len(got) > 0 && !sameNames(o.im.names, om.names) {
		o.violate("attribute-set-changed", site, fmt.Sprintf("program %v: attributes %v -> %v", names, o.im.names, om.names), extra...)
		return
	}
	W := o.im.W
	for t := range want {
		okT := false
		perms := [][3]int{{0, 1, 2}}
		if flips%2 == 1 {
			perms = [][3]int{{1, 0, 2}, {0, 2, 1}, {2, 1, 0}}
		}
		for _, p := range perms {
			if sameTuple(got[t][0:W], want[t][p[0]*W:(p[0]+1)*W]) && sameTuple(got[t][W:2*W], want[t][p[1]*W:(p[1]+1)*W]) && sameTuple(got[t][2*W:3*W], want[t][p[2]*W:(p[2]+1)*W]) {
				okT = true
			}
		}
		if !okT {
			o.violate("corner-mismatch", site, fmt.Sprintf("program %v (%d flips): triangle %d expected %s (winding %s), observed %s",
				names, flips, t, fmtPrim(want[t], o.im.names, 3), map[bool]string{true: "reversed", false: "unchanged"}[flips%2 == 1], fmtPrim(got[t], o.im.names, 3)), extra...)
			return
		}
	}
	if d := matDiff(o.in, out); d != "" {
		o.violate("materials-changed", site, fmt.Sprintf("program %v: %s", names, d), extra...)
		return
	}
	o.res.Count("corners_compared", int64(3*len(want)))
	o.res.Count("chain.programs", 1)
	o.res.SetAdd("chain.lengths", fmt.Sprint(n))
	o.nontrivial(site, o.nonIdentity())
}
