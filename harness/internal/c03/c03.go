// Package c03 monitors property C03: mesh operations do what they say and
// nothing else.
//
// Every operation named by the property is run on generated well-formed meshes
// (any index pattern, duplicated / unreferenced vertices, any attribute mix) and
// its result is compared with a deliberately naive reference written against the
// corner view (per primitive, per corner, the tuple of all attribute values read
// through Indices() + the attribute iterators). The references share no code with
// polyform: they work on a deep copy of the observable state (ref.Snapshot).
package c03

import (
	"fmt"
	"math"
	"math/rand"
	"sort"
	"strings"

	"github.com/EliCDavis/polyform/modeling"
	"polyverif/internal/gen"
	"polyverif/internal/ref"
	"polyverif/internal/run"
)

func Spec() *run.Spec {
	n := func(quick, thorough int) func(string) int {
		return func(t string) int {
			if t == "thorough" {
				return thorough
			}
			return quick
		}
	}
	return &run.Spec{
		ID: "C03", Level: "exploration",
		Rule: "Since rounds 9-10: value class `dyadic` (exact half rounding steps of both signs) and rotation angles of 2e-8, -1.7e-8 and 9e-9 rad (cos of the half angle rounds to 1). " +
			"one case = one generated well-formed mesh (gen.Mesh: topology, index pattern identity/permutation/welded/unreferenced/repeated/random, " +
			"value class, random attribute mix, optional material ranges) on which every operation of the phase is run and compared with its naive " +
			"corner-view reference. Non-trivial: the mesh has >= 1 primitive and a non-identity index list, and (phases layout/combine/filter, whose " +
			"operations drop things) at least one dropping operation had >= 1 surviving and >= 1 dropped primitive. Distinct = distinct structural " +
			"descriptor (topology, size buckets, index pattern, value class, attribute mix, materials, parameter classes).",
		Assumptions: []string{
			"finite attribute values only (NaN/Inf inputs are out of reach of the property)",
			"attribute filters and crop are driven on point topology only (their documented domain; on triangles they are corner-wise); the crop box is the closed box [centre - size/2, centre + size/2] of geometry.NewAABB(centre, size), bounds evaluated in float64",
			"Laplacian smoothing: vertices without neighbours are don't-care (polyform divides by a zero neighbour count); a triangle that repeats a vertex id makes that vertex its own neighbour in polyform's table - both readings (self included / excluded) are accepted",
			"flat normals: a vertex with a (near-)degenerate incident face, and smooth normals: a vertex whose area-weighted sum cancels to (near) zero, are don't-care (the unit vector is ill-conditioned or undefined there)",
			"remove-null-faces: a face whose area is within 1e-9 (relative to |e1||e2|) of the threshold may be kept or dropped",
			"weld: materials of the result are not examined (polyform documents that it clears them); rounding cell = round(x*10^d) per component (half away from zero), as defined by the library",
			"normalise: meshes whose longest vector is 0 are skipped (division by zero, NaN result)",
			"tolerances: exact (bit-equal, -0 == +0) where the map is a single IEEE operation per component (translate, scale about the origin) and for everything an operation must leave untouched; 1e-9 relative to the magnitudes involved elsewhere",
		},
		MinNontrivial: map[string]int{"quick": 400, "thorough": 4000},
		MinObserved: map[string]int64{
			"ops":                       30,
			"nontrivial.meshops.Unweld": 100,
			"nontrivial.meshops.RemovedUnreferencedVertices": 30,
			"nontrivial.meshops.FlipTriangleWinding":         100,
			"nontrivial.meshops.RemoveNullFaces3D":           50,
			"nontrivial.Mesh.WeldByFloat3Attribute":          50,
			"nontrivial.weld∘unweld":                         50,
			"nontrivial.Mesh.ToPointCloud":                   100,
			"sequences.remove_unreferenced":                  1000,
			"sequences.filter":                               1000,
			"sequences.split":                                500,
			"weld.stride_exponents":                          10,
			"weld.stride_pairs":                              2000,
			"weld.distinct_cells_congruent_mod_2^15":         2000,
			"null_faces.slivers_kept_checked":                3000,
			"null_faces.slivers_dropped_checked":             300,
			"null_faces.sliver_aspect_decades":               6,
			"large.point_clouds":                             5,
			"large.triangle_meshes":                          3,
			"large.filter_and_crop_runs":                     60,
			"derive_twice.bases_with_spare_capacity":         500,
			"reverified_outputs":                             100000,
			"nontrivial.Mesh.Append":                         100,
			"nontrivial.repeat.Mesh":                         100,
			"nontrivial.meshops.SplitOnUniqueMaterials":      100,
			"split.zero_range_positions":                     3,
			"nontrivial.meshops.FilterFloat1":                30,
			"nontrivial.meshops.FilterFloat2":                30,
			"nontrivial.meshops.FilterFloat3":                30,
			"nontrivial.meshops.FilterFloat4":                30,
			"nontrivial.meshops.CropFloat3Attribute":         30,
			"crop.kept_points_exactly_on_a_box_face":         200,
			"nontrivial.Mesh.Transform(layout chain)":        100,
			"nontrivial.flip∘flip":                           100,
			"nontrivial.meshops.SmoothNormals":               50,
			"nontrivial.meshops.FlatNormals":                 50,
			"nontrivial.meshops.LaplacianSmooth":             50,
			"nontrivial.meshops.CenterFloat3Attribute":       50,
			"nontrivial.meshops.NormalizeAttribute3D":        50,
			"nontrivial.Mesh.ApplyTRS":                       50,
			"nontrivial.meshops.TranslateAttribute3D":        50,
			"nontrivial.meshops.ScaleAttribute3D":            50,
			"nontrivial.meshops.RotateAttribute3D":           50,
			"nontrivial.meshops.LaplacianSmoothAlongAxis":    30,
			"nontrivial.Mesh.Rotate":                         50,
			"nontrivial.Mesh.Scale":                          50,
			"nontrivial.Mesh.Translate":                      50,
		},
		Phases: []run.Phase{
			{Name: "layout", Cases: n(6000, 300000), Run: layoutCase, Batch: 250, CPUBudgetS: 20},
			{Name: "combine", Cases: n(5000, 250000), Run: combineCase, Batch: 250, CPUBudgetS: 20},
			{Name: "filter", Cases: n(4000, 200000), Run: filterCase, Batch: 250, CPUBudgetS: 20},
			// large: schedule- and size-dependent behaviour (code paths that only large inputs
			// take, goroutine fan-out). One case per worker child, GOMAXPROCS >= 4.
			{Name: "large", Cases: n(10, 120), Run: largeCase, Batch: 1, CPUBudgetS: 900, Parallel: 8,
				Env: func(b int) []string { return []string{fmt.Sprintf("GOMAXPROCS=%d", []int{4, 8, 16}[b%3])} }},
			{Name: "transform", Cases: n(6000, 300000), Run: transformCase, Batch: 250, CPUBudgetS: 20},
		},
	}
}

// ---------------------------------------------------------------------------
// float helpers

// tolK: relative tolerance where the order of the floating-point operations is not part of the contract.
const tolK = 1e-9

func fbits(f float64) uint64 {
	if f == 0 {
		return 0 // -0 == +0
	}
	if f != f {
		return 0x7ff8000000000001
	}
	return math.Float64bits(f)
}

func sameBits(a, b float64) bool { return fbits(a) == fbits(b) }

func sameTuple(a, b []float64) bool {
	if len(a) != len(b) {
		return false
	}
	for i := range a {
		if fbits(a[i]) != fbits(b[i]) {
			return false
		}
	}
	return true
}

func maxAbs(vs ...float64) float64 {
	m := 0.0
	for _, v := range vs {
		if a := math.Abs(v); a > m {
			m = a
		}
	}
	return m
}

// ---------------------------------------------------------------------------
// the model of a mesh the references work on: a deep copy of what the accessors report

func kOf(t modeling.Topology) int {
	switch t {
	case modeling.TriangleTopology:
		return 3
	case modeling.QuadTopology:
		return 4
	case modeling.LineTopology:
		return 2
	}
	return 1 // points; line strips are viewed as the sequence of their vertices
}

func arityOf(key string) int { return int(key[0] - '0') }

type model struct {
	s     *ref.Snapshot
	names []string // sorted "arity:name"
	off   map[string]int
	W     int // width of a vertex tuple
	L     int // vertex count
	K     int // corners per primitive
	// cached corner view over names (large meshes are viewed many times)
	cachedPrims [][]float64
}

func newModel(s *ref.Snapshot) *model {
	m := &model{s: s, names: s.Names, off: map[string]int{}, K: kOf(s.Topology)}
	for _, n := range s.Names {
		m.off[n] = m.W
		m.W += arityOf(n)
		m.L = len(s.Data[n]) / arityOf(n)
	}
	return m
}

func (m *model) has(key string) bool { _, ok := m.off[key]; return ok }

// namesOfArity lists the attribute keys of one arity.
func (m *model) namesOfArity(a int) []string {
	var out []string
	for _, n := range m.names {
		if arityOf(n) == a {
			out = append(out, n)
		}
	}
	return out
}

// vertOver returns the tuple of vertex v over a list of attribute keys; keys the
// mesh does not carry are zero-filled (the Append contract).
func (m *model) vertOver(v int, keys []string) []float64 {
	var t []float64
	for _, n := range keys {
		a := arityOf(n)
		d, ok := m.s.Data[n]
		if !ok {
			for j := 0; j < a; j++ {
				t = append(t, 0)
			}
			continue
		}
		t = append(t, d[v*a:(v+1)*a]...)
	}
	return t
}

func (m *model) vert(v int) []float64 { return m.vertOver(v, m.names) }

func (m *model) attr(key string, v int) []float64 {
	a := arityOf(key)
	return m.s.Data[key][v*a : (v+1)*a]
}

func (m *model) nPrims() int { return len(m.s.Indices) / m.K }

// primsOver is the corner view: for every primitive the concatenation of its
// corners' tuples over keys.
func (m *model) primsOver(keys []string) [][]float64 {
	np := m.nPrims()
	out := make([][]float64, np)
	for p := 0; p < np; p++ {
		var t []float64
		for c := 0; c < m.K; c++ {
			t = append(t, m.vertOver(m.s.Indices[p*m.K+c], keys)...)
		}
		out[p] = t
	}
	return out
}

func (m *model) prims() [][]float64 {
	if m.cachedPrims == nil {
		m.cachedPrims = m.primsOver(m.names)
	}
	return m.cachedPrims
}

func sameNames(a, b []string) bool { return strings.Join(a, "|") == strings.Join(b, "|") }

func widthOf(keys []string) int {
	w := 0
	for _, k := range keys {
		w += arityOf(k)
	}
	return w
}

// fmtTuple renders one corner tuple with attribute names.
func fmtTuple(t []float64, keys []string) string {
	var sb strings.Builder
	o := 0
	for _, k := range keys {
		a := arityOf(k)
		if o+a > len(t) {
			break
		}
		fmt.Fprintf(&sb, "%s=%v ", k[2:], t[o:o+a])
		o += a
	}
	return strings.TrimSpace(sb.String())
}

func fmtPrim(p []float64, keys []string, K int) string {
	w := widthOf(keys)
	var parts []string
	for c := 0; c < K && (c+1)*w <= len(p); c++ {
		parts = append(parts, "{"+fmtTuple(p[c*w:(c+1)*w], keys)+"}")
	}
	s := strings.Join(parts, " ")
	if len(s) > 500 {
		s = s[:500] + "…"
	}
	return s
}

func primKey(p []float64) string {
	var sb strings.Builder
	for _, f := range p {
		fmt.Fprintf(&sb, "%x,", fbits(f))
	}
	return sb.String()
}

// seqDiff compares an expected and an observed primitive sequence bit for bit.
// label(i) names the i-th expected primitive in terms of the input.
func seqDiff(want, got [][]float64, keys []string, K int, label func(i int) string) string {
	n := len(want)
	if len(got) < n {
		n = len(got)
	}
	first := -1
	for i := 0; i < n; i++ {
		if !sameTuple(want[i], got[i]) {
			first = i
			break
		}
	}
	if first == -1 && len(want) == len(got) {
		return ""
	}
	var sb strings.Builder
	fmt.Fprintf(&sb, "expected %d primitives, observed %d", len(want), len(got))
	if first >= 0 {
		fmt.Fprintf(&sb, "; first difference at output primitive %d (expected %s): expected %s, observed %s",
			first, label(first), fmtPrim(want[first], keys, K), fmtPrim(got[first], keys, K))
	} else if len(want) > len(got) {
		fmt.Fprintf(&sb, "; output ends early, next expected is %s: %s", label(n), fmtPrim(want[n], keys, K))
	} else {
		fmt.Fprintf(&sb, "; surplus output primitive %d: %s", n, fmtPrim(got[n], keys, K))
	}
	// multiset difference: what is missing / invented
	cnt := map[string]int{}
	for _, p := range got {
		cnt[primKey(p)]++
	}
	missing := 0
	var miss []string
	for i, p := range want {
		k := primKey(p)
		if cnt[k] > 0 {
			cnt[k]--
		} else {
			missing++
			if len(miss) < 3 {
				miss = append(miss, label(i))
			}
		}
	}
	extra := 0
	for _, c := range cnt {
		extra += c
	}
	fmt.Fprintf(&sb, "; as multisets: %d expected primitives missing %v, %d observed primitives not expected", missing, miss, extra)
	return sb.String()
}

// ---------------------------------------------------------------------------
// per-case context

type opctx struct {
	c    *run.Ctx
	res  *run.Result
	r    *rand.Rand
	mesh modeling.Mesh
	d    gen.MeshDesc
	in   *ref.Snapshot
	im   *model
	// params collects the parameter classes used, for the signature
	params []string
	// dropSeen: some dropping operation had >= 1 surviving and >= 1 dropped primitive
	dropSeen bool
	// retained: every result produced during the case with its observable state at
	// the time it was produced; re-read after all operations of the case have run
	retained []retainedOut
	// noRetain: phase large does not keep every (huge) result until the end of the case
	noRetain bool
	// subs: contexts of further meshes used by the same case (call sequences)
	subs []*opctx
}

type retainedOut struct {
	site string
	mesh modeling.Mesh
	snap *ref.Snapshot
}

func newOpctx(c *run.Ctx, res *run.Result, m modeling.Mesh, d gen.MeshDesc) *opctx {
	s := ref.Snap(m)
	o := &opctx{c: c, res: res, r: c.Rng, mesh: m, d: d, in: s, im: newModel(s)}
	res.SetAdd("topologies", d.Topology)
	res.SetAdd("index_patterns", d.IndexPattern)
	res.SetAdd("value_classes", d.ValueClass)
	res.SetAdd("attr_mixes", strings.Join(d.Attrs, ","))
	res.Count("meshes", 1)
	if d.Shared {
		res.Count("meshes.shared_vertices", 1)
	}
	if d.Unreferenced {
		res.Count("meshes.unreferenced_vertices", 1)
	}
	if d.DupPositions {
		res.Count("meshes.duplicated_positions", 1)
	}
	if d.Materials > 0 {
		res.Count("meshes.with_materials", 1)
	}
	if d.Verts == 0 {
		res.Count("meshes.empty", 1)
	}
	return o
}

func (o *opctx) inputClass() string {
	return fmt.Sprintf("%s %s idx=%s attrs=[%s]", o.d.Topology, o.d.ValueClass, o.d.IndexPattern, strings.Join(o.d.Attrs, ","))
}

// witnessOf materialises a mesh for the replay file when it is small.
func witnessOf(s *ref.Snapshot) map[string]any {
	w := map[string]any{"topology": s.Topology.String()}
	total := len(s.Indices)
	for _, d := range s.Data {
		total += len(d)
	}
	if total > 400 {
		w["note"] = fmt.Sprintf("mesh too large to inline (%d numbers); re-run the case from its seed", total)
		w["indices"] = len(s.Indices)
		w["attributes"] = s.Names
		return w
	}
	w["indices"] = s.Indices
	at := map[string]any{}
	for k, d := range s.Data {
		at[k] = d
	}
	w["attributes"] = at
	if len(s.MatCount) > 0 {
		var ms []string
		for i := range s.MatCount {
			ms = append(ms, fmt.Sprintf("%d×%s@%p", s.MatCount[i], s.MatVal[i].Name, s.MatPtr[i]))
		}
		w["materials"] = ms
	}
	return w
}

func (o *opctx) violate(class, site, detail string, extra ...any) {
	w := map[string]any{"input": witnessOf(o.in)}
	for i := 0; i+1 < len(extra); i += 2 {
		w[fmt.Sprint(extra[i])] = extra[i+1]
	}
	o.res.Violate(class, site, o.inputClass(), detail, w)
}

// call runs one polyform operation whose documented precondition is met by
// construction. Any panic is then a refutation: the operation did not do what it
// says. The result must be well-formed before a reference is applied to it.
func (o *opctx) call(site string, f func() modeling.Mesh, extra ...any) (*ref.Snapshot, bool) {
	_, s, ok := o.callMesh(site, f, extra...)
	return s, ok
}

// callMesh is call that also hands back the mesh, for operations derived from it later.
func (o *opctx) callMesh(site string, f func() modeling.Mesh, extra ...any) (modeling.Mesh, *ref.Snapshot, bool) {
	o.c.Note(site)
	o.res.SetAdd("ops", site)
	o.res.Count("calls."+site, 1)
	var out modeling.Mesh
	if p := run.Try(func() { out = f() }); p != nil {
		class := "panic"
		if p.Runtime {
			class = "runtime-panic"
		}
		o.violate(class, site, fmt.Sprintf("panicked on a well-formed input that meets the documented precondition: %s (in %s)", p.Value, p.Site), extra...)
		return out, nil, false
	}
	if err := ref.WF(out); err != nil {
		o.violate("malformed-output", site, "result is not well-formed: "+err.Error(), extra...)
		return out, nil, false
	}
	snap := ref.Snap(out)
	o.retain(site, out, snap)
	return out, snap, true
}

func (o *opctx) retain(site string, m modeling.Mesh, snap *ref.Snapshot) {
	if o.noRetain {
		return
	}
	o.retained = append(o.retained, retainedOut{site, m, snap})
}

// stillSame re-reads one earlier result: a result that was right when it was
// produced must still read the same after later operations (an operation does
// "nothing else": it must not write into storage an earlier result still uses).
func (o *opctx) stillSame(r retainedOut, later []string, extra ...any) bool {
	now := ref.Snap(r.mesh)
	d := r.snap.Diff(now)
	if d == "" {
		o.res.Count("reverified_outputs", 1)
		return true
	}
	w := []any{"result_when_produced", witnessOf(r.snap), "result_now", witnessOf(now), "later_operations", later}
	o.violate("output-changed-later", r.site, fmt.Sprintf("the result of %s read differently after the later operations of the case %v than when it was produced: %s", r.site, later, d), append(w, extra...)...)
	return false
}

// reverify re-reads every result of the case after all its operations have run.
func (o *opctx) reverify() {
	for _, s := range o.subs {
		s.reverify()
	}
	for i, r := range o.retained {
		var later []string
		for _, l := range o.retained[i+1:] {
			if len(later) < 12 {
				later = append(later, l.site)
			}
		}
		if !o.stillSame(r, later) {
			return
		}
	}
}

// must unwraps a Transformer result: the precondition is met, so an error is a refutation
// (it is turned into a panic that call() reports).
func must(m modeling.Mesh, err error) modeling.Mesh {
	if err != nil {
		panic(fmt.Errorf("transformer returned an error although its precondition is met: %w", err))
	}
	return m
}

func (o *opctx) nontrivial(site string, cond bool) {
	if cond {
		o.res.Count("nontrivial."+site, 1)
	}
}

func (o *opctx) param(format string, a ...any) {
	o.params = append(o.params, fmt.Sprintf(format, a...))
}

// nonIdentity: the mesh has primitives and its index list is not 0,1,2,…
func (o *opctx) nonIdentity() bool { return o.im.nPrims() > 0 && !o.d.Identity }

func (o *opctx) finish(needDrop bool) {
	o.reverify()
	o.res.Sig = o.d.Sig() + "|" + strings.Join(o.params, ";")
	o.res.Nontrivial = o.nonIdentity() && (!needDrop || o.dropSeen)
	sample := map[string]any{"mesh": o.d, "params": o.params}
	if o.im.L <= 6 {
		sample["input"] = witnessOf(o.in)
	}
	o.res.Sample = sample
}

// ---------------------------------------------------------------------------
// comparisons of whole snapshots

func matDiff(a, b *ref.Snapshot) string {
	if len(a.MatCount) != len(b.MatCount) {
		return fmt.Sprintf("%d material ranges -> %d", len(a.MatCount), len(b.MatCount))
	}
	for i := range a.MatCount {
		if a.MatCount[i] != b.MatCount[i] || a.MatPtr[i] != b.MatPtr[i] {
			return fmt.Sprintf("material range %d: (%d × %s) -> (%d × %s)", i, a.MatCount[i], a.MatVal[i].Name, b.MatCount[i], b.MatVal[i].Name)
		}
		if fmt.Sprintf("%+v", a.MatVal[i]) != fmt.Sprintf("%+v", b.MatVal[i]) {
			return fmt.Sprintf("material %d: fields changed", i)
		}
	}
	return ""
}

func indexDiff(a, b []int) string {
	if len(a) != len(b) {
		return fmt.Sprintf("index count %d -> %d", len(a), len(b))
	}
	for i := range a {
		if a[i] != b[i] {
			return fmt.Sprintf("index[%d] %d -> %d", i, a[i], b[i])
		}
	}
	return ""
}

// untouchedExcept checks that out equals in bit for bit in topology, indices,
// materials, the attribute set (in's plus target) and every attribute other than target.
func untouchedExcept(in, out *ref.Snapshot, target string) (class, detail string) {
	if in.Topology != out.Topology {
		return "topology-changed", fmt.Sprintf("topology %v -> %v", in.Topology, out.Topology)
	}
	if d := indexDiff(in.Indices, out.Indices); d != "" {
		return "indices-changed", d
	}
	if d := matDiff(in, out); d != "" {
		return "materials-changed", d
	}
	want := append([]string{}, in.Names...)
	if target != "" {
		found := false
		for _, n := range want {
			if n == target {
				found = true
			}
		}
		if !found {
			want = append(want, target)
			sort.Strings(want)
		}
	}
	if !sameNames(want, out.Names) {
		return "attribute-set-changed", fmt.Sprintf("attributes %v -> %v (expected %v)", in.Names, out.Names, want)
	}
	for _, k := range in.Names {
		if k == target {
			continue
		}
		a, b := in.Data[k], out.Data[k]
		if len(a) != len(b) {
			return "other-attribute-changed", fmt.Sprintf("attribute %s has %d components, had %d", k, len(b), len(a))
		}
		for i := range a {
			if fbits(a[i]) != fbits(b[i]) {
				ar := arityOf(k)
				return "other-attribute-changed", fmt.Sprintf("attribute %s of vertex %d component %d: %v -> %v (the operation must not touch it)", k[2:], i/ar, i%ar, a[i], b[i])
			}
		}
	}
	return "", ""
}

func pick[T any](r *rand.Rand, xs []T) T { return xs[r.Intn(len(xs))] }

func maxVerts(c *run.Ctx) int {
	if c.Tier == "thorough" && c.Rng.Intn(25) == 0 {
		return 300
	}
	return 40
}
