package c03

import (
	"fmt"
	"math"
	"sort"

	"github.com/EliCDavis/polyform/modeling"
	"github.com/EliCDavis/polyform/modeling/meshops"
	"github.com/EliCDavis/vector/vector2"
	"polyverif/internal/gen"
	"polyverif/internal/ref"
	"polyverif/internal/run"
)

// transformCase: the operations that transform one attribute by a stated map and
// must leave indices, topology, materials and every other attribute bit-identical.
func transformCase(c *run.Ctx) run.Result {
	var res run.Result
	r := c.Rng
	topos := []modeling.Topology{
		modeling.TriangleTopology, modeling.TriangleTopology, modeling.TriangleTopology, modeling.TriangleTopology,
		modeling.TriangleTopology, modeling.TriangleTopology, modeling.PointTopology, modeling.QuadTopology,
		modeling.LineTopology, modeling.LineStripTopology,
	}
	m, d := gen.Mesh(r, gen.MeshOpts{Topologies: []modeling.Topology{pick(r, topos)}, MaxVerts: maxVerts(c),
		Materials: true, NoPositionOK: true})
	o := newOpctx(c, &res, m, d)
	posKey := "3:" + modeling.PositionAttribute
	v3n := o.im.namesOfArity(3)
	v2n := o.im.namesOfArity(2)
	hasPos := o.im.has(posKey)

	if len(v3n) > 0 {
		o.checkTranslate(hasPos, v3n)
		o.checkScale(hasPos, v3n)
		o.checkRotate(hasPos, v3n)
		o.checkCenter(pickV3(o, v3n))
		o.checkNormalize3(pickV3(o, v3n))
		if o.im.has("3:"+modeling.NormalAttribute) || len(v3n) >= 2 {
			o.checkScaleAlongNormal(v3n)
		}
	}
	if hasPos {
		o.checkApplyTRS()
	}
	if len(v2n) > 0 {
		o.checkScale2(pick(r, v2n))
		o.checkNormalize2(pick(r, v2n))
	}
	if m.Topology() == modeling.TriangleTopology && hasPos {
		o.checkSmoothNormals()
		o.checkFlatNormals()
	}
	switch m.Topology() {
	case modeling.TriangleTopology, modeling.LineTopology, modeling.LineStripTopology:
		if len(v3n) > 0 {
			o.checkLaplacian(pickV3(o, v3n))
		}
	}
	o.finish(false)
	return res
}

// wantFn gives, for vertex v, the expected value of the target attribute, the
// absolute tolerance per component (0 = bit-exact) and whether the vertex is don't-care.
type wantFn func(v int) (want []float64, tol float64, dontCare bool)

// checkTarget: everything but the target attribute is bit-identical to the input,
// the target attribute follows the reference map.
func (o *opctx) checkTarget(site, target string, out *ref.Snapshot, want wantFn, extra ...any) bool {
	if cl, d := untouchedExcept(o.in, out, target); d != "" {
		o.violate(cl, site, fmt.Sprintf("the operation transforms %s only; %s", target[2:], d), extra...)
		return false
	}
	ar := arityOf(target)
	g := out.Data[target]
	if len(g) != o.im.L*ar {
		o.violate("target-mismatch", site, fmt.Sprintf("attribute %s has %d entries for %d vertices", target[2:], len(g)/ar, o.im.L), extra...)
		return false
	}
	var nExact, nTol, nDC int64
	for v := 0; v < o.im.L; v++ {
		w, tol, dc := want(v)
		if dc {
			nDC++
			continue
		}
		for i := 0; i < ar; i++ {
			gv := g[v*ar+i]
			okv := sameBits(w[i], gv)
			if !okv && tol > 0 && !math.IsNaN(gv) && !math.IsInf(gv, 0) {
				okv = math.Abs(w[i]-gv) <= tol
			}
			if !okv {
				was := "absent"
				if o.im.has(target) {
					was = fmt.Sprint(o.im.attr(target, v))
				}
				how := "exactly"
				if tol > 0 {
					how = fmt.Sprintf("within %.3g", tol)
				}
				o.violate("target-mismatch", site, fmt.Sprintf("vertex %d: %s was %s, expected %v (%s), observed %v", v, target[2:], was, w, how, g[v*ar:(v+1)*ar]), extra...)
				return false
			}
		}
		if tol > 0 {
			nTol += int64(ar)
		} else {
			nExact += int64(ar)
		}
	}
	o.res.Count("values_compared_exact", nExact)
	o.res.Count("values_compared_tolerance", nTol)
	o.res.Count("dontcare_vertices", nDC)
	o.res.Count("untouched_checks", 1)
	return true
}

func (o *opctx) checkTranslate(hasPos bool, v3n []string) {
	cl := pick(o.r, vecClasses)
	amt := genVec(o.r, cl)
	variant := o.r.Intn(3)
	if !hasPos && variant == 0 {
		variant = 1
	}
	target := "3:" + modeling.PositionAttribute
	if variant != 0 {
		target = pickV3(o, v3n)
	}
	site := []string{"Mesh.Translate", "meshops.TranslateAttribute3D", "meshops.TranslateAttribute3D"}[variant]
	o.param("translate(%s,%s)", target[2:], cl)
	extra := []any{"attribute", target[2:], "amount", amt}
	out, ok := o.call(site, func() modeling.Mesh {
		switch variant {
		case 0:
			return o.mesh.Translate(v3(amt))
		case 1:
			return meshops.TranslateAttribute3D(o.mesh, target[2:], v3(amt))
		}
		name := target[2:]
		if name == modeling.PositionAttribute && o.r.Intn(2) == 0 {
			name = "" // falls back to the position
		}
		return must(meshops.TranslateAttribute3DTransformer{Attribute: name, Amount: v3(amt)}.Transform(o.mesh))
	}, extra...)
	if !ok {
		return
	}
	if o.checkTarget(site, target, out, func(v int) ([]float64, float64, bool) {
		p := o.im.attr(target, v)
		return []float64{p[0] + amt[0], p[1] + amt[1], p[2] + amt[2]}, 0, false
	}, extra...) {
		o.nontrivial(site, o.nonIdentity())
	}
}

func (o *opctx) checkScale(hasPos bool, v3n []string) {
	cl := pick(o.r, vecClasses)
	amt := genVec(o.r, cl)
	variant := o.r.Intn(3)
	if !hasPos && variant == 0 {
		variant = 1
	}
	target := "3:" + modeling.PositionAttribute
	var org [3]float64
	ocl := "zero"
	if variant != 0 {
		target = pickV3(o, v3n)
		ocl = pick(o.r, []string{"zero", "zero", "int", "general", "huge"})
		org = genVec(o.r, ocl)
	}
	site := []string{"Mesh.Scale", "meshops.ScaleAttribute3D", "meshops.ScaleAttribute3D"}[variant]
	o.param("scale(%s,%s,origin=%s)", target[2:], cl, ocl)
	extra := []any{"attribute", target[2:], "amount", amt, "origin", org}
	out, ok := o.call(site, func() modeling.Mesh {
		switch variant {
		case 0:
			return o.mesh.Scale(v3(amt))
		case 1:
			return meshops.ScaleAttribute3D(o.mesh, target[2:], v3(org), v3(amt))
		}
		return must(meshops.ScaleAttribute3DTransformer{Attribute: target[2:], Origin: v3(org), Amount: v3(amt)}.Transform(o.mesh))
	}, extra...)
	if !ok {
		return
	}
	zeroOrigin := org == [3]float64{}
	if o.checkTarget(site, target, out, func(v int) ([]float64, float64, bool) {
		p := o.im.attr(target, v)
		if zeroOrigin {
			return []float64{p[0] * amt[0], p[1] * amt[1], p[2] * amt[2]}, 0, false
		}
		w := make([]float64, 3)
		mag := 0.0
		for i := range w {
			d := (p[i] - org[i]) * amt[i]
			w[i] = org[i] + d
			mag = maxAbs(mag, d, org[i], p[i], p[i]*amt[i])
		}
		return w, tolK * mag, false
	}, extra...) {
		o.nontrivial(site, o.nonIdentity())
	}
}

func (o *opctx) checkScale2(target string) {
	const site = "meshops.ScaleAttribute2D"
	a3 := genVec(o.r, pick(o.r, vecClasses))
	o3 := genVec(o.r, pick(o.r, []string{"zero", "int", "general"}))
	amt, org := [2]float64{a3[0], a3[1]}, [2]float64{o3[0], o3[1]}
	extra := []any{"attribute", target[2:], "amount", amt, "origin", org}
	viaT := o.r.Intn(2) == 0
	out, ok := o.call(site, func() modeling.Mesh {
		if viaT {
			name := target[2:]
			if name == modeling.TexCoordAttribute && o.r.Intn(2) == 0 {
				name = ""
			}
			return must(meshops.ScaleAttribute2DTransformer{Attribute: name, Origin: vector2.New(org[0], org[1]), Amount: vector2.New(amt[0], amt[1])}.Transform(o.mesh))
		}
		return meshops.ScaleAttribute2D(o.mesh, target[2:], vector2.New(org[0], org[1]), vector2.New(amt[0], amt[1]))
	}, extra...)
	if !ok {
		return
	}
	zeroOrigin := org == [2]float64{}
	o.checkTarget(site, target, out, func(v int) ([]float64, float64, bool) {
		p := o.im.attr(target, v)
		if zeroOrigin {
			return []float64{p[0] * amt[0], p[1] * amt[1]}, 0, false
		}
		w := make([]float64, 2)
		mag := 0.0
		for i := range w {
			d := (p[i] - org[i]) * amt[i]
			w[i] = org[i] + d
			mag = maxAbs(mag, d, org[i], p[i], p[i]*amt[i])
		}
		return w, tolK * mag, false
	}, extra...)
}

func (o *opctx) checkRotate(hasPos bool, v3n []string) {
	q, rot, cl := genRotation(o.r)
	variant := o.r.Intn(3)
	if !hasPos && variant == 0 {
		variant = 1
	}
	target := "3:" + modeling.PositionAttribute
	if variant != 0 {
		target = pickV3(o, v3n)
	}
	site := []string{"Mesh.Rotate", "meshops.RotateAttribute3D", "meshops.RotateAttribute3D"}[variant]
	o.param("rotate(%s,%s)", target[2:], cl)
	o.res.SetAdd("rotation.classes", cl)
	extra := []any{"attribute", target[2:], "quaternion", q.ToArr()}
	out, ok := o.call(site, func() modeling.Mesh {
		switch variant {
		case 0:
			return o.mesh.Rotate(q)
		case 1:
			return meshops.RotateAttribute3D(o.mesh, target[2:], q)
		}
		return must(meshops.RotateAttribute3DTransformer{Attribute: target[2:], Amount: q}.Transform(o.mesh))
	}, extra...)
	if !ok {
		return
	}
	if o.checkTarget(site, target, out, func(v int) ([]float64, float64, bool) {
		p := o.im.attr(target, v)
		pv := [3]float64{p[0], p[1], p[2]}
		w := rot(pv)
		return w[:], tolK * len3(pv), false
	}, extra...) {
		o.nontrivial(site, o.nonIdentity())
	}
}

func (o *opctx) checkApplyTRS() {
	const site = "Mesh.ApplyTRS"
	target := "3:" + modeling.PositionAttribute
	t, rt := genTRS(o.r)
	o.param("trs(%s)", rt.class)
	extra := []any{"trs", rt.class, "t", rt.t, "s", rt.s, "q", t.Rotation().ToArr()}
	out, ok := o.call(site, func() modeling.Mesh { return o.mesh.ApplyTRS(t) }, extra...)
	if !ok {
		return
	}
	if o.checkTarget(site, target, out, func(v int) ([]float64, float64, bool) {
		w, mag := rt.apply(o.im.attr(target, v))
		return w[:], tolK * mag, false
	}, extra...) {
		o.nontrivial(site, o.nonIdentity())
	}
}

func (o *opctx) checkCenter(target string) {
	const site = "meshops.CenterFloat3Attribute"
	lo := [3]float64{math.Inf(1), math.Inf(1), math.Inf(1)}
	hi := [3]float64{math.Inf(-1), math.Inf(-1), math.Inf(-1)}
	for v := 0; v < o.im.L; v++ {
		p := o.im.attr(target, v)
		for i := 0; i < 3; i++ {
			lo[i], hi[i] = math.Min(lo[i], p[i]), math.Max(hi[i], p[i])
		}
	}
	ctr := [3]float64{(lo[0] + hi[0]) / 2, (lo[1] + hi[1]) / 2, (lo[2] + hi[2]) / 2}
	mag := maxAbs(lo[0], lo[1], lo[2], hi[0], hi[1], hi[2])
	o.param("centre(%s)", target[2:])
	viaT := o.r.Intn(3) == 0
	extra := []any{"attribute", target[2:], "aabb_min", lo, "aabb_max", hi}
	out, ok := o.call(site, func() modeling.Mesh {
		if viaT {
			return must(meshops.CenterAttribute3DTransformer{Attribute: target[2:]}.Transform(o.mesh))
		}
		return meshops.CenterFloat3Attribute(o.mesh, target[2:])
	}, extra...)
	if !ok {
		return
	}
	if o.checkTarget(site, target, out, func(v int) ([]float64, float64, bool) {
		p := o.im.attr(target, v)
		return []float64{p[0] - ctr[0], p[1] - ctr[1], p[2] - ctr[2]}, tolK * mag, false
	}, extra...) {
		o.nontrivial(site, o.nonIdentity())
	}
}

func (o *opctx) longest(target string) float64 {
	ar := arityOf(target)
	longest := 0.0
	for v := 0; v < o.im.L; v++ {
		s := 0.0
		for _, x := range o.im.attr(target, v)[:ar] {
			s += x * x
		}
		longest = math.Max(longest, math.Sqrt(s))
	}
	return longest
}

func (o *opctx) checkNormalize3(target string) {
	const site = "meshops.NormalizeAttribute3D"
	longest := o.longest(target)
	if longest == 0 {
		o.res.Count("skipped.normalise_zero_length", 1)
		return
	}
	o.param("normalise(%s)", target[2:])
	viaT := o.r.Intn(3) == 0
	extra := []any{"attribute", target[2:], "longest", longest}
	out, ok := o.call(site, func() modeling.Mesh {
		if viaT {
			return must(meshops.NormalizeAttribute3DTransformer{Attribute: target[2:]}.Transform(o.mesh))
		}
		return meshops.NormalizeAttribute3D(o.mesh, target[2:])
	}, extra...)
	if !ok {
		return
	}
	if o.checkTarget(site, target, out, func(v int) ([]float64, float64, bool) {
		p := o.im.attr(target, v)
		return []float64{p[0] / longest, p[1] / longest, p[2] / longest}, tolK, false
	}, extra...) {
		o.nontrivial(site, o.nonIdentity())
	}
}

func (o *opctx) checkNormalize2(target string) {
	const site = "meshops.NormalizeAttribute2D"
	longest := o.longest(target)
	if longest == 0 {
		o.res.Count("skipped.normalise_zero_length", 1)
		return
	}
	viaT := o.r.Intn(3) == 0
	extra := []any{"attribute", target[2:], "longest", longest}
	out, ok := o.call(site, func() modeling.Mesh {
		if viaT {
			return must(meshops.NormalizeAttribute2DTransformer{Attribute: target[2:]}.Transform(o.mesh))
		}
		return meshops.NormalizeAttribute2D(o.mesh, target[2:])
	}, extra...)
	if !ok {
		return
	}
	o.checkTarget(site, target, out, func(v int) ([]float64, float64, bool) {
		p := o.im.attr(target, v)
		return []float64{p[0] / longest, p[1] / longest}, tolK, false
	}, extra...)
}

func (o *opctx) checkScaleAlongNormal(v3n []string) {
	const site = "meshops.ScaleAttributeAlongNormal"
	target := pickV3(o, v3n)
	normal := "3:" + modeling.NormalAttribute
	if !o.im.has(normal) || o.r.Intn(4) == 0 {
		normal = pick(o.r, v3n)
	}
	amt := pick(o.r, []float64{0, 1, -1, 0.5, o.r.Float64()*10 - 5, 1e6, 1e-6})
	extra := []any{"attribute", target[2:], "normal", normal[2:], "amount", amt}
	viaT := o.r.Intn(3) == 0
	out, ok := o.call(site, func() modeling.Mesh {
		if viaT {
			return must(meshops.ScaleAttributeAlongNormalTransformer{AttributeToScale: target[2:], NormalAttribute: normal[2:], Amount: amt}.Transform(o.mesh))
		}
		return meshops.ScaleAttributeAlongNormal(o.mesh, target[2:], normal[2:], amt)
	}, extra...)
	if !ok {
		return
	}
	o.checkTarget(site, target, out, func(v int) ([]float64, float64, bool) {
		p, n := o.im.attr(target, v), o.im.attr(normal, v)
		w := []float64{p[0] + n[0]*amt, p[1] + n[1]*amt, p[2] + n[2]*amt}
		return w, tolK * maxAbs(p[0], p[1], p[2], n[0]*amt, n[1]*amt, n[2]*amt), false
	}, extra...)
}

// ---------------------------------------------------------------------------
// normals

// faceNormals returns, per triangle, the un-normalised normal (B-A)×(C-A) of the
// position attribute and |B-A|·|C-A| (the scale its rounding error is relative to).
func (o *opctx) faceNormals() (n [][3]float64, scale []float64) {
	pos := "3:" + modeling.PositionAttribute
	np := o.im.nPrims()
	n, scale = make([][3]float64, np), make([]float64, np)
	for t := 0; t < np; t++ {
		a, b, c := o.im.attr(pos, o.in.Indices[3*t]), o.im.attr(pos, o.in.Indices[3*t+1]), o.im.attr(pos, o.in.Indices[3*t+2])
		e1, e2 := sub3(b, a), sub3(c, a)
		n[t] = cross(e1, e2)
		scale[t] = len3(e1) * len3(e2)
	}
	return
}

func (o *opctx) checkSmoothNormals() {
	const site = "meshops.SmoothNormals"
	target := "3:" + modeling.NormalAttribute
	fn, _ := o.faceNormals()
	acc := make([][3]float64, o.im.L)
	mag := make([]float64, o.im.L)
	inc := make([]int, o.im.L)
	for t, n := range fn {
		for c := 0; c < 3; c++ {
			v := o.in.Indices[3*t+c]
			for i := 0; i < 3; i++ {
				acc[v][i] += n[i]
			}
			mag[v] += len3(n)
			inc[v]++
		}
	}
	viaT := o.r.Intn(3) == 0
	out, ok := o.call(site, func() modeling.Mesh {
		if viaT {
			return must(meshops.SmoothNormalsTransformer{}.Transform(o.mesh))
		}
		return meshops.SmoothNormals(o.mesh)
	})
	if !ok {
		return
	}
	compared := 0
	if o.checkTarget(site, target, out, func(v int) ([]float64, float64, bool) {
		l := len3(acc[v])
		if inc[v] == 0 || l <= 1e-6*mag[v] || l == 0 {
			return nil, 0, true // no incident face, or the weighted sum cancels: direction undefined / ill-conditioned
		}
		compared++
		return []float64{acc[v][0] / l, acc[v][1] / l, acc[v][2] / l}, tolK, false
	}) {
		o.res.Count("smooth_normals.vertices_compared", int64(compared))
		o.nontrivial(site, o.nonIdentity() && o.d.Shared && compared > 0)
	}
}

func (o *opctx) checkFlatNormals() {
	const site = "meshops.FlatNormals"
	target := "3:" + modeling.NormalAttribute
	fn, sc := o.faceNormals()
	cands := make([][][3]float64, o.im.L)
	bad := make([]bool, o.im.L)
	for t, n := range fn {
		l := len3(n)
		for c := 0; c < 3; c++ {
			v := o.in.Indices[3*t+c]
			if sc[t] == 0 || l <= 1e-6*sc[t] {
				bad[v] = true // a (near-)degenerate incident face: its unit normal is undefined
				continue
			}
			cands[v] = append(cands[v], [3]float64{n[0] / l, n[1] / l, n[2] / l})
		}
	}
	viaT := o.r.Intn(3) == 0
	out, ok := o.call(site, func() modeling.Mesh {
		if viaT {
			return must(meshops.FlatNormalsTransformer{}.Transform(o.mesh))
		}
		return meshops.FlatNormals(o.mesh)
	})
	if !ok {
		return
	}
	g := out.Data[target]
	compared := 0
	if o.checkTarget(site, target, out, func(v int) ([]float64, float64, bool) {
		if bad[v] || len(cands[v]) == 0 || len(g) < 3*(v+1) {
			return nil, 0, true
		}
		compared++
		// the normal of *some* incident face: take the candidate closest to what was observed
		best, bd := cands[v][0], math.Inf(1)
		for _, cnd := range cands[v] {
			d := maxAbs(cnd[0]-g[3*v], cnd[1]-g[3*v+1], cnd[2]-g[3*v+2])
			if !(d >= bd) {
				best, bd = cnd, d
			}
		}
		return best[:], tolK, false
	}) {
		o.res.Count("flat_normals.vertices_compared", int64(compared))
		o.nontrivial(site, o.nonIdentity() && compared > 0)
	}
}

// ---------------------------------------------------------------------------
// Laplacian smoothing

// neighbours builds the neighbour sets from the topology definition: the edges of
// every triangle, every segment of a line list / line strip.
func (o *opctx) neighbours(withSelf bool) (nb [][]int, selfLoops bool) {
	sets := make([]map[int]bool, o.im.L)
	link := func(a, b int) {
		if a == b {
			selfLoops = true
			if !withSelf {
				return
			}
		}
		if sets[a] == nil {
			sets[a] = map[int]bool{}
		}
		if sets[b] == nil {
			sets[b] = map[int]bool{}
		}
		sets[a][b], sets[b][a] = true, true
	}
	idx := o.in.Indices
	switch o.in.Topology {
	case modeling.TriangleTopology:
		for t := 0; t+2 < len(idx); t += 3 {
			link(idx[t], idx[t+1])
			link(idx[t+1], idx[t+2])
			link(idx[t+2], idx[t])
		}
	case modeling.LineTopology:
		for i := 0; i+1 < len(idx); i += 2 {
			link(idx[i], idx[i+1])
		}
	case modeling.LineStripTopology:
		for i := 0; i+1 < len(idx); i++ {
			link(idx[i], idx[i+1])
		}
	}
	nb = make([][]int, o.im.L)
	for v, s := range sets {
		for n := range s {
			nb[v] = append(nb[v], n)
		}
		sort.Ints(nb[v])
	}
	return
}

// laplacianRef: in-place sweep in vertex order; v += (mean(neighbours) - v)·λ (·|axis| when given).
func laplacianRef(start [][3]float64, nb [][]int, iters int, lambda float64, axis *[3]float64) (out [][3]float64, maxMag float64) {
	vs := append([][3]float64{}, start...)
	for _, v := range vs {
		maxMag = maxAbs(maxMag, v[0], v[1], v[2])
	}
	for it := 0; it < iters; it++ {
		for vi := range vs {
			if len(nb[vi]) == 0 {
				continue
			}
			var sum [3]float64
			for _, n := range nb[vi] {
				for i := 0; i < 3; i++ {
					sum[i] += vs[n][i]
				}
			}
			for i := 0; i < 3; i++ {
				d := (sum[i]/float64(len(nb[vi])) - vs[vi][i]) * lambda
				if axis != nil {
					d *= axis[i]
				}
				vs[vi][i] += d
				maxMag = maxAbs(maxMag, vs[vi][i])
			}
		}
	}
	return vs, maxMag
}

func (o *opctx) checkLaplacian(target string) {
	site := "meshops.LaplacianSmooth"
	iters := pick(o.r, []int{0, 1, 1, 2, 3, 4})
	lambda := pick(o.r, []float64{0, 0.1, 0.25, 0.5, 0.5, 0.75, 1, o.r.Float64(), o.r.Float64()})
	if o.r.Intn(8) == 0 { // outside [0,1]: over-relaxation / inflation, short runs only
		lambda = pick(o.r, []float64{-0.5, 1.5})
		if iters > 2 {
			iters = 2
		}
	}
	var axis *[3]float64
	var axisRaw [3]float64
	variant := o.r.Intn(4) // 0,1 direct; 2 transformer; 3 along axis
	if variant == 3 {
		site = "meshops.LaplacianSmoothAlongAxis"
		for {
			axisRaw = genVec(o.r, pick(o.r, []string{"int", "general", "mixed0", "negative"}))
			if len3(axisRaw) > 1e-3 {
				break
			}
		}
		l := len3(axisRaw)
		axis = &[3]float64{math.Abs(axisRaw[0] / l), math.Abs(axisRaw[1] / l), math.Abs(axisRaw[2] / l)}
	}
	o.param("laplacian(%s,it=%d,λ=%.2f,v%d)", target[2:], iters, lambda, variant)
	o.res.SetAdd("laplacian.iterations", fmt.Sprint(iters))
	extra := []any{"attribute", target[2:], "iterations", iters, "smoothingFactor", lambda}
	if axis != nil {
		extra = append(extra, "axis", axisRaw)
	}
	out, ok := o.call(site, func() modeling.Mesh {
		switch variant {
		case 2:
			return must(meshops.LaplacianSmoothTransformer{Attribute: target[2:], Iterations: iters, SmoothingFactor: lambda}.Transform(o.mesh))
		case 3:
			return meshops.LaplacianSmoothAlongAxis(o.mesh, target[2:], iters, lambda, v3(axisRaw))
		}
		return meshops.LaplacianSmooth(o.mesh, target[2:], iters, lambda)
	}, extra...)
	if !ok {
		return
	}
	start := make([][3]float64, o.im.L)
	for v := range start {
		p := o.im.attr(target, v)
		start[v] = [3]float64{p[0], p[1], p[2]}
	}
	nb, selfLoops := o.neighbours(true)
	want, mag := laplacianRef(start, nb, iters, lambda, axis)
	fn := func(nb [][]int, want [][3]float64, mag float64) wantFn {
		return func(v int) ([]float64, float64, bool) {
			if len(nb[v]) == 0 {
				return nil, 0, true
			}
			return want[v][:], tolK * mag, false
		}
	}
	if selfLoops && iters > 0 {
		// a triangle / segment that repeats a vertex id: "the neighbours of v" may or may not
		// include v itself. Accept the reading that excludes it when it explains the output.
		o.res.Count("laplacian.self_loop_cases", 1)
		nb2, _ := o.neighbours(false)
		want2, mag2 := laplacianRef(start, nb2, iters, lambda, axis)
		probe := run.Result{}
		alt := *o
		alt.res = &probe
		if alt.checkTarget(site, target, out, fn(nb2, want2, mag2), extra...) {
			o.res.Count("laplacian.self_excluded_reading_matched", 1)
			o.checkTarget(site, target, out, fn(nb2, want2, mag2), extra...)
			return
		}
	}
	if o.checkTarget(site, target, out, fn(nb, want, mag), extra...) {
		connected := 0
		for _, s := range nb {
			if len(s) > 0 {
				connected++
			}
		}
		o.nontrivial(site, o.nonIdentity() && iters > 0 && lambda != 0 && connected > 0)
	}
}
