package c03

import (
	"fmt"
	"math"

	"github.com/EliCDavis/polyform/math/geometry"
	"github.com/EliCDavis/polyform/modeling"
	"github.com/EliCDavis/polyform/modeling/meshops"
	"github.com/EliCDavis/vector/vector2"
	"github.com/EliCDavis/vector/vector3"
	"github.com/EliCDavis/vector/vector4"
	"polyverif/internal/gen"
	"polyverif/internal/ref"
	"polyverif/internal/run"
)

// filterCase: FilterFloat1..4 and CropFloat3Attribute on point clouds of every index pattern.
func filterCase(c *run.Ctx) run.Result {
	var res run.Result
	r := c.Rng
	m, d := gen.Mesh(r, gen.MeshOpts{Topologies: []modeling.Topology{modeling.PointTopology}, MaxVerts: maxVerts(c),
		AllowEmpty: true, NoPositionOK: true})
	// make sure all four arities are met often enough: add what the draw left out
	n := ref.AttrLen(m)
	if n > 0 {
		val := func() float64 { return gen.Value(r, d.ValueClass) }
		if len(m.Float1Attributes()) == 0 && r.Intn(2) == 0 {
			a := make([]float64, n)
			for i := range a {
				a[i] = val()
			}
			m = m.SetFloat1Attribute("userV1", a)
			d.Attrs = append(d.Attrs, "userV1")
		}
		if len(m.Float2Attributes()) == 0 && r.Intn(2) == 0 {
			a := make([]vector2.Float64, n)
			for i := range a {
				a[i] = vector2.New(val(), val())
			}
			m = m.SetFloat2Attribute("userV2", a)
			d.Attrs = append(d.Attrs, "userV2")
		}
		if len(m.Float4Attributes()) == 0 && r.Intn(2) == 0 {
			a := make([]vector4.Float64, n)
			for i := range a {
				a[i] = vector4.New(val(), val(), val(), val())
			}
			m = m.SetFloat4Attribute("userV4", a)
			d.Attrs = append(d.Attrs, "userV4")
		}
	}
	o := newOpctx(c, &res, m, d)
	for ar := 1; ar <= 4; ar++ {
		if names := o.im.namesOfArity(ar); len(names) > 0 {
			o.checkFilter(ar, pick(r, names))
		}
	}
	if v3 := o.im.namesOfArity(3); len(v3) > 0 {
		o.checkCrop(pickV3(o, v3))
	}
	o.checkFilterSequences()
	o.finish(true)
	return res
}

// genPredicate draws a predicate over a tuple of the given arity. thresholds are
// taken from the data so that both outcomes occur.
func (o *opctx) genPredicate(key string) (func(t []float64) bool, string) {
	ar := arityOf(key)
	data := o.in.Data[key]
	sample := func() float64 {
		if len(data) == 0 {
			return 0
		}
		return data[o.r.Intn(len(data))]
	}
	switch o.r.Intn(8) {
	case 0:
		return func([]float64) bool { return true }, "all"
	case 1:
		return func([]float64) bool { return false }, "none"
	case 2, 3:
		comp, th := o.r.Intn(ar), sample()
		return func(t []float64) bool { return t[comp] < th }, fmt.Sprintf("c%d<data", comp)
	case 4:
		comp, th := o.r.Intn(ar), sample()
		return func(t []float64) bool { return t[comp] >= th }, fmt.Sprintf("c%d>=data", comp)
	case 5:
		// inside a ball around a data point
		c := make([]float64, ar)
		for i := range c {
			c[i] = sample()
		}
		rad := math.Abs(sample()) + 0.5
		return func(t []float64) bool {
			s := 0.0
			for i := range t {
				s += (t[i] - c[i]) * (t[i] - c[i])
			}
			return s <= rad*rad
		}, "ball"
	case 6:
		// exact match with one data point: keeps the duplicates of one vertex only
		c := make([]float64, ar)
		if n := len(data) / ar; n > 0 {
			v := o.r.Intn(n)
			copy(c, data[v*ar:(v+1)*ar])
		}
		return func(t []float64) bool { return sameTuple(t, c) }, "equals-one-vertex"
	}
	th := sample()
	return func(t []float64) bool {
		s := 0.0
		for _, x := range t {
			s += x
		}
		return s > th*float64(ar)
	}, "sum>data"
}

// keepPoints is the contract of the filters and of crop on a point cloud: exactly
// the points satisfying the predicate survive, in order, with all their attributes.
func (o *opctx) keepPoints(site, key string, pred func([]float64) bool, out *ref.Snapshot, extra ...any) {
	if out.Topology != modeling.PointTopology {
		o.violate("topology-changed", site, fmt.Sprintf("topology -> %v", out.Topology), extra...)
		return
	}
	in := o.im.prims()
	var want [][]float64
	var from []int
	for i, v := range o.in.Indices {
		if pred(o.im.attr(key, v)) {
			want = append(want, in[i])
			from = append(from, i)
		}
	}
	om := newModel(out)
	got := om.primsOver(o.im.names)
	if len(want) > 0 && len(got) > 0 && !sameNames(o.im.names, om.names) {
		o.violate("attribute-set-changed", site, fmt.Sprintf("attributes %v -> %v", o.im.names, om.names), extra...)
		return
	}
	if d := seqDiff(want, got, o.im.names, 1, func(i int) string {
		return fmt.Sprintf("input point %d = vertex %d", from[i], o.in.Indices[from[i]])
	}); d != "" {
		// One specific way of failing gets its own signature: the result is exactly what
		// comes out when the index list is ignored and the vertex array is filtered
		// instead (unreferenced vertices become points, repeated points collapse, the
		// order is the vertex order). Anything else is a plain corner mismatch.
		var vv [][]float64
		for v := 0; v < o.im.L; v++ {
			if pred(o.im.attr(key, v)) {
				vv = append(vv, o.im.vert(v))
			}
		}
		if site == "meshops.CropFloat3Attribute" && seqDiff(vv, got, o.im.names, 1, func(int) string { return "" }) == "" {
			o.violate("index-list-ignored", site, fmt.Sprintf("the result is the filtered *vertex array* (%d of %d vertices, in vertex order), not the filtered point list (%d of %d points): %s",
				len(vv), o.im.L, len(want), len(in), d), extra...)
			return
		}
		o.violate("corner-mismatch", site, fmt.Sprintf("exactly the %d of %d points whose %s satisfies the predicate must survive, in order, with all their attributes: %s",
			len(want), len(in), key[2:], d), extra...)
		return
	}
	// the dropped points must be gone from the result, not merely unreferenced: the vertex
	// arrays of a point cloud are what ToPointCloud and the writers see
	refd := make([]bool, om.L)
	for _, v := range out.Indices {
		refd[v] = true
	}
	for v, b := range refd {
		if !b {
			o.violate("unreferenced-vertex-left", site, fmt.Sprintf("the %d surviving points are right, but vertex %d of the result (%d vertices) is referenced by no point: dropped points are still in the vertex arrays", len(got), v, om.L), extra...)
			return
		}
	}
	kept, dropped := len(want), len(in)-len(want)
	o.res.Count("corners_compared", int64(kept))
	o.res.Count("prims_survived", int64(kept))
	o.res.Count("prims_dropped", int64(dropped))
	nt := kept > 0 && dropped > 0
	if nt {
		o.dropSeen = true
	}
	o.nontrivial(site, nt && o.nonIdentity())
}

func (o *opctx) checkFilter(ar int, key string) {
	pred, pname := o.genPredicate(key)
	o.runFilter(ar, key, pred, pname)
}

// runFilter runs FilterFloat<ar> on attribute key with the given predicate and
// compares with the reference (exactly the satisfying points, in order).
func (o *opctx) runFilter(ar int, key string, pred func([]float64) bool, pname string) {
	site := fmt.Sprintf("meshops.FilterFloat%d", ar)
	o.param("filter%d(%s,%s)", ar, key[2:], pname)
	o.res.SetAdd("filter.predicates", pname)
	name := key[2:]
	viaT := o.r.Intn(3) == 0
	extra := []any{"attribute", name, "predicate", pname}
	out, ok := o.call(site, func() modeling.Mesh {
		switch ar {
		case 1:
			f := func(v float64) bool { return pred([]float64{v}) }
			if viaT {
				return must(meshops.FilterFloat1Transformer{Attribute: name, Filter: f}.Transform(o.mesh))
			}
			return meshops.FilterFloat1(o.mesh, name, f)
		case 2:
			f := func(v vector2.Float64) bool { return pred([]float64{v.X(), v.Y()}) }
			if viaT {
				return must(meshops.FilterFloat2Transformer{Attribute: name, Filter: f}.Transform(o.mesh))
			}
			return meshops.FilterFloat2(o.mesh, name, f)
		case 3:
			f := func(v vector3.Float64) bool { return pred([]float64{v.X(), v.Y(), v.Z()}) }
			if viaT {
				return must(meshops.FilterFloat3Transformer{Attribute: name, Filter: f}.Transform(o.mesh))
			}
			return meshops.FilterFloat3(o.mesh, name, f)
		}
		f := func(v vector4.Float64) bool { return pred([]float64{v.X(), v.Y(), v.Z(), v.W()}) }
		if viaT {
			return must(meshops.FilterFloat4Transformer{Attribute: name, Filter: f}.Transform(o.mesh))
		}
		return meshops.FilterFloat4(o.mesh, name, f)
	}, extra...)
	if !ok {
		return
	}
	o.keepPoints(site, key, pred, out, extra...)
}

// checkCrop: the closed box [centre-size/2, centre+size/2]. Centre and size are
// multiples of 1/8 so that the bounds are exact in any arithmetic; value class
// "smallint" puts points exactly on the faces of the box.
func (o *opctx) checkCrop(key string) {
	data := o.in.Data[key]
	q := func(x float64) float64 { return math.Round(x*8) / 8 }
	var ctr, size [3]float64
	class := pick(o.r, []string{"around-data", "around-data", "around-data", "everything", "nothing", "flat", "touching", "touching"})
	var pa, pb []float64
	if n := len(data) / 3; n > 0 {
		a, b := o.r.Intn(n), o.r.Intn(n)
		pa, pb = data[3*a:3*a+3], data[3*b:3*b+3]
	} else if class == "touching" {
		class = "around-data"
	}
	for i := 0; i < 3; i++ {
		c := 0.0
		if len(data) > 0 {
			c = data[3*o.r.Intn(len(data)/3)+i]
		}
		spread := maxAbs(data...)
		switch class {
		case "everything":
			ctr[i], size[i] = 0, q(4*spread+8)
		case "nothing":
			ctr[i], size[i] = q(3*spread+16), 1
		case "touching":
			// the box spanned by two data points: they (and whatever shares a coordinate
			// with them) lie exactly on its faces
			ctr[i], size[i] = (pa[i]+pb[i])/2, math.Abs(pa[i]-pb[i])
		case "flat":
			ctr[i], size[i] = q(c), q(spread*o.r.Float64())
			if i == 1 {
				size[i] = 0 // degenerate box: a plane; only points exactly on it
			}
		default:
			ctr[i], size[i] = q(c), q(spread*o.r.Float64()*1.5)+0.25
		}
	}
	o.runCrop(key, ctr, size, class)
}

// runCrop crops attribute key with the closed box [ctr-size/2, ctr+size/2].
func (o *opctx) runCrop(key string, ctr, size [3]float64, class string) {
	const site = "meshops.CropFloat3Attribute"
	lo := [3]float64{ctr[0] - size[0]/2, ctr[1] - size[1]/2, ctr[2] - size[2]/2}
	hi := [3]float64{ctr[0] + size[0]/2, ctr[1] + size[1]/2, ctr[2] + size[2]/2}
	pred := func(t []float64) bool {
		for i := 0; i < 3; i++ {
			if t[i] < lo[i] || t[i] > hi[i] {
				return false
			}
		}
		return true
	}
	onFace := 0
	for _, v := range o.in.Indices {
		t := o.im.attr(key, v)
		if pred(t) && (t[0] == lo[0] || t[0] == hi[0] || t[1] == lo[1] || t[1] == hi[1] || t[2] == lo[2] || t[2] == hi[2]) {
			onFace++
		}
	}
	o.res.Count("crop.kept_points_exactly_on_a_box_face", int64(onFace))
	o.param("crop(%s,%s)", key[2:], class)
	o.res.SetAdd("crop.box_classes", class)
	box := geometry.NewAABB(v3(ctr), v3(size))
	viaT := o.r.Intn(3) == 0
	extra := []any{"attribute", key[2:], "box_min", lo, "box_max", hi}
	out, ok := o.call(site, func() modeling.Mesh {
		if viaT {
			return must(meshops.CropAttribute3DTransformer{Attribute: key[2:], BoundingBox: box}.Transform(o.mesh))
		}
		return meshops.CropFloat3Attribute(o.mesh, key[2:], box)
	}, extra...)
	if !ok {
		return
	}
	o.keepPoints(site, key, pred, out, extra...)
}
