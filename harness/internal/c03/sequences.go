package c03

import (
	"fmt"
	"math"
	"math/rand"

	"github.com/EliCDavis/polyform/modeling"
	"github.com/EliCDavis/vector/vector2"
	"github.com/EliCDavis/vector/vector3"
	"github.com/EliCDavis/vector/vector4"
	"polyverif/internal/gen"
)

// Call sequences inside one case (one worker process): an operation must give the
// same result whatever was called before it. The sequences below pair a call that
// has nothing to remove (every vertex referenced / a filter that keeps everything)
// with a call on a mesh of equal or smaller vertex count that has something to
// remove, in both orders, several times - the shape in which state carried from
// one call to the next (pooled scratch tables, caches) shows.

// allArityMesh builds a mesh of n vertices carrying one attribute of every arity.
// referenced < n leaves the vertices referenced..n-1 unreferenced.
func allArityMesh(r *rand.Rand, topo modeling.Topology, n, referenced int, class string) (modeling.Mesh, gen.MeshDesc) {
	isz := topo.IndexSize()
	val := func() float64 { return gen.Value(r, class) }
	v1 := make([]float64, n)
	v2 := make([]vector2.Float64, n)
	pos := make([]vector3.Float64, n)
	v4 := make([]vector4.Float64, n)
	for i := 0; i < n; i++ {
		v1[i] = val()
		v2[i] = vector2.New(val(), val())
		pos[i] = vector3.New(val(), val(), val())
		v4[i] = vector4.New(val(), val(), val(), val())
	}
	var idx []int
	if referenced > 0 {
		// every vertex below `referenced` at least once (a permutation), then some more
		perm := r.Perm(referenced)
		idx = append(idx, perm...)
		for len(idx)%isz != 0 || r.Intn(3) == 0 {
			idx = append(idx, r.Intn(referenced))
		}
	}
	m := modeling.NewMesh(topo, idx).
		SetFloat1Attribute("userV1", v1).
		SetFloat2Attribute("userV2", v2).
		SetFloat3Attribute(modeling.PositionAttribute, pos).
		SetFloat4Attribute("userV4", v4)
	d := gen.MeshDesc{Topology: topo.String(), Verts: n, Prims: len(idx) / isz, IndexPattern: "all-referenced", ValueClass: class,
		Attrs: []string{"userV1", "userV2", "P", "userV4"}, Shared: true, Unreferenced: referenced < n}
	if referenced < n {
		d.IndexPattern = "unreferenced-tail"
	}
	return m, d
}

// sub opens a context for a second mesh of the same case (same result record).
func (o *opctx) sub(m modeling.Mesh, d gen.MeshDesc) *opctx {
	s := newOpctx(o.c, o.res, m, d)
	s.noRetain = o.noRetain
	o.subs = append(o.subs, s)
	return s
}

// seqPair draws a fully referenced mesh A and a mesh B with unreferenced vertices
// and a vertex count <= A's.
func (o *opctx) seqPair(topo modeling.Topology) (a, b *opctx) {
	r := o.r
	isz := topo.IndexSize()
	nA := isz * (1 + r.Intn(12))
	if nA < 2 {
		nA = 2 + r.Intn(24)
	}
	nB := 2 + r.Intn(nA-1) // 2 … nA
	if r.Intn(3) == 0 {
		nB = nA
	}
	refB := 1 + r.Intn(nB-1) // at least one vertex referenced, at least one not
	class := pick(r, []string{"smallint", "f32", "f64"})
	ma, da := allArityMesh(r, topo, nA, nA, class)
	mb, db := allArityMesh(r, topo, nB, refB, class)
	return o.sub(ma, da), o.sub(mb, db)
}

// checkRemoveUnreferencedSequences: remove-unreferenced on a fully referenced mesh
// and on a same-or-smaller mesh with unreferenced vertices, both orders, three rounds.
func (o *opctx) checkRemoveUnreferencedSequences() {
	a, b := o.seqPair(o.mesh.Topology())
	for round := 0; round < 3; round++ {
		a.checkRemoveUnreferenced()
		b.checkRemoveUnreferenced()
		b.checkRemoveUnreferenced()
		a.checkRemoveUnreferenced()
		if o.mesh.Topology() == modeling.TriangleTopology && round == 1 {
			// and through an operation that ends in remove-unreferenced
			a.checkRemoveUnreferenced()
			b.checkRemoveNullFaces("3:" + modeling.PositionAttribute)
		}
	}
	o.res.Count("sequences.remove_unreferenced", 1)
}

// checkFilterSequences: a keep-everything filter (nothing to remove) followed by a
// selective filter / crop on a cloud of equal or smaller vertex count, both orders.
func (o *opctx) checkFilterSequences() {
	a, b := o.seqPair(modeling.PointTopology)
	all := func([]float64) bool { return true }
	keys := map[int]string{1: "1:userV1", 2: "2:userV2", 3: "3:" + modeling.PositionAttribute, 4: "4:userV4"}
	for round := 0; round < 2; round++ {
		for ar := 1; ar <= 4; ar++ {
			a.runFilter(ar, keys[ar], all, "all")
			// selective: below the value of one of b's own referenced points
			th := b.im.attr(keys[ar], b.in.Indices[o.r.Intn(len(b.in.Indices))])[0]
			sel := func(t []float64) bool { return t[0] <= th }
			b.runFilter(ar, keys[ar], sel, "c0<=data")
			a.runFilter(ar, keys[ar], sel, "c0<=data")
			b.runFilter(ar, keys[ar], all, "all")
		}
		a.runFilter(3, keys[3], all, "all")
		b.checkCrop(keys[3])
		a.checkRemoveUnreferenced()
		b.checkRemoveUnreferenced()
	}
	o.res.Count("sequences.filter", 1)
}

// checkSplitAfterNothingToRemove: a remove-unreferenced call with nothing to remove,
// then a split (whose parts each go through remove-unreferenced) on a mesh of equal
// or smaller vertex count.
func (o *opctx) checkSplitAfterNothingToRemove() {
	isz := 3
	nA := isz * (o.im.L/isz + 1 + o.r.Intn(3))
	ma, da := allArityMesh(o.r, modeling.TriangleTopology, nA, nA, "f32")
	a := o.sub(ma, da)
	for round := 0; round < 2; round++ {
		a.checkRemoveUnreferenced()
		o.checkSplit()
	}
	o.res.Count("sequences.split", 1)
}

// ---------------------------------------------------------------------------
// weld: power-of-two cell strides

var strideExponents = []int{15, 16, 20, 21, 22, 24, 31, 32, 40, 52}

// checkWeldStrides welds a mesh whose vertices sit at base + m·2^j cells
// (coordinate = cell / 10^decimals) on one, two or all three axes, mixed with
// ordinary vertices. Cells that far apart are different cells: whatever the
// implementation hashes or packs them into (16/20/21/32-bit fields, float32, int32)
// must not identify them. The ordinary weld oracle applies. Rule: only cells with
// |index| < 2^62 are generated - beyond int64 the conversion of the rounded value to
// an integer is implementation-defined in Go (all such values collapse on amd64), so
// the library's own cell definition stops being a sound reference there.
func (o *opctx) checkWeldStrides() {
	r := o.r
	dec := pick(r, []int{-1, 0, 0, 1, 2, 3, 3, 3, 4, 5, 6})
	pw := math.Pow10(dec)
	coord := func(cell float64) float64 { return cell / pw }
	var cells [][3]float64
	var pairs int
	nBase := 2 + r.Intn(4)
	for i := 0; i < nBase; i++ {
		base := [3]float64{float64(r.Intn(9) - 4), float64(r.Intn(9) - 4), float64(r.Intn(9) - 4)}
		cells = append(cells, base)
		for k := 0; k < 1+r.Intn(2); k++ {
			j := pick(r, strideExponents)
			stride := math.Ldexp(1, j)
			kind := "2^j"
			if dec == 3 && r.Intn(4) == 0 {
				// the 0.512 grid: column k and column k+4096 are 2^21 cells apart
				stride, j, kind = 512*4096, 21, "0.512-grid"
			}
			axes := 1 + r.Intn(3)
			p := base
			perm := r.Perm(3)
			for _, ax := range perm[:axes] {
				m := pick(r, []float64{1, 1, 2, 3, -1, -2})
				if math.Abs(m*stride) >= math.Ldexp(1, 61) {
					m = math.Copysign(1, m)
				}
				p[ax] = base[ax] + m*stride
			}
			cells = append(cells, p)
			pairs++
			o.res.SetAdd("weld.stride_exponents", fmt.Sprint(j))
			o.res.SetAdd("weld.stride_axes", fmt.Sprint(axes))
			o.res.SetAdd("weld.stride_kinds", kind)
		}
	}
	nStride := len(cells)
	for i := 0; i < 3+r.Intn(8); i++ { // ordinary vertices
		cells = append(cells, [3]float64{float64(r.Intn(41) - 20), float64(r.Intn(41) - 20), float64(r.Intn(41) - 20)})
	}
	n := len(cells)
	pos := make([]vector3.Float64, n)
	v1 := make([]float64, n)
	for i, c := range cells {
		// a jitter well inside the cell, so that not every vertex sits on a cell centre
		jit := func() float64 {
			if r.Intn(2) == 0 {
				return 0
			}
			return (r.Float64() - 0.5) * 0.4
		}
		pos[i] = vector3.New(coord(c[0]+jit()), coord(c[1]+jit()), coord(c[2]+jit()))
		v1[i] = float64(i)
	}
	// triangles: mostly one stride vertex, its base or sibling, and anything else
	var idx []int
	nt := 4 + r.Intn(12)
	for t := 0; t < nt; t++ {
		if r.Intn(3) != 0 {
			a := r.Intn(nStride)
			b := r.Intn(nStride)
			idx = append(idx, a, b, r.Intn(n))
		} else {
			idx = append(idx, r.Intn(n), r.Intn(n), r.Intn(n))
		}
	}
	m := modeling.NewMesh(modeling.TriangleTopology, idx).
		SetFloat3Attribute(modeling.PositionAttribute, pos).
		SetFloat1Attribute("userV1", v1)
	d := gen.MeshDesc{Topology: modeling.TriangleTopology.String(), Verts: n, Prims: nt, IndexPattern: "random", ValueClass: "pow2-cell-strides",
		Attrs: []string{"P", "userV1"}, Shared: true}
	w := o.sub(m, d)
	w.checkWeld("3:"+modeling.PositionAttribute, dec)
	w.checkWeldAfterUnweld("3:"+modeling.PositionAttribute, dec)
	o.res.Count("weld.stride_meshes", 1)
	o.res.Count("weld.stride_pairs", int64(pairs))
	// how many pairs of vertices really are in different cells although congruent modulo 2^21 / 2^16 / 2^32 on every axis
	cong := 0
	for i := 0; i < n; i++ {
		for k := i + 1; k < n; k++ {
			ci, ck := cellOf(w.im.attr("3:"+modeling.PositionAttribute, i), dec), cellOf(w.im.attr("3:"+modeling.PositionAttribute, k), dec)
			if ci != ck && (ci[0]-ck[0])%(1<<15) == 0 && (ci[1]-ck[1])%(1<<15) == 0 && (ci[2]-ck[2])%(1<<15) == 0 {
				cong++
			}
		}
	}
	o.res.Count("weld.distinct_cells_congruent_mod_2^15", int64(cong))
}
