package c03

import (
	"fmt"
	"math"
	"math/rand"
	"sort"
	"strings"

	"github.com/EliCDavis/polyform/math/quaternion"
	"github.com/EliCDavis/polyform/math/trs"
	"github.com/EliCDavis/polyform/modeling"
	"github.com/EliCDavis/polyform/modeling/meshops"
	"github.com/EliCDavis/polyform/modeling/repeat"
	"github.com/EliCDavis/vector/vector3"
	"polyverif/internal/gen"
	"polyverif/internal/ref"
	"polyverif/internal/run"
)

// combineCase: Append, repeat.Mesh, SplitOnUniqueMaterials.
func combineCase(c *run.Ctx) run.Result {
	var res run.Result
	r := c.Rng
	topo := pick(r, []modeling.Topology{modeling.TriangleTopology, modeling.TriangleTopology, modeling.TriangleTopology,
		modeling.TriangleTopology, modeling.PointTopology, modeling.QuadTopology, modeling.LineTopology})
	opts := gen.MeshOpts{Topologies: []modeling.Topology{topo}, MaxVerts: maxVerts(c), AllowEmpty: true, Materials: true, NoPositionOK: true}
	m, d := gen.Mesh(r, opts)
	o := newOpctx(c, &res, m, d)

	other, od := gen.Mesh(r, opts)
	o.checkAppend(other, od)
	o.checkDeriveTwice(other)
	o.checkRepeat()
	if topo == modeling.TriangleTopology {
		o.checkSplit()
		o.checkSplitAfterNothingToRemove()
	}
	o.finish(topo == modeling.TriangleTopology)
	return res
}

func unionNames(a, b []string) []string {
	set := map[string]bool{}
	for _, n := range a {
		set[n] = true
	}
	for _, n := range b {
		set[n] = true
	}
	var out []string
	for n := range set {
		out = append(out, n)
	}
	sort.Strings(out)
	return out
}

// perPrimMaterials expands material ranges to one pointer per primitive (nil
// slice when the mesh carries no materials).
func perPrimMaterials(s *ref.Snapshot) []*modeling.Material {
	if len(s.MatCount) == 0 {
		return nil
	}
	out := []*modeling.Material{}
	for i, c := range s.MatCount {
		for j := 0; j < c; j++ {
			out = append(out, s.MatPtr[i])
		}
	}
	return out
}

func matNames(ms []*modeling.Material) string {
	var sb strings.Builder
	for i, m := range ms {
		if i > 0 {
			sb.WriteByte(' ')
		}
		if i >= 24 {
			sb.WriteString("…")
			break
		}
		if m == nil {
			sb.WriteString("nil")
		} else {
			sb.WriteString(m.Name)
		}
	}
	return sb.String()
}

func samePtrs(a, b []*modeling.Material) bool {
	if len(a) != len(b) {
		return false
	}
	for i := range a {
		if a[i] != b[i] {
			return false
		}
	}
	return true
}

// appendOracle: the result of a.Append(b) is a's primitives followed by b's,
// attributes one side lacks zero-filled; per-primitive materials concatenated
// when both sides carry full ranges (or none does).
func (o *opctx) appendOracle(site string, a, b, out *ref.Snapshot, extra ...any) bool {
	am, bm := newModel(a), newModel(b)
	extra = append([]any{"other", witnessOf(b)}, extra...)
	if out.Topology != a.Topology {
		o.violate("topology-changed", site, fmt.Sprintf("topology %v -> %v", a.Topology, out.Topology), extra...)
		return false
	}
	keys := unionNames(am.names, bm.names)
	want := append(am.primsOver(keys), bm.primsOver(keys)...)
	om := newModel(out)
	got := om.primsOver(keys)
	if len(want) > 0 && len(got) > 0 && !sameNames(keys, om.names) {
		o.violate("attribute-set-changed", site, fmt.Sprintf("attributes %v + %v -> %v (expected the union %v)", am.names, bm.names, om.names, keys), extra...)
		return false
	}
	na := am.nPrims()
	if d := seqDiff(want, got, keys, am.K, func(i int) string {
		if i < na {
			return fmt.Sprintf("primitive %d of the receiver", i)
		}
		return fmt.Sprintf("primitive %d of the appended mesh", i-na)
	}); d != "" {
		o.violate("corner-mismatch", site, "the result must be the receiver's primitives followed by the other's, attributes one side lacks zero-filled: "+d, extra...)
		return false
	}
	o.res.Count("corners_compared", int64(len(want)*am.K))
	ma, mb := perPrimMaterials(a), perPrimMaterials(b)
	switch {
	case ma == nil && mb == nil:
		if len(out.MatCount) != 0 {
			o.violate("materials-changed", site, fmt.Sprintf("neither mesh has materials, the result has %d ranges", len(out.MatCount)), extra...)
			return false
		}
	case ma != nil && mb != nil && len(ma) == na && len(mb) == bm.nPrims():
		if g := perPrimMaterials(out); !samePtrs(append(append([]*modeling.Material{}, ma...), mb...), g) {
			o.violate("materials-changed", site, fmt.Sprintf("per-primitive materials: receiver [%s] + other [%s] -> [%s]", matNames(ma), matNames(mb), matNames(g)), extra...)
			return false
		}
		o.res.Count("append.materials_checked", 1)
	default:
		o.res.Count("append.materials_one_sided_not_examined", 1)
	}
	return true
}

func (o *opctx) checkAppend(other modeling.Mesh, od gen.MeshDesc) {
	const site = "Mesh.Append"
	bs := ref.Snap(other)
	bm := newModel(bs)
	o.res.SetAdd("append.other_attr_mixes", strings.Join(od.Attrs, ","))

	out, ok := o.call(site, func() modeling.Mesh { return o.mesh.Append(other) })
	if ok && o.appendOracle(site, o.in, bs, out) {
		o.nontrivial(site, o.nonIdentity() && bm.nPrims() > 0 && !sameNames(o.im.names, bm.names))
		if !sameNames(o.im.names, bm.names) && o.im.L > 0 && bm.L > 0 {
			o.res.Count("append.zero_fill_cases", 1)
		}
	}
	// self-append
	if o.r.Intn(2) == 0 {
		const s2 = "Mesh.Append (self)"
		if out, ok := o.call(s2, func() modeling.Mesh { return o.mesh.Append(o.mesh) }); ok {
			o.appendOracle(s2, o.in, o.in, out)
		}
	}
}

// spareCapacity reports (evidence only, through the verif-tagged storage hook)
// whether some backing slice of m has cap > len.
func spareCapacity(m modeling.Mesh) bool {
	for _, s := range modeling.VerifStorage(m) {
		if s.Cap > s.Len {
			return true
		}
	}
	return false
}

// checkDeriveTwice derives two results from ONE base and re-reads the first after
// the second exists. The base is preferably itself the output of an operation that
// builds its storage with append() (Unweld, Append, RemovedUnreferencedVertices,
// repeat.Mesh), i.e. one with spare capacity behind its slices: an Append that
// writes into that capacity produces a first result that is right when produced
// and wrong once the second derivation has run.
func (o *opctx) checkDeriveTwice(other modeling.Mesh) {
	const site = "Mesh.Append"
	r := o.r
	posKey := "3:" + modeling.PositionAttribute
	kinds := []string{"input", "unweld", "unweld", "append", "append", "rmunref", "append-chain"}
	if o.im.has(posKey) {
		kinds = append(kinds, "repeat", "repeat")
	}
	kind := pick(r, kinds)
	small := func() modeling.Mesh {
		m, _ := gen.Mesh(r, gen.MeshOpts{Topologies: []modeling.Topology{o.mesh.Topology()}, MaxVerts: pick(r, []int{3, 3, 6, 12}), MinVerts: 1, NoPositionOK: true})
		return m
	}
	x, y := small(), small()
	if r.Intn(4) == 0 {
		y = x // the same mesh appended twice
	}
	var base modeling.Mesh
	var bsnap *ref.Snapshot
	ok := true
	switch kind {
	case "input":
		base, bsnap = o.mesh, o.in
	case "unweld":
		base, bsnap, ok = o.callMesh("meshops.Unweld", func() modeling.Mesh { return meshops.Unweld(o.mesh) })
	case "append":
		base, bsnap, ok = o.callMesh(site, func() modeling.Mesh { return o.mesh.Append(other) })
	case "append-chain":
		base, bsnap, ok = o.callMesh(site, func() modeling.Mesh { return o.mesh.Append(other).Append(small()).Append(o.mesh) })
	case "rmunref":
		base, bsnap, ok = o.callMesh("meshops.RemovedUnreferencedVertices", func() modeling.Mesh { return meshops.RemovedUnreferencedVertices(o.mesh) })
	case "repeat":
		a, _ := genTRS(r)
		b, _ := genTRS(r)
		base, bsnap, ok = o.callMesh("repeat.Mesh", func() modeling.Mesh { return repeat.Mesh(o.mesh, []trs.TRS{a, b}) })
	}
	if !ok {
		return
	}
	o.res.SetAdd("derive_twice.base_kinds", kind)
	o.res.Count("derive_twice.cases", 1)
	spare := spareCapacity(base)
	if spare {
		o.res.Count("derive_twice.bases_with_spare_capacity", 1)
	}
	o.param("twice(%s)", kind)
	xs, ys := ref.Snap(x), ref.Snap(y)
	extra := []any{"base", kind, "base_has_spare_capacity", spare}

	// two siblings off the same base
	a, as, ok := o.callMesh(site, func() modeling.Mesh { return base.Append(x) }, extra...)
	if !ok || !o.appendOracle(site, bsnap, xs, as, extra...) {
		return
	}
	b, bs2, ok := o.callMesh(site, func() modeling.Mesh { return base.Append(y) }, extra...)
	if !ok || !o.appendOracle(site, bsnap, ys, bs2, extra...) {
		return
	}
	if !o.stillSame(retainedOut{site, a, as}, []string{"base.Append(y) (second derivation from the same base)"}, extra...) {
		return
	}
	// a chain: two siblings off the first result, then re-read everything
	c1, c1s, ok := o.callMesh(site, func() modeling.Mesh { return a.Append(y) }, extra...)
	if !ok || !o.appendOracle(site, as, ys, c1s, extra...) {
		return
	}
	_, c2s, ok := o.callMesh(site, func() modeling.Mesh { return a.Append(x) }, extra...)
	if !ok || !o.appendOracle(site, as, xs, c2s, extra...) {
		return
	}
	for _, re := range []retainedOut{{site, c1, c1s}, {site, a, as}, {site, b, bs2}, {site, base, bsnap}} {
		if !o.stillSame(re, []string{"a.Append(y)", "a.Append(x) (siblings derived from an earlier result)"}, extra...) {
			return
		}
	}
	// repeat.Mesh off the same base twice (needs a position), then re-read the first
	if newModel(bsnap).has(posKey) && r.Intn(2) == 0 {
		t1, _ := genTRS(r)
		t2, _ := genTRS(r)
		t3, _ := genTRS(r)
		r1, r1s, ok := o.callMesh("repeat.Mesh", func() modeling.Mesh { return repeat.Mesh(base, []trs.TRS{t1, t2}) }, extra...)
		if !ok {
			return
		}
		d1, d1s, ok := o.callMesh(site, func() modeling.Mesh { return r1.Append(x) }, extra...)
		if !ok || !o.appendOracle(site, r1s, xs, d1s, extra...) {
			return
		}
		if _, _, ok = o.callMesh("repeat.Mesh", func() modeling.Mesh { return repeat.Mesh(base, []trs.TRS{t3}) }, extra...); !ok {
			return
		}
		if _, _, ok = o.callMesh(site, func() modeling.Mesh { return r1.Append(y) }, extra...); !ok {
			return
		}
		if !o.stillSame(retainedOut{"repeat.Mesh", r1, r1s}, []string{"repeat.Mesh(base, …) again", "r1.Append(y)"}, extra...) {
			return
		}
		if !o.stillSame(retainedOut{site, d1, d1s}, []string{"r1.Append(y) (sibling of r1.Append(x))"}, extra...) {
			return
		}
	}
	o.nontrivial("derive-twice", spare)
}

// ---------------------------------------------------------------------------
// reference rotations / TRS

type refRot func(v [3]float64) [3]float64

// genRotation draws a rotation in one of three forms and its independent reference
// (Rodrigues' formula for axis-angle, the rotation matrix for a unit quaternion).
func genRotation(r *rand.Rand) (quaternion.Quaternion, refRot, string) {
	switch r.Intn(5) {
	case 0:
		return quaternion.Identity(), func(v [3]float64) [3]float64 { return v }, "identity"
	case 1, 2:
		var ax [3]float64
		for {
			ax = [3]float64{r.NormFloat64(), r.NormFloat64(), r.NormFloat64()}
			if len3(ax) > 0.1 {
				break
			}
		}
		if r.Intn(4) == 0 { // axis-aligned
			ax = [3]float64{}
			ax[r.Intn(3)] = pick(r, []float64{1, -1, 2.5})
		}
		// round 10 (C03-O): angles so small that cos(th/2) rounds to exactly 1 while sin(th/2) does not vanish
		// (alignment corrections of geo-referenced data): the displacement th*|p| is 9 ... 20 times the
		// comparison tolerance whatever the magnitude of p
		th := pick(r, []float64{0, math.Pi / 2, math.Pi, 2 * math.Pi, -math.Pi / 3, r.Float64()*14 - 7, r.Float64()*14 - 7, 2e-8, -1.7e-8, 9e-9})
		l := len3(ax)
		k := [3]float64{ax[0] / l, ax[1] / l, ax[2] / l}
		ct, st := math.Cos(th), math.Sin(th)
		rot := func(v [3]float64) [3]float64 {
			kxv := cross(k, v)
			kv := k[0]*v[0] + k[1]*v[1] + k[2]*v[2]
			var out [3]float64
			for i := 0; i < 3; i++ {
				out[i] = v[i]*ct + kxv[i]*st + k[i]*kv*(1-ct)
			}
			return out
		}
		return quaternion.FromTheta(th, vector3.New(ax[0], ax[1], ax[2])), rot, "axis-angle"
	default:
		var q [4]float64
		for {
			q = [4]float64{r.NormFloat64(), r.NormFloat64(), r.NormFloat64(), r.NormFloat64()}
			if n := math.Sqrt(q[0]*q[0] + q[1]*q[1] + q[2]*q[2] + q[3]*q[3]); n > 0.1 {
				for i := range q {
					q[i] /= n
				}
				break
			}
		}
		x, y, z, w := q[0], q[1], q[2], q[3]
		mat := [3][3]float64{
			{1 - 2*(y*y+z*z), 2 * (x*y - z*w), 2 * (x*z + y*w)},
			{2 * (x*y + z*w), 1 - 2*(x*x+z*z), 2 * (y*z - x*w)},
			{2 * (x*z - y*w), 2 * (y*z + x*w), 1 - 2*(x*x+y*y)},
		}
		rot := func(v [3]float64) [3]float64 {
			var out [3]float64
			for i := 0; i < 3; i++ {
				out[i] = mat[i][0]*v[0] + mat[i][1]*v[1] + mat[i][2]*v[2]
			}
			return out
		}
		return quaternion.New(vector3.New(x, y, z), w), rot, "unit-quaternion"
	}
}

func genVec(r *rand.Rand, class string) [3]float64 {
	switch class {
	case "zero":
		return [3]float64{}
	case "one":
		return [3]float64{1, 1, 1}
	case "int":
		return [3]float64{float64(r.Intn(9) - 4), float64(r.Intn(9) - 4), float64(r.Intn(9) - 4)}
	case "negative":
		return [3]float64{-(r.Float64()*3 + 0.1), r.Float64()*3 + 0.1, -(r.Float64()*3 + 0.1)}
	case "huge":
		return [3]float64{(r.Float64() - 0.5) * 2e6, (r.Float64() - 0.5) * 2e6, (r.Float64() - 0.5) * 2e6}
	case "tiny":
		return [3]float64{(r.Float64() - 0.5) * 2e-6, (r.Float64() - 0.5) * 2e-6, (r.Float64() - 0.5) * 2e-6}
	case "mixed0": // one component zero
		v := [3]float64{r.Float64()*4 - 2, r.Float64()*4 - 2, r.Float64()*4 - 2}
		v[r.Intn(3)] = 0
		return v
	}
	return [3]float64{r.Float64()*20 - 10, r.Float64()*20 - 10, r.Float64()*20 - 10}
}

var vecClasses = []string{"zero", "one", "int", "negative", "huge", "tiny", "mixed0", "general", "general"}

func v3(a [3]float64) vector3.Float64 { return vector3.New(a[0], a[1], a[2]) }

type refTRS struct {
	t, s  [3]float64
	rot   refRot
	class string
}

// apply returns R(S∘p)+T and the magnitude the comparison tolerance is relative to.
func (t refTRS) apply(p []float64) ([3]float64, float64) {
	sp := [3]float64{p[0] * t.s[0], p[1] * t.s[1], p[2] * t.s[2]}
	rp := t.rot(sp)
	return [3]float64{rp[0] + t.t[0], rp[1] + t.t[1], rp[2] + t.t[2]}, math.Max(len3(sp), len3(t.t))
}

func genTRS(r *rand.Rand) (trs.TRS, refTRS) {
	ident := func(v [3]float64) [3]float64 { return v }
	switch r.Intn(6) {
	case 0:
		p := genVec(r, pick(r, vecClasses))
		return trs.Position(v3(p)), refTRS{t: p, s: [3]float64{1, 1, 1}, rot: ident, class: "position"}
	case 1:
		s := genVec(r, pick(r, vecClasses))
		return trs.Scale(v3(s)), refTRS{s: s, rot: ident, class: "scale"}
	case 2:
		q, rr, cl := genRotation(r)
		return trs.Rotation(q), refTRS{s: [3]float64{1, 1, 1}, rot: rr, class: "rotation:" + cl}
	}
	pc, sc := pick(r, vecClasses), pick(r, vecClasses)
	p, s := genVec(r, pc), genVec(r, sc)
	q, rr, cl := genRotation(r)
	return trs.New(v3(p), q, v3(s)), refTRS{t: p, s: s, rot: rr, class: fmt.Sprintf("full(t=%s,r=%s,s=%s)", pc, cl, sc)}
}

func closeAbs(want, got, tol float64) bool {
	return sameBits(want, got) || math.Abs(want-got) <= tol
}

func (o *opctx) checkRepeat() {
	const site = "repeat.Mesh"
	posKey := "3:" + modeling.PositionAttribute
	k := pick(o.r, []int{0, 1, 1, 2, 2, 3, 4})
	if !o.im.has(posKey) {
		// ApplyTRS requires a position attribute; only the empty list is admissible
		k = 0
	}
	var ts []trs.TRS
	var rs []refTRS
	var classes []string
	for i := 0; i < k; i++ {
		t, rt := genTRS(o.r)
		ts, rs = append(ts, t), append(rs, rt)
		classes = append(classes, rt.class)
		o.res.SetAdd("trs.classes", strings.SplitN(rt.class, "(", 2)[0])
	}
	o.param("repeat×%d", k)
	extra := []any{"transforms", classes}
	out, ok := o.call(site, func() modeling.Mesh { return repeat.Mesh(o.mesh, ts) }, extra...)
	if !ok {
		return
	}
	if out.Topology != o.in.Topology {
		o.violate("topology-changed", site, fmt.Sprintf("topology %v -> %v", o.in.Topology, out.Topology), extra...)
		return
	}
	np := o.im.nPrims()
	om := newModel(out)
	if om.nPrims() != k*np {
		o.violate("primitive-count", site, fmt.Sprintf("%d transforms × %d primitives: expected %d primitives, observed %d", k, np, k*np, om.nPrims()), extra...)
		return
	}
	if k*np > 0 && !sameNames(o.im.names, om.names) {
		o.violate("attribute-set-changed", site, fmt.Sprintf("attributes %v -> %v", o.im.names, om.names), extra...)
		return
	}
	in := o.im.prims()
	got := om.primsOver(o.im.names)
	po := o.im.off[posKey]
	for j := 0; j < k; j++ {
		for p := 0; p < np; p++ {
			w, g := in[p], got[j*np+p]
			for c := 0; c < o.im.K; c++ {
				base := c * o.im.W
				wantPos, mag := rs[j].apply(w[base+po : base+po+3])
				for i := 0; i < o.im.W; i++ {
					if i >= po && i < po+3 {
						if !closeAbs(wantPos[i-po], g[base+i], tolK*mag) {
							o.violate("target-mismatch", site, fmt.Sprintf("copy %d (%s), primitive %d corner %d: position %v must map to %v, observed %v",
								j, rs[j].class, p, c, w[base+po:base+po+3], wantPos, g[base+po:base+po+3]), extra...)
							return
						}
						continue
					}
					if !sameBits(w[base+i], g[base+i]) {
						o.violate("corner-mismatch", site, fmt.Sprintf("copy %d, primitive %d corner %d: attributes other than the position must be copied exactly; expected {%s}, observed {%s}",
							j, p, c, fmtTuple(w[base:base+o.im.W], o.im.names), fmtTuple(g[base:base+o.im.W], o.im.names)), extra...)
						return
					}
				}
			}
		}
	}
	o.res.Count("corners_compared", int64(k*np*o.im.K))
	if ma := perPrimMaterials(o.in); ma != nil && len(ma) == np && k > 0 {
		var want []*modeling.Material
		for j := 0; j < k; j++ {
			want = append(want, ma...)
		}
		if g := perPrimMaterials(out); !samePtrs(want, g) {
			o.violate("materials-changed", site, fmt.Sprintf("per-primitive materials of %d copies of [%s] -> [%s]", k, matNames(ma), matNames(g)), extra...)
			return
		}
	}
	o.nontrivial(site, o.nonIdentity() && k >= 2)
}

// ---------------------------------------------------------------------------
// split by material

// genSplitMaterials draws material ranges summing to prims: distinct pointers with
// unique names, repeated pointers, equal-by-value copies behind different
// pointers, and zero-length ranges placed at the start, in the middle and at the end.
func genSplitMaterials(r *rand.Rand, prims int) ([]modeling.MeshMaterial, []string) {
	pool := gen.MaterialPool(r, 1+r.Intn(4))
	if r.Intn(5) == 0 { // an equal-by-value copy behind another pointer
		cp := *pool[0]
		pool = append(pool, &cp)
	}
	k := pick(r, []int{0, 1, 2, 2, 3, 3, 4, 5, 6})
	if k == 0 {
		return nil, []string{"no-materials"}
	}
	// positive cuts
	counts := make([]int, k)
	left := prims
	for i := 0; i < k-1; i++ {
		c := 0
		if left > 0 {
			c = 1 + r.Intn(left)
			if r.Intn(2) == 0 {
				c = 1 + r.Intn(imin(left, 3))
			}
		}
		counts[i] = c
		left -= c
	}
	counts[k-1] = left
	var tags []string
	var out []modeling.MeshMaterial
	add := func(n int) {
		out = append(out, modeling.MeshMaterial{PrimitiveCount: n, Material: pool[r.Intn(len(pool))]})
	}
	if r.Intn(4) == 0 {
		add(0)
		tags = append(tags, "zero@start")
	}
	for i, c := range counts {
		add(c)
		if i < k-1 && r.Intn(3) == 0 {
			add(0)
			if r.Intn(3) == 0 {
				add(0)
			}
			tags = append(tags, "zero@middle")
		}
	}
	if r.Intn(4) == 0 {
		add(0)
		tags = append(tags, "zero@end")
	}
	return out, tags
}

func imin(a, b int) int {
	if a < b {
		return a
	}
	return b
}

func (o *opctx) checkSplit() {
	const site = "meshops.SplitOnUniqueMaterials"
	np := o.im.nPrims()
	mats, tags := genSplitMaterials(o.r, np)
	m := o.mesh.SetMaterials(mats)
	ms := ref.Snap(m)
	var desc []string
	for _, mm := range mats {
		desc = append(desc, fmt.Sprintf("%d×%s@%p", mm.PrimitiveCount, mm.Material.Name, mm.Material))
	}
	extra := []any{"materials", desc}
	// where do zero-length ranges sit once the generated list is looked at as a whole?
	for i, mm := range mats {
		if mm.PrimitiveCount != 0 {
			continue
		}
		before, after := 0, 0
		for j, x := range mats {
			if j < i {
				before += x.PrimitiveCount
			} else if j > i {
				after += x.PrimitiveCount
			}
		}
		switch {
		case before == 0:
			o.res.SetAdd("split.zero_range_positions", "start")
		case after == 0:
			o.res.SetAdd("split.zero_range_positions", "end")
		default:
			o.res.SetAdd("split.zero_range_positions", "middle")
			o.res.Count("split.zero_range_in_middle", 1)
		}
	}
	o.param("split(%d ranges %s)", len(mats), strings.Join(tags, ","))

	var parts []modeling.Mesh
	o.c.Note(site)
	o.res.SetAdd("ops", site)
	o.res.Count("calls."+site, 1)
	if p := run.Try(func() { parts = meshops.SplitOnUniqueMaterials(m) }); p != nil {
		class := "panic"
		if p.Runtime {
			class = "runtime-panic"
		}
		o.violate(class, site, fmt.Sprintf("panicked on a well-formed triangle mesh whose material ranges sum to its primitive count: %s (in %s)", p.Value, p.Site), extra...)
		return
	}
	if len(mats) < 2 {
		// nothing to split on: the mesh itself
		if len(parts) != 1 {
			o.violate("primitive-count", site, fmt.Sprintf("mesh with %d material ranges split into %d parts", len(mats), len(parts)), extra...)
			return
		}
		if d := ms.Diff(ref.Snap(parts[0])); d != "" {
			o.violate("corner-mismatch", site, "a mesh with fewer than two material ranges must come back unchanged: "+d, extra...)
		}
		return
	}
	// reference: partition of the primitive sequence by material pointer, order preserved
	in := o.im.prims()
	per := perPrimMaterials(ms)
	wantByVal := map[string][]string{} // material value -> expected parts (joined primitive keys), one per pointer
	ptrSeen := map[*modeling.Material]bool{}
	var order []*modeling.Material
	for _, p := range per {
		if !ptrSeen[p] {
			ptrSeen[p] = true
			order = append(order, p)
		}
	}
	triOf := map[*modeling.Material][]int{}
	for t, p := range per {
		triOf[p] = append(triOf[p], t)
	}
	joined := func(ps [][]float64) string {
		var sb strings.Builder
		for _, p := range ps {
			sb.WriteString(primKey(p))
			sb.WriteByte('#')
		}
		return sb.String()
	}
	valKey := func(mt *modeling.Material) string { return fmt.Sprintf("%+v", *mt) }
	for _, p := range order {
		var ps [][]float64
		for _, t := range triOf[p] {
			ps = append(ps, in[t])
		}
		wantByVal[valKey(p)] = append(wantByVal[valKey(p)], joined(ps))
	}
	// what each input triangle looks like, to describe observed parts in terms of the input
	triByKey := map[string][]int{}
	for t, p := range in {
		triByKey[primKey(p)] = append(triByKey[primKey(p)], t)
	}
	describe := func(ps [][]float64) string {
		var ids []string
		for _, p := range ps {
			if ts, ok := triByKey[primKey(p)]; ok {
				ids = append(ids, fmt.Sprint(ts[0]))
			} else {
				ids = append(ids, "?")
			}
		}
		return "[" + strings.Join(ids, " ") + "]"
	}
	gotByVal := map[string][]string{}
	gotDesc := map[string][]string{}
	total := 0
	for i, part := range parts {
		if err := ref.WF(part); err != nil {
			o.violate("malformed-output", site, fmt.Sprintf("part %d is not well-formed: %v", i, err), extra...)
			return
		}
		ps := ref.Snap(part)
		pm := newModel(ps)
		if ps.Topology != modeling.TriangleTopology {
			o.violate("topology-changed", site, fmt.Sprintf("part %d has topology %v", i, ps.Topology), extra...)
			return
		}
		if len(ps.MatCount) != 1 || ps.MatPtr[0] == nil {
			o.violate("materials-changed", site, fmt.Sprintf("part %d carries %d material ranges, expected exactly one", i, len(ps.MatCount)), extra...)
			return
		}
		if ps.MatCount[0] != pm.nPrims() {
			o.violate("materials-changed", site, fmt.Sprintf("part %d (%s) has %d triangles but its material range covers %d", i, ps.MatVal[0].Name, pm.nPrims(), ps.MatCount[0]), extra...)
			return
		}
		total += pm.nPrims()
		if pm.nPrims() == 0 {
			o.res.Count("split.empty_parts", 1)
			continue // a part for a material that owns no triangle: present or absent, both fine
		}
		if !sameNames(o.im.names, pm.names) {
			o.violate("attribute-set-changed", site, fmt.Sprintf("part %d: attributes %v -> %v", i, o.im.names, pm.names), extra...)
			return
		}
		// a part holds its own triangles' vertices, not the vertex arrays of the whole mesh
		refd := make([]bool, pm.L)
		for _, v := range ps.Indices {
			refd[v] = true
		}
		for v, b := range refd {
			if !b {
				o.violate("unreferenced-vertex-left", site, fmt.Sprintf("part %d (%s, %d triangles) carries %d vertices of which vertex %d is referenced by none of its triangles", i, ps.MatVal[0].Name, pm.nPrims(), pm.L, v), extra...)
				return
			}
		}
		g := pm.primsOver(o.im.names)
		vk := valKey(ps.MatPtr[0])
		gotByVal[vk] = append(gotByVal[vk], joined(g))
		gotDesc[vk] = append(gotDesc[vk], fmt.Sprintf("part %d (%s) = input triangles %s", i, ps.MatVal[0].Name, describe(g)))
	}
	for _, p := range order {
		vk := valKey(p)
		w := append([]string{}, wantByVal[vk]...)
		g := append([]string{}, gotByVal[vk]...)
		sort.Strings(w)
		sort.Strings(g)
		if strings.Join(w, "\n") != strings.Join(g, "\n") {
			var wd []string
			for _, q := range order {
				if valKey(q) == vk {
					wd = append(wd, fmt.Sprintf("%s@%p owns input triangles %v", q.Name, q, head(triOf[q], 16)))
				}
			}
			o.violate("primitive-misattributed", site, fmt.Sprintf("material %s: expected %v; observed %v (all parts hold %d of %d triangles)",
				p.Name, wd, gotDesc[vk], total, np), extra...)
			return
		}
	}
	for vk := range gotByVal {
		if _, ok := wantByVal[vk]; !ok {
			o.violate("primitive-misattributed", site, fmt.Sprintf("a part carries a material that owns no triangle of the input: %v", gotDesc[vk]), extra...)
			return
		}
	}
	if total != np {
		o.violate("primitive-count", site, fmt.Sprintf("input has %d triangles, the parts hold %d", np, total), extra...)
		return
	}
	o.res.Count("corners_compared", int64(3*np))
	nt := len(order) >= 2
	if nt {
		o.dropSeen = true // every part keeps some and leaves out some triangles
	}
	o.nontrivial(site, nt && o.nonIdentity())
	o.res.Count("split.parts", int64(len(parts)))
}
