package c03

import (
	"fmt"
	"runtime"

	"github.com/EliCDavis/polyform/modeling"
	"github.com/EliCDavis/vector/vector2"
	"github.com/EliCDavis/vector/vector3"
	"github.com/EliCDavis/vector/vector4"
	"polyverif/internal/gen"
	"polyverif/internal/run"
)

// largeCase: the same oracles as the small phases on inputs large enough to take
// size-dependent code paths (block-wise / parallel scans): point clouds of
// 32767 … 400000 points through crop and FilterFloat1..4 (each run three times:
// the outcome may depend on the schedule), triangle meshes of 40k-150k vertices
// through the layout operations, Append and repeat. The worker runs with GOMAXPROCS >= 4.
func largeCase(c *run.Ctx) run.Result {
	var res run.Result
	r := c.Rng
	res.Count("large.gomaxprocs_sum", int64(runtime.GOMAXPROCS(0)))
	res.SetAdd("large.gomaxprocs", fmt.Sprint(runtime.GOMAXPROCS(0)))
	fixed := []int{32767, 32768, 32769, 65537, 100000}
	patterns := []string{"identity", "permutation", "random"}
	profiles := []string{"front", "back", "stripes", "uniform"}
	big := func() int { return 200000 + r.Intn(200001) }
	k := c.Case % 10
	if c.Case >= 10 {
		k = -1
	}
	switch {
	case k == 0:
		largeCloud(c, &res, fixed[0], "identity", "front")
	case k == 1:
		largeCloud(c, &res, fixed[1], "identity", "front")
	case k == 2:
		largeCloud(c, &res, fixed[2], "permutation", "front")
	case k == 3:
		largeCloud(c, &res, fixed[3], "identity", "stripes")
	case k == 4:
		largeCloud(c, &res, fixed[4], "random", "back")
	case k == 5:
		largeCloud(c, &res, big(), "identity", "front")
	case k == 6:
		largeTris(c, &res, 40000)
	case k == 7:
		largeTris(c, &res, 40000+r.Intn(110001))
	case k == 8:
		largeCloud(c, &res, big(), "permutation", "stripes")
	case k == 9:
		largeTris(c, &res, 150000)
	case c.Case%3 == 2:
		largeTris(c, &res, 40000+r.Intn(110001))
	default:
		n := big()
		switch r.Intn(3) {
		case 0:
			n = pick(r, fixed)
		case 1:
			n = 32768 + r.Intn(170000)
		}
		largeCloud(c, &res, n, pick(r, patterns), pick(r, profiles))
	}
	return res
}

// keepProbability: the share of points kept around position p of n in the point
// list, so that the blocks of a block-wise scan keep very different amounts.
func keepProbability(profile string, p, n int) float64 {
	switch profile {
	case "front":
		if p < n/2 {
			return 0.9
		}
		return 0.03
	case "back":
		if p < n/2 {
			return 0.03
		}
		return 0.9
	case "stripes":
		if (p/(n/16+1))%2 == 0 {
			return 0.95
		}
		return 0.02
	}
	return 0.5
}

// largeCloud: n points; every arity has one attribute whose first component is
// < 0.9375 for the points to keep and >= 1 for the others.
func largeCloud(c *run.Ctx, res *run.Result, n int, pattern, profile string) {
	r := c.Rng
	idx := make([]int, n)
	switch pattern {
	case "permutation":
		idx = r.Perm(n)
	case "random": // repeated points and unreferenced vertices
		for i := range idx {
			idx[i] = r.Intn(n)
		}
	default:
		for i := range idx {
			idx[i] = i
		}
	}
	// position of each vertex in the point list (first occurrence; its own number when unreferenced)
	where := make([]int, n)
	for v := range where {
		where[v] = -1
	}
	for p, v := range idx {
		if where[v] < 0 {
			where[v] = p
		}
	}
	flag := func(v int) float64 {
		p := where[v]
		if p < 0 {
			p = v
		}
		if r.Float64() < keepProbability(profile, p, n) {
			return r.Float64() * 0.9
		}
		return 1 + r.Float64()*9
	}
	v1 := make([]float64, n)
	v2 := make([]vector2.Float64, n)
	pos := make([]vector3.Float64, n)
	v4 := make([]vector4.Float64, n)
	col := make([]vector3.Float64, n)
	for v := 0; v < n; v++ {
		v1[v] = flag(v)
		v2[v] = vector2.New(flag(v), r.Float64())
		pos[v] = vector3.New(flag(v), r.Float64(), r.Float64())
		v4[v] = vector4.New(flag(v), r.Float64(), r.Float64(), r.Float64())
		col[v] = vector3.New(r.Float64(), r.Float64(), r.Float64())
	}
	m := modeling.NewMesh(modeling.PointTopology, idx).
		SetFloat1Attribute("userV1", v1).
		SetFloat2Attribute("userV2", v2).
		SetFloat3Attribute(modeling.PositionAttribute, pos).
		SetFloat3Attribute(modeling.ColorAttribute, col).
		SetFloat4Attribute("userV4", v4)
	d := gen.MeshDesc{Topology: modeling.PointTopology.String(), Verts: n, Prims: n, IndexPattern: "large-" + pattern, ValueClass: "keep-flag/" + profile,
		Attrs: []string{"userV1", "userV2", "P", "Color", "userV4"}, Identity: pattern == "identity", Shared: pattern == "random", Unreferenced: pattern == "random"}
	o := newOpctx(c, res, m, d)
	o.noRetain = true
	res.Count("large.point_clouds", 1)
	res.Count("large.points", int64(n))
	res.SetAdd("large.cloud_sizes", fmt.Sprint(n))
	res.SetAdd("large.keep_profiles", profile)
	pred := func(t []float64) bool { return t[0] < 0.9375 }
	keys := map[int]string{1: "1:userV1", 2: "2:userV2", 3: "3:" + modeling.PositionAttribute, 4: "4:userV4"}
	// three rounds: a result that depends on goroutine scheduling need not fail every time
	for round := 0; round < 3; round++ {
		// x in [-1, 0.9375], y and z in [-1, 2]: the box keeps exactly the flagged points
		o.runCrop(keys[3], [3]float64{-0.03125, 0.5, 0.5}, [3]float64{1.9375, 3, 3}, "keep-flag")
		res.Count("large.filter_and_crop_runs", 1)
		for ar := 1; ar <= 4; ar++ {
			o.runFilter(ar, keys[ar], pred, "c0<0.9375")
			res.Count("large.filter_and_crop_runs", 1)
		}
		if len(res.Violations) > 0 {
			break
		}
	}
	o.params = []string{fmt.Sprintf("large cloud %s/%s, crop+filter1..4 ×3", pattern, profile)}
	o.finish(true)
}

// largeTris: a triangle mesh with shared, duplicated and unreferenced vertices,
// degenerate and repeated triangles, on a coarse lattice (so that welding merges).
func largeTris(c *run.Ctx, res *run.Result, n int) {
	r := c.Rng
	mk := func(n int) (modeling.Mesh, gen.MeshDesc) {
		pos := make([]vector3.Float64, n)
		nor := make([]vector3.Float64, n)
		uv := make([]vector2.Float64, n)
		f1 := make([]float64, n)
		for i := range pos {
			pos[i] = vector3.New(float64(r.Intn(400))/20, float64(r.Intn(400))/20, float64(r.Intn(400))/20)
			if i > 0 && r.Intn(6) == 0 {
				pos[i] = pos[r.Intn(i)]
			}
			nor[i] = vector3.New(r.NormFloat64(), r.NormFloat64(), r.NormFloat64())
			uv[i] = vector2.New(r.Float64(), r.Float64())
			f1[i] = r.Float64()*20 - 10
		}
		nt := n - r.Intn(n/10+1)
		lim := n - n/10 // the last tenth of the vertices stays unreferenced
		idx := make([]int, 0, 3*nt)
		for t := 0; t < nt; t++ {
			switch {
			case t > 0 && r.Intn(50) == 0: // a triangle repeated verbatim
				q := r.Intn(t)
				idx = append(idx, idx[3*q], idx[3*q+1], idx[3*q+2])
			case r.Intn(30) == 0: // degenerate: a corner repeated
				a, b := r.Intn(lim), r.Intn(lim)
				idx = append(idx, a, b, a)
			default:
				idx = append(idx, r.Intn(lim), r.Intn(lim), r.Intn(lim))
			}
		}
		m := modeling.NewMesh(modeling.TriangleTopology, idx).
			SetFloat3Attribute(modeling.PositionAttribute, pos).
			SetFloat3Attribute(modeling.NormalAttribute, nor).
			SetFloat2Attribute(modeling.TexCoordAttribute, uv)
		attrs := []string{"P", "Normal", "TexCoord"}
		if r.Intn(2) == 0 {
			m = m.SetFloat1Attribute("userV1", f1)
			attrs = append(attrs, "userV1")
		}
		d := gen.MeshDesc{Topology: modeling.TriangleTopology.String(), Verts: n, Prims: nt, IndexPattern: "large-random", ValueClass: "lattice",
			Attrs: attrs, Shared: true, Unreferenced: true, DupPositions: true}
		if r.Intn(2) == 0 {
			mats := gen.Materials(r, nt)
			m = m.SetMaterials(mats)
			d.Materials = len(mats)
		}
		return m, d
	}
	m, d := mk(n)
	o := newOpctx(c, res, m, d)
	o.noRetain = true
	res.Count("large.triangle_meshes", 1)
	res.Count("large.triangle_mesh_vertices", int64(n))
	res.SetAdd("large.mesh_sizes_10k", fmt.Sprint(n/10000*10000))
	pos := "3:" + modeling.PositionAttribute
	o.checkUnweld()
	o.checkRemoveUnreferenced()
	o.checkToPointCloud()
	o.checkFlip()
	o.checkTransformChain()
	o.checkRemoveNullFaces(pos)
	dec := pick(r, []int{0, 1, 1, 2})
	o.checkWeld(pos, dec)
	o.checkWeldAfterUnweld(pos, dec)
	other, od := mk(n/4 + 1)
	o.checkAppend(other, od)
	o.checkRepeat()
	o.finish(true)
}
