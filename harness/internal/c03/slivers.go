package c03

import (
	"fmt"
	"math"
	"math/big"

	"github.com/EliCDavis/polyform/modeling"
	"github.com/EliCDavis/polyform/modeling/meshops"
	"github.com/EliCDavis/vector/vector3"
	"polyverif/internal/gen"
)

// Extreme aspect ratios: long thin triangles (base 1…1e4, height/base 1e-6…1e-12)
// in random orientation and position, also far from the origin, whose area is
// well-conditioned by its definition (|e1×e2|/2 of the stored coordinates) but
// ill-conditioned by naive alternatives (Heron's formula from the edge lengths).
// They are NOT null faces unless their area really is below the threshold.

const bigPrec = 2000

func bf(x float64) *big.Float { return new(big.Float).SetPrec(bigPrec).SetFloat64(x) }

// exactArea is |(b-a)×(c-a)|/2 of the stored coordinates, evaluated exactly
// (big.Float; only the final square root is rounded).
func exactArea(a, b, c []float64) float64 {
	var e1, e2 [3]*big.Float
	for i := 0; i < 3; i++ {
		e1[i] = new(big.Float).SetPrec(bigPrec).Sub(bf(b[i]), bf(a[i]))
		e2[i] = new(big.Float).SetPrec(bigPrec).Sub(bf(c[i]), bf(a[i]))
	}
	mul := func(x, y *big.Float) *big.Float { return new(big.Float).SetPrec(bigPrec).Mul(x, y) }
	sum := new(big.Float).SetPrec(bigPrec)
	for i := 0; i < 3; i++ {
		j, k := (i+1)%3, (i+2)%3
		ci := new(big.Float).SetPrec(bigPrec).Sub(mul(e1[j], e2[k]), mul(e1[k], e2[j]))
		sum.Add(sum, mul(ci, ci))
	}
	if sum.Sign() == 0 {
		return 0
	}
	f, _ := new(big.Float).SetPrec(bigPrec).Sqrt(sum).Float64()
	return f / 2
}

func unit3(v [3]float64) [3]float64 {
	l := len3(v)
	return [3]float64{v[0] / l, v[1] / l, v[2] / l}
}

// checkSliverNullFaces: RemoveNullFaces3D on a mesh of slivers mixed with ordinary
// and exactly degenerate faces. With the exact area A of the stored triangle and
// noise = 1e-14·|e1||e2| (≈ 100 ulp of a float64 cross product):
//
//	A >= 100·threshold and A - noise > threshold  -> the face must survive, in order, corners intact
//	A <= threshold/100 and A + noise < threshold  -> the face must go
//	anything in between                           -> may be kept or dropped
func (o *opctx) checkSliverNullFaces() {
	const site = "meshops.RemoveNullFaces3D"
	r := o.r
	var pos []vector3.Float64
	var idx []int
	kind := []string{} // per face: sliver / ordinary / degenerate
	add := func(p [3]float64) int {
		pos = append(pos, vector3.New(p[0], p[1], p[2]))
		return len(pos) - 1
	}
	randUnit := func() [3]float64 {
		for {
			v := [3]float64{r.NormFloat64(), r.NormFloat64(), r.NormFloat64()}
			if len3(v) > 0.1 {
				return unit3(v)
			}
		}
	}
	nFaces := 6 + r.Intn(14)
	var ordinary []int
	for i := 0; i < 4+r.Intn(4); i++ {
		ordinary = append(ordinary, add([3]float64{r.Float64()*20 - 10, r.Float64()*20 - 10, r.Float64()*20 - 10}))
	}
	for f := 0; f < nFaces; f++ {
		switch k := r.Intn(10); {
		case k < 6: // a sliver
			base := math.Pow(10, r.Float64()*4)     // 1 … 1e4
			ratio := math.Pow(10, -6-r.Float64()*6) // 1e-6 … 1e-12
			off := pick(r, []float64{0, 0, 1, 1e3, 1e4, 1e5, 1e6})
			u := randUnit()
			w := unit3(cross(u, randUnit()))
			d := randUnit()
			a := [3]float64{d[0] * off, d[1] * off, d[2] * off}
			t := 0.05 + 0.9*r.Float64()
			h := base * ratio
			var b, c [3]float64
			for i := 0; i < 3; i++ {
				b[i] = a[i] + base*u[i]
				c[i] = a[i] + t*base*u[i] + h*w[i]
			}
			vs := []int{add(a), add(b), add(c)}
			s := r.Intn(3) // any corner may come first, either winding
			if r.Intn(2) == 0 {
				idx = append(idx, vs[s], vs[(s+1)%3], vs[(s+2)%3])
			} else {
				idx = append(idx, vs[s], vs[(s+2)%3], vs[(s+1)%3])
			}
			kind = append(kind, "sliver")
		case k < 8: // an ordinary face
			idx = append(idx, pick(r, ordinary), pick(r, ordinary), pick(r, ordinary))
			kind = append(kind, "ordinary")
		default: // exactly degenerate: a repeated vertex, a duplicated position, or collinear lattice points
			switch r.Intn(3) {
			case 0:
				a := pick(r, ordinary)
				idx = append(idx, a, pick(r, ordinary), a)
			case 1:
				a := pick(r, ordinary)
				p := pos[a]
				idx = append(idx, a, add([3]float64{p.X(), p.Y(), p.Z()}), pick(r, ordinary))
			default:
				p := [3]float64{float64(r.Intn(9) - 4), float64(r.Intn(9) - 4), float64(r.Intn(9) - 4)}
				s := [3]float64{float64(r.Intn(5) - 2), float64(r.Intn(5) - 2), float64(r.Intn(5) - 2)}
				idx = append(idx, add(p), add([3]float64{p[0] + s[0], p[1] + s[1], p[2] + s[2]}), add([3]float64{p[0] + 3*s[0], p[1] + 3*s[1], p[2] + 3*s[2]}))
			}
			kind = append(kind, "degenerate")
		}
	}
	n := len(pos)
	v1 := make([]float64, n)
	nor := make([]vector3.Float64, n)
	for i := range v1 {
		v1[i] = float64(i)
		nor[i] = vector3.New(r.NormFloat64(), r.NormFloat64(), r.NormFloat64())
	}
	m := modeling.NewMesh(modeling.TriangleTopology, idx).
		SetFloat3Attribute(modeling.PositionAttribute, pos).
		SetFloat3Attribute(modeling.NormalAttribute, nor).
		SetFloat1Attribute("userV1", v1)
	d := gen.MeshDesc{Topology: modeling.TriangleTopology.String(), Verts: n, Prims: nFaces, IndexPattern: "random", ValueClass: "slivers",
		Attrs: []string{"P", "Normal", "userV1"}, Shared: true}
	w := o.sub(m, d)
	key := "3:" + modeling.PositionAttribute

	// exact areas of the stored triangles
	area := make([]float64, nFaces)
	noise := make([]float64, nFaces)
	aspect := make([]float64, nFaces) // height / longest edge
	var sliverAreas []float64
	for f := 0; f < nFaces; f++ {
		a, b, c := w.im.attr(key, idx[3*f]), w.im.attr(key, idx[3*f+1]), w.im.attr(key, idx[3*f+2])
		area[f] = exactArea(a, b, c)
		e1, e2, e3 := len3(sub3(b, a)), len3(sub3(c, a)), len3(sub3(c, b))
		noise[f] = 1e-14 * e1 * e2
		if l := math.Max(e1, math.Max(e2, e3)); l > 0 {
			aspect[f] = 2 * area[f] / (l * l)
		}
		if kind[f] == "sliver" && area[f] > 0 {
			sliverAreas = append(sliverAreas, area[f])
		}
	}
	// the threshold: zero, tiny, or placed a factor 300 below / above the area of one sliver
	thr := 0.0
	tclass := "zero"
	if len(sliverAreas) > 0 {
		switch r.Intn(5) {
		case 0:
		case 1:
			thr, tclass = 1e-15, "tiny"
		case 2, 3:
			thr, tclass = pick(r, sliverAreas)/300, "sliver/300"
		default:
			thr, tclass = pick(r, sliverAreas)*300, "sliver*300"
		}
	}
	const (
		mustGo = iota
		mustStay
		either
	)
	status := make([]int, nFaces)
	for f := range status {
		switch {
		case area[f] > 0 && area[f] >= 100*thr && area[f]-noise[f] > thr:
			status[f] = mustStay
		case area[f] <= thr/100 && area[f]+noise[f] < thr, area[f] == 0 && noise[f] == 0:
			status[f] = mustGo
		case area[f] == 0: // exactly collinear distinct points, threshold 0: a rounded cross product may leave a residue
			status[f] = either
			if kind[f] == "degenerate" {
				// lattice points: the float64 cross product is exact, the face is null
				status[f] = mustGo
			}
		default:
			status[f] = either
		}
	}
	o.res.SetAdd("null_faces.sliver_threshold_classes", tclass)
	viaT := r.Intn(2) == 0
	extra := []any{"minArea", thr, "threshold_class", tclass, "form", map[bool]string{true: "Transformer", false: "function"}[viaT]}
	out, ok := w.call(site, func() modeling.Mesh {
		if viaT {
			return must(meshops.RemoveNullFaces3DTransformer{Attribute: modeling.PositionAttribute, MinArea: thr}.Transform(m))
		}
		return meshops.RemoveNullFaces3D(m, modeling.PositionAttribute, thr)
	}, extra...)
	if !ok {
		return
	}
	if out.Topology != modeling.TriangleTopology {
		w.violate("topology-changed", site, fmt.Sprintf("topology -> %v", out.Topology), extra...)
		return
	}
	om := newModel(out)
	got := om.primsOver(w.im.names)
	if len(got) > 0 && !sameNames(w.im.names, om.names) {
		w.violate("attribute-set-changed", site, fmt.Sprintf("attributes %v -> %v", w.im.names, om.names), extra...)
		return
	}
	in := w.im.prims()
	gi := 0
	keptSlivers, goneSlivers := 0, 0
	for f := 0; f < nFaces; f++ {
		here := gi < len(got) && sameTuple(got[gi], in[f])
		switch status[f] {
		case either:
			if here {
				gi++
			}
		case mustStay:
			if !here {
				obs := "end of output"
				if gi < len(got) {
					obs = fmtPrim(got[gi], w.im.names, 3)
				}
				w.violate("non-null-face-dropped", site, fmt.Sprintf("input triangle %d (%s, height/longest edge %.3g) has exact area %.6g = %.3g × minArea %.3g and is not a null face: it must survive as output triangle %d with its corners intact; observed there: %s; expected %s (output has %d of %d triangles)",
					f, kind[f], aspect[f], area[f], area[f]/thr, thr, gi, obs, fmtPrim(in[f], w.im.names, 3), len(got), nFaces), extra...)
				return
			}
			gi++
			if kind[f] == "sliver" {
				keptSlivers++
				if aspect[f] > 0 {
					o.res.SetAdd("null_faces.sliver_aspect_decades", fmt.Sprintf("1e%d", int(math.Floor(math.Log10(aspect[f])))))
				}
			}
		case mustGo:
			// nothing to consume; a surviving copy shows up as a surplus / mismatch below
			if kind[f] == "sliver" {
				goneSlivers++
			}
		}
	}
	if gi != len(got) {
		w.violate("primitive-not-dropped", site, fmt.Sprintf("output has %d triangles beyond those that may survive minArea %.3g; first surplus: %s", len(got)-gi, thr, fmtPrim(got[gi], w.im.names, 3)), extra...)
		return
	}
	o.res.Count("null_faces.sliver_meshes", 1)
	o.res.Count("null_faces.slivers_kept_checked", int64(keptSlivers))
	o.res.Count("null_faces.slivers_dropped_checked", int64(goneSlivers))
	o.res.Count("corners_compared", int64(3*gi))
	if keptSlivers > 0 && goneSlivers > 0 {
		o.dropSeen = true
	}
}
