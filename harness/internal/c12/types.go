package c12

import (
	"fmt"
	"image"
	"sort"
	"strconv"
	"strings"

	"github.com/EliCDavis/polyform/drawing/coloring"
	"github.com/EliCDavis/polyform/generator"
	"github.com/EliCDavis/polyform/math/geometry"
	"github.com/EliCDavis/polyform/modeling"
	"github.com/EliCDavis/polyform/nodes"
	"github.com/EliCDavis/polyform/refutil"
	"github.com/EliCDavis/vector/vector2"
	"github.com/EliCDavis/vector/vector3"

	// every package that registers node types with the generator (the list of cmd/polyform)
	_ "github.com/EliCDavis/polyform/formats/colmap"
	_ "github.com/EliCDavis/polyform/formats/gltf"
	_ "github.com/EliCDavis/polyform/formats/opensfm"
	_ "github.com/EliCDavis/polyform/formats/ply"
	_ "github.com/EliCDavis/polyform/formats/splat"
	_ "github.com/EliCDavis/polyform/formats/spz"
	_ "github.com/EliCDavis/polyform/formats/stl"
	_ "github.com/EliCDavis/polyform/generator/artifact/basics"
	_ "github.com/EliCDavis/polyform/generator/parameter"
	_ "github.com/EliCDavis/polyform/math"
	_ "github.com/EliCDavis/polyform/math/curves"
	_ "github.com/EliCDavis/polyform/math/vector"
	_ "github.com/EliCDavis/polyform/modeling/extrude"
	_ "github.com/EliCDavis/polyform/modeling/meshops"
	_ "github.com/EliCDavis/polyform/modeling/meshops/gausops"
	_ "github.com/EliCDavis/polyform/modeling/primitives"
	_ "github.com/EliCDavis/polyform/modeling/repeat"
	_ "github.com/EliCDavis/polyform/nodes/experimental"
)

// Harness-registered node types. All are deterministic, order-sensitive pure
// functions into strings, so that every parameter type and every array position
// can be observed in a text artifact.

const harnessPkg = "polyverif/internal/c12."

func isHarnessType(t string) bool { return strings.Contains(t, harnessPkg) }

// ConcatData: order-sensitive array input plus two named inputs.
type ConcatData struct {
	Values []nodes.NodeOutput[string]
	A      nodes.NodeOutput[string]
	B      nodes.NodeOutput[string]
}

func (c ConcatData) Process() (string, error) {
	parts := make([]string, 0, len(c.Values))
	for _, v := range c.Values {
		if v == nil {
			parts = append(parts, "<nil>")
			continue
		}
		parts = append(parts, v.Value())
	}
	a, b := "_", "_"
	if c.A != nil {
		a = c.A.Value()
	}
	if c.B != nil {
		b = c.B.Value()
	}
	return "cat{" + a + "|" + b + "|[" + strings.Join(parts, "\x1f") + "]}", nil
}

// ListData[T]: order-sensitive array input of any element type.
type ListData[T any] struct {
	Values []nodes.NodeOutput[T]
}

func (c ListData[T]) Process() (string, error) {
	parts := make([]string, 0, len(c.Values))
	for _, v := range c.Values {
		if v == nil {
			parts = append(parts, "<nil>")
			continue
		}
		parts = append(parts, render(v.Value()))
	}
	return "list[" + strings.Join(parts, ";") + "]", nil
}

// FmtData[T]: renders one value of any parameter / node output type exactly.
type FmtData[T any] struct {
	In nodes.NodeOutput[T]
}

func (c FmtData[T]) Process() (string, error) {
	if c.In == nil {
		return "fmt(_)", nil
	}
	return "fmt(" + render(c.In.Value()) + ")", nil
}

func f64(v float64) string { return strconv.FormatFloat(v, 'g', -1, 64) }

func fnv(h uint64, b byte) uint64 { return (h ^ uint64(b)) * 1099511628211 }

// render is an exact, deterministic rendering of the value types that flow through graphs.
func render(v any) string {
	switch x := v.(type) {
	case string:
		return strconv.Quote(x)
	case int:
		return strconv.Itoa(x)
	case float64:
		return f64(x)
	case bool:
		return strconv.FormatBool(x)
	case vector3.Float64:
		return "v3(" + f64(x.X()) + "," + f64(x.Y()) + "," + f64(x.Z()) + ")"
	case vector2.Float64:
		return "v2(" + f64(x.X()) + "," + f64(x.Y()) + ")"
	case []vector3.Float64:
		if x == nil {
			return "v3s(nil)"
		}
		p := make([]string, len(x))
		for i, e := range x {
			p[i] = render(e)
		}
		return "v3s[" + strings.Join(p, ",") + "]"
	case []float64:
		p := make([]string, len(x))
		for i, e := range x {
			p[i] = f64(e)
		}
		return "f64s[" + strings.Join(p, ",") + "]"
	case geometry.AABB:
		return "aabb(" + render(x.Center()) + "," + render(x.Size()) + ")"
	case coloring.WebColor:
		return fmt.Sprintf("rgba(%d,%d,%d,%d)", x.R, x.G, x.B, x.A)
	case []byte:
		if x == nil {
			return "bytes(nil)"
		}
		var h uint64 = 14695981039346656037
		for _, b := range x {
			h = fnv(h, b)
		}
		head := x
		if len(head) > 16 {
			head = head[:16]
		}
		return fmt.Sprintf("bytes(%d,%x,%016x)", len(x), head, h)
	case image.Image:
		if x == nil {
			return "img(nil)"
		}
		b := x.Bounds()
		var h uint64 = 14695981039346656037
		for y := b.Min.Y; y < b.Max.Y; y++ {
			for xx := b.Min.X; xx < b.Max.X; xx++ {
				r, g, bb, a := x.At(xx, y).RGBA()
				for _, c := range []uint32{r, g, bb, a} {
					h = fnv(h, byte(c))
					h = fnv(h, byte(c>>8))
				}
			}
		}
		return fmt.Sprintf("img(%v,%016x)", b, h)
	case modeling.Mesh:
		return renderMesh(x)
	}
	return fmt.Sprintf("%T(%v)", v, v)
}

func renderMesh(m modeling.Mesh) (out string) {
	defer func() {
		if r := recover(); r != nil {
			out = fmt.Sprintf("mesh(unreadable: %v)", r)
		}
	}()
	var h uint64 = 14695981039346656037
	mix := func(f float64) {
		s := f64(f)
		for i := 0; i < len(s); i++ {
			h = fnv(h, s[i])
		}
		h = fnv(h, ',')
	}
	idx := m.Indices()
	for i := 0; i < idx.Len(); i++ {
		mix(float64(idx.At(i)))
	}
	var names []string
	names = append(names, m.Float3Attributes()...)
	sort.Strings(names)
	for _, n := range names {
		a := m.Float3Attribute(n)
		for i := 0; i < a.Len(); i++ {
			v := a.At(i)
			mix(v.X())
			mix(v.Y())
			mix(v.Z())
		}
	}
	n2 := append([]string{}, m.Float2Attributes()...)
	sort.Strings(n2)
	for _, n := range n2 {
		a := m.Float2Attribute(n)
		for i := 0; i < a.Len(); i++ {
			v := a.At(i)
			mix(v.X())
			mix(v.Y())
		}
	}
	return fmt.Sprintf("mesh(top=%v,idx=%d,v3=%v,v2=%v,%016x)", m.Topology(), idx.Len(), names, n2, h)
}

type (
	ConcatNode   = nodes.Struct[string, ConcatData]
	ListStrNode  = nodes.Struct[string, ListData[string]]
	ListF64Node  = nodes.Struct[string, ListData[float64]]
	ListIntNode  = nodes.Struct[string, ListData[int]]
	ListV3Node   = nodes.Struct[string, ListData[vector3.Float64]]
	FmtF64Node   = nodes.Struct[string, FmtData[float64]]
	FmtIntNode   = nodes.Struct[string, FmtData[int]]
	FmtBoolNode  = nodes.Struct[string, FmtData[bool]]
	FmtV3Node    = nodes.Struct[string, FmtData[vector3.Float64]]
	FmtV2Node    = nodes.Struct[string, FmtData[vector2.Float64]]
	FmtV3sNode   = nodes.Struct[string, FmtData[[]vector3.Float64]]
	FmtF64sNode  = nodes.Struct[string, FmtData[[]float64]]
	FmtAABBNode  = nodes.Struct[string, FmtData[geometry.AABB]]
	FmtColorNode = nodes.Struct[string, FmtData[coloring.WebColor]]
	FmtBytesNode = nodes.Struct[string, FmtData[[]byte]]
	FmtImageNode = nodes.Struct[string, FmtData[image.Image]]
	FmtMeshNode  = nodes.Struct[string, FmtData[modeling.Mesh]]
)

func init() {
	f := &refutil.TypeFactory{}
	refutil.RegisterType[ConcatNode](f)
	refutil.RegisterType[ListStrNode](f)
	refutil.RegisterType[ListF64Node](f)
	refutil.RegisterType[ListIntNode](f)
	refutil.RegisterType[ListV3Node](f)
	refutil.RegisterType[FmtF64Node](f)
	refutil.RegisterType[FmtIntNode](f)
	refutil.RegisterType[FmtBoolNode](f)
	refutil.RegisterType[FmtV3Node](f)
	refutil.RegisterType[FmtV2Node](f)
	refutil.RegisterType[FmtV3sNode](f)
	refutil.RegisterType[FmtF64sNode](f)
	refutil.RegisterType[FmtAABBNode](f)
	refutil.RegisterType[FmtColorNode](f)
	refutil.RegisterType[FmtBytesNode](f)
	refutil.RegisterType[FmtImageNode](f)
	refutil.RegisterType[FmtMeshNode](f)
	generator.RegisterTypes(f)
}
