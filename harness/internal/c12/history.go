package c12

import (
	"bytes"
	"fmt"
	"math/rand"
	"sort"
	"strings"

	"github.com/EliCDavis/polyform/generator"
	"github.com/EliCDavis/polyform/generator/artifact"
	"github.com/EliCDavis/polyform/generator/artifact/basics"
	"github.com/EliCDavis/polyform/generator/graph"
	"github.com/EliCDavis/polyform/generator/parameter"
	"github.com/EliCDavis/polyform/generator/schema"
	"github.com/EliCDavis/polyform/nodes"
	"polyverif/internal/run"
)

// The edit history driver. It keeps only what a client of the HTTP API would
// know (ids it created, which parameters it decided to keep "tame", the metadata
// it posted) and reads the current wiring back through the public observers of
// the graph instance, like the web UI does.

type hnode struct {
	id   string
	t    *catType
	tame bool // parameters: only tame values are ever sent to it
	// image parameters: the last accepted upload was not in Go's default PNG encoding
	foreign bool
}

type hist struct {
	c   *run.Ctx
	res *run.Result
	r   *rand.Rand
	cat *catalogue
	app *generator.App
	g   *graph.Instance

	nodes []*hnode // live nodes in creation order
	byID  map[string]*hnode
	meta  map[string]any // mirror of what was posted to the metadata endpoints
	ops   []string
	dead  bool

	start        string
	maxArr       int
	paramTypes   map[string]bool
	deletions    int
	metaOps      int
	midReads     int
	burstTargets int
	// fileBlobs: only these histories give parameter.File nodes a value. (A File value
	// followed by another blob in the saved buffer is corrupted by reload - known
	// finding - and the re-save of such a graph cannot be compared byte for byte.)
	fileBlobs bool
	autosave  string          // every-edit | random | never
	noReplay  bool            // the history is not one runHistory can replay
	deleted   map[string]bool // ids of deleted nodes
	// sessions: the history continues on the application a saved file was loaded into
	session          int
	holeBelowHighest bool // since the last load a node other than the highest-numbered one was deleted
}

func (h *hist) logf(format string, a ...any) {
	s := fmt.Sprintf(format, a...)
	if len(s) > 160 {
		s = s[:160] + "…"
	}
	h.ops = append(h.ops, s)
}

func (h *hist) witness() any {
	ops := h.ops
	if len(ops) > 120 {
		ops = append([]string{"…"}, ops[len(ops)-120:]...)
	}
	return map[string]any{"start": h.start, "ops": ops}
}

// try runs one call into polyform; a panic ends the history (the graph may be half edited).
func (h *hist) try(what string, f func()) bool {
	if p := run.Try(f); p != nil {
		h.res.Violate("edit-panic", p.Site, what, fmt.Sprintf("%s panicked: %s\n%s", what, p.Value, p.Stack), h.witness())
		h.dead = true
		return false
	}
	return true
}

type dep struct {
	name, src, port string
}

func (h *hist) deps(id string) []dep {
	var out []dep
	n := h.g.Node(id)
	for _, d := range n.Dependencies() {
		out = append(out, dep{d.Name(), h.g.NodeId(d.Dependency()), d.DependencyPort()})
	}
	return out
}

func (h *hist) arrLen(id, input string) int {
	n := 0
	for _, d := range h.deps(id) {
		if strings.HasPrefix(d.name, input+".") {
			n++
		}
	}
	return n
}

func (h *hist) wired(id, input string) bool {
	for _, d := range h.deps(id) {
		if d.name == input {
			return true
		}
	}
	return false
}

// cone returns the ids id transitively depends on (id included).
func (h *hist) cone(id string) map[string]bool {
	seen := map[string]bool{}
	var walk func(string)
	walk = func(x string) {
		if seen[x] || x == "" {
			return
		}
		seen[x] = true
		for _, d := range h.deps(x) {
			walk(d.src)
		}
	}
	walk(id)
	return seen
}

func (h *hist) dependents(id string) int {
	n := 0
	for _, o := range h.nodes {
		if o.id == id {
			continue
		}
		for _, d := range h.deps(o.id) {
			if d.src == id {
				n++
			}
		}
	}
	return n
}

func (h *hist) countType(sub string) int {
	n := 0
	for _, o := range h.nodes {
		if strings.Contains(o.t.Type, sub) {
			n++
		}
	}
	return n
}

// ---- start states -------------------------------------------------------------

var authors = []schema.Author{{Name: "A. Uthor", ContactInfo: []schema.AuthorContact{{Medium: "mail", Value: "a@example.invalid"}}}, {Name: "Zoë <z>"}}

func (h *hist) begin() bool {
	r := h.r
	h.app = &generator.App{}
	if r.Intn(2) == 0 {
		h.app.Name = "graph " + genString(r, false)
		h.app.Version = fmt.Sprintf("v%d.%d.%d", r.Intn(3), r.Intn(10), r.Intn(10))
		h.app.Description = genString(r, false)
		h.app.Authors = authors[:r.Intn(3)]
		if r.Intn(2) == 0 {
			h.app.WebScene = &schema.WebScene{AntiAlias: true, XrEnabled: r.Intn(2) == 0, Fog: schema.WebSceneFog{Near: 1.5, Far: float32(r.Intn(100))}}
		}
	}
	h.start = "empty"
	h.fileBlobs = r.Intn(5) < 2
	if r.Intn(3) == 0 {
		// a hand-built application, as the examples of the repository declare them
		h.start = "App.Files"
		name := &parameter.String{Name: "Name", DefaultValue: genString(r, false), Description: "who"}
		size := &parameter.Float64{Name: "Size", DefaultValue: wildFloat(r)}
		if r.Intn(2) == 0 {
			size.CLI = &parameter.CliConfig[float64]{FlagName: "size", Usage: "the size"}
		}
		count := &parameter.Int{Name: "Count", DefaultValue: r.Intn(9)}
		vals := []nodes.NodeOutput[string]{name.Out()}
		fs := &FmtF64Node{Data: FmtData[float64]{In: size.Out()}}
		fc := &FmtIntNode{Data: FmtData[int]{In: count.Out()}}
		for k := r.Intn(14); k > 0; k-- {
			switch r.Intn(3) {
			case 0:
				vals = append(vals, name.Out())
			case 1:
				vals = append(vals, fs.Out())
			default:
				vals = append(vals, fc.Out())
			}
		}
		cc := &ConcatNode{Data: ConcatData{Values: vals, A: fs.Out()}}
		h.app.Files = map[string]nodes.NodeOutput[artifact.Artifact]{"hello.txt": basics.NewTextNode(cc.Out())}
		if r.Intn(2) == 0 {
			h.app.Files["second/copy.txt"] = basics.NewTextNode(fc.Out())
		}
	}
	ok := h.try("generator.VerifGraph", func() { h.g = generator.VerifGraph(h.app) })
	if !ok {
		return false
	}
	h.byID = map[string]*hnode{}
	h.meta = map[string]any{}
	h.paramTypes = map[string]bool{}
	if h.start != "empty" {
		var ids []string
		var s schema.GraphInstance
		if !h.try("graph.Instance.Schema", func() { s = h.g.Schema() }) {
			return false
		}
		for id := range s.Nodes {
			ids = append(ids, id)
		}
		sort.Strings(ids)
		for _, id := range ids {
			ct := h.cat.byType[s.Nodes[id].Type]
			if ct == nil {
				h.res.Inconclusive = "harness: hand-built node type not in catalogue: " + s.Nodes[id].Type
				return false
			}
			n := &hnode{id: id, t: ct, tame: false}
			h.nodes = append(h.nodes, n)
			h.byID[id] = n
			if ct.IsParam {
				h.paramTypes[ct.Out] = true
			}
		}
	}
	return true
}

// ---- operations ---------------------------------------------------------------

func (h *hist) create(ct *catType) *hnode {
	var id string
	var err error
	if !h.try("graph.Instance.CreateNode", func() { _, id, err = h.g.CreateNode(ct.Type) }) {
		return nil
	}
	if err != nil {
		h.res.Violate("create-node-error", "graph.Instance.CreateNode", ct.Short, fmt.Sprintf("CreateNode(%q) on a registered type: %v", ct.Type, err), h.witness())
		h.dead = true
		return nil
	}
	if other := h.byID[id]; other != nil {
		h.res.Violate("duplicate-node-id", "graph.Instance.CreateNode", fmt.Sprintf("session %d", h.session+1),
			fmt.Sprintf("CreateNode(%q) returned the id %s, which the live node of type %s already has", ct.Type, id, other.t.Short), h.witness())
		h.dead = true
		return nil
	}
	if h.session > 0 {
		h.res.Count("nodes_created_after_reload", 1)
	}
	n := &hnode{id: id, t: ct, tame: ct.IsParam && h.r.Intn(10) < 6}
	if ct.IsParam && (ct.Out == outBytes || ct.Out == outImage || ct.Out == outBool || ct.Out == outColor) {
		n.tame = true // no dangerous values in these types
	}
	h.nodes = append(h.nodes, n)
	h.byID[id] = n
	h.logf("create %s %s", id, ct.Short)
	h.res.SetAdd("node_types_created", ct.Short)
	h.res.Count("op_create_node", 1)
	if ct.IsParam {
		h.paramTypes[ct.Out] = true
		if h.r.Intn(4) != 0 {
			h.update(n)
		}
		if h.r.Intn(3) == 0 && !h.dead {
			h.rename(n)
		}
	}
	return n
}

// sourceOK: may the output of src feed input in of tgt?
func (h *hist) sourceOK(src, tgt *hnode, in catInput) bool {
	if src.t.Out != in.Type || src.id == tgt.id {
		return false
	}
	if !tgt.t.Harness {
		// geometry nodes only ever see tame parameter values, and sizes (int
		// inputs) only directly from a tame parameter
		if src.t.IsParam && !src.tame {
			return false
		}
		if in.Type == outInt && !src.t.IsParam {
			return false
		}
	}
	return true
}

func (h *hist) pickSourceType(in catInput, harnessTarget bool) *catType {
	cands := h.cat.byOut[in.Type]
	if len(cands) == 0 {
		return nil
	}
	var ok []*catType
	for _, c := range cands {
		if in.Type == outInt && !harnessTarget && !c.IsParam {
			continue
		}
		if strings.Contains(c.Type, "meshops.CombineNodeData") && h.countType("meshops.CombineNodeData") >= 3 {
			continue
		}
		if strings.Contains(c.Type, "repeat.MeshNodeData") && h.countType("repeat.MeshNodeData") >= 1 {
			continue
		}
		ok = append(ok, c)
		if c.IsParam { // parameters are the usual leaves
			ok = append(ok, c, c)
		}
	}
	if len(ok) == 0 {
		return nil
	}
	return ok[h.r.Intn(len(ok))]
}

// connect wires one more source into (tgt, in); returns false when nothing could be done.
func (h *hist) connect(tgt *hnode, in catInput, allowCreate bool) bool {
	var cands []*hnode
	for _, s := range h.nodes {
		if h.sourceOK(s, tgt, in) {
			cands = append(cands, s)
		}
	}
	var src *hnode
	if len(cands) > 0 && (!allowCreate || h.r.Intn(3) != 0) {
		// no cycles: the source must not depend on the target
		for try := 0; try < 4 && src == nil; try++ {
			s := cands[h.r.Intn(len(cands))]
			if !h.cone(s.id)[tgt.id] {
				src = s
			}
		}
	}
	if src == nil {
		if !allowCreate {
			return false
		}
		ct := h.pickSourceType(in, tgt.t.Harness)
		if ct == nil {
			return false
		}
		src = h.create(ct)
		if src == nil {
			return false
		}
		if src.t.IsParam && !tgt.t.Harness {
			src.tame = true
			h.update(src)
			if h.dead {
				return false
			}
		}
		if !h.sourceOK(src, tgt, in) {
			return false
		}
	}
	port := in.Name
	if in.Array {
		k := h.arrLen(tgt.id, in.Name)
		if k >= 15 {
			return false
		}
		port = fmt.Sprintf("%s.%d", in.Name, k)
		if k+1 > h.maxArr {
			h.maxArr = k + 1
		}
		h.res.Count("op_connect_array", 1)
	} else {
		if h.wired(tgt.id, in.Name) {
			h.res.Count("op_connect_replace", 1)
		} else {
			h.res.Count("op_connect_named", 1)
		}
	}
	h.logf("connect %s.Out -> %s.%s", src.id, tgt.id, port)
	return h.try("graph.Instance.ConnectNodes", func() { h.g.ConnectNodes(src.id, "Out", tgt.id, port) })
}

func (h *hist) update(n *hnode) {
	if n.t.Out == outBytes && !h.fileBlobs {
		return
	}
	msg, class := genMessage(h.r, n.t.Out, n.tame)
	if msg == nil {
		return
	}
	var err error
	shown := string(msg)
	if n.t.Out == outBytes || n.t.Out == outImage {
		shown = fmt.Sprintf("<%d bytes>", len(msg))
	}
	h.logf("update %s (%s) %s", n.id, class, shown)
	if !h.try("graph.Instance.UpdateParameter", func() { _, err = h.g.UpdateParameter(n.id, msg) }) {
		return
	}
	if err != nil {
		// a rejected message leaves the parameter as it was; nothing to compare
		h.res.Count("update_rejected", 1)
		h.res.SetAdd("update_rejected_classes", class)
		return
	}
	h.res.Count("op_update_parameter", 1)
	h.res.SetAdd("parameter_value_classes", class)
	if n.t.Out == outImage {
		n.foreign = foreignEncoding(msg)
		if n.foreign {
			h.res.Count("op_update_image_in_a_foreign_encoding", 1)
			h.res.SetAdd("image_upload_classes_in_a_foreign_encoding", class)
		}
	}
}

// leftovers counts what the graph about to be saved holds besides live nodes.
func (h *hist) leftovers() {
	var st metaStats
	st.walk(h.meta, 0)
	if st.emptyArrays > 0 {
		h.res.Count("saved_graphs_with_an_empty_array_in_metadata", 1)
		h.res.Count("empty_arrays_in_saved_metadata", int64(st.emptyArrays))
	}
	if st.emptyObjects > 0 {
		h.res.Count("saved_graphs_with_an_empty_object_in_metadata", 1)
	}
	if st.nulls > 0 {
		h.res.Count("saved_graphs_with_null_in_metadata", 1)
	}
	if st.depth >= 8 {
		h.res.Count("saved_graphs_with_metadata_nested_8_deep", 1)
	}
	if st.unicode {
		h.res.Count("saved_graphs_with_non_ascii_metadata_keys", 1)
	}
	foreign := 0
	for _, n := range h.nodes {
		if n.foreign {
			foreign++
		}
	}
	if foreign > 0 {
		h.res.Count("saved_graphs_with_an_image_uploaded_in_a_foreign_encoding", 1)
		h.res.Count("saved_image_parameters_uploaded_in_a_foreign_encoding", int64(foreign))
	}
	nm, _ := h.meta["nodes"].(map[string]any)
	dead, never := 0, 0
	for id := range nm {
		switch {
		case h.byID[id] != nil:
		case h.deleted[id]:
			dead++
		default:
			never++
		}
	}
	if dead > 0 {
		h.res.Count("saved_graphs_with_metadata_of_a_deleted_node", 1)
	}
	if never > 0 {
		h.res.Count("saved_graphs_with_metadata_of_an_id_that_never_existed", 1)
	}
}

func (h *hist) rename(n *hnode) {
	s := genString(h.r, false)
	if h.r.Intn(2) == 0 {
		h.logf("setname %s %q", n.id, s)
		h.res.Count("op_set_name", 1)
		h.try("Parameter.SetName", func() { h.g.Parameter(n.id).SetName(s) })
	} else {
		h.logf("setdescription %s %q", n.id, s)
		h.res.Count("op_set_description", 1)
		h.try("Parameter.SetDescription", func() { h.g.Parameter(n.id).SetDescription(s) })
	}
}

var producerNames = []string{"out.txt", "a/b/c.bin", "model.glb", "mesh.stl", "ünï ©ode.txt", "two.words here", "x", "hello.txt", "cloud.ply", "pic.png", "deep/er/and/deeper.txt", "UPPER.TXT"}

func (h *hist) pick(filter func(*hnode) bool) *hnode {
	var c []*hnode
	for _, n := range h.nodes {
		if filter(n) {
			c = append(c, n)
		}
	}
	if len(c) == 0 {
		return nil
	}
	return c[h.r.Intn(len(c))]
}

func (h *hist) inputs(n *hnode, array bool) []catInput {
	var out []catInput
	for _, in := range n.t.Inputs {
		if in.Array == array {
			out = append(out, in)
		}
	}
	return out
}

func (h *hist) metaParent(path []string) (map[string]any, bool) {
	cur := h.meta
	for _, seg := range path[:len(path)-1] {
		v, ok := cur[seg]
		if !ok {
			return nil, false
		}
		m, ok := v.(map[string]any)
		if !ok {
			return nil, false
		}
		cur = m
	}
	return cur, true
}

func (h *hist) metaSet() {
	r := h.r
	var path []string
	var value any
	switch r.Intn(8) {
	case 4, 5: // a field of a node's or a note's metadata, values at the edges of JSON
		var class string
		value, class = genMetaEdge(r)
		field := []string{"tags", "groups", "label", "collapsed", "extra"}[r.Intn(5)]
		if r.Intn(2) == 0 && len(h.nodes) > 0 {
			path = []string{"nodes", h.nodes[r.Intn(len(h.nodes))].id, field}
		} else {
			path = []string{"notes", fmt.Sprintf("note-%d", r.Intn(4)), field}
		}
		h.res.SetAdd("metadata_edge_classes", class)
	case 6, 7: // the same anywhere else, also under keys that are not ASCII
		var class string
		value, class = genMetaEdge(r)
		path = []string{"custom"}
		for i, n := 0, r.Intn(3); i < n; i++ {
			path = append(path, fmt.Sprintf("k%d", r.Intn(4)))
		}
		last := fmt.Sprintf("e%d", r.Intn(5))
		if r.Intn(3) == 0 {
			last = strings.ReplaceAll(unicodeKeys[r.Intn(len(unicodeKeys))], ".", "")
			if last == "" {
				last = "ø"
			}
		}
		path = append(path, last)
		h.res.SetAdd("metadata_edge_classes", class)
	case 0: // what the UI posts when a node is dragged
		id := fmt.Sprintf("Node-%d", r.Intn(len(h.nodes)+3))
		if r.Intn(2) == 0 && len(h.nodes) > 0 {
			id = h.nodes[r.Intn(len(h.nodes))].id
		}
		if r.Intn(5) == 0 {
			id = fmt.Sprintf("Node-%d", 500+r.Intn(500)) // an id that no node ever had
		}
		path = []string{"nodes", id, "position"}
		value = map[string]any{"x": tameFloat(r) * 200, "y": tameFloat(r) * 200}
	case 1: // notes
		path = []string{"notes", fmt.Sprintf("note-%d", r.Intn(4))}
		value = map[string]any{"text": genString(r, false), "position": map[string]any{"x": float64(r.Intn(900)), "y": wildFloat(r)}, "width": float64(r.Intn(400))}
	case 2:
		path = []string{"camera", []string{"zoom", "target", "mode"}[r.Intn(3)]}
		value = genMetaValue(r, 1)
	default:
		n := 1 + r.Intn(3)
		path = []string{"custom"}
		for i := 0; i < n; i++ {
			path = append(path, fmt.Sprintf("k%d", r.Intn(4)))
		}
		value = genMetaValue(r, 0)
	}
	// admissible only if every intermediate element is absent or a map (the endpoint panics otherwise)
	cur := h.meta
	for _, seg := range path[:len(path)-1] {
		v, ok := cur[seg]
		if !ok {
			nm := map[string]any{}
			cur[seg] = nm
			cur = nm
			continue
		}
		m, ok := v.(map[string]any)
		if !ok {
			return
		}
		cur = m
	}
	cur[path[len(path)-1]] = deepCopy(value)
	key := strings.Join(path, ".")
	h.logf("setmetadata %s", key)
	h.metaOps++
	h.res.Count("op_set_metadata", 1)
	h.try("graph.Instance.SetMetadata", func() { h.g.SetMetadata(key, value) })
}

func (h *hist) metaDelete() {
	// pick an existing path
	var paths [][]string
	var walk func(m map[string]any, prefix []string)
	walk = func(m map[string]any, prefix []string) {
		for k, v := range m {
			p := append(append([]string{}, prefix...), k)
			paths = append(paths, p)
			if sub, ok := v.(map[string]any); ok && len(p) < 4 {
				walk(sub, p)
			}
		}
	}
	walk(h.meta, nil)
	if len(paths) == 0 {
		return
	}
	sort.Slice(paths, func(i, j int) bool { return strings.Join(paths[i], ".") < strings.Join(paths[j], ".") })
	p := paths[h.r.Intn(len(paths))]
	// never remove the "nodes.<id>" level below a map-typed observer expectation: any level is fine to delete
	parent, ok := h.metaParent(p)
	if !ok {
		return
	}
	delete(parent, p[len(p)-1])
	key := strings.Join(p, ".")
	h.logf("deletemetadata %s", key)
	h.metaOps++
	h.res.Count("op_delete_metadata", 1)
	h.try("graph.Instance.DeleteMetadata", func() { h.g.DeleteMetadata(key) })
}

func deepCopy(v any) any {
	switch x := v.(type) {
	case map[string]any:
		m := make(map[string]any, len(x))
		for k, e := range x {
			m[k] = deepCopy(e)
		}
		return m
	case []any:
		l := make([]any, len(x))
		for i, e := range x {
			l[i] = deepCopy(e)
		}
		return l
	}
	return v
}

// artifactType picks the type of a new producer node: mostly the ones that can be fed.
func (h *hist) artifactType() *catType {
	x := h.r.Intn(100)
	want := ""
	switch {
	case x < 45:
		want = "basics.TextNodeData"
	case x < 55:
		want = "basics.BinaryNodeData"
	case x < 65:
		want = "basics.ImageNodeData"
	case x < 78:
		want = "stl.ArtifactNodeData"
	case x < 91:
		want = "gltf.ArtifactNodeData"
	}
	for _, t := range h.cat.artifact {
		if want != "" && strings.Contains(t.Type, want) {
			return t
		}
	}
	return h.cat.artifact[h.r.Intn(len(h.cat.artifact))]
}

// grow wires the open inputs of n (and of what it creates on the way), so that
// producers have something to produce.
func (h *hist) grow(n *hnode, depth int) {
	if depth == 0 || h.dead || len(h.nodes) > 70 {
		return
	}
	for _, in := range n.t.Inputs {
		if h.dead {
			return
		}
		before := len(h.nodes)
		if in.Array {
			if h.arrLen(n.id, in.Name) > 0 {
				continue
			}
			for k := 1 + h.r.Intn(3); k > 0 && !h.dead; k-- {
				h.connect(n, in, true)
			}
		} else {
			if h.wired(n.id, in.Name) || h.r.Intn(4) == 0 {
				continue
			}
			h.connect(n, in, true)
		}
		for _, created := range append([]*hnode{}, h.nodes[imin(before, len(h.nodes)):]...) {
			h.grow(created, depth-1)
		}
	}
}

func nodeNumber(id string) int {
	n := -1
	fmt.Sscanf(id, "Node-%d", &n)
	return n
}

// deleteNode deletes a node nothing depends on (half of the time after the UI has
// posted a position for it, which stays behind).
func (h *hist) deleteNode(n *hnode) {
	r := h.r
	for _, o := range h.nodes {
		if nodeNumber(o.id) > nodeNumber(n.id) {
			h.holeBelowHighest = true // a node other than the highest-numbered one goes
		}
	}
	if nm, _ := h.meta["nodes"].(map[string]any); r.Intn(2) == 0 && nm[n.id] == nil {
		// the UI has posted a position for the node; deleting the node leaves it behind
		if nm == nil {
			nm = map[string]any{}
			h.meta["nodes"] = nm
		}
		value := map[string]any{"x": tameFloat(r) * 200, "y": tameFloat(r) * 200}
		nm[n.id] = map[string]any{"position": deepCopy(value)}
		key := "nodes." + n.id + ".position"
		h.logf("setmetadata %s", key)
		h.metaOps++
		h.res.Count("op_set_metadata", 1)
		if !h.try("graph.Instance.SetMetadata", func() { h.g.SetMetadata(key, value) }) {
			return
		}
	}
	if h.deleted == nil {
		h.deleted = map[string]bool{}
	}
	h.deleted[n.id] = true
	h.logf("delete %s", n.id)
	h.res.Count("op_delete_node", 1)
	h.deletions++
	if !h.try("graph.Instance.DeleteNode", func() { h.g.DeleteNode(n.id) }) {
		return
	}
	delete(h.byID, n.id)
	for i, o := range h.nodes {
		if o == n {
			h.nodes = append(h.nodes[:i], h.nodes[i+1:]...)
			break
		}
	}
}

// evaluable: no node in the cone of id is non-deterministic by design
func (h *hist) evaluable(id string) bool {
	for x := range h.cone(id) {
		if n := h.byID[x]; n != nil && n.t.NoEval {
			return false
		}
	}
	return true
}

func (h *hist) step() {
	r := h.r
	if len(h.nodes) == 0 {
		h.create(h.cat.types[r.Intn(len(h.cat.types))])
		return
	}
	switch x := r.Intn(100); {
	case x < 16: // create any registered type
		var ct *catType
		switch r.Intn(4) {
		case 0:
			ct = h.cat.artifact[r.Intn(len(h.cat.artifact))]
		case 1:
			ct = h.cat.params[r.Intn(len(h.cat.params))]
		default:
			ct = h.cat.types[r.Intn(len(h.cat.types))]
		}
		if strings.Contains(ct.Type, "meshops.CombineNodeData") && h.countType("meshops.CombineNodeData") >= 3 {
			return
		}
		if strings.Contains(ct.Type, "repeat.MeshNodeData") && h.countType("repeat.MeshNodeData") >= 1 {
			return
		}
		h.create(ct)
	case x < 40: // connect a named input
		n := h.pick(func(n *hnode) bool { return len(h.inputs(n, false)) > 0 })
		if n == nil {
			return
		}
		ins := h.inputs(n, false)
		h.connect(n, ins[r.Intn(len(ins))], true)
	case x < 56: // array connections, sometimes a burst that takes the input past 10 entries
		n := h.pick(func(n *hnode) bool { return len(h.inputs(n, true)) > 0 })
		if n == nil {
			// make one: the order-sensitive harness nodes or polyform's own array nodes
			var arrTypes []*catType
			for _, t := range h.cat.types {
				for _, in := range t.Inputs {
					if in.Array {
						arrTypes = append(arrTypes, t)
					}
				}
			}
			n = h.create(arrTypes[r.Intn(len(arrTypes))])
			if n == nil {
				return
			}
		}
		ins := h.inputs(n, true)
		in := ins[r.Intn(len(ins))]
		k := 1
		if r.Intn(3) == 0 {
			k = 2 + r.Intn(13)
			h.burstTargets++
		}
		for ; k > 0 && !h.dead; k-- {
			if !h.connect(n, in, r.Intn(4) == 0 || h.arrLen(n.id, in.Name) == 0) {
				break
			}
		}
	case x < 62: // disconnect
		n := h.pick(func(n *hnode) bool { return len(h.deps(n.id)) > 0 })
		if n == nil {
			return
		}
		ds := h.deps(n.id)
		d := ds[r.Intn(len(ds))]
		h.logf("disconnect %s.%s", n.id, d.name)
		if strings.Contains(d.name, ".") {
			h.res.Count("op_disconnect_array", 1)
		} else {
			h.res.Count("op_disconnect_named", 1)
		}
		h.try("graph.Instance.DeleteNodeInputConnection", func() { h.g.DeleteNodeInputConnection(n.id, d.name) })
	case x < 73: // parameter value
		if n := h.pick(func(n *hnode) bool { return n.t.IsParam }); n != nil {
			h.update(n)
		}
	case x < 78:
		if n := h.pick(func(n *hnode) bool { return n.t.IsParam }); n != nil {
			h.rename(n)
		}
	case x < 85: // producer
		n := h.pick(func(n *hnode) bool { return n.t.Out == artifactType })
		if n == nil || r.Intn(3) == 0 {
			n = h.create(h.artifactType())
			if n == nil {
				return
			}
		}
		name := producerNames[r.Intn(len(producerNames))]
		h.logf("producer %s %q", n.id, name)
		h.res.Count("op_set_producer", 1)
		if h.try("graph.Instance.SetNodeAsProducer", func() { h.g.SetNodeAsProducer(n.id, name) }) && r.Intn(5) != 0 {
			h.grow(n, 3)
		}
		// round 11 (C12-P): the same node output published under a SECOND producer name, as App.Files does when two
		// file names map to one output (graph.Instance.AddProducer is the public way)
		if !h.dead && r.Intn(4) == 0 {
			name2 := producerNames[r.Intn(len(producerNames))]
			if name2 != name {
				h.logf("producer %s also as %q", n.id, name2)
				h.res.Count("op_second_producer_name_for_one_output", 1)
				h.try("graph.Instance.AddProducer", func() {
					if out := h.g.Producer(name); out != nil {
						h.g.AddProducer(name2, out)
					}
				})
			}
		}
	case x < 91:
		h.metaSet()
	case x < 93:
		h.metaDelete()
	case x < 97: // delete a node nothing depends on
		n := h.pick(func(n *hnode) bool { return h.dependents(n.id) == 0 })
		if n == nil {
			return
		}
		h.deleteNode(n)
	default: // generate an artifact in the middle of the history (nodes get cached values)
		var names []string
		h.try("graph.Instance.ProducerNames", func() { names = h.g.ProducerNames() })
		sort.Strings(names)
		if len(names) == 0 || h.dead {
			return
		}
		name := names[r.Intn(len(names))]
		id := h.g.NodeId(h.g.Producer(name).Node())
		if !h.evaluable(id) {
			return
		}
		h.logf("generate %q", name)
		h.midReads++
		h.res.Count("op_generate_mid_history", 1)
		h.c.Note("generate " + name)
		run.Try(func() {
			var b bytes.Buffer
			h.g.Artifact(name).Write(&b)
		})
	}
}
