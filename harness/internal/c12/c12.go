// Package c12 monitors property C12: a saved graph reloads to the same graph,
// the same artifacts, and saving it again reproduces the file byte for byte.
package c12

import (
	"bytes"
	"encoding/json"
	"fmt"
	"os"
	"path/filepath"
	"sort"
	"strings"
	"sync"

	"github.com/EliCDavis/polyform/generator"
	"github.com/EliCDavis/polyform/generator/graph"
	"polyverif/internal/run"
)

func Spec() *run.Spec {
	return &run.Spec{
		ID: "C12", Level: "exploration",
		Rule: "Since round 11 a quarter of the producer operations publish the same node output under a second producer name (graph.Instance.AddProducer); a node published under several names is observed by the sorted set of its producer names, not by the single name Schema() happens to report. " +
			"phase histories: case = one edit history of 5-80 operations through the graph.Instance methods the HTTP handlers call (CreateNode over every registered node type incl. harness-registered order-sensitive array / formatting nodes, ConnectNodes incl. bursts that take array inputs to 0-15 entries, DeleteNodeInputConnection, UpdateParameter for every parameter type (image uploads: PNGs of every colour model from Go's default encoder, and foreign encodings: JPEG, PNGs written with no / fastest / best compression, PNGs with tEXt / pHYs / tIME chunks; the same bytes also as File values), SetName/SetDescription, SetNodeAsProducer, SetMetadata/DeleteMetadata (positions, notes, camera, custom trees; half of the values are at the edges of JSON: empty array, empty object, nested empties 1-4 deep, arrays of empties, objects like {tags:[],groups:[{members:[]}]}, null, empty string / 0 / false, numbers around 2^53, 1e21, -0, MaxFloat64, non-ASCII / empty / odd keys, nesting 5-16 deep; posted as fields of nodes.<id> and notes.<k> and under custom.*), DeleteNode of nodes nothing depends on (every other time after a nodes.<id>.position metadata entry was posted for it, which stays behind; a fifth of the posted positions are for ids that no node ever had), generating an artifact mid-history), with intermediate saves like the editor's autosave (App.Schema() after every edit / after a random fifth of the edits / never; every tenth intermediate file is itself loaded into a fresh application and compared with the graph at that moment), starting from an empty application or from a hand-built App.Files graph; half of the histories have 2-4 sessions: the graph is saved, the file is loaded into a fresh application (and compared), and the history continues ON THAT APPLICATION with 3-27 more operations, mostly beginning with a CreateNode (every id CreateNode returns must be new among the live nodes), before 3 of 4 such saves a node other than the highest-numbered one is deleted; " +
			"then S1 = App.Schema(), a fresh generator.App applies S1, and the two applications are compared through public observers (node ids and types, per node the map input name -> dependency id:port with array inputs by position, parameter ToMessage()/name/Schema(), producers, metadata tree, application fields), every producer's artifact is generated on both sides and compared, and S2 = fresh.Schema() must equal S1 byte for byte. The harness keeps a mirror of every SetMetadata / DeleteMetadata call; the tree the edited application hands out, the metadata in the saved file, the tree of the reloaded application, every node's Schema() metadata and Schema().Notes (edited and reloaded) must equal the mirror as canonical JSON ([] is not null, {} is not null). " +
			"Non-trivial: the saved graph has an array input with >= 10 connections or >= 3 parameter types. Distinctness: start state / node-count bucket / longest array bucket / parameter-type count / producer count / deletions / metadata. " +
			"phase large-arrays: one array input of an order-sensitive harness node receives 352, 1000-1200, 256, 600, 257, 400, 100, 255 (then also random 100-1200) connections from 3-12 sources (parameters and harness nodes of the element type, random picks), with 2-4 disconnects in the middle, a few intermediate saves (one of them reloaded and compared, mostly past position 256), a text producer over the array where the node is string-valued; then the same save / reload / compare / re-save / artifact checks. " +
			"phase autosave: the path-based saver of the editor: the case writes a small graph file into its scratch directory, runs the application's own entry point on it (<app> graph.json edit -autosave on a free loopback port) and posts 30-70 edits over HTTP (create / delete node, connect / disconnect, parameter value / name / description with long and short texts taking turns, set / delete metadata); every handler saves before it answers, so after every answered edit the file on disk must equal App.Schema() of the served application byte for byte; at the end the file is loaded into a fresh application and compared (structure, metadata by content). " +
			"phase ufo: the shipped examples/graphs/ufo.json: load -> save must reproduce the file, S1 into three fresh applications (structure, S2 == S1, artifacts; a producer whose three artifacts are not pairwise identical is excluded as non-deterministic; .glb compared after parsing).",
		Assumptions: []string{
			"parameter messages are valid JSON for the parameter type (rejected messages are counted, not compared); vector components exclude -0 (vector types print it as 0)",
			"geometry nodes only receive tame parameter values (ints 0-9, floats in about [-5,15]) and at most 3 Combine / 1 repeat.Mesh nodes per graph, so that generating artifacts stays cheap; the full value space of every parameter type goes through harness formatting nodes and the saved file",
			"producers that depend on experimental.BrushedMetalNode / SeamlessPerlinNode (math/rand by design) are not generated in phase histories; when artifacts differ, the saved file is loaded into further fresh applications and the edit history is replayed to tell a non-deterministic producer (excluded, counted) from a reload defect",
			"parameter.File descriptions and file/image parameters fed from the command line are out of reach (DESIGN C12)",
			"metadata posted under nodes.<id> are objects (Schema() type-asserts them), keys contain no dots",
		},
		MinNontrivial: map[string]int{"quick": 40, "thorough": 200},
		MinObservedTier: map[string]map[string]int64{
			"quick":    {"saves_shorter_than_the_previous_save": 40, "autosaves_compared_with_the_file_on_disk": 200, "autosaved_files_loaded_into_a_fresh_application": 6, "large_arrays_ge256": 5, "large_arrays_ge352": 4, "large_arrays_ge1000": 1, "large_array_connections": 2500},
			"thorough": {"saves_shorter_than_the_previous_save": 300, "autosaves_compared_with_the_file_on_disk": 1500, "autosaved_files_loaded_into_a_fresh_application": 45, "large_arrays_ge256": 50, "large_arrays_ge352": 35, "large_arrays_ge1000": 8, "large_array_connections": 30000},
		},
		MinObserved: map[string]int64{
			"saved_graphs_array_ge10":                                   20,
			"artifacts_compared":                                        100,
			"parameter_value_classes":                                   20,
			"node_types_created":                                        60,
			"op_delete_node":                                            20,
			"op_disconnect_array":                                       10,
			"op_set_metadata":                                           50,
			"reloads":                                                   100,
			"ufo_producers_compared":                                    1,
			"ufo_file_reproduced":                                       1,
			"parameters_compared":                                       200,
			"histories_with_several_sessions":                           100,
			"sessions_per_history":                                      300,
			"nodes_created_after_reload":                                500,
			"reloads_after_deleting_a_non_highest_node":                 100,
			"intermediate_saves":                                        2000,
			"intermediate_saves_reloaded_and_compared":                  100,
			"posted_metadata_trees_compared_by_content":                 400,
			"saved_graphs_with_an_empty_array_in_metadata":              60,
			"saved_graphs_with_an_empty_object_in_metadata":             60,
			"saved_graphs_with_null_in_metadata":                        60,
			"saved_graphs_with_metadata_nested_8_deep":                  10,
			"saved_graphs_with_non_ascii_metadata_keys":                 30,
			"metadata_edge_classes":                                     12,
			"saved_graphs_with_an_image_uploaded_in_a_foreign_encoding": 30,
			"image_upload_classes_in_a_foreign_encoding":                4,
			"saved_graphs_with_metadata_of_a_deleted_node":              50,
			"saved_graphs_with_metadata_of_an_id_that_never_existed":    10,
			"array_connections_compared":                                300,
		},
		Phases: []run.Phase{
			{Name: "histories", Cases: func(t string) int {
				if t == "thorough" {
					return 10000
				}
				return 400
			}, Run: historyCase, Batch: 10, CPUBudgetS: 120},
			{Name: "large-arrays", Cases: func(t string) int {
				if t == "thorough" {
					return 80
				}
				return 6
			}, Run: largeArrayCase, Batch: 2, CPUBudgetS: 120},
			{Name: "autosave", Cases: func(t string) int {
				if t == "thorough" {
					return 60
				}
				return 8
			}, Run: autosaveCase, Batch: 4, CPUBudgetS: 120, Parallel: 4},
			{Name: "ufo", Cases: func(t string) int {
				if t == "thorough" {
					return 4
				}
				return 1
			}, Run: ufoCase, Batch: 1, CPUBudgetS: 600, Parallel: 4},
		},
	}
}

func bucket(n int) string {
	switch {
	case n == 0:
		return "0"
	case n <= 3:
		return "1-3"
	case n <= 9:
		return "4-9"
	case n <= 15:
		return "10-15"
	case n <= 30:
		return "16-30"
	case n <= 60:
		return "31-60"
	}
	return ">60"
}

func freshApp() (*generator.App, *graph.Instance) {
	a := &generator.App{}
	return a, generator.VerifGraph(a)
}

// reload loads a saved graph into a fresh application.
func reload(file []byte) (app *generator.App, g *graph.Instance, err error, p *run.PanicInfo) {
	p = run.Try(func() {
		app, g = freshApp()
		err = app.ApplySchema(file)
	})
	return
}

func historyCase(c *run.Ctx) run.Result {
	var res run.Result
	h := runHistory(c, &res)
	if h == nil || h.dead || res.Inconclusive != "" {
		return res
	}
	h.leftovers()
	checkReload(c, &res, h, true)
	return res
}

// runHistory performs the edit history of the case. It is deterministic in the
// seed, so calling it again replays the same history on a new application.
func runHistory(c *run.Ctx, res *run.Result) *hist {
	rr := c.SubRng(0xC12)
	h := &hist{c: c, res: res, r: rr, cat: getCatalogue()}
	if !h.begin() {
		return h
	}
	nops := 5 + rr.Intn(76)
	c.Note(fmt.Sprintf("history start=%s ops=%d", h.start, nops))
	// Intermediate saves, the way the editor's autosave does them (GraphSaver.Save
	// writes App.Schema() after every edit): after every edit, after a random fifth
	// of them, or never. A sample of the intermediate files is loaded into a fresh
	// application and compared with the graph as it is at that moment.
	mode := []string{"every-edit", "random", "random", "never"}[rr.Intn(4)]
	h.autosave = mode
	steps := func(n int) {
		for i := 0; i < n && !h.dead; i++ {
			h.step()
			if h.dead || mode == "never" || (mode == "random" && rr.Intn(5) != 0) {
				continue
			}
			if rr.Intn(10) == 0 {
				h.logf("save+reload")
				res.Count("intermediate_saves", 1)
				checkReload(c, res, h, false)
			} else {
				h.logf("save")
				res.Count("intermediate_saves", 1)
				h.try("App.Schema (autosave)", func() { h.app.Schema() })
			}
		}
	}
	steps(nops)
	// Further sessions: the graph is saved, the file is loaded into a fresh application
	// (compared like every saved file) and the history CONTINUES on that application:
	// what the user does when he opens his graph again the next day. Ids, the metadata
	// mirror and everything else the harness knows carry over. Before most of these
	// saves a node other than the highest-numbered one is deleted.
	sessions := 1
	if rr.Intn(2) == 0 {
		sessions = 2 + rr.Intn(3)
	}
	for s := 1; s < sessions && !h.dead; s++ {
		if rr.Intn(4) != 0 {
			maxN := -1
			for _, o := range h.nodes {
				if k := nodeNumber(o.id); k > maxN {
					maxN = k
				}
			}
			if n := h.pick(func(n *hnode) bool { return nodeNumber(n.id) < maxN && h.dependents(n.id) == 0 }); n != nil {
				h.deleteNode(n)
			}
		}
		if h.dead {
			break
		}
		h.logf("save, load into a fresh application, continue there (session %d)", s+1)
		checkReload(c, res, h, false)
		other := 0
		for _, v := range res.Violations {
			if !(v.Class == "parameter-value-differs" && strings.Contains(v.Site, "(parameter.File)")) {
				other++ // anything but the known File-parameter finding ends the history here
			}
		}
		if h.dead || other > 0 {
			break
		}
		var file []byte
		if !h.try("App.Schema", func() { file = h.app.Schema() }) {
			break
		}
		app2, g2, err, p := reload(file)
		if err != nil || p != nil {
			break // reported by checkReload above
		}
		if h.holeBelowHighest {
			res.Count("reloads_after_deleting_a_non_highest_node", 1)
		}
		h.app, h.g, h.session, h.holeBelowHighest = app2, g2, s, false
		res.Count("sessions_continued_on_a_reloaded_application", 1)
		if rr.Intn(5) != 0 { // the new session mostly begins with a new node
			h.create(h.cat.types[rr.Intn(len(h.cat.types))])
		}
		steps(3 + rr.Intn(25))
	}
	if sessions > 1 && !h.dead {
		res.Count("histories_with_several_sessions", 1)
		res.Count("sessions_per_history", int64(h.session+1))
		res.SetAdd("session_counts", fmt.Sprint(h.session+1))
	}
	return h
}

// checkReload saves the application of h, loads the file into a fresh application
// and compares. final = the save at the end of the history (evidence, artifacts);
// otherwise an intermediate save (structure and re-save only).
func checkReload(c *run.Ctx, res *run.Result, h *hist, final bool) {
	violate := func(class, site, input, detail string) {
		res.Violate(class, site, input, detail, h.witness())
	}
	// ---- save -------------------------------------------------------------------
	var s1 []byte
	if p := run.Try(func() { s1 = h.app.Schema() }); p != nil {
		violate("save-panic", p.Site, "App.Schema", "App.Schema() panicked: "+p.Value+"\n"+p.Stack)
		return
	}
	c.SaveInput(s1)
	orig, p := observe(h.app, h.g)
	if p != nil {
		violate("observer-panic", p.Site, "original application", "reading the edited application through its observers panicked: "+p.Value+"\n"+p.Stack)
		return
	}
	// ---- reload -----------------------------------------------------------------
	c.Note("reload")
	app2, g2, err, p := reload(s1)
	if p != nil {
		violate("reload-panic", p.Site, "App.ApplySchema", "loading the saved graph into a fresh application panicked: "+p.Value+"\n"+p.Stack)
		return
	}
	if err != nil {
		violate("reload-error", "App.ApplySchema", "App.ApplySchema", "loading the saved graph into a fresh application failed: "+err.Error())
		return
	}
	res.Count("reloads", 1)
	re, p := observe(app2, g2)
	if p != nil {
		violate("observer-panic", p.Site, "reloaded application", "reading the reloaded application through its observers panicked: "+p.Value+"\n"+p.Stack)
		return
	}
	// ---- metadata by content: what was posted / the edited graph / the file / the reloaded graph ----
	// The mirror of the SetMetadata / DeleteMetadata calls is the reference: a tree that
	// is already changed when the edited application hands it out would otherwise save,
	// reload and re-save consistently. canon() is JSON: [] is not null, {} is not null.
	checkPostedMetadata(res, h, s1, orig, re)
	diffs := diff(orig, re)
	changedParams := map[string]bool{}
	for _, d := range diffs {
		if d.class == "parameter-value-differs" {
			changedParams[d.id] = true
			if o := orig.Nodes[d.id]; o != nil && paramKind(o.Type) == "(parameter.File)" {
				// The signature "parameter-value-differs @ Parameter.ToJSON/FromJSON (parameter.File)"
				// is reserved for one mechanism (known finding: the jbtf decoder ignores the
				// byteLength of a buffer view): the reloaded value is the saved value followed
				// by everything that comes after it in the binary buffer of the file.
				if view, toEnd, ok := fileViewInSavedGraph(s1, d.id); ok && bytes.Equal(view, o.Message) && len(toEnd) > len(view) && bytes.Equal(toEnd, re.Nodes[d.id].Message) {
					violate(d.class, "Parameter.ToJSON/FromJSON (parameter.File)", "File parameter followed by another binary blob in the saved buffer",
						fmt.Sprintf("parameter %s (parameter.File): the %d saved bytes reload as %d bytes = the saved bytes followed by the %d bytes of the later buffer views of the file (the decoder reads to the end of the buffer instead of bufferView.byteLength)", d.id, len(view), len(toEnd), len(toEnd)-len(view)))
					res.Count("file_parameters_reloaded_with_trailing_blobs", 1)
				} else {
					violate("file-parameter-value-differs", "parameter.File value after reload (not the trailing-blob mechanism)", inputClass(orig), d.detail)
				}
				continue
			}
		}
		violate(d.class, d.site, inputClass(orig), d.detail)
	}
	// ---- evidence about what was compared ----------------------------------------
	maxArr, arrConns, params, ptypes := 0, 0, 0, map[string]bool{}
	if !final {
		res.Count("intermediate_saves_reloaded_and_compared", 1)
	}
	for _, n := range orig.Nodes {
		if !final {
			break
		}
		for _, l := range arrays(n.Deps) {
			arrConns += len(l)
			if len(l) > maxArr {
				maxArr = len(l)
			}
		}
		if n.IsParam {
			params++
			ptypes[n.Type] = true
			res.SetAdd("parameter_types_saved", shortType(n.Type))
		}
		res.SetAdd("node_types_saved", shortType(n.Type))
	}
	if final {
		res.Count("nodes_compared", int64(len(orig.Nodes)))
		res.Count("parameters_compared", int64(params))
		res.Count("array_connections_compared", int64(arrConns))
		res.Count("producers_compared", int64(len(orig.Producers)))
		if maxArr >= 10 {
			res.Count("saved_graphs_array_ge10", 1)
		}
		if orig.Metadata != "null" {
			res.Count("saved_graphs_with_metadata", 1)
		}
		if bytes.Contains(s1, []byte(`"bufferViews"`)) {
			res.Count("saved_graphs_with_binary_buffers", 1)
		}
	}
	// ---- save again ----------------------------------------------------------------
	var s2 []byte
	if p := run.Try(func() { s2 = app2.Schema() }); p != nil {
		violate("save-panic", p.Site, "App.Schema of the reloaded application", "App.Schema() of the reloaded application panicked: "+p.Value+"\n"+p.Stack)
		return
	}
	if len(diffs) > 0 {
		// the reloaded graph already differs: its file differing is a consequence
		res.Count("resave_not_compared_graph_differs", 1)
	} else if !bytes.Equal(s1, s2) {
		r1, e1 := resolveBuffers(s1)
		r2, e2 := resolveBuffers(s2)
		if e1 == nil && e2 == nil && r1 == r2 {
			violate("resave-differs-in-buffer-layout", "graph.Instance.EncodeToAppSchema (binary buffers written in map order)", inputClass(orig),
				fmt.Sprintf("saving the reloaded graph does not reproduce the file byte for byte (%d vs %d bytes): the two files hold the same content but their binary buffer views are in a different order; first difference: %s", len(s1), len(s2), firstDiff(string(s1), string(s2))))
		} else {
			violate("resave-differs", "App.Schema", inputClass(orig),
				fmt.Sprintf("saving the reloaded graph does not reproduce the file byte for byte (%d vs %d bytes); first difference: %s", len(s1), len(s2), firstDiff(string(s1), string(s2))))
		}
	} else {
		res.Count("resave_identical", 1)
	}
	if !final {
		return
	}
	// ---- artifacts -------------------------------------------------------------------
	for _, name := range sortedKeys(orig.Producers) {
		id := strings.SplitN(orig.Producers[name], ":", 2)[0]
		if !h.evaluable(id) {
			res.Count("producers_not_generated_random_by_design", 1)
			continue
		}
		consequence := false
		for x := range snapCone(orig, id) {
			if changedParams[x] {
				consequence = true
			}
		}
		if consequence {
			// already reported as parameter-value-differs
			res.Count("artifacts_not_compared_parameter_differs", 1)
			continue
		}
		c.Note("generate " + name)
		a := generate(h.g, name)
		b := generate(g2, name)
		res.Count("artifacts_compared", 1)
		res.SetAdd("artifact_node_types", shortType(orig.Nodes[id].Type))
		if a.panic != "" || a.err != "" {
			res.Count("artifacts_failing_on_both_sides", 1)
			res.SetAdd("artifact_failure_kinds", shortType(orig.Nodes[id].Type)+": "+clip(a.outcome(), 70))
		} else {
			res.Count("artifact_bytes_compared", int64(len(a.data)))
		}
		same, why := sameArtifact(name, a, b)
		if same {
			continue
		}
		// Tell a non-deterministic producer from a reload defect: two more fresh
		// loads of the same file, and the same edit history replayed on a new
		// application.
		var fresh []artifactResult
		for k := 0; k < 2; k++ {
			if _, g3, err, p := reload(s1); err == nil && p == nil {
				fresh = append(fresh, generate(g3, name))
			}
		}
		var scratch run.Result
		var h2 *hist
		if !h.noReplay {
			h2 = runHistory(c, &scratch)
		}
		var replayed *artifactResult
		if h2 != nil && !h2.dead && h2.g != nil {
			x := generate(h2.g, name)
			replayed = &x
		}
		nondet := false
		for _, f := range fresh {
			if ok, _ := sameArtifact(name, b, f); !ok {
				nondet = true // fresh loads of one file disagree among themselves
			}
		}
		if replayed != nil {
			if ok, _ := sameArtifact(name, a, *replayed); !ok {
				nondet = true // the same history gives another artifact
			}
		}
		if nondet {
			res.Count("producers_excluded_nondeterministic", 1)
			res.SetAdd("nondeterministic_producer_types", shortType(orig.Nodes[id].Type))
			continue
		}
		violate("artifact-differs", "graph.Instance.Artifact after reload", inputClass(orig),
			fmt.Sprintf("producer %q (%s, node %s): the artifact of the reloaded graph differs from the artifact of the saved graph: %s (original: %s, reloaded: %s)",
				name, shortType(orig.Nodes[id].Type), id, why, a.outcome(), b.outcome()))
	}

	nt := maxArr >= 10 || len(h.paramTypes) >= 3
	res.Nontrivial = nt
	res.SetAdd("autosave_modes", h.autosave)
	res.Sig = fmt.Sprintf("%s/save=%s/n%s/arr%s/pt%d/prod%d/del%v/meta%v", h.start, h.autosave, bucket(len(orig.Nodes)), bucket(maxArr), len(ptypes), imin(len(orig.Producers), 3), h.deletions > 0, h.metaOps > 0)
	first := h.ops
	if len(first) > 10 {
		first = first[:10]
	}
	res.Sample = map[string]any{"start": h.start, "ops": len(h.ops), "first_ops": first, "nodes": len(orig.Nodes), "longest_array_input": maxArr, "parameter_types": len(ptypes), "producers": sortedKeys(orig.Producers), "file_bytes": len(s1)}
}

func checkPostedMetadata(res *run.Result, h *hist, file []byte, orig, re *snapshot) {
	if h.meta == nil {
		return
	}
	violate := func(class, site, detail string) {
		res.Violate(class, site, "metadata posted through SetMetadata", detail, h.witness())
	}
	var posted any = h.meta
	if len(h.meta) == 0 {
		posted = nil // an absent tree and an empty tree are the same tree
	}
	want := canon(posted)
	res.Count("posted_metadata_trees_compared_by_content", 1)
	if orig.Metadata != want {
		violate("edited-graph-metadata-differs-from-what-was-posted", "graph.Instance.EncodeToAppSchema (NestedSyncMap.Data) of the edited graph",
			fmt.Sprintf("the metadata tree the edited application hands out differs from what was posted: %s", firstDiff(want, orig.Metadata)))
	}
	var saved struct {
		Data struct {
			Metadata map[string]any `json:"metadata"`
		} `json:"data"`
	}
	if err := json.Unmarshal(file, &saved); err == nil {
		var sm any = saved.Data.Metadata
		if len(saved.Data.Metadata) == 0 {
			sm = nil
		}
		if got := canon(sm); got != want {
			violate("saved-metadata-differs-from-what-was-posted", "App.Schema (metadata in the saved file)",
				fmt.Sprintf("the metadata in the saved file differs from what was posted: %s", firstDiff(want, got)))
		}
	}
	if re.Metadata != want {
		violate("reloaded-metadata-differs-from-what-was-posted", "graph.Instance metadata after reload",
			fmt.Sprintf("the metadata tree of the reloaded application differs from what was posted: %s", firstDiff(want, re.Metadata)))
	}
	// per node (NodeInstanceSchema().Metadata) and the notes (Schema().Notes)
	nm, _ := h.meta["nodes"].(map[string]any)
	for _, id := range sortedKeys(orig.Nodes) {
		wantN := ""
		if v, ok := nm[id]; ok && v != nil {
			wantN = canon(v)
		}
		if orig.NodeMeta[id] != wantN {
			violate("edited-graph-metadata-differs-from-what-was-posted", "graph.Instance.NodeInstanceSchema of the edited graph",
				fmt.Sprintf("node %s: Schema() metadata %s, posted %s", id, clip(orig.NodeMeta[id], 300), clip(wantN, 300)))
		}
		if _, ok := re.Nodes[id]; ok && re.NodeMeta[id] != wantN {
			violate("reloaded-metadata-differs-from-what-was-posted", "graph.Instance.NodeInstanceSchema after reload",
				fmt.Sprintf("node %s: Schema() metadata after reload %s, posted %s", id, clip(re.NodeMeta[id], 300), clip(wantN, 300)))
		}
	}
	wantNotes := "null"
	if notes, ok := h.meta["notes"].(map[string]any); ok {
		wantNotes = canon(notes)
	}
	if orig.Notes != wantNotes {
		violate("edited-graph-metadata-differs-from-what-was-posted", "graph.Instance.Schema notes of the edited graph",
			fmt.Sprintf("Schema().Notes %s, posted %s", clip(orig.Notes, 300), clip(wantNotes, 300)))
	}
	if re.Notes != wantNotes {
		violate("reloaded-metadata-differs-from-what-was-posted", "graph.Instance.Schema notes after reload",
			fmt.Sprintf("Schema().Notes after reload %s, posted %s", clip(re.Notes, 300), clip(wantNotes, 300)))
	}
}

func lastOp(ops []string) string {
	if len(ops) == 0 {
		return "start"
	}
	return ops[len(ops)-1]
}

func imin(a, b int) int {
	if a < b {
		return a
	}
	return b
}

func inputClass(s *snapshot) string {
	maxArr := 0
	for _, n := range s.Nodes {
		for _, l := range arrays(n.Deps) {
			if len(l) > maxArr {
				maxArr = len(l)
			}
		}
	}
	if maxArr >= 10 {
		return "graph with an array input of >= 10 connections"
	}
	return "graph with array inputs of < 10 connections"
}

// ---- the shipped graph ---------------------------------------------------------------

func repoDir() string {
	if d := os.Getenv("VERIF_REPO"); d != "" {
		return d
	}
	return "/repo"
}

func ufoCase(c *run.Ctx) run.Result {
	var res run.Result
	path := filepath.Join(repoDir(), "examples", "graphs", "ufo.json")
	file, err := os.ReadFile(path)
	if err != nil {
		res.Inconclusive = "cannot read the shipped graph: " + err.Error()
		return res
	}
	violate := func(class, site, detail string) {
		res.Violate(class, site, "examples/graphs/ufo.json", detail, map[string]any{"file": path, "case": c.Case})
	}
	c.Note("load ufo.json")
	app, g, err, p := reload(file)
	if p != nil {
		violate("reload-panic", p.Site, "loading examples/graphs/ufo.json panicked: "+p.Value+"\n"+p.Stack)
		return res
	}
	if err != nil {
		violate("reload-error", "App.ApplySchema", "loading examples/graphs/ufo.json failed: "+err.Error())
		return res
	}
	// Cases > 0 (thorough) first edit some parameters of the shipped graph, so that
	// the file written is not the file shipped.
	edited := 0
	if c.Case > 0 {
		gs := g.Schema()
		ids := sortedKeys(gs.Nodes)
		cat := getCatalogue()
		for _, id := range ids {
			ct := cat.byType[gs.Nodes[id].Type]
			if ct == nil || !ct.IsParam || c.Rng.Intn(3) != 0 {
				continue
			}
			if ct.Out != outFloat && ct.Out != outBool && ct.Out != outColor && ct.Out != outString {
				continue // sizes stay as shipped
			}
			msg, _ := genMessage(c.Rng, ct.Out, true)
			if ct.Out == outFloat {
				// stay near the shipped value: scale it
				msg = nil
				var cur float64
				fmt.Sscan(string(g.ParameterData(id)), &cur)
				msg = []byte(jsonF(cur * (0.9 + 0.2*c.Rng.Float64())))
			}
			if _, err := g.UpdateParameter(id, msg); err == nil {
				edited++
			}
		}
	}
	res.Count("ufo_parameters_edited", int64(edited))
	var s1 []byte
	if p := run.Try(func() { s1 = app.Schema() }); p != nil {
		violate("save-panic", p.Site, "App.Schema() panicked: "+p.Value+"\n"+p.Stack)
		return res
	}
	if edited == 0 {
		if !bytes.Equal(s1, file) {
			violate("shipped-file-not-reproduced", "App.Schema", fmt.Sprintf("load -> save of the shipped file gives %d bytes instead of %d; first difference: %s", len(s1), len(file), firstDiff(string(file), string(s1))))
		} else {
			res.Count("ufo_file_reproduced", 1)
		}
	}
	orig, p := observe(app, g)
	if p != nil {
		violate("observer-panic", p.Site, "observing the loaded graph panicked: "+p.Value+"\n"+p.Stack)
		return res
	}
	res.Count("ufo_nodes", int64(len(orig.Nodes)))
	types := map[string]bool{}
	for _, n := range orig.Nodes {
		types[n.Type] = true
	}
	res.Count("ufo_node_types", int64(len(types)))

	// three independent fresh applications
	type side struct {
		g    *graph.Instance
		arts map[string]artifactResult
	}
	sides := []*side{{g: g}}
	for k := 0; k < 3; k++ {
		appK, gK, err, p := reload(s1)
		if p != nil || err != nil {
			violate("reload-error", "App.ApplySchema", fmt.Sprintf("loading the saved graph into fresh application %d failed: %v %v", k, err, p))
			return res
		}
		res.Count("reloads", 1)
		snap, p := observe(appK, gK)
		if p != nil {
			violate("observer-panic", p.Site, "observing a reloaded graph panicked: "+p.Value)
			return res
		}
		for _, d := range diff(orig, snap) {
			violate(d.class, d.site, d.detail)
		}
		var s2 []byte
		if p := run.Try(func() { s2 = appK.Schema() }); p != nil {
			violate("save-panic", p.Site, "App.Schema() of a reloaded application panicked: "+p.Value)
			return res
		}
		if !bytes.Equal(s1, s2) {
			violate("resave-differs", "App.Schema", fmt.Sprintf("saving the reloaded graph does not reproduce the file (%d vs %d bytes); first difference: %s", len(s1), len(s2), firstDiff(string(s1), string(s2))))
		} else {
			res.Count("resave_identical", 1)
		}
		sides = append(sides, &side{g: gK})
	}
	// generate every producer in the four applications (in parallel: independent graphs)
	names := sortedKeys(orig.Producers)
	c.Note("generate ufo producers x4")
	var wg sync.WaitGroup
	for _, s := range sides {
		s := s
		s.arts = map[string]artifactResult{}
		wg.Add(1)
		go func() {
			defer wg.Done()
			for _, n := range names {
				s.arts[n] = generate(s.g, n)
			}
		}()
	}
	wg.Wait()
	for _, n := range names {
		det := true
		for i := 1; i < len(sides) && det; i++ {
			for j := i + 1; j < len(sides); j++ {
				if ok, _ := sameArtifact(n, sides[i].arts[n], sides[j].arts[n]); !ok {
					det = false
					break
				}
			}
		}
		if !det {
			res.Count("ufo_producers_excluded_nondeterministic", 1)
			res.SetAdd("ufo_nondeterministic_producers", n)
			continue
		}
		res.Count("ufo_producers_compared", 1)
		res.SetAdd("ufo_deterministic_producers", n)
		res.Count("artifacts_compared", 1)
		res.Count("artifact_bytes_compared", int64(len(sides[0].arts[n].data)))
		if ok, why := sameArtifact(n, sides[0].arts[n], sides[1].arts[n]); !ok {
			violate("artifact-differs", "graph.Instance.Artifact after reload", fmt.Sprintf("producer %q: the three fresh applications agree with each other but not with the application that was saved: %s", n, why))
		}
	}
	res.Nontrivial = true
	res.Sig = fmt.Sprintf("ufo/edited=%v", edited > 0)
	res.Sample = map[string]any{"file": "examples/graphs/ufo.json", "nodes": len(orig.Nodes), "node_types": len(types), "producers": names, "parameters_edited": edited}
	sort.Strings(names)
	return res
}
