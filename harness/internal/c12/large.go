package c12

import (
	"fmt"
	"strings"

	"polyverif/internal/run"
)

// Phase large-arrays: one array input receives hundreds of connections (up to
// 1200), far beyond what the random histories reach. The positions 255 / 256 / 257
// and everything above them are where an element index stops fitting into a small
// integer type, and a long array is where an inconsistent ordering of the saved
// dependency names starts to show.

var largeSizes = []int{352, -1, 256, 600, 257, 400, 100, 255} // -1 = 1000..1200

func largeArrayCase(c *run.Ctx) run.Result {
	var res run.Result
	rr := c.SubRng(0xC12A)
	h := &hist{c: c, res: &res, r: rr, cat: getCatalogue(), autosave: "few", noReplay: true}
	if !h.begin() {
		return res
	}
	size := largeSizes[c.Case%len(largeSizes)]
	if c.Case >= len(largeSizes) && rr.Intn(3) == 0 {
		size = 100 + rr.Intn(1101) // any count
	}
	if size < 0 {
		size = 1000 + rr.Intn(201)
	}

	// a few ordinary edits first, so that the file holds more than the array
	for k := rr.Intn(8); k > 0 && !h.dead; k-- {
		h.step()
	}
	if h.dead {
		return res
	}

	// ---- target: an order-sensitive harness node with an array input ---------------
	var arrTypes []*catType
	for _, t := range h.cat.types {
		if !t.Harness {
			continue
		}
		for _, in := range t.Inputs {
			if in.Array {
				arrTypes = append(arrTypes, t)
			}
		}
	}
	if len(arrTypes) == 0 {
		res.Inconclusive = "harness: no harness node type with an array input in the catalogue"
		return res
	}
	tgt := h.create(arrTypes[rr.Intn(len(arrTypes))])
	if tgt == nil {
		return res
	}
	in := h.inputs(tgt, true)[0]
	c.Note(fmt.Sprintf("large array: %d connections into %s.%s", size, tgt.t.Short, in.Name))

	// ---- sources: parameters and harness nodes of the element type -----------------
	var srcTypes []*catType
	for _, t := range h.cat.byOut[in.Type] {
		if t.IsParam || (t.Harness && t != tgt.t) {
			srcTypes = append(srcTypes, t)
		}
	}
	if len(srcTypes) == 0 {
		res.Inconclusive = "harness: no cheap source type for " + in.Type
		return res
	}
	var srcs []*hnode
	for k, n := 0, 3+rr.Intn(10); k < n && !h.dead; k++ {
		s := h.create(srcTypes[rr.Intn(len(srcTypes))])
		if s == nil {
			return res
		}
		if s.t.Out == outBytes {
			continue
		}
		srcs = append(srcs, s)
	}
	if h.dead || len(srcs) < 2 {
		if !h.dead {
			res.Inconclusive = "harness: fewer than two sources"
		}
		return res
	}

	// ---- the connections -------------------------------------------------------------
	nDisc := 2 + rr.Intn(3)
	discAt := map[int]bool{}
	for len(discAt) < nDisc {
		discAt[10+rr.Intn(size-10)] = true
	}
	saveAt := map[int]bool{rr.Intn(size): true, rr.Intn(size): true, size / 2: true}
	checkAt := 257 + rr.Intn(imax(1, size-257)) // one intermediate file is reloaded, mostly past position 256
	cur, connects := 0, 0
	for guard := 0; cur < size && !h.dead && guard < 3*size; guard++ {
		s := srcs[rr.Intn(len(srcs))]
		if h.byID[s.id] == nil {
			continue
		}
		port := fmt.Sprintf("%s.%d", in.Name, cur)
		if !h.try("graph.Instance.ConnectNodes", func() { h.g.ConnectNodes(s.id, "Out", tgt.id, port) }) {
			return res
		}
		connects++
		cur++
		res.Count("op_connect_array", 1)
		if discAt[connects] && cur > 3 {
			j := rr.Intn(cur)
			name := fmt.Sprintf("%s.%d", in.Name, j)
			h.logf("after %d connections into %s.%s: disconnect %s", connects, tgt.id, in.Name, name)
			if !h.try("graph.Instance.DeleteNodeInputConnection", func() { h.g.DeleteNodeInputConnection(tgt.id, name) }) {
				return res
			}
			res.Count("op_disconnect_array", 1)
			res.Count("large_array_disconnects_in_the_middle", 1)
			cur = h.arrLen(tgt.id, in.Name)
		}
		if saveAt[connects] {
			res.Count("intermediate_saves", 1)
			if !h.try("App.Schema (autosave)", func() { h.app.Schema() }) {
				return res
			}
		}
		if connects == checkAt {
			h.logf("after %d connections into %s.%s (%d wired): save+reload", connects, tgt.id, in.Name, cur)
			res.Count("intermediate_saves", 1)
			checkReload(c, &res, h, false)
		}
	}
	if h.dead {
		return res
	}
	ids := make([]string, 0, len(srcs))
	for _, s := range srcs {
		ids = append(ids, s.id)
	}
	h.logf("%d ConnectNodes calls, random picks among %s, into %s.%s.0.. ; %d wired at the end", connects, strings.Join(ids, ","), tgt.id, in.Name, cur)
	if got := h.arrLen(tgt.id, in.Name); got != size {
		res.Inconclusive = fmt.Sprintf("harness: wanted %d connections on %s.%s, the graph reports %d", size, tgt.id, in.Name, got)
		return res
	}
	h.maxArr = size

	// ---- a text producer over the array, so that the order shows in an artifact, too ---
	if tgt.t.Out == outString {
		for _, t := range h.cat.artifact {
			if strings.Contains(t.Type, "basics.TextNodeData") {
				if p := h.create(t); p != nil {
					for _, pin := range t.Inputs {
						if pin.Type == outString && !pin.Array {
							h.logf("connect %s.Out -> %s.%s; producer %q", tgt.id, p.id, pin.Name, "large.txt")
							h.try("graph.Instance.ConnectNodes", func() { h.g.ConnectNodes(tgt.id, "Out", p.id, pin.Name) })
							break
						}
					}
					if !h.dead {
						h.try("graph.Instance.SetNodeAsProducer", func() { h.g.SetNodeAsProducer(p.id, "large.txt") })
					}
				}
				break
			}
		}
	}
	if h.dead {
		return res
	}
	for k := rr.Intn(5); k > 0 && !h.dead; k-- {
		if rr.Intn(2) == 0 {
			h.metaSet()
		} else if n := h.pick(func(n *hnode) bool { return n.t.IsParam }); n != nil {
			h.update(n)
		}
	}
	if h.dead || res.Inconclusive != "" {
		return res
	}
	res.Count("large_array_histories", 1)
	res.Count("large_array_connections", int64(size))
	if size >= 256 {
		res.Count("large_arrays_ge256", 1)
	}
	if size >= 352 {
		res.Count("large_arrays_ge352", 1)
	}
	if size >= 1000 {
		res.Count("large_arrays_ge1000", 1)
	}
	res.SetAdd("large_array_sizes", fmt.Sprint(size))
	res.SetAdd("large_array_target_types", tgt.t.Short)
	checkReload(c, &res, h, true)
	cls := "100-255"
	switch {
	case size >= 1000:
		cls = ">=1000"
	case size >= 352:
		cls = "352-999"
	case size >= 256:
		cls = "256-351"
	}
	res.Nontrivial = true
	res.Sig = fmt.Sprintf("large-array/%s/%s/srcs%d/%s", cls, tgt.t.Short, len(srcs), h.start)
	res.Sample = map[string]any{"connections": size, "target": tgt.t.Short, "sources": len(srcs), "start": h.start, "disconnects_in_the_middle": nDisc}
	return res
}

func imax(a, b int) int {
	if a > b {
		return a
	}
	return b
}
