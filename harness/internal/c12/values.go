package c12

import (
	"bytes"
	"encoding/binary"
	"encoding/json"
	"fmt"
	"hash/crc32"
	"image"
	"image/color"
	"image/jpeg"
	"image/png"
	"math"
	"math/rand"
	"strconv"
	"strings"
)

// Generators of parameter messages (what the HTTP handler would pass to
// UpdateParameter). "tame" values keep polyform's geometry nodes cheap and are
// the only ones fed into non-harness nodes; "wild" values span the value space
// of the type and only reach harness nodes (and the saved file).

const (
	outString = "string"
	outInt    = "int"
	outFloat  = "float64"
	outBool   = "bool"
	outV3     = "github.com/EliCDavis/vector/vector3.Vector[float64]"
	outV2     = "github.com/EliCDavis/vector/vector2.Vector[float64]"
	outV3s    = "[]github.com/EliCDavis/vector/vector3.Vector[float64]"
	outAABB   = "github.com/EliCDavis/polyform/math/geometry.AABB"
	outColor  = "github.com/EliCDavis/polyform/drawing/coloring.WebColor"
	outBytes  = "[]uint8"
	outImage  = "image.Image"
)

func tameFloat(r *rand.Rand) float64 {
	switch r.Intn(6) {
	case 0:
		return float64(r.Intn(7))
	case 1:
		return float64(r.Intn(2000)-500) / 100
	case 2:
		return 0.1 + 0.2 // not exactly representable in short decimal
	default:
		return r.Float64()*12 - 2
	}
}

func wildFloat(r *rand.Rand) float64 {
	switch r.Intn(9) {
	case 0:
		return math.MaxFloat64
	case 1:
		return math.SmallestNonzeroFloat64
	case 2:
		return 1e-320 // denormal
	case 3:
		return 1e21 // switches json to exponent form
	case 4:
		return -1e-7
	case 5:
		return float64(int64(1)<<53 + 2)
	case 6:
		return math.Float64frombits(r.Uint64()&^(0x7ff<<52) | uint64(r.Intn(2046)+1)<<52) // any finite normal
	default:
		return tameFloat(r)
	}
}

func jsonF(v float64) string {
	b, err := json.Marshal(v)
	if err != nil {
		panic(err)
	}
	return string(b)
}

var attrNames = []string{"Position", "Normal", "Color", "TexCoord", "Scale", "Rotation", "Opacity", "FDC"}

func genString(r *rand.Rand, tame bool) string {
	if tame {
		if r.Intn(3) != 0 {
			return attrNames[r.Intn(len(attrNames))]
		}
		return fmt.Sprintf("w%d", r.Intn(100))
	}
	switch r.Intn(9) {
	case 0:
		return ""
	case 1:
		return "quote\" back\\slash / tab\t nl\n cr\r"
	case 2:
		return "<html>&amp;'</html>" // json escapes <, >, &
	case 3:
		return "ünï©ödé ✓ 日本語 🛸"
	case 4:
		return " line sep\x00nul\x7f"
	case 5:
		return strings.Repeat("long ", 40+r.Intn(200))
	case 6:
		return "replacement \ufffd char, bidi \u202e, bom \ufeff, astral \U0001F6F8"
	case 7:
		return " leading and trailing  "
	default:
		return fmt.Sprintf("s%d.%d", r.Intn(1000), r.Intn(1000))
	}
}

func genV3(r *rand.Rand, tame bool) string {
	f := tameFloat
	if !tame {
		f = wildFloat
	}
	return fmt.Sprintf(`{"x":%s,"y":%s,"z":%s}`, jsonF(f(r)), jsonF(f(r)), jsonF(f(r)))
}

// genMessage returns the bytes for UpdateParameter of a parameter with the given output type.
func genMessage(r *rand.Rand, out string, tame bool) (msg []byte, class string) {
	switch out {
	case outString:
		b, _ := json.Marshal(genString(r, tame))
		return b, "string"
	case outInt:
		if tame {
			if r.Intn(25) == 0 {
				return []byte("-1"), "int:tame-negative"
			}
			return []byte(strconv.Itoa(r.Intn(10))), "int:tame"
		}
		vals := []int64{0, -1, math.MaxInt64, math.MinInt64, 1<<53 + 1, -(1<<53 + 1), int64(r.Uint64()), int64(r.Intn(100000))}
		return []byte(strconv.FormatInt(vals[r.Intn(len(vals))], 10)), "int:wild"
	case outFloat:
		if tame {
			return []byte(jsonF(tameFloat(r))), "float64:tame"
		}
		if r.Intn(10) == 0 {
			return []byte("-0"), "float64:negative-zero"
		}
		if r.Intn(10) == 0 {
			return []byte("12"), "float64:integer-literal"
		}
		return []byte(jsonF(wildFloat(r))), "float64:wild"
	case outBool:
		if r.Intn(2) == 0 {
			return []byte("true"), "bool"
		}
		return []byte("false"), "bool"
	case outV3:
		return []byte(genV3(r, tame)), "vector3"
	case outV2:
		f := tameFloat
		if !tame {
			f = wildFloat
		}
		return []byte(fmt.Sprintf(`{"x":%s,"y":%s}`, jsonF(f(r)), jsonF(f(r)))), "vector2"
	case outV3s:
		if r.Intn(8) == 0 {
			return []byte("null"), "[]vector3:null"
		}
		n := r.Intn(7)
		parts := make([]string, n)
		for i := range parts {
			parts[i] = genV3(r, tame)
		}
		return []byte("[" + strings.Join(parts, ",") + "]"), fmt.Sprintf("[]vector3:len%d", n)
	case outAABB:
		return []byte(fmt.Sprintf(`{"center":%s,"extents":%s}`, genV3(r, tame), genV3(r, true))), "aabb"
	case outColor:
		switch r.Intn(5) {
		case 4:
			return []byte(fmt.Sprintf(`"#%02x%02x%02x00"`, r.Intn(256), r.Intn(256), r.Intn(256))), "color:transparent"
		case 0:
			return []byte(fmt.Sprintf(`"#%x%x%x"`, r.Intn(16), r.Intn(16), r.Intn(16))), "color:#rgb"
		case 1:
			return []byte(fmt.Sprintf(`"#%x%x%x%x"`, r.Intn(16), r.Intn(16), r.Intn(16), r.Intn(16))), "color:#rgba"
		case 2:
			return []byte(fmt.Sprintf(`"#%02x%02x%02x"`, r.Intn(256), r.Intn(256), r.Intn(256))), "color:#rrggbb"
		default:
			return []byte(fmt.Sprintf(`"#%02X%02x%02x%02x"`, r.Intn(256), r.Intn(256), r.Intn(256), r.Intn(256))), "color:#rrggbbaa"
		}
	case outBytes:
		switch r.Intn(5) {
		case 0:
			return []byte{}, "file:empty"
		case 1:
			return asciiPly(r), "file:ascii-ply"
		case 2:
			return binaryStl(r), "file:binary-stl"
		case 3:
			b, c := genImage(r)
			return b, "file:" + c
		default:
			b := make([]byte, 1+r.Intn(300))
			r.Read(b)
			return b, "file:random-bytes"
		}
	case outImage:
		return genImage(r)
	}
	return nil, ""
}

func asciiPly(r *rand.Rand) []byte {
	var sb strings.Builder
	n := 3 + r.Intn(4)
	fmt.Fprintf(&sb, "ply\nformat ascii 1.0\nelement vertex %d\nproperty float x\nproperty float y\nproperty float z\nelement face 1\nproperty list uchar int vertex_indices\nend_header\n", n)
	for i := 0; i < n; i++ {
		fmt.Fprintf(&sb, "%d %d %d\n", r.Intn(5), r.Intn(5), r.Intn(5))
	}
	sb.WriteString("3 0 1 2\n")
	return []byte(sb.String())
}

func binaryStl(r *rand.Rand) []byte {
	var b bytes.Buffer
	b.Write(make([]byte, 80))
	n := 1 + r.Intn(3)
	binary.Write(&b, binary.LittleEndian, uint32(n))
	for i := 0; i < n; i++ {
		for k := 0; k < 12; k++ {
			binary.Write(&b, binary.LittleEndian, float32(r.Intn(9)))
		}
		binary.Write(&b, binary.LittleEndian, uint16(0))
	}
	return b.Bytes()
}

// genImage returns the bytes of an image upload: PNGs of every colour model written
// by Go's default encoder, and uploads in a foreign encoding (what a browser or an
// image editor would send): JPEG, PNGs written with another compression level, PNGs
// with ancillary chunks. A loaded parameter can only hold the decoded picture.
func genImage(r *rand.Rand) ([]byte, string) {
	w, h := 1+r.Intn(6), 1+r.Intn(6)
	kind := r.Intn(14)
	if kind >= 9 {
		w, h = 12+r.Intn(24), 12+r.Intn(24) // large enough for the compression settings to matter
	}
	rect := image.Rect(0, 0, w, h)
	var img image.Image
	class := ""
	run, last := 0, uint8(0)
	rb := func() uint8 { // runs of equal bytes, so that the data is compressible
		if run == 0 {
			run, last = 1+r.Intn(9), uint8(r.Intn(256))
			if kind < 9 {
				run = 1
			}
		}
		run--
		return last
	}
	cm := kind
	if kind >= 7 {
		cm = r.Intn(7)
	}
	switch cm {
	case 0, 6:
		m := image.NewRGBA(rect)
		for i := 0; i < len(m.Pix); i += 4 {
			m.Pix[i], m.Pix[i+1], m.Pix[i+2], m.Pix[i+3] = rb(), rb(), rb(), 255
		}
		img, class = m, "rgba-opaque"
	case 1:
		m := image.NewNRGBA(rect)
		for i := range m.Pix {
			m.Pix[i] = rb()
		}
		img, class = m, "nrgba-alpha"
	case 2:
		m := image.NewGray(rect)
		for i := range m.Pix {
			m.Pix[i] = rb()
		}
		img, class = m, "gray"
	case 3:
		pal := color.Palette{color.RGBA{0, 0, 0, 255}, color.RGBA{255, 0, 0, 255}, color.NRGBA{0, 255, 0, 128}, color.RGBA{9, 9, 200, 255}}
		m := image.NewPaletted(rect, pal)
		for i := range m.Pix {
			m.Pix[i] = rb() % uint8(len(pal))
		}
		img, class = m, "paletted"
	case 4:
		m := image.NewNRGBA64(rect)
		for i := range m.Pix {
			m.Pix[i] = rb()
		}
		img, class = m, "nrgba64"
	default:
		m := image.NewGray16(rect)
		for i := range m.Pix {
			m.Pix[i] = rb()
		}
		img, class = m, "gray16"
	}
	var b bytes.Buffer
	switch {
	case kind < 7:
		if err := png.Encode(&b, img); err != nil {
			panic(err)
		}
		return b.Bytes(), "image:png-" + class
	case kind < 9: // JPEG (colour or gray)
		if err := jpeg.Encode(&b, img, &jpeg.Options{Quality: 50 + r.Intn(50)}); err != nil {
			panic(err)
		}
		if class == "gray" {
			return b.Bytes(), "image:jpeg-gray"
		}
		return b.Bytes(), "image:jpeg"
	case kind < 12:
		lvl := []png.CompressionLevel{png.NoCompression, png.BestSpeed, png.BestCompression}[kind-9]
		enc := png.Encoder{CompressionLevel: lvl}
		if err := enc.Encode(&b, img); err != nil {
			panic(err)
		}
		return b.Bytes(), "image:png-" + []string{"no-compression", "best-speed", "best-compression"}[kind-9]
	}
	if err := png.Encode(&b, img); err != nil {
		panic(err)
	}
	return withAncillaryChunks(b.Bytes(), r), "image:png-with-ancillary-chunks"
}

// withAncillaryChunks inserts tEXt / pHYs / tIME chunks after the IHDR chunk of a PNG.
func withAncillaryChunks(p []byte, r *rand.Rand) []byte {
	chunk := func(typ string, data []byte) []byte {
		out := make([]byte, 0, 12+len(data))
		out = binary.BigEndian.AppendUint32(out, uint32(len(data)))
		body := append([]byte(typ), data...)
		out = append(out, body...)
		return binary.BigEndian.AppendUint32(out, crc32.ChecksumIEEE(body))
	}
	const afterIHDR = 8 + 4 + 4 + 13 + 4
	out := append([]byte{}, p[:afterIHDR]...)
	out = append(out, chunk("tEXt", []byte("Software\x00an image editor "+fmt.Sprint(r.Intn(100))))...)
	if r.Intn(2) == 0 {
		out = append(out, chunk("pHYs", []byte{0, 0, 0x0b, 0x13, 0, 0, 0x0b, 0x13, 1})...)
	}
	if r.Intn(2) == 0 {
		out = append(out, chunk("tIME", []byte{0x07, 0xe8, 1, 2, 3, 4, 5})...)
	}
	return append(out, p[afterIHDR:]...)
}

// foreignEncoding: decoding the upload and writing it with Go's default PNG encoder
// (all that a loaded image parameter can do) does not give the uploaded bytes back.
func foreignEncoding(upload []byte) bool {
	img, _, err := image.Decode(bytes.NewReader(upload))
	if err != nil {
		return false
	}
	var b bytes.Buffer
	if err := png.Encode(&b, img); err != nil {
		return false
	}
	return !bytes.Equal(b.Bytes(), upload)
}

// genMetaValue produces a JSON-like value (what the metadata endpoint decodes a body into).
func genMetaValue(r *rand.Rand, depth int) any {
	switch k := r.Intn(9); {
	case k == 0:
		return nil
	case k == 1:
		return r.Intn(2) == 0
	case k == 2:
		return wildFloat(r)
	case k == 3:
		return float64(r.Intn(4000) - 2000)
	case k == 4:
		return genString(r, false)
	case k == 5 && depth < 2:
		n := r.Intn(4)
		l := make([]any, n)
		for i := range l {
			l[i] = genMetaValue(r, depth+1)
		}
		return l
	case k <= 7 && depth < 3:
		n := r.Intn(4)
		m := map[string]any{}
		for i := 0; i < n; i++ {
			m[fmt.Sprintf("k%d", r.Intn(6))] = genMetaValue(r, depth+1)
		}
		return m
	default:
		return map[string]any{"x": tameFloat(r) * 300, "y": tameFloat(r) * 300}
	}
}

var unicodeKeys = []string{"ключ", "键", "clé é", "🛸", "Ω≈ç", "tab\there", "quote\"d", "", " ", "k/with/slashes"}

// genMetaEdge produces the metadata values at the edges of what JSON can say:
// empty containers at every depth, arrays of empties, null, the zero values of
// every scalar type, numbers where integers and floats part ways, unicode keys,
// deep nesting. The class names the outermost shape.
func genMetaEdge(r *rand.Rand) (any, string) {
	var empties func(depth int) any
	empties = func(depth int) any {
		if depth == 0 {
			switch r.Intn(3) {
			case 0:
				return []any{}
			case 1:
				return map[string]any{}
			}
			return nil
		}
		if r.Intn(2) == 0 {
			l := make([]any, 1+r.Intn(3))
			for i := range l {
				l[i] = empties(depth - 1 - r.Intn(depth))
			}
			return l
		}
		m := map[string]any{}
		for i, n := 0, 1+r.Intn(3); i < n; i++ {
			m[[]string{"members", "tags", "children", "items"}[r.Intn(4)]] = empties(depth - 1 - r.Intn(depth))
		}
		return m
	}
	switch r.Intn(12) {
	case 0:
		return []any{}, "empty-array"
	case 1:
		return map[string]any{}, "empty-object"
	case 2:
		return empties(1 + r.Intn(4)), "nested-empties"
	case 3:
		return []any{[]any{}, map[string]any{}, nil, []any{[]any{}}}, "array-of-empties"
	case 4:
		return []any{map[string]any{"members": []any{}}, map[string]any{"members": []any{"a"}, "tags": []any{}}}, "array-of-objects-with-empty-arrays"
	case 5:
		return nil, "null"
	case 6:
		return []any{"", 0.0, false, nil}[r.Intn(4)], "zero-value-scalar"
	case 7:
		return []float64{1e21, 1e21 - 1e5, float64(int64(1)<<53 + 2), float64(int64(1) << 53), -float64(int64(1)<<53 + 2), math.Copysign(0, -1), 1e-7, 123456789012345680000, math.MaxFloat64, math.SmallestNonzeroFloat64, 4294967296, -2147483649}[r.Intn(12)], "boundary-number"
	case 8:
		m := map[string]any{}
		for i, n := 0, 1+r.Intn(3); i < n; i++ {
			m[unicodeKeys[r.Intn(len(unicodeKeys))]] = genMetaValue(r, 2)
		}
		return m, "unicode-keys"
	case 9:
		var v any = []any{}
		if r.Intn(2) == 0 {
			v = "leaf"
		}
		for d := 5 + r.Intn(12); d > 0; d-- {
			if r.Intn(2) == 0 {
				v = []any{v}
			} else {
				v = map[string]any{"n": v}
			}
		}
		return v, "deep-nesting"
	case 10:
		return []any{[]any{}, []any{}, []any{}}, "array-of-empty-arrays"
	}
	return map[string]any{"tags": []any{}, "groups": []any{map[string]any{"members": []any{}}}, "label": "", "collapsed": false, "order": 0.0, "parent": nil}, "object-of-zero-values"
}

// metaStats walks a metadata tree.
type metaStats struct {
	emptyArrays, emptyObjects, nulls, depth int
	unicode                                 bool
}

func (st *metaStats) walk(v any, d int) {
	if d > st.depth {
		st.depth = d
	}
	switch x := v.(type) {
	case nil:
		st.nulls++
	case []any:
		if len(x) == 0 {
			st.emptyArrays++
		}
		for _, e := range x {
			st.walk(e, d+1)
		}
	case map[string]any:
		if len(x) == 0 && d > 0 {
			st.emptyObjects++
		}
		for k, e := range x {
			for _, c := range k {
				if c > 127 {
					st.unicode = true
				}
			}
			st.walk(e, d+1)
		}
	}
}
