package c12

import (
	"bytes"
	"encoding/json"
	"fmt"
	"io"
	"log"
	"net"
	"net/http"
	"net/url"
	"os"
	"path/filepath"
	"strings"
	"time"

	"github.com/EliCDavis/polyform/generator"
	"polyverif/internal/run"
)

// Phase autosave: the REAL path-based saver. generator.GraphSaver cannot be built
// from outside its package, so the case runs the App's own entry point the way a
// user does: `<app> graph.json edit -autosave -host 127.0.0.1 -port N` on a free
// loopback port, with graph.json in the case's scratch directory, and posts every
// edit over HTTP. Each edit handler calls GraphSaver.Save() before it answers, so
// after every answer the FILE ON DISK must equal App.Schema() of the served
// application byte for byte (the application lives in this process; it is read
// through generator.VerifGraph / App.Schema between requests only). The histories
// alternate long and short values, delete metadata, disconnect and delete nodes, so
// that many saves are shorter than the one before. At the end the file is loaded
// into a fresh application and compared like any other saved graph.

type editServer struct {
	base   string
	client *http.Client
}

func freePort() (string, error) {
	l, err := net.Listen("tcp", "127.0.0.1:0")
	if err != nil {
		return "", err
	}
	defer l.Close()
	return fmt.Sprint(l.Addr().(*net.TCPAddr).Port), nil
}

func startEditServer(app *generator.App, file, nonce string) (*editServer, error) {
	var lastErr error
	for attempt := 0; attempt < 4; attempt++ {
		port, err := freePort()
		if err != nil {
			lastErr = err
			continue
		}
		exited := make(chan error, 1)
		go func() {
			exited <- app.Run([]string{"c12", file, "edit", "-autosave", "-host", "127.0.0.1", "-port", port, "-launch-browser=false"})
		}()
		s := &editServer{base: "http://127.0.0.1:" + port, client: &http.Client{Transport: &http.Transport{DisableCompression: true}, Timeout: 40 * time.Second}}
	wait:
		for i := 0; i < 600; i++ {
			select {
			case err := <-exited:
				lastErr = fmt.Errorf("App.Run(edit -autosave) returned: %v", err)
				break wait
			default:
			}
			resp, err := s.client.Get(s.base + "/")
			if err == nil {
				body, _ := io.ReadAll(resp.Body)
				resp.Body.Close()
				if resp.StatusCode == 200 && bytes.Contains(body, []byte(nonce)) {
					return s, nil
				}
				lastErr = fmt.Errorf("a server answers on port %s but it is not this case's application (status %d)", port, resp.StatusCode)
				if resp.StatusCode == 200 {
					break wait // somebody else's server: another port
				}
			} else {
				lastErr = err
			}
			time.Sleep(5 * time.Millisecond)
		}
	}
	return nil, lastErr
}

func (s *editServer) do(method, path string, body []byte) (int, []byte, error) {
	req, err := http.NewRequest(method, s.base+path, bytes.NewReader(body))
	if err != nil {
		return 0, nil, err
	}
	resp, err := s.client.Do(req)
	if err != nil {
		return 0, nil, err
	}
	defer resp.Body.Close()
	b, err := io.ReadAll(resp.Body)
	return resp.StatusCode, b, err
}

func longString(h *hist, long bool) string {
	r := h.r
	if !long {
		return genString(r, false)
	}
	var sb strings.Builder
	for n := 300 + r.Intn(2500); sb.Len() < n; {
		sb.WriteString(genString(r, false))
		sb.WriteString(" lorem ipsum ")
	}
	return sb.String()
}

func autosaveCase(c *run.Ctx) run.Result {
	var res run.Result
	rr := c.SubRng(0xC12B)
	log.SetOutput(io.Discard) // GraphSaver logs every save
	cat := getCatalogue()
	var tString, tFloat, tConcat, tFmt *catType
	for _, t := range cat.types {
		switch {
		case t.IsParam && t.Out == outString && tString == nil:
			tString = t
		case t.IsParam && t.Out == outFloat && tFloat == nil:
			tFloat = t
		case t.Harness && strings.Contains(t.Type, "ConcatData"):
			tConcat = t
		case t.Harness && strings.Contains(t.Type, "FmtData[float64]"):
			tFmt = t
		}
	}
	if tString == nil || tFloat == nil || tConcat == nil || tFmt == nil {
		res.Inconclusive = "harness: node types for the autosave phase not in the catalogue"
		return res
	}
	nonce := fmt.Sprintf("autosave-%d-%x", c.Case, rr.Uint64())
	file := filepath.Join(c.ScratchDir(), nonce+".json")

	// ---- the graph file the editor is started on ---------------------------------------
	seed := &generator.App{Name: nonce, Version: "v0.1.0", Description: genString(rr, false)}
	g0 := generator.VerifGraph(seed)
	if p := run.Try(func() {
		for k := rr.Intn(4); k > 0; k-- {
			g0.CreateNode([]*catType{tString, tFloat, tConcat}[rr.Intn(3)].Type)
		}
	}); p != nil {
		res.Inconclusive = "harness: building the initial graph panicked: " + p.Value
		return res
	}
	initial := seed.Schema()
	if err := os.WriteFile(file, initial, 0o644); err != nil {
		res.Inconclusive = "harness: cannot write the initial graph file: " + err.Error()
		return res
	}
	app := &generator.App{Out: io.Discard}
	c.Note("start edit server with -autosave on " + file)
	srv, err := startEditServer(app, file, nonce)
	if err != nil {
		res.Inconclusive = "the edit server did not come up: " + err.Error()
		return res
	}
	h := &hist{c: c, res: &res, r: rr, cat: cat, app: app, g: generator.VerifGraph(app), byID: map[string]*hnode{}, meta: map[string]any{}, start: "graph file + edit -autosave", noReplay: true, autosave: "GraphSaver"}
	for id, n := range h.g.Schema().Nodes {
		if ct := cat.byType[n.Type]; ct != nil {
			hn := &hnode{id: id, t: ct, tame: true}
			h.nodes = append(h.nodes, hn)
			h.byID[id] = hn
		}
	}
	violate := func(class, site, input, detail string) { res.Violate(class, site, input, detail, h.witness()) }

	prevLen := len(initial)
	lastLong := map[string]bool{}
	// after an edit that the server answered with 200: the file is the schema
	check := func(opClass string) bool {
		onDisk, err := os.ReadFile(file)
		if err != nil {
			violate("autosaved-file-unreadable", "generator.GraphSaver.Save", opClass, "after "+lastOp(h.ops)+": "+err.Error())
			return false
		}
		var want []byte
		if p := run.Try(func() { want = app.Schema() }); p != nil {
			violate("save-panic", p.Site, "App.Schema", "App.Schema() panicked: "+p.Value+"\n"+p.Stack)
			return false
		}
		res.Count("autosaves_compared_with_the_file_on_disk", 1)
		shorter := prevLen >= 0 && len(want) < prevLen
		if shorter {
			res.Count("saves_shorter_than_the_previous_save", 1)
			res.SetAdd("edits_that_made_the_save_shorter", opClass)
		}
		if !bytes.Equal(onDisk, want) {
			detail := fmt.Sprintf("after %q the file on disk (%d bytes) is not App.Schema() (%d bytes; the save before had %d bytes): %s", lastOp(h.ops), len(onDisk), len(want), prevLen, firstDiff(string(want), string(onDisk)))
			if len(onDisk) > len(want) && bytes.HasPrefix(onDisk, want) {
				detail += fmt.Sprintf("; the file is the new schema followed by %d bytes of an earlier save", len(onDisk)-len(want))
			}
			violate("autosaved-file-differs-from-schema", "generator.GraphSaver.Save", opClass, detail)
			return false
		}
		prevLen = len(want)
		return true
	}
	post := func(opClass, method, path string, body []byte) bool {
		st, b, err := srv.do(method, path, body)
		if err != nil || st != 200 {
			res.Count("autosave_http_edits_not_answered_200", 1)
			h.logf("%s -> status %d %v %s", lastOp(h.ops), st, err, clip(string(b), 80))
			return false
		}
		res.Count("autosave_http_edits", 1)
		return check(opClass)
	}
	jsonBody := func(v any) []byte { b, _ := json.Marshal(v); return b }
	metaPath := func(path []string) string {
		esc := make([]string, len(path))
		for i, s := range path {
			esc[i] = url.PathEscape(s)
		}
		return "/graph/metadata/" + strings.Join(esc, "/")
	}
	mirrorSet := func(path []string, value any) bool {
		cur := h.meta
		for _, seg := range path[:len(path)-1] {
			v, ok := cur[seg]
			if !ok {
				nm := map[string]any{}
				cur[seg] = nm
				cur = nm
				continue
			}
			m, ok := v.(map[string]any)
			if !ok {
				return false
			}
			cur = m
		}
		cur[path[len(path)-1]] = deepCopy(value)
		return true
	}

	nops := 30 + rr.Intn(40)
	ok := true
	for op := 0; op < nops && ok; op++ {
		switch x := rr.Intn(100); {
		case x < 15 || len(h.nodes) == 0: // create
			ct := []*catType{tString, tString, tString, tConcat, tFloat, tFmt}[rr.Intn(6)]
			h.logf("POST /node %s", ct.Short)
			st, b, err := srv.do("POST", "/node", jsonBody(map[string]string{"nodeType": ct.Type}))
			var out struct {
				NodeID string `json:"nodeID"`
			}
			if err != nil || st != 200 || json.Unmarshal(b, &out) != nil || out.NodeID == "" {
				res.Count("autosave_http_edits_not_answered_200", 1)
				continue
			}
			res.Count("autosave_http_edits", 1)
			hn := &hnode{id: out.NodeID, t: ct, tame: true}
			h.nodes = append(h.nodes, hn)
			h.byID[hn.id] = hn
			ok = check("create node")
		case x < 40: // parameter value: long and short take turns
			n := h.pick(func(n *hnode) bool { return n.t.IsParam })
			if n == nil {
				continue
			}
			var body []byte
			if n.t == tString {
				long := !lastLong[n.id] && rr.Intn(4) != 0
				lastLong[n.id] = long
				body = jsonBody(longString(h, long))
			} else {
				body = []byte(f64([]float64{0, 1.5, 123456.789012345, -1e-7, 3}[rr.Intn(5)]))
			}
			h.logf("POST /parameter/value/%s <%d bytes>", n.id, len(body))
			ok = post("parameter value", "POST", "/parameter/value/"+n.id, body)
		case x < 50: // name / description
			n := h.pick(func(n *hnode) bool { return n.t.IsParam })
			if n == nil {
				continue
			}
			what := []string{"name", "description"}[rr.Intn(2)]
			key := what + n.id
			long := !lastLong[key] && rr.Intn(3) != 0
			lastLong[key] = long
			s := longString(h, long)
			h.logf("POST /parameter/%s/%s <%d bytes>", what, n.id, len(s))
			ok = post("parameter "+what, "POST", "/parameter/"+what+"/"+n.id, []byte(s))
		case x < 65: // connect
			tgt := h.pick(func(n *hnode) bool { return n.t == tConcat || n.t == tFmt })
			if tgt == nil {
				continue
			}
			var src *hnode
			port := "In"
			if tgt.t == tFmt {
				src = h.pick(func(n *hnode) bool { return n.t == tFloat })
			} else {
				src = h.pick(func(n *hnode) bool { return n.t == tString || n.t == tFmt })
				switch rr.Intn(4) {
				case 0:
					port = "A"
				case 1:
					port = "B"
				default:
					port = fmt.Sprintf("Values.%d", h.arrLen(tgt.id, "Values"))
				}
			}
			if src == nil {
				continue
			}
			h.logf("POST /node/connection %s.Out -> %s.%s", src.id, tgt.id, port)
			ok = post("connect", "POST", "/node/connection", jsonBody(map[string]string{"nodeOutId": src.id, "outPortName": "Out", "nodeInId": tgt.id, "inPortName": port}))
		case x < 73: // disconnect
			n := h.pick(func(n *hnode) bool { return len(h.deps(n.id)) > 0 })
			if n == nil {
				continue
			}
			ds := h.deps(n.id)
			d := ds[rr.Intn(len(ds))]
			h.logf("DELETE /node/connection %s.%s", n.id, d.name)
			ok = post("disconnect", "DELETE", "/node/connection", jsonBody(map[string]string{"nodeId": n.id, "inPortName": d.name}))
		case x < 88: // metadata
			var path []string
			var value any
			switch rr.Intn(3) {
			case 0:
				path = []string{"nodes", h.nodes[rr.Intn(len(h.nodes))].id, "position"}
				value = map[string]any{"x": tameFloat(rr) * 200, "y": tameFloat(rr) * 200}
			case 1:
				path = []string{"notes", fmt.Sprintf("note-%d", rr.Intn(3))}
				value = map[string]any{"text": longString(h, rr.Intn(2) == 0), "width": float64(rr.Intn(400))}
			default:
				path = []string{"custom", fmt.Sprintf("k%d", rr.Intn(4))}
				value, _ = genMetaEdge(rr)
				if rr.Intn(2) == 0 {
					value = genMetaValue(rr, 0)
				}
			}
			body := jsonBody(value)
			var back any
			if json.Unmarshal(body, &back) != nil || !mirrorSet(path, back) {
				continue
			}
			h.logf("POST %s <%d bytes>", metaPath(path), len(body))
			h.metaOps++
			ok = post("set metadata", "POST", metaPath(path), body)
		case x < 94: // delete metadata
			var paths [][]string
			for k, v := range h.meta {
				if sub, isMap := v.(map[string]any); isMap {
					for k2 := range sub {
						paths = append(paths, []string{k, k2})
					}
				}
			}
			if len(paths) == 0 {
				continue
			}
			sortPaths(paths)
			p := paths[rr.Intn(len(paths))]
			delete(h.meta[p[0]].(map[string]any), p[1])
			h.logf("DELETE %s", metaPath(p))
			ok = post("delete metadata", "DELETE", metaPath(p), nil)
		default: // delete a node nothing depends on
			n := h.pick(func(n *hnode) bool { return h.dependents(n.id) == 0 })
			if n == nil {
				continue
			}
			h.logf("DELETE /node %s", n.id)
			delete(h.byID, n.id)
			for i, o := range h.nodes {
				if o == n {
					h.nodes = append(h.nodes[:i], h.nodes[i+1:]...)
					break
				}
			}
			ok = post("delete node", "DELETE", "/node", jsonBody(map[string]string{"nodeID": n.id}))
		}
	}
	res.Count("autosave_histories", 1)
	res.Nontrivial = true
	res.Sig = fmt.Sprintf("autosave/n%s/ops%s/meta%v", bucket(len(h.nodes)), bucket(nops), h.metaOps > 0)
	res.Sample = map[string]any{"ops": nops, "nodes_at_the_end": len(h.nodes), "last_save_bytes": prevLen}
	if !ok {
		return res
	}
	// ---- the file the editor left behind loads, and is the graph that was edited ----------
	onDisk, err := os.ReadFile(file)
	if err != nil {
		return res
	}
	c.SaveInput(onDisk)
	orig, p := observe(app, h.g)
	if p != nil {
		violate("observer-panic", p.Site, "served application", "reading the served application through its observers panicked: "+p.Value+"\n"+p.Stack)
		return res
	}
	app2, g2, err, p := reload(onDisk)
	if p != nil {
		violate("reload-panic", p.Site, "App.ApplySchema of the autosaved file", "loading the autosaved file into a fresh application panicked: "+p.Value+"\n"+p.Stack)
		return res
	}
	if err != nil {
		violate("autosaved-file-does-not-load", "generator.GraphSaver.Save", "App.ApplySchema of the autosaved file", "loading the autosaved file into a fresh application failed: "+err.Error())
		return res
	}
	res.Count("autosaved_files_loaded_into_a_fresh_application", 1)
	re, p := observe(app2, g2)
	if p != nil {
		violate("observer-panic", p.Site, "reloaded application", "reading the reloaded application through its observers panicked: "+p.Value+"\n"+p.Stack)
		return res
	}
	checkPostedMetadata(&res, h, onDisk, orig, re)
	for _, d := range diff(orig, re) {
		violate(d.class, d.site, "autosaved file", d.detail)
	}
	return res
}

func sortPaths(paths [][]string) {
	for i := 1; i < len(paths); i++ {
		for j := i; j > 0 && strings.Join(paths[j], ".") < strings.Join(paths[j-1], "."); j-- {
			paths[j], paths[j-1] = paths[j-1], paths[j]
		}
	}
}
