package c12

import (
	"sort"
	"strings"
	"sync"

	"github.com/EliCDavis/polyform/generator"
)

// The catalogue of registered node types, read once per process from polyform's
// own description of them (graph.Instance.Schema().Types). It only drives the
// workload (what can be created and wired to what); it is never an oracle.

type catInput struct {
	Name  string
	Type  string
	Array bool
}

type catType struct {
	Type    string
	Short   string // readable name for evidence
	Out     string // type of the "Out" port ("" if none)
	Inputs  []catInput
	IsParam bool
	Harness bool
	// NoEval: the node draws from math/rand or the clock by design, or decodes
	// arbitrary file bytes; producers that depend on it are not generated (DESIGN:
	// artifacts are compared "for nodes that are deterministic functions of their inputs").
	NoEval bool
}

type catalogue struct {
	types    []*catType
	byType   map[string]*catType
	byOut    map[string][]*catType // producers of an output type
	params   []*catType
	artifact []*catType
}

const artifactType = "github.com/EliCDavis/polyform/generator/artifact.Artifact"

var (
	catOnce sync.Once
	cat     *catalogue
)

func shortType(t string) string {
	// nodes.Struct[X,pkg/path.FooData[...]] -> path.FooData[...]; parameter.Value[T] -> parameter.Value[T]
	s := t
	if i := strings.Index(s, "nodes.Struct["); i >= 0 {
		inner := s[i+len("nodes.Struct[") : len(s)-1]
		// second type argument: after the top-level comma
		depth := 0
		for k := 0; k < len(inner); k++ {
			switch inner[k] {
			case '[':
				depth++
			case ']':
				depth--
			case ',':
				if depth == 0 {
					s = inner[k+1:]
					k = len(inner)
				}
			}
		}
	}
	s = strings.ReplaceAll(s, "github.com/EliCDavis/polyform/", "")
	s = strings.ReplaceAll(s, "github.com/EliCDavis/vector/", "")
	s = strings.ReplaceAll(s, "polyverif/internal/", "")
	return s
}

func getCatalogue() *catalogue {
	catOnce.Do(func() {
		app := &generator.App{}
		g := generator.VerifGraph(app)
		s := g.Schema()
		c := &catalogue{byType: map[string]*catType{}, byOut: map[string][]*catType{}}
		for _, t := range s.Types {
			ct := &catType{Type: t.Type, Short: shortType(t.Type), IsParam: t.Parameter != nil, Harness: isHarnessType(t.Type)}
			for _, o := range t.Outputs {
				if o.Name == "Out" {
					ct.Out = o.Type
				}
			}
			for n, in := range t.Inputs {
				ct.Inputs = append(ct.Inputs, catInput{Name: n, Type: in.Type, Array: in.IsArray})
			}
			sort.Slice(ct.Inputs, func(i, j int) bool { return ct.Inputs[i].Name < ct.Inputs[j].Name })
			if strings.Contains(t.Type, "experimental.BrushedMetalNodeNodeData") || strings.Contains(t.Type, "experimental.SeamlessPerlinNodeData") {
				ct.NoEval = true
			}
			// Decoders of arbitrary bytes (a garbage STL header makes stl.Read allocate
			// by the declared count): hostile files are C08/C14's domain, not C12's.
			for _, rd := range []string{"colmap.ReadPointsNodeData", "opensfm.ReadReconstructionNodeData", "ply.ReadNodeData", "spz.ReadNodeData", "stl.ReadNodeData"} {
				if strings.Contains(t.Type, rd) {
					ct.NoEval = true
				}
			}
			c.types = append(c.types, ct)
			c.byType[ct.Type] = ct
			if ct.Out != "" {
				c.byOut[ct.Out] = append(c.byOut[ct.Out], ct)
			}
			if ct.IsParam {
				c.params = append(c.params, ct)
			}
			if ct.Out == artifactType {
				c.artifact = append(c.artifact, ct)
			}
		}
		cat = c
	})
	return cat
}
