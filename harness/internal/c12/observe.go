package c12

import (
	"bytes"
	"encoding/base64"
	"encoding/binary"
	"encoding/json"
	"fmt"
	"sort"
	"strconv"
	"strings"

	"github.com/EliCDavis/jbtf"
	"github.com/EliCDavis/polyform/drawing/coloring"
	"github.com/EliCDavis/polyform/generator"
	"github.com/EliCDavis/polyform/generator/graph"
	"github.com/EliCDavis/polyform/generator/parameter"
	"github.com/EliCDavis/polyform/generator/schema"
	"github.com/EliCDavis/polyform/math/geometry"
	"github.com/EliCDavis/polyform/nodes"
	"github.com/EliCDavis/vector/vector2"
	"github.com/EliCDavis/vector/vector3"
	"polyverif/internal/run"
)

// What "the same graph" means: everything below is read from an application
// through public observers only (graph.Instance.Schema / Node / Parameter /
// ProducerNames / Producer / EncodeToAppSchema and the exported App fields).

type nodeSnap struct {
	Type    string
	Name    string            // Schema() display name (parameter name / producer file name / node name)
	Deps    map[string]string // input name (array inputs: "Values.3") -> "Node-7:Out"
	IsParam bool
	Message []byte // Parameter.ToMessage()
	PSchema string // canonical JSON of Parameter.Schema(): name, description, type, default and current value
	PName   string // Parameter.DisplayName()
	PValue  string // exact rendering of the parameter's Value() (independent of its JSON form)
}

// paramValue renders the Go value a parameter node currently outputs.
func paramValue(n nodes.Node) (string, bool) {
	switch p := n.(type) {
	case *parameter.Value[string]:
		return render(p.Value()), true
	case *parameter.Value[int]:
		return render(p.Value()), true
	case *parameter.Value[float64]:
		return render(p.Value()), true
	case *parameter.Value[bool]:
		return render(p.Value()), true
	case *parameter.Value[vector3.Float64]:
		return render(p.Value()), true
	case *parameter.Value[vector2.Float64]:
		return render(p.Value()), true
	case *parameter.Value[[]vector3.Float64]:
		return render(p.Value()), true
	case *parameter.Value[geometry.AABB]:
		return render(p.Value()), true
	case *parameter.Value[coloring.WebColor]:
		return render(p.Value()), true
	case *parameter.File:
		return render(p.Value()), true
	case *parameter.Image:
		return render(p.Value()), true
	}
	return "", false
}

type snapshot struct {
	Nodes     map[string]*nodeSnap
	Producers map[string]string // file name -> "Node-3:Out"
	Metadata  string            // canonical JSON of the whole metadata tree
	Notes     string            // Schema().Notes
	NodeMeta  map[string]string // Schema().Nodes[id].Metadata
	App       string            // name / version / description / authors / web scene
}

func canon(v any) string {
	b, err := json.Marshal(v)
	if err != nil {
		return "unmarshalable: " + err.Error()
	}
	return string(b)
}

func observe(app *generator.App, g *graph.Instance) (s *snapshot, p *run.PanicInfo) {
	s = &snapshot{Nodes: map[string]*nodeSnap{}, Producers: map[string]string{}, NodeMeta: map[string]string{}}
	p = run.Try(func() {
		gs := g.Schema()
		for id, ni := range gs.Nodes {
			node := g.Node(id)
			ns := &nodeSnap{Type: ni.Type, Name: ni.Name, Deps: map[string]string{}}
			for _, d := range node.Dependencies() {
				ns.Deps[d.Name()] = g.NodeId(d.Dependency()) + ":" + d.DependencyPort()
			}
			if param, ok := node.(graph.Parameter); ok {
				ns.IsParam = true
				ns.Message = param.ToMessage()
				ns.PSchema = canon(param.Schema())
				ns.PName = param.DisplayName()
				ns.PValue, _ = paramValue(node)
			}
			s.Nodes[id] = ns
			if ni.Metadata != nil {
				s.NodeMeta[id] = canon(ni.Metadata)
			}
		}
		namesOf := map[string][]string{}
		for _, name := range g.ProducerNames() {
			pr := g.Producer(name)
			id := g.NodeId(pr.Node())
			s.Producers[name] = id + ":" + pr.Port()
			namesOf[id] = append(namesOf[id], name)
		}
		// A node published under several producer names (round 11, C12-P) has no single display name: Schema()
		// reports whichever name the map iteration yields first, on the unchanged tree and within one instance.
		// Its observed name is the sorted set of its producer names, which a reload must preserve.
		for id, names := range namesOf {
			if ns := s.Nodes[id]; ns != nil && len(names) >= 2 {
				sort.Strings(names)
				ns.Name = "<published as " + strings.Join(names, " | ") + ">"
			}
		}
		s.Notes = canon(gs.Notes)
		var as schema.App
		g.EncodeToAppSchema(&as, &jbtf.Encoder{})
		md := as.Metadata
		if len(md) == 0 {
			md = nil // an absent tree and an empty tree are the same tree
		}
		s.Metadata = canon(md)
		authors := app.Authors
		if len(authors) == 0 {
			authors = nil // no authors is no authors
		}
		s.App = canon(map[string]any{"name": app.Name, "version": app.Version, "description": app.Description, "authors": authors, "webScene": app.WebScene})
	})
	return
}

type difference struct {
	class, site, detail string
	id                  string // node concerned, if any
}

// snapCone: the ids node id transitively depends on, by the observed wiring.
func snapCone(s *snapshot, id string) map[string]bool {
	seen := map[string]bool{}
	var walk func(string)
	walk = func(x string) {
		if seen[x] {
			return
		}
		seen[x] = true
		if n := s.Nodes[x]; n != nil {
			for _, src := range n.Deps {
				walk(strings.SplitN(src, ":", 2)[0])
			}
		}
	}
	walk(id)
	return seen
}

func splitArray(name string) (string, int, bool) {
	dot := strings.LastIndex(name, ".")
	if dot < 0 {
		return name, 0, false
	}
	k, err := strconv.Atoi(name[dot+1:])
	if err != nil {
		return name, 0, false
	}
	return name[:dot], k, true
}

func sortedKeys[V any](m map[string]V) []string {
	out := make([]string, 0, len(m))
	for k := range m {
		out = append(out, k)
	}
	sort.Strings(out)
	return out
}

func clip(s string, n int) string {
	if len(s) > n {
		return s[:n] + "…"
	}
	return s
}

// diff lists how the reloaded application differs from the one that was saved.
func diff(orig, re *snapshot) []difference {
	var out []difference
	cur := ""
	add := func(class, site, format string, a ...any) {
		out = append(out, difference{class: class, site: site, detail: fmt.Sprintf(format, a...), id: cur})
	}
	for _, id := range sortedKeys(orig.Nodes) {
		cur = id
		o := orig.Nodes[id]
		r, ok := re.Nodes[id]
		if !ok {
			add("node-missing-after-reload", "graph.Instance.ApplyAppSchema", "node %s (%s) does not exist in the reloaded graph", id, shortType(o.Type))
			continue
		}
		if o.Type != r.Type {
			add("node-type-differs", "graph.Instance.ApplyAppSchema", "node %s: type %s became %s", id, o.Type, r.Type)
		}
		if !mapsEqual(o.Deps, r.Deps) {
			// same sources in another order within an array input?
			perm := false
			for in, osrcs := range arrays(o.Deps) {
				rsrcs := arrays(r.Deps)[in]
				if len(osrcs) == len(rsrcs) && !equalStrings(osrcs, rsrcs) && equalStrings(sortedCopy(osrcs), sortedCopy(rsrcs)) {
					perm = true
					if len(osrcs) > 40 {
						k, moved := 0, 0
						for x := range osrcs {
							if osrcs[x] != rsrcs[x] {
								if moved == 0 {
									k = x
								}
								moved++
							}
						}
						lo, hi := imax(0, k-2), imin(len(osrcs), k+10)
						add("array-input-order-differs", "graph.Instance.buildNodeGraphInstanceSchema (dependency order)",
							"node %s (%s) input %q with %d connections: %d positions hold another source after reload, the first is position %d; saved order at positions %d..%d: %v, reloaded: %v", id, shortType(o.Type), in, len(osrcs), moved, k, lo, hi-1, osrcs[lo:hi], rsrcs[lo:hi])
						continue
					}
					add("array-input-order-differs", "graph.Instance.buildNodeGraphInstanceSchema (dependency order)",
						"node %s (%s) input %q with %d connections: saved order %v, reloaded order %v", id, shortType(o.Type), in, len(osrcs), osrcs, rsrcs)
				}
			}
			if !perm {
				add("wiring-differs", "graph.Instance.ApplyAppSchema", "node %s (%s): inputs %v became %v", id, shortType(o.Type), renderDeps(o.Deps), renderDeps(r.Deps))
			}
		}
		if o.Name != r.Name {
			add("node-name-differs", "graph.Instance.Schema", "node %s: name %q became %q", id, o.Name, r.Name)
		}
		if o.IsParam != r.IsParam {
			add("node-type-differs", "graph.Instance.ApplyAppSchema", "node %s: parameter-ness changed", id)
			continue
		}
		if o.IsParam {
			if !bytes.Equal(o.Message, r.Message) {
				add("parameter-value-differs", "Parameter.ToJSON/FromJSON "+paramKind(o.Type), "parameter %s (%s): ToMessage() of %d bytes became %d bytes, first difference at offset %d: %s", id, shortType(o.Type), len(o.Message), len(r.Message), firstDiffAt(o.Message, r.Message), firstDiff(string(o.Message), string(r.Message)))
			}
			if o.PValue != r.PValue && bytes.Equal(o.Message, r.Message) {
				add("parameter-value-differs", "Parameter.ToJSON/FromJSON "+paramKind(o.Type), "parameter %s (%s): Value() %s became %s (ToMessage() is %q on both sides)", id, shortType(o.Type), clip(o.PValue, 300), clip(r.PValue, 300), clip(string(o.Message), 100))
			}
			if o.PName != r.PName {
				add("parameter-name-differs", "Parameter.ToJSON/FromJSON "+paramKind(o.Type), "parameter %s: name %q became %q", id, o.PName, r.PName)
			}
			if o.PSchema != r.PSchema {
				add("parameter-schema-differs", "Parameter.ToJSON/FromJSON "+paramKind(o.Type), "parameter %s (%s): Schema() %s became %s", id, shortType(o.Type), clip(o.PSchema, 400), clip(r.PSchema, 400))
			}
		}
		if orig.NodeMeta[id] != re.NodeMeta[id] {
			add("metadata-differs", "graph.Instance.NodeInstanceSchema", "node %s: metadata %s became %s", id, clip(orig.NodeMeta[id], 300), clip(re.NodeMeta[id], 300))
		}
	}
	cur = ""
	for _, id := range sortedKeys(re.Nodes) {
		if _, ok := orig.Nodes[id]; !ok {
			add("node-appeared-after-reload", "graph.Instance.ApplyAppSchema", "node %s (%s) exists only in the reloaded graph", id, shortType(re.Nodes[id].Type))
		}
	}
	if !mapsEqual(orig.Producers, re.Producers) {
		add("producers-differ", "graph.Instance.ApplyAppSchema", "producers %v became %v", renderDeps(orig.Producers), renderDeps(re.Producers))
	}
	if orig.Metadata != re.Metadata {
		add("metadata-differs", "graph.Instance metadata", "metadata tree %s became %s", clip(orig.Metadata, 600), clip(re.Metadata, 600))
	}
	if orig.Notes != re.Notes {
		add("metadata-differs", "graph.Instance.Schema notes", "notes %s became %s", clip(orig.Notes, 300), clip(re.Notes, 300))
	}
	if orig.App != re.App {
		add("app-fields-differ", "App.ApplySchema", "application fields %s became %s", clip(orig.App, 400), clip(re.App, 400))
	}
	return out
}

func paramKind(t string) string {
	switch {
	case strings.Contains(t, "parameter.File"):
		return "(parameter.File)"
	case strings.Contains(t, "parameter.Image"):
		return "(parameter.Image)"
	}
	return "(parameter.Value)"
}

func mapsEqual(a, b map[string]string) bool {
	if len(a) != len(b) {
		return false
	}
	for k, v := range a {
		if w, ok := b[k]; !ok || w != v {
			return false
		}
	}
	return true
}

func renderDeps(m map[string]string) string {
	var p []string
	for _, k := range sortedKeys(m) {
		p = append(p, k+"="+m[k])
	}
	return "{" + strings.Join(p, " ") + "}"
}

// arrays groups the array-input entries of a dependency map by input name, in position order.
func arrays(deps map[string]string) map[string][]string {
	type ent struct {
		k   int
		src string
	}
	tmp := map[string][]ent{}
	for name, src := range deps {
		if in, k, ok := splitArray(name); ok {
			tmp[in] = append(tmp[in], ent{k, src})
		}
	}
	out := map[string][]string{}
	for in, es := range tmp {
		sort.Slice(es, func(i, j int) bool { return es[i].k < es[j].k })
		for _, e := range es {
			out[in] = append(out[in], e.src)
		}
	}
	return out
}

func equalStrings(a, b []string) bool {
	if len(a) != len(b) {
		return false
	}
	for i := range a {
		if a[i] != b[i] {
			return false
		}
	}
	return true
}

func sortedCopy(a []string) []string {
	c := append([]string{}, a...)
	sort.Strings(c)
	return c
}

// ---- artifacts ------------------------------------------------------------------

type artifactResult struct {
	data  []byte
	err   string // error of Write
	panic string // panic value while generating / writing (a reported failure of the node, same on both sides if the graphs are the same)
}

func (a artifactResult) outcome() string {
	switch {
	case a.panic != "":
		return "panic: " + a.panic
	case a.err != "":
		return "error: " + a.err
	}
	return fmt.Sprintf("%d bytes", len(a.data))
}

func generate(g *graph.Instance, name string) artifactResult {
	var res artifactResult
	var buf bytes.Buffer
	p := run.Try(func() {
		a := g.Artifact(name)
		if a == nil {
			res.err = "nil artifact"
			return
		}
		if err := a.Write(&buf); err != nil {
			res.err = err.Error()
		}
	})
	if p != nil {
		res.panic = p.Value
	}
	res.data = buf.Bytes()
	return res
}

// sameArtifact compares two artifacts of the producer called name. .glb files are
// compared after parsing (DESIGN C12 (ii)): the JSON chunk as a value with
// extensionsUsed / extensionsRequired as sets, the BIN chunk byte for byte.
func sameArtifact(name string, a, b artifactResult) (bool, string) {
	if a.panic != b.panic || a.err != b.err {
		return false, fmt.Sprintf("outcome %q vs %q", a.outcome(), b.outcome())
	}
	if bytes.Equal(a.data, b.data) {
		return true, ""
	}
	if strings.HasSuffix(strings.ToLower(name), ".glb") || isGLB(a.data) {
		ja, ba, erra := parseGLB(a.data)
		jb, bb, errb := parseGLB(b.data)
		if erra == nil && errb == nil {
			if ja != jb {
				return false, "glb JSON chunk differs: " + firstDiff(ja, jb)
			}
			if !bytes.Equal(ba, bb) {
				return false, fmt.Sprintf("glb BIN chunk differs (%d vs %d bytes, first difference at %d)", len(ba), len(bb), firstDiffAt(ba, bb))
			}
			return true, ""
		}
	}
	return false, fmt.Sprintf("%d vs %d bytes, first difference at offset %d: %s", len(a.data), len(b.data), firstDiffAt(a.data, b.data), firstDiff(string(a.data), string(b.data)))
}

func firstDiffAt(a, b []byte) int {
	n := len(a)
	if len(b) < n {
		n = len(b)
	}
	for i := 0; i < n; i++ {
		if a[i] != b[i] {
			return i
		}
	}
	return n
}

func firstDiff(a, b string) string {
	i := firstDiffAt([]byte(a), []byte(b))
	lo := i - 40
	if lo < 0 {
		lo = 0
	}
	hiA, hiB := i+60, i+60
	if hiA > len(a) {
		hiA = len(a)
	}
	if hiB > len(b) {
		hiB = len(b)
	}
	return fmt.Sprintf("…%q vs …%q", a[lo:hiA], b[lo:hiB])
}

func isGLB(b []byte) bool { return len(b) >= 12 && string(b[:4]) == "glTF" }

// parseGLB splits a binary glTF container (12-byte header, then chunks of
// {uint32 length, uint32 type, data}) and returns the JSON chunk in canonical
// form and the BIN chunk.
func parseGLB(b []byte) (canonJSON string, bin []byte, err error) {
	if !isGLB(b) {
		return "", nil, fmt.Errorf("not a glb")
	}
	total := int(binary.LittleEndian.Uint32(b[8:12]))
	if total > len(b) {
		return "", nil, fmt.Errorf("glb length field %d > %d", total, len(b))
	}
	off := 12
	var js []byte
	for off+8 <= total {
		l := int(binary.LittleEndian.Uint32(b[off : off+4]))
		typ := binary.LittleEndian.Uint32(b[off+4 : off+8])
		off += 8
		if off+l > len(b) {
			return "", nil, fmt.Errorf("glb chunk overruns file")
		}
		switch typ {
		case 0x4E4F534A: // JSON
			js = b[off : off+l]
		case 0x004E4942: // BIN
			bin = b[off : off+l]
		}
		off += l
	}
	var v map[string]any
	dec := json.NewDecoder(bytes.NewReader(js))
	dec.UseNumber()
	if err := dec.Decode(&v); err != nil {
		return "", nil, err
	}
	for _, k := range []string{"extensionsUsed", "extensionsRequired"} {
		if l, ok := v[k].([]any); ok {
			ss := make([]string, 0, len(l))
			for _, e := range l {
				ss = append(ss, fmt.Sprint(e))
			}
			sort.Strings(ss)
			v[k] = ss
		}
	}
	return canon(v), bin, nil
}

// ---- saved files ----------------------------------------------------------------

// resolveBuffers parses a saved graph and replaces every {"$bufferView": n}-style
// reference by the bytes it points to, so that two files that differ only in the
// layout of their binary buffers compare equal.
func resolveBuffers(file []byte) (string, error) {
	var f struct {
		Buffers []struct {
			ByteLength int    `json:"byteLength"`
			URI        string `json:"uri"`
		} `json:"buffers"`
		BufferViews []struct {
			Buffer     int `json:"buffer"`
			ByteOffset int `json:"byteOffset"`
			ByteLength int `json:"byteLength"`
		} `json:"bufferViews"`
		Data any `json:"data"`
	}
	if err := json.Unmarshal(file, &f); err != nil {
		return "", err
	}
	var bufs [][]byte
	for _, b := range f.Buffers {
		const pre = "base64,"
		i := strings.Index(b.URI, pre)
		if i < 0 {
			bufs = append(bufs, nil)
			continue
		}
		raw, err := base64.StdEncoding.DecodeString(b.URI[i+len(pre):])
		if err != nil {
			return "", err
		}
		bufs = append(bufs, raw)
	}
	var walk func(v any) any
	walk = func(v any) any {
		switch x := v.(type) {
		case map[string]any:
			for k, e := range x {
				if strings.HasPrefix(k, "$") {
					if idx, ok := e.(float64); ok && int(idx) >= 0 && int(idx) < len(f.BufferViews) {
						bv := f.BufferViews[int(idx)]
						if bv.Buffer < len(bufs) && bv.ByteOffset+bv.ByteLength <= len(bufs[bv.Buffer]) {
							x[k] = "bytes:" + base64.StdEncoding.EncodeToString(bufs[bv.Buffer][bv.ByteOffset:bv.ByteOffset+bv.ByteLength])
							continue
						}
					}
				}
				x[k] = walk(e)
			}
			return x
		case []any:
			for i, e := range x {
				x[i] = walk(e)
			}
			return x
		}
		return v
	}
	return canon(walk(f.Data)), nil
}

// fileViewInSavedGraph looks up, in a saved graph file, the buffer view that holds
// the current value of the parameter.File node id, and returns its bytes and the
// bytes from its start to the end of its buffer.
func fileViewInSavedGraph(file []byte, id string) (view, toEnd []byte, ok bool) {
	var f struct {
		Buffers []struct {
			URI string `json:"uri"`
		} `json:"buffers"`
		BufferViews []struct {
			Buffer     int `json:"buffer"`
			ByteOffset int `json:"byteOffset"`
			ByteLength int `json:"byteLength"`
		} `json:"bufferViews"`
		Data struct {
			Nodes map[string]struct {
				Data map[string]any `json:"data"`
			} `json:"nodes"`
		} `json:"data"`
	}
	if json.Unmarshal(file, &f) != nil {
		return nil, nil, false
	}
	n, found := f.Data.Nodes[id]
	if !found {
		return nil, nil, false
	}
	idx, isNum := n.Data["$CurrentValue"].(float64)
	if !isNum || int(idx) < 0 || int(idx) >= len(f.BufferViews) {
		return nil, nil, false
	}
	bv := f.BufferViews[int(idx)]
	if bv.Buffer < 0 || bv.Buffer >= len(f.Buffers) {
		return nil, nil, false
	}
	const pre = "base64,"
	uri := f.Buffers[bv.Buffer].URI
	k := strings.Index(uri, pre)
	if k < 0 {
		return nil, nil, false
	}
	raw, err := base64.StdEncoding.DecodeString(uri[k+len(pre):])
	if err != nil || bv.ByteOffset+bv.ByteLength > len(raw) {
		return nil, nil, false
	}
	return raw[bv.ByteOffset : bv.ByteOffset+bv.ByteLength], raw[bv.ByteOffset:], true
}
