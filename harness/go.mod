module polyverif

go 1.22

require (
	github.com/EliCDavis/iter v1.0.2
	github.com/EliCDavis/jbtf v0.2.0
	github.com/EliCDavis/polyform v0.0.0
	github.com/EliCDavis/vector v1.8.0
	github.com/anishathalye/porcupine v1.3.0
)

replace github.com/EliCDavis/polyform => /repo
