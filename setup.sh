#!/bin/bash
# Offline setup after a fresh restore: pre-warm the Go build cache for every monitor binary.
cd "$(dirname "$0")"
export GOFLAGS=-mod=mod GOPROXY=off GOSUMDB=off GOTOOLCHAIN=local
mkdir -p .build evidence replays
cd harness || exit 1
go build -tags verif ./... || exit 1
for d in cmd/c10 cmd/c13; do [ -d "$d" ] && go build -race -tags verif -o /dev/null "./$d"; done
exit 0
