#!/bin/bash
# tools/sweep.sh <tier> "<seeds>" [ids...]   — run the registered checks at several seeds; one line per run.
cd "$(dirname "$0")/.."
tier="${1:-quick}"; seeds="${2:-1}"; shift; shift
ids="$*"; [ -z "$ids" ] && ids="$(grep -v '^#' tools/READY | tr '\n' ' ')"
mkdir -p .build/sweep
for s in $seeds; do for id in $ids; do
  t0=$(date +%s)
  VERIF_SEED=$s ./run.sh $id $tier > .build/sweep/$id-$tier-$s.log 2>&1; rc=$?
  t1=$(date +%s)
  echo "$id $tier seed=$s exit=$rc $((t1-t0))s $(grep -c '^VIOLATION' .build/sweep/$id-$tier-$s.log) violations $(grep -c '^KNOWN-FINDING' .build/sweep/$id-$tier-$s.log) known $(grep -c '^INCONCLUSIVE' .build/sweep/$id-$tier-$s.log) inconclusive-lines"
done; done
