#!/bin/bash
# tools/seedimport.sh <Cxx> <A|B>  — copy an independently written breaking change from /tmp/seed-cxx/out/<A|B> into
# /verif/seeded/<Cxx>-<A|B>/ (patch.diff, demo/, NOTES.md, meta.json) and validate it with tools/seedcheck.sh.
set -u
pid="$1"; l="$2"; low="$(echo $pid | tr A-Z a-z)"
src="/tmp/seed-$low/out/$l"; dst="/verif/seeded/$pid-$l"
[ -f "$src/patch.diff" ] || { echo "no $src/patch.diff"; exit 1; }
rm -rf "$dst"; mkdir -p "$dst"
cp "$src/patch.diff" "$dst/"; cp -r "$src/demo" "$dst/demo"; cp "$src/NOTES.md" "$dst/" 2>/dev/null
rm -f "$dst/demo/go.sum"
sed -i "s|=> .*|=> /repo|" "$dst/demo/go.mod"
needs_race=false; grep -qi -- "-race" "$dst/NOTES.md" 2>/dev/null && grep -qiE "needs? (the )?-race|run with .*-race|requires? -race" "$dst/NOTES.md" && needs_race=true
python3 - "$pid" "$l" "$dst" "$needs_race" <<'P'
import json,sys,os
pid,l,dst,nr=sys.argv[1:5]
notes=open(os.path.join(dst,'NOTES.md')).read() if os.path.exists(os.path.join(dst,'NOTES.md')) else ''
files=[x[6:].strip() for x in open(os.path.join(dst,'patch.diff')) if x.startswith('+++ b/')]
json.dump({"id":f"{pid}-{l}","breaks_property":pid,"files_changed":files,"needs_race":nr=="true",
 "needs_to_manifest":"see notes","notes":notes,
 "origin":"written by an independent sub-agent that was given only the property text and a scratch worktree (nothing from /verif)",
 "validated_by":"tools/seedcheck.sh (scratch worktree of /repo HEAD: patch applies, unedited suite passes, demo fails with the change and passes without)",
 "our_checks":{}},open(os.path.join(dst,'meta.json'),'w'),indent=1)
P
/verif/tools/seedcheck.sh "$dst" "$pid" quick
